#!/usr/bin/env python3
"""Regenerates MANIFEST.json from props.py (single source of per-property configuration)."""
import json, os, sys
ROOT = os.path.dirname(os.path.abspath(__file__))
sys.path.insert(0, ROOT)
from props import PROPS, NOT_APPLICABLE, HOOK_COMMITS

checks = []
for pid in sorted(PROPS):
    c = PROPS[pid]
    checks.append({
        "property_id": pid,
        "quick_cmd": "./check %s --tier quick" % pid,
        "thorough_cmd": "./check %s --tier thorough" % pid,
        "evidence_file": "/verif/evidence/%s.json" % pid,
        "replay_cmd_template": "./check %s --replay {path}" % pid,
        "engine": "coq-proof+correspondence",
        "level_claimed": {"category": "proof", "text": c["level_text"], "design_ref": c.get("design_ref", "DESIGN.md §8 " + pid)},
        "level_note": c["level_note"],
        "technique": c.get("technique", "machine-checked proof in Coq 8.16.1 of an executable Gallina model + per-run model/implementation correspondence check (vm_compute)"),
    })
m = {
    "version": 1,
    "setup_cmd": "./setup.sh",
    "hooks": {
        "guard": "verif",
        "enable": "go build -tags verif (the harness module replaces gorm.io/gorm by /repo)",
        "baseline_off_cmd": "for m in $(cat /w/out/gomods.txt); do MF=$(cd /repo/$m && . /w/out/goenv.sh && gomodflag); (cd /repo/$m && go test $MF -json -vet=off -count=1 -timeout 25m ./...); done",
        "source_commits": HOOK_COMMITS,
        "add_only": True,
    },
    "engines": [
        {"name": "coq-proof+correspondence", "path": "/verif/check",
         "serves_properties": sorted(PROPS),
         "kind_free_text": "Coq 8.16.1 theories under coq/theories (models, proofs, Props_Cxx.v theorem files); Go harness under harness/ runs the real gorm from /repo (SQLite through a recording driver, or dummy dialects) and writes cases_*.v; coqc evaluates model and specification on every case with vm_compute"},
    ],
    "checks": checks,
    "not_applicable": NOT_APPLICABLE,
    "notes": "Every check rebuilds the harness from /repo's working tree. work/ is scratch. See DESIGN.md.",
}
json.dump(m, open(os.path.join(ROOT, "MANIFEST.json"), "w"), indent=1)
print("MANIFEST.json: %d checks, %d not_applicable" % (len(checks), len(NOT_APPLICABLE)))
