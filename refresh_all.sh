#!/bin/bash
# refresh_all.sh [tier] : run every check on /repo (seed 1) and report exit codes; evidence is rewritten.
cd /verif
T=${1:-quick}
for p in C01 C02 C03 C04 C05 C06 C07 C08 C09 C10 C11 C12 C13 C14 C15 C16 C17 C18 C19 C20; do
  out=$(./check $p --tier $T 2>&1); rc=$?
  echo "$p rc=$rc $(echo "$out" | grep "^$p tier" | tail -1) $(echo "$out" | grep -c '^VIOLATION') violation-lines $(echo "$out" | grep -c '^KNOWN-FINDING') known"
done
