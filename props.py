"""Per-property configuration of the check driver (see ./check)."""

SQLITE_ENV = "SQLite (mattn/go-sqlite3 1.14.24) evaluates the generated statements as SQL defines; validated by the same runs"

HOOK_COMMITS = []

# properties not (yet) decided by a check: kept current with the reason
NOT_APPLICABLE = [
    {"property_id": "C%02d" % i, "reason": "check under construction in this session (model/theorems/harness not yet committed); see DESIGN.md §10 build order"}
    for i in range(1, 21) if i != 15
]

PROPS = {
    "C15": {
        "cmd": "c15",
        "level_text": "Theorems (Props_C15.v) over the Gallina model of Limit.MergeClause/Build, First/Last/Take/Count and the FindInBatches loop: for every table, batch size, limit and offset the batches concatenate to exactly what Find returns, in key order, none empty or oversized, and the loop terminates; Limit/Offset override/cancel rules for every chain. Unbounded (induction), closed under the global context. The model is tied to /repo on every run by evaluating it in Coq on the inputs the real gorm+SQLite just ran and comparing every read path.",
        "level_note": "Trusted: Coq kernel + vm_compute; the hand-written model (tied only by the per-run correspondence, ~500 cases quick); the Go harness and the check driver; SQLite's row order/LIMIT semantics. scan.go destination dispatch is covered by the correspondence only (partial).",
        "trusted_base": [
            "model C15_Model.v of clause/limit.go (Build, MergeClause), chainable_api.go Limit/Offset, finisher_api.go First/Last/Take/Count/FindInBatches, hand-written; tied to /repo by the per-run correspondence only",
            "scan.go destination dispatch (struct/map/Rows/Scan/Pluck) is modelled as 'returns the statement's rows': partial, correspondence only",
        ],
        "assumptions": [SQLITE_ENV, "rowid tables return rows in primary-key order when no ORDER BY is given (SQLite behaviour)"],
    },
}
