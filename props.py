"""Per-property configuration of the check driver: one JSON file per property in props.d/.

Keys of props.d/Cxx.json:
  cmd              harness command directory under harness/cmd/ (e.g. "c15")
  level_text       MANIFEST level_claimed.text
  level_note       MANIFEST level_note (trusted base / what is assumed)
  trusted_base     list of strings copied into the evidence
  assumptions      list of strings copied into the evidence
  technique        (optional) MANIFEST technique
  props_mods       (optional) Coq modules holding the property theorems (default ["Props_Cxx"])
  check_mod        (optional) Coq module with `case` and `check_case` (default "Cxx_Check")
  extra_mods       (optional) further Coq modules to build
  facts            (optional, bool) property uses facts regenerated from /repo (harness/facts + coq/facts/FactsOK_Cxx.v)
  go_build_flags   (optional) e.g. ["-race"]
  harness_timeout  (optional) {"quick": seconds, "thorough": seconds}
  search_cap       (optional) max cases of the failing-input search after a broken tie
  coqchk           (optional, bool, default true) run coqchk in the thorough tier
  thorough_props_mods (optional) Props modules built and audited only in the thorough tier
  thorough_only_mods  (optional) other modules that setup.sh must not build (dependencies of the above)
"""
import glob, json, os

ROOT = os.path.dirname(os.path.abspath(__file__))
HOOK_COMMITS = json.load(open(os.path.join(ROOT, "hooks.json")))["source_commits"]

# not_ready.json (lead-owned): properties whose check is still being built; they are listed under
# not_applicable with that reason until their builder reports them green
_NOT_READY = set(json.load(open(os.path.join(ROOT, "not_ready.json"))))
PROPS = {}
for f in sorted(glob.glob(os.path.join(ROOT, "props.d", "C*.json"))):
    if os.path.basename(f)[:-5] not in _NOT_READY:
        PROPS[os.path.basename(f)[:-5]] = json.load(open(f))

_NA_REASONS = json.load(open(os.path.join(ROOT, "not_applicable.json")))
ALL_IDS = ["C%02d" % i for i in range(1, 21)]
NOT_APPLICABLE = [
    {"property_id": p, "reason": _NA_REASONS.get(p, "check under construction in this session (model, theorems and harness not yet committed); see DESIGN.md section 10 for the build order")}
    for p in ALL_IDS if p not in PROPS
]
