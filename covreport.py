#!/usr/bin/env python3
"""covreport.py <prop> [tier]: which statements of gorm does the property's harness execute?
Builds the harness with Go's integration coverage (-cover -coverpkg=all), runs it like ./check does,
and writes work/cov_<prop>.txt: per anchored file (properties.jsonl) the share of statements executed
and every block never executed, with its first source line.  A block the harness never executes is a
place where a change cannot be noticed by the correspondence: a to-do list for generators (not a proof
of anything)."""
import json, os, re, subprocess, sys, collections, shutil
sys.path.insert(0, '/verif')
from props import PROPS
pid = sys.argv[1]; tier = sys.argv[2] if len(sys.argv) > 2 else 'quick'
REPO = os.environ.get('VERIF_REPO', '/repo')
cfg = PROPS[pid]
anchors = []
for l in open('/verif/properties.jsonl'):
    d = json.loads(l)
    if d['id'] == pid:
        anchors = d['anchors']['files'] if isinstance(d['anchors'], dict) else d['anchors']
env = dict(os.environ, GOFLAGS='-mod=mod', GOPROXY='off', GOSUMDB='off', GOTOOLCHAIN='local')
wd = '/verif/work/cov_%s' % pid
shutil.rmtree(wd, ignore_errors=True); os.makedirs(wd + '/data'); os.makedirs(wd + '/out')
binp = wd + '/bin'
subprocess.check_call(['go', 'build', '-cover', '-coverpkg=all', '-tags', 'verif'] + [f for f in cfg.get('go_build_flags', []) if f != '-race'] + ['-o', binp, './cmd/' + cfg['cmd']], cwd='/verif/harness', env=env)
env['GOCOVERDIR'] = wd + '/data'
subprocess.call([binp, '-out', wd + '/out', '-tier', tier, '-seed', '1', '-corpus', '/verif/corpus/' + pid], cwd='/verif/harness', env=env,
                stdout=subprocess.DEVNULL, stderr=subprocess.DEVNULL, timeout=3000)
txt = wd + '/cov.txt'
subprocess.check_call(['go', 'tool', 'covdata', 'textfmt', '-i=' + wd + '/data', '-o', txt], env=env)
cov = collections.defaultdict(dict)
for l in open(txt):
    m = re.match(r'gorm\.io/gorm/(.+?):(\d+)\.(\d+),(\d+)\.(\d+) (\d+) (\d+)', l)
    if m:
        f, a, _, c, _, n, cnt = m.groups()
        k = (int(a), int(c), int(n))
        cov[f][k] = max(cov[f].get(k, 0), int(cnt))
out = open('/verif/work/cov_%s.txt' % pid, 'w')
for a in anchors:
    f = a.split(':')[0].strip()
    bl = cov.get(f)
    if not bl:
        out.write('%s: no coverage data (file not linked into the harness, or no statements)\n' % f); continue
    tot = sum(k[2] for k in bl); hit = sum(k[2] for k, c in bl.items() if c > 0)
    out.write('== %s: %d of %d statements executed (%d%%)\n' % (f, hit, tot, 100 * hit // max(tot, 1)))
    try:
        src = open(os.path.join(REPO, f)).read().split('\n')
    except Exception:
        src = []
    # name the enclosing function of each uncovered block
    funcs = [(i + 1, re.match(r'func\s+(\([^)]*\)\s*)?(\w+)', s).group(2)) for i, s in enumerate(src) if re.match(r'func\s', s)]
    def fn(line):
        name = '?'
        for ln, n in funcs:
            if ln <= line: name = n
        return name
    for (a1, c1, n), c in sorted(bl.items()):
        if c == 0:
            out.write('   %s:%d-%d [%s] %s\n' % (f, a1, c1, fn(a1), (src[a1 - 1].strip()[:110] if src else '')))
out.close()
shutil.rmtree(wd + '/data', ignore_errors=True); shutil.rmtree(wd + '/out', ignore_errors=True)
try: os.remove(binp)
except OSError: pass
print(open('/verif/work/cov_%s.txt' % pid).read()[:200000] if os.environ.get('COV_PRINT') else '/verif/work/cov_%s.txt written' % pid)
