#!/usr/bin/env python3
"""known_findings.json = concatenation of known_findings.d/*.json (committed; never written by a check)."""
import glob, json, os
ROOT = os.path.dirname(os.path.abspath(__file__))
out = []
for f in sorted(glob.glob(os.path.join(ROOT, "known_findings.d", "*.json"))):
    out += json.load(open(f))
json.dump(out, open(os.path.join(ROOT, "known_findings.json"), "w"), indent=1)
print("known_findings.json:", len(out), "entries")
