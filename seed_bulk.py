#!/usr/bin/env python3
"""seed_bulk.py <prop> [history-json]: register every confirmed seed of work/seedres_<prop>.jsonl under seeded/<prop>-<i>/.
history-json: {"<i>": "text"} overrides the default history note."""
import json, os, subprocess, sys
prop = sys.argv[1]
hist = json.loads(sys.argv[2]) if len(sys.argv) > 2 else {}
try:
    allhist = json.load(open('/verif/seed_history.json'))
except Exception:
    allhist = {}
needs = json.load(open('/verif/seed_needs.json'))
latest = {}
for l in open('/verif/work/seedres_%s.jsonl' % prop):
    l = l.strip()
    if not l.startswith('{'):
        continue
    r = json.loads(l)
    latest[r['dir']] = r   # the last run of a seed counts
for r in latest.values():
    i = r['dir'].rstrip('/').split('/')[-1]
    sid = "%s-%s" % (prop, i)
    ok = r['applies'] == 'yes' and r['builds'] == 'yes' and r['demo_without_patch'] == 'pass' and r['demo_with_patch'] == 'fail' and r['suite_root'] == 'pass' and r['suite_tests'] == 'pass'
    if not ok:
        print("SKIP (unconfirmed)", sid, {k: r[k] for k in ('applies','builds','demo_without_patch','demo_with_patch','suite_root','suite_tests')}); continue
    caught = r['check_caught'] == 'yes' and r['no_failing_input_found'] != 'yes'
    old = None
    mp = '/verif/seeded/%s/meta.json' % sid
    if os.path.exists(mp):
        old = json.load(open(mp)).get('strengthening')
    default = hist.get(i) or allhist.get(sid) or old
    note = default or ("caught by the check as first delivered by its builder" if caught else ("reported only as a broken tie (no failing input) by the first version" if r['check_caught'] == 'yes' else "MISSED by the first version"))
    subprocess.check_call(['python3', '/verif/seed_register.py', prop, r['dir'], sid, json.dumps(r), needs.get(sid, ''), note])
