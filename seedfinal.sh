#!/bin/bash
# seedfinal.sh : re-confirm EVERY seeded change of /tmp/brk_out_Cxx/<n> against the current checks,
# four properties at a time; results -> work/seedfinal_<prop>.jsonl (one line per seed).
cd /verif
run() { P=$1; : > work/seedfinal_$P.jsonl; for d in $(ls -d /tmp/brk_out_$P/*/ 2>/dev/null | sort -V); do [ -f $d/patch.diff ] || continue; ./seedtest.sh $P ${d%/} | tail -1 >> work/seedfinal_$P.jsonl; done; }
( for p in C01 C05 C09 C13 C17; do run $p; done ) &
( for p in C02 C06 C10 C14 C18; do run $p; done ) &
( for p in C03 C07 C11 C15 C19; do run $p; done ) &
( for p in C04 C08 C12 C16 C20; do run $p; done ) &
wait
