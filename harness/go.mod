module verifharness

go 1.18

require (
	github.com/mattn/go-sqlite3 v1.14.24
	gorm.io/driver/sqlite v1.5.6
	gorm.io/gorm v1.25.12
)

require (
	github.com/jinzhu/inflection v1.0.0 // indirect
	github.com/jinzhu/now v1.1.5 // indirect
	golang.org/x/text v0.20.0 // indirect
)

replace gorm.io/gorm => /repo
