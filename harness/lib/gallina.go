package lib

import (
	"fmt"
	"strings"
)

// Gallina term printers. Numbers are printed as Z/N literals with explicit scope
// delimiters so that a term never depends on the open scopes of the cases file.

func Z(n int64) string {
	if n < 0 {
		return fmt.Sprintf("(%d)%%Z", n)
	}
	return fmt.Sprintf("%d%%Z", n)
}
func N(n uint64) string { return fmt.Sprintf("%d%%N", n) }
func Nat(n int) string  { return fmt.Sprintf("%d%%nat", n) }
func Bool(b bool) string {
	if b {
		return "true"
	}
	return "false"
}

// Str prints a Go string as a Coq string literal (bytes are passed through; '"' is doubled).
// Coq strings are byte sequences, so NUL-free arbitrary bytes survive.
func Str(s string) string {
	return "\"" + strings.ReplaceAll(s, "\"", "\"\"") + "\"%string"
}

func List(items []string) string { return "[" + strings.Join(items, "; ") + "]" }

func ListOf[T any](xs []T, f func(T) string) string {
	out := make([]string, len(xs))
	for i, x := range xs {
		out[i] = f(x)
	}
	return List(out)
}

func ZList(xs []int64) string { return ListOf(xs, Z) }

func Option(present bool, s string) string {
	if !present {
		return "None"
	}
	return "(Some " + s + ")"
}

func Pair(a, b string) string { return "(" + a + ", " + b + ")" }

// App prints a constructor / function application, parenthesised.
func App(f string, args ...string) string {
	if len(args) == 0 {
		return f
	}
	return "(" + f + " " + strings.Join(args, " ") + ")"
}
