// Package gdb opens gorm handles for the harness: real SQLite behind the recording driver,
// or the dummy dialects of gorm.io/gorm/utils/tests for DryRun-only work.
package gdb

import (
	"database/sql"

	"gorm.io/driver/sqlite"
	"gorm.io/gorm"
	"gorm.io/gorm/logger"

	"verifharness/recdrv"
)

// Opt configures Open.
type Opt struct {
	DSN         string // default ":memory:" (single connection)
	NoReturning bool   // make the dialector believe SQLite is too old for RETURNING
	MaxConns    int    // 0: 1 for :memory:, unlimited otherwise
	Config      *gorm.Config
}

// Open returns a gorm handle on SQLite through the recording driver.
func Open(o Opt) (*gorm.DB, *recdrv.Recorder, *sql.DB, error) {
	dsn := o.DSN
	if dsn == "" {
		dsn = ":memory:"
	}
	sqlDB, rec := recdrv.Open(dsn)
	if o.NoReturning {
		rec.FakeVersion = "3.30.0"
	}
	if o.MaxConns > 0 {
		sqlDB.SetMaxOpenConns(o.MaxConns)
	} else if dsn == ":memory:" {
		sqlDB.SetMaxOpenConns(1)
	}
	cfg := o.Config
	if cfg == nil {
		cfg = &gorm.Config{}
	}
	if cfg.Logger == nil {
		cfg.Logger = logger.Discard
	}
	db, err := gorm.Open(sqlite.Dialector{Conn: sqlDB}, cfg)
	if err != nil {
		return nil, nil, nil, err
	}
	rec.Reset()
	return db, rec, sqlDB, nil
}
