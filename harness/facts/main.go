// facts: the "translator" half of the tie (DESIGN §4.2).  Parses the CURRENT Go sources under
// -repo with go/parser and writes structural facts as a Coq file (-out) plus facts.json beside it.
// One extractor per property registers itself in Extractors (see the c*.go files of this package).
package main

import (
	"encoding/json"
	"flag"
	"fmt"
	"io"
	"os"
	"path/filepath"
)

// Extractor writes Gallina definitions to w and returns a JSON-able summary for the evidence.
type Extractor func(repo string, w io.Writer) (interface{}, error)

var Extractors = map[string]Extractor{}

func main() {
	repo := flag.String("repo", "/repo", "repository root")
	prop := flag.String("prop", "", "property id, e.g. C18")
	out := flag.String("out", "", "Facts.v to write")
	flag.Parse()
	ex, ok := Extractors[*prop]
	if !ok {
		fmt.Fprintln(os.Stderr, "no facts extractor for", *prop)
		os.Exit(2)
	}
	f, err := os.Create(*out)
	if err != nil {
		fmt.Fprintln(os.Stderr, err)
		os.Exit(1)
	}
	fmt.Fprintf(f, "(* regenerated from %s on every run by harness/facts; do not edit *)\n", *repo)
	sum, err := ex(*repo, f)
	f.Close()
	if err != nil {
		fmt.Fprintln(os.Stderr, "facts:", err)
		os.Exit(1)
	}
	b, _ := json.MarshalIndent(sum, "", " ")
	os.WriteFile(filepath.Join(filepath.Dir(*out), "facts.json"), b, 0o644)
}
