package main

// C06 facts: how each clause.X.MergeClause body treats the slice already stored in the clause
// (copy before append / append in place / no slice), which Statement fields Statement.clone copies,
// and which chain methods append onto statement-owned slices.  Re-extracted from the CURRENT
// sources with go/parser; FactsOK_C06.v compares them with what the HEAP model assumes.

import (
	"fmt"
	"go/ast"
	"go/parser"
	"go/token"
	"io"
	"path/filepath"
	"sort"
	"strings"
)

func init() { Extractors["C06"] = c06Facts }

type c06Summary struct {
	MergeClauses      map[string]string `json:"merge_clauses"`
	CloneCopied       []string          `json:"clone_copied"`
	CloneShared       []string          `json:"clone_shared"`
	CloneMaps         []string          `json:"clone_fresh_maps"`
	SelfAppends       []string          `json:"chain_methods_appending_to_statement_slices"`
	UnresetAppends    []string          `json:"appends_onto_shared_slices_without_fresh_reset"`
	SourceCloneCopied []string          `json:"source_clone_copied"`
	SourceWhereSwap   string            `json:"source_where_build_swap"`
	FromReplaces      bool              `json:"from_merge_replaces"`
	SessionClones     map[string]bool   `json:"session_option_gives_own_statement"`
	ReceiverWrites    []string          `json:"chain_methods_writing_the_receiver_statement"`
	SessionUnguarded  []string          `json:"session_statement_writes_not_guarded_by_the_clone"`
	WhereSwap         string            `json:"where_build_swap"`
}

func recvType(fd *ast.FuncDecl) string {
	if fd.Recv == nil || len(fd.Recv.List) == 0 {
		return ""
	}
	t := fd.Recv.List[0].Type
	if s, ok := t.(*ast.StarExpr); ok {
		t = s.X
	}
	if id, ok := t.(*ast.Ident); ok {
		return id.Name
	}
	return ""
}

func exprString(e ast.Expr) string {
	switch x := e.(type) {
	case *ast.Ident:
		return x.Name
	case *ast.SelectorExpr:
		return exprString(x.X) + "." + x.Sel.Name
	case *ast.IndexExpr:
		return exprString(x.X) + "[...]"
	case *ast.SliceExpr:
		return exprString(x.X) + "[:]"
	case *ast.CallExpr:
		return exprString(x.Fun) + "(...)"
	case *ast.TypeAssertExpr:
		return exprString(x.X) + ".(T)"
	}
	return "?"
}

// classifyMerge: the class of one MergeClause body.
//
//	MInPlace  an append whose first argument is a field of the expression stored in the clause
//	          (a variable bound by  v, ok := clause.Expression.(T) )
//	MCopy     the stored slices are copied (make + copy, or make + append onto the new slice) and
//	          every append goes to a slice made in the body
//	MNoSlice  no append, make or copy at all
//	MUnknown  anything else
func classifyMerge(fd *ast.FuncDecl) string {
	stored := map[string]bool{} // variables holding the expression already in the clause
	fresh := map[string]bool{}  // variables assigned from make(...)
	var appends []*ast.CallExpr
	nmake, ncopy := 0, 0
	ast.Inspect(fd.Body, func(n ast.Node) bool {
		switch x := n.(type) {
		case *ast.AssignStmt:
			for i, rhs := range x.Rhs {
				if ta, ok := rhs.(*ast.TypeAssertExpr); ok && strings.HasSuffix(exprString(ta.X), ".Expression") && len(x.Lhs) > 0 {
					if id, ok := x.Lhs[0].(*ast.Ident); ok {
						stored[id.Name] = true
					}
				}
				if c, ok := rhs.(*ast.CallExpr); ok {
					if id, ok := c.Fun.(*ast.Ident); ok && id.Name == "make" && i < len(x.Lhs) {
						if l, ok := x.Lhs[i].(*ast.Ident); ok {
							fresh[l.Name] = true
						}
					}
				}
			}
		case *ast.CallExpr:
			if id, ok := x.Fun.(*ast.Ident); ok {
				switch id.Name {
				case "append":
					appends = append(appends, x)
				case "make":
					nmake++
				case "copy":
					ncopy++
				}
			}
		}
		return true
	})
	if len(appends) == 0 && nmake == 0 && ncopy == 0 {
		return "MNoSlice"
	}
	for _, a := range appends {
		if len(a.Args) == 0 {
			return "MUnknown"
		}
		first := exprString(a.Args[0])
		root := strings.SplitN(first, ".", 2)[0]
		if stored[root] {
			return "MInPlace"
		}
		if !fresh[root] {
			return "MUnknown"
		}
	}
	// every append targets a slice made here: the stored slice is only read (copy(...) or append(fresh, stored...))
	if nmake > 0 && (ncopy > 0 || len(appends) > 0) {
		return "MCopy"
	}
	return "MUnknown"
}

func c06Facts(repo string, w io.Writer) (interface{}, error) {
	fset := token.NewFileSet()
	sum := c06Summary{MergeClauses: map[string]string{}}
	files, _ := filepath.Glob(filepath.Join(repo, "clause", "*.go"))
	for _, f := range files {
		if strings.HasSuffix(f, "_test.go") {
			continue
		}
		af, err := parser.ParseFile(fset, f, nil, 0)
		if err != nil {
			return nil, err
		}
		for _, d := range af.Decls {
			if fd, ok := d.(*ast.FuncDecl); ok && fd.Name.Name == "MergeClause" && fd.Body != nil {
				sum.MergeClauses[recvType(fd)] = classifyMerge(fd)
			}
		}
	}
	// Where.Build: is the swap of a leading Or done on a slice made in the same block (MCopy), on the
	// receiver's slice (MInPlace), or absent (MNoSlice)?
	sum.WhereSwap = "MNoSlice"
	if wf, err := parser.ParseFile(fset, filepath.Join(repo, "clause", "where.go"), nil, 0); err == nil {
		for _, d := range wf.Decls {
			fd, ok := d.(*ast.FuncDecl)
			if !ok || fd.Name.Name != "Build" || recvType(fd) != "Where" || fd.Body == nil {
				continue
			}
			ast.Inspect(fd.Body, func(n ast.Node) bool {
				blk, ok := n.(*ast.BlockStmt)
				if !ok {
					return true
				}
				copied := false
				for _, st := range blk.List {
					as, ok := st.(*ast.AssignStmt)
					if !ok {
						continue
					}
					if len(as.Lhs) == 1 && exprString(as.Lhs[0]) == "where.Exprs" && len(as.Rhs) == 1 {
						if c, ok := as.Rhs[0].(*ast.CallExpr); ok {
							if id, ok := c.Fun.(*ast.Ident); ok && len(c.Args) > 0 &&
								((id.Name == "append" && !strings.HasPrefix(exprString(c.Args[0]), "where.")) || id.Name == "make") {
								copied = true
							}
						}
					}
					if len(as.Lhs) == 2 && exprString(as.Lhs[0]) == "where.Exprs[...]" {
						if copied {
							sum.WhereSwap = "MCopy"
						} else {
							sum.WhereSwap = "MInPlace"
						}
					}
				}
				return true
			})
		}
	}
	// Statement.clone
	af, err := parser.ParseFile(fset, filepath.Join(repo, "statement.go"), nil, 0)
	if err != nil {
		return nil, err
	}
	for _, d := range af.Decls {
		fd, ok := d.(*ast.FuncDecl)
		if !ok || fd.Name.Name != "clone" || recvType(fd) != "Statement" {
			continue
		}
		recv := fd.Recv.List[0].Names[0].Name
		ast.Inspect(fd.Body, func(n ast.Node) bool {
			switch x := n.(type) {
			case *ast.CompositeLit:
				if id, ok := x.Type.(*ast.Ident); ok && id.Name == "Statement" {
					for _, el := range x.Elts {
						kv, ok := el.(*ast.KeyValueExpr)
						if !ok {
							continue
						}
						key := exprString(kv.Key)
						if exprString(kv.Value) == recv+"."+key {
							sum.CloneShared = append(sum.CloneShared, key)
						} else if cl, ok := kv.Value.(*ast.CompositeLit); ok {
							if _, ok := cl.Type.(*ast.MapType); ok {
								sum.CloneMaps = append(sum.CloneMaps, key)
							}
						}
					}
				}
			case *ast.CallExpr:
				// copy(newStmt.X, stmt.X)
				if id, ok := x.Fun.(*ast.Ident); ok && id.Name == "copy" && len(x.Args) == 2 {
					src := exprString(x.Args[1])
					if strings.HasPrefix(src, recv+".") {
						sum.CloneCopied = append(sum.CloneCopied, strings.TrimPrefix(src, recv+"."))
					}
				}
			}
			return true
		})
	}
	// what can be executed is executed: Statement.clone's sharing, the slice-carrying MergeClause
	// bodies, Where.Build's swap and Session's cloning are probed on the running gorm (c06_probe.go);
	// the source-derived values above are kept in the JSON summary for information only
	probe, perr := runC06Probe()
	if perr != nil {
		return nil, perr
	}
	sum.SourceCloneCopied, sum.SourceWhereSwap = sum.CloneCopied, sum.WhereSwap
	sum.CloneCopied, sum.CloneShared, sum.CloneMaps = probe.CloneCopied, probe.CloneShared, probe.CloneMaps
	for k, v := range probe.Merge {
		sum.MergeClauses[k] = v
	}
	sum.WhereSwap = probe.WhereSwap
	sum.FromReplaces = probe.FromReplaces
	sum.SessionClones = probe.SessionClones

	// chain methods (functions of chainable_api.go) that append in place onto a slice held by the
	// statement, directly (x.Statement.F = append(x.Statement.F, ...)) or through one call of an
	// unexported helper method of Statement / DB declared anywhere in the package; and, for the
	// slices Statement.clone SHARES (not copied), whether every such append is preceded in the same
	// function - in the same or an enclosing block - by an assignment of a fresh slice to that field
	// of the instance (composite literal, make, append(make...)/append(nil...), nil).
	helpers := map[string][]string{} // unexported method name -> statement fields it appends onto
	rootFiles, _ := filepath.Glob(filepath.Join(repo, "*.go"))
	var chainFile *ast.File
	for _, f := range rootFiles {
		if strings.HasSuffix(f, "_test.go") {
			continue
		}
		pf, err := parser.ParseFile(fset, f, nil, 0)
		if err != nil {
			return nil, err
		}
		if filepath.Base(f) == "chainable_api.go" {
			chainFile = pf
		}
		for _, d := range pf.Decls {
			fd, ok := d.(*ast.FuncDecl)
			if !ok || fd.Body == nil || fd.Recv == nil || len(fd.Recv.List[0].Names) == 0 || ast.IsExported(fd.Name.Name) {
				continue
			}
			rt, rv := recvType(fd), fd.Recv.List[0].Names[0].Name
			prefix := ""
			switch rt {
			case "Statement":
				prefix = rv + "."
			case "DB":
				prefix = rv + ".Statement."
			default:
				continue
			}
			ast.Inspect(fd.Body, func(n ast.Node) bool {
				if c, ok := n.(*ast.CallExpr); ok {
					if id, ok := c.Fun.(*ast.Ident); ok && id.Name == "append" && len(c.Args) > 0 {
						if first := exprString(c.Args[0]); strings.HasPrefix(first, prefix) && !strings.Contains(strings.TrimPrefix(first, prefix), ".") {
							helpers[fd.Name.Name] = append(helpers[fd.Name.Name], strings.TrimPrefix(first, prefix))
						}
					}
				}
				return true
			})
		}
	}
	if chainFile == nil {
		return nil, fmt.Errorf("chainable_api.go not found")
	}
	copied := map[string]bool{}
	for _, c := range sum.CloneCopied {
		copied[c] = true
	}
	isFresh := func(e ast.Expr) bool {
		switch x := e.(type) {
		case *ast.CompositeLit:
			return true
		case *ast.Ident:
			return x.Name == "nil"
		case *ast.CallExpr:
			if id, ok := x.Fun.(*ast.Ident); ok {
				if id.Name == "make" {
					return true
				}
				if id.Name == "append" && len(x.Args) > 0 {
					if c, ok := x.Args[0].(*ast.CallExpr); ok {
						if cid, ok := c.Fun.(*ast.Ident); ok && cid.Name == "make" {
							return true
						}
						if len(c.Args) == 1 { // a conversion such as []string(nil)
							if a, ok := c.Args[0].(*ast.Ident); ok && a.Name == "nil" {
								return true
							}
						}
					}
				}
			}
		}
		return false
	}
	seen := map[string]bool{}
	unreset := map[string]bool{}
	// appendsIn: statement fields appended onto in place by the expressions of one simple statement
	appendsIn := func(n ast.Node) []string {
		var out []string
		ast.Inspect(n, func(m ast.Node) bool {
			if _, ok := m.(*ast.BlockStmt); ok && m != n {
				return false // nested blocks are walked by walk()
			}
			c, ok := m.(*ast.CallExpr)
			if !ok {
				return true
			}
			if id, ok := c.Fun.(*ast.Ident); ok && id.Name == "append" && len(c.Args) > 0 {
				first := exprString(c.Args[0])
				for _, inst := range []string{"tx.Statement.", "db.Statement."} {
					if strings.HasPrefix(first, inst) && !strings.Contains(strings.TrimPrefix(first, inst), ".") {
						out = append(out, inst[:2]+":"+strings.TrimPrefix(first, inst))
					}
				}
			}
			if sel, ok := c.Fun.(*ast.SelectorExpr); ok && !ast.IsExported(sel.Sel.Name) {
				recv := exprString(sel.X)
				if recv == "tx.Statement" || recv == "tx" || recv == "db.Statement" || recv == "db" {
					for _, f := range helpers[sel.Sel.Name] {
						out = append(out, recv[:2]+":"+f)
					}
				}
			}
			return true
		})
		return out
	}
	var walk func(fn string, list []ast.Stmt, reset map[string]bool)
	walk = func(fn string, list []ast.Stmt, reset map[string]bool) {
		cur := map[string]bool{}
		for k := range reset {
			cur[k] = true
		}
		nested := func(st ast.Stmt) [][]ast.Stmt {
			var bs [][]ast.Stmt
			ast.Inspect(st, func(m ast.Node) bool {
				switch b := m.(type) {
				case *ast.BlockStmt:
					if ast.Node(b) != ast.Node(st) {
						bs = append(bs, b.List)
						return false
					}
				case *ast.CaseClause:
					bs = append(bs, b.Body)
					return false
				case *ast.CommClause:
					bs = append(bs, b.Body)
					return false
				}
				return true
			})
			return bs
		}
		for _, st := range list {
			if blk, ok := st.(*ast.BlockStmt); ok {
				walk(fn, blk.List, cur)
				continue
			}
			if cc, ok := st.(*ast.CaseClause); ok {
				walk(fn, cc.Body, cur)
				continue
			}
			if cc, ok := st.(*ast.CommClause); ok {
				walk(fn, cc.Body, cur)
				continue
			}
			for _, a := range appendsIn(st) {
				inst, field := a[:2], a[3:]
				seen[field] = true
				if inst == "db" || (!copied[field] && !cur[field]) {
					unreset[fn+"."+field] = true
				}
			}
			if as, ok := st.(*ast.AssignStmt); ok && len(as.Lhs) == len(as.Rhs) {
				for i, l := range as.Lhs {
					if ls := exprString(l); strings.HasPrefix(ls, "tx.Statement.") && isFresh(as.Rhs[i]) {
						cur[strings.TrimPrefix(ls, "tx.Statement.")] = true
					}
				}
			}
			for _, b := range nested(st) {
				walk(fn, b, cur)
			}
		}
	}
	for _, d := range chainFile.Decls {
		fd, ok := d.(*ast.FuncDecl)
		if !ok || fd.Body == nil {
			continue
		}
		if fd.Recv != nil && !ast.IsExported(fd.Name.Name) && recvType(fd) == "Statement" {
			continue // a helper: accounted for at its call sites
		}
		walk(fd.Name.Name, fd.Body.List, map[string]bool{})
	}
	// chain methods must write the instance they got from getInstance (tx), never the receiver's
	// statement: every assignment / inc-dec whose target is rooted at <receiver>.Statement in an
	// exported method of DB (chainable_api.go) that calls <receiver>.getInstance()
	for _, d := range chainFile.Decls {
		fd, ok := d.(*ast.FuncDecl)
		if !ok || fd.Body == nil || fd.Recv == nil || recvType(fd) != "DB" || len(fd.Recv.List[0].Names) == 0 || !ast.IsExported(fd.Name.Name) {
			continue
		}
		rv := fd.Recv.List[0].Names[0].Name
		callsGet := false
		ast.Inspect(fd.Body, func(n ast.Node) bool {
			if c, ok := n.(*ast.CallExpr); ok && exprString(c.Fun) == rv+".getInstance" {
				callsGet = true
			}
			return true
		})
		if !callsGet {
			continue
		}
		ast.Inspect(fd.Body, func(n ast.Node) bool {
			var targets []ast.Expr
			switch x := n.(type) {
			case *ast.AssignStmt:
				if x.Tok != token.DEFINE {
					targets = x.Lhs
				}
			case *ast.IncDecStmt:
				targets = []ast.Expr{x.X}
			}
			for _, t := range targets {
				if ts := exprString(t); strings.HasPrefix(ts, rv+".Statement.") || ts == rv+".Statement" {
					sum.ReceiverWrites = append(sum.ReceiverWrites, fd.Name.Name+":"+ts)
				}
			}
			// the receiver's statement handed to something that may write it: passed as a call argument,
			// or the receiver of a method call (db.Statement.AddClause(..), m.ModifyStatement(db.Statement))
			if c, ok := n.(*ast.CallExpr); ok {
				for _, a := range c.Args {
					if exprString(a) == rv+".Statement" {
						sum.ReceiverWrites = append(sum.ReceiverWrites, fd.Name.Name+":arg:"+exprString(c.Fun))
					}
				}
				if sel, ok := c.Fun.(*ast.SelectorExpr); ok && exprString(sel.X) == rv+".Statement" {
					sum.ReceiverWrites = append(sum.ReceiverWrites, fd.Name.Name+":call:"+sel.Sel.Name)
				}
			}
			return true
		})
	}
	sort.Strings(sum.ReceiverWrites)
	// DB.Session: the new handle shares the parent's *Statement unless the clone guard fires; every
	// `if config.X ... { tx.Statement.<f> = ... }` must have config.X as a plain disjunct of that guard
	if gf, err := parser.ParseFile(fset, filepath.Join(repo, "gorm.go"), nil, 0); err == nil {
		for _, d := range gf.Decls {
			fd, ok := d.(*ast.FuncDecl)
			if !ok || fd.Name.Name != "Session" || recvType(fd) != "DB" || fd.Body == nil {
				continue
			}
			var disj func(e ast.Expr) []ast.Expr
			disj = func(e ast.Expr) []ast.Expr {
				if p, ok := e.(*ast.ParenExpr); ok {
					return disj(p.X)
				}
				if b, ok := e.(*ast.BinaryExpr); ok && b.Op == token.LOR {
					return append(disj(b.X), disj(b.Y)...)
				}
				return []ast.Expr{e}
			}
			cfgField := func(e ast.Expr) string { // config.X | config.X != nil | config.X > 0
				if b, ok := e.(*ast.BinaryExpr); ok && (b.Op == token.NEQ || b.Op == token.GTR) {
					e = b.X
				}
				if es := exprString(e); strings.HasPrefix(es, "config.") && !strings.Contains(strings.TrimPrefix(es, "config."), ".") {
					return strings.TrimPrefix(es, "config.")
				}
				return ""
			}
			guard := map[string]bool{}
			hasGuard := false
			for _, st := range fd.Body.List {
				is, ok := st.(*ast.IfStmt)
				if !ok {
					continue
				}
				clones := false
				ast.Inspect(is.Body, func(n ast.Node) bool {
					if as, ok := n.(*ast.AssignStmt); ok && len(as.Lhs) == 1 && exprString(as.Lhs[0]) == "tx.Statement" {
						clones = true
					}
					return true
				})
				if clones {
					hasGuard = true
					for _, dj := range disj(is.Cond) {
						if f := cfgField(dj); f != "" {
							guard[f] = true
						}
					}
				}
			}
			for _, st := range fd.Body.List {
				is, ok := st.(*ast.IfStmt)
				if !ok {
					continue
				}
				var fields []string
				ast.Inspect(is.Cond, func(n ast.Node) bool {
					if se, ok := n.(*ast.SelectorExpr); ok && exprString(se.X) == "config" {
						fields = append(fields, se.Sel.Name)
					}
					return true
				})
				ast.Inspect(is.Body, func(n ast.Node) bool {
					as, ok := n.(*ast.AssignStmt)
					if !ok {
						return true
					}
					for _, l := range as.Lhs {
						ls := exprString(l)
						if !strings.HasPrefix(ls, "tx.Statement.") {
							continue
						}
						okay := hasGuard && len(fields) > 0
						for _, f := range fields {
							if !guard[f] {
								okay = false
							}
						}
						if !okay {
							sum.SessionUnguarded = append(sum.SessionUnguarded, strings.Join(fields, "+")+":"+ls)
						}
					}
					return true
				})
			}
		}
	}
	sort.Strings(sum.SessionUnguarded)
	for k := range seen {
		sum.SelfAppends = append(sum.SelfAppends, k)
	}
	for k := range unreset {
		sum.UnresetAppends = append(sum.UnresetAppends, k)
	}
	sort.Strings(sum.UnresetAppends)
	sort.Strings(sum.CloneCopied)
	sort.Strings(sum.CloneShared)
	sort.Strings(sum.CloneMaps)
	sort.Strings(sum.SelfAppends)

	fmt.Fprintf(w, "From Verif Require Import Base C06_Model.\n")
	names := make([]string, 0, len(sum.MergeClauses))
	for k := range sum.MergeClauses {
		names = append(names, k)
	}
	sort.Strings(names)
	fmt.Fprintf(w, "Definition merge_classes : list (string * mclass) := [\n")
	for i, k := range names {
		sep := ";"
		if i == len(names)-1 {
			sep = ""
		}
		fmt.Fprintf(w, "  (\"%s\"%%string, %s)%s\n", k, sum.MergeClauses[k], sep)
	}
	fmt.Fprintf(w, "].\n")
	strs := func(name string, xs []string) {
		fmt.Fprintf(w, "Definition %s : list string := [", name)
		for i, x := range xs {
			if i > 0 {
				fmt.Fprintf(w, "; ")
			}
			fmt.Fprintf(w, "\"%s\"%%string", x)
		}
		fmt.Fprintf(w, "].\n")
	}
	strs("clone_copied", sum.CloneCopied)
	strs("clone_shared", sum.CloneShared)
	strs("clone_fresh_maps", sum.CloneMaps)
	strs("self_appends", sum.SelfAppends)
	strs("unreset_appends", sum.UnresetAppends)
	strs("receiver_writes", sum.ReceiverWrites)
	strs("session_unguarded", sum.SessionUnguarded)
	fmt.Fprintf(w, "Definition where_build_swap : mclass := %s.\n", sum.WhereSwap)
	fmt.Fprintf(w, "Definition from_merge_replaces : bool := %v.\n", sum.FromReplaces)
	var sk []string
	for k := range sum.SessionClones {
		sk = append(sk, k)
	}
	sort.Strings(sk)
	fmt.Fprintf(w, "Definition session_clones : list (string * bool) := [")
	for i, k := range sk {
		if i > 0 {
			fmt.Fprintf(w, "; ")
		}
		fmt.Fprintf(w, "(\"%s\"%%string, %v)", k, sum.SessionClones[k])
	}
	fmt.Fprintf(w, "].\n")
	return sum, nil
}
