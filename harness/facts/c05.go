package main

// C05 facts: for the create / update / delete processors, the order in which
// callbacks/callbacks.go RegisterDefaultCallbacks registers the callbacks and which of them are
// under Match(enableTransaction) — extracted from the CURRENT source with go/parser.
// FactsOK_C05 requires: gorm:begin_transaction first, gorm:commit_or_rollback_transaction last,
// both (and only they) under the same Match. A Register statement of another shape on one of
// these processors is listed in c05_unknown, which must be empty.

import (
	"fmt"
	"go/ast"
	"go/parser"
	"go/token"
	"io"
	"path/filepath"
	"strconv"
	"strings"
)

type c05Reg struct {
	Name  string `json:"name"`
	Match string `json:"match"` // "" or the argument of Match(...)
}

func c05Str(s string) string { return "\"" + strings.ReplaceAll(s, "\"", "\"\"") + "\"%string" }

func init() {
	Extractors["C05"] = func(repo string, w io.Writer) (interface{}, error) {
		fset := token.NewFileSet()
		f, err := parser.ParseFile(fset, filepath.Join(repo, "callbacks", "callbacks.go"), nil, 0)
		if err != nil {
			return nil, err
		}
		var body *ast.BlockStmt
		for _, d := range f.Decls {
			if fd, ok := d.(*ast.FuncDecl); ok && fd.Name.Name == "RegisterDefaultCallbacks" {
				body = fd.Body
			}
		}
		if body == nil {
			return nil, fmt.Errorf("RegisterDefaultCallbacks not found")
		}
		procOf := map[string]string{}
		regs := map[string][]c05Reg{}
		unknown := []string{}
		for _, st := range body.List {
			switch s := st.(type) {
			case *ast.AssignStmt: // xCallback := db.Callback().Create()
				if len(s.Lhs) == 1 && len(s.Rhs) == 1 {
					id, ok1 := s.Lhs[0].(*ast.Ident)
					call, ok2 := s.Rhs[0].(*ast.CallExpr)
					if ok1 && ok2 {
						if sel, ok := call.Fun.(*ast.SelectorExpr); ok {
							if inner, ok := sel.X.(*ast.CallExpr); ok {
								if isel, ok := inner.Fun.(*ast.SelectorExpr); ok && isel.Sel.Name == "Callback" {
									procOf[id.Name] = strings.ToLower(sel.Sel.Name)
								}
							}
						}
					}
				}
			case *ast.ExprStmt:
				call, ok := s.X.(*ast.CallExpr)
				if !ok {
					continue
				}
				sel, ok := call.Fun.(*ast.SelectorExpr)
				if !ok {
					continue
				}
				// receiver: procVar  |  procVar.Match(arg)
				var proc, match string
				known := true
				switch x := sel.X.(type) {
				case *ast.Ident:
					proc = x.Name
				case *ast.CallExpr:
					if msel, ok := x.Fun.(*ast.SelectorExpr); ok {
						if id, ok := msel.X.(*ast.Ident); ok {
							proc = id.Name
							if msel.Sel.Name == "Match" && len(x.Args) == 1 {
								if a, ok := x.Args[0].(*ast.Ident); ok {
									match = a.Name
								} else {
									known = false
								}
							} else {
								known = false
							}
						}
					}
				}
				p, isProc := procOf[proc]
				if !isProc {
					continue
				}
				if sel.Sel.Name != "Register" || !known || len(call.Args) != 2 {
					unknown = append(unknown, fset.Position(s.Pos()).String())
					continue
				}
				lit, ok := call.Args[0].(*ast.BasicLit)
				if !ok || lit.Kind != token.STRING {
					unknown = append(unknown, fset.Position(s.Pos()).String())
					continue
				}
				name, _ := strconv.Unquote(lit.Value)
				regs[p] = append(regs[p], c05Reg{Name: name, Match: match})
			}
		}
		fmt.Fprintf(w, "From Coq Require Import List String.\nImport ListNotations.\n")
		for _, p := range []string{"create", "update", "delete"} {
			items := make([]string, len(regs[p]))
			for i, r := range regs[p] {
				items[i] = "(" + c05Str(r.Name) + ", " + c05Str(r.Match) + ")"
			}
			fmt.Fprintf(w, "Definition c05_%s_order : list (string * string) := [%s].\n", p, strings.Join(items, "; "))
		}
		us := make([]string, len(unknown))
		for i, u := range unknown {
			us[i] = c05Str(u)
		}
		fmt.Fprintf(w, "Definition c05_unknown : list string := [%s].\n", strings.Join(us, "; "))
		return map[string]interface{}{"create": regs["create"], "update": regs["update"], "delete": regs["delete"], "unknown": unknown}, nil
	}
}
