package main

// C05 facts, read from the RUNNING gorm (the facts binary is linked against the tree under test),
// not from source text: for the create / update / delete processors
//   * the registered callbacks, in registration order, with whether each is conditional on a
//     Match function and on WHICH one (same function value = same tag) — by reflection over the
//     processor's callback list, located by its SHAPE (a slice of pointers to structs holding
//     string fields, a func(*gorm.DB) handler and a func(*gorm.DB) bool condition), not by field names;
//   * the order in which these callbacks are actually EXECUTED — by registering, through the public
//     API, one probe callback Before(name) per callback and running a DryRun operation.
// FactsOK_C05 requires: executed order = registered order; gorm:begin_transaction first,
// gorm:commit_or_rollback_transaction last, both (and only they) under the same Match. A callback
// entry the reflection cannot read (no unique non-empty name) is listed in c05_unknown, which must be empty.
// Rewrites of callbacks/callbacks.go that keep the calls (tables, loops, helpers, renamed fields)
// do not change these facts.

import (
	"fmt"
	"io"
	"reflect"
	"strings"

	"gorm.io/gorm"
	"gorm.io/gorm/logger"
	"gorm.io/gorm/utils/tests"
)

type c05Reg struct {
	Name  string `json:"name"`
	Match string `json:"match"` // "" or a tag identifying the Match function
}

type c05Probe struct {
	ID   uint `gorm:"primaryKey"`
	Name string
}

func c05Str(s string) string { return "\"" + strings.ReplaceAll(s, "\"", "\"\"") + "\"%string" }

// c05Registered reads the callback list of a processor by shape.
func c05Registered(proc interface{}, matchTags map[uintptr]string) (regs []c05Reg, unknown []string) {
	dbType := reflect.TypeOf(&gorm.DB{})
	handlerT := reflect.FuncOf([]reflect.Type{dbType}, nil, false)
	condT := reflect.FuncOf([]reflect.Type{dbType}, []reflect.Type{reflect.TypeOf(true)}, false)
	pv := reflect.ValueOf(proc).Elem()
	found := false
	for i := 0; i < pv.NumField(); i++ {
		f := pv.Field(i)
		if f.Kind() != reflect.Slice || f.Type().Elem().Kind() != reflect.Ptr || f.Type().Elem().Elem().Kind() != reflect.Struct {
			continue
		}
		et := f.Type().Elem().Elem()
		hasHandler, hasCond := false, false
		for j := 0; j < et.NumField(); j++ {
			hasHandler = hasHandler || et.Field(j).Type == handlerT
			hasCond = hasCond || et.Field(j).Type == condT
		}
		if !hasHandler || !hasCond {
			continue
		}
		found = true
		for k := 0; k < f.Len(); k++ {
			cb := f.Index(k).Elem()
			var names []string
			match := ""
			for j := 0; j < cb.NumField(); j++ {
				fv := cb.Field(j)
				switch {
				case fv.Kind() == reflect.String && fv.String() != "":
					names = append(names, fv.String())
				case fv.Type() == condT && !fv.IsNil():
					p := fv.Pointer()
					if _, ok := matchTags[p]; !ok {
						matchTags[p] = fmt.Sprintf("match%d", len(matchTags)+1)
					}
					match = matchTags[p]
				}
			}
			if len(names) != 1 {
				unknown = append(unknown, fmt.Sprintf("callback #%d has %d non-empty string fields", k, len(names)))
				continue
			}
			regs = append(regs, c05Reg{Name: names[0], Match: match})
		}
	}
	if !found {
		unknown = append(unknown, "no callback list found in the processor")
	}
	return
}

func init() {
	Extractors["C05"] = func(repo string, w io.Writer) (interface{}, error) {
		db, err := gorm.Open(tests.DummyDialector{}, &gorm.Config{Logger: logger.Discard})
		if err != nil {
			return nil, err
		}
		regs := map[string][]c05Reg{}
		executed := map[string][]string{}
		unknown := []string{}
		tags := map[uintptr]string{}
		var ran []string
		for _, p := range []string{"create", "update", "delete"} {
			var r []c05Reg
			var u []string
			switch p {
			case "create":
				r, u = c05Registered(db.Callback().Create(), tags)
			case "update":
				r, u = c05Registered(db.Callback().Update(), tags)
			case "delete":
				r, u = c05Registered(db.Callback().Delete(), tags)
			}
			regs[p] = r
			for _, x := range u {
				unknown = append(unknown, p+": "+x)
			}
			// one probe right before every registered callback (public API)
			for _, reg := range r {
				name := reg.Name
				probe := func(*gorm.DB) { ran = append(ran, name) }
				switch p {
				case "create":
					err = db.Callback().Create().Before(name).Register("verif:probe:"+name, probe)
				case "update":
					err = db.Callback().Update().Before(name).Register("verif:probe:"+name, probe)
				case "delete":
					err = db.Callback().Delete().Before(name).Register("verif:probe:"+name, probe)
				}
				if err != nil {
					return nil, err
				}
			}
		}
		dry := db.Session(&gorm.Session{DryRun: true})
		ran = nil
		dry.Create(&c05Probe{Name: "x"})
		executed["create"] = ran
		ran = nil
		dry.Model(&c05Probe{ID: 1}).Update("name", "y")
		executed["update"] = ran
		ran = nil
		dry.Delete(&c05Probe{ID: 1})
		executed["delete"] = ran

		fmt.Fprintf(w, "From Coq Require Import List String.\nImport ListNotations.\n")
		for _, p := range []string{"create", "update", "delete"} {
			items := make([]string, len(regs[p]))
			for i, r := range regs[p] {
				items[i] = "(" + c05Str(r.Name) + ", " + c05Str(r.Match) + ")"
			}
			fmt.Fprintf(w, "Definition c05_%s_order : list (string * string) := [%s].\n", p, strings.Join(items, "; "))
			ex := make([]string, len(executed[p]))
			for i, n := range executed[p] {
				ex[i] = c05Str(n)
			}
			fmt.Fprintf(w, "Definition c05_%s_executed : list string := [%s].\n", p, strings.Join(ex, "; "))
		}
		us := make([]string, len(unknown))
		for i, u := range unknown {
			us[i] = c05Str(u)
		}
		fmt.Fprintf(w, "Definition c05_unknown : list string := [%s].\n", strings.Join(us, "; "))
		return map[string]interface{}{"registered": regs, "executed": executed, "unknown": unknown, "source": "running gorm (reflection + probe callbacks)"}, nil
	}
}
