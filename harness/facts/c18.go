package main

// C18 facts: every driver call site and every Session / Statement composite literal of the CURRENT
// gorm source, with the syntactic form of the context expression (extracted by cmd/c18/srcfacts).

import (
	"fmt"
	"io"
	"strings"

	"verifharness/cmd/c18/probe"
	"verifharness/cmd/c18/srcfacts"
)

func c18Form(f string) string {
	switch f {
	case srcfacts.Absent:
		return "FAbsent"
	case srcfacts.StmtCtx:
		return "FStmt"
	case srcfacts.Param:
		return "FParam"
	case srcfacts.Background:
		return "FBackground"
	}
	return "FUnknown"
}

func c18Str(s string) string { return "\"" + strings.ReplaceAll(s, "\"", "\"\"") + "\"%string" }

func c18Bool(b bool) string {
	if b {
		return "true"
	}
	return "false"
}

func init() {
	Extractors["C18"] = func(repo string, w io.Writer) (interface{}, error) {
		fa, err := srcfacts.Extract(repo)
		if err != nil {
			return nil, err
		}
		fmt.Fprintf(w, "From Verif Require Import Base C18_Model C18_Ops.\n")
		// call sites: (file:func:line, method, in a wrapper that received ctx as a parameter?, form)
		fmt.Fprintf(w, "Definition c18_call_sites : list (string * string * bool * cform) := [")
		for i, s := range fa.Sites {
			if i > 0 {
				fmt.Fprintf(w, ";")
			}
			wrapper := s.Raw == srcfacts.Param // the site passes on a context parameter it received
			fmt.Fprintf(w, "\n  (%s, %s, %s, %s)", c18Str(fmt.Sprintf("%s:%s:%d", s.File, s.Func, s.Line)), c18Str(s.Method), c18Bool(wrapper), c18Form(s.Form))
		}
		fmt.Fprintf(w, "].\n")
		// Session literals: (key, func, literal)
		fmt.Fprintf(w, "Definition c18_sessions : list (string * string * slit) := [")
		n := 0
		for _, l := range fa.Lits {
			if l.Kind != "Session" {
				continue
			}
			if n > 0 {
				fmt.Fprintf(w, ";")
			}
			n++
			fmt.Fprintf(w, "\n  (%s, %s, mk_slit %s %s %s %s)", c18Str(l.Key()), c18Str(l.Func), c18Form(l.CtxForm), c18Bool(l.NewDB == "true" || l.NewDB == "expr"), c18Bool(l.Init), c18Bool(l.Own()))
		}
		fmt.Fprintf(w, "].\n")
		// Statement literals: (key, only reachable from Open?, sets ConnPool, context form)
		fmt.Fprintf(w, "Definition c18_statements : list (string * bool * bool * cform) := [")
		n = 0
		for _, l := range fa.Lits {
			if l.Kind != "Statement" {
				continue
			}
			if n > 0 {
				fmt.Fprintf(w, ";")
			}
			n++
			fmt.Fprintf(w, "\n  (%s, %s, %s, %s)", c18Str(l.Key()), c18Bool(len(l.Roots) == 1 && l.Roots[0] == "Open"), c18Bool(l.HasField("ConnPool")), c18Form(l.CtxForm))
		}
		fmt.Fprintf(w, "].\n")
		cp, err := probe.Measure()
		if err != nil {
			return nil, err
		}
		fmt.Fprintf(w, "Definition c18_copies : copies := mk_copies %s %s %s.\n", c18Bool(cp.GetInstance), c18Bool(cp.Clone), c18Bool(cp.Session))
		fmt.Fprintf(w, "Definition c18_other_ctx_writes : list string := [")
		for i, s := range fa.OtherCtxWrites {
			if i > 0 {
				fmt.Fprintf(w, "; ")
			}
			fmt.Fprintf(w, "%s", c18Str(s))
		}
		fmt.Fprintf(w, "].\n")
		// manufactured contexts: (where, call, usage)
		fmt.Fprintf(w, "Definition c18_fresh_contexts : list (string * string * string) := [")
		for i, f := range fa.Fresh {
			if i > 0 {
				fmt.Fprintf(w, ";")
			}
			fmt.Fprintf(w, "\n  (%s, %s, %s)", c18Str(fmt.Sprintf("%s:%s:%d", f.File, f.Func, f.Line)), c18Str(f.Call), c18Str(f.Usage))
		}
		fmt.Fprintf(w, "].\n")
		fmt.Fprintf(w, "Definition c18_internal_rebinds : list string := [")
		for i, s := range fa.Rebinds {
			if i > 0 {
				fmt.Fprintf(w, "; ")
			}
			fmt.Fprintf(w, "%s", c18Str(s))
		}
		fmt.Fprintf(w, "].\n")
		// the roles record the operation trees of C18_Ops.v are built over
		fmt.Fprintf(w, "Definition c18_roles : roles := %s.\n", fa.RolesTerm())
		return map[string]interface{}{"source": fa, "copies_measured_on_running_gorm": cp}, nil
	}
}
