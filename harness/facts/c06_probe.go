package main

// C06 facts obtained by RUNNING gorm (robust against any restructuring of the sources):
//   - which slices / maps of a statement Statement.clone shares and which it copies: a chain with
//     every slice and map populated, db.Session(&Session{}), one chain step (getInstance), then the
//     child's and the handle's fields are compared by backing-array / map identity (reflect);
//   - how each slice-carrying MergeClause treats the slice stored in the clause: merged onto a
//     clause whose slice has spare capacity, does the result live in the old backing array?
//   - whether Where.Build reorders the caller's array;
//   - which Session options give the new handle a statement of its own when the parent is a
//     Session-style handle.

import (
	"context"
	"reflect"
	"sort"

	"gorm.io/gorm"
	"gorm.io/gorm/clause"
	"gorm.io/gorm/logger"
	"gorm.io/gorm/utils/tests"
)

type c06Probe struct {
	CloneCopied   []string
	CloneShared   []string
	CloneMaps     []string
	Merge         map[string]string // Where GroupBy OrderBy Returning -> MCopy | MInPlace
	FromReplaces  bool
	WhereSwap     string
	SessionClones map[string]bool // option -> the child of a Session-style parent has its own Statement
}

type probeT struct {
	ID int64
	C1 int64
}

func sameArray(a, b reflect.Value) (both bool, same bool) {
	if !a.IsValid() || !b.IsValid() || a.Kind() != reflect.Slice || b.Kind() != reflect.Slice || a.Cap() == 0 || b.Cap() == 0 {
		return false, false
	}
	return true, a.Pointer() == b.Pointer()
}

func runC06Probe() (p c06Probe, err error) {
	defer func() {
		if r := recover(); r != nil {
			err = &probeErr{r}
		}
	}()
	p.Merge = map[string]string{}
	p.SessionClones = map[string]bool{}
	db, e := gorm.Open(tests.DummyDialector{}, &gorm.Config{DryRun: true, SkipDefaultTransaction: true, Logger: logger.Discard})
	if e != nil {
		return p, e
	}
	col := func(n string) clause.Column { return clause.Column{Name: n} }
	scope := func(d *gorm.DB) *gorm.DB { return d }
	c := db.Model(&probeT{}).Where("a = ?", 1).Where("b = ?", 2).Or("c = ?", 3).
		Order("o1").Order("o2").Group("g1").Group("g2").Having("h1 = ?", 1).Having("h2 = ?", 2).
		Clauses(clause.Returning{Columns: []clause.Column{col("r1"), col("r2")}}).
		Clauses(clause.From{Joins: []clause.Join{{Expression: clause.Expr{SQL: "JOIN x"}}}}).
		Select("s1", "s2").Omit("c1").Joins("JOIN j1").Joins("JOIN j2").Scopes(scope, scope).
		Preload("P1").Attrs(map[string]interface{}{"c1": 1}).Assign(map[string]interface{}{"c1": 2})
	h := c.Session(&gorm.Session{})
	child := h.Unscoped() // getInstance: Statement.clone
	hs, cs := reflect.ValueOf(h.Statement).Elem(), reflect.ValueOf(child.Statement).Elem()
	for i := 0; i < hs.NumField(); i++ {
		name := hs.Type().Field(i).Name
		a, b := hs.Field(i), cs.Field(i)
		switch a.Kind() {
		case reflect.Slice:
			if both, same := sameArray(a, b); both {
				if same {
					p.CloneShared = append(p.CloneShared, name)
				} else {
					p.CloneCopied = append(p.CloneCopied, name)
				}
			}
		case reflect.Map:
			if a.Len() > 0 && b.Len() == a.Len() {
				if a.Pointer() == b.Pointer() {
					p.CloneShared = append(p.CloneShared, name)
				} else {
					p.CloneMaps = append(p.CloneMaps, name)
				}
			}
		}
	}
	// the slices inside the clauses
	clauseSlices := func(st *gorm.Statement) map[string]reflect.Value {
		m := map[string]reflect.Value{}
		if w, ok := st.Clauses["WHERE"].Expression.(clause.Where); ok {
			m["Clauses.WHERE.Exprs"] = reflect.ValueOf(w.Exprs)
		}
		if g, ok := st.Clauses["GROUP BY"].Expression.(clause.GroupBy); ok {
			m["Clauses.GROUPBY.Columns"], m["Clauses.GROUPBY.Having"] = reflect.ValueOf(g.Columns), reflect.ValueOf(g.Having)
		}
		if o, ok := st.Clauses["ORDER BY"].Expression.(clause.OrderBy); ok {
			m["Clauses.ORDERBY.Columns"] = reflect.ValueOf(o.Columns)
		}
		if r, ok := st.Clauses["RETURNING"].Expression.(clause.Returning); ok {
			m["Clauses.RETURNING.Columns"] = reflect.ValueOf(r.Columns)
		}
		if f, ok := st.Clauses["FROM"].Expression.(clause.From); ok {
			m["Clauses.FROM.Joins"] = reflect.ValueOf(f.Joins)
		}
		return m
	}
	ha, ca := clauseSlices(h.Statement), clauseSlices(child.Statement)
	for k, a := range ha {
		if both, same := sameArray(a, ca[k]); both {
			if same {
				p.CloneShared = append(p.CloneShared, k)
			} else {
				p.CloneCopied = append(p.CloneCopied, k)
			}
		}
	}
	sort.Strings(p.CloneCopied)
	sort.Strings(p.CloneShared)
	sort.Strings(p.CloneMaps)

	// MergeClause: merge one more item onto a stored slice that has spare capacity
	class := func(old, res reflect.Value) string {
		if both, same := sameArray(old, res); both && same {
			return "MInPlace"
		} else if both {
			return "MCopy"
		}
		return "MUnknown"
	}
	{
		old := make([]clause.Expression, 2, 8)
		old[0], old[1] = clause.Expr{SQL: "a"}, clause.Expr{SQL: "b"}
		cl := clause.Clause{Expression: clause.Where{Exprs: old}}
		clause.Where{Exprs: []clause.Expression{clause.Expr{SQL: "c"}}}.MergeClause(&cl)
		p.Merge["Where"] = class(reflect.ValueOf(old), reflect.ValueOf(cl.Expression.(clause.Where).Exprs))
	}
	{
		oc, oh := make([]clause.Column, 2, 8), make([]clause.Expression, 2, 8)
		oc[0], oc[1], oh[0], oh[1] = col("a"), col("b"), clause.Expr{SQL: "a"}, clause.Expr{SQL: "b"}
		cl := clause.Clause{Expression: clause.GroupBy{Columns: oc, Having: oh}}
		clause.GroupBy{Columns: []clause.Column{col("c")}, Having: []clause.Expression{clause.Expr{SQL: "c"}}}.MergeClause(&cl)
		g := cl.Expression.(clause.GroupBy)
		a, b := class(reflect.ValueOf(oc), reflect.ValueOf(g.Columns)), class(reflect.ValueOf(oh), reflect.ValueOf(g.Having))
		p.Merge["GroupBy"] = a
		if b != "MCopy" {
			p.Merge["GroupBy"] = b
		}
	}
	{
		old := make([]clause.OrderByColumn, 2, 8)
		old[0], old[1] = clause.OrderByColumn{Column: col("a")}, clause.OrderByColumn{Column: col("b")}
		cl := clause.Clause{Expression: clause.OrderBy{Columns: old}}
		clause.OrderBy{Columns: []clause.OrderByColumn{{Column: col("c")}}}.MergeClause(&cl)
		p.Merge["OrderBy"] = class(reflect.ValueOf(old), reflect.ValueOf(cl.Expression.(clause.OrderBy).Columns))
	}
	{
		old := make([]clause.Column, 2, 8)
		old[0], old[1] = col("a"), col("b")
		cl := clause.Clause{Expression: clause.Returning{Columns: old}}
		clause.Returning{Columns: []clause.Column{col("c")}}.MergeClause(&cl)
		p.Merge["Returning"] = class(reflect.ValueOf(old), reflect.ValueOf(cl.Expression.(clause.Returning).Columns))
	}
	{
		old := make([]clause.Join, 1, 8)
		nw := []clause.Join{{Expression: clause.Expr{SQL: "JOIN y"}}}
		cl := clause.Clause{Expression: clause.From{Joins: old}}
		clause.From{Joins: nw}.MergeClause(&cl)
		_, same := sameArray(reflect.ValueOf(nw), reflect.ValueOf(cl.Expression.(clause.From).Joins))
		p.FromReplaces = same && len(cl.Expression.(clause.From).Joins) == 1
	}
	// Where.Build on a list that needs the swap
	{
		exprs := []clause.Expression{clause.Or(clause.Expr{SQL: "o"}), clause.Expr{SQL: "w"}}
		st := &gorm.Statement{DB: db, Clauses: map[string]clause.Clause{}}
		clause.Where{Exprs: exprs}.Build(st)
		_, stillOr := exprs[0].(clause.OrConditions)
		switch {
		case st.SQL.String() != "w OR o":
			p.WhereSwap = "MUnknown"
		case stillOr:
			p.WhereSwap = "MCopy"
		default:
			p.WhereSwap = "MInPlace"
		}
	}
	// Session options from a Session-style parent
	opts := map[string]*gorm.Session{
		"plain": {}, "skiphooks": {SkipHooks: true}, "ctx": {Context: context.Background()}, "fullsave": {FullSaveAssociations: true},
		"allowglobal": {AllowGlobalUpdate: true}, "batchsize": {CreateBatchSize: 2}, "skipdeftx": {SkipDefaultTransaction: true},
		"nonested": {DisableNestedTransaction: true}, "dryrun": {DryRun: true}, "queryfields": {QueryFields: true},
		// the same with NewDB: the guard that gives the child a statement of its own must not depend on it
		"newdb": {NewDB: true}, "newdb+ctx": {NewDB: true, Context: context.Background()}, "newdb+skiphooks": {NewDB: true, SkipHooks: true},
		"newdb+ctx+skiphooks": {NewDB: true, Context: context.Background(), SkipHooks: true},
	}
	for k, o := range opts {
		parent := db.Where("a = ?", 1).Session(&gorm.Session{})
		bHooks, bCtx, bPool := parent.Statement.SkipHooks, parent.Statement.Context, parent.Statement.ConnPool
		ch := parent.Session(o)
		own := ch.Statement != parent.Statement
		// a shared statement must not have been written
		if !own && (parent.Statement.SkipHooks != bHooks || parent.Statement.Context != bCtx || parent.Statement.ConnPool != bPool) {
			own = false
			k = k + "!parent-written"
		}
		p.SessionClones[k] = own
	}
	return p, nil
}

type probeErr struct{ v interface{} }

func (e *probeErr) Error() string { return "c06 probe panicked: " + reflect.ValueOf(e.v).String() }
