package main

// C19 facts: every ConnPool.{Exec,Query,QueryRow,Prepare}Context call site of the CURRENT gorm
// source (package gorm and package callbacks), classified by the DryRun test that dominates it, and
// every occurrence of the selector `.DryRun`, classified by how it is used.

import (
	"fmt"
	"go/ast"
	"go/parser"
	"go/token"
	"io"
	"os"
	"path/filepath"
	"sort"
	"strings"
)

type c19Site struct {
	Pkg    string `json:"-"`
	Bare   string `json:"-"`
	Recv0  string `json:"-"`
	Guard  string `json:"-"`
	Func   string `json:"func"`
	Method string `json:"method"`
	Recv   string `json:"receiver"`
	Line   int    `json:"line"`
	Class  string `json:"class"`
}
type c19Read struct {
	Pkg   string `json:"pkg"`
	Bare  string `json:"bare"`
	Reach bool   `json:"reaches_driver_call"`
	Func  string `json:"func"`
	Line  int    `json:"line"`
	Class string `json:"class"`
}
type c19Facts struct {
	Sites []c19Site           `json:"sites"`
	Reads []c19Read           `json:"dryrun_reads"`
	funcs map[string]*c19Func // key "pkgdir|bare name" -> all functions/methods of that name
}

// c19Call is a call of a function / method of the same package, with the DryRun guard at the call.
type c19Call struct {
	callee string
	guard  string
}
type c19Func struct {
	pkg, name string // package dir, bare name (method name without receiver)
	exported  bool
	sites     []int // indices into Facts.Sites
	calls     []c19Call
	escapes   bool // referenced other than in call position (method value, registered callback ...)
	callers   int
}

type c19x struct {
	fset   *token.FileSet
	file   string
	fn     string
	pkg    string
	bare   string
	recv   string
	cur    *c19Func
	refs   []string // identifiers seen outside call position
	inCall map[ast.Node]bool
	facts  *c19Facts
	// positions of .DryRun selectors already classified (if conditions, assignments)
	seen map[token.Pos]bool
}

func c19Text(e ast.Expr) string {
	switch v := e.(type) {
	case *ast.Ident:
		return v.Name
	case *ast.SelectorExpr:
		return c19Text(v.X) + "." + v.Sel.Name
	case *ast.CallExpr:
		return c19Text(v.Fun) + "()"
	case *ast.ParenExpr:
		return c19Text(v.X)
	case *ast.StarExpr:
		return c19Text(v.X)
	case *ast.TypeAssertExpr:
		return c19Text(v.X) + ".(T)"
	}
	return "?"
}

func c19IsDry(e ast.Expr) bool {
	s, ok := e.(*ast.SelectorExpr)
	return ok && s.Sel.Name == "DryRun"
}

func c19Unparen(e ast.Expr) ast.Expr {
	for {
		p, ok := e.(*ast.ParenExpr)
		if !ok {
			return e
		}
		e = p.X
	}
}

// has a top-level conjunct `!x.DryRun` (or a variable defined as such a conjunction)
func c19NotDryConjunct(e ast.Expr, vars map[string]bool) bool {
	e = c19Unparen(e)
	if b, ok := e.(*ast.BinaryExpr); ok && b.Op == token.LAND {
		return c19NotDryConjunct(b.X, vars) || c19NotDryConjunct(b.Y, vars)
	}
	if u, ok := e.(*ast.UnaryExpr); ok && u.Op == token.NOT {
		return c19IsDry(c19Unparen(u.X))
	}
	if id, ok := e.(*ast.Ident); ok {
		return vars[id.Name]
	}
	return false
}

// has a top-level disjunct `x.DryRun`; "var" when the disjunct is `!v`, v a not-dry variable
func c19DryDisjunct(e ast.Expr, vars map[string]bool) string {
	e = c19Unparen(e)
	if b, ok := e.(*ast.BinaryExpr); ok && b.Op == token.LOR {
		if r := c19DryDisjunct(b.X, vars); r != "" {
			return r
		}
		return c19DryDisjunct(b.Y, vars)
	}
	if c19IsDry(e) {
		return "ret"
	}
	if u, ok := e.(*ast.UnaryExpr); ok && u.Op == token.NOT {
		if id, ok := c19Unparen(u.X).(*ast.Ident); ok && vars[id.Name] {
			return "retvar"
		}
	}
	return ""
}

func c19EndsInReturn(b *ast.BlockStmt) bool {
	if b == nil || len(b.List) == 0 {
		return false
	}
	_, ok := b.List[len(b.List)-1].(*ast.ReturnStmt)
	return ok
}

func (x *c19x) read(pos token.Pos, class string) {
	if x.seen[pos] {
		return
	}
	x.seen[pos] = true
	x.facts.Reads = append(x.facts.Reads, c19Read{Pkg: x.pkg, Bare: x.bare, Func: x.file + ":" + x.fn, Line: x.fset.Position(pos).Line, Class: class})
}

// mark every .DryRun inside e with class
func (x *c19x) markReads(e ast.Node, class string) {
	if e == nil {
		return
	}
	ast.Inspect(e, func(n ast.Node) bool {
		if s, ok := n.(*ast.SelectorExpr); ok && s.Sel.Name == "DryRun" {
			x.read(s.Sel.Pos(), class)
		}
		return true
	})
}

var c19Methods = map[string]bool{"ExecContext": true, "QueryContext": true, "QueryRowContext": true, "PrepareContext": true}

// expressions: call sites, function literals, remaining DryRun reads
func (x *c19x) exprs(n ast.Node, guard string, vars map[string]bool) {
	if n == nil {
		return
	}
	ast.Inspect(n, func(m ast.Node) bool {
		switch v := m.(type) {
		case *ast.FuncLit:
			x.block(v.Body.List, guard, vars)
			return false
		case *ast.CallExpr:
			x.inCall[v.Fun] = true
			if s, ok := v.Fun.(*ast.SelectorExpr); ok && c19Methods[s.Sel.Name] {
				x.facts.Sites = append(x.facts.Sites, c19Site{Pkg: x.pkg, Bare: x.bare, Recv0: x.recv, Guard: guard,
					Func: x.file + ":" + x.fn, Method: s.Sel.Name,
					Recv: c19Text(s.X), Line: x.fset.Position(v.Pos()).Line})
				x.cur.sites = append(x.cur.sites, len(x.facts.Sites)-1)
			} else if s, ok := v.Fun.(*ast.SelectorExpr); ok {
				x.inCall[s.Sel] = true
				x.cur.calls = append(x.cur.calls, c19Call{callee: s.Sel.Name, guard: guard})
			} else if id, ok := v.Fun.(*ast.Ident); ok {
				x.cur.calls = append(x.cur.calls, c19Call{callee: id.Name, guard: guard})
			}
		case *ast.Ident:
			if !x.inCall[v] {
				x.refs = append(x.refs, v.Name)
			}
		case *ast.SelectorExpr:
			if v.Sel.Name == "DryRun" {
				x.read(v.Sel.Pos(), "ROther")
			}
			if !x.inCall[v] && !x.inCall[v.Sel] {
				x.refs = append(x.refs, v.Sel.Name)
			}
			x.inCall[v.Sel] = true // the Sel identifier itself is not a free reference
		}
		return true
	})
}

func (x *c19x) block(stmts []ast.Stmt, guard string, vars map[string]bool) {
	g := guard
	for _, s := range stmts {
		x.stmt(s, g, vars)
		if ifs, ok := s.(*ast.IfStmt); ok && ifs.Else == nil && c19EndsInReturn(ifs.Body) && g == "" {
			g = c19DryDisjunct(ifs.Cond, vars)
		}
	}
}

func (x *c19x) stmt(s ast.Stmt, g string, vars map[string]bool) {
	switch v := s.(type) {
	case nil:
	case *ast.BlockStmt:
		x.block(v.List, g, vars)
	case *ast.IfStmt:
		x.stmt(v.Init, g, vars)
		x.markReads(v.Cond, "RGuard")
		x.exprs(v.Cond, g, vars)
		bg := g
		if bg == "" && c19NotDryConjunct(v.Cond, vars) {
			bg = "if"
		}
		x.block(v.Body.List, bg, vars)
		x.stmt(v.Else, g, vars)
	case *ast.ForStmt:
		x.stmt(v.Init, g, vars)
		x.exprs(v.Cond, g, vars)
		x.stmt(v.Post, g, vars)
		x.block(v.Body.List, g, vars)
	case *ast.RangeStmt:
		x.exprs(v.X, g, vars)
		x.block(v.Body.List, g, vars)
	case *ast.SwitchStmt:
		x.stmt(v.Init, g, vars)
		x.exprs(v.Tag, g, vars)
		x.block(v.Body.List, g, vars)
	case *ast.TypeSwitchStmt:
		x.stmt(v.Init, g, vars)
		x.stmt(v.Assign, g, vars)
		x.block(v.Body.List, g, vars)
	case *ast.CaseClause:
		for _, e := range v.List {
			x.exprs(e, g, vars)
		}
		x.block(v.Body, g, vars)
	case *ast.SelectStmt:
		x.block(v.Body.List, g, vars)
	case *ast.CommClause:
		x.stmt(v.Comm, g, vars)
		x.block(v.Body, g, vars)
	case *ast.LabeledStmt:
		x.stmt(v.Stmt, g, vars)
	case *ast.AssignStmt:
		for _, l := range v.Lhs {
			if c19IsDry(l) {
				x.read(l.(*ast.SelectorExpr).Sel.Pos(), "RSet")
			}
		}
		if len(v.Lhs) == 1 && len(v.Rhs) == 1 {
			if id, ok := v.Lhs[0].(*ast.Ident); ok && c19NotDryConjunct(v.Rhs[0], vars) {
				vars[id.Name] = true
				x.markReads(v.Rhs[0], "RGuardVar")
			}
		}
		x.exprs(v, g, vars)
	default:
		x.exprs(s, g, vars)
	}
}

func c19FuncName(d *ast.FuncDecl) string {
	if d.Recv != nil && len(d.Recv.List) > 0 {
		t := d.Recv.List[0].Type
		if st, ok := t.(*ast.StarExpr); ok {
			t = st.X
		}
		return c19Text(t) + "." + d.Name.Name
	}
	return d.Name.Name
}

func c19Extract(repo string) (*c19Facts, error) {
	facts := &c19Facts{}
	fset := token.NewFileSet()
	var all []*c19Func
	refs := map[string][]string{}
	for _, dir := range []string{"", "callbacks"} {
		files, _ := filepath.Glob(filepath.Join(repo, dir, "*.go"))
		sort.Strings(files)
		for _, f := range files {
			if strings.HasSuffix(f, "_test.go") {
				continue
			}
			src, err := os.ReadFile(f)
			if err != nil {
				return nil, err
			}
			if strings.Contains(string(src), "//go:build verif") {
				continue // harness hooks
			}
			af, err := parser.ParseFile(fset, f, src, 0)
			if err != nil {
				return nil, err
			}
			rel := filepath.Base(f)
			if dir != "" {
				rel = dir + "/" + rel
			}
			for _, d := range af.Decls {
				fd, ok := d.(*ast.FuncDecl)
				if !ok || fd.Body == nil {
					continue
				}
				recv := ""
				if fd.Recv != nil && len(fd.Recv.List) > 0 {
					t := fd.Recv.List[0].Type
					if st, ok := t.(*ast.StarExpr); ok {
						t = st.X
					}
					recv = c19Text(t)
				}
				fi := &c19Func{pkg: dir, name: fd.Name.Name, exported: ast.IsExported(fd.Name.Name)}
				all = append(all, fi)
				x := &c19x{fset: fset, file: rel, fn: c19FuncName(fd), pkg: dir, bare: fd.Name.Name, recv: recv, cur: fi,
					facts: facts, seen: map[token.Pos]bool{}, inCall: map[ast.Node]bool{}}
				x.block(fd.Body.List, "", map[string]bool{})
				refs[dir] = append(refs[dir], x.refs...)
			}
		}
	}
	// ---- interprocedural part (per package, by bare name; no type information: a name stands for every
	// function / method of that name in the package) ----
	byName := map[string][]*c19Func{}
	for _, f := range all {
		byName[f.pkg+"|"+f.name] = append(byName[f.pkg+"|"+f.name], f)
	}
	for dir, rs := range refs {
		for _, r := range rs {
			for _, f := range byName[dir+"|"+r] {
				f.escapes = true
			}
		}
	}
	type edge struct {
		from  *c19Func
		guard string
	}
	callersOf := map[*c19Func][]edge{}
	for _, f := range all {
		for _, c := range f.calls {
			for _, g := range byName[f.pkg+"|"+c.callee] {
				callersOf[g] = append(callersOf[g], edge{f, c.guard})
			}
		}
	}
	// covered(f): f is only ever entered through calls that are themselves behind a DryRun test
	covered := map[*c19Func]bool{}
	for changed := true; changed; {
		changed = false
		for _, f := range all {
			if covered[f] || f.exported || f.escapes || len(callersOf[f]) == 0 {
				continue
			}
			ok := true
			for _, e := range callersOf[f] {
				if e.guard == "" && !covered[e.from] {
					ok = false
				}
			}
			if ok {
				covered[f] = true
				changed = true
			}
		}
	}
	// reaches(f): a driver call site is reachable from f
	reaches := map[*c19Func]bool{}
	for _, f := range all {
		if len(f.sites) > 0 {
			reaches[f] = true
		}
	}
	for changed := true; changed; {
		changed = false
		for _, f := range all {
			if reaches[f] {
				continue
			}
			for _, c := range f.calls {
				for _, g := range byName[f.pkg+"|"+c.callee] {
					if reaches[g] {
						reaches[f] = true
						changed = true
					}
				}
			}
		}
	}
	for _, f := range all {
		for _, i := range f.sites {
			st := &facts.Sites[i]
			switch {
			case c19Methods[st.Bare] || strings.HasPrefix(st.Recv0, "PreparedStmt"):
				st.Class = "SWrapper" // a ConnPool implementation forwarding the call it received
			case st.Guard != "":
				st.Class = map[string]string{"if": "SIfNotDry", "ret": "SAfterDryReturn", "retvar": "SAfterVarReturn"}[st.Guard]
			case covered[f]:
				st.Class = "SCallerGuard"
			default:
				st.Class = "SUnknown"
			}
		}
	}
	for i := range facts.Reads {
		r := &facts.Reads[i]
		for _, f := range byName[r.Pkg+"|"+r.Bare] {
			if reaches[f] {
				r.Reach = true
			}
		}
	}
	return facts, nil
}

func init() {
	Extractors["C19"] = func(repo string, w io.Writer) (interface{}, error) {
		fa, err := c19Extract(repo)
		if err != nil {
			return nil, err
		}
		q := func(s string) string { return "\"" + strings.ReplaceAll(s, "\"", "\"\"") + "\"%string" }
		fmt.Fprintf(w, "From Verif Require Import Base C19_Facts.\n")
		fmt.Fprintf(w, "Definition c19_sites : list (string * string * site_class) := [")
		pkgName := func(p string) string {
			if p == "" {
				return "gorm"
			}
			return p
		}
		for i, s := range fa.Sites {
			if i > 0 {
				fmt.Fprintf(w, ";")
			}
			fmt.Fprintf(w, "\n  (%s, %s, %s)", q(pkgName(s.Pkg)+":"+s.Func), q(s.Recv+"."+s.Method), s.Class)
		}
		fmt.Fprintf(w, "].\n")
		fmt.Fprintf(w, "Definition c19_dry_reads : list (string * string * read_class * bool) := [")
		for i, r := range fa.Reads {
			if i > 0 {
				fmt.Fprintf(w, ";")
			}
			reach := "false"
			if r.Reach {
				reach = "true"
			}
			fmt.Fprintf(w, "\n  (%s, %s, %s, %s)", q(pkgName(r.Pkg)), q(r.Bare), r.Class, reach)
		}
		fmt.Fprintf(w, "].\n")
		return fa, nil
	}
}
