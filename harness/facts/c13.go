package main

// C13 facts, read from the RUNNING gorm (the one this binary is linked against: the tree under check),
// not from its source text:
//   * every default callback the model knows is wrapped, through the public API
//     (processor.Get + processor.Replace, which keeps the position), by a tracer that logs its name
//     and calls the original handler; a probe model type with all nine hooks logs every hook call;
//     the recording driver supplies BEGIN / COMMIT.  One Create / Updates / Delete / First on real
//     SQLite then yields the execution order of the callbacks of each pipeline, which hooks each
//     callback runs and in which order, and that the transaction brackets everything - with the
//     default transaction and with SkipDefaultTransaction (the two transaction callbacks are the only
//     conditional ones).
//   * best effort, by reflection on the processors: the names of ALL registered callbacks, so that a
//     callback the model does not know shows up (skipped, and said so, when the unexported fields
//     cannot be found).
// FactsOK_C13 compares these runs with what the model's pipelines predict.

import (
	"fmt"
	"io"
	"reflect"
	"sort"
	"strings"

	"gorm.io/gorm"
	"gorm.io/gorm/logger"

	"verifharness/gdb"
	"verifharness/recdrv"
)

type c13Item struct {
	pos  int // driver events recorded when the item was logged
	text string
}

var (
	c13Log []c13Item
	c13Rec *recdrv.Recorder
)

func c13Note(s string) {
	n := 0
	if c13Rec != nil {
		n = len(c13Rec.Snapshot())
	}
	c13Log = append(c13Log, c13Item{n, s})
}

// C13Probe has every hook; each logs itself.
type C13Probe struct {
	ID   int64 `gorm:"primaryKey"`
	Name string
}

func (p *C13Probe) BeforeSave(tx *gorm.DB) error   { c13Note("BeforeSave"); return nil }
func (p *C13Probe) BeforeCreate(tx *gorm.DB) error { c13Note("BeforeCreate"); return nil }
func (p *C13Probe) AfterCreate(tx *gorm.DB) error  { c13Note("AfterCreate"); return nil }
func (p *C13Probe) AfterSave(tx *gorm.DB) error    { c13Note("AfterSave"); return nil }
func (p *C13Probe) BeforeUpdate(tx *gorm.DB) error { c13Note("BeforeUpdate"); return nil }
func (p *C13Probe) AfterUpdate(tx *gorm.DB) error  { c13Note("AfterUpdate"); return nil }
func (p *C13Probe) BeforeDelete(tx *gorm.DB) error { c13Note("BeforeDelete"); return nil }
func (p *C13Probe) AfterDelete(tx *gorm.DB) error  { c13Note("AfterDelete"); return nil }
func (p *C13Probe) AfterFind(tx *gorm.DB) error    { c13Note("AfterFind"); return nil }

var c13Traced = map[string][]string{
	"create": {"gorm:before_create", "gorm:save_before_associations", "gorm:create", "gorm:save_after_associations", "gorm:after_create"},
	"update": {"gorm:setup_reflect_value", "gorm:before_update", "gorm:save_before_associations", "gorm:update", "gorm:save_after_associations", "gorm:after_update"},
	"delete": {"gorm:before_delete", "gorm:delete_before_associations", "gorm:delete", "gorm:after_delete"},
	"query":  {"gorm:query", "gorm:preload", "gorm:after_query"},
}

type c13Processor interface {
	Get(name string) func(*gorm.DB)
	Replace(name string, fn func(*gorm.DB)) error
}

func c13Str(s string) string { return "\"" + strings.ReplaceAll(s, "\"", "\"\"") + "\"%string" }

func c13List(xs []string) string {
	out := make([]string, len(xs))
	for i, x := range xs {
		out[i] = c13Str(x)
	}
	return "[" + strings.Join(out, "; ") + "]"
}

// registered names of a processor, by reflection (best effort)
func c13Names(p interface{}) ([]string, bool) {
	v := reflect.ValueOf(p)
	if v.Kind() != reflect.Ptr || v.IsNil() {
		return nil, false
	}
	cbs := v.Elem().FieldByName("callbacks")
	if !cbs.IsValid() || cbs.Kind() != reflect.Slice {
		return nil, false
	}
	names := []string{}
	for i := 0; i < cbs.Len(); i++ {
		c := cbs.Index(i)
		if c.Kind() == reflect.Ptr {
			c = c.Elem()
		}
		n := c.FieldByName("name")
		if !n.IsValid() || n.Kind() != reflect.String {
			return nil, false
		}
		if rm := c.FieldByName("remove"); rm.IsValid() && rm.Kind() == reflect.Bool && rm.Bool() {
			continue
		}
		names = append(names, n.String())
	}
	return names, true
}

func init() {
	Extractors["C13"] = func(repo string, w io.Writer) (interface{}, error) {
		db, rec, sqlDB, err := gdb.Open(gdb.Opt{DSN: "file:c13facts?mode=memory&cache=shared", Config: &gorm.Config{Logger: logger.Discard}})
		if err != nil {
			return nil, err
		}
		defer sqlDB.Close()
		if err := db.Session(&gorm.Session{SkipHooks: true}).AutoMigrate(&C13Probe{}); err != nil {
			return nil, err
		}
		unknown := []string{}
		procs := map[string]c13Processor{"create": db.Callback().Create(), "update": db.Callback().Update(),
			"delete": db.Callback().Delete(), "query": db.Callback().Query()}
		// names before tracing (Replace appends entries)
		names := map[string][]string{}
		reflected := true
		for _, k := range []string{"create", "update", "delete", "query"} {
			ns, ok := c13Names(procs[k])
			if !ok {
				reflected = false
			}
			sort.Strings(ns)
			names[k] = ns
		}
		for _, k := range []string{"create", "update", "delete", "query"} {
			for _, n := range c13Traced[k] {
				name := n
				orig := procs[k].Get(name)
				if orig == nil {
					unknown = append(unknown, k+": no callback named "+name)
					continue
				}
				if err := procs[k].Replace(name, func(d *gorm.DB) { c13Note(name); orig(d) }); err != nil {
					unknown = append(unknown, k+": cannot wrap "+name+": "+err.Error())
				}
			}
		}
		c13Rec = rec
		run := func(h *gorm.DB, f func(h *gorm.DB) error) []string {
			rec.Reset()
			c13Log = nil
			if err := f(h); err != nil {
				unknown = append(unknown, "probe operation failed: "+err.Error())
			}
			evs := rec.Snapshot()
			out := []string{}
			li := 0
			flush := func(upto int) {
				for li < len(c13Log) && c13Log[li].pos <= upto {
					out = append(out, c13Log[li].text)
					li++
				}
			}
			for i, e := range evs {
				flush(i)
				switch e.Kind {
				case "begin", "commit", "rollback":
					out = append(out, e.Kind)
				}
			}
			flush(len(evs) + 1)
			return out
		}
		runs := map[string][]string{}
		for _, mode := range []string{"default", "skipdef"} {
			h := db.Session(&gorm.Session{SkipDefaultTransaction: mode == "skipdef"})
			p := &C13Probe{Name: "p-" + mode}
			runs["create_"+mode] = run(h, func(h *gorm.DB) error { return h.Create(p).Error })
			runs["update_"+mode] = run(h, func(h *gorm.DB) error { return h.Model(p).Updates(map[string]interface{}{"name": "q"}).Error })
			runs["query_"+mode] = run(h, func(h *gorm.DB) error { var q C13Probe; return h.First(&q, p.ID).Error })
			runs["delete_"+mode] = run(h, func(h *gorm.DB) error { return h.Delete(p).Error })
		}
		fmt.Fprintf(w, "From Verif Require Import Base.\n")
		keys := []string{}
		for k := range runs {
			keys = append(keys, k)
		}
		sort.Strings(keys)
		for _, k := range keys {
			fmt.Fprintf(w, "Definition c13_run_%s : list string := %s.\n", k, c13List(runs[k]))
		}
		for _, k := range []string{"create", "update", "delete", "query"} {
			fmt.Fprintf(w, "Definition c13_names_%s : list string := %s.\n", k, c13List(names[k]))
		}
		rf := "false"
		if reflected {
			rf = "true"
		}
		fmt.Fprintf(w, "Definition c13_names_reflected : bool := %s.\n", rf)
		fmt.Fprintf(w, "Definition c13_unknown : list string := %s.\n", c13List(unknown))
		return map[string]interface{}{"runs": runs, "registered_names": names, "names_reflected": reflected, "unknown": unknown}, nil
	}
}
