package main

// C13 facts: the registration order of the create / update / delete / query pipelines in
// callbacks/callbacks.go (RegisterDefaultCallbacks) and, for every hook callback, the order in which
// its closure tries the hook interfaces — both extracted from the CURRENT source with go/parser.
// Anything that is not a plain `<proc>.Register(name, fn)` / `<proc>.Match(enableTransaction).Register(name, fn)`
// statement on a processor variable is reported in c13_unknown, which FactsOK_C13 requires to be empty.

import (
	"fmt"
	"go/ast"
	"go/parser"
	"go/token"
	"io"
	"path/filepath"
	"strings"
)

type c13Reg struct {
	Name  string `json:"name"`
	Func  string `json:"func"`
	Match bool   `json:"match"`
}

func c13Str(s string) string { return "\"" + strings.ReplaceAll(s, "\"", "\"\"") + "\"%string" }

func c13FuncName(e ast.Expr) string {
	switch x := e.(type) {
	case *ast.Ident:
		return x.Name
	case *ast.CallExpr:
		return c13FuncName(x.Fun)
	case *ast.SelectorExpr:
		return x.Sel.Name
	}
	return "?"
}

func init() {
	Extractors["C13"] = func(repo string, w io.Writer) (interface{}, error) {
		fset := token.NewFileSet()
		f, err := parser.ParseFile(fset, filepath.Join(repo, "callbacks", "callbacks.go"), nil, 0)
		if err != nil {
			return nil, err
		}
		procOf := map[string]string{} // variable -> processor (create/query/...)
		regs := map[string][]c13Reg{}
		unknown := []string{}
		var body *ast.BlockStmt
		for _, d := range f.Decls {
			if fd, ok := d.(*ast.FuncDecl); ok && fd.Name.Name == "RegisterDefaultCallbacks" {
				body = fd.Body
			}
		}
		if body == nil {
			return nil, fmt.Errorf("RegisterDefaultCallbacks not found")
		}
		pos := func(n ast.Node) string { return fset.Position(n.Pos()).String() }
		for _, st := range body.List {
			switch s := st.(type) {
			case *ast.AssignStmt:
				// xCallback := db.Callback().Create()
				if len(s.Lhs) == 1 && len(s.Rhs) == 1 {
					if id, ok := s.Lhs[0].(*ast.Ident); ok {
						if call, ok := s.Rhs[0].(*ast.CallExpr); ok {
							if sel, ok := call.Fun.(*ast.SelectorExpr); ok {
								if inner, ok := sel.X.(*ast.CallExpr); ok {
									if isel, ok := inner.Fun.(*ast.SelectorExpr); ok && isel.Sel.Name == "Callback" {
										procOf[id.Name] = strings.ToLower(sel.Sel.Name)
									}
								}
							}
						}
					}
				}
				// assignments to processor fields (x.Clauses = ...) are irrelevant to the order
				if len(s.Lhs) == 1 {
					if sel, ok := s.Lhs[0].(*ast.SelectorExpr); ok {
						if id, ok := sel.X.(*ast.Ident); ok {
							if _, isProc := procOf[id.Name]; isProc && sel.Sel.Name != "Clauses" {
								unknown = append(unknown, pos(s)+": assignment to "+id.Name+"."+sel.Sel.Name)
							}
						}
					}
				}
			case *ast.ExprStmt:
				call, ok := s.X.(*ast.CallExpr)
				if !ok {
					continue
				}
				sel, ok := call.Fun.(*ast.SelectorExpr)
				if !ok {
					continue
				}
				// find the processor variable at the root of the chain
				root := sel.X
				match := false
				chainOK := true
				for {
					if c, ok := root.(*ast.CallExpr); ok {
						if cs, ok := c.Fun.(*ast.SelectorExpr); ok {
							if cs.Sel.Name == "Match" && len(c.Args) == 1 {
								if a, ok := c.Args[0].(*ast.Ident); ok && a.Name == "enableTransaction" {
									match = true
									root = cs.X
									continue
								}
							}
							chainOK = false
							root = cs.X
							continue
						}
					}
					break
				}
				id, ok := root.(*ast.Ident)
				if !ok {
					continue
				}
				proc, isProc := procOf[id.Name]
				if !isProc {
					continue
				}
				if sel.Sel.Name != "Register" || !chainOK || len(call.Args) != 2 {
					unknown = append(unknown, pos(s)+": "+proc+": unsupported registration form ."+sel.Sel.Name)
					continue
				}
				lit, ok := call.Args[0].(*ast.BasicLit)
				if !ok || lit.Kind != token.STRING {
					unknown = append(unknown, pos(s)+": "+proc+": callback name is not a string literal")
					continue
				}
				regs[proc] = append(regs[proc], c13Reg{Name: strings.Trim(lit.Value, "\"`"), Func: c13FuncName(call.Args[1]), Match: match})
			}
		}
		// the order in which each hook callback tries the hook interfaces
		tries := map[string][]string{}
		hookFuncs := map[string]string{"BeforeCreate": "create.go", "AfterCreate": "create.go", "BeforeUpdate": "update.go",
			"AfterUpdate": "update.go", "BeforeDelete": "delete.go", "AfterDelete": "delete.go", "AfterQuery": "query.go"}
		parsed := map[string]*ast.File{}
		for fn, file := range hookFuncs {
			pf := parsed[file]
			if pf == nil {
				pf, err = parser.ParseFile(fset, filepath.Join(repo, "callbacks", file), nil, 0)
				if err != nil {
					return nil, err
				}
				parsed[file] = pf
			}
			found := false
			for _, d := range pf.Decls {
				fd, ok := d.(*ast.FuncDecl)
				if !ok || fd.Name.Name != fn || fd.Recv != nil {
					continue
				}
				found = true
				tries[fn] = []string{}
				ast.Inspect(fd.Body, func(n ast.Node) bool {
					if ta, ok := n.(*ast.TypeAssertExpr); ok && ta.Type != nil {
						if id, ok := ta.Type.(*ast.Ident); ok && strings.HasSuffix(id.Name, "Interface") {
							tries[fn] = append(tries[fn], strings.TrimSuffix(id.Name, "Interface"))
						}
					}
					return true
				})
			}
			if !found {
				unknown = append(unknown, "callbacks/"+file+": func "+fn+" not found")
			}
		}

		fmt.Fprintf(w, "From Verif Require Import Base.\n")
		for _, proc := range []string{"create", "update", "delete", "query"} {
			fmt.Fprintf(w, "Definition c13_%s_order : list (string * string * bool) := [", proc)
			for i, r := range regs[proc] {
				if i > 0 {
					fmt.Fprintf(w, ";")
				}
				b := "false"
				if r.Match {
					b = "true"
				}
				fmt.Fprintf(w, "\n  (%s, %s, %s)", c13Str(r.Name), c13Str(r.Func), b)
			}
			fmt.Fprintf(w, "].\n")
		}
		for _, fn := range []string{"BeforeCreate", "AfterCreate", "BeforeUpdate", "AfterUpdate", "BeforeDelete", "AfterDelete", "AfterQuery"} {
			fmt.Fprintf(w, "Definition c13_tries_%s : list string := [", fn)
			for i, t := range tries[fn] {
				if i > 0 {
					fmt.Fprintf(w, "; ")
				}
				fmt.Fprintf(w, "%s", c13Str(t))
			}
			fmt.Fprintf(w, "].\n")
		}
		fmt.Fprintf(w, "Definition c13_unknown : list string := [")
		for i, u := range unknown {
			if i > 0 {
				fmt.Fprintf(w, "; ")
			}
			fmt.Fprintf(w, "%s", c13Str(u))
		}
		fmt.Fprintf(w, "].\n")
		return map[string]interface{}{"registrations": regs, "hook_interface_order": tries, "unknown": unknown}, nil
	}
}
