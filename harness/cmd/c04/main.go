// c04: transaction blocks commit everything on success and nothing on error or panic.
// Runs generated trees of nested Transaction blocks and manual Begin..Commit/Rollback programs
// on real gorm + file-backed SQLite behind the recording driver, with one injected driver fault,
// under the 8 configurations, and writes per case the program as executed and what was observed
// (the tree of per-call results, the driver-operation sequence, the table afterwards read through
// a fresh connection, the returned error / recovered panic, InUse and open transactions).
package main

import (
	"context"
	"database/sql"
	"database/sql/driver"
	"encoding/json"
	"errors"
	"fmt"
	"os"
	"path/filepath"
	"runtime"
	"strings"
	"time"

	sqlite3 "github.com/mattn/go-sqlite3"
	"gorm.io/driver/sqlite"
	"gorm.io/gorm"
	"gorm.io/gorm/clause"
	"gorm.io/gorm/logger"
	"gorm.io/gorm/schema"

	"verifharness/lib"
	"verifharness/recdrv"
)

// ---------------------------------------------------------------- programs

// Item of a block body. K: write | read | child | save | rbto.
type Item struct {
	K     string `json:"k"`
	M     int64  `json:"m,omitempty"`     // write: marker; save/rbto: save-point name id
	Chk   bool   `json:"chk,omitempty"`   // write/read: return the statement's error; child: return the child's error
	Via   string `json:"via,omitempty"`   // write: "" tx.Create(&row) | "exec" tx.Exec("INSERT ..") | "kept" through ONE chained handle h := tx.Model(&Marker{}) kept by the block body and reused for all its kept writes | write and read: "sess" tx.Session(&Session{}) | "sess_prep" tx.Session(&Session{PrepareStmt: true}) | "ctx" tx.WithContext(ctx): a handle derived from the block's handle for this one call
	Empty bool   `json:"empty,omitempty"` // kept write: when it creates the handle, its first use is an update with an empty change set (no SQL)
	Rcv   bool   `json:"rcv,omitempty"`   // child: the call is wrapped in a recover(); a panic of the child is swallowed
	NN    bool   `json:"nn,omitempty"`    // child: called as tx.Session(&gorm.Session{DisableNestedTransaction: true}).Transaction(..): nested transactions switched off on the receiver, derived inside the running transaction
	Cx    bool   `json:"cx,omitempty"`    // child: called as tx.WithContext(ctx).Transaction(..) with a fresh cancellable ctx; item "cancel" cancels the innermost such ctx
	B     *Blk   `json:"b,omitempty"`     // child
	Opt   string `json:"opt,omitempty"`   // child: transaction options handed to the nested Transaction call (see Input.TxOpt); a nested block has no BEGIN of its own, they change nothing
}

// Blk is a block body: items, then the scripted outcome (nil | err | panic, with a sentinel id).
type Blk struct {
	Items []Item `json:"items"`
	Out   string `json:"out"`
	E     int64  `json:"e,omitempty"`
}

type Cfg struct {
	Prep    bool `json:"prepare_stmt"`
	NoNest  bool `json:"disable_nested"`
	SkipDef bool `json:"skip_default_tx"`
	Report  bool `json:"dialector_reports"` // save-point errors are returned by the dialector (as the MySQL/Postgres dialectors do); false = stock SQLite dialector, which drops them
	// how the three flags are set: "" in gorm.Config at Open | "session": on a default-config handle by
	// db.Session(&Session{PrepareStmt, DisableNestedTransaction, SkipDefaultTransaction}) | "both"
	Via  string `json:"via,omitempty"`
	NoSP bool   `json:"no_savepoints,omitempty"` // the dialector does not implement SavePoint / RollbackTo
	Wrap bool   `json:"wrapped_pool,omitempty"`  // gorm runs on a ConnPoolBeginner whose transactions are wrappers around *sql.Tx
	Soft bool   `json:"soft_commit,omitempty"`   // (Wrap) the wrapper's Commit fails by itself: nothing reaches database/sql, the transaction stays open
}

type Input struct {
	Top string `json:"top"` // block: db.Transaction(body) ; manual: tx := db.Begin(); body; tx.Commit()/tx.Rollback() ; single: no block at all - the writes / reads of body are made one after the other on the pool handle (each Create inside the transaction gorm opens for it, unless SkipDefaultTransaction; write via "exec": a raw Exec, which gets none)
	// single: derivations of the pool handle made and thrown away before the calls: skipdef | nonest | prep | hooks
	// (root.Session(&gorm.Session{SkipDefaultTransaction: true}) ...): they must not change the handle they were derived from
	Discard []string `json:"discard,omitempty"`
	Body    Blk      `json:"body"`
	Extra   []string `json:"extra,omitempty"`  // manual only: further commit/rollback calls after the end
	Conn    bool     `json:"conn,omitempty"`   // the program runs inside db.Connection(func(c *gorm.DB) error {...}) on the dedicated-connection handle c
	ErrIs   string   `json:"err_is,omitempty"` // what the injected fault also is (errors.Is): "" | "canceled" (context.Canceled) | "deadline" (context.DeadlineExceeded), while every context of the program is alive
	Opts    bool     `json:"opts,omitempty"`   // Transaction(fc, &sql.TxOptions{}) / Begin(&sql.TxOptions{})  (older inputs; = TxOpt "empty")
	// the variadic options of the outermost Transaction / Begin call, "+"-separated, each one of: nil (a nil
	// *sql.TxOptions) | empty (&sql.TxOptions{}) | ro (ReadOnly) | ser (Isolation: LevelSerializable) | ro_ser.
	// go-sqlite3 accepts and ignores them: the block's statements run and commit as without options.
	TxOpt string   `json:"tx_opt,omitempty"`
	Stray []string `json:"stray,omitempty"` // before the program: commit/rollback called on a handle that is NOT in a transaction (a session copy of the pool handle)
	Cfg   Cfg      `json:"cfg"`
	Fault int      `json:"fault"` // index of the driver operation that fails (-1: none)
	Phase string   `json:"phase"` // exec | prepare (fail the first driver call of the operation, i.e. its prepare if it has one)
}

// ---------------------------------------------------------------- observations

// Cls classifies an error or panic. K: nil | err | panic.
// Code: >=0 the harness' own sentinel; -1 injected fault; -2 sql.ErrTxDone; -3 gorm.ErrInvalidTransaction;
// -4 SQLite "no such savepoint"; -5 gorm.ErrUnsupportedDriver; -6 context.Canceled; -9 anything else. W: the error wraps another one (it is not the sentinel itself).
type Cls struct {
	K    string `json:"k"`
	Code int64  `json:"code,omitempty"`
	W    bool   `json:"w,omitempty"`
}

// Obs is one node of the observed call tree.
type Obs struct {
	K         string `json:"k"` // write | read | child | save | rbto
	M         int64  `json:"m,omitempty"`
	Ret       Cls    `json:"ret"`                 // what the call returned (child: what Transaction returned / panicked with)
	N         int64  `json:"n,omitempty"`         // read: the count seen
	Entered   bool   `json:"entered,omitempty"`   // child: the block function was called
	Cancelled bool   `json:"cancelled,omitempty"` // child: the context the call ran under (its own, or the one of an enclosing block) was cancelled by the time the call ended
	NN        bool   `json:"nn,omitempty"`        // child: the call's receiver had nested transactions switched off (copied from the input)
	Exit      Cls    `json:"exit"`                // child: how the block function ended
	Body      []Obs  `json:"body,omitempty"`
}

type Op struct {
	K string `json:"k"` // begin | save | rbto | stmt | commit | rollback
	F bool   `json:"f,omitempty"`
}

type Observed struct {
	Log      []Obs    `json:"log"`
	Entered  bool     `json:"entered"`
	Exit     Cls      `json:"exit"`
	Ret      Cls      `json:"ret"`
	Extra    []Cls    `json:"extra,omitempty"`
	Stray    []Cls    `json:"stray,omitempty"`
	BeginOpt int64    `json:"begin_opt"` // the options the pool's BeginTx received from gorm: -1 not observed (the pool is *sql.DB itself, or no BEGIN reached it) | 0 nil | 1 empty | 2 ro | 3 ser | 4 ro_ser
	Table    []int64  `json:"table"`
	InUse    int64    `json:"in_use"`
	OpenTx   int64    `json:"open_tx"`
	Ops      []Op     `json:"ops"`
	Notes    []string `json:"notes,omitempty"`
}

// ---------------------------------------------------------------- environment

type Marker struct {
	ID uint `gorm:"primaryKey"`
	M  int64
}

// reporting wraps the SQLite dialector and returns the error of SAVEPOINT / ROLLBACK TO, as
// gorm's SavePointerDialectorInterface contract (and the MySQL/Postgres dialectors) do.
type reporting struct{ sqlite.Dialector }

func (d reporting) SavePoint(tx *gorm.DB, name string) error {
	return tx.Exec("SAVEPOINT " + name).Error
}
func (d reporting) RollbackTo(tx *gorm.DB, name string) error {
	return tx.Exec("ROLLBACK TO SAVEPOINT " + name).Error
}

// noSavePoints is the SQLite dialector seen only through gorm.Dialector: it does NOT implement
// SavePointerDialectorInterface (a dialect without save points).
type noSavePoints struct{ d gorm.Dialector }

func (n noSavePoints) Name() string                       { return n.d.Name() }
func (n noSavePoints) Initialize(db *gorm.DB) error       { return n.d.Initialize(db) }
func (n noSavePoints) Migrator(db *gorm.DB) gorm.Migrator { return n.d.Migrator(db) }
func (n noSavePoints) DataTypeOf(f *schema.Field) string  { return n.d.DataTypeOf(f) }
func (n noSavePoints) DefaultValueOf(f *schema.Field) clause.Expression {
	return n.d.DefaultValueOf(f)
}
func (n noSavePoints) BindVarTo(w clause.Writer, stmt *gorm.Statement, v interface{}) {
	n.d.BindVarTo(w, stmt, v)
}
func (n noSavePoints) QuoteTo(w clause.Writer, s string) { n.d.QuoteTo(w, s) }
func (n noSavePoints) Explain(sql string, vars ...interface{}) string {
	return n.d.Explain(sql, vars...)
}

// wrapPool is a gorm.ConnPool around *sql.DB whose BeginTx returns a gorm.ConnPool wrapping the
// *sql.Tx (a ConnPoolBeginner, the documented way to wrap transactions: tests/connpool_test.go).
// While failCommit is set, the wrapper's Commit fails by itself, before it reaches database/sql:
// the transaction stays open until somebody rolls it back.
type wrapPool struct {
	*sql.DB
	failCommit bool
	lastOpt    int64 // code of the options the last BeginTx call received (-1: none since the reset)
}

// optCode / optOf: the transaction options the programs use, as a code (0 = a nil pointer).
var optNames = []string{"nil", "empty", "ro", "ser", "ro_ser"}

func optOf(name string) *sql.TxOptions {
	switch name {
	case "empty":
		return &sql.TxOptions{}
	case "ro":
		return &sql.TxOptions{ReadOnly: true}
	case "ser":
		return &sql.TxOptions{Isolation: sql.LevelSerializable}
	case "ro_ser":
		return &sql.TxOptions{Isolation: sql.LevelSerializable, ReadOnly: true}
	}
	return nil
}

func optCode(o *sql.TxOptions) int64 {
	switch {
	case o == nil:
		return 0
	case *o == sql.TxOptions{}:
		return 1
	case *o == sql.TxOptions{ReadOnly: true}:
		return 2
	case *o == sql.TxOptions{Isolation: sql.LevelSerializable}:
		return 3
	case *o == sql.TxOptions{Isolation: sql.LevelSerializable, ReadOnly: true}:
		return 4
	}
	return 9
}

// optList: the variadic argument list "a+b" stands for.
func optList(spec string) []*sql.TxOptions {
	if spec == "" {
		return nil
	}
	var l []*sql.TxOptions
	for _, n := range strings.Split(spec, "+") {
		l = append(l, optOf(n))
	}
	return l
}

type wrapTx struct {
	*sql.Tx
	pool *wrapPool
}

func (p *wrapPool) BeginTx(ctx context.Context, opts *sql.TxOptions) (gorm.ConnPool, error) {
	p.lastOpt = optCode(opts)
	tx, err := p.DB.BeginTx(ctx, opts)
	if err != nil {
		return nil, err
	}
	return &wrapTx{Tx: tx, pool: p}, nil
}

func (p *wrapPool) GetDBConn() (*sql.DB, error) { return p.DB, nil }

func (t *wrapTx) Commit() error {
	if t.pool.failCommit {
		return errFault
	}
	return t.Tx.Commit()
}

// ctxFault is the injected fault that also is a context error.
type ctxFault struct{ ctx error }

func (e *ctxFault) Error() string   { return errFault.Error() + ": " + e.ctx.Error() }
func (e *ctxFault) Is(t error) bool { return t == errFault || t == e.ctx }

// the injected fault that also is driver.ErrBadConn: database/sql tries the call again (a statement
// bound to a transaction on the same connection, a BEGIN on further connections) and gives up after
// three attempts; the fault persists for all attempts of the one logical operation
var badConnFault error = &ctxFault{driver.ErrBadConn}

type env struct {
	wrap  *wrapPool
	db    *gorm.DB
	rec   *recdrv.Recorder
	sqlDB *sql.DB
	fresh *sql.DB // plain go-sqlite3 connections, not recorded
}

var (
	errFault  = errors.New("verif: injected driver fault (C04)")
	sentinels []error
	panicVals []*panicVal
	envs      = map[Cfg]*env{}
	workDir   string
	envGen    int
)

type panicVal struct{ id int64 }

func init() {
	for i := 0; i < 16; i++ {
		sentinels = append(sentinels, fmt.Errorf("verif: block error #%d", i))
		panicVals = append(panicVals, &panicVal{int64(i)})
	}
	sql.Register("c04fresh", &sqlite3.SQLiteDriver{})
}

func getEnv(c Cfg) *env {
	if e, ok := envs[c]; ok {
		return e
	}
	envGen++
	name := fmt.Sprintf("db_p%v_n%v_s%v_r%v_%s_%s_%d.sqlite", c.Prep, c.NoNest, c.SkipDef, c.Report, c.Via, fmt.Sprint(c.NoSP, c.Wrap, c.Soft), envGen)
	path := filepath.Join(workDir, name)
	os.Remove(path)
	dsn := "file:" + path + "?_busy_timeout=300&_synchronous=0"
	sqlDB, rec := recdrv.Open(dsn)
	var conn gorm.ConnPool = sqlDB
	var wp *wrapPool
	if c.Wrap || c.Soft {
		wp = &wrapPool{DB: sqlDB}
		conn = wp
	}
	var dial gorm.Dialector = sqlite.Dialector{Conn: conn}
	if c.Report {
		dial = reporting{sqlite.Dialector{Conn: conn}}
	}
	if c.NoSP {
		dial = noSavePoints{sqlite.Dialector{Conn: conn}}
	}
	gc := &gorm.Config{Logger: logger.Discard}
	if c.Via != "session" {
		gc.PrepareStmt, gc.DisableNestedTransaction, gc.SkipDefaultTransaction = c.Prep, c.NoNest, c.SkipDef
	}
	db, err := gorm.Open(dial, gc)
	lib.Must(err)
	if c.Via != "" {
		db = db.Session(&gorm.Session{PrepareStmt: c.Prep, DisableNestedTransaction: c.NoNest, SkipDefaultTransaction: c.SkipDef})
	}
	lib.Must(db.AutoMigrate(&Marker{}))
	// the statement texts the programs use have also been run OUTSIDE any transaction before
	// (with PrepareStmt the statement cache then holds pool-level entries for them)
	lib.Must(db.Create(&Marker{M: 0}).Error)
	lib.Must(db.Exec(rawInsert, 0).Error)
	var warm int64
	lib.Must(db.Model(&Marker{}).Count(&warm).Error)
	fresh, err := sql.Open("c04fresh", dsn)
	lib.Must(err)
	if wp != nil {
		wp.failCommit = c.Soft // from now on (the set-up above needed working commits)
	}
	e := &env{wrap: wp, db: db, rec: rec, sqlDB: sqlDB, fresh: fresh}
	envs[c] = e
	return e
}

func classify(err error) Cls {
	if err == nil {
		return Cls{K: "nil"}
	}
	c := Cls{K: "err", Code: -9, W: errors.Unwrap(err) != nil}
	for i, s := range sentinels {
		if errors.Is(err, s) {
			c.Code = int64(i)
			return c
		}
	}
	switch {
	case errors.Is(err, errFault):
		c.Code = -1
	case errors.Is(err, sql.ErrTxDone):
		c.Code = -2
	case errors.Is(err, gorm.ErrInvalidTransaction):
		c.Code = -3
	case strings.Contains(err.Error(), "no such savepoint"):
		c.Code = -4
	case errors.Is(err, gorm.ErrUnsupportedDriver):
		c.Code = -5
	case errors.Is(err, context.Canceled):
		c.Code = -6
	}
	return c
}

// ---------------------------------------------------------------- running one program

type runner struct {
	curPanic int64 // id of the panic in flight
	notes    []string
	cancels  []cxScope // the enclosing blocks that run under their own context, innermost last
}

type cxScope struct {
	cancel context.CancelFunc
	obs    *Obs
}

// derive: the handle a call is made on — the block's handle itself or a derivation of it.
func derive(h *gorm.DB, via string) *gorm.DB {
	switch via {
	case "sess":
		return h.Session(&gorm.Session{})
	case "sess_prep":
		return h.Session(&gorm.Session{PrepareStmt: true})
	case "ctx":
		return h.WithContext(h.Statement.Context) // the same context, set again
	case "sess_hooks":
		return h.Session(&gorm.Session{SkipHooks: true})
	}
	return h
}

var freshText int

const rawInsert = "INSERT INTO markers (m) VALUES (?)"

func spName(m int64) string { return fmt.Sprintf("user_sp_%d", m) }

// body runs the items of a block on handle h (the ONLY handle used inside the block) and ends
// with the scripted outcome. It may panic.
func (r *runner) body(h *gorm.DB, b *Blk, log *[]Obs) error {
	var kept *gorm.DB // the chained handle this body keeps and reuses
	for i := range b.Items {
		it := &b.Items[i]
		switch it.K {
		case "write":
			var res *gorm.DB
			switch it.Via {
			case "exec":
				res = h.Exec(rawInsert, it.M)
			case "exec_new": // a statement text never seen before (nothing cached for it)
				freshText++
				res = h.Exec(fmt.Sprintf("%s /* c04 text %d */", rawInsert, freshText), it.M)
			case "kept":
				if kept == nil {
					kept = h.Model(&Marker{})
					if it.Empty {
						if e0 := kept.Updates(map[string]interface{}{}).Error; e0 != nil && h.Error == nil {
							r.notes = append(r.notes, "empty update through the kept handle: "+e0.Error())
						}
					}
				}
				res = kept.Create(&Marker{M: it.M})
			default:
				res = derive(h, it.Via).Create(&Marker{M: it.M})
			}
			*log = append(*log, Obs{K: "write", M: it.M, Ret: classify(res.Error)})
			if it.Chk && res.Error != nil {
				return res.Error
			}
		case "read":
			var n int64
			res := derive(h, it.Via).Model(&Marker{}).Count(&n)
			if res.Error != nil {
				n = 0
			}
			*log = append(*log, Obs{K: "read", N: n, Ret: classify(res.Error)})
			if it.Chk && res.Error != nil {
				return res.Error
			}
		case "save":
			res := h.SavePoint(spName(it.M))
			*log = append(*log, Obs{K: "save", M: it.M, Ret: classify(res.Error)})
			if res.Error != nil {
				return res.Error
			}
		case "rbto":
			res := h.RollbackTo(spName(it.M))
			*log = append(*log, Obs{K: "rbto", M: it.M, Ret: classify(res.Error)})
			if res.Error != nil {
				return res.Error
			}
		case "cancel": // cancel() of the innermost enclosing block that has its own context
			if n := len(r.cancels); n > 0 {
				r.cancels[n-1].cancel()
				r.cancels[n-1].obs.Cancelled = true
			}
		case "child":
			o := Obs{K: "child", NN: it.NN}
			recovered := false
			err := func() (err error) {
				returned := false
				defer func() {
					if returned {
						return
					}
					// a panic is passing through Transaction
					o.Ret = Cls{K: "panic", Code: r.curPanic}
					if it.Rcv && r.curPanic != -2 { // recover() stops a panic (also panic(nil)), never a Goexit
						p := recover()
						recovered = true
						if pv, ok := p.(*panicVal); r.curPanic >= 0 && (!ok || pv != panicVals[r.curPanic]) || r.curPanic == -1 && p != nil {
							o.Ret = Cls{K: "panic", Code: -9}
							r.notes = append(r.notes, fmt.Sprintf("foreign panic: %v", p))
						}
					} else {
						*log = append(*log, o)
					}
				}()
				recv := h
				if it.NN { // nested transactions switched off on a handle derived from the block's handle
					recv = h.Session(&gorm.Session{DisableNestedTransaction: true})
				}
				if it.Cx { // the nested block runs under its own context
					ctx, cancel := context.WithCancel(context.Background())
					r.cancels = append(r.cancels, cxScope{cancel, &o})
					defer func() { r.cancels = r.cancels[:len(r.cancels)-1]; cancel() }()
					recv = recv.WithContext(ctx)
				}
				defer func() { // the context the call ran under (its own or an enclosing block's) is cancelled when the call ends
					if ctx := recv.Statement.Context; ctx != nil && ctx.Err() != nil {
						o.Cancelled = true
					}
				}()
				err = recv.Transaction(func(tx *gorm.DB) error { return r.fc(tx, it.B, &o) }, optList(it.Opt)...)
				returned = true
				return
			}()
			if !recovered {
				o.Ret = classify(err)
			}
			*log = append(*log, o)
			if !recovered && it.Chk && err != nil {
				return err
			}
		}
	}
	switch b.Out {
	case "err":
		return sentinels[b.E]
	case "panic":
		r.curPanic = b.E
		switch b.E {
		case -1: // panic with a nil value (this binary has go < 1.21 panic semantics: recover() yields nil)
			var nothing interface{}
			panic(nothing)
		case -2: // the goroutine ends (t.Fatal / require.* inside a block): deferred functions run, nothing is recovered
			runtime.Goexit()
		}
		panic(panicVals[b.E])
	}
	return nil
}

// fc is the function handed to Transaction: it records that it was entered and how it ended.
func (r *runner) fc(tx *gorm.DB, b *Blk, o *Obs) (err error) {
	o.Entered = true
	returned := false
	defer func() {
		if !returned {
			o.Exit = Cls{K: "panic", Code: r.curPanic}
		}
	}()
	err = r.body(tx, b, &o.Body)
	o.Exit = classify(err)
	returned = true
	return
}

func opKind(e *recdrv.Event) string {
	switch e.Kind {
	case "begin", "commit", "rollback":
		return e.Kind
	}
	q := strings.ToUpper(strings.TrimSpace(e.Query))
	switch {
	case strings.HasPrefix(q, "SAVEPOINT"):
		return "save"
	case strings.HasPrefix(q, "ROLLBACK TO"):
		return "rbto"
	}
	return "stmt"
}

func run(in Input) Observed {
	if os.Getenv("C04_TRACE") != "" {
		b, _ := json.Marshal(in)
		fmt.Fprintln(os.Stderr, string(b))
	}
	e := getEnv(in.Cfg)
	_, err := e.fresh.Exec("DELETE FROM markers")
	lib.Must(err)
	var obs Observed
	// logical driver operations: begin/commit/rollback/save/rbto/statement; a prepare call
	// belongs to the statement that follows it.
	var ops []Op
	pendingPrepare := false
	e.rec.Reset()
	if e.wrap != nil {
		e.wrap.lastOpt = -1
	}
	var theFault error = errFault
	switch in.ErrIs {
	case "canceled":
		theFault = &ctxFault{context.Canceled}
	case "deadline":
		theFault = &ctxFault{context.DeadlineExceeded}
	}
	var sticky *recdrv.Event // the faulted call database/sql tries again (driver.ErrBadConn): two more attempts
	stickyLeft := 0
	e.rec.Fault = func(_ int, ev *recdrv.Event) error {
		if sticky != nil {
			stickyLeft--
			if stickyLeft >= 0 && ev.Kind == sticky.Kind && ev.Query == sticky.Query && (ev.Kind == "begin" || ev.Tx == sticky.Tx && ev.Conn == sticky.Conn) {
				return badConnFault // the same logical operation, attempted again
			}
			sticky = nil
		}
		fault := func() error {
			// driver.ErrBadConn for a BEGIN and for calls inside a transaction; a call on the pool outside
			// any transaction gets the plain fault (database/sql would move it to other connections)
			// (on a dedicated connection used for several calls it would close that connection for good)
			if in.ErrIs == "badconn" && (ev.Kind == "begin" || ev.Tx != 0) && !(in.Conn && in.Top == "single") {
				if ev.Kind == "begin" || ev.Kind == "stmt_exec" || ev.Kind == "stmt_query" { // the calls database/sql attempts again
					c := *ev
					sticky, stickyLeft = &c, 2
				}
				return badConnFault
			}
			return theFault
		}
		k := opKind(ev)
		if ev.Kind == "prepare" {
			if !pendingPrepare && len(ops) == in.Fault && in.Phase == "prepare" {
				ops = append(ops, Op{K: k, F: true}) // a SAVEPOINT can be prepared too (PrepareStmt set twice)
				return fault()
			}
			pendingPrepare = true
			return nil
		}
		pendingPrepare = false
		if len(ops) == in.Fault {
			ops = append(ops, Op{K: k, F: true})
			return fault()
		}
		ops = append(ops, Op{K: k})
		return nil
	}
	r := &runner{}
	top := Obs{K: "child"}
	// The program runs in its own goroutine: it may end by return, by a panic with a value, by
	// panic(nil) (recover() yields nil but stops it) or by Goexit (nothing stops it).
	done := make(chan struct{})
	completed, recoveredNil, afterProgram := false, false, false
	go func() {
		defer close(done)
		func() {
			defer func() {
				p := recover()
				if completed {
					return
				}
				if p != nil {
					pv, ok := p.(*panicVal)
					if ok && pv == panicVals[pv.id] {
						obs.Ret = Cls{K: "panic", Code: pv.id}
					} else {
						obs.Ret = Cls{K: "panic", Code: -9}
						r.notes = append(r.notes, fmt.Sprintf("foreign panic: %v", p))
					}
					return
				}
				recoveredNil = true // panic(nil) or Goexit: told apart by whether the goroutine goes on
			}()
			program := func(root *gorm.DB) {
				for _, x := range in.Stray { // Commit / Rollback on a handle that is not in a transaction
					h := root.Session(&gorm.Session{})
					if x == "commit" {
						obs.Stray = append(obs.Stray, classify(h.Commit().Error))
					} else {
						obs.Stray = append(obs.Stray, classify(h.Rollback().Error))
					}
				}
				opts := optList(in.TxOpt)
				if in.Opts && opts == nil {
					opts = []*sql.TxOptions{{}}
				}
				if in.Top == "single" {
					for _, d := range in.Discard {
						switch d {
						case "skipdef":
							_ = root.Session(&gorm.Session{SkipDefaultTransaction: true})
						case "nonest":
							_ = root.Session(&gorm.Session{DisableNestedTransaction: true})
						case "prep":
							_ = root.Session(&gorm.Session{PrepareStmt: true})
						case "hooks":
							_ = root.Session(&gorm.Session{SkipHooks: true})
						}
					}
					obs.Ret = classify(r.fc(root, &in.Body, &top))
					return
				}
				if in.Top == "block" {
					err := root.Transaction(func(tx *gorm.DB) error { return r.fc(tx, &in.Body, &top) }, opts...)
					obs.Ret = classify(err)
					return
				}
				// manual: the documented Begin / defer-rollback-on-panic / Rollback-on-error / Commit pattern
				tx := root.Begin(opts...)
				if tx.Error != nil {
					// the idiomatic cleanup (defer tx.Rollback(), or Commit) on the handle of a failed Begin
					obs.Ret = classify(tx.Error)
					for _, x := range in.Extra {
						if x == "commit" {
							obs.Extra = append(obs.Extra, classify(tx.Commit().Error))
						} else {
							obs.Extra = append(obs.Extra, classify(tx.Rollback().Error))
						}
					}
					return
				}
				returned := false
				defer func() { // roll back when the block does not return: panic with any value (also nil), Goexit
					if !returned {
						tx.Rollback()
					}
				}()
				err := r.fc(tx, &in.Body, &top)
				returned = true
				if err != nil {
					tx.Rollback()
					obs.Ret = classify(err)
				} else if cerr := tx.Commit().Error; cerr != nil {
					obs.Ret = classify(cerr)
					tx.Rollback() // a failed Commit may have left the transaction open
				} else {
					obs.Ret = classify(nil)
				}
				for _, x := range in.Extra {
					if x == "commit" {
						obs.Extra = append(obs.Extra, classify(tx.Commit().Error))
					} else {
						obs.Extra = append(obs.Extra, classify(tx.Rollback().Error))
					}
				}
			}
			if in.Conn {
				// the whole program on ONE dedicated connection: db.Connection(func(c) { ... c.Transaction(...) ... })
				if cerr := e.db.Connection(func(c *gorm.DB) error {
					if in.Top == "single" { // c is one chained handle (its Statement and Error are shared by all calls made on it): every call gets its own
						c = c.Session(&gorm.Session{})
					}
					program(c)
					return nil
				}); cerr != nil {
					r.notes = append(r.notes, "Connection: "+cerr.Error())
				}
			} else {
				program(e.db)
			}
			completed = true
		}()
		afterProgram = true
	}()
	hung := false
	select {
	case <-done:
	case <-time.After(3 * time.Second):
		// the program neither returned nor finished unwinding (e.g. a Close waiting for a transaction
		// nobody ends): recorded as a foreign outcome; its goroutine and database are abandoned
		hung = true
		obs.Ret = Cls{K: "panic", Code: -9}
		r.notes = append(r.notes, "the program did not end within 3 s")
	}
	if recoveredNil && !hung {
		if afterProgram {
			obs.Ret = Cls{K: "panic", Code: -1}
		} else {
			obs.Ret = Cls{K: "panic", Code: -2}
		}
	}
	e.rec.Fault = nil
	obs.Log, obs.Entered, obs.Exit = top.Body, top.Entered, top.Exit
	if obs.Log == nil {
		obs.Log = []Obs{}
	}
	obs.Ops = ops
	if obs.Ops == nil {
		obs.Ops = []Op{}
	}
	obs.BeginOpt = -1
	if e.wrap != nil && !in.Conn {
		obs.BeginOpt = e.wrap.lastOpt
	}
	obs.InUse = int64(e.sqlDB.Stats().InUse)
	otx, _, _ := e.rec.Counters()
	obs.OpenTx = int64(otx)
	if obs.OpenTx != 0 || obs.InUse != 0 {
		// a leaked transaction keeps its connection and SQLite's write lock for ever: later
		// cases of this configuration get a new database file and a new pool
		r.notes = append(r.notes, "leak: transaction or connection left open; database abandoned")
		delete(envs, in.Cfg)
	}
	rows, err := e.fresh.Query("SELECT m FROM markers ORDER BY m")
	lib.Must(err)
	obs.Table = []int64{}
	for rows.Next() {
		var m int64
		lib.Must(rows.Scan(&m))
		obs.Table = append(obs.Table, m)
	}
	rows.Close()
	obs.Notes = r.notes
	return obs
}

// ---------------------------------------------------------------- Gallina printing

func clsTerm(c Cls) string {
	switch c.K {
	case "nil", "":
		return "CNil"
	case "panic":
		return lib.App("CPanic", lib.Z(c.Code))
	}
	return lib.App("CErr", lib.App("mkErr", codeTerm(c.Code), lib.Bool(c.W)))
}

func codeTerm(c int64) string {
	switch c {
	case -1:
		return "EFault"
	case -2:
		return "ETxDone"
	case -3:
		return "EInvalidTx"
	case -4:
		return "ENoSp"
	case -5:
		return "EUnsupported"
	case -6:
		return "ECanceled"
	case -9:
		return "EOther"
	}
	return lib.App("EUser", lib.Z(c))
}

func progTerm(b *Blk) string {
	var out string
	switch b.Out {
	case "err":
		out = lib.App("Done", lib.App("RetErr", lib.Z(b.E)))
	case "panic":
		out = lib.App("Done", lib.App("Panic", lib.Z(b.E)))
	default:
		out = "(Done RetNil)"
	}
	for i := len(b.Items) - 1; i >= 0; i-- {
		it := b.Items[i]
		switch it.K {
		case "write":
			out = lib.App("Write", lib.Z(it.M), lib.Bool(it.Chk), out)
		case "read":
			out = lib.App("Read", lib.Bool(it.Chk), out)
		case "save":
			out = lib.App("Save", lib.Z(it.M), out)
		case "rbto":
			out = lib.App("RbTo", lib.Z(it.M), out)
		case "child":
			out = lib.App("Child", progTerm(it.B), lib.Bool(it.Chk), lib.Bool(it.Rcv), lib.Bool(it.Cx), lib.Bool(it.NN), out)
		case "cancel":
			out = lib.App("Cancel", out)
		}
	}
	return out
}

func obsTerm(o Obs) string {
	switch o.K {
	case "write":
		return lib.App("OW", lib.Z(o.M), clsTerm(o.Ret))
	case "read":
		return lib.App("OR", clsTerm(o.Ret), lib.Z(o.N))
	case "save":
		return lib.App("OS", lib.Z(o.M), clsTerm(o.Ret))
	case "rbto":
		return lib.App("ORb", lib.Z(o.M), clsTerm(o.Ret))
	}
	oc := lib.App("OC", lib.Bool(o.Entered), lib.ListOf(o.Body, obsTerm), clsTerm(o.Exit), clsTerm(o.Ret))
	if o.NN {
		return lib.App("ONN", oc)
	}
	return oc
}

func opTerm(o Op) string {
	k := map[string]string{"begin": "KBegin", "save": "KSave", "rbto": "KRbTo", "stmt": "KStmt", "commit": "KCommit", "rollback": "KRollback"}[o.K]
	return lib.Pair(k, lib.Bool(o.F))
}

func progOf(in Input) string {
	if in.Top == "single" {
		return "(Done RetNil)" // not a block: the calls are in c_single
	}
	return progTerm(&in.Body)
}

func singleTerm(in Input) string {
	if in.Top != "single" {
		return "None"
	}
	return lib.App("Some", lib.ListOf(in.Body.Items, func(it Item) string {
		switch {
		case it.K == "read":
			return "SRead"
		case it.Via == "exec" || it.Via == "exec_new":
			return lib.App("SExec", lib.Z(it.M))
		}
		return lib.App("SWrite", lib.Z(it.M))
	}))
}

func optsTerm(in Input) string {
	spec := in.TxOpt
	if spec == "" && in.Opts {
		spec = "empty"
	}
	if spec == "" {
		return "[]"
	}
	return lib.ListOf(strings.Split(spec, "+"), func(n string) string {
		for i, x := range optNames {
			if x == n {
				return lib.Z(int64(i))
			}
		}
		return lib.Z(9)
	})
}

func term(in Input, o Observed) string {
	fault := "None"
	if in.Fault >= 0 {
		fault = lib.App("Some", lib.Nat(in.Fault))
	}
	extra := lib.ListOf(in.Extra, func(s string) string { return lib.Bool(s == "commit") })
	stray := lib.ListOf(in.Stray, func(s string) string { return lib.Bool(s == "commit") })
	return lib.App("mk_case",
		lib.Bool(in.Top == "manual"), progOf(in), extra, stray,
		lib.App("mk_cfg", lib.Bool(in.Cfg.Prep && !in.Conn) /* on a dedicated connection the handle leaves prepared mode */, lib.Bool(in.Cfg.NoNest), lib.Bool(in.Cfg.SkipDef), lib.Bool(in.Cfg.Report), lib.Bool(in.Cfg.NoSP), lib.Bool(in.Cfg.Wrap || in.Cfg.Soft), lib.Bool(in.Cfg.Soft)),
		fault,
		lib.App("OC", lib.Bool(o.Entered), lib.ListOf(o.Log, obsTerm), clsTerm(o.Exit), clsTerm(o.Ret)),
		lib.ListOf(o.Extra, clsTerm), lib.ListOf(o.Stray, clsTerm),
		lib.ZList(o.Table), lib.Z(o.InUse), lib.Z(o.OpenTx), lib.ListOf(o.Ops, opTerm),
		optsTerm(in), lib.Z(o.BeginOpt), singleTerm(in))
}

// ---------------------------------------------------------------- generators

type gen struct {
	inCx   int // > 0: the block being generated runs under a cancellable context of its own or of an ancestor
	r      *lib.Rng
	marker int64
	esent  int64
}

func (g *gen) write() Item {
	g.marker++
	it := Item{K: "write", M: g.marker, Chk: g.r.Chance(3, 4)}
	switch c := g.r.Intn(8); {
	case c < 2:
		it.Via = lib.Pick(g.r, []string{"exec", "exec", "exec_new"})
	case c < 4:
		// kept writes return their error: a failed call leaves its error in the kept handle
		// (gorm's documented behaviour of a reused chain), which the programs do not go on using
		it.Via, it.Chk, it.Empty = "kept", true, g.r.Bool()
	case c < 6:
		it.Via = lib.Pick(g.r, []string{"sess", "sess_prep", "ctx", "sess_hooks"})
	}
	return it
}

func (g *gen) outcome(b *Blk) {
	switch c := g.r.Intn(20); {
	case c < 11:
		b.Out = "nil"
	case c < 17:
		b.Out, b.E = "err", g.esent%16
		g.esent++
	default:
		b.Out, b.E = "panic", g.esent%16
		g.esent++
		switch g.r.Intn(5) {
		case 0:
			b.E = -1 // panic(nil)
		case 1:
			b.E = -2 // runtime.Goexit()
		}
	}
}

// blk generates a block body. Save points are rolled back to only by the body that created
// them (never across a block boundary downwards), which is the domain of the property's
// "SavePoint/RollbackTo undo exactly the writes made after the save point".
func (g *gen) blk(depth, maxDepth int, edge bool) Blk {
	r := g.r
	b := Blk{Items: []Item{}}
	n := r.Range(1, 4)
	if depth > 0 {
		n = r.Range(0, 3)
	}
	if edge && r.Chance(1, 4) {
		n = 0
	}
	var saved []int64 // most recent first
	for i := 0; i < n; i++ {
		if g.inCx > 0 && r.Chance(1, 8) {
			b.Items = append(b.Items, Item{K: "cancel"})
			continue
		}
		switch c := r.Intn(20); {
		case c < 7:
			b.Items = append(b.Items, g.write())
		case c < 9:
			b.Items = append(b.Items, Item{K: "read", Chk: r.Bool(), Via: lib.Pick(r, []string{"", "", "sess", "sess_prep", "ctx"})})
		case c < 16:
			if depth < maxDepth {
				cx, was := r.Chance(1, 4), g.inCx
				if cx {
					g.inCx = 1
				}
				cb := g.blk(depth+1, maxDepth, edge)
				g.inCx = was
				it := Item{K: "child", B: &cb, Chk: r.Chance(1, 2), Rcv: r.Chance(1, 3), Cx: cx, NN: r.Chance(1, 6)}
				if r.Chance(1, 6) {
					it.Opt = lib.Pick(r, txOptLists)
				}
				if it.Rcv && r.Bool() { // recovered panics are only interesting when there is one
					cb.Out, cb.E = "panic", g.esent%16
					g.esent++
				}
				b.Items = append(b.Items, it)
			} else {
				b.Items = append(b.Items, g.write())
			}
		case c < 18:
			m := int64(r.Range(1, 3))
			saved = append([]int64{m}, saved...)
			b.Items = append(b.Items, Item{K: "save", M: m})
		default:
			if len(saved) > 0 {
				k := r.Intn(len(saved))
				b.Items = append(b.Items, Item{K: "rbto", M: saved[k]})
				for j, x := range saved { // the most recent save point of that name and what is below it survive
					if x == saved[k] {
						saved = saved[j:]
						break
					}
				}
			} else {
				b.Items = append(b.Items, g.write())
			}
		}
	}
	g.outcome(&b)
	return b
}

func countOps(b *Blk) (writes, children, depth int) {
	for _, it := range b.Items {
		switch it.K {
		case "write":
			writes++
		case "child":
			w, c, d := countOps(it.B)
			writes += w
			children += c + 1
			if d+1 > depth {
				depth = d + 1
			}
		}
	}
	return
}

func shapeBlk(b *Blk, sb *strings.Builder) {
	sb.WriteByte('{')
	for _, it := range b.Items {
		switch it.K {
		case "write":
			sb.WriteByte('w')
			if it.Via != "" {
				sb.WriteString(it.Via)
			}
			if it.Empty {
				sb.WriteByte('0')
			}
		case "read":
			sb.WriteByte('r')
			sb.WriteString(it.Via)
		case "save":
			fmt.Fprintf(sb, "s%d", it.M)
		case "rbto":
			fmt.Fprintf(sb, "b%d", it.M)
		case "child":
			shapeBlk(it.B, sb)
		}
		if it.Chk {
			sb.WriteByte('!')
		}
		if it.Rcv {
			sb.WriteByte('^')
		}
		if it.Cx {
			sb.WriteByte('@')
		}
		if it.NN {
			sb.WriteByte('~')
		}
		if it.Opt != "" {
			sb.WriteString("o" + it.Opt)
		}
		if it.K == "cancel" {
			sb.WriteByte('x')
		}
	}
	sb.WriteString(b.Out[:1] + "}")
}

func shape(in Input, o Observed) string {
	var sb strings.Builder
	fmt.Fprintf(&sb, "%s|p%v n%v s%v r%v %s o%v %s|", in.Top, in.Cfg.Prep, in.Cfg.NoNest, in.Cfg.SkipDef, in.Cfg.Report, in.Cfg.Via+fmt.Sprint(in.Cfg.NoSP, in.Conn), in.TxOpt, fmt.Sprint(in.Stray, in.Discard))
	shapeBlk(&in.Body, &sb)
	fk := "none"
	if in.Fault >= 0 && in.Fault < len(o.Ops) {
		fk = o.Ops[in.Fault].K
	}
	fmt.Fprintf(&sb, "|f%d:%s:%s%s|%v", in.Fault, fk, in.Phase, in.ErrIs, in.Extra)
	return sb.String()
}

// The former finding "nested-savepoint-error-sticks-to-enclosing-handle" (a SAVEPOINT fault of a
// nested block whose error the enclosing function ignores) was fixed in /repo by 1c49b86: such
// inputs are ordinary members of the generated streams now; corpus/C04 keeps the original input.
const sigStock = "sqlite-dialector-drops-savepoint-error"
const sigCancel = "nested-rollback-under-cancelled-context"

// cancelledFailing: some nested block failed (error or panic) while the context it ran under - its
// own or the one of an enclosing block - was already cancelled.
func cancelledFailing(log []Obs) bool {
	for _, o := range log {
		if o.K != "child" || o.NN { // with nested transactions switched off nothing below is to be undone by a block itself
			continue
		}
		if o.Cancelled && o.Entered && o.Exit.K != "nil" && o.Exit.K != "" || cancelledFailing(o.Body) {
			return true
		}
	}
	return false
}

// sig: known-finding signature. It depends only on the input: the kind of the driver operation
// the fault index lands on and the position of that operation in the program are functions of
// the input (read off the run, never off the verdict).
func sig(in Input, o Observed) string {
	if !in.Cfg.NoNest && !in.Cfg.NoSP && cancelledFailing(o.Log) {
		return sigCancel
	}
	if in.Fault < 0 || in.Fault >= len(o.Ops) {
		return ""
	}
	fk := o.Ops[in.Fault].K
	if !in.Cfg.Report && (fk == "save" || fk == "rbto") {
		return sigStock
	}
	return ""
}

// the variadic option lists handed to Transaction / Begin
var txOptLists = []string{"empty", "nil", "ro", "ser", "ro_ser", "nil+ro", "ro+empty", "empty+ro"}

// small trees for the exhaustive sweep: every block has at most one write before and one after
// at most one child; all outcome assignments; both "return the child's error" choices.
func smallTrees(depth int, g *gen) []Blk {
	var outs []Blk
	var kids []*Blk
	if depth > 0 {
		for _, k := range smallTrees(depth-1, g) {
			k := k
			kids = append(kids, &k)
		}
	}
	for _, out := range []string{"nil", "err", "panic"} {
		for pre := 0; pre < 2; pre++ {
			for post := 0; post < 2; post++ {
				mk := func(child *Blk, chk, rcv bool) {
					b := Blk{Items: []Item{}, Out: out}
					if out != "nil" {
						b.E = int64(depth)
					}
					if out == "panic" { // a value, nil, or Goexit
						b.E = []int64{int64(depth), -1, -2}[(pre+2*post+len(outs))%3]
					}
					if pre == 1 {
						b.Items = append(b.Items, Item{K: "write", Chk: true})
					}
					if child != nil {
						b.Items = append(b.Items, Item{K: "child", B: child, Chk: chk, Rcv: rcv})
					}
					if post == 1 {
						b.Items = append(b.Items, Item{K: "write", Chk: true})
					}
					outs = append(outs, b)
				}
				mk(nil, false, false)
				for _, k := range kids {
					mk(k, true, false)
					mk(k, false, false)
					if len(k.Items) > 0 && k.Out == "err" { // the child under its own context, cancelled before it fails or not
						mk(k, false, false)
						outs[len(outs)-1].Items[len(outs[len(outs)-1].Items)-1-post].Cx = true
					}
					if k.Out == "panic" || len(k.Items) > 0 {
						mk(k, false, true)
					}
					if len(k.Items) > 0 && (k.Out != "nil" || pre+post == 2) { // nested transactions switched off for this one call
						mk(k, pre == 1, false)
						outs[len(outs)-1].Items[len(outs[len(outs)-1].Items)-1-post].NN = true
					}
				}
			}
		}
	}
	return outs
}

// cloneBlk deep-copies a tree and numbers its writes with fresh markers.
func cloneBlk(b *Blk, next *int64) Blk {
	c := Blk{Items: make([]Item, len(b.Items)), Out: b.Out, E: b.E}
	for i, it := range b.Items {
		c.Items[i] = it
		if it.K == "write" {
			*next++
			c.Items[i].M = *next
			switch (*next + int64(len(b.Items))) % 4 { // the three ways of writing, spread over the sweep
			case 1:
				c.Items[i].Via = "exec"
			case 2:
				c.Items[i].Via, c.Items[i].Empty = "kept", *next%2 == 0
			case 3:
				c.Items[i].Via = []string{"sess", "sess_prep", "ctx"}[*next%3]
			}
		}
		if it.B != nil {
			cb := cloneBlk(it.B, next)
			c.Items[i].B = &cb
		}
	}
	return c
}

// copyBlk deep-copies a tree.
func copyBlk(b *Blk) Blk {
	c := Blk{Items: make([]Item, len(b.Items)), Out: b.Out, E: b.E}
	for i, it := range b.Items {
		c.Items[i] = it
		if it.B != nil {
			cb := copyBlk(it.B)
			c.Items[i].B = &cb
		}
	}
	return c
}

func main() {
	a := lib.ParseArgs()
	workDir = a.Out
	lib.Must(os.MkdirAll(workDir, 0o755))
	out := lib.NewOut(a.Out, "C04")
	out.PerFile = 250

	add := func(kind string, in Input) Observed {
		o := run(in)
		if kind != "corpus" && kind != "replay" && sig(in, o) == sigCancel {
			// the known finding stays out of the generated streams (corpus/C04 replays it)
			out.Count("excluded_known_finding", sigCancel)
			return o
		}
		w, c, d := countOps(&in.Body)
		fk := "none"
		if in.Fault >= 0 {
			fk = "beyond-last-op"
			if in.Fault < len(o.Ops) {
				fk = o.Ops[in.Fault].K
			}
		}
		nontriv := in.Top == "single" && fk != "none" && fk != "beyond-last-op" && w >= 2 || (w >= 2 && c >= 1 && len(o.Table) > 0 && len(o.Table) < w) || (fk != "none" && fk != "beyond-last-op" && w >= 1 && c >= 1)
		out.Add(lib.Case{Term: term(in, o), JSON: map[string]interface{}{"input": in, "observed": o},
			Sig: sig(in, o), Kind: kind, Shape: shape(in, o), Nontriv: nontriv})
		out.Count("top", in.Top)
		out.Count("depth", fmt.Sprint(d))
		out.Count("writes", fmt.Sprint(w))
		out.Count("children", fmt.Sprint(c))
		out.Count("fault_kind", fk)
		out.Count("result", o.Ret.K)
		out.Count("config", fmt.Sprintf("prep=%v nonest=%v skipdef=%v report=%v", in.Cfg.Prep, in.Cfg.NoNest, in.Cfg.SkipDef, in.Cfg.Report))
		out.Count("config_via", "via="+in.Cfg.Via)
		out.Count("savepoints", fmt.Sprint(!in.Cfg.NoSP))
		out.Count("dedicated_connection", fmt.Sprint(in.Conn))
		out.Count("durable", fmt.Sprint(len(o.Table)))
		out.Count("driver_ops", fmt.Sprint(len(o.Ops)))
		for _, n := range o.Notes {
			out.Count("notes", n)
		}
		return o
	}

	readCase := func(f string) Input {
		b, err := os.ReadFile(f)
		lib.Must(err)
		var c struct {
			Case struct {
				Input Input `json:"input"`
			} `json:"case"`
		}
		lib.Must(json.Unmarshal(b, &c))
		return c.Case.Input
	}
	if a.Replay != "" {
		o := add("replay", readCase(a.Replay))
		if os.Getenv("C04_DEBUG") != "" {
			b, _ := json.MarshalIndent(o, "", " ")
			fmt.Println(string(b))
		}
		lib.Must(out.Flush())
		return
	}
	for _, f := range lib.CorpusFiles(a.Corpus) {
		add("corpus", readCase(f))
	}

	// faulted runs one program with the k-th driver operation failing. Inputs that fall on the
	// known finding of the stock SQLite dialector are kept out of the generated streams (the
	// corpus replays one).
	faulted := func(kind string, in Input, free Observed, k int, phase string) {
		in.Fault, in.Phase = k, phase
		in.ErrIs = []string{"", "", "canceled", "deadline", "badconn"}[(k+len(free.Ops))%5]
		if in.Cfg.Prep && free.Ops[k].K == "stmt" && (k+len(free.Ops))%2 == 0 {
			in.ErrIs = "badconn" // with PrepareStmt gorm has code of its own for this kind of failure
		}
		in.Body = copyBlk(&in.Body)
		if !in.Cfg.Report && (free.Ops[k].K == "save" || free.Ops[k].K == "rbto") {
			return
		}
		add(kind, in)
	}

	r := lib.NewRng(a.Seed)
	cfgs := []Cfg{}
	for i := 0; i < 8; i++ {
		cfgs = append(cfgs, Cfg{Prep: i&1 != 0, NoNest: i&2 != 0, SkipDef: i&4 != 0, Report: true})
	}

	if a.Tier == "thorough" {
		// bounded-exhaustive: every small tree of depth <= 2 x every fault index x 8 configurations
		// (the dialector alternates), and a sample of depth-3 trees
		g := &gen{r: r.Fork()}
		trees := smallTrees(2, g)
		d3 := smallTrees(3, g)
		for i := 0; i < 600; i++ {
			trees = append(trees, d3[r.Intn(len(d3))])
		}
		for ti, t := range trees {
			for ci, c := range cfgs {
				if (ti+ci)%8 == 4 {
					c.Report = false
				}
				c.Via = []string{"", "session", "both"}[(ti/3+ci)%3]
				if (ti+ci)%16 == 8 {
					c.NoSP, c.Report = true, true
				}
				if (ti+ci)%4 != 0 && ti >= 12 { // every tree under 2 configurations, the smallest under all
					continue
				}
				var next int64
				in := Input{Top: "block", Body: cloneBlk(&t, &next), Cfg: c, Fault: -1, Phase: "exec"}
				if (ti+ci)%5 == 4 {
					in.Top = "manual"
					in.Extra = [][]string{{"rollback"}, {"commit"}, nil}[ti%3]
				}
				in.Conn = (ti+2*ci)%7 == 3
				if k := (ti + 5*ci) % 24; k < len(txOptLists) {
					in.TxOpt = txOptLists[k]
				}
				if !in.Conn && (ti+3*ci)%9 == 4 {
					in.Cfg.Wrap, in.Cfg.Soft = true, ti%2 == 0
				}
				free := add("sweep", in)
				for k := range free.Ops {
					ph := "exec"
					if c.Prep && (ti+k)%2 == 0 {
						ph = "prepare"
					}
					faulted("sweep", in, free, k, ph)
				}
			}
		}
	}

	// menu (every tier, before the random stream, so that the classic shapes do not depend on its luck):
	// the three-level chain top{w; d1{w; d2{w; out2}; w; out1}; w; out0} with every assignment of
	// nil / error / panic to the three blocks and both choices "the enclosing function returns / ignores
	// the nested call's error" at both levels, fault-free, configurations rotating
	{
		outs := []string{"nil", "err", "panic"}
		i := 0
		for _, o0 := range outs {
			for _, o1 := range outs {
				for _, o2 := range outs {
					for chk := 0; chk < 4; chk++ {
						mkb := func(out string, e int64, items ...Item) *Blk {
							b := &Blk{Items: items, Out: out}
							if out != "nil" {
								b.E = e
							}
							return b
						}
						w := func() Item { return Item{K: "write", Chk: true} }
						d2 := mkb(o2, 2, w())
						d1 := mkb(o1, 1, w(), Item{K: "child", B: d2, Chk: chk&1 != 0, Rcv: o2 == "panic" && chk&1 == 0}, w())
						top := mkb(o0, 0, w(), Item{K: "child", B: d1, Chk: chk&2 != 0, Rcv: (o1 == "panic" || o2 == "panic") && chk&2 == 0}, w())
						var next int64
						c := cfgs[i%8]
						c.Via = []string{"", "session", "both"}[i%3]
						in := Input{Top: "block", Body: cloneBlk(top, &next), Cfg: c, Fault: -1, Phase: "exec"}
						if i%5 == 4 {
							in.Top = "manual"
						}
						add("menu", in)
						i++
					}
				}
			}
		}
	}

	budget := 600
	if a.Tier == "thorough" {
		budget = 6000
	}
	if a.N > 0 {
		budget = a.N
	}
	start := len(out.Cases)
	for len(out.Cases)-start < budget {
		g := &gen{r: r.Fork()}
		edge := r.Chance(15, 100)
		in := Input{Top: "block", Fault: -1, Phase: "exec"}
		if r.Chance(1, 4) {
			in.Top = "manual"
		}
		in.Cfg = cfgs[r.Intn(8)]
		in.Cfg.Report = r.Chance(3, 4)
		in.Cfg.Via = lib.Pick(r, []string{"", "", "session", "both"})
		if r.Chance(1, 10) {
			in.Cfg.NoSP, in.Cfg.Report = true, true
		}
		if r.Chance(1, 3) {
			in.TxOpt = lib.Pick(r, txOptLists)
		}
		in.Conn = r.Chance(1, 5)
		if !in.Conn && r.Chance(1, 5) {
			in.Cfg.Wrap = true
			in.Cfg.Soft = r.Bool()
		}
		if r.Chance(1, 6) {
			for k := r.Range(1, 2); k > 0; k-- {
				in.Stray = append(in.Stray, lib.Pick(r, []string{"commit", "rollback"}))
			}
		}
		maxDepth := lib.Pick(r, []int{1, 2, 2, 3, 3, 4})
		in.Body = g.blk(0, maxDepth, edge)
		if in.Top == "manual" && (edge || r.Bool()) { // e.g. the deferred tx.Rollback() of the idiom
			for k := r.Range(1, 2); k > 0; k-- {
				in.Extra = append(in.Extra, lib.Pick(r, []string{"commit", "rollback", "rollback"}))
			}
		}
		kind := "main"
		if edge {
			kind = "edge"
		}
		if r.Chance(1, 6) {
			// no block at all: 1-4 calls on the pool handle, each write inside the transaction gorm opens for it;
			// fault-free and with every one of its driver operations failing
			in.Top, in.Extra, in.TxOpt, in.Cfg.Soft = "single", nil, "", false
			in.Body = Blk{Items: []Item{}, Out: "nil"}
			for k := r.Range(1, 4); k > 0; k-- {
				switch c := r.Intn(8); {
				case c < 5:
					g.marker++
					in.Body.Items = append(in.Body.Items, Item{K: "write", M: g.marker, Via: lib.Pick(r, []string{"", "", "sess", "sess_prep", "ctx", "sess_hooks"})})
				case c < 6:
					g.marker++
					in.Body.Items = append(in.Body.Items, Item{K: "write", M: g.marker, Via: lib.Pick(r, []string{"exec", "exec_new"})})
				default:
					in.Body.Items = append(in.Body.Items, Item{K: "read", Via: lib.Pick(r, []string{"", "sess", "ctx"})})
				}
			}
			if r.Chance(1, 3) {
				for k := r.Range(1, 2); k > 0; k-- {
					in.Discard = append(in.Discard, lib.Pick(r, []string{"skipdef", "nonest", "prep", "hooks"}))
				}
			}
			free := add(kind, in)
			for k := range free.Ops {
				ph := "exec"
				if in.Cfg.Prep && r.Bool() {
					ph = "prepare"
				}
				faulted(kind, in, free, k, ph)
			}
			continue
		}
		// fault-free run first (it tells how many driver operations the program issues), then
		// the same program with one operation failing
		free := add(kind, in)
		if n := len(free.Ops); n > 0 {
			for tries := 0; tries < 2; tries++ {
				ph := "exec"
				if in.Cfg.Prep && r.Bool() {
					ph = "prepare"
				}
				k := r.Intn(n)
				if in.Top == "manual" && tries == 0 && r.Bool() {
					k = 0 // BEGIN fails; the program still cleans up on the handle it got
				}
				faulted(kind, in, free, k, ph)
			}
		}
	}
	out.Extra["rule"] = "programs = trees of nested Transaction blocks (depth <= 4; per block 0-4 items: INSERT of a unique marker through the block's handle, COUNT, nested block, SavePoint/RollbackTo of names the same body saved; outcome nil/error/panic; per call whether its error is returned) run as db.Transaction or as the manual Begin..Commit/Rollback pattern, x 8 configurations x {reporting, stock SQLite} dialector, fault-free and with one failing driver operation (BEGIN/SAVEPOINT/statement or its prepare/ROLLBACK TO/COMMIT/ROLLBACK); distinct = distinct (program shape, configuration, fault position); non-trivial = a tree with >=1 nested block and >=2 writes of which a strict non-empty subset is durable, or a fault landing inside a tree with a nested block and a write. Inputs whose signature is a known finding are kept out of the generated streams and replayed from corpus/C04."
	lib.Must(out.Flush())
}
