// c19: DryRun and ToSQL send nothing and show exactly what a real run sends.
// Every operation (the chains and finishers of C01, plus soft-delete / time-tracking / Save
// operations on a second model) runs twice from identical handles on SQLite behind the recording
// driver and on the same data: once in DryRun (by configuration, by session or through ToSQL) and
// once for real.  Observed: the driver calls of both runs, the statement the dry run exposes.
package main

import (
	"database/sql"
	"encoding/json"
	"context"
	"errors"
	"fmt"
	"io"
	"log"
	"os"
	"regexp"
	"strings"
	"time"

	"gorm.io/driver/sqlite"
	"gorm.io/gorm"
	"gorm.io/gorm/clause"
	"gorm.io/gorm/logger"

	cgen "verifharness/cmd/c01/cgen"
	"verifharness/lib"
	"verifharness/recdrv"
)

// Doc: soft delete + tracked update time.
type Doc struct {
	ID        uint `gorm:"primaryKey"`
	Title     string
	UpdatedAt time.Time
	DeletedAt gorm.DeletedAt
}

// Owner / Pet: has-many association (selected-association delete, Preload).
type Owner struct {
	ID   uint `gorm:"primaryKey"`
	Name string
	Pets []Pet
	Tags []Tag `gorm:"many2many:owner_tags"`
}
type Tag struct {
	ID   uint `gorm:"primaryKey"`
	Name string
}
type Pet struct {
	ID      uint `gorm:"primaryKey"`
	OwnerID uint
	Name    string
}

// Note: its AfterCreate hook runs a statement through the tx it is handed.
type Note struct {
	ID   uint `gorm:"primaryKey"`
	Body string
}
type Audit struct {
	ID  uint `gorm:"primaryKey"`
	Msg string
}

func (n *Note) AfterCreate(tx *gorm.DB) error {
	return tx.Exec("INSERT INTO audits (msg) VALUES (?)", n.Body).Error
}
func (n *Note) BeforeUpdate(tx *gorm.DB) error {
	return tx.Exec("INSERT INTO audits (msg) VALUES (?)", "before update").Error
}
func (n *Note) BeforeDelete(tx *gorm.DB) error {
	return tx.Exec("INSERT INTO audits (msg) VALUES (?)", "before delete").Error
}
func (n *Note) AfterDelete(tx *gorm.DB) error {
	return tx.Exec("INSERT INTO audits (msg) VALUES (?)", "after delete").Error
}

// Stamp: tracked times kept as integers (seconds by name, milliseconds and nanoseconds by tag).
type Stamp struct {
	ID           uint `gorm:"primaryKey"`
	Name         string
	CreatedAt    int64
	UpdatedMilli int64 `gorm:"autoUpdateTime:milli"`
	CreatedNano  int64 `gorm:"autoCreateTime:nano"`
}

// Guarded: Before* hooks that change the statement (add a condition, set a column) or veto it.
type Guarded struct {
	ID   uint `gorm:"primaryKey"`
	Name string
	Rev  int64
}

func guardedVeto(g *Guarded) error {
	if g.Name == "veto" {
		return errors.New("vetoed by hook")
	}
	return nil
}
func (g *Guarded) BeforeDelete(tx *gorm.DB) error {
	tx.Statement.AddClause(clause.Where{Exprs: []clause.Expression{clause.Neq{Column: "name", Value: "locked"}}})
	return guardedVeto(g)
}
func (g *Guarded) BeforeUpdate(tx *gorm.DB) error {
	tx.Statement.AddClause(clause.Where{Exprs: []clause.Expression{clause.Gte{Column: "rev", Value: 0}}})
	return guardedVeto(g)
}
func (g *Guarded) BeforeCreate(tx *gorm.DB) error {
	tx.Statement.SetColumn("Rev", int64(41))
	return guardedVeto(g)
}

var oldTime = time.Date(2020, 1, 2, 3, 4, 5, 0, time.UTC)

var fixedNow = time.Date(2024, 5, 6, 7, 8, 9, 0, time.UTC)

// XOp is an operation on Doc (outside the C01 grammar).
type XOp struct {
	K     string `json:"k"` // create update delete unscoped_delete find first rows save_existing save_missing save_new
	ID    int64  `json:"id"`
	Title string `json:"title"`
}

type Input struct {
	Mode string      `json:"mode"` // config | session | tosql
	Skip bool        `json:"skip"` // SkipDefaultTransaction
	NoRet  bool `json:"noret,omitempty"`  // the dialect has no RETURNING (SQLite < 3.35): writes go through ExecContext + LastInsertId
	Prep   bool `json:"prep,omitempty"`   // Session{PrepareStmt: true}
	Global bool `json:"global,omitempty"` // Session{AllowGlobalUpdate: true}
	QF     bool `json:"qf,omitempty"`     // Session{QueryFields: true}
	Ctx    bool `json:"ctx,omitempty"`    // WithContext(ctx)
	Log    string `json:"log,omitempty"`  // the handle's logger: "" (discard) | parameterized (logger.Config{ParameterizedQueries}) | custom (own ParamsFilter)
	FailBegin bool `json:"fail_begin,omitempty"` // the database refuses the implicit Begin
	Carry bool       `json:"carry,omitempty"` // the chain is on the handle before DryRun / ToSQL is switched on
	C01  *cgen.Input `json:"c01,omitempty"`
	X    *XOp        `json:"x,omitempty"`
	Script *Script   `json:"script,omitempty"`
}

// Script: what a closure does with its handle: operations on Doc, nested Transaction blocks, explicit savepoints.
type Step struct {
	K       string `json:"k"` // op | block | save | rollto
	Op      string `json:"op,omitempty"` // create update delete find exec
	ID      int64  `json:"id,omitempty"`
	Title   string `json:"title,omitempty"`
	Fail    bool   `json:"fail,omitempty"`    // block: the closure returns an error at its end
	Swallow bool   `json:"swallow,omitempty"` // block: the enclosing closure ignores the block's error
	Name    string `json:"name,omitempty"`    // save / rollto
	Body    []Step `json:"body,omitempty"`
}
type Script struct {
	Encl  bool   `json:"encl"` // the script runs between Begin() and Rollback() of the caller
	Steps []Step `json:"steps"`
}

// Shown: the statement one operation of a script exposed.
type Shown struct {
	Idx  int       `json:"idx"` // which operation of the script (numbered in source order)
	Kind string    `json:"kind"`
	SQL  string    `json:"sql"`
	Vars []cgen.Sc `json:"vars"`
	Err  bool      `json:"err,omitempty"`
}

var scriptShown []Shown

var errForced = errors.New("forced failure of the block")

func scriptOp(tx *gorm.DB, st Step) *gorm.DB {
	switch st.Op {
	case "create":
		return tx.Create(&Doc{Title: st.Title})
	case "update":
		return tx.Model(&Doc{}).Where("id = ?", st.ID).Update("title", st.Title)
	case "delete":
		return tx.Delete(&Doc{}, st.ID)
	case "find":
		var d []Doc
		return tx.Where("title <> ?", st.Title).Find(&d)
	case "exec":
		return tx.Exec("UPDATE docs SET title = ? WHERE id = ?", st.Title, st.ID)
	}
	panic("script op " + st.Op)
}

var opKind = map[string]string{"create": "OpCreate", "update": "OpUpdate", "delete": "OpDelete", "find": "OpQuery", "exec": "OpRaw"}

// opsIn: the number of operations a list of steps contains (source order numbering)
func opsIn(steps []Step) int {
	n := 0
	for _, st := range steps {
		if st.K == "op" {
			n++
		}
		n += opsIn(st.Body)
	}
	return n
}

func runSteps(tx *gorm.DB, steps []Step, base int) error {
	idx := base
	for _, st := range steps {
		myIdx := idx
		if st.K == "op" {
			idx++
		}
		idx += opsIn(st.Body)
		switch st.K {
		case "op":
			r := scriptOp(tx, st)
			err := r.Error
			if errors.Is(err, gorm.ErrRecordNotFound) {
				err = nil
			}
			scriptShown = append(scriptShown, Shown{Idx: myIdx, Kind: opKind[st.Op], SQL: r.Statement.SQL.String(), Vars: cgen.CanonAll(r.Statement.Vars), Err: err != nil})
			if err != nil {
				return err
			}
		case "save":
			tx.SavePoint(st.Name)
		case "rollto":
			tx.RollbackTo(st.Name)
		case "block":
			body, fail := st.Body, st.Fail
			err := tx.Transaction(func(tx2 *gorm.DB) error {
				if err := runSteps(tx2, body, myIdx); err != nil {
					return err
				}
				if fail {
					return errForced
				}
				return nil
			})
			if err != nil && !st.Swallow {
				return err
			}
		}
	}
	return nil
}

func runScript(db *gorm.DB, sc Script) *gorm.DB {
	h := db
	if sc.Encl {
		h = db.Begin()
		if h.Error != nil {
			return h
		}
	}
	err := runSteps(h, sc.Steps, 0)
	if sc.Encl {
		h.Rollback()
	}
	res := db.Session(&gorm.Session{NewDB: true})
	res.Error = err
	return res
}

type Ev struct {
	K    string    `json:"k"` // begin commit rollback exec query other
	SQL  string    `json:"sql,omitempty"`
	Args []cgen.Sc `json:"args,omitempty"`
	Err  bool      `json:"err,omitempty"`
}

type Run struct {
	Shown []Shown  `json:"shown,omitempty"` // scripts: the statement every operation exposed
	Log  []Ev      `json:"log"`
	SQL  string    `json:"sql"`
	Vars []cgen.Sc `json:"vars"`
	Err  string    `json:"err"`
}

type Observed struct {
	Dry, Real Run
	ToSQL     string `json:"tosql"`     // the string DB.ToSQL returned
	Explained string `json:"explained"` // Dialector.Explain of the statement the dry handle exposed
}

func threeDocs(x XOp) []Doc {
	return []Doc{{Title: x.Title + "a"}, {Title: x.Title + "b"}, {Title: x.Title + "c"}}
}

// xBase: chain state the handle carries BEFORE DryRun is switched on (carry_* operations).
func xBase(db *gorm.DB, x XOp) *gorm.DB {
	if strings.HasPrefix(x.K, "carry_") {
		return db.Model(&Doc{}).Where("title <> ?", x.Title).Order("id").Session(&gorm.Session{})
	}
	return db
}

// xFin: the rest of the operation.
func xFin(db *gorm.DB, x XOp) *gorm.DB {
	switch x.K {
	case "create":
		return db.Create(&Doc{Title: x.Title})
	case "update":
		return db.Model(&Doc{}).Where("id = ?", x.ID).Update("title", x.Title)
	case "raw_find", "raw_first", "raw_take", "raw_last", "raw_pluck", "raw_count": // raw SQL finished by a query-processor finisher
		tx := db.Raw("SELECT * FROM docs WHERE title <> ? AND id > ?", x.Title, 0)
		switch x.K {
		case "raw_find":
			var d []Doc
			return tx.Find(&d)
		case "raw_first":
			var d Doc
			return tx.First(&d)
		case "raw_take":
			var d Doc
			return tx.Take(&d)
		case "raw_last":
			var d Doc
			return tx.Last(&d)
		case "raw_pluck":
			var t []string
			return db.Raw("SELECT title FROM docs WHERE title <> ?", x.Title).Pluck("title", &t)
		}
		var n int64
		return db.Raw("SELECT count(*) FROM docs WHERE title <> ?", x.Title).Count(&n)
	case "guard_delete", "guard_delete_veto": // BeforeDelete adds a condition to the statement / refuses
		g := &Guarded{ID: uint(x.ID)}
		if x.K == "guard_delete_veto" {
			g.Name = "veto"
		}
		return db.Delete(g)
	case "guard_update", "guard_update_veto":
		g := &Guarded{ID: uint(x.ID)}
		if x.K == "guard_update_veto" {
			g.Name = "veto"
		}
		return db.Model(g).Update("rev", 7)
	case "guard_create", "guard_create_veto": // BeforeCreate sets a column / refuses
		g := &Guarded{Name: x.Title}
		if x.K == "guard_create_veto" {
			g.Name = "veto"
		}
		return db.Create(g)
	case "stamp_create":
		return db.Create(&Stamp{Name: x.Title})
	case "stamp_create_slice":
		return db.Create(&[]Stamp{{Name: x.Title}, {Name: x.Title + "b", CreatedAt: 77}})
	case "stamp_create_map":
		return db.Model(&Stamp{}).Create(map[string]interface{}{"name": x.Title})
	case "stamp_update":
		return db.Model(&Stamp{ID: uint(x.ID)}).Update("name", x.Title)
	case "stamp_updates_struct":
		return db.Model(&Stamp{ID: uint(x.ID)}).Updates(Stamp{Name: x.Title})
	case "stamp_save":
		return db.Save(&Stamp{ID: uint(x.ID), Name: x.Title, CreatedAt: 5, CreatedNano: 6})
	case "hook_update": // BeforeUpdate runs a statement first
		return db.Model(&Note{ID: uint(x.ID)}).Update("body", x.Title)
	case "hook_delete": // BeforeDelete before, AfterDelete after the main statement
		return db.Delete(&Note{ID: uint(x.ID)})
	case "assoc_delete_m2m":
		return db.Select("Tags").Delete(&Owner{ID: uint(x.ID)})
	case "parse_error": // no table can be derived from the destination
		var n int
		return db.Find(&n)
	case "first_nilptr": // a nil pointer destination is allocated by Execute
		var d *Doc
		return db.Where("title <> ?", x.Title).First(&d)
	case "exec_bad": // the database rejects the statement
		return db.Exec("UPDATE no_such_table SET a = ? WHERE b = ?", x.Title, x.ID)
	case "hook_create": // AfterCreate runs INSERT INTO audits on the tx it gets
		return db.Create(&Note{Body: x.Title})
	case "assoc_delete":
		return db.Select("Pets").Delete(&Owner{ID: uint(x.ID)})
	case "assoc_delete_all":
		return db.Select(clause.Associations).Delete(&Owner{ID: uint(x.ID)})
	case "preload_keyed": // the destination already has its key: Preload can build its query without the main result
		o := Owner{ID: uint(x.ID)}
		return db.Preload("Pets").Find(&o)
	case "begin_create", "begin_update":
		tx := db.Begin()
		var res *gorm.DB
		if x.K == "begin_create" {
			res = tx.Create(&Doc{Title: x.Title})
		} else {
			res = tx.Model(&Doc{}).Where("id = ?", x.ID).Update("title", x.Title)
		}
		tx.Rollback()
		return res
	case "row", "raw_row_returning":
		tx := db.Model(&Doc{}).Select("title").Where("id = ?", x.ID)
		if x.K == "raw_row_returning" {
			tx = db.Raw("UPDATE docs SET title = ? WHERE id = ? RETURNING id", x.Title, x.ID)
		}
		if row := tx.Row(); row != nil {
			var v interface{}
			row.Scan(&v)
		}
		return tx.Session(&gorm.Session{})
	case "scan":
		var d []Doc
		return db.Model(&Doc{}).Where("title <> ?", x.Title).Scan(&d)
	case "save_slice_preset": // tracked time already set on the records: Save must bind the clock, not the old value
		docs := []Doc{{ID: uint(x.ID), Title: x.Title, UpdatedAt: oldTime}, {ID: 950, Title: x.Title + "n", UpdatedAt: oldTime}}
		return db.Save(&docs)
	case "save_struct_preset":
		return db.Save(&Doc{ID: uint(x.ID), Title: x.Title, UpdatedAt: oldTime})
	case "update_nocond": // no condition at all: ErrMissingWhereClause, nothing may be sent
		return db.Model(&Doc{}).Update("title", x.Title)
	case "updates_nocond":
		return db.Model(&Doc{}).Updates(map[string]interface{}{"title": x.Title})
	case "update_column_nocond":
		return db.Model(&Doc{}).UpdateColumn("title", x.Title)
	case "delete_nocond":
		return db.Delete(&Doc{})
	case "unscoped_delete_nocond":
		return db.Unscoped().Delete(&Doc{})
	case "update_returning":
		return db.Model(&Doc{}).Clauses(clause.Returning{}).Where("id = ?", x.ID).Update("title", x.Title)
	case "delete":
		return db.Delete(&Doc{}, x.ID)
	case "delete_returning":
		return db.Clauses(clause.Returning{}).Delete(&Doc{}, x.ID)
	case "unscoped_delete":
		return db.Unscoped().Delete(&Doc{}, x.ID)
	case "unscoped_delete_returning":
		return db.Unscoped().Clauses(clause.Returning{}).Delete(&Doc{}, x.ID)
	case "find":
		var d []Doc
		return db.Where("title <> ?", x.Title).Find(&d)
	case "first":
		var d Doc
		return db.First(&d, x.ID)
	case "rows":
		tx := db.Model(&Doc{}).Where("title <> ?", x.Title)
		rows, err := tx.Rows()
		if err == nil {
			rows.Close()
		}
		// Rows() works on its own instance: expose it the same way for both runs
		res := tx.Session(&gorm.Session{})
		res.Error = err
		return res
	case "save_existing", "save_missing", "save_new":
		return db.Save(&Doc{ID: uint(x.ID), Title: x.Title})
	case "carry_find":
		var d []Doc
		return db.Find(&d)
	case "carry_first":
		var d Doc
		return db.First(&d)
	case "carry_count":
		var n int64
		return db.Count(&n)
	case "carry_update":
		return db.Update("title", x.Title+"!")
	case "batch_create":
		docs := threeDocs(x)
		return db.CreateInBatches(&docs, 2)
	case "batchsize_create":
		docs := threeDocs(x)
		return db.Session(&gorm.Session{CreateBatchSize: 2}).Create(&docs)
	}
	panic("xop " + x.K)
}

func carries(in Input) bool {
	return in.Carry && in.C01 != nil && in.C01.Fin.K != "raw" && in.C01.Fin.K != "exec"
}

func opBase(db *gorm.DB, in Input) *gorm.DB {
	if in.Script != nil {
		return db
	}
	if in.X != nil {
		return xBase(db, *in.X)
	}
	if carries(in) {
		return cgen.NewGctx(db).Prefix(*in.C01).Session(&gorm.Session{})
	}
	return db
}

func opFin(db *gorm.DB, in Input) *gorm.DB {
	if in.Script != nil {
		return runScript(db, *in.Script)
	}
	if in.X != nil {
		return xFin(db, *in.X)
	}
	if carries(in) {
		return cgen.NewGctx(db).Finish(db, in.C01.Fin)
	}
	return cgen.NewGctx(db).Run(*in.C01)
}

type env struct {
	real, dryCfg *gorm.DB
	rec          *recdrv.Recorder
	sqlDB        *sql.DB
}

func openEnv(noReturning bool) env {
	sqlDB, rec := recdrv.Open(":memory:")
	if noReturning {
		rec.FakeVersion = "3.30.0" // the dialector then registers its callbacks without RETURNING
	}
	sqlDB.SetMaxOpenConns(1)
	now := func() time.Time { return fixedNow }
	mk := func(dry bool) *gorm.DB {
		db, err := gorm.Open(sqlite.Dialector{Conn: sqlDB}, &gorm.Config{DryRun: dry, Logger: logger.Discard, NowFunc: now})
		lib.Must(err)
		return db
	}
	e := env{real: mk(false), dryCfg: mk(true), rec: rec, sqlDB: sqlDB}
	lib.Must(e.real.AutoMigrate(&cgen.Item{}, &Doc{}, &Owner{}, &Pet{}, &Tag{}, &Note{}, &Audit{}, &Stamp{}, &Guarded{}))
	e.reseed()
	return e
}

// reseed restores the data both runs start from (through database/sql directly).
func (e env) reseed() {
	for _, q := range []string{
		"DELETE FROM items", "DELETE FROM docs", "DELETE FROM owners", "DELETE FROM pets", "DELETE FROM notes", "DELETE FROM audits", "DELETE FROM tags", "DELETE FROM owner_tags", "DELETE FROM stamps", "DELETE FROM guardeds",
		"INSERT INTO guardeds (id, name, rev) VALUES (1,'g1',1),(2,'locked',1)",
		"INSERT INTO stamps (id, name, created_at, updated_milli, created_nano) VALUES (1,'s1',1,1,1),(2,'s2',2,2,2)",
		"INSERT INTO notes (id, body) VALUES (1,'n1'),(2,'n2')",
		"INSERT INTO tags (id, name) VALUES (1,'t1'),(2,'t2')",
		"INSERT INTO owner_tags (owner_id, tag_id) VALUES (1,1),(1,2),(2,1)",
		"INSERT INTO owners (id, name) VALUES (1,'o1'),(2,'o2')",
		"INSERT INTO pets (id, owner_id, name) VALUES (1,1,'p1'),(2,1,'p2'),(3,2,'p3')",
		"INSERT INTO items (id, name, code, age, active, data, note) VALUES (1,'ann','c1',20,1,x'6431','n1'),(2,'bob','c2',31,0,x'6432',NULL),(3,'cid','c1',44,1,NULL,NULL)",
		"INSERT INTO docs (id, title, updated_at, deleted_at) VALUES (1,'t1','2024-01-01 00:00:00',NULL),(2,'t2','2024-01-01 00:00:00',NULL),(3,'t3','2024-01-01 00:00:00','2024-02-02 00:00:00')",
	} {
		_, err := e.sqlDB.Exec(q)
		lib.Must(err)
	}
	e.rec.Reset()
}

var spRe = regexp.MustCompile(`^(SAVEPOINT|ROLLBACK TO SAVEPOINT) (sp\d+)$`)

func (e env) events(dry bool) []Ev {
	var out []Ev
	spNames := map[string]string{} // the savepoint names gorm invents, numbered in order of appearance
	for _, ev := range e.rec.Snapshot() {
		if m := spRe.FindStringSubmatch(ev.Query); m != nil {
			if _, ok := spNames[m[2]]; !ok {
				spNames[m[2]] = fmt.Sprintf("sp%d", len(spNames)+1)
			}
			ev.Query = m[1] + " " + spNames[m[2]]
		}
		if ev.Kind == "prepare" && !dry {
			continue // PrepareStmt mode: the real run prepares, then executes the prepared statement
		}
		switch ev.Kind {
		case "begin", "commit", "rollback":
			out = append(out, Ev{K: ev.Kind, Err: ev.Err != ""})
		case "exec", "stmt_exec":
			out = append(out, Ev{K: "exec", SQL: ev.Query, Args: cgen.CanonAll(ev.Args), Err: ev.Err != ""})
		case "query", "stmt_query":
			out = append(out, Ev{K: "query", SQL: ev.Query, Args: cgen.CanonAll(ev.Args), Err: ev.Err != ""})
		case "prepare":
			out = append(out, Ev{K: "other", SQL: "prepare: " + ev.Query, Err: ev.Err != ""})
		}
	}
	return out
}

func capture(e env, dry, failBegin bool, f func() *gorm.DB) (r Run) {
	e.reseed()
	if failBegin {
		e.rec.Fault = func(idx int, ev *recdrv.Event) error {
			if ev.Kind == "begin" {
				return recdrv.ErrInjected
			}
			return nil
		}
	}
	scriptShown = nil
	defer func() {
		e.rec.Fault = nil
		if p := recover(); p != nil {
			r.Err = fmt.Sprint("panic: ", p)
			r.Log = e.events(dry)
		}
	}()
	tx := f()
	r.Shown = scriptShown
	r.Log = e.events(dry)
	r.SQL = tx.Statement.SQL.String()
	r.Vars = cgen.CanonAll(tx.Statement.Vars)
	if tx.Error != nil && !errors.Is(tx.Error, gorm.ErrRecordNotFound) {
		r.Err = tx.Error.Error()
	}
	return r
}

func runCase(envs [2]env, in Input) Observed {
	var o Observed
	e := envs[0]
	if in.NoRet {
		e = envs[1]
	}
	opts := func(db *gorm.DB, dryRun bool) *gorm.DB {
		tx := db.Session(&gorm.Session{SkipDefaultTransaction: in.Skip, PrepareStmt: in.Prep, AllowGlobalUpdate: in.Global,
			QueryFields: in.QF, DryRun: dryRun, Logger: loggerOf(in.Log)})
		if in.Ctx {
			tx = tx.WithContext(context.WithValue(context.Background(), ctxKey{}, "c19"))
		}
		return tx
	}
	switch in.Mode {
	case "config":
		o.Dry = capture(e, true, in.FailBegin, func() *gorm.DB { return opFin(opBase(opts(e.dryCfg, false), in), in) })
	case "session":
		o.Dry = capture(e, true, in.FailBegin, func() *gorm.DB {
			return opFin(opBase(opts(e.real, false), in).Session(&gorm.Session{DryRun: true, SkipDefaultTransaction: in.Skip}), in)
		})
	case "tosql":
		o.Dry = capture(e, true, in.FailBegin, func() *gorm.DB {
			var res *gorm.DB
			o.ToSQL = opBase(opts(e.real, false), in).ToSQL(func(tx *gorm.DB) *gorm.DB {
				res = opFin(tx, in)
				return res
			})
			o.Explained = e.real.Dialector.Explain(res.Statement.SQL.String(), res.Statement.Vars...)
			return res
		})
	}
	o.Real = capture(e, false, in.FailBegin, func() *gorm.DB { return opFin(opBase(opts(e.real, false), in), in) })
	return o
}

type ctxKey struct{}

// redactLogger: a logger with its own ParamsFilter (hides every value from the trace).
type redactLogger struct{ logger.Interface }

func (redactLogger) ParamsFilter(ctx context.Context, sql string, params ...interface{}) (string, []interface{}) {
	out := make([]interface{}, len(params))
	for i := range out {
		out[i] = "***"
	}
	return sql, out
}

func loggerOf(kind string) logger.Interface {
	switch kind {
	case "parameterized":
		return logger.New(log.New(io.Discard, "", 0), logger.Config{LogLevel: logger.Silent, ParameterizedQueries: true})
	case "custom":
		return redactLogger{logger.Discard}
	}
	return nil
}

// ---- classification of the operation (input of the pipeline model) ----
func gSteps(steps []Step, shown []Shown, noRet bool, base int) string {
	out := make([]string, 0, len(steps))
	idx := base
	for _, st := range steps {
		myIdx := idx
		if st.K == "op" {
			idx++
		}
		idx += opsIn(st.Body)
		switch st.K {
		case "op":
			// the statement this operation exposed in the dry run (nothing for an operation the dry run never reached)
			sh := Shown{Kind: opKind[st.Op]}
			for _, x := range shown {
				if x.Idx == myIdx {
					sh = x
				}
			}
			ret := st.Op == "create" && !noRet
			out = append(out, lib.App("TOp", sh.Kind, lib.App("mk_built", lib.Str(sh.SQL),
				lib.ListOf(sh.Vars, func(s cgen.Sc) string { return s.Coq() }), lib.Bool(sh.Err), lib.Bool(ret), "false")))
		case "save":
			out = append(out, lib.App("TSave", lib.Str(st.Name)))
		case "rollto":
			out = append(out, lib.App("TRollTo", lib.Str(st.Name)))
		case "block":
			out = append(out, lib.App("TBlock", lib.Bool(st.Fail), lib.Bool(st.Swallow), gSteps(st.Body, shown, noRet, myIdx)))
		}
	}
	return lib.List(out)
}

func classify(in Input) (kind, fin string, ret bool) {
	fin = "FPlain"
	if in.Script != nil {
		return "OpRaw", "FScript", false // the term of the script is made in term()
	}
	if in.X != nil {
		switch in.X.K {
		case "create", "save_new":
			return "OpCreate", fin, true
		case "batch_create", "batchsize_create":
			return "OpCreate", "FBatch", true
		case "hook_create":
			return "OpCreate", "(FNested 0 1)", true
		case "raw_find", "raw_first", "raw_take", "raw_last", "raw_pluck", "raw_count":
			return "OpQuery", fin, false
		case "guard_delete", "guard_delete_veto":
			return "OpDelete", fin, false
		case "guard_update", "guard_update_veto":
			return "OpUpdate", fin, false
		case "guard_create", "guard_create_veto":
			return "OpCreate", fin, true
		case "stamp_create", "stamp_create_slice", "stamp_create_map":
			return "OpCreate", fin, true
		case "stamp_update", "stamp_updates_struct":
			return "OpUpdate", fin, false
		case "stamp_save":
			return "OpUpdate", "FSave", false
		case "hook_update":
			return "OpUpdate", "(FNested 1 0)", false
		case "hook_delete":
			return "OpDelete", "(FNested 1 1)", false
		case "assoc_delete_m2m":
			return "OpDelete", "(FNested 1 0)", false
		case "parse_error", "first_nilptr":
			return "OpQuery", fin, false
		case "exec_bad":
			return "OpRaw", fin, false
		case "assoc_delete":
			return "OpDelete", "(FNested 1 0)", false
		case "assoc_delete_all": // Pets and Tags, in map order
			return "OpDelete", "(FNested 2 0)", false
		case "preload_keyed":
			return "OpQuery", "(FNested 0 1)", false
		case "begin_create":
			return "OpCreate", "FManualTx", true
		case "begin_update":
			return "OpUpdate", "FManualTx", false
		case "row", "raw_row_returning":
			return "OpRow", "FRow", false
		case "scan":
			return "OpRow", "FRows", false
		case "save_slice_preset":
			return "OpCreate", fin, true
		case "save_struct_preset":
			return "OpUpdate", "FSave", false
		case "update", "carry_update", "update_nocond", "updates_nocond", "update_column_nocond":
			return "OpUpdate", fin, false
		case "update_returning":
			return "OpUpdate", fin, true
		case "delete", "unscoped_delete", "delete_nocond", "unscoped_delete_nocond": // a soft delete is an UPDATE text built and sent by the delete callbacks
			return "OpDelete", fin, false
		case "delete_returning", "unscoped_delete_returning":
			return "OpDelete", fin, true
		case "find", "first", "carry_find", "carry_first", "carry_count":
			return "OpQuery", fin, false
		case "rows":
			return "OpRow", "FRows", false
		case "save_existing", "save_missing":
			return "OpUpdate", "FSave", false
		}
	}
	switch in.C01.Fin.K {
	case "find", "first", "take", "last", "count", "pluck":
		return "OpQuery", fin, false
	case "update", "updates_map", "updates_struct", "update_column", "update_columns":
		return "OpUpdate", fin, false
	case "save_struct": // the key exists in the seed data: the UPDATE finds its row
		return "OpUpdate", "FSave", false
	case "save_slice":
		return "OpCreate", fin, true
	case "delete":
		return "OpDelete", fin, false
	case "create_struct", "create_slice", "create_map", "create_maps":
		return "OpCreate", fin, true
	case "exec":
		return "OpRaw", fin, false
	case "raw":
		return "OpRow", "FRows", false
	}
	panic("classify")
}

// ---- Gallina ----
func gEv(e Ev) string {
	switch e.K {
	case "begin":
		return "EBegin"
	case "commit":
		return "ECommit"
	case "rollback":
		return "ERollback"
	case "exec":
		return lib.App("EStmt", "false", lib.Str(e.SQL), lib.ListOf(e.Args, func(s cgen.Sc) string { return s.Coq() }))
	case "query":
		return lib.App("EStmt", "true", lib.Str(e.SQL), lib.ListOf(e.Args, func(s cgen.Sc) string { return s.Coq() }))
	}
	return lib.App("EStmt", "true", lib.Str("<"+e.SQL+">"), "[]")
}

func term(in Input, o Observed) string {
	kind, fin, ret := classify(in)
	if in.NoRet {
		ret = false
	}
	if in.Script != nil {
		fin = "(" + lib.App("FScript", lib.Bool(in.Script.Encl), gSteps(in.Script.Steps, o.Dry.Shown, in.NoRet, 0)) + ")"
	}
	gShown := func(l []Shown) string {
		return lib.ListOf(l, func(x Shown) string {
			return lib.Pair(lib.Str(x.SQL), lib.ListOf(x.Vars, func(s cgen.Sc) string { return s.Coq() }))
		})
	}
	dorc := make([]string, len(o.Dry.Log))
	for i, e := range o.Dry.Log {
		dorc[i] = lib.App("mk_dres", lib.Bool(e.Err), lib.Z(1))
	}
	mode := map[string]string{"config": "MConfig", "session": "MSession", "tosql": "MToSQL"}[in.Mode]
	// the oracle: what the database answered to each driver call of the real run
	orc := make([]string, len(o.Real.Log))
	// an error gorm raised while processing the answer of a statement (scanning rows) counts as the
	// answer to that statement: attribute it to the last statement of the log
	postErr := -1
	if o.Real.Err != "" && in.Script == nil { // (the error of a script is the error its closure returned)
		drvErr := false
		for i, e := range o.Real.Log {
			if e.Err {
				drvErr = true
			}
			if e.K == "exec" || e.K == "query" {
				postErr = i
			}
		}
		if drvErr {
			postErr = -1
		}
	}
	for i, e := range o.Real.Log {
		if i == postErr {
			e.Err = true
		}
		rows := int64(1)
		if in.X != nil && in.X.K == "save_missing" && (e.K == "exec" || e.K == "query") && strings.HasPrefix(e.SQL, "UPDATE") {
			rows = 0
		}
		orc[i] = lib.App("mk_dres", lib.Bool(e.Err), lib.Z(rows))
	}
	return lib.App("mk_case", kind, fin, mode, lib.Bool(in.Skip), lib.Bool(ret), lib.List(orc), lib.List(dorc),
		lib.ListOf(o.Dry.Log, gEv), lib.Str(o.Dry.SQL), lib.ListOf(o.Dry.Vars, func(s cgen.Sc) string { return s.Coq() }), lib.Bool(o.Dry.Err != ""),
		lib.Str(o.ToSQL), lib.Str(o.Explained),
		lib.ListOf(o.Real.Log, gEv), lib.Bool(o.Real.Err != ""), gShown(o.Dry.Shown))
}

func shape(in Input) string {
	s := in.Mode + fmt.Sprint(in.Skip, in.Carry, in.NoRet, in.Prep, in.Global, in.QF, in.Ctx, in.FailBegin, in.Log) + "|"
	if in.X != nil {
		return s + "x:" + in.X.K
	}
	if in.Script != nil {
		var sb strings.Builder
		var w func(l []Step)
		w = func(l []Step) {
			for _, st := range l {
				sb.WriteString(st.K + st.Op + fmt.Sprint(st.Fail, st.Swallow))
				if st.K == "block" {
					sb.WriteByte('{')
					w(st.Body)
					sb.WriteByte('}')
				}
				sb.WriteByte(';')
			}
		}
		w(in.Script.Steps)
		return s + fmt.Sprint("script:", in.Script.Encl, ":") + sb.String()
	}
	return s + cgen.Shape(*in.C01)
}

func depthOf(l []Step) int {
	d := 0
	for _, st := range l {
		if st.K == "block" {
			if x := 1 + depthOf(st.Body); x > d {
				d = x
			}
		}
	}
	return d
}

// genScript: a top-level Transaction block (or a handle between Begin and Rollback) with operations,
// nested blocks (failing or not, error swallowed or not) and explicit savepoints inside.
func genScript(r *lib.Rng) Script {
	title := func() string { return fmt.Sprintf("s'%d\"?;--", r.Intn(1000)) }
	op := func() Step {
		return Step{K: "op", Op: lib.Pick(r, []string{"create", "update", "delete", "find", "exec"}), ID: int64(r.Range(1, 2)), Title: title()}
	}
	var body func(depth int) []Step
	body = func(depth int) []Step {
		var out []Step
		saved := ""
		for i := r.Range(1, 3); i > 0; i-- {
			switch {
			case depth > 0 && r.Chance(1, 3):
				out = append(out, Step{K: "block", Fail: r.Chance(1, 3), Swallow: r.Bool(), Body: body(depth - 1)})
			case r.Chance(1, 5):
				saved = lib.Pick(r, []string{"c19a", "c19b"})
				out = append(out, Step{K: "save", Name: saved}, op())
			case saved != "" && r.Chance(1, 2):
				out = append(out, Step{K: "rollto", Name: saved})
			default:
				out = append(out, op())
			}
		}
		return out
	}
	sc := Script{Encl: r.Chance(1, 3)}
	if sc.Encl {
		sc.Steps = body(2) // the handle is inside a transaction already: every block is a nested one
		if depthOf(sc.Steps) == 0 {
			sc.Steps = append(sc.Steps, Step{K: "block", Fail: r.Chance(1, 3), Swallow: true, Body: body(1)})
		}
	} else {
		sc.Steps = []Step{{K: "block", Fail: r.Chance(1, 4), Swallow: r.Bool(), Body: body(2)}}
		if r.Chance(1, 3) {
			sc.Steps = append(sc.Steps, op())
		}
	}
	return sc
}

func main() {
	a := lib.ParseArgs()
	e := [2]env{openEnv(false), openEnv(true)}
	out := lib.NewOut(a.Out, "C19")
	out.PerFile = 200

	add := func(kind string, in Input) {
		o := runCase(e, in)
		k, fin, _ := classify(in)
		stmts := 0
		for _, ev := range o.Real.Log {
			if ev.K == "exec" || ev.K == "query" {
				stmts++
			}
		}
		out.Add(lib.Case{Term: term(in, o), JSON: map[string]interface{}{"input": in, "observed": o},
			Kind: kind, Shape: shape(in), Nontriv: stmts >= 1 && len(o.Dry.Vars) >= 1})
		out.Count("mode", in.Mode)
		out.Count("skip_default_transaction", fmt.Sprint(in.Skip))
		out.Count("options", fmt.Sprintf("noreturning=%v prepare=%v queryfields=%v ctx=%v global=%v failbegin=%v logger=%s", in.NoRet, in.Prep, in.QF, in.Ctx, in.Global, in.FailBegin, in.Log))
		out.Count("state_carried_by_handle", fmt.Sprint(in.Carry || (in.X != nil && strings.HasPrefix(in.X.K, "carry_"))))
		out.Count("operation", k+"/"+fin)
		out.Count("dry_driver_calls", fmt.Sprint(len(o.Dry.Log)))
		out.Count("real_statements", fmt.Sprint(stmts))
		if o.Dry.Err != "" {
			m := o.Dry.Err
			if len(m) > 40 {
				m = m[:40]
			}
			out.Count("dry_error", m)
		}
		if o.Real.Err != "" {
			m := o.Real.Err
			if len(m) > 30 {
				m = m[:30]
			}
			out.Count("real_error", m)
		}
		if in.Script != nil {
			out.Count("script", fmt.Sprintf("enclosed=%v depth=%d", in.Script.Encl, depthOf(in.Script.Steps)))
		} else if in.X != nil {
			out.Count("doc_operation", in.X.K)
		} else {
			out.Count("c01_finisher", in.C01.Fin.K)
		}
	}

	load := func(f string) Input {
		b, err := os.ReadFile(f)
		lib.Must(err)
		var c struct {
			Case struct {
				Input Input `json:"input"`
			} `json:"case"`
		}
		lib.Must(json.Unmarshal(b, &c))
		return c.Case.Input
	}
	if a.Replay != "" {
		add("replay", load(a.Replay))
		lib.Must(out.Flush())
		return
	}
	for _, f := range lib.CorpusFiles(a.Corpus) {
		add("corpus", load(f))
	}

	r := lib.NewRng(a.Seed)
	budget := 700
	if a.Tier == "thorough" {
		budget = 10000
	}
	if a.N > 0 {
		budget = a.N
	}
	xops := []string{"create", "update", "delete", "unscoped_delete", "find", "first", "rows", "save_existing", "save_missing", "save_new",
		"update_returning", "delete_returning", "unscoped_delete_returning", "carry_find", "carry_first", "carry_count", "carry_update",
		"batch_create", "batchsize_create", "update_nocond", "updates_nocond", "update_column_nocond", "delete_nocond", "unscoped_delete_nocond",
		"hook_create", "assoc_delete", "assoc_delete_all", "preload_keyed", "begin_create", "begin_update", "row", "raw_row_returning", "scan",
		"save_slice_preset", "save_struct_preset",
		"hook_update", "hook_delete", "assoc_delete_m2m", "parse_error", "first_nilptr", "exec_bad",
		"raw_find", "raw_first", "raw_take", "raw_last", "raw_pluck", "raw_count",
		"stamp_create", "stamp_create_slice", "stamp_create_map", "stamp_update", "stamp_updates_struct", "stamp_save",
		"guard_delete", "guard_delete_veto", "guard_update", "guard_update_veto", "guard_create", "guard_create_veto"}
	n := 0
	for i := 0; i < budget; i++ {
		in := Input{Mode: lib.Pick(r, []string{"config", "session", "tosql"}), Skip: r.Chance(1, 3)}
		in.NoRet = r.Chance(1, 4)
		in.Prep = r.Chance(1, 8)
		in.QF = r.Chance(1, 8)
		in.Ctx = r.Chance(1, 8)
		in.Log = lib.Pick(r, []string{"", "", "", "parameterized", "custom"})
		in.FailBegin = !in.Skip && in.Mode != "tosql" && r.Chance(1, 12)
		kind := "main"
		if r.Chance(1, 8) {
			// a transaction script on the dry handle: Transaction blocks (nested: savepoints), explicit
			// SavePoint / RollbackTo, operations in between
			if in.Mode == "tosql" {
				in.Mode = lib.Pick(r, []string{"config", "session"}) // Begin is a driver call of the caller's own
			}
			in.Prep, in.FailBegin = false, false
			sc := genScript(r)
			in.Script = &sc
			add("edge", in)
			continue
		}
		if r.Chance(2, 5) {
			n++
			k := xops[n%len(xops)]
			id := int64(r.Range(1, 2))
			switch k {
			case "save_missing":
				id = int64(r.Range(900, 999))
			case "save_new":
				id = 0
			}
			if strings.HasPrefix(k, "begin_") && in.Mode == "tosql" {
				in.Mode = lib.Pick(r, []string{"config", "session"}) // an explicit Begin is a driver call of the caller's own
			}
			if strings.HasSuffix(k, "_nocond") {
				in.Global = r.Bool() // with AllowGlobalUpdate the statement is sent
			}
			if strings.HasPrefix(k, "begin_") || strings.HasPrefix(k, "batch") {
				in.FailBegin = false // (for batches the model takes the number of batches from the statements sent)
			}
			if k == "exec_bad" {
				in.Prep = false
			}
			in.X = &XOp{K: k, ID: id, Title: fmt.Sprintf("t'%d\"?;--", r.Intn(1000))}
			kind = "edge"
		} else {
			g := cgen.NewGen(r.Fork())
			c := g.Input()
			c.NoExec = !g.Exec()
			switch c.Fin.K {
			case "update", "updates_map", "updates_struct", "update_column", "update_columns", "delete":
				if r.Chance(1, 6) && (c.Fin.K != "delete" || len(c.Fin.L) == 0) {
					c.Chain = nil // no condition: the real run refuses (ErrMissingWhereClause)
				}
			}
			in.C01 = &c
			in.Prep = false // generated SQL may be rejected at Prepare: no statement event to compare
			in.Carry = r.Chance(1, 3)
		}
		add(kind, in)
	}
	out.Extra["rule"] = "cases = operation x DryRun mode {Config.DryRun, Session{DryRun}, ToSQL} x SkipDefaultTransaction {false,true}; operation = a C01 chain+finisher on Item (Find/First/Take/Last/Count/Pluck, Update/Updates, Delete, Create from struct/slice/map/[]map incl. OnConflict, Exec, Raw+Scan) or an operation on Doc (soft delete, tracked update time, pinned NowFunc): Create, Update, soft Delete, Unscoped Delete, Find, First, Rows, Save of an existing / missing / new record, Update / soft Delete / Unscoped Delete with clause.Returning{}, Update / Updates / UpdateColumn / Delete without any condition (refused with ErrMissingWhereClause; also a sixth of the C01 update/delete chains lose their conditions), Find / First / Count / Update finishing a handle that already carries Model+Where+Order when DryRun or ToSQL is switched on (also a third of the C01 chains), statements derived through Session{NewDB} (an AfterCreate hook running Exec on its tx, Delete with Select(Pets) / Select(clause.Associations), Preload on a destination that already has its key), an operation inside Begin()...Rollback() on a dry handle, Row() on a chain and on Raw UPDATE ... RETURNING, raw SQL finished by Find / First / Take / Last / Pluck / Count, delete / update / create on a model whose Before* hooks add a condition, set a column or veto the operation, the string ToSQL returns compared with the explained exposed statement, Create (struct, slice, map) / Update / Updates / Save on a model whose tracked times are integers (seconds, autoUpdateTime:milli, autoCreateTime:nano), Scan on a chain, Save of a slice / of a struct whose tracked update time is already set (pinned clock; every bound value compared), CreateInBatches and Create with CreateBatchSize over more rows than the batch size; both runs start from the same re-seeded tables on identical SQLite handles behind the recording driver; statements SQLite rejects are kept (the real run then rolls back); distinct = distinct (mode, skip, operation skeleton); non-trivial = the real run sends at least one statement and the dry run exposes at least one bound value"
	lib.Must(out.Flush())
}
