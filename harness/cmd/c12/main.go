// c12: association mode keeps stored links, counts and the in-memory value in agreement.
// Runs generated histories of Append / Replace / Delete / Clear (scoped and Unscoped) on every
// relation kind, through db.Model(&owner) and db.Model(&owners), on REAL gorm + SQLite; after every
// operation it reads the foreign-key columns / join rows and the target table by raw SQL, calls
// Count() and Find(), and reads the in-memory relation fields.  Everything is written as Gallina
// terms for C12_Check.check_case.
package main

import (
	"database/sql"
	"encoding/json"
	"fmt"
	"os"
	"reflect"
	"sort"
	"strings"

	"gorm.io/gorm"

	"verifharness/gdb"
	"verifharness/lib"
)

// ---------------------------------------------------------------- models

type Own struct {
	ID       int64 `gorm:"primaryKey"`
	Name     string
	TargetID *int64
	Target   *Tgt    `gorm:"foreignKey:TargetID"`
	One      *One    `gorm:"foreignKey:OwnID"`
	Many     []Many  // by gorm's naming convention: Many.OwnID
	Notes    []*Note `gorm:"polymorphic:Owner;polymorphicValue:xp"`
	Badge    *Badge  `gorm:"polymorphic:Owner;polymorphicValue:xp"`
	Tags     []Tag   `gorm:"many2many:own_tags"`
	PTags    []*PTag `gorm:"many2many:own_ptags"`
	// relation fields held BY VALUE
	OneV      OneV `gorm:"foreignKey:OwnID"`
	TargetVID *int64
	TargetV   TgtV `gorm:"foreignKey:TargetVID"`
	// self-referential many2many, many2many with every key named, polymorphic with renamed columns
	Friends  []*Own    `gorm:"many2many:own_friends"`
	XTags    []XTag    `gorm:"many2many:own_xtags;foreignKey:ID;joinForeignKey:OwnerRef;references:ID;joinReferences:TagRef"`
	Stickers []Sticker `gorm:"polymorphic:Owner;polymorphicValue:xp;polymorphicType:Kind;polymorphicId:OID"`
	// targets with COMPOSITE STRING keys (parts contain the identity-key separator and escape character)
	CKids []CKid `gorm:"foreignKey:OwnID"`
	CTags []CTag `gorm:"many2many:own_ctags"`
	// has many / has one whose foreign key REFERENCES a non-primary field of the owner: the stored
	// link value is the owner's MemberNumber, never its ID (the two differ for every owner, and one
	// owner's MemberNumber equals another owner's ID)
	MemberNumber int64
	Cards        []Card `gorm:"foreignKey:OwnerNumber;references:MemberNumber"`
	Pass         *Pass  `gorm:"foreignKey:OwnerNumber;references:MemberNumber"`
}
type Card struct {
	ID          int64 `gorm:"primaryKey"`
	Name        string
	OwnerNumber *int64
}
type Pass struct {
	ID          int64 `gorm:"primaryKey"`
	Name        string
	OwnerNumber *int64
}
type CKid struct {
	A     string `gorm:"primaryKey"`
	B     string `gorm:"primaryKey"`
	Name  string
	OwnID *int64
}
type CTag struct {
	A    string `gorm:"primaryKey"`
	B    string `gorm:"primaryKey"`
	Name string
}
type OneV struct {
	ID    int64 `gorm:"primaryKey"`
	Name  string
	OwnID *int64
}
type TgtV struct {
	ID   int64 `gorm:"primaryKey"`
	Name string
}
type XTag struct {
	ID   uint `gorm:"primaryKey"`
	Name string
}
type Sticker struct {
	ID   int64 `gorm:"primaryKey"`
	Name string
	OID  *int64
	Kind string
}
type One struct {
	ID    int64 `gorm:"primaryKey"`
	Name  string
	OwnID *int64
}
type Many struct {
	ID    int64 `gorm:"primaryKey"`
	Name  string
	OwnID *int64
}
type Note struct {
	ID        int64 `gorm:"primaryKey"`
	Name      string
	OwnerID   *int64
	OwnerType string
}
type Badge struct {
	ID        int64 `gorm:"primaryKey"`
	Name      string
	OwnerID   *int64
	OwnerType string
}
type Tgt struct {
	ID   int64 `gorm:"primaryKey"`
	Name string
}
type Tag struct {
	ID   uint `gorm:"primaryKey"`
	Name string
}
type PTag struct {
	ID   int64 `gorm:"primaryKey"`
	Name string
}

// RelD: how a relation is stored and observed.
type RelD struct {
	Name   string // field on Own
	Kind   string // KHasOne KHasMany KBelongs KM2M
	Table  string // target (child) table
	FK     string // has-kinds: fk column on the child table; belongs: fk column on owns
	Poly   bool
	TypeC  string // polymorphic: type column ("" = owner_type)
	CK     bool   // the target's primary key is the composite string key (a, b); ids are mapped through ckKeys
	Ref    bool   // the fk column holds the owner's member_number (overridden reference), not its id
	JTable string
	JOwner string
	JTgt   string
	Elem   reflect.Type
	// has-kinds: the Go field of the target that holds the foreign key (always *int64), and for
	// polymorphic relations the field holding the owner type
	FKField   string
	TypeField string
}

var rels = map[string]RelD{
	"One":      {Name: "One", Kind: "KHasOne", Table: "ones", FK: "own_id", Elem: reflect.TypeOf(One{}), FKField: "OwnID"},
	"Many":     {Name: "Many", Kind: "KHasMany", Table: "manies", FK: "own_id", Elem: reflect.TypeOf(Many{}), FKField: "OwnID"},
	"Notes":    {Name: "Notes", Kind: "KHasMany", Table: "notes", FK: "owner_id", Poly: true, Elem: reflect.TypeOf(Note{}), FKField: "OwnerID", TypeField: "OwnerType"},
	"Badge":    {Name: "Badge", Kind: "KHasOne", Table: "badges", FK: "owner_id", Poly: true, Elem: reflect.TypeOf(Badge{}), FKField: "OwnerID", TypeField: "OwnerType"},
	"Target":   {Name: "Target", Kind: "KBelongs", Table: "tgts", FK: "target_id", Elem: reflect.TypeOf(Tgt{})},
	"Tags":     {Name: "Tags", Kind: "KM2M", Table: "tags", JTable: "own_tags", JOwner: "own_id", JTgt: "tag_id", Elem: reflect.TypeOf(Tag{})},
	"PTags":    {Name: "PTags", Kind: "KM2M", Table: "p_tags", JTable: "own_ptags", JOwner: "own_id", JTgt: "p_tag_id", Elem: reflect.TypeOf(PTag{})},
	"OneV":     {Name: "OneV", Kind: "KHasOne", Table: "one_vs", FK: "own_id", Elem: reflect.TypeOf(OneV{}), FKField: "OwnID"},
	"TargetV":  {Name: "TargetV", Kind: "KBelongs", Table: "tgt_vs", FK: "target_v_id", Elem: reflect.TypeOf(TgtV{})},
	"Friends":  {Name: "Friends", Kind: "KM2M", Table: "owns", JTable: "own_friends", JOwner: "own_id", JTgt: "friend_id", Elem: reflect.TypeOf(Own{})},
	"XTags":    {Name: "XTags", Kind: "KM2M", Table: "x_tags", JTable: "own_xtags", JOwner: "owner_ref", JTgt: "tag_ref", Elem: reflect.TypeOf(XTag{})},
	"CKids":    {Name: "CKids", Kind: "KHasMany", Table: "c_kids", FK: "own_id", CK: true, Elem: reflect.TypeOf(CKid{}), FKField: "OwnID"},
	"CTags":    {Name: "CTags", Kind: "KM2M", Table: "c_tags", JTable: "own_ctags", JOwner: "own_id", JTgt: "c_tag", CK: true, Elem: reflect.TypeOf(CTag{})},
	"Stickers": {Name: "Stickers", Kind: "KHasMany", Table: "stickers", FK: "o_id", Poly: true, TypeC: "kind", Elem: reflect.TypeOf(Sticker{}), FKField: "OID", TypeField: "Kind"},
	"Cards":    {Name: "Cards", Kind: "KHasMany", Table: "cards", FK: "owner_number", Ref: true, Elem: reflect.TypeOf(Card{}), FKField: "OwnerNumber"},
	"Pass":     {Name: "Pass", Kind: "KHasOne", Table: "passes", FK: "owner_number", Ref: true, Elem: reflect.TypeOf(Pass{}), FKField: "OwnerNumber"},
}
var relNames = []string{"One", "Many", "Notes", "Notes", "Badge", "Target", "Tags", "PTags", "OneV", "TargetV", "Friends", "XTags", "Stickers", "CKids", "CKids", "CTags", "CTags", "Cards", "Cards", "Pass"}

func (r RelD) typeCol() string {
	if r.TypeC != "" {
		return r.TypeC
	}
	return "owner_type"
}

// ckKeys: the composite string keys of the CK relations; record id = 11 + index.  Neighbouring keys
// differ only in where the identity-key separator '_' and the escape character '\' sit.
var ckKeys = [][2]string{
	{"a_b", "c"}, {"a", "b_c"}, {"a_", "b_c"}, {"a", "_b_c"}, {"a\\", "_b"}, {"a", "\\_b"},
	{"nil", "x"}, {"nil_x", "y"}, {"n", "il_x"}, {"x_y", "z_w"}, {"x", "y_z_w"}, {"x_y_z", "w"},
	{"p\\_q", "r"}, {"p", "q_r"}, {"p_q", "r"}, {"\\", "_"}, {"_", "\\"}, {"__", "_"}, {"_", "__"}, {"s", "t"},
	{"s_", "t"}, {"s", "_t"}, {"u\\_", "v"}, {"u", "_v"}, {"u_", "v"}, {"w", "x"}, {"w_x", "y"}, {"w", "x_y"}, {"m", "n"}, {"m_n", "o"},
}

func ckKey(id int64) (string, string) {
	if i := int(id - 11); i >= 0 && i < len(ckKeys) {
		return ckKeys[i][0], ckKeys[i][1]
	}
	return fmt.Sprint("id", id), fmt.Sprint("x", id)
}
func ckID(a, b string) int64 {
	for i, k := range ckKeys {
		if k[0] == a && k[1] == b {
			return int64(11 + i)
		}
	}
	var id int64
	if n, _ := fmt.Sscanf(a, "id%d", &id); n == 1 {
		return id
	}
	return 0
}

// ckCase: SQL expression giving the record id of the composite key held by columns ca, cb.
func ckCase(ca, cb string) string {
	var sb strings.Builder
	sb.WriteString("CASE " + ca + " || '|' || " + cb)
	for i, k := range ckKeys {
		fmt.Fprintf(&sb, " WHEN '%s|%s' THEN %d", k[0], k[1], 11+i)
	}
	sb.WriteString(" ELSE CAST(substr(" + ca + ", 3) AS INTEGER) END")
	return sb.String()
}

// idExpr / jtgtExpr: the SQL expressions standing for "the target's id" in the target table / join table.
func (r RelD) idExpr() string {
	if r.CK {
		return ckCase("a", "b")
	}
	return "id"
}
func (r RelD) jtgtExpr() string {
	if r.CK {
		return ckCase(r.JTgt+"_a", r.JTgt+"_b")
	}
	return r.JTgt
}

// primary keys are int64 or uint fields (or the composite string key of the CK relations)
func getID(v reflect.Value) int64 {
	if a := reflect.Indirect(v).FieldByName("A"); a.IsValid() {
		if a.String() == "" && reflect.Indirect(v).FieldByName("B").String() == "" {
			return 0
		}
		return ckID(a.String(), reflect.Indirect(v).FieldByName("B").String())
	}
	f := reflect.Indirect(v).FieldByName("ID")
	if f.Kind() == reflect.Uint {
		return int64(f.Uint())
	}
	return f.Int()
}
func setID(v reflect.Value, id int64) {
	if a := reflect.Indirect(v).FieldByName("A"); a.IsValid() {
		if id != 0 {
			ka, kb := ckKey(id)
			a.SetString(ka)
			reflect.Indirect(v).FieldByName("B").SetString(kb)
		}
		return
	}
	f := reflect.Indirect(v).FieldByName("ID")
	if f.Kind() == reflect.Uint {
		f.SetUint(uint64(id))
	} else {
		f.SetInt(id)
	}
}

const polyOther = 1000 // owner ids of rows with another owner_type are shifted by this

// ---------------------------------------------------------------- input

type OpIn struct {
	Op       string    `json:"op"` // append | replace | delete | clear
	Unscoped bool      `json:"unscoped,omitempty"`
	Vals     [][]int64 `json:"vals,omitempty"` // per owner: target ids, 0 = a new (unsaved) record
	Del      []int64   `json:"del,omitempty"`
	None     bool      `json:"none,omitempty"`     // the call is made with NO target at all: Append(), Replace(), Delete()
	SamePtr  bool      `json:"same_ptr,omitempty"` // a repeated existing target is THE SAME object (same pointer), not an equal copy
	Array    string    `json:"array,omitempty"`    // the targets are handed over as a Go ARRAY: "values" = &[N]T, "ptrs" = [N]*T
	Alias    bool      `json:"alias,omitempty"`    // delete: the argument IS the record held by the relation field of the first owner (&owners[0].Rel, owners[0].Rel, &owners[0].Rel[0])
	AsSlice  bool      `json:"as_slice,omitempty"` // struct handle / Delete: pass the targets as ONE slice argument
	// Append / Replace: what the foreign-key FIELD of each passed object holds in memory when the call is
	// made (same shape as Vals; has one / has many): 0 = unset (a fresh struct), -1 = the object is LOADED
	// from the database (db.First: it carries whatever key its row has), k > 0 = the key of owner k is
	// written into the field (k > 1000: owner k-1000 of another polymorphic owner type)
	FKMem [][]int64 `json:"fk_mem,omitempty"`
	// Append / Replace: arguments that ARE elements of the owner's own in-memory relation field (same
	// shape as Vals): p >= 0 = the element at position p (modulo the length of the field) of that owner's
	// field, -1 = an object of its own.  Used only when every owner concerned holds at least one
	// element at that moment; Vals is then overwritten by the ids found there.
	Refs    [][]int `json:"refs,omitempty"`
	RefMode string  `json:"ref_mode,omitempty"` // "elem": &owner.Rel[p] / the held pointer; "sub": the sub-slice owner.Rel[p:p+1]
	// output only: what the foreign-key field of each passed object held when the call was made
	FKBefore [][]int64 `json:"fk_before,omitempty"`
}

type Link struct {
	Owner  int64 `json:"owner"` // 0 = NULL
	Target int64 `json:"target"`
	Other  bool  `json:"other,omitempty"` // polymorphic: row of another owner type
}

type Input struct {
	Rel         string  `json:"rel"`
	Single      bool    `json:"single"`                 // db.Model(&owner) instead of db.Model(&owners)
	FullSave    bool    `json:"full_save,omitempty"`    // Session{FullSaveAssociations: true}: targets are upserted with ALL their columns
	OmitTargets bool    `json:"omit_targets,omitempty"` // Omit("Rel.*"): only links are written, the (existing) targets are not upserted
	SameHandle  bool    `json:"same_handle,omitempty"`  // ONE *Association (db.Model(..).Association(rel)) is kept and used for every operation, Count and Find of the history
	Owners      []int64 `json:"owners"`                 // handle
	Outside     []int64 `json:"outside"`                // other owner rows
	Targets     []int64 `json:"targets"`                // existing rows of the target table
	Links       []Link  `json:"links"`                  // existing links: of OUTSIDE owners and (preload) of owners of the handle (has-kinds: target's fk; belongs: owner's fk; m2m: join row)
	Preload     bool    `json:"preload,omitempty"`      // the owners of the handle START WITH links (listed in Links) and are loaded with Preload(rel): their in-memory fields hold the linked records
	Ops         []OpIn  `json:"ops"`
}

// ---------------------------------------------------------------- observation

type Snap struct {
	Links [][]int64  `json:"links"`
	Tgts  []int64    `json:"targets"`
	Count int64      `json:"count"`
	Find  []int64    `json:"find"`
	Mem   [][]int64  `json:"mem"`
	FKs   [][]int64  `json:"fks"` // per owner, per element held in memory: its foreign-key field as an owner id, 0 = unset / no such field
	Other [][2]int64 `json:"other"` // links of the same tables that do not belong to the handle
	Err   string     `json:"err,omitempty"`
}

type Env struct {
	db  *gorm.DB
	sql *sql.DB
	// member numbers of the current history: owner id -> member_number and back.  The owners, sorted,
	// are numbered cyclically: each owner's member number is the NEXT owner's id, the last one's is 77.
	ref, unref map[int64]int64
}

const strayRef = 5000 // a stored reference value that is no owner's member number reads as owner strayRef + value

func (e *Env) setRefs(owners []int64) {
	e.ref, e.unref = map[int64]int64{}, map[int64]int64{}
	os := sorted(owners)
	for i, o := range os {
		m := int64(77)
		if i+1 < len(os) {
			m = os[i+1]
		}
		e.ref[o], e.unref[m] = m, o
	}
}

// stored: the value the fk column holds for a link to owner o; ownerOf: the owner a stored value names.
func (e *Env) stored(r RelD, o int64) int64 {
	if !r.Ref {
		return o
	}
	if m, ok := e.ref[o]; ok {
		return m
	}
	return strayRef + o
}
func (e *Env) ownerOf(r RelD, v int64) int64 {
	if !r.Ref {
		return v
	}
	if o, ok := e.unref[v]; ok {
		return o
	}
	return strayRef + v
}

func (e *Env) ints(q string, args ...interface{}) []int64 {
	rows, err := e.sql.Query(q, args...)
	lib.Must(err)
	defer rows.Close()
	out := []int64{}
	for rows.Next() {
		var v sql.NullInt64
		lib.Must(rows.Scan(&v))
		if v.Valid {
			out = append(out, v.Int64)
		}
	}
	return out
}

type sortBy struct {
	n    int
	less func(a, b int) bool
	swap func(a, b int)
}

func (s sortBy) Len() int           { return s.n }
func (s sortBy) Less(a, b int) bool { return s.less(a, b) }
func (s sortBy) Swap(a, b int)      { s.swap(a, b) }

func sorted(xs []int64) []int64 {
	out := append([]int64{}, xs...)
	sort.Slice(out, func(i, j int) bool { return out[i] < out[j] })
	return out
}

func (e *Env) linksOf(r RelD, owner int64) []int64 {
	switch r.Kind {
	case "KBelongs":
		return sorted(e.ints("SELECT "+r.FK+" FROM owns WHERE id = ?", owner))
	case "KM2M":
		return sorted(e.ints("SELECT "+r.jtgtExpr()+" FROM "+r.JTable+" WHERE "+r.JOwner+" = ?", owner))
	}
	if r.Poly {
		return sorted(e.ints("SELECT "+r.idExpr()+" FROM "+r.Table+" WHERE "+r.FK+" = ? AND "+r.typeCol()+" = 'xp'", owner))
	}
	return sorted(e.ints("SELECT "+r.idExpr()+" FROM "+r.Table+" WHERE "+r.FK+" = ?", e.stored(r, owner)))
}

// othersOf reads, by raw SQL, every link of the relation's tables that does not belong to the handle:
// other owners and (polymorphic) rows of other owner types, whose owner ids are shifted by polyOther.
func (e *Env) othersOf(r RelD, handle []int64) [][2]int64 {
	in := func(o int64) bool {
		for _, h := range handle {
			if h == o {
				return true
			}
		}
		return false
	}
	out := [][2]int64{}
	switch r.Kind {
	case "KBelongs":
		rows, err := e.sql.Query("SELECT id, " + r.FK + " FROM owns WHERE " + r.FK + " IS NOT NULL ORDER BY id")
		lib.Must(err)
		defer rows.Close()
		for rows.Next() {
			var a, b int64
			lib.Must(rows.Scan(&a, &b))
			if !in(a) {
				out = append(out, [2]int64{a, b})
			}
		}
	case "KM2M":
		rows, err := e.sql.Query("SELECT " + r.JOwner + ", " + r.jtgtExpr() + " FROM " + r.JTable + " ORDER BY 1, 2")
		lib.Must(err)
		defer rows.Close()
		for rows.Next() {
			var a, b int64
			lib.Must(rows.Scan(&a, &b))
			if !in(a) {
				out = append(out, [2]int64{a, b})
			}
		}
	default:
		q := "SELECT " + r.idExpr() + ", " + r.FK + ", 'xp' FROM " + r.Table + " WHERE " + r.FK + " IS NOT NULL ORDER BY 1"
		if r.Poly {
			q = "SELECT id, " + r.FK + ", " + r.typeCol() + " FROM " + r.Table + " WHERE " + r.FK + " IS NOT NULL ORDER BY id"
		}
		rows, err := e.sql.Query(q)
		lib.Must(err)
		defer rows.Close()
		for rows.Next() {
			var id, o int64
			var ty string
			lib.Must(rows.Scan(&id, &o, &ty))
			o = e.ownerOf(r, o)
			if ty != "xp" {
				out = append(out, [2]int64{id, o + polyOther})
			} else if !in(o) {
				out = append(out, [2]int64{id, o})
			}
		}
	}
	return out
}

func fieldIDs(owner reflect.Value, name string) []int64 {
	fv := owner.FieldByName(name)
	out := []int64{}
	switch fv.Kind() {
	case reflect.Ptr:
		// Clear / Delete leave a pointer to a zero-value struct: no record
		if !fv.IsNil() && getID(fv) != 0 {
			out = append(out, getID(fv))
		}
	case reflect.Struct: // relation field held by value: a zero struct holds no record
		if getID(fv) != 0 {
			out = append(out, getID(fv))
		}
	case reflect.Slice:
		for i := 0; i < fv.Len(); i++ {
			out = append(out, getID(fv.Index(i)))
		}
	}
	return out
}

// fkOf: what the foreign-key field of a target object holds, as an owner id (0 = unset, or the
// relation kind keeps no key on the target); setFK writes the key of owner k into it.
func (e *Env) fkOf(r RelD, v reflect.Value) int64 {
	if r.FKField == "" {
		return 0
	}
	v = reflect.Indirect(v)
	f := v.FieldByName(r.FKField)
	if f.IsNil() {
		return 0
	}
	o := e.ownerOf(r, f.Elem().Int())
	if r.Poly && v.FieldByName(r.TypeField).String() != "xp" {
		o += polyOther
	}
	return o
}
func (e *Env) setFK(r RelD, v reflect.Value, k int64) {
	if r.FKField == "" {
		return
	}
	v = reflect.Indirect(v)
	ty := "xp"
	if r.Poly && k > polyOther {
		k, ty = k-polyOther, "other"
	}
	key := e.stored(r, k)
	v.FieldByName(r.FKField).Set(reflect.ValueOf(&key))
	if r.Poly {
		v.FieldByName(r.TypeField).SetString(ty)
	}
}

// load: the object is read from the database through gorm (db.First by primary key)
func (e *Env) load(r RelD, p reflect.Value, id int64) {
	tx := e.db.Session(&gorm.Session{NewDB: true})
	if r.CK {
		ka, kb := ckKey(id)
		tx.Where("a = ? AND b = ?", ka, kb).First(p.Interface())
		return
	}
	tx.First(p.Interface(), id)
}

func (e *Env) fieldFKs(r RelD, owner reflect.Value) []int64 {
	fv := owner.FieldByName(r.Name)
	out := []int64{}
	switch fv.Kind() {
	case reflect.Ptr:
		if !fv.IsNil() && getID(fv) != 0 {
			out = append(out, e.fkOf(r, fv))
		}
	case reflect.Struct:
		if getID(fv) != 0 {
			out = append(out, e.fkOf(r, fv))
		}
	case reflect.Slice:
		for i := 0; i < fv.Len(); i++ {
			out = append(out, e.fkOf(r, fv.Index(i)))
		}
	}
	return out
}

// ---------------------------------------------------------------- one history

type Result struct {
	Ops   []OpIn `json:"ops_executed"` // with assigned ids
	Snap0 Snap   `json:"snap0"`
	Snaps []Snap `json:"snaps"`
	Init  struct {
		Rows  [][2]int64 `json:"rows"` // (id, fk) fk 0 = NULL
		Joins [][2]int64 `json:"joins"`
		Tgt   []int64    `json:"tgt"`
	} `json:"init"`
}

func (e *Env) reset() {
	for _, t := range []string{"cards", "passes", "c_kids", "c_tags", "own_ctags", "one_vs", "tgt_vs", "x_tags", "stickers", "own_friends", "own_xtags", "owns", "ones", "manies", "notes", "badges", "tgts", "tags", "p_tags", "own_tags", "own_ptags"} {
		lib.Must(e.db.Exec("DELETE FROM " + t).Error)
	}
	e.db.Exec("DELETE FROM sqlite_sequence")
}

func (e *Env) run(in Input) Result {
	r := rels[in.Rel]
	e.reset()
	db := e.db
	e.setRefs(append(append([]int64{}, in.Owners...), in.Outside...))
	for _, o := range append(append([]int64{}, in.Owners...), in.Outside...) {
		lib.Must(db.Exec("INSERT INTO owns (id, name, member_number) VALUES (?, ?, ?)", o, fmt.Sprint("o", o), e.ref[o]).Error)
	}
	for _, t := range in.Targets {
		switch {
		case r.Poly:
			lib.Must(db.Exec("INSERT INTO "+r.Table+" (id, name, "+r.typeCol()+") VALUES (?, ?, 'xp')", t, fmt.Sprint("t", t)).Error)
		case r.CK:
			ka, kb := ckKey(t)
			lib.Must(db.Exec("INSERT INTO "+r.Table+" (a, b, name) VALUES (?, ?, ?)", ka, kb, fmt.Sprint("t", t)).Error)
		default:
			lib.Must(db.Exec("INSERT INTO "+r.Table+" (id, name) VALUES (?, ?)", t, fmt.Sprint("t", t)).Error)
		}
	}
	for _, l := range in.Links {
		switch r.Kind {
		case "KBelongs":
			lib.Must(db.Exec("UPDATE owns SET "+r.FK+" = ? WHERE id = ?", l.Target, l.Owner).Error)
		case "KM2M":
			if r.CK {
				ka, kb := ckKey(l.Target)
				lib.Must(db.Exec("INSERT INTO "+r.JTable+" ("+r.JOwner+", "+r.JTgt+"_a, "+r.JTgt+"_b) VALUES (?, ?, ?)", l.Owner, ka, kb).Error)
			} else {
				lib.Must(db.Exec("INSERT INTO "+r.JTable+" ("+r.JOwner+", "+r.JTgt+") VALUES (?, ?)", l.Owner, l.Target).Error)
			}
		default:
			if r.Poly && l.Other {
				lib.Must(db.Exec("UPDATE "+r.Table+" SET "+r.FK+" = ?, "+r.typeCol()+" = 'other' WHERE id = ?", l.Owner, l.Target).Error)
			} else {
				if r.CK {
					ka, kb := ckKey(l.Target)
					lib.Must(db.Exec("UPDATE "+r.Table+" SET "+r.FK+" = ? WHERE a = ? AND b = ?", l.Owner, ka, kb).Error)
				} else {
					lib.Must(db.Exec("UPDATE "+r.Table+" SET "+r.FK+" = ? WHERE id = ?", e.stored(r, l.Owner), l.Target).Error)
				}
			}
		}
	}
	var res Result
	// dump of the initial tables
	res.Init.Rows, res.Init.Joins, res.Init.Tgt = [][2]int64{}, [][2]int64{}, []int64{}
	switch r.Kind {
	case "KBelongs":
		rows, err := e.sql.Query("SELECT id, " + r.FK + " FROM owns ORDER BY id")
		lib.Must(err)
		for rows.Next() {
			var id int64
			var fk sql.NullInt64
			lib.Must(rows.Scan(&id, &fk))
			res.Init.Rows = append(res.Init.Rows, [2]int64{id, fk.Int64})
		}
		rows.Close()
		res.Init.Tgt = e.ints("SELECT " + r.idExpr() + " FROM " + r.Table + " ORDER BY 1")
	case "KM2M":
		rows, err := e.sql.Query("SELECT " + r.JOwner + ", " + r.jtgtExpr() + " FROM " + r.JTable + " ORDER BY rowid")
		lib.Must(err)
		for rows.Next() {
			var a, b int64
			lib.Must(rows.Scan(&a, &b))
			res.Init.Joins = append(res.Init.Joins, [2]int64{a, b})
		}
		rows.Close()
		res.Init.Tgt = e.ints("SELECT " + r.idExpr() + " FROM " + r.Table + " ORDER BY 1")
	default:
		q := "SELECT " + r.idExpr() + ", " + r.FK + ", '' FROM " + r.Table + " ORDER BY 1"
		if r.Poly {
			q = "SELECT id, " + r.FK + ", " + r.typeCol() + " FROM " + r.Table + " ORDER BY id"
		}
		rows, err := e.sql.Query(q)
		lib.Must(err)
		for rows.Next() {
			var id int64
			var fk sql.NullInt64
			var ty string
			lib.Must(rows.Scan(&id, &fk, &ty))
			f := fk.Int64
			if fk.Valid {
				f = e.ownerOf(r, f)
			}
			if fk.Valid && r.Poly && ty != "xp" {
				f += polyOther
			}
			res.Init.Rows = append(res.Init.Rows, [2]int64{id, f})
		}
		rows.Close()
	}

	// the handle: owner objects that receive every operation
	owners := make([]Own, len(in.Owners))
	for i, o := range in.Owners {
		if in.Preload {
			lib.Must(db.Preload(r.Name).First(&owners[i], o).Error)
			// (the preloaded records are put in the order of their ids: the input-only signature of the
			// known many2many shape resolves references into the field by position)
			if fv := reflect.ValueOf(&owners[i]).Elem().FieldByName(r.Name); fv.Kind() == reflect.Slice {
				sw := reflect.Swapper(fv.Interface())
				sort.Sort(sortBy{fv.Len(), func(a, b int) bool { return getID(fv.Index(a)) < getID(fv.Index(b)) }, sw})
			}
		} else {
			lib.Must(db.First(&owners[i], o).Error)
		}
	}
	model := func() interface{} {
		if in.Single {
			return &owners[0]
		}
		return &owners
	}
	// fresh-handle mode: every call goes through its own db.Model(..).Association(rel);
	// same-handle mode: one handle is created once and reused, as users who keep the handle do
	var kept *gorm.Association
	base := db
	if in.FullSave {
		base = db.Session(&gorm.Session{FullSaveAssociations: true})
	}
	if in.OmitTargets {
		base = base.Omit(r.Name + ".*")
	}
	handle := func() *gorm.Association {
		if !in.SameHandle {
			return base.Model(model()).Association(r.Name)
		}
		if kept == nil {
			kept = base.Model(model()).Association(r.Name)
		}
		return kept
	}
	snap := func(err error) Snap {
		var s Snap
		all := []int64{}
		for i, o := range in.Owners {
			l := e.linksOf(r, o)
			s.Links = append(s.Links, l)
			all = append(all, l...)
			s.Mem = append(s.Mem, fieldIDs(reflect.ValueOf(owners[i]), r.Name))
			s.FKs = append(s.FKs, e.fieldFKs(r, reflect.ValueOf(owners[i])))
		}
		s.Tgts = e.ints("SELECT " + r.idExpr() + " FROM " + r.Table + " ORDER BY 1")
		s.Other = e.othersOf(r, in.Owners)
		s.Count = handle().Count()
		out := reflect.New(reflect.SliceOf(r.Elem))
		ferr := handle().Find(out.Interface())
		s.Find = []int64{}
		for i := 0; i < out.Elem().Len(); i++ {
			s.Find = append(s.Find, getID(out.Elem().Index(i)))
		}
		s.Find = sorted(s.Find)
		if err != nil {
			s.Err = err.Error()
		} else if ferr != nil {
			s.Err = "find: " + ferr.Error()
		}
		return s
	}
	res.Snap0 = snap(nil)

	var created []int64
	freshCK := int64(19)
	for _, op0 := range in.Ops {
		op := op0
		op.Del = append([]int64{}, op0.Del...)
		if op0.Refs != nil {
			op.Refs = make([][]int, len(op0.Refs))
			for i := range op0.Refs {
				op.Refs[i] = append([]int{}, op0.Refs[i]...)
			}
		}
		op.FKBefore = nil
		assoc := handle()
		if op.Unscoped {
			assoc = assoc.Unscoped()
		}
		// build the argument objects
		single := r.Kind == "KHasOne" || r.Kind == "KBelongs"
		type item struct {
			obj      reflect.Value // pointer to the target object (for a reference: pointer to / held pointer of the field's element)
			ref      int           // >= 0: the argument IS the element at this position of the owner's own relation field
			idBefore int64
		}
		var items [][]item
		fieldOf := func(oi int) reflect.Value {
			return reflect.ValueOf(&owners[oi]).Elem().FieldByName(r.Name)
		}
		// held(oi, p): pointer to the p-th element the owner's field holds (invalid when there is none)
		heldLen := func(oi int) int {
			fv := fieldOf(oi)
			switch fv.Kind() {
			case reflect.Slice:
				return fv.Len()
			case reflect.Ptr:
				if !fv.IsNil() && getID(fv) != 0 {
					return 1
				}
			case reflect.Struct:
				if getID(fv) != 0 {
					return 1
				}
			}
			return 0
		}
		held := func(oi, p int) reflect.Value {
			fv := fieldOf(oi)
			switch fv.Kind() {
			case reflect.Slice:
				el := fv.Index(p)
				if el.Kind() != reflect.Ptr {
					el = el.Addr()
				}
				return el
			case reflect.Struct:
				return fv.Addr()
			}
			return fv
		}
		// references into the owners' own fields are used only when every owner concerned holds something
		useRefs := op.Refs != nil && (op.Op == "append" || op.Op == "replace") && !op.None
		if useRefs {
			anyRef := false
			for oi, refs := range op.Refs {
				for _, p := range refs {
					if p >= 0 {
						anyRef = true
						if oi >= len(owners) || heldLen(oi) == 0 {
							useRefs = false
						}
					}
				}
			}
			useRefs = useRefs && anyRef
		}
		if !useRefs {
			op.Refs, op.RefMode = nil, ""
		} else {
			op.Array = ""
		}
		mkArgs := func() []interface{} {
			var args []interface{}
			for vi, v := range op.Vals {
				sl := reflect.MakeSlice(reflect.SliceOf(reflect.PtrTo(r.Elem)), 0, len(v))
				var os []item
				same := map[int64]reflect.Value{}
				for ti, id := range v {
					if useRefs && vi < len(op.Refs) && ti < len(op.Refs[vi]) && op.Refs[vi][ti] >= 0 {
						pos := op.Refs[vi][ti] % heldLen(vi)
						op.Refs[vi][ti] = pos
						h := held(vi, pos)
						os = append(os, item{obj: h, ref: pos, idBefore: getID(h)})
						sl = reflect.Append(sl, h)
						continue
					}
					p, ok := same[id]
					if !ok || !op.SamePtr || id == 0 {
						p = reflect.New(r.Elem)
						if id == 0 && r.CK { // composite string keys are never generated by the database
							freshCK++
							setID(p, freshCK)
						}
						setID(p, id)
						p.Elem().FieldByName("Name").SetString(fmt.Sprint("v", id))
						if vi < len(op.FKMem) && ti < len(op.FKMem[vi]) {
							switch k := op.FKMem[vi][ti]; {
							case k == -1 && id != 0:
								e.load(r, p, id)
							case k > 0:
								e.setFK(r, p, k)
							}
						}
						same[id] = p
					}
					sl = reflect.Append(sl, p)
					os = append(os, item{obj: p, ref: -1})
				}
				if op.Array != "" && len(os) > 0 {
					// a Go array as the argument: &[N]T (value elements) or [N]*T (pointer elements)
					if op.Array == "values" || single {
						arr := reflect.New(reflect.ArrayOf(len(os), r.Elem)).Elem()
						for i := range os {
							arr.Index(i).Set(os[i].obj.Elem())
							os[i].obj = arr.Index(i).Addr() // ids of new records are written back here
						}
						args = append(args, arr.Addr().Interface())
					} else {
						arr := reflect.New(reflect.ArrayOf(len(os), reflect.PtrTo(r.Elem))).Elem()
						for i := range os {
							arr.Index(i).Set(os[i].obj)
						}
						args = append(args, arr.Interface())
					}
					items = append(items, os)
					continue
				}
				items = append(items, os)
				sub := func(it item) interface{} { // the one-element sub-slice owner.Rel[p:p+1]
					return fieldOf(vi).Slice(it.ref, it.ref+1).Interface()
				}
				switch {
				case single:
					if len(os) == 1 && !op.AsSlice {
						args = append(args, os[0].obj.Interface())
					} else {
						args = append(args, sl.Interface())
					}
				case in.Single && (!op.AsSlice || (useRefs && op.RefMode == "sub")):
					for _, o := range os {
						if o.ref >= 0 && op.RefMode == "sub" {
							args = append(args, sub(o))
						} else {
							args = append(args, o.obj.Interface())
						}
					}
				case len(os) == 1 && os[0].ref >= 0 && op.RefMode == "sub":
					args = append(args, sub(os[0]))
				default:
					args = append(args, sl.Interface())
				}
			}
			// what the key fields hold when the call is made
			for _, os := range items {
				fks := []int64{}
				for _, o := range os {
					fks = append(fks, e.fkOf(r, o.obj))
				}
				op.FKBefore = append(op.FKBefore, fks)
			}
			return args
		}
		var err error
		switch op.Op {
		case "append":
			if op.None {
				err = assoc.Append()
			} else {
				err = assoc.Append(mkArgs()...)
			}
		case "replace":
			if op.None {
				err = assoc.Replace()
			} else {
				err = assoc.Replace(mkArgs()...)
			}
		case "delete":
			var args []interface{}
			sameDel := map[int64]reflect.Value{}
			delSlice := reflect.MakeSlice(reflect.SliceOf(reflect.PtrTo(r.Elem)), 0, len(op.Del))
			for di, id := range op.Del {
				if id < 0 { // the k-th record created earlier in this history
					if k := int(-id) - 1; k < len(created) {
						id = created[k]
					} else {
						id = 90
					}
					op.Del[di] = id
				}
				p, ok := sameDel[id]
				if !ok || !op.SamePtr {
					p = reflect.New(r.Elem)
					setID(p, id)
					sameDel[id] = p
				}
				delSlice = reflect.Append(delSlice, p)
				args = append(args, p.Interface())
			}
			if op.AsSlice && len(args) > 0 {
				args = []interface{}{delSlice.Interface()}
			}
			if op.Array != "" && delSlice.Len() > 0 {
				n := delSlice.Len()
				if op.Array == "values" {
					arr := reflect.New(reflect.ArrayOf(n, r.Elem)).Elem()
					for i := 0; i < n; i++ {
						arr.Index(i).Set(delSlice.Index(i).Elem())
					}
					args = []interface{}{arr.Addr().Interface()}
				} else {
					arr := reflect.New(reflect.ArrayOf(n, reflect.PtrTo(r.Elem))).Elem()
					for i := 0; i < n; i++ {
						arr.Index(i).Set(delSlice.Index(i))
					}
					args = []interface{}{arr.Interface()}
				}
			}
			if op.Alias {
				// the named target IS the record the first owner holds in its relation field
				fv := reflect.ValueOf(&owners[0]).Elem().FieldByName(r.Name)
				var held reflect.Value
				switch fv.Kind() {
				case reflect.Struct:
					held = fv.Addr()
				case reflect.Ptr:
					held = fv
				case reflect.Slice:
					if fv.Len() > 0 {
						held = fv.Index(0)
						if held.Kind() != reflect.Ptr {
							held = held.Addr()
						}
					}
				}
				if held.IsValid() && !(held.Kind() == reflect.Ptr && held.IsNil()) && getID(held) != 0 {
					op.Del = []int64{getID(held)}
					args = []interface{}{held.Interface()}
				}
			}
			err = assoc.Delete(args...)
		case "clear":
			err = assoc.Clear()
		}
		ex := OpIn{Op: op.Op, Unscoped: op.Unscoped, Del: op.Del, None: op.None, SamePtr: op.SamePtr, AsSlice: op.AsSlice, Array: op.Array, Alias: op.Alias,
			Refs: op.Refs, RefMode: op.RefMode, FKBefore: op.FKBefore}
		for vi, os := range items {
			ids := []int64{}
			for oi, o := range os {
				id := o.idBefore
				if o.ref < 0 {
					id = getID(o.obj)
				}
				ids = append(ids, id)
				if o.ref < 0 && op.Vals[vi][oi] == 0 && id != 0 {
					created = append(created, id)
				}
			}
			ex.Vals = append(ex.Vals, ids)
		}
		res.Ops = append(res.Ops, ex)
		res.Snaps = append(res.Snaps, snap(err))
	}
	return res
}

// ---------------------------------------------------------------- Gallina

func gLists(xs [][]int64) string { return lib.ListOf(xs, lib.ZList) }
func gSnap(s Snap) string {
	e := int64(0)
	if s.Err != "" {
		e = 1
	}
	other := lib.ListOf(s.Other, func(p [2]int64) string { return lib.Pair(lib.Z(p[0]), lib.Z(p[1])) })
	return lib.App("mk_snap", gLists(s.Links), lib.ZList(s.Tgts), lib.Z(s.Count), lib.ZList(s.Find), gLists(s.Mem),
		lib.ListOf(s.FKs, func(l []int64) string { return lib.ListOf(l, gOptZ) }), other, lib.Z(e))
}
func gOptZ(v int64) string {
	if v == 0 {
		return "None"
	}
	return "(Some " + lib.Z(v) + ")"
}

// gArgs: the objects passed, per owner: AObj id (key its field held), or ARef position
func gArgs(o OpIn) string {
	var per []string
	for vi, v := range o.Vals {
		var as []string
		for ti, id := range v {
			if vi < len(o.Refs) && ti < len(o.Refs[vi]) && o.Refs[vi][ti] >= 0 {
				as = append(as, "ARef "+lib.Nat(o.Refs[vi][ti]))
				continue
			}
			fk := int64(0)
			if vi < len(o.FKBefore) && ti < len(o.FKBefore[vi]) {
				fk = o.FKBefore[vi][ti]
			}
			as = append(as, "AObj "+lib.Z(id)+" "+gOptZ(fk))
		}
		per = append(per, lib.List(as))
	}
	return lib.List(per)
}
func gOp(o OpIn) string {
	var t string
	switch o.Op {
	case "append":
		t = lib.App("EAppend", gArgs(o))
		if o.None {
			t = "EAppendNone"
		}
	case "replace":
		t = lib.App("EReplace", gArgs(o))
		if o.None { // Clear() IS Replace()
			t = "EClear"
		}
	case "delete":
		t = lib.App("EDelete", lib.ZList(o.Del))
	default:
		t = "EClear"
	}
	return lib.Pair(lib.Bool(o.Unscoped), t)
}
func gOptPairs(xs [][2]int64) string {
	return lib.ListOf(xs, func(p [2]int64) string {
		if p[1] == 0 {
			return lib.Pair(lib.Z(p[0]), "None")
		}
		return lib.Pair(lib.Z(p[0]), "(Some "+lib.Z(p[1])+")")
	})
}
func term(in Input, res Result) string {
	r := rels[in.Rel]
	// the in-memory fields as loaded (empty, or the preloaded links): (id, key field) per element
	mem := make([]string, len(in.Owners))
	for i := range mem {
		var es []string
		for j, id := range res.Snap0.Mem[i] {
			es = append(es, lib.Pair(lib.Z(id), gOptZ(res.Snap0.FKs[i][j])))
		}
		mem[i] = lib.List(es)
	}
	init := lib.App("mk_est", gOptPairs(res.Init.Rows),
		lib.ListOf(res.Init.Joins, func(p [2]int64) string { return lib.Pair(lib.Z(p[0]), lib.Z(p[1])) }),
		lib.ZList(res.Init.Tgt), lib.List(mem))
	return lib.App("mk_case", r.Kind, lib.ZList(in.Owners), init, lib.ListOf(res.Ops, gOp), gSnap(res.Snap0), lib.ListOf(res.Snaps, gSnap))
}

// ---------------------------------------------------------------- generation

func genInput(r *lib.Rng, maxOps int, edge bool) Input {
	in := Input{Rel: lib.Pick(r, relNames)}
	rel := rels[in.Rel]
	in.Single = r.Chance(1, 2)
	n := 1
	if !in.Single {
		n = r.Range(1, 3)
	}
	for i := 0; i < n; i++ {
		in.Owners = append(in.Owners, int64(1+i))
	}
	for i := 0; i < r.Range(0, 2); i++ {
		in.Outside = append(in.Outside, int64(7+i))
	}
	nt := r.Range(2, 6)
	for i := 0; i < nt; i++ {
		in.Targets = append(in.Targets, int64(11+i))
	}
	// existing links of outside owners
	for _, o := range in.Outside {
		switch rel.Kind {
		case "KBelongs":
			if r.Chance(2, 3) {
				in.Links = append(in.Links, Link{Owner: o, Target: lib.Pick(r, in.Targets)})
			}
		default:
			for _, t := range in.Targets {
				if r.Chance(1, 4) {
					in.Links = append(in.Links, Link{Owner: o, Target: t})
				}
			}
		}
	}
	if rel.Poly {
		// rows of another owner type carrying the same owner ids
		// (they may be given to an owner of the handle: the save must move owner_id AND owner_type;
		// and they may be named in a Delete of THIS relation, which must not touch them)
		for _, t := range in.Targets {
			if r.Chance(1, 3) {
				in.Links = append(in.Links, Link{Owner: lib.Pick(r, in.Owners), Target: t, Other: true})
			}
		}
	}
	// one history in three: the owners of the handle START WITH links and are loaded with Preload(rel)
	if r.Chance(1, 3) {
		in.Preload = true
		usedOne := map[int64]bool{}
		for oi, o := range in.Owners {
			switch rel.Kind {
			case "KBelongs":
				if r.Chance(2, 3) {
					t := lib.Pick(r, in.Targets)
					if oi > 0 && r.Chance(1, 2) && len(in.Links) > 0 && in.Links[len(in.Links)-1].Owner == in.Owners[oi-1] {
						t = in.Links[len(in.Links)-1].Target // shared with the previous owner
					}
					in.Links = append(in.Links, Link{Owner: o, Target: t})
				}
			case "KHasOne":
				if t := lib.Pick(r, in.Targets); r.Chance(2, 3) && !usedOne[t] {
					usedOne[t] = true
					in.Links = append(in.Links, Link{Owner: o, Target: t})
				}
			case "KHasMany":
				for _, t := range in.Targets {
					if r.Chance(1, 3) && !usedOne[t] {
						usedOne[t] = true
						in.Links = append(in.Links, Link{Owner: o, Target: t})
					}
				}
			default:
				for _, t := range in.Targets {
					if r.Chance(1, 3) {
						in.Links = append(in.Links, Link{Owner: o, Target: t})
					}
				}
			}
		}
		if rel.Kind == "KHasOne" || rel.Kind == "KHasMany" {
			// the links given to the handle win over an outside owner's link to the same target
			var ls []Link
			for _, l := range in.Links {
				if !(usedOne[l.Target] && !containsI(in.Owners, l.Owner)) {
					ls = append(ls, l)
				}
			}
			in.Links = ls
		}
	}
	// has-kinds: a target has one fk: keep the last link per target
	if rel.Kind == "KHasOne" || rel.Kind == "KHasMany" {
		seen := map[int64]bool{}
		var ls []Link
		for i := len(in.Links) - 1; i >= 0; i-- {
			if !seen[in.Links[i].Target] {
				seen[in.Links[i].Target] = true
				ls = append([]Link{in.Links[i]}, ls...)
			}
		}
		in.Links = ls
	}
	// targets already given to some owner of the handle during this history (has-kinds: a target is
	// never given to two different owners of the handle - DESIGN 8.0 / props.d domain)
	given := map[int64]int{}
	if rel.Kind == "KHasOne" || rel.Kind == "KHasMany" {
		for _, l := range in.Links {
			for oi, o := range in.Owners {
				if l.Owner == o && !l.Other {
					given[l.Target] = oi
				}
			}
		}
	}
	pickFor := func(owner int, used map[int64]bool) int64 {
		for tries := 0; tries < 20; tries++ {
			var t int64
			if r.Chance(1, 4) {
				return 0 // new record
			}
			t = lib.Pick(r, in.Targets)
			if rel.Kind == "KHasOne" || rel.Kind == "KHasMany" {
				if g, ok := given[t]; ok && g != owner {
					continue
				}
			}
			if used != nil && used[t] && !r.Chance(1, 3) {
				continue
			}
			return t
		}
		return 0
	}
	nops := r.Range(1, maxOps)
	singleValued := rel.Kind == "KHasOne" || rel.Kind == "KBelongs"
	for i := 0; i < nops; i++ {
		op := OpIn{Unscoped: r.Chance(1, 5)}
		switch x := r.Intn(100); {
		case x < 38:
			op.Op = "append"
		case x < 62:
			op.Op = "replace"
		case x < 88:
			op.Op = "delete"
		default:
			op.Op = "clear"
		}
		// every operation also with NO target at all: Append() (no change), Replace() (= Clear),
		// Delete() (no change).  Not generated: Append() on a slice handle of a has-many / many2many
		// relation, which gorm rejects by design (the number of value arguments must equal the
		// number of owners: ErrInvalidValueOfLength).
		if op.Op != "clear" && r.Chance(1, 8) && !(op.Op == "append" && !in.Single && !singleValued) {
			op.None = true
			in.Ops = append(in.Ops, op)
			continue
		}
		switch op.Op {
		case "append", "replace":
			for oi := range in.Owners {
				k := 1
				if !singleValued {
					k = r.Range(1, 3)
					if (!in.Single && r.Chance(1, 5)) || (in.Single && r.Chance(1, 10)) {
						k = 0 // an explicitly EMPTY slice argument: Append(&[]T{}) changes nothing, Replace(&[]T{}) clears
					}
				}
				v := []int64{}
				used := map[int64]bool{}
				for j := 0; j < k; j++ {
					t := pickFor(oi, used)
					// belongs to / many2many: several owners of the handle often SHARE a target
					if (rel.Kind == "KBelongs" || rel.Kind == "KM2M") && oi > 0 && j < len(op.Vals[oi-1]) && op.Vals[oi-1][j] != 0 && r.Chance(1, 2) {
						t = op.Vals[oi-1][j]
					}
					if t != 0 {
						given[t] = oi
						used[t] = true
					}
					v = append(v, t)
				}
				// a target repeated INSIDE the list and followed by further targets
				if !singleValued && len(v) >= 2 && v[0] != 0 && r.Chance(1, 4) {
					v = append([]int64{v[0]}, v...)
				}
				op.Vals = append(op.Vals, v)
			}
			op.SamePtr, op.AsSlice = r.Bool(), r.Bool()
			if in.Single && len(op.Vals[0]) == 0 {
				op.AsSlice = true // (variadic with no element would be the call without arguments)
			}
			if r.Chance(1, 5) {
				op.Array = lib.Pick(r, []string{"values", "ptrs"})
			}
			// what the foreign-key field of a passed object holds in memory: unset, loaded from the
			// database, or some owner's key written into it (an owner of the handle, an outside owner,
			// nobody's key; polymorphic: also an owner of the other type)
			if r.Chance(1, 2) {
				keys := append(append([]int64{99}, in.Owners...), in.Outside...)
				for _, v := range op.Vals {
					fks := make([]int64, len(v))
					for j := range v {
						switch x := r.Intn(10); {
						case x < 3:
							fks[j] = -1
						case x < 7 && rel.FKField != "":
							fks[j] = lib.Pick(r, keys)
							if rel.Poly && r.Chance(1, 4) {
								fks[j] += polyOther
							}
						}
					}
					op.FKMem = append(op.FKMem, fks)
				}
			}
			// arguments that ARE elements of the owner's own relation field, in any order
			if (i > 0 || in.Preload) && r.Chance(1, 4) {
				op.RefMode = lib.Pick(r, []string{"elem", "sub"})
				desc := r.Bool()
				for _, v := range op.Vals {
					refs := make([]int, len(v))
					for j := range v {
						refs[j] = -1
						if singleValued {
							refs[j] = 0
						} else if r.Chance(3, 4) {
							refs[j] = r.Intn(4)
							if desc {
								refs[j] = len(v) - 1 - j
							}
						}
					}
					op.Refs = append(op.Refs, refs)
				}
			}
		case "delete":
			k := r.Range(1, 3)
			if edge && r.Chance(1, 4) {
				k = 0
			}
			for j := 0; j < k; j++ {
				op.Del = append(op.Del, lib.Pick(r, append(append([]int64{}, in.Targets...), 90, -1, -2)))
			}
			if len(op.Del) >= 2 && r.Chance(1, 3) {
				op.Del = append([]int64{op.Del[0]}, op.Del...)
			}
			op.SamePtr, op.AsSlice = r.Bool(), r.Bool()
			switch x := r.Intn(10); {
			case x < 2:
				op.Array = lib.Pick(r, []string{"values", "ptrs"})
			case x < 4:
				op.Alias = true // name the record the first owner holds (when it holds one)
			}
		}
		in.Ops = append(in.Ops, op)
	}
	return in
}

// the new records of a history get fresh ids; for the "never given to two owners" rule they are
// tracked after execution only (they are unreachable for later picks, which use existing targets).

func shapeOf(in Input) string {
	var sb strings.Builder
	fmt.Fprintf(&sb, "%s|full=%v|same=%v|single=%v|o%d|out%d|t%d|l%d|", in.Rel+fmt.Sprint("|omit=", in.OmitTargets), in.FullSave, in.SameHandle, in.Single, len(in.Owners), len(in.Outside), len(in.Targets), len(in.Links))
	for _, o := range in.Ops {
		u := ""
		if o.Unscoped {
			u = "U"
		}
		n := len(o.Del)
		for _, v := range o.Vals {
			n += len(v)
		}
		fmt.Fprintf(&sb, "%s%s%d,", u, o.Op[:1], n)
	}
	return sb.String()
}

// sig: known-finding signature, computed from the INPUT only by replaying the history on the
// finite-set reading of the property (never on gorm): the first operation that meets the exact
// trigger condition of the one known defect names the case (three more, belongs-to Unscoped
// Delete / Clear / Replace, were fixed in /repo: d23ce2a, 75c7076, 5e2c10c; their inputs are ordinary now).
func sig(in Input) string {
	// (a kept and reused *Association handle was a finding until /repo 0e58756; same-handle
	// histories are ordinary inputs now)
	return sigOther(in)
}

// sigOther: the known shapes that do not depend on how the handle is obtained.
func sigOther(in Input) string {
	rel := rels[in.Rel]
	if rel.Kind != "KM2M" {
		return ""
	}
	sets := make([]map[int64]bool, len(in.Owners))
	for i := range sets {
		sets[i] = map[int64]bool{}
	}
	fresh := int64(-1000)
	var created []int64
	// the ordered in-memory field of every owner (what an alias Delete / a reference argument names);
	// preloaded links come in the order of the target ids
	mems := make([][]int64, len(in.Owners))
	if in.Preload {
		for i, o := range in.Owners {
			for _, l := range in.Links {
				if l.Owner == o && !l.Other && !containsI(mems[i], l.Target) {
					mems[i] = append(mems[i], l.Target)
					sets[i][l.Target] = true
				}
			}
			mems[i] = sorted(mems[i])
		}
	}
	for _, op := range in.Ops {
		useRefs := op.Refs != nil && (op.Op == "append" || op.Op == "replace") && !op.None
		if useRefs {
			anyRef := false
			for oi, refs := range op.Refs {
				for _, p := range refs {
					if p >= 0 {
						anyRef = true
						if oi >= len(mems) || len(mems[oi]) == 0 {
							useRefs = false
						}
					}
				}
			}
			useRefs = useRefs && anyRef
		}
		any := false
		for _, s := range sets {
			any = any || len(s) > 0
		}
		vals := make([][]int64, len(op.Vals))
		for i, v := range op.Vals {
			for j, t := range v {
				if useRefs && i < len(op.Refs) && j < len(op.Refs[i]) && op.Refs[i][j] >= 0 {
					vals[i] = append(vals[i], mems[i][op.Refs[i][j]%len(mems[i])])
					continue
				}
				if t == 0 {
					fresh--
					t = fresh
					created = append(created, t)
				}
				vals[i] = append(vals[i], t)
			}
		}
		var del []int64
		for _, t := range op.Del {
			if t < 0 {
				if k := int(-t) - 1; k < len(created) {
					t = created[k]
				} else {
					t = 90
				}
			}
			del = append(del, t)
		}
		if op.Op == "delete" && op.Alias && len(mems[0]) > 0 {
			del = []int64{mems[0][0]} // the argument is the record the first owner holds first
		}
		if op.None {
			if op.Op == "replace" { // Replace() = Clear
				for i := range sets {
					sets[i] = map[int64]bool{}
					mems[i] = nil
				}
			}
			continue
		}
		for i := range mems {
			switch op.Op {
			case "append":
				mems[i] = append(append([]int64{}, mems[i]...), vals[i]...)
			case "replace":
				mems[i] = append([]int64{}, vals[i]...)
			case "clear":
				mems[i] = nil
			case "delete":
				var kept []int64
				for _, t := range mems[i] {
					if !containsI(del, t) {
						kept = append(kept, t)
					}
				}
				mems[i] = kept
			}
		}
		if rel.Kind == "KM2M" && op.Op == "replace" && len(in.Owners) > 1 {
			for i, s := range sets {
				for t := range s {
					if containsI(vals[i], t) {
						continue
					}
					for j := range vals {
						if j != i && containsI(vals[j], t) {
							return "many2many-slice-replace-keeps-links"
						}
					}
				}
			}
		}
		// the finite-set reading
		for i := range sets {
			switch op.Op {
			case "append":
				if rel.Kind == "KBelongs" {
					sets[i] = map[int64]bool{}
					if n := len(vals[i]); n > 0 {
						sets[i][vals[i][n-1]] = true
					}
				} else {
					for _, t := range vals[i] {
						sets[i][t] = true
					}
				}
			case "replace":
				sets[i] = map[int64]bool{}
				if rel.Kind == "KBelongs" {
					if n := len(vals[i]); n > 0 {
						sets[i][vals[i][n-1]] = true
					}
				} else {
					for _, t := range vals[i] {
						sets[i][t] = true
					}
				}
			case "delete":
				for _, t := range del {
					delete(sets[i], t)
				}
			case "clear":
				sets[i] = map[int64]bool{}
			}
		}
	}
	return ""
}

func containsI(xs []int64, x int64) bool {
	for _, y := range xs {
		if x == y {
			return true
		}
	}
	return false
}

// targetedInputs: a small deterministic stream run in EVERY tier.  For every relation, on a struct handle
// and on slice handles of two and three owners (kept or fresh association handle): targets are linked
// (shared between the owners where the relation kind allows it), then named for Delete through the record
// the first owner holds in its own relation field (alias), as a Go array, as a slice and variadically,
// scoped and Unscoped; then linked again and replaced by arrays.
func targetedInputs() []Input {
	var out []Input
	names := []string{"One", "Many", "Notes", "Badge", "Target", "Tags", "PTags", "OneV", "TargetV", "Friends", "XTags", "Stickers", "CKids", "CTags", "Cards", "Pass"}
	for _, rn := range names {
		rel := rels[rn]
		shared := rel.Kind == "KBelongs" || rel.Kind == "KM2M"
		single := rel.Kind == "KHasOne" || rel.Kind == "KBelongs"
		for n := 1; n <= 3; n++ {
			for _, same := range []bool{false, true} {
				in := Input{Rel: rn, Single: n == 1, SameHandle: same, Targets: []int64{11, 12, 13, 14}}
				for i := 0; i < n; i++ {
					in.Owners = append(in.Owners, int64(1+i))
				}
				vals := func(base int64) [][]int64 {
					var vs [][]int64
					for i := 0; i < n; i++ {
						t := base
						if !shared {
							t = base + int64(i)
						}
						if single {
							vs = append(vs, []int64{t})
						} else {
							vs = append(vs, []int64{t, 14})
							if !shared {
								vs[i] = []int64{t}
							}
						}
					}
					return vs
				}
				in.Ops = []OpIn{
					{Op: "append", Vals: vals(11)},
					{Op: "delete", Alias: true},
					{Op: "append", Vals: vals(11), Array: "values"},
					{Op: "delete", Del: []int64{11, 12}, Array: "ptrs"},
					{Op: "replace", Vals: vals(11), Array: "ptrs"},
					{Op: "delete", Alias: true, Unscoped: true},
					{Op: "replace", Vals: vals(12), Array: "values"},
					{Op: "delete", Del: []int64{12, 13}, Array: "values", Unscoped: true},
				}
				out = append(out, in)
			}
		}
	}
	// arguments taken from the owner's OWN relation field, in reversed / rotated order, as element
	// pointers and as sub-slices (multi-valued kinds; owners that hold three records each, appended or
	// preloaded); and has-kind targets whose in-memory foreign key names somebody else (loaded from the
	// database while linked to an outside owner, or the key written into the object)
	for _, rn := range []string{"Many", "Notes", "Stickers", "CKids", "Cards", "Tags", "PTags", "Friends", "XTags", "CTags"} {
		rel := rels[rn]
		for n := 1; n <= 2; n++ {
			for _, mode := range []string{"elem", "sub"} {
				for _, pre := range []bool{false, true} {
					in := Input{Rel: rn, Single: n == 1, Targets: []int64{11, 12, 13, 14, 15, 16, 17, 18}, Preload: pre}
					var first, rot, rev, one [][]int64
					var rrot, rrev, rone [][]int
					for i := 0; i < n; i++ {
						in.Owners = append(in.Owners, int64(1+i))
						b := int64(11 + 3*i)
						first = append(first, []int64{b, b + 1, b + 2})
						rot, rrot = append(rot, []int64{b, b, b}), append(rrot, []int{1, 2, 0})
						rev, rrev = append(rev, []int64{b, b}), append(rrev, []int{2, 0})
						one, rone = append(one, []int64{b, 17 + int64(i)}), append(rone, []int{1, -1})
						if pre {
							for _, t := range first[i] {
								in.Links = append(in.Links, Link{Owner: int64(1 + i), Target: t})
							}
						}
					}
					if !pre {
						in.Ops = append(in.Ops, OpIn{Op: "append", Vals: first})
					}
					in.Ops = append(in.Ops,
						OpIn{Op: "replace", Vals: rot, Refs: rrot, RefMode: mode},
						OpIn{Op: "replace", Vals: rev, Refs: rrev, RefMode: mode},
						OpIn{Op: "append", Vals: one, Refs: rone, RefMode: mode},
						OpIn{Op: "replace", Vals: rev, Refs: rrev, RefMode: mode, Unscoped: true},
					)
					if rel.Kind == "KM2M" && n > 1 {
						// (a slice Replace that drops a target another owner keeps is the known shape: stop before it)
						in.Ops = in.Ops[:len(in.Ops)-1]
					}
					out = append(out, in)
				}
			}
		}
	}
	for _, rn := range []string{"One", "Many", "Notes", "Badge", "OneV", "Stickers", "CKids", "Cards", "Pass"} {
		rel := rels[rn]
		single := rel.Kind == "KHasOne"
		for n := 1; n <= 2; n++ {
			in := Input{Rel: rn, Single: n == 1, Outside: []int64{7, 8}, Targets: []int64{11, 12, 13, 14, 15, 16},
				Links: []Link{{Owner: 7, Target: 11}, {Owner: 7, Target: 12}, {Owner: 8, Target: 13}, {Owner: 8, Target: 14}}}
			var a, b, c [][]int64
			var fa, fb, fc [][]int64
			for i := 0; i < n; i++ {
				in.Owners = append(in.Owners, int64(1+i))
				t := int64(11 + 2*i)
				a, fa = append(a, []int64{t}), append(fa, []int64{-1}) // loaded while linked to an outside owner
				b, fb = append(b, []int64{t + 1}), append(fb, []int64{8 - int64(i)})
				if single {
					c, fc = append(c, []int64{0}), append(fc, []int64{7})
				} else {
					c, fc = append(c, []int64{0, 15 + int64(i)}), append(fc, []int64{7, 99})
				}
			}
			in.Ops = []OpIn{
				{Op: "append", Vals: a, FKMem: fa},
				{Op: "append", Vals: b, FKMem: fb},
				{Op: "replace", Vals: c, FKMem: fc},
				{Op: "replace", Vals: a, FKMem: fa, Unscoped: true},
			}
			out = append(out, in)
		}
	}
	return out
}

func readInput(path string) Input {
	b, err := os.ReadFile(path)
	lib.Must(err)
	var c struct {
		Case struct {
			Input Input `json:"input"`
		} `json:"case"`
	}
	lib.Must(json.Unmarshal(b, &c))
	return c.Case.Input
}

func main() {
	a := lib.ParseArgs()
	db, _, sqlDB, err := gdb.Open(gdb.Opt{})
	lib.Must(err)
	lib.Must(db.AutoMigrate(&Tgt{}, &Tag{}, &PTag{}, &TgtV{}, &XTag{}, &Own{}, &One{}, &Many{}, &Note{}, &Badge{}, &OneV{}, &Sticker{}, &CTag{}, &CKid{}, &Card{}, &Pass{}))
	env := &Env{db: db, sql: sqlDB}
	out := lib.NewOut(a.Out, "C12")
	out.PerFile = 200

	add := func(kind string, in Input) {
		res := env.run(in)
		changed := 0
		for i := range res.Snaps {
			prev := res.Snap0
			if i > 0 {
				prev = res.Snaps[i-1]
			}
			if fmt.Sprint(prev.Links) != fmt.Sprint(res.Snaps[i].Links) {
				changed++
			}
		}
		out.Add(lib.Case{Term: term(in, res), JSON: map[string]interface{}{"input": in, "observed": res},
			Sig: sig(in), Kind: kind, Shape: shapeOf(in), Nontriv: changed >= 2})
		out.Count("relation", in.Rel)
		out.Count("owners_start", map[bool]string{true: "with links, preloaded", false: "without links"}[in.Preload])
		out.Count("kind", rels[in.Rel].Kind)
		out.Count("handle", map[bool]string{true: "struct", false: fmt.Sprint("slice", len(in.Owners))}[in.Single])
		out.Count("ops", fmt.Sprint(len(in.Ops)))
		out.Count("link_changes", fmt.Sprint(changed))
		for _, o := range in.Ops {
			u := ""
			if o.Unscoped {
				u = "unscoped "
			}
			out.Count("op", u+o.Op)
			if o.Op == "append" || o.Op == "replace" {
				fk, ref := "unset", "objects of their own"
				for _, l := range o.FKMem {
					for _, k := range l {
						if k == -1 && fk == "unset" {
							fk = "loaded from the database"
						} else if k > 0 {
							fk = "another key written into the object"
						}
					}
				}
				if o.Refs != nil {
					ref = "elements of the owner's own field (" + o.RefMode + ")"
				}
				out.Count("passed_object_key", fk)
				out.Count("argument_alias", ref)
			}
		}
		nerr := 0
		for _, s := range res.Snaps {
			if s.Err != "" {
				nerr++
			}
		}
		out.Count("errors", fmt.Sprint(nerr))
	}

	if a.Replay != "" {
		add("replay", readInput(a.Replay))
		lib.Must(out.Flush())
		return
	}
	for _, f := range lib.CorpusFiles(a.Corpus) {
		add("corpus", readInput(f))
	}
	for _, in := range targetedInputs() {
		add("targeted", in)
	}
	r := lib.NewRng(a.Seed)
	budget, maxOps := 600, 8
	if a.Tier == "thorough" {
		budget, maxOps = 8000, 12
	}
	if a.N > 0 {
		budget = a.N
	}
	for i := 0; i < budget; i++ {
		edge := r.Chance(15, 100)
		known := r.Chance(5, 100)        // a small stream that is NOT filtered: known shapes stay visible
		same := !known && r.Chance(1, 5) // one *Association kept for the whole history
		var in Input
		for tries := 0; ; tries++ {
			in = genInput(r, maxOps, edge)
			if known || sigOther(in) == "" || tries > 200 {
				break
			}
			out.Count("regenerated_known_shape", sigOther(in))
		}
		in.SameHandle = same
		in.FullSave = r.Chance(1, 6)
		if rels[in.Rel].Kind == "KM2M" && !in.FullSave && r.Chance(1, 5) {
			// Omit("Rel.*"): the targets themselves are not saved, so only existing records are passed
			in.OmitTargets = true
			for oi := range in.Ops {
				for vi := range in.Ops[oi].Vals {
					for ti, t := range in.Ops[oi].Vals[vi] {
						if t == 0 {
							in.Ops[oi].Vals[vi][ti] = lib.Pick(r, in.Targets)
						}
					}
				}
			}
		}
		kind := "main"
		if edge {
			kind = "edge"
		}
		if known {
			kind = "known-shapes"
		}
		if same {
			kind = "same-handle"
		}
		out.Count("handle_lifetime", map[bool]string{true: "one handle reused", false: "fresh handle per call"}[same])
		out.Count("known_shape", sig(in))
		add(kind, in)
	}
	out.Extra["rule"] = "cases = histories of 1..8 (thorough 12) operations Append/Replace/Delete/Clear, each scoped or Unscoped, on one relation of kind {has one (pointer field / field by value), has many (by tags / by naming convention), polymorphic has many and polymorphic has one (next to rows of ANOTHER owner type that carry the same owner ids, and that may be moved into the relation or named in its Delete), belongs to, belongs to by value, many2many with struct elements / pointer elements / every key named by tags / self-referential, polymorphic with renamed type and id columns, has many / many2many whose TARGETS have composite string keys that differ only in where the identity-key separator and escape character sit, has many / has one whose foreign key references a NON-primary owner field (member number != id; one owner's member number is another owner's id)}, optionally with Session{FullSaveAssociations: true}, through db.Model(&owner) or db.Model(&owners) (a fresh *Association per call, or - one history in five - ONE handle kept and reused for every operation, Count and Find) with 1..3 owners that start without links or - one history in three - WITH links, loaded with Preload(rel), next to 0..2 outside owners with existing links; every operation also with no target at all (Append(), Replace(), Delete()); targets are new records, existing unlinked rows, rows linked to the same owner, rows linked to outside owners, and duplicates (equal copies or THE SAME object repeated inside a slice argument and followed by further targets; variadic, one slice argument, or a Go array &[N]T / [N]*T; Delete may name the very record held by the first owner's relation field; Append / Replace arguments may BE elements of the owner's own in-memory relation field - &owner.Rel[p], the held pointer, the sub-slice owner.Rel[p:p+1] - in any order, mixed with objects of their own); the foreign-key FIELD of a passed has-one / has-many object holds nothing, or what its row holds (the object is loaded with db.First), or the key of an owner of the handle / an outside owner / nobody / an owner of the other polymorphic type; Count(), Find(), raw foreign keys / join rows of the handle AND of every other owner / owner type, the target table, the in-memory fields and the foreign-key field of every element they hold are read after every operation; domain: for has one / has many / polymorphic a target is never given to two different owners of one handle; distinct = distinct (relation, handle, table sizes, operation sequence with sizes) shapes; non-trivial = the stored links change at least twice"
	lib.Must(out.Flush())
}
