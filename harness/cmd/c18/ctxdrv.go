package main

// ctxdrv: a thin database/sql driver layer put in FRONT of the recording driver by this harness. For
// every call that carries a context (BeginTx, PrepareContext, conn / stmt ExecContext and QueryContext)
// it notes whether the context the driver is handed IS the caller's as far as cancellation goes: the
// Done channel must be the very channel of the context the harness bound the handle to (a context that
// only keeps the values - context.WithoutCancel, a re-derived context - has another or no Done channel).
// The notes line up one to one with the recorder's begin / prepare / exec / query events.

import (
	"context"
	"database/sql/driver"
	"sync"

	"verifharness/recdrv"
)

type ctxNote struct {
	kind     string
	sameDone bool // ctx.Done() is the Done channel registered for the tag the context carries
	doneNil  bool
}

type ctxLog struct {
	mu    sync.Mutex
	notes []ctxNote
	done  map[string]<-chan struct{} // tag -> Done channel of the caller's context
}

func (l *ctxLog) reset() {
	l.mu.Lock()
	l.notes = nil
	l.mu.Unlock()
}

func (l *ctxLog) register(tag string, ch <-chan struct{}) {
	l.mu.Lock()
	if l.done == nil {
		l.done = map[string]<-chan struct{}{}
	}
	l.done[tag] = ch
	l.mu.Unlock()
}

func (l *ctxLog) note(kind string, ctx context.Context) {
	n := ctxNote{kind: kind}
	if ctx != nil {
		n.doneNil = ctx.Done() == nil
		if t, ok := ctx.Value(recdrv.TagKey).(string); ok {
			l.mu.Lock()
			want, known := l.done[t]
			l.mu.Unlock()
			n.sameDone = known && ctx.Done() == want
		}
	}
	l.mu.Lock()
	l.notes = append(l.notes, n)
	l.mu.Unlock()
}

func (l *ctxLog) snapshot() []ctxNote {
	l.mu.Lock()
	defer l.mu.Unlock()
	return append([]ctxNote(nil), l.notes...)
}

type ctxConnector struct {
	inner driver.Connector
	log   *ctxLog
}

func (c ctxConnector) Connect(ctx context.Context) (driver.Conn, error) {
	in, err := c.inner.Connect(ctx)
	if err != nil {
		return nil, err
	}
	return &ctxConn{in: in, log: c.log}, nil
}
func (c ctxConnector) Driver() driver.Driver { return c.inner.Driver() }

type ctxConn struct {
	in  driver.Conn
	log *ctxLog
}

func (c *ctxConn) Prepare(q string) (driver.Stmt, error) {
	return c.PrepareContext(context.Background(), q)
}
func (c *ctxConn) Close() error { return c.in.Close() }
func (c *ctxConn) Begin() (driver.Tx, error) {
	return c.BeginTx(context.Background(), driver.TxOptions{})
}
func (c *ctxConn) Ping(ctx context.Context) error {
	if p, ok := c.in.(driver.Pinger); ok {
		return p.Ping(ctx)
	}
	return nil
}
func (c *ctxConn) ResetSession(ctx context.Context) error {
	if p, ok := c.in.(driver.SessionResetter); ok {
		return p.ResetSession(ctx)
	}
	return nil
}
func (c *ctxConn) BeginTx(ctx context.Context, o driver.TxOptions) (driver.Tx, error) {
	c.log.note("begin", ctx)
	return c.in.(driver.ConnBeginTx).BeginTx(ctx, o)
}
func (c *ctxConn) PrepareContext(ctx context.Context, q string) (driver.Stmt, error) {
	c.log.note("prepare", ctx)
	s, err := c.in.(driver.ConnPrepareContext).PrepareContext(ctx, q)
	if err != nil {
		return nil, err
	}
	return &ctxStmt{in: s, log: c.log}, nil
}
func (c *ctxConn) ExecContext(ctx context.Context, q string, a []driver.NamedValue) (driver.Result, error) {
	c.log.note("exec", ctx)
	return c.in.(driver.ExecerContext).ExecContext(ctx, q, a)
}
func (c *ctxConn) QueryContext(ctx context.Context, q string, a []driver.NamedValue) (driver.Rows, error) {
	c.log.note("query", ctx)
	return c.in.(driver.QueryerContext).QueryContext(ctx, q, a)
}

type ctxStmt struct {
	in  driver.Stmt
	log *ctxLog
}

func (s *ctxStmt) Close() error  { return s.in.Close() }
func (s *ctxStmt) NumInput() int { return s.in.NumInput() }
func (s *ctxStmt) Exec(a []driver.Value) (driver.Result, error) {
	return s.in.Exec(a) //nolint: the context forms below are the ones database/sql uses
}
func (s *ctxStmt) Query(a []driver.Value) (driver.Rows, error) { return s.in.Query(a) }
func (s *ctxStmt) ExecContext(ctx context.Context, a []driver.NamedValue) (driver.Result, error) {
	s.log.note("exec", ctx)
	return s.in.(driver.StmtExecContext).ExecContext(ctx, a)
}
func (s *ctxStmt) QueryContext(ctx context.Context, a []driver.NamedValue) (driver.Rows, error) {
	s.log.note("query", ctx)
	return s.in.(driver.StmtQueryContext).QueryContext(ctx, a)
}
