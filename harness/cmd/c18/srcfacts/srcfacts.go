// Package srcfacts extracts, with go/parser from the CURRENT gorm source, the syntactic facts C18
// relies on: every driver call site (ExecContext / QueryContext / QueryRowContext / PrepareContext /
// BeginTx / StmtContext / Conn) with the form of its context argument, every Session{...} and
// Statement{...} composite literal with the form of its Context field, and whether getInstance /
// Statement.clone / Session copy the context.  Used by harness/facts (FactsOK_C18) and by the c18
// harness (which embeds the literals of each derivation path, as they are in the source, in every case).
package srcfacts

import (
	"fmt"
	"go/ast"
	"go/parser"
	"go/printer"
	"go/token"
	"os"
	"path/filepath"
	"sort"
	"strings"
)

// Forms of a context expression.
const (
	Absent     = "absent"     // field not set
	StmtCtx    = "stmt_ctx"   // <x>.Statement.Context or stmt.Context: the context of the statement at hand
	Param      = "param"      // a parameter of the enclosing function of type context.Context
	CfgCtx     = "cfg_ctx"    // config.Context inside Session(): the context the caller put in the literal
	Background = "background" // context.Background() / context.TODO()
	Unknown    = "unknown"
)

type CallSite struct {
	File   string `json:"file"`
	Func   string `json:"func"`
	Line   int    `json:"line"`
	Method string `json:"method"`
	Recv   string `json:"recv"`
	Form   string `json:"form"`
	Text   string `json:"text"`
}

type Lit struct {
	Kind    string   `json:"kind"` // Session | Statement
	File    string   `json:"file"`
	Func    string   `json:"func"`
	Ord     int      `json:"ord"` // ordinal of the literal of this kind inside Func
	Line    int      `json:"line"`
	Fields  []string `json:"fields"`
	CtxForm string   `json:"ctx_form"`
	CtxText string   `json:"ctx_text"`
	NewDB   string   `json:"new_db"` // "" | true | false | expr
	Init    bool     `json:"initialized"`
}

// Own: the literal sets PrepareStmt or SkipHooks, so Session gives the derived handle its own Statement.
func (l Lit) Own() bool {
	for _, f := range l.Fields {
		if f == "PrepareStmt" || f == "SkipHooks" {
			return true
		}
	}
	return false
}

func (l Lit) Key() string { return fmt.Sprintf("%s:%s#%d", l.File, l.Func, l.Ord) }

// FreshCtx is a place where the source manufactures a context instead of using the one at hand.
type FreshCtx struct {
	File  string `json:"file"`
	Func  string `json:"func"`
	Line  int    `json:"line"`
	Call  string `json:"call"`  // context.Background | context.TODO | context.WithValue | ...
	Usage string `json:"usage"` // logger (argument of a Logger.Info/Warn/Error/Trace call) | open_root (Open's root Statement) | other
}

type Facts struct {
	Sites                []CallSite `json:"sites"`
	Lits                 []Lit      `json:"literals"`
	GetInstanceCopies    bool       `json:"getinstance_copies_ctx"`   // gorm.go getInstance: new Statement{Context: db.Statement.Context}
	CloneCopies          bool       `json:"clone_copies_ctx"`         // statement.go clone: Context: stmt.Context
	SessionAssignsCfg    bool       `json:"session_assigns_cfg_ctx"`  // gorm.go Session: tx.Statement.Context = config.Context under config.Context != nil
	SessionOtherCtxWrite []string   `json:"session_other_ctx_writes"` // any other assignment to a .Context inside the scanned code
	Fresh                []FreshCtx `json:"fresh_contexts"`           // every context.<X>(...) call of the scanned code
	Rebinds              []string   `json:"internal_rebinds"`         // every <x>.WithContext(...) call of the scanned code (gorm never rebinds a handle itself)
}

var methods = map[string]bool{"ExecContext": true, "QueryContext": true, "QueryRowContext": true,
	"PrepareContext": true, "BeginTx": true, "StmtContext": true, "Conn": true}

func text(fset *token.FileSet, n ast.Node) string {
	var sb strings.Builder
	printer.Fprint(&sb, fset, n)
	return sb.String()
}

func ctxParams(fd *ast.FuncDecl) map[string]bool {
	out := map[string]bool{}
	if fd == nil || fd.Type.Params == nil {
		return out
	}
	for _, f := range fd.Type.Params.List {
		if se, ok := f.Type.(*ast.SelectorExpr); ok {
			if x, ok := se.X.(*ast.Ident); ok && x.Name == "context" && se.Sel.Name == "Context" {
				for _, n := range f.Names {
					out[n.Name] = true
				}
			}
		}
	}
	return out
}

func form(e ast.Expr, params map[string]bool) string {
	switch x := e.(type) {
	case *ast.SelectorExpr:
		if x.Sel.Name == "Context" {
			if in, ok := x.X.(*ast.SelectorExpr); ok && in.Sel.Name == "Statement" {
				return StmtCtx
			}
			if id, ok := x.X.(*ast.Ident); ok {
				if id.Name == "stmt" {
					return StmtCtx
				}
				if id.Name == "config" {
					return CfgCtx
				}
			}
		}
	case *ast.Ident:
		if params[x.Name] {
			return Param
		}
	case *ast.CallExpr:
		if se, ok := x.Fun.(*ast.SelectorExpr); ok {
			if id, ok := se.X.(*ast.Ident); ok && id.Name == "context" && (se.Sel.Name == "Background" || se.Sel.Name == "TODO") {
				return Background
			}
		}
	}
	return Unknown
}

func litKind(t ast.Expr) string {
	switch x := t.(type) {
	case *ast.Ident:
		if x.Name == "Session" || x.Name == "Statement" {
			return x.Name
		}
	case *ast.SelectorExpr:
		if id, ok := x.X.(*ast.Ident); ok && id.Name == "gorm" && (x.Sel.Name == "Session" || x.Sel.Name == "Statement") {
			return x.Sel.Name
		}
	}
	return ""
}

// Extract scans the non-test Go files of the root package, callbacks/ and migrator/.
func Extract(repo string) (Facts, error) {
	var fa Facts
	fset := token.NewFileSet()
	var files []string
	for _, dir := range []string{"", "callbacks", "migrator"} {
		m, _ := filepath.Glob(filepath.Join(repo, dir, "*.go"))
		sort.Strings(m)
		for _, f := range m {
			if !strings.HasSuffix(f, "_test.go") {
				files = append(files, f)
			}
		}
	}
	if len(files) == 0 {
		return fa, fmt.Errorf("no Go files under %s", repo)
	}
	for _, path := range files {
		src, err := os.ReadFile(path)
		if err != nil {
			return fa, err
		}
		f, err := parser.ParseFile(fset, path, src, 0)
		if err != nil {
			return fa, err
		}
		rel, _ := filepath.Rel(repo, path)
		for _, d := range f.Decls {
			fd, ok := d.(*ast.FuncDecl)
			if !ok || fd.Body == nil {
				continue
			}
			fname := fd.Name.Name
			if fd.Recv != nil && len(fd.Recv.List) == 1 {
				rt := text(fset, fd.Recv.List[0].Type)
				fname = strings.TrimPrefix(rt, "*") + "." + fname
			}
			params := ctxParams(fd)
			ord := map[string]int{}
			usage := map[ast.Node]string{}
			isCtxCall := func(e ast.Expr) (string, bool) {
				c, ok := e.(*ast.CallExpr)
				if !ok {
					return "", false
				}
				se, ok := c.Fun.(*ast.SelectorExpr)
				if !ok {
					return "", false
				}
				if id, ok := se.X.(*ast.Ident); ok && id.Name == "context" {
					return "context." + se.Sel.Name, true
				}
				return "", false
			}
			ast.Inspect(fd.Body, func(n ast.Node) bool {
				switch x := n.(type) {
				case *ast.FuncLit:
					// closures may have their own context parameters
					for k := range ctxParams(&ast.FuncDecl{Type: x.Type}) {
						params[k] = true
					}
				case *ast.CallExpr:
					if name, ok := isCtxCall(x); ok {
						u := usage[x]
						if u == "" {
							u = "other"
						}
						fa.Fresh = append(fa.Fresh, FreshCtx{File: rel, Func: fname, Line: fset.Position(x.Pos()).Line, Call: name, Usage: u})
						return true
					}
					if se0, ok := x.Fun.(*ast.SelectorExpr); ok {
						if se0.Sel.Name == "WithContext" {
							fa.Rebinds = append(fa.Rebinds, fmt.Sprintf("%s:%s:%d: %s", rel, fname, fset.Position(x.Pos()).Line, text(fset, x)))
						}
						// the context handed to a logger call is not a driver context
						switch se0.Sel.Name {
						case "Info", "Warn", "Error", "Trace":
							if strings.HasSuffix(text(fset, se0.X), "Logger") && len(x.Args) > 0 {
								if _, ok := isCtxCall(x.Args[0]); ok {
									usage[x.Args[0]] = "logger"
								}
							}
						}
					}
					se, ok := x.Fun.(*ast.SelectorExpr)
					if !ok || !methods[se.Sel.Name] || len(x.Args) == 0 {
						return true
					}
					if se.Sel.Name == "Conn" && len(x.Args) != 1 {
						return true
					}
					fa.Sites = append(fa.Sites, CallSite{File: rel, Func: fname, Line: fset.Position(x.Pos()).Line,
						Method: se.Sel.Name, Recv: text(fset, se.X), Form: form(x.Args[0], params), Text: text(fset, x.Args[0])})
				case *ast.CompositeLit:
					k := litKind(x.Type)
					if k == "" {
						return true
					}
					l := Lit{Kind: k, File: rel, Func: fname, Ord: ord[k], Line: fset.Position(x.Pos()).Line, CtxForm: Absent, Fields: []string{}}
					ord[k]++
					for _, el := range x.Elts {
						kv, ok := el.(*ast.KeyValueExpr)
						if !ok {
							l.Fields = append(l.Fields, "?positional")
							l.CtxForm = Unknown
							continue
						}
						key := text(fset, kv.Key)
						l.Fields = append(l.Fields, key)
						switch key {
						case "Context":
							l.CtxForm = form(kv.Value, params)
							l.CtxText = text(fset, kv.Value)
							if k == "Statement" && rel == "gorm.go" && fname == "Open" {
								if _, ok := isCtxCall(kv.Value); ok {
									usage[kv.Value] = "open_root"
								}
							}
						case "NewDB":
							v := text(fset, kv.Value)
							if v != "true" && v != "false" {
								v = "expr"
							}
							l.NewDB = v
						case "Initialized":
							l.Init = text(fset, kv.Value) == "true"
						}
					}
					fa.Lits = append(fa.Lits, l)
				case *ast.AssignStmt:
					// writes to a Context field
					for i, lhs := range x.Lhs {
						se, ok := lhs.(*ast.SelectorExpr)
						if !ok || se.Sel.Name != "Context" || i >= len(x.Rhs) {
							continue
						}
						w := fmt.Sprintf("%s:%s: %s = %s", rel, fname, text(fset, lhs), text(fset, x.Rhs[i]))
						if rel == "gorm.go" && fname == "DB.Session" && text(fset, lhs) == "tx.Statement.Context" && text(fset, x.Rhs[i]) == "config.Context" {
							fa.SessionAssignsCfg = true
						} else {
							fa.SessionOtherCtxWrite = append(fa.SessionOtherCtxWrite, w)
						}
					}
				}
				return true
			})
		}
	}
	for _, l := range fa.Lits {
		if l.Kind == "Statement" && l.File == "gorm.go" && l.Func == "DB.getInstance" && l.CtxForm == StmtCtx {
			fa.GetInstanceCopies = true
		}
		if l.Kind == "Statement" && l.File == "statement.go" && l.Func == "Statement.clone" && l.CtxForm == StmtCtx {
			fa.CloneCopies = true
		}
	}
	if fa.Fresh == nil {
		fa.Fresh = []FreshCtx{}
	}
	if fa.Rebinds == nil {
		fa.Rebinds = []string{}
	}
	if fa.SessionOtherCtxWrite == nil {
		fa.SessionOtherCtxWrite = []string{}
	}
	return fa, nil
}

// Find returns the literal with the given key.
func (fa Facts) Find(key string) (Lit, bool) {
	for _, l := range fa.Lits {
		if l.Key() == key {
			return l, true
		}
	}
	return Lit{}, false
}

// Site returns the n-th call site of method in file:func.
func (fa Facts) Site(file, fn, method string, n int) (CallSite, bool) {
	k := 0
	for _, s := range fa.Sites {
		if s.File == file && s.Func == fn && s.Method == method {
			if k == n {
				return s, true
			}
			k++
		}
	}
	return CallSite{}, false
}
