// Package srcfacts extracts, with go/parser from the CURRENT gorm source, the syntactic facts C18
// relies on: every driver call site (ExecContext / QueryContext / QueryRowContext / PrepareContext /
// BeginTx / StmtContext / Conn) with the form of its context argument, every Session{...} and
// Statement{...} composite literal with the form of its Context field, every write to a Context
// field, every manufactured context and every internal WithContext call.
// Nothing is identified by file or function NAME: a context that is a parameter of an unexported
// helper is resolved through the helper's callers (any depth up to maxDepth) to what the callers pass;
// a parameter of an exported function is the caller's own context (API parameter); a literal is
// identified by the set of fields it sets (its role); "only reachable from Open" is computed on the
// call graph.  Used by harness/facts (FactsOK_C18) and by the c18 harness.
package srcfacts

import (
	"fmt"
	"go/ast"
	"go/parser"
	"go/printer"
	"go/token"
	"os"
	"path/filepath"
	"sort"
	"strings"
	"unicode"
)

// Forms of a context expression.
const (
	Absent     = "absent"     // field not set
	StmtCtx    = "stmt_ctx"   // <x>.Statement.Context or <stmt>.Context: the context of the statement at hand
	Param      = "param"      // a context.Context parameter of an EXPORTED function: the API caller's context
	Background = "background" // context.Background() / context.TODO()
	Unknown    = "unknown"
)

const maxDepth = 6

type CallSite struct {
	File   string `json:"file"`
	Func   string `json:"func"`
	Line   int    `json:"line"`
	Method string `json:"method"`
	Recv   string `json:"recv"`
	Form   string `json:"form"` // after resolution through helpers
	Raw    string `json:"raw"`  // before
	Text   string `json:"text"`
}

type Lit struct {
	Kind    string   `json:"kind"` // Session | Statement
	File    string   `json:"file"`
	Func    string   `json:"func"`
	Ord     int      `json:"ord"`
	Line    int      `json:"line"`
	Fields  []string `json:"fields"`
	CtxForm string   `json:"ctx_form"`
	CtxText string   `json:"ctx_text"`
	NewDB   string   `json:"new_db"` // "" | true | false | expr
	Init    bool     `json:"initialized"`
	Roots   []string `json:"roots"` // exported functions from which the enclosing function is reachable
}

// Own: the literal sets PrepareStmt or SkipHooks, so Session gives the derived handle its own Statement.
func (l Lit) Own() bool {
	for _, f := range l.Fields {
		if f == "PrepareStmt" || f == "SkipHooks" {
			return true
		}
	}
	return false
}

func (l Lit) Key() string { return fmt.Sprintf("%s:%s#%d", l.File, l.Func, l.Ord) }

// Role: the sorted set of fields the literal sets — what identifies it for the harness.
func (l Lit) Role() string {
	fs := append([]string{}, l.Fields...)
	sort.Strings(fs)
	return strings.Join(fs, ",")
}

func (l Lit) HasField(f string) bool {
	for _, x := range l.Fields {
		if x == f {
			return true
		}
	}
	return false
}

// FreshCtx is a place where the source manufactures a context instead of using the one at hand.
type FreshCtx struct {
	File  string `json:"file"`
	Func  string `json:"func"`
	Line  int    `json:"line"`
	Call  string `json:"call"`  // context.Background | context.TODO | context.WithValue | ...
	Usage string `json:"usage"` // logger | open_root | other
}

type Facts struct {
	Sites          []CallSite `json:"sites"`
	Lits           []Lit      `json:"literals"`
	OtherCtxWrites []string   `json:"other_ctx_writes"` // assignments to a .Context field whose right-hand side is neither a Session config's Context nor the statement's / API caller's context
	Fresh          []FreshCtx `json:"fresh_contexts"`
	Rebinds        []string   `json:"internal_rebinds"` // every <x>.WithContext(...) call of the scanned code
}

var methods = map[string]bool{"ExecContext": true, "QueryContext": true, "QueryRowContext": true,
	"PrepareContext": true, "BeginTx": true, "StmtContext": true, "Conn": true}

func text(fset *token.FileSet, n ast.Node) string {
	var sb strings.Builder
	printer.Fprint(&sb, fset, n)
	return sb.String()
}

func isType(t ast.Expr, pkg, name string) bool {
	if st, ok := t.(*ast.StarExpr); ok {
		t = st.X
	}
	switch x := t.(type) {
	case *ast.SelectorExpr:
		id, ok := x.X.(*ast.Ident)
		return ok && id.Name == pkg && x.Sel.Name == name
	case *ast.Ident:
		return pkg == "" && x.Name == name
	}
	return false
}

type fnInfo struct {
	dir      string
	short    string
	display  string
	exported bool
	ctxIdx   map[string]int  // context.Context parameter name -> position
	sessCfg  map[string]bool // *Session / *gorm.Session parameter names
	stmtVar  map[string]bool // *Statement parameters and receiver
}

type callRec struct {
	caller *fnInfo
	args   []ast.Expr
}

type extractor struct {
	fset  *token.FileSet
	calls map[string]map[string][]callRec // dir -> callee short name -> calls
	fns   map[string]map[string][]*fnInfo // dir -> short name -> declarations
}

func newFn(fset *token.FileSet, dir string, ft *ast.FuncType, recv *ast.FieldList, name string) *fnInfo {
	fi := &fnInfo{dir: dir, short: name, display: name, ctxIdx: map[string]int{}, sessCfg: map[string]bool{}, stmtVar: map[string]bool{}}
	fi.exported = name != "" && unicode.IsUpper([]rune(name)[0])
	if recv != nil && len(recv.List) == 1 {
		rt := text(fset, recv.List[0].Type)
		fi.display = strings.TrimPrefix(rt, "*") + "." + name
		if isType(recv.List[0].Type, "", "Statement") {
			for _, n := range recv.List[0].Names {
				fi.stmtVar[n.Name] = true
			}
		}
	}
	if ft != nil && ft.Params != nil {
		i := 0
		for _, f := range ft.Params.List {
			names := f.Names
			if len(names) == 0 {
				i++
				continue
			}
			for _, n := range names {
				if isType(f.Type, "context", "Context") {
					fi.ctxIdx[n.Name] = i
				}
				if isType(f.Type, "", "Session") || isType(f.Type, "gorm", "Session") {
					fi.sessCfg[n.Name] = true
				}
				if isType(f.Type, "", "Statement") || isType(f.Type, "gorm", "Statement") {
					fi.stmtVar[n.Name] = true
				}
				i++
			}
		}
	}
	return fi
}

// rawForm classifies e inside fn without following helpers; for Param it also returns the parameter index.
func rawForm(e ast.Expr, fn *fnInfo) (string, int) {
	switch x := e.(type) {
	case *ast.SelectorExpr:
		if x.Sel.Name == "Context" {
			if in, ok := x.X.(*ast.SelectorExpr); ok && in.Sel.Name == "Statement" {
				return StmtCtx, -1
			}
			if id, ok := x.X.(*ast.Ident); ok && (fn.stmtVar[id.Name] || id.Name == "stmt") {
				return StmtCtx, -1
			}
		}
	case *ast.Ident:
		if i, ok := fn.ctxIdx[x.Name]; ok {
			return Param, i
		}
	case *ast.CallExpr:
		if se, ok := x.Fun.(*ast.SelectorExpr); ok {
			if id, ok := se.X.(*ast.Ident); ok && id.Name == "context" && (se.Sel.Name == "Background" || se.Sel.Name == "TODO") {
				return Background, -1
			}
		}
	}
	return Unknown, -1
}

func worse(a, b string) string {
	rank := map[string]int{Absent: 0, StmtCtx: 1, Param: 2, Background: 3, Unknown: 4}
	if rank[b] > rank[a] {
		return b
	}
	return a
}

// resolve follows a context parameter of an unexported function to what its callers pass.
func (ex *extractor) resolve(e ast.Expr, fn *fnInfo, depth int) string {
	f, idx := rawForm(e, fn)
	if f != Param {
		return f
	}
	if fn.exported || idx < 0 { // idx < 0: a parameter of a closure, whose caller is not followed
		return Param
	}
	if depth >= maxDepth {
		return Unknown
	}
	cs := ex.calls[fn.dir][fn.short]
	if len(cs) == 0 {
		return Unknown
	}
	res := Absent
	for _, c := range cs {
		if idx >= len(c.args) {
			return Unknown
		}
		res = worse(res, ex.resolve(c.args[idx], c.caller, depth+1))
	}
	return res
}

// roots: the exported functions from which fn is reachable (through unexported callers).
func (ex *extractor) roots(fn *fnInfo, depth int, seen map[*fnInfo]bool) []string {
	if fn.exported {
		return []string{fn.short}
	}
	if depth >= maxDepth || seen[fn] {
		return nil
	}
	seen[fn] = true
	set := map[string]bool{}
	cs := ex.calls[fn.dir][fn.short]
	if len(cs) == 0 {
		set["<no caller>"] = true
	}
	for _, c := range cs {
		for _, r := range ex.roots(c.caller, depth+1, seen) {
			set[r] = true
		}
	}
	out := []string{}
	for r := range set {
		out = append(out, r)
	}
	sort.Strings(out)
	return out
}

func litKind(t ast.Expr) string {
	switch x := t.(type) {
	case *ast.Ident:
		if x.Name == "Session" || x.Name == "Statement" {
			return x.Name
		}
	case *ast.SelectorExpr:
		if id, ok := x.X.(*ast.Ident); ok && id.Name == "gorm" && (x.Sel.Name == "Session" || x.Sel.Name == "Statement") {
			return x.Sel.Name
		}
	}
	return ""
}

type parsedFn struct {
	fi   *fnInfo
	body *ast.BlockStmt
	rel  string
}

// Extract scans the non-test Go files of the root package, callbacks/ and migrator/.
func Extract(repo string) (Facts, error) {
	var fa Facts
	ex := &extractor{fset: token.NewFileSet(), calls: map[string]map[string][]callRec{}, fns: map[string]map[string][]*fnInfo{}}
	fset := ex.fset
	var all []parsedFn
	nfiles := 0
	for _, dir := range []string{"", "callbacks", "migrator"} {
		m, _ := filepath.Glob(filepath.Join(repo, dir, "*.go"))
		sort.Strings(m)
		ex.calls[dir] = map[string][]callRec{}
		ex.fns[dir] = map[string][]*fnInfo{}
		for _, path := range m {
			if strings.HasSuffix(path, "_test.go") {
				continue
			}
			src, err := os.ReadFile(path)
			if err != nil {
				return fa, err
			}
			f, err := parser.ParseFile(fset, path, src, 0)
			if err != nil {
				return fa, err
			}
			nfiles++
			rel, _ := filepath.Rel(repo, path)
			for _, d := range f.Decls {
				fd, ok := d.(*ast.FuncDecl)
				if !ok || fd.Body == nil {
					continue
				}
				fi := newFn(fset, dir, fd.Type, fd.Recv, fd.Name.Name)
				ex.fns[dir][fi.short] = append(ex.fns[dir][fi.short], fi)
				all = append(all, parsedFn{fi, fd.Body, rel})
			}
		}
	}
	if nfiles == 0 {
		return fa, fmt.Errorf("no Go files under %s", repo)
	}
	// pass 1: the call graph (callee by name, inside the same package)
	for _, pf := range all {
		pf := pf
		cur := pf.fi
		ast.Inspect(pf.body, func(n ast.Node) bool {
			switch x := n.(type) {
			case *ast.CallExpr:
				name := ""
				switch f := x.Fun.(type) {
				case *ast.Ident:
					name = f.Name
				case *ast.SelectorExpr:
					name = f.Sel.Name
				}
				if name != "" {
					if _, declared := ex.fns[cur.dir][name]; declared {
						ex.calls[cur.dir][name] = append(ex.calls[cur.dir][name], callRec{cur, x.Args})
					}
				}
			}
			return true
		})
	}
	// pass 2: the facts
	for _, pf := range all {
		pf := pf
		fn := pf.fi
		rel := pf.rel
		ord := map[string]int{}
		usage := map[ast.Node]string{}
		isCtxCall := func(e ast.Expr) (string, bool) {
			c, ok := e.(*ast.CallExpr)
			if !ok {
				return "", false
			}
			se, ok := c.Fun.(*ast.SelectorExpr)
			if !ok {
				return "", false
			}
			if id, ok := se.X.(*ast.Ident); ok && id.Name == "context" {
				return "context." + se.Sel.Name, true
			}
			return "", false
		}
		ast.Inspect(pf.body, func(n ast.Node) bool {
			switch x := n.(type) {
			case *ast.FuncLit:
				for k := range newFn(fset, fn.dir, x.Type, nil, fn.short).ctxIdx {
					if _, ok := fn.ctxIdx[k]; !ok {
						fn.ctxIdx[k] = -1
					}
				}
			case *ast.CallExpr:
				if name, ok := isCtxCall(x); ok {
					u := usage[x]
					if u == "" {
						u = "other"
					}
					fa.Fresh = append(fa.Fresh, FreshCtx{File: rel, Func: fn.display, Line: fset.Position(x.Pos()).Line, Call: name, Usage: u})
					return true
				}
				if se0, ok := x.Fun.(*ast.SelectorExpr); ok {
					if se0.Sel.Name == "WithContext" {
						fa.Rebinds = append(fa.Rebinds, fmt.Sprintf("%s:%s:%d: %s", rel, fn.display, fset.Position(x.Pos()).Line, text(fset, x)))
					}
					// the context handed to a logger call is not a driver context
					switch se0.Sel.Name {
					case "Info", "Warn", "Error", "Trace":
						if strings.HasSuffix(text(fset, se0.X), "Logger") && len(x.Args) > 0 {
							if _, ok := isCtxCall(x.Args[0]); ok {
								usage[x.Args[0]] = "logger"
							}
						}
					}
				}
				se, ok := x.Fun.(*ast.SelectorExpr)
				if !ok || !methods[se.Sel.Name] || len(x.Args) == 0 {
					return true
				}
				if se.Sel.Name == "Conn" && len(x.Args) != 1 {
					return true
				}
				raw, _ := rawForm(x.Args[0], fn)
				fa.Sites = append(fa.Sites, CallSite{File: rel, Func: fn.display, Line: fset.Position(x.Pos()).Line,
					Method: se.Sel.Name, Recv: text(fset, se.X), Form: ex.resolve(x.Args[0], fn, 0), Raw: raw, Text: text(fset, x.Args[0])})
			case *ast.CompositeLit:
				k := litKind(x.Type)
				if k == "" {
					return true
				}
				l := Lit{Kind: k, File: rel, Func: fn.display, Ord: ord[k], Line: fset.Position(x.Pos()).Line, CtxForm: Absent, Fields: []string{}}
				ord[k]++
				for _, el := range x.Elts {
					kv, ok := el.(*ast.KeyValueExpr)
					if !ok {
						l.Fields = append(l.Fields, "?positional")
						l.CtxForm = Unknown
						continue
					}
					key := text(fset, kv.Key)
					l.Fields = append(l.Fields, key)
					switch key {
					case "Context":
						l.CtxForm = ex.resolve(kv.Value, fn, 0)
						l.CtxText = text(fset, kv.Value)
						if k == "Statement" {
							if _, ok := isCtxCall(kv.Value); ok {
								usage[kv.Value] = "statement_root"
							}
						}
					case "NewDB":
						v := text(fset, kv.Value)
						if v != "true" && v != "false" {
							v = "expr"
						}
						l.NewDB = v
					case "Initialized":
						l.Init = text(fset, kv.Value) == "true"
					}
				}
				l.Roots = ex.roots(fn, 0, map[*fnInfo]bool{})
				fa.Lits = append(fa.Lits, l)
			case *ast.AssignStmt:
				for i, lhs := range x.Lhs {
					se, ok := lhs.(*ast.SelectorExpr)
					if !ok || se.Sel.Name != "Context" || i >= len(x.Rhs) {
						continue
					}
					// allowed: <Session config parameter>.Context (Session applying its config), or the
					// statement's / API caller's own context
					okRHS := false
					if rs, ok := x.Rhs[i].(*ast.SelectorExpr); ok && rs.Sel.Name == "Context" {
						if id, ok := rs.X.(*ast.Ident); ok && fn.sessCfg[id.Name] {
							okRHS = true
						}
					}
					if f := ex.resolve(x.Rhs[i], fn, 0); f == StmtCtx || f == Param {
						okRHS = true
					}
					if !okRHS {
						fa.OtherCtxWrites = append(fa.OtherCtxWrites, fmt.Sprintf("%s:%s: %s = %s", rel, fn.display, text(fset, lhs), text(fset, x.Rhs[i])))
					}
				}
			}
			return true
		})
		// a manufactured context that seeds a Statement literal is the root statement iff only Open reaches it
		for i := range fa.Fresh {
			if fa.Fresh[i].Usage == "statement_root" && fa.Fresh[i].File == rel && fa.Fresh[i].Func == fn.display {
				r := ex.roots(fn, 0, map[*fnInfo]bool{})
				if len(r) == 1 && r[0] == "Open" {
					fa.Fresh[i].Usage = "open_root"
				} else {
					fa.Fresh[i].Usage = "other"
				}
			}
		}
	}
	if fa.Fresh == nil {
		fa.Fresh = []FreshCtx{}
	}
	if fa.Rebinds == nil {
		fa.Rebinds = []string{}
	}
	if fa.OtherCtxWrites == nil {
		fa.OtherCtxWrites = []string{}
	}
	return fa, nil
}

// Role returns the literal the harness must assume for a Session literal of the given role (sorted,
// comma-joined field names): among the source literals with exactly those fields, the one with the
// worst context form.  ok = false when the source has no such literal.
func (fa Facts) Role(role string) (Lit, bool) {
	var best Lit
	found := false
	for _, l := range fa.Lits {
		if l.Kind != "Session" || l.Role() != role {
			continue
		}
		if !found || worse(best.CtxForm, l.CtxForm) != best.CtxForm {
			best = l
		}
		found = true
	}
	return best, found
}

// SiteForm returns the worst context form among the call sites of the given method that are
// (wrapper = false) callback / finisher sites or (wrapper = true) sites passing on a context parameter
// they received through an exported method (the prepared-statement wrappers).
func (fa Facts) SiteForm(method string, wrapper bool) (string, bool) {
	res, found := Absent, false
	for _, s := range fa.Sites {
		if s.Method != method {
			continue
		}
		isWrapper := s.Raw == Param
		if isWrapper != wrapper {
			continue
		}
		res = worse(res, s.Form)
		found = true
	}
	return res, found
}

func gallinaForm(f string) string {
	switch f {
	case Absent:
		return "FAbsent"
	case StmtCtx:
		return "FStmt"
	case Param:
		return "FParam"
	case Background:
		return "FBackground"
	}
	return "FUnknown"
}

func gallinaBool(b bool) string {
	if b {
		return "true"
	}
	return "false"
}

// LitTerm prints, as a C18_Model.slit, the literal to assume for a role (Role: the worst-formed literal of
// the current source with exactly those fields; when the source has none, one that sets the fields).
func (fa Facts) LitTerm(role string) string {
	l, ok := fa.Role(role)
	if !ok {
		has := func(f string) bool { return strings.Contains(","+role+",", ","+f+",") }
		form := "FAbsent"
		if has("Context") {
			form = "FStmt"
		}
		return fmt.Sprintf("(mk_slit %s %s %s %s)", form, gallinaBool(has("NewDB")), gallinaBool(has("Initialized")), gallinaBool(has("SkipHooks") || has("PrepareStmt")))
	}
	return fmt.Sprintf("(mk_slit %s %s %s %s)", gallinaForm(l.CtxForm), gallinaBool(l.NewDB == "true" || l.NewDB == "expr"), gallinaBool(l.Init), gallinaBool(l.Own()))
}

// RoleFields: the roles record of C18_Ops.v, field by field: (field, role = sorted field set of the literal)
var RoleFields = [][2]string{
	{"r_begin", "Context,NewDB"}, {"r_txblock", "NewDB"}, {"r_savepoint", ""},
	{"r_assoc0", "NewDB"}, {"r_assoc1", "DisableNestedTransaction,FullSaveAssociations,SkipHooks"},
	{"r_join0", "NewDB"}, {"r_join1", "DisableNestedTransaction,SkipHooks"}, {"r_delassoc", "NewDB"},
	{"r_preload", "Context,Initialized,NewDB,SkipHooks"}, {"r_preload_ep", "Context,SkipHooks"},
	{"r_am", ""}, {"r_am_save0", ""}, {"r_am_save1", ""}, {"r_am_write", ""}, {"r_am_cond", "QueryFields"},
	{"r_save0", "Initialized"}, {"r_save1", "SkipHooks"}, {"r_foc", ""},
	{"r_fib0", ""}, {"r_fib1", ""}, {"r_fib2", "NewDB"}, {"r_cib", ""},
}

// SiteFields: (field, driver method, inside a wrapper that passes its context parameter on?)
var SiteFields = []struct {
	Field, Method string
	Wrapper       bool
}{
	{"s_exec", "ExecContext", false}, {"s_query", "QueryContext", false}, {"s_row", "QueryRowContext", false}, {"s_begin", "BeginTx", false},
	{"w_prepare", "PrepareContext", true}, {"w_exec", "ExecContext", true}, {"w_query", "QueryContext", true}, {"w_row", "QueryRowContext", true}, {"w_begin", "BeginTx", true},
}

// RolesTerm prints the C18_Ops.roles record of the current source.
func (fa Facts) RolesTerm() string {
	var sb strings.Builder
	sb.WriteString("(mk_roles")
	for _, rf := range RoleFields {
		sb.WriteString(" " + fa.LitTerm(rf[1]))
	}
	for _, sf := range SiteFields {
		f, ok := fa.SiteForm(sf.Method, sf.Wrapper)
		if !ok {
			sb.WriteString(" FUnknown")
		} else {
			sb.WriteString(" " + gallinaForm(f))
		}
	}
	sb.WriteString(")")
	return sb.String()
}
