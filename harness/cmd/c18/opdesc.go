package main

// opdesc: the STRUCTURE of the operation a family runs, as a term of C18_Ops.opdesc.  It is built from
// the family definition (what the caller asked for) and from data-dependent facts the harness knows
// without looking at the driver events: how many rows a Find loaded, which relations hold values,
// whether the default transaction is on.  The model (op_tree) turns it into the operation tree gorm
// executes and check_case compares that tree's run with the whole observed event list.

import (
	"verifharness/lib"
)

// per operation: what the family said it ran
var cur struct {
	desc     []string
	ok       bool
	skipTx   bool // SkipDefaultTransaction through the caller's derived session
	noNested bool // DisableNestedTransaction through the caller's derived session
}

// D records the finisher calls the family has issued so far (in order)
func D(ds ...string) { cur.desc = append(cur.desc, ds...); cur.ok = true }

const (
	qStmt   = "(DStmt SQuery)"
	eStmt   = "(DStmt SExec)"
	rowStmt = "(DStmt SRow)"
	rawExec = "DRawExec"
)

func dOp(tag string, xs, ys []string) string { return lib.App("DOp", tag, lib.List(xs), lib.List(ys)) }
func l(ds ...string) []string                { return ds }

// a Create / Update / Delete processor run; k = "SExec" | "SQuery" | "" (nothing to write)
func wrT(deftx bool, k string, before, after []string) string {
	ks := "None"
	if k != "" {
		ks = "(Some " + k + ")"
	}
	return dOp(lib.App("TWrite", lib.Bool(deftx), ks), before, after)
}

// top level, outside a transaction: the default transaction is on unless the caller switched it off
func wr(k string, before, after []string) string { return wrT(!cur.skipTx, k, before, after) }

// nested in another write or inside a caller's transaction: Begin finds a transaction and gives up
func wrN(k string, before, after []string) string { return wrT(false, k, before, after) }

func assocSave(d string) string { return dOp("TAssocSave", l(d), nil) }
func joinSave(d string) string  { return dOp("TJoinSave", l(d), nil) }
func delAssoc(d string) string  { return dOp("TDelAssoc", l(d), nil) }
func find(k string, rels ...string) string {
	return dOp("(TFind "+k+")", rels, nil)
}
func rel(lookup, target bool, nested ...string) string {
	return dOp(lib.App("TRel", lib.Bool(lookup), lib.Bool(target)), nested, nil)
}
func joined(nested ...string) string { return dOp("TJoined", nested, nil) }
func txBlock(body ...string) string  { return dOp("TTx", body, nil) }
func nestedTx(rb bool, body ...string) string {
	return dOp(lib.App("TNestedTx", lib.Bool(!cur.noNested), lib.Bool(rb)), body, nil)
}
func assocMode(ops ...string) string { return dOp("TAssocMode", ops, nil) }
func amSave(d string) string         { return dOp("TAmSave", l(d), nil) }
func amWrite(own bool, d string) string {
	return dOp(lib.App("TAmWrite", lib.Bool(own)), l(d), nil)
}
func amRead(m2m bool, d string) string { return dOp(lib.App("TAmRead", lib.Bool(m2m)), l(d), nil) }

// Create(newUser()) / Create(&[]User{newUser(), ...}): belongs-to Company (with its has-many Offices) saved
// before; has-one Profile, has-many Pets (with their has-many Toys), many2many Langs + join rows after
func createUserTree(w func(k string, before, after []string) string) string {
	company := assocSave(wrN("SQuery", nil, l(assocSave(wrN("SQuery", nil, nil)))))
	profile := assocSave(wrN("SQuery", nil, nil))
	pets := assocSave(wrN("SQuery", nil, l(assocSave(wrN("SQuery", nil, nil)))))
	langs := assocSave(wrN("SQuery", nil, nil))
	joins := joinSave(wrN("SExec", nil, nil))
	return w("SQuery", l(company), l(profile, pets, langs, joins))
}

// what a Find of users loaded, as far as the preloads below it are concerned
type loaded struct {
	users, withCompany, withLangs, pets int
}

func loadedOf(us []User) loaded {
	var x loaded
	x.users = len(us)
	for _, u := range us {
		if u.CompanyID != nil {
			x.withCompany++
		}
		if len(u.Langs) > 0 {
			x.withLangs++
		}
		x.pets += len(u.Pets)
	}
	return x
}

func relCompany(x loaded) string { return rel(false, x.withCompany > 0) }
func relLangs(x loaded) string   { return rel(x.users > 0, x.withLangs > 0) }
func relPets(x loaded, nested ...string) string {
	return rel(false, x.users > 0, nested...)
}
func relToys(x loaded) string    { return rel(false, x.pets > 0) }
func relProfile(x loaded) string { return rel(false, x.users > 0) }

// association mode on User{ID: ..} literals (no relation loaded in memory)
func amSaveOf(relName string) string {
	switch relName {
	case "Company":
		return amSave(wr("SExec", l(assocSave(wrN("SQuery", nil, nil))), nil))
	case "Langs":
		return amSave(wr("", nil, l(assocSave(wrN("SQuery", nil, nil)), joinSave(wrN("SExec", nil, nil)))))
	}
	return amSave(wr("", nil, l(assocSave(wrN("SQuery", nil, nil)))))
}

func amDesc(relName, op string, fromSlice bool) string {
	n := 1
	if fromSlice {
		n = 2
	}
	saves := []string{}
	for i := 0; i < n; i++ {
		saves = append(saves, amSaveOf(relName))
	}
	belongs := relName == "Company"
	switch op {
	case "append":
		if relName == "Company" || relName == "Profile" {
			return amDesc(relName, "replace", fromSlice)
		}
		return assocMode(saves...)
	case "replace":
		if !belongs {
			saves = append(saves, amWrite(false, wr("SExec", nil, nil)))
		}
		return assocMode(saves...)
	case "delete", "clear":
		return assocMode(amWrite(belongs, wr("SExec", nil, nil)))
	case "count":
		return assocMode(amRead(relName == "Langs", qStmt))
	}
	panic("amDesc " + op)
}

// Joins("Company").Preload("Company.Offices"): the joined relation's own preloadDB session when a joined
// value was loaded, the Offices preload below it
func joinedOffices(anyCompany bool) string {
	if !anyCompany {
		return joined()
	}
	return joined(rel(false, true))
}

func anyCompany(us []User) bool {
	for _, u := range us {
		if u.Company != nil {
			return true
		}
	}
	return false
}

// FindInBatches: found = batches that returned rows (the callback ran cb on its handle after each);
// trailingEmpty = the loop ended on a batch that found nothing (no LIMIT ended it before)
func fibDesc(limit bool, found int, trailingEmpty bool, cb []string) string {
	batches := []string{}
	for i := 0; i < found; i++ {
		batches = append(batches, dOp("(TBatch true)", cb, nil))
	}
	if trailingEmpty || found == 0 {
		batches = append(batches, dOp("(TBatch false)", nil, nil))
	}
	return dOp(lib.App("TFindInBatches", lib.Bool(limit)), batches[:1], batches[1:])
}
