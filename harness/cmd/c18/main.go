// c18: every statement of an operation carries the caller's context.
// Runs operation families on real gorm + SQLite through the recording driver, each started from a
// handle bound (WithContext / Session{Context}) to a context carrying its own tag, PrepareStmt on
// and off, and writes per case: for every begin/prepare/exec/query event the driver saw, the tag it
// observed, the derivation path attributed to it (the internal Session literals with the fields
// they have in the CURRENT source, via srcfacts) and the form of the call site's context argument.
package main

import (
	"context"
	"encoding/json"
	"errors"
	"fmt"
	"os"
	"regexp"
	"strings"

	"gorm.io/gorm"
	"gorm.io/gorm/clause"
	"gorm.io/gorm/logger"

	"database/sql"
	"verifharness/cmd/c18/probe"
	"verifharness/cmd/c18/srcfacts"

	"gorm.io/driver/sqlite"
	"verifharness/lib"
	"verifharness/recdrv"
)

// ---------------------------------------------------------------- schema
type Office struct {
	ID        int64 `gorm:"primaryKey"`
	CompanyID int64
	Name      string
}
type Company struct {
	ID      int64 `gorm:"primaryKey"`
	Name    string
	Offices []Office
}
type Toy struct {
	ID    int64 `gorm:"primaryKey"`
	PetID int64
	Name  string
}
type Pet struct {
	ID     int64 `gorm:"primaryKey"`
	UserID int64
	Name   string
	Toys   []Toy
}
type Profile struct {
	ID     int64 `gorm:"primaryKey"`
	UserID int64
	Bio    string
}
type Lang struct {
	ID   int64 `gorm:"primaryKey"`
	Name string
}
type User struct {
	ID        int64 `gorm:"primaryKey"`
	Name      string
	Age       int64
	CompanyID *int64
	Company   *Company
	Pets      []Pet
	Langs     []Lang `gorm:"many2many:user_langs"`
	Profile   *Profile
}

var tables = []string{"profiles", "offices", "companies", "toys", "pets", "langs", "users", "user_langs"}

// ---------------------------------------------------------------- inputs / observations
type OpIn struct {
	Fam       string `json:"fam"`
	Bind      string `json:"bind"` // with | session
	Tag       int    `json:"tag"`
	Cancelled bool   `json:"cancelled"`
	// Derive: the caller derives a further session from the context-bound handle WITHOUT repeating the
	// context, and runs the operation on it: "" | one or more of new_db, skip_hooks, prepare_stmt,
	// skip_default_tx, disable_nested_tx, allow_global_update, full_save_associations,
	// propagate_unscoped, query_fields, initialized, batch_size joined by "+"
	Derive string `json:"derive,omitempty"`
	// Side: before the operation, a side session bound to ANOTHER context is derived from the very handle
	// the operation then runs on: new_db_ctx (Session{NewDB:true, Context: other}) | ctx (Session{Context: other}) |
	// with (WithContext(other)) | new_db_ctx_skip_hooks; suffixes "+run" (a Create runs on the side session first)
	// and "+cancel" (the other context is cancelled afterwards)
	Side string `json:"side,omitempty"`
}

func deriveSide(h *gorm.DB, side string, tag int) {
	other, cancel := context.WithCancel(context.WithValue(context.Background(), recdrv.TagKey, fmt.Sprintf("tag-%d", tag)))
	var sd *gorm.DB
	switch strings.SplitN(side, "+", 2)[0] {
	case "new_db_ctx":
		sd = h.Session(&gorm.Session{NewDB: true, Context: other})
	case "ctx":
		sd = h.Session(&gorm.Session{Context: other})
	case "with":
		sd = h.WithContext(other)
	case "new_db_ctx_skip_hooks":
		sd = h.Session(&gorm.Session{NewDB: true, Context: other, SkipHooks: true})
	default:
		panic("unknown side session " + side)
	}
	if has(side, "run") {
		sd.Create(&User{Name: name("side")})
	}
	if has(side, "cancel") {
		cancel()
	}
	_ = cancel
}

var sides = []string{"new_db_ctx", "new_db_ctx+run", "new_db_ctx+cancel", "new_db_ctx+run+cancel", "ctx", "ctx+cancel", "with+run", "with+cancel", "new_db_ctx_skip_hooks+cancel"}

func deriveSession(d string) *gorm.Session {
	s := &gorm.Session{}
	for _, o := range strings.Split(d, "+") {
		switch o {
		case "new_db":
			s.NewDB = true
		case "skip_hooks":
			s.SkipHooks = true
		case "prepare_stmt":
			s.PrepareStmt = true
		case "skip_default_tx":
			s.SkipDefaultTransaction = true
		case "disable_nested_tx":
			s.DisableNestedTransaction = true
		case "allow_global_update":
			s.AllowGlobalUpdate = true
		case "full_save_associations":
			s.FullSaveAssociations = true
		case "propagate_unscoped":
			s.PropagateUnscoped = true
		case "query_fields":
			s.QueryFields = true
		case "initialized":
			s.Initialized = true
		case "batch_size":
			s.CreateBatchSize = 100
		default:
			panic("unknown derive option " + o)
		}
	}
	return s
}

func has(d, o string) bool {
	for _, x := range strings.Split(d, "+") {
		if x == o {
			return true
		}
	}
	return false
}

// the caller's own Session literal, as the model sees it
func deriveLit(d string) string {
	return lib.App("mk_slit", "FAbsent", lib.Bool(has(d, "new_db")), lib.Bool(has(d, "initialized")), lib.Bool(has(d, "skip_hooks") || has(d, "prepare_stmt")))
}

var derivations = []string{"new_db", "new_db+skip_hooks", "new_db+prepare_stmt", "skip_hooks", "prepare_stmt",
	"new_db+skip_default_tx", "new_db+disable_nested_tx", "new_db+allow_global_update", "new_db+full_save_associations",
	"new_db+propagate_unscoped", "new_db+query_fields", "new_db+initialized", "new_db+batch_size",
	"new_db+skip_hooks+prepare_stmt", "initialized+skip_hooks"}

type Input struct {
	Prep bool   `json:"prepare_stmt"`
	Ops  []OpIn `json:"ops"`
}
type EvOut struct {
	Kind   string   `json:"kind"`
	Query  string   `json:"query"`
	Tx     bool     `json:"in_tx"`
	Tag    int      `json:"tag"`
	Failed bool     `json:"failed"`
	Done   bool     `json:"ctx_done"`
	Path   []string `json:"path"`
	Site   string   `json:"site"`
	Inner  string   `json:"inner,omitempty"`
}
type OpOut struct {
	Err       string  `json:"err"`
	Unchanged bool    `json:"unchanged"`
	Events    []EvOut `json:"events"`
	// Desc: the structure of the operation as C18_Ops.opdesc terms (one per finisher call), when the family
	// states it and the operation completed
	Desc []string `json:"desc,omitempty"`
}
type Obs struct {
	Ops []OpOut `json:"ops"`
}

// ---------------------------------------------------------------- families
type fam struct {
	name  string
	run   func(h *gorm.DB) error
	path  func(table string) []string        // internal session literals on the way to a statement on table
	pathQ func(table, query string) []string // the same when the statement text matters (overrides path)
	rows  bool                               // SELECTs go through the Row callbacks (row.go)
}

// The internal Session literals on a derivation path are named by their ROLE — the set of fields the
// literal sets (sorted, comma-joined) — never by the file or function they stand in: srcfacts.Role
// resolves a role to the worst-formed literal of the current source that sets exactly those fields.
const (
	litBegin      = "Context,NewDB"                                           // Begin: getInstance().Session(&Session{Context: <own>, NewDB: …})
	litAssoc0     = "NewDB"                                                   // saveAssociations: db.Session(&Session{NewDB: true})
	litAssoc1     = "DisableNestedTransaction,FullSaveAssociations,SkipHooks" // … .Session(&Session{FullSaveAssociations, SkipHooks, DisableNestedTransaction})
	litJoin0      = "NewDB"                                                   // many2many join rows
	litJoin1      = "DisableNestedTransaction,SkipHooks"
	litPreload    = "Context,Initialized,NewDB,SkipHooks" // preloadDB
	litPreloadEP  = "Context,SkipHooks"                   // preloadEntryPoint
	litDelAssoc0  = "NewDB"                               // DeleteBeforeAssociations
	litDelAssoc1  = "NewDB"
	litAssocSave0 = "" // association mode: Session(&Session{})
	litAssocSave1 = ""
	litAssocDel   = ""
	litAssocCond  = "QueryFields"
	litFIB0       = "" // FindInBatches
	litFIB1       = ""
	litFIB2       = "NewDB"
	litSave0      = "Initialized" // Save
	litSave1      = "SkipHooks"
	litFOC        = ""      // FirstOrCreate
	litCIB        = ""      // CreateInBatches
	litTx         = "NewDB" // Transaction
)

func joinedNested(t string) []string {
	switch t {
	case "users":
		return nil
	case "offices": // preloadDB for the joined Company value, then the nested preload's own two sessions
		return []string{litPreload, litPreloadEP, litPreload}
	case "toys":
		return []string{litPreload, litPreloadEP, litPreload}
	}
	return []string{litPreload}
}

// FindInBatches: the first batch runs on the handle derived at the top (FindInBatches#0); with a LIMIT in
// the chain the following batches run on the re-derived one (#1); the callback's handle is #2
func fibPath(t, q string) []string {
	p := []string{litFIB0}
	if strings.Contains(q, "`id` >") && strings.Contains(strings.ToUpper(q), "LIMIT") {
		p = append(p, litFIB1)
	}
	if t != "users" {
		p = append(p, litFIB2)
	}
	return p
}

func only(main string, p ...string) func(string) []string {
	return func(t string) []string {
		if t == main {
			return nil
		}
		return p
	}
}
func always(p ...string) func(string) []string { return func(string) []string { return p } }

var nextName int

func name(p string) string { nextName++; return fmt.Sprintf("%s%d", p, nextName) }

func newUser() *User {
	return &User{Name: name("u"), Age: 30, Company: &Company{Name: name("c"), Offices: []Office{{Name: name("o")}, {Name: name("o")}}},
		Pets:  []Pet{{Name: name("p"), Toys: []Toy{{Name: name("t")}}}, {Name: name("p")}},
		Langs: []Lang{{Name: name("l")}, {Name: name("l")}}, Profile: &Profile{Bio: name("b")}}
}

var families = []fam{
	{name: "create_assoc", run: func(h *gorm.DB) error { D(createUserTree(wr)); return h.Create(newUser()).Error },
		path: func(t string) []string {
			switch t {
			case "users":
				return nil
			case "user_langs":
				return []string{litJoin0, litJoin1}
			case "toys", "offices":
				return []string{litAssoc0, litAssoc1, litAssoc0, litAssoc1}
			}
			return []string{litAssoc0, litAssoc1}
		}},
	{name: "create_slice", run: func(h *gorm.DB) error { D(createUserTree(wr)); return h.Create(&[]User{*newUser(), *newUser()}).Error },
		path: func(t string) []string {
			switch t {
			case "users":
				return nil
			case "user_langs":
				return []string{litJoin0, litJoin1}
			case "toys", "offices":
				return []string{litAssoc0, litAssoc1, litAssoc0, litAssoc1}
			}
			return []string{litAssoc0, litAssoc1}
		}},
	{name: "create_in_batches", run: func(h *gorm.DB) error {
		// 3 rows, batches of 2: through Transaction unless the default transaction is off
		D(dOp(lib.App("TCreateInBatches", lib.Bool(!cur.skipTx)), l(wrN("SQuery", nil, nil), wrN("SQuery", nil, nil)), nil))
		return h.CreateInBatches(&[]User{{Name: name("b")}, {Name: name("b")}, {Name: name("b")}}, 2).Error
	}, path: always(litCIB)},
	{name: "save_existing", run: func(h *gorm.DB) error {
		var u User
		if err := h.First(&u, 1).Error; err != nil {
			return err
		}
		u.Age++
		u.Pets = []Pet{{Name: name("sp")}}
		D(find("SQuery"), dOp("TSave", l(wr("SExec", nil, l(assocSave(wrN("SQuery", nil, nil))))), nil))
		return h.Save(&u).Error
	}, path: func(t string) []string {
		if t == "users" {
			return []string{litSave0}
		}
		return []string{litSave0, litAssoc0, litAssoc1}
	}},
	{name: "save_missing", run: func(h *gorm.DB) error {
		D(dOp("TSave", l(wr("SExec", nil, nil)), l(wr("SQuery", nil, nil))))
		return h.Save(&User{ID: 900 + int64(nextName), Name: name("sm")}).Error
	},
		path: always(litSave1)},
	{name: "updates", run: func(h *gorm.DB) error {
		D(wr("SExec", nil, nil))
		return h.Model(&User{ID: 1}).Updates(map[string]interface{}{"age": 41, "name": name("up")}).Error
	}, path: always()},
	{name: "update_where", run: func(h *gorm.DB) error {
		D(wr("SExec", nil, nil))
		return h.Model(&User{}).Where("age > ?", 0).Update("age", gorm.Expr("age + 1")).Error
	},
		path: always()},
	{name: "delete_select", run: func(h *gorm.DB) error {
		u := newUser()
		if err := h.Create(u).Error; err != nil {
			return err
		}
		D(createUserTree(wr), wr("SExec", l(delAssoc(wrN("SExec", nil, nil)), delAssoc(wrN("SExec", nil, nil))), nil))
		return h.Select("Pets", "Langs").Delete(u).Error
	}, path: func(t string) []string {
		switch t {
		case "users":
			return nil
		case "offices":
			return []string{litAssoc0, litAssoc1, litAssoc0, litAssoc1}
		case "companies", "langs", "toys":
			return []string{litAssoc0, litAssoc1}
		case "user_langs":
			return []string{litDelAssoc1}
		}
		return []string{litDelAssoc0}
	}},
	{name: "delete_where", run: func(h *gorm.DB) error {
		D(wr("SExec", nil, nil))
		return h.Where("name = ?", "nobody").Delete(&User{}).Error
	}, path: always()},
	{name: "preload", run: func(h *gorm.DB) error {
		var us []User
		err := h.Preload("Pets").Preload("Company").Preload("Langs").Find(&us).Error
		x := loadedOf(us)
		D(find("SQuery", relCompany(x), relLangs(x), relPets(x)))
		return err
	}, path: only("users", litPreload)},
	{name: "preload_nested", run: func(h *gorm.DB) error {
		var us []User
		err := h.Preload("Pets.Toys").Preload(clause.Associations).Find(&us).Error
		x := loadedOf(us)
		D(find("SQuery", relCompany(x), relLangs(x), relPets(x, relToys(x)), relProfile(x)))
		return err
	}, path: func(t string) []string {
		switch t {
		case "users":
			return nil
		case "toys":
			return []string{litPreload, litPreloadEP, litPreload}
		}
		return []string{litPreload}
	}},
	{name: "joins", run: func(h *gorm.DB) error {
		var us []User
		D(find("SQuery"))
		return h.Joins("Company").Where("users.age > ?", 1).Find(&us).Error
	}, path: always()},
	{name: "joins_preload", run: func(h *gorm.DB) error {
		var us []User
		err := h.Joins("Company").Preload("Pets").Find(&us).Error
		D(find("SQuery", relPets(loadedOf(us))))
		return err
	}, path: only("users", litPreload)},
	// a preload nested under a JOINED relation: the joined value gets an internal session of its own
	// (preloadDB), from which the nested preload derives two more; single-struct and slice destinations
	{name: "joins_nested_preload_first", run: func(h *gorm.DB) error {
		var u User
		err := h.Joins("Company").Preload("Company.Offices").First(&u).Error
		D(find("SQuery", joinedOffices(u.Company != nil)))
		return err
	}, path: joinedNested},
	{name: "joins_nested_preload_take_last", run: func(h *gorm.DB) error {
		var u, v User
		if err := h.Joins("Company").Preload("Company.Offices").Preload("Pets.Toys").Take(&u).Error; err != nil {
			return err
		}
		return h.Joins("Company").Preload("Company.Offices").Last(&v).Error
	}, path: joinedNested},
	{name: "joins_nested_preload_find_one", run: func(h *gorm.DB) error {
		var u User
		err := h.Joins("Company").Preload("Company.Offices").Where("users.id = ?", 1).Find(&u).Error
		D(find("SQuery", joinedOffices(u.Company != nil)))
		return err
	}, path: joinedNested},
	{name: "joins_nested_preload_find", run: func(h *gorm.DB) error {
		var us []User
		err := h.Joins("Company").Preload("Company.Offices").Preload("Langs").Find(&us).Error
		x := loadedOf(us)
		D(find("SQuery", joinedOffices(anyCompany(us)), relLangs(x)))
		return err
	}, path: joinedNested},
	{name: "joins_nested_preload_ptrs", run: func(h *gorm.DB) error {
		var us []*User
		err := h.Joins("Company").Preload("Company.Offices").Find(&us).Error
		anyC := false
		for _, u := range us {
			anyC = anyC || u.Company != nil
		}
		D(find("SQuery", joinedOffices(anyC)))
		return err
	}, path: joinedNested},
	{name: "joins_nested_preload_in_tx", run: func(h *gorm.DB) error {
		return h.Transaction(func(tx *gorm.DB) error {
			var u User
			if err := tx.Joins("Company").Preload("Company.Offices").First(&u).Error; err != nil {
				return err
			}
			var us []User
			err := tx.Joins("Company").Preload("Company.Offices").Find(&us).Error
			D(txBlock(find("SQuery", joinedOffices(u.Company != nil)), find("SQuery", joinedOffices(anyCompany(us)))))
			return err
		})
	}, path: func(t string) []string { return append([]string{litBegin}, joinedNested(t)...) }},
	{name: "assoc_append", run: func(h *gorm.DB) error {
		D(amDesc("Langs", "append", false))
		return h.Model(&User{ID: 1}).Association("Langs").Append(&Lang{Name: name("al")})
	}, path: always(litAssocSave0, litAssocSave1)},
	{name: "assoc_append_many", run: func(h *gorm.DB) error {
		D(amDesc("Pets", "append", false))
		return h.Model(&User{ID: 2}).Association("Pets").Append(&Pet{Name: name("ap")}, &Pet{Name: name("ap")})
	}, path: always(litAssocSave0, litAssocSave1)},
	{name: "assoc_replace", run: func(h *gorm.DB) error {
		D(amDesc("Langs", "replace", false))
		return h.Model(&User{ID: 1}).Association("Langs").Replace(&Lang{Name: name("rl")})
	}, path: always(litAssocSave0, litAssocSave1)},
	{name: "assoc_replace_belongs", run: func(h *gorm.DB) error {
		D(amDesc("Company", "replace", false))
		return h.Model(&User{ID: 2}).Association("Company").Replace(&Company{Name: name("rc")})
	}, path: always(litAssocSave0, litAssocSave1)},
	{name: "assoc_delete", run: func(h *gorm.DB) error {
		D(amDesc("Langs", "delete", false))
		return h.Model(&User{ID: 1}).Association("Langs").Delete(&Lang{ID: 1})
	}, path: always(litAssocDel)},
	{name: "assoc_clear", run: func(h *gorm.DB) error {
		D(amDesc("Pets", "clear", false))
		return h.Model(&User{ID: 2}).Association("Pets").Clear()
	},
		path: always(litAssocSave0, litAssocSave1)},
	{name: "assoc_count", run: func(h *gorm.DB) error {
		D(amDesc("Langs", "count", false))
		as := h.Model(&User{ID: 1}).Association("Langs")
		if n := as.Count(); n < 0 {
			return errors.New("negative count")
		}
		return as.Error
	}, path: always(litAssocCond)},
	{name: "assoc_find", run: func(h *gorm.DB) error {
		var ps []Pet
		D(assocMode(amRead(false, find("SQuery"))))
		return h.Model(&User{ID: 1}).Association("Pets").Find(&ps)
	}, path: always(litAssocCond)},
	{name: "find_in_batches", run: func(h *gorm.DB) error {
		var us []User
		nb := 0
		err := h.FindInBatches(&us, 1, func(tx *gorm.DB, n int) error {
			nb++
			var c int64
			return tx.Model(&Pet{}).Count(&c).Error // a statement issued from the batch callback's handle
		}).Error
		// batches of one row: nb batches that found a row (each runs the callback's Count), then an empty one
		D(fibDesc(false, nb, true, l(find("SQuery"))))
		return err
	}, path: func(t string) []string {
		if t == "pets" {
			return []string{litFIB0, litFIB1, litFIB2}
		}
		return []string{litFIB0, litFIB1}
	}},
	// Limit / Offset in the chain: FindInBatches re-derives the handle it uses from the second batch on
	{name: "find_in_batches_limit", run: func(h *gorm.DB) error {
		var us []User
		n := 0
		err := h.Limit(5).FindInBatches(&us, 2, func(tx *gorm.DB, b int) error {
			n++
			var c int64
			return tx.Model(&Pet{}).Count(&c).Error
		}).Error
		if err == nil && n < 3 {
			return fmt.Errorf("only %d batches", n)
		}
		// Limit 5 in batches of 2 over at least 6 users: 2, 2, 1 rows, the limit ends the loop
		D(fibDesc(true, n, false, l(find("SQuery"))))
		return err
	}, pathQ: fibPath},
	{name: "find_in_batches_offset_limit", run: func(h *gorm.DB) error {
		var us []*User
		n := 0
		err := h.Offset(1).Limit(4).Where("age > ?", 0).FindInBatches(&us, 3, func(tx *gorm.DB, b int) error { n++; return nil }).Error
		if err == nil && n < 2 {
			return fmt.Errorf("only %d batches", n)
		}
		D(fibDesc(true, n, false, nil))
		return err
	}, pathQ: fibPath},
	{name: "find_in_batches_limit_in_tx", run: func(h *gorm.DB) error {
		return h.Transaction(func(tx *gorm.DB) error {
			var us []User
			nb := 0
			err := tx.Limit(6).FindInBatches(&us, 2, func(btx *gorm.DB, b int) error { nb++; return nil }).Error
			D(txBlock(fibDesc(true, nb, false, nil)))
			return err
		})
	}, pathQ: func(t, q string) []string { return append([]string{litBegin}, fibPath(t, q)...) }},
	// a side session with another context derived INSIDE a transaction block from the block's handle
	{name: "tx_side_session", run: func(h *gorm.DB) error {
		return h.Transaction(func(tx *gorm.DB) error {
			other, cancel := context.WithCancel(context.WithValue(context.Background(), recdrv.TagKey, "tag-777777"))
			_ = tx.Session(&gorm.Session{NewDB: true, Context: other})
			cancel()
			if err := tx.Create(&User{Name: name("ts")}).Error; err != nil {
				return err
			}
			var us []User
			err := tx.Preload("Pets").Find(&us).Error
			D(txBlock(wrN("SQuery", nil, nil), find("SQuery", relPets(loadedOf(us)))))
			return err
		})
	}, path: func(t string) []string {
		if t == "users" {
			return []string{litBegin}
		}
		return []string{litBegin, litPreload}
	}},
	{name: "count", run: func(h *gorm.DB) error {
		var n int64
		D(find("SQuery"))
		return h.Model(&User{}).Where("age > ?", 1).Count(&n).Error
	}, path: always()},
	{name: "pluck", run: func(h *gorm.DB) error {
		var ns []string
		D(find("SQuery"))
		return h.Model(&User{}).Pluck("name", &ns).Error
	}, path: always()},
	{name: "first", run: func(h *gorm.DB) error { var u User; D(find("SQuery")); return h.First(&u).Error }, path: always()},
	{name: "take_last", run: func(h *gorm.DB) error {
		var u User
		D(find("SQuery"), find("SQuery"))
		if err := h.Take(&u).Error; err != nil {
			return err
		}
		return h.Last(&u).Error
	}, path: always()},
	{name: "first_or_create", run: func(h *gorm.DB) error {
		var u User
		D(dOp("TFirstOrCreate", l(find("SQuery")), l(wr("SQuery", nil, nil))))
		return h.Where(User{Name: name("foc")}).FirstOrCreate(&u).Error
	}, path: always(litFOC)},
	{name: "scan", run: func(h *gorm.DB) error {
		var r []struct{ Name string }
		D(rowStmt) // Scan goes through Rows: the Row callbacks
		return h.Model(&User{}).Select("name").Scan(&r).Error
	}, path: always(), rows: true},
	{name: "rows", run: func(h *gorm.DB) error {
		D(rowStmt)
		rows, err := h.Model(&User{}).Rows()
		if err != nil {
			return err
		}
		for rows.Next() {
		}
		return rows.Close()
	}, path: always(), rows: true},
	{name: "row", run: func(h *gorm.DB) error {
		var n string
		D(rowStmt)
		return h.Model(&User{}).Select("name").Where("id = ?", 1).Row().Scan(&n)
	}, path: always(), rows: true},
	{name: "raw_scan", run: func(h *gorm.DB) error {
		var n int64
		D(rowStmt)
		return h.Raw("SELECT count(*) FROM users WHERE age > ?", 0).Scan(&n).Error
	}, path: always(), rows: true},
	{name: "exec", run: func(h *gorm.DB) error {
		D(eStmt)
		return h.Exec("UPDATE users SET age = age + ? WHERE id = ?", 1, 2).Error
	}, path: always()},
	{name: "transaction", run: func(h *gorm.DB) error {
		return h.Transaction(func(tx *gorm.DB) error {
			if err := tx.Create(&User{Name: name("tx")}).Error; err != nil {
				return err
			}
			var n int64
			D(txBlock(wrN("SQuery", nil, nil), find("SQuery")))
			return tx.Model(&User{}).Count(&n).Error
		})
	}, path: always(litBegin)},
	{name: "transaction_nested", run: func(h *gorm.DB) error {
		return h.Transaction(func(tx *gorm.DB) error {
			if err := tx.Create(&User{Name: name("t1")}).Error; err != nil {
				return err
			}
			_ = tx.Transaction(func(tx2 *gorm.DB) error {
				tx2.Create(&User{Name: name("t2")})
				return errors.New("inner rollback")
			})
			D(txBlock(wrN("SQuery", nil, nil), nestedTx(true, wrN("SQuery", nil, nil)), nestedTx(false, wrN("SQuery", nil, nil))))
			return tx.Transaction(func(tx3 *gorm.DB) error { return tx3.Create(&Pet{Name: name("t3")}).Error })
		})
	}, path: always(litBegin)},
	{name: "transaction_rollback", run: func(h *gorm.DB) error {
		err := h.Transaction(func(tx *gorm.DB) error {
			tx.Create(&User{Name: name("rb")})
			D(txBlock(wrN("SQuery", nil, nil)))
			return errors.New("roll back")
		})
		if err == nil || err.Error() != "roll back" {
			return fmt.Errorf("unexpected %v", err)
		}
		return nil
	}, path: always(litBegin)},
	{name: "begin_commit", run: func(h *gorm.DB) error {
		tx := h.Begin()
		if tx.Error != nil {
			return tx.Error
		}
		if err := tx.Create(newUser()).Error; err != nil {
			tx.Rollback()
			return err
		}
		var us []User
		if err := tx.Preload("Pets").Find(&us).Error; err != nil {
			tx.Rollback()
			return err
		}
		D(txBlock(createUserTree(wrN), find("SQuery", relPets(loadedOf(us)))))
		return tx.Commit().Error
	}, path: func(t string) []string {
		switch t {
		case "users":
			return []string{litBegin}
		case "user_langs":
			return []string{litBegin, litJoin0, litJoin1}
		case "offices", "toys":
			return []string{litBegin, litAssoc0, litAssoc1, litAssoc0, litAssoc1}
		}
		return []string{litBegin, litAssoc0, litAssoc1}
	}},
}

// families that call exactly one finisher on the handle they are given
var singleCall = map[string]bool{"joins_nested_preload_first": true, "joins_nested_preload_find_one": true, "joins_nested_preload_find": true, "joins_nested_preload_ptrs": true,
	"create_assoc": true, "create_slice": true, "preload": true, "preload_nested": true,
	"joins": true, "joins_preload": true, "count": true, "pluck": true, "first": true, "updates": true, "update_where": true,
	"delete_where": true, "exec": true, "rows": true, "row": true, "scan": true, "raw_scan": true, "create_in_batches": true}

// association mode over every relation kind x operation, from one record and from a slice of records,
// scoped and Unscoped; plus finisher paths the first list does not reach
func init() {
	type relSpec struct {
		name string
		val  func() interface{}
		old  func() interface{}
	}
	rels := []relSpec{
		{"Company", func() interface{} { return &Company{Name: name("ac")} }, func() interface{} { return &Company{ID: 1} }},
		{"Profile", func() interface{} { return &Profile{Bio: name("ab")} }, func() interface{} { return &Profile{ID: 1} }},
		{"Pets", func() interface{} { return &Pet{Name: name("ap")} }, func() interface{} { return &Pet{ID: 1} }},
		{"Langs", func() interface{} { return &Lang{Name: name("al")} }, func() interface{} { return &Lang{ID: 1} }},
	}
	for _, rl := range rels {
		rl := rl
		for _, unscoped := range []bool{false, true} {
			unscoped := unscoped
			for _, fromSlice := range []bool{false, true} {
				fromSlice := fromSlice
				assoc := func(h *gorm.DB) *gorm.Association {
					var m interface{} = &User{ID: 1}
					if fromSlice {
						m = &[]User{{ID: 1}, {ID: 2}}
					}
					d := h.Model(m)
					if unscoped {
						d = d.Unscoped()
					}
					a := d.Association(rl.name)
					if unscoped {
						a = a.Unscoped()
					}
					return a
				}
				sfx := ""
				if unscoped {
					sfx += "_unscoped"
				}
				if fromSlice {
					sfx += "_slice"
				}
				ops := map[string]func(a *gorm.Association) error{
					"append": func(a *gorm.Association) error {
						if fromSlice {
							return a.Append(rl.val(), rl.val())
						}
						return a.Append(rl.val())
					},
					"replace": func(a *gorm.Association) error {
						if fromSlice {
							return a.Replace(rl.val(), rl.val())
						}
						return a.Replace(rl.val())
					},
					"delete": func(a *gorm.Association) error { return a.Delete(rl.old()) },
					"clear":  func(a *gorm.Association) error { return a.Clear() },
					"count":  func(a *gorm.Association) error { a.Count(); return a.Error },
				}
				for _, opn := range []string{"append", "replace", "delete", "clear", "count"} {
					opn, f := opn, ops[opn]
					if unscoped && (opn == "append" || opn == "count") {
						continue
					}
					families = append(families, fam{name: "am_" + strings.ToLower(rl.name) + "_" + opn + sfx,
						run:  func(h *gorm.DB) error { D(amDesc(rl.name, opn, fromSlice)); return f(assoc(h)) },
						path: always(litAssocSave0, litAssocSave1)})
				}
			}
		}
	}
	more := []fam{
		{name: "first_or_init", run: func(h *gorm.DB) error {
			var u User
			D(find("SQuery"))
			return h.Where(User{Name: "nobody"}).Attrs(User{Age: 5}).FirstOrInit(&u).Error
		}, path: always()},
		{name: "first_or_create_found", run: func(h *gorm.DB) error {
			var u User
			D(dOp("TFirstOrCreate", l(find("SQuery")), l(wr("SExec", nil, nil))))
			return h.Where("id = ?", 1).Assign(User{Age: 77}).FirstOrCreate(&u).Error
		}, path: always(litFOC)},
		{name: "first_or_create_attrs", run: func(h *gorm.DB) error {
			var u User
			D(dOp("TFirstOrCreate", l(find("SQuery")), l(wr("SQuery", nil, nil))))
			return h.Where(User{Name: name("foa")}).Attrs(User{Age: 9}).FirstOrCreate(&u).Error
		}, path: always(litFOC)},
		{name: "count_distinct_group", run: func(h *gorm.DB) error {
			var n int64
			D(find("SQuery"), find("SQuery"), find("SQuery"))
			if err := h.Model(&User{}).Distinct("age").Count(&n).Error; err != nil {
				return err
			}
			if err := h.Model(&User{}).Group("age").Count(&n).Error; err != nil {
				return err
			}
			return h.Model(&User{}).Select("name").Count(&n).Error
		}, path: always()},
		{name: "save_slice", run: func(h *gorm.DB) error {
			us := []User{{ID: 1, Name: name("ss"), Age: 31}, {Name: name("ss"), Age: 32}}
			D(wr("SQuery", nil, nil)) // Save of a slice: one Create with ON CONFLICT
			return h.Save(&us).Error
		}, path: always()},
		{name: "update_columns", run: func(h *gorm.DB) error {
			D(wr("SExec", nil, nil), wr("SExec", nil, nil))
			if err := h.Model(&User{ID: 1}).UpdateColumn("age", 50).Error; err != nil {
				return err
			}
			return h.Model(&User{ID: 2}).UpdateColumns(User{Age: 51}).Error
		}, path: always()},
		{name: "delete_conds", run: func(h *gorm.DB) error { D(wr("SExec", nil, nil)); return h.Delete(&Pet{}, "name = ?", "nobody").Error }, path: always()},
		{name: "delete_select_all", run: func(h *gorm.DB) error {
			u := newUser()
			if err := h.Create(u).Error; err != nil {
				return err
			}
			D(createUserTree(wr), wr("SExec", l(delAssoc(wrN("SExec", nil, nil)), delAssoc(wrN("SExec", nil, nil)), delAssoc(wrN("SExec", nil, nil))), nil))
			return h.Select(clause.Associations).Delete(u).Error
		}, path: func(t string) []string {
			if t == "users" {
				return nil
			}
			return []string{litDelAssoc0}
		}},
		{name: "preload_conds", run: func(h *gorm.DB) error {
			var us []User
			err := h.Preload("Pets", "name <> ?", "zz").Preload("Langs", func(d *gorm.DB) *gorm.DB { return d.Order("langs.id") }).Preload("Profile").Find(&us).Error
			x := loadedOf(us)
			D(find("SQuery", relLangs(x), relPets(x), relProfile(x)))
			return err
		}, path: only("users", litPreload)},
		{name: "connection", run: func(h *gorm.DB) error {
			return h.Connection(func(tx *gorm.DB) error {
				if err := tx.Create(&Pet{Name: name("cn")}).Error; err != nil {
					return err
				}
				var n int64
				return tx.Model(&Pet{}).Count(&n).Error
			})
		}, path: always()},
		{name: "savepoint_manual", run: func(h *gorm.DB) error {
			tx := h.Begin()
			if tx.Error != nil {
				return tx.Error
			}
			tx.Create(&Pet{Name: name("sp")})
			tx.SavePoint("sp1")
			tx.Create(&Pet{Name: name("sp")})
			tx.RollbackTo("sp1")
			D(txBlock(wrN("SQuery", nil, nil), rawExec, wrN("SQuery", nil, nil), rawExec))
			return tx.Commit().Error
		}, path: always(litBegin)},
		{name: "begin_rollback", run: func(h *gorm.DB) error {
			tx := h.Begin()
			if tx.Error != nil {
				return tx.Error
			}
			tx.Exec("UPDATE users SET age = age + 1")
			D(txBlock(eStmt))
			return tx.Rollback().Error
		}, path: always(litBegin)},
		{name: "row_exec_in_tx", run: func(h *gorm.DB) error {
			return h.Transaction(func(tx *gorm.DB) error {
				var n string
				if err := tx.Model(&User{}).Select("name").Where("id = ?", 1).Row().Scan(&n); err != nil {
					return err
				}
				rows, err := tx.Model(&User{}).Rows()
				if err != nil {
					return err
				}
				rows.Close()
				D(txBlock(rowStmt, rowStmt, eStmt))
				return tx.Exec("UPDATE users SET age = age + ? WHERE id = ?", 1, 2).Error
			})
		}, path: always(litBegin), rows: true},
		{name: "debug_session", run: func(h *gorm.DB) error {
			var us []User
			D(find("SQuery"))
			return h.Session(&gorm.Session{Logger: logger.Discard}).Where("age > ?", 0).Find(&us).Error
		}, path: always()},
		{name: "scopes", run: func(h *gorm.DB) error {
			var us []User
			err := h.Scopes(func(d *gorm.DB) *gorm.DB { return d.Where("age > ?", 1) }).Preload("Pets").Find(&us).Error
			D(find("SQuery", relPets(loadedOf(us))))
			return err
		}, path: only("users", litPreload)},
	}
	// other argument forms of association mode: values and slices of values instead of pointers, Select /
	// Omit on the association save, and Delete / Clear on a record whose relation is loaded in memory
	// cascading delete of selected relations, scoped and Unscoped, with the default transaction and with
	// SkipDefaultTransaction (only without the enclosing BEGIN does a cancelled context reach the nested
	// statements one by one)
	for _, rel := range []string{"Pets", "Profile", "Langs", "*"} {
		rel := rel
		for _, unscoped := range []bool{false, true} {
			unscoped := unscoped
			for _, skipTx := range []bool{false, true} {
				skipTx := skipTx
				n := "delete_cascade_" + strings.ToLower(strings.ReplaceAll(rel, "*", "all"))
				if unscoped {
					n += "_unscoped"
				}
				if skipTx {
					n += "_skiptx"
				}
				families = append(families, fam{name: n, run: func(h *gorm.DB) error {
					d := h
					if skipTx {
						d = d.Session(&gorm.Session{SkipDefaultTransaction: true})
					}
					if unscoped {
						d = d.Unscoped()
					}
					if rel == "*" {
						d = d.Select(clause.Associations)
					} else {
						d = d.Select(rel)
					}
					// user 2 and its relations were seeded before the operation
					nrel := 1
					if rel == "*" {
						nrel = 3 // Pets, Profile, Langs: belongs-to is not cascaded
					}
					before := []string{}
					for i := 0; i < nrel; i++ {
						before = append(before, delAssoc(wrN("SExec", nil, nil)))
					}
					D(wrT(!skipTx && !cur.skipTx, "SExec", before, nil))
					return d.Delete(&User{ID: 2}).Error
				}, path: func(t string) []string {
					if t == "users" {
						return nil
					}
					return []string{litDelAssoc0}
				}})
				singleCall[n] = true
			}
		}
	}
	// writes whose statement is a query (RETURNING), with the default transaction and without it: under
	// SkipDefaultTransaction no BEGIN stands between a cancelled context and the statement itself
	for _, skipTx := range []bool{false, true} {
		skipTx := skipTx
		sfx := ""
		if skipTx {
			sfx = "_skiptx"
		}
		sess := func(h *gorm.DB) *gorm.DB {
			if skipTx {
				return h.Session(&gorm.Session{SkipDefaultTransaction: true})
			}
			return h
		}
		rw := []fam{
			{name: "create_returning" + sfx, run: func(h *gorm.DB) error {
				D(wrT(!skipTx && !cur.skipTx, "SQuery", nil, nil))
				return sess(h).Create(&Pet{Name: name("cr")}).Error
			}, path: always()},
			{name: "create_returning_clause" + sfx, run: func(h *gorm.DB) error {
				D(wrT(!skipTx && !cur.skipTx, "SQuery", nil, nil))
				return sess(h).Clauses(clause.Returning{Columns: []clause.Column{{Name: "id"}, {Name: "name"}}}).Create(&[]Pet{{Name: name("cr")}, {Name: name("cr")}}).Error
			}, path: always()},
			{name: "update_returning" + sfx, run: func(h *gorm.DB) error {
				var us []User
				D(wrT(!skipTx && !cur.skipTx, "SQuery", nil, nil))
				return sess(h).Model(&us).Clauses(clause.Returning{}).Where("id = ?", 1).Update("age", gorm.Expr("age + 1")).Error
			}, path: always()},
			{name: "delete_returning" + sfx, run: func(h *gorm.DB) error {
				var ps []Pet
				D(wrT(!skipTx && !cur.skipTx, "SQuery", nil, nil))
				return sess(h).Clauses(clause.Returning{}).Where("user_id = ?", 2).Delete(&ps).Error
			}, path: always()},
			{name: "delete_returning_columns" + sfx, run: func(h *gorm.DB) error {
				var ls []Lang
				D(wrT(!skipTx && !cur.skipTx, "SQuery", nil, nil))
				return sess(h).Clauses(clause.Returning{Columns: []clause.Column{{Name: "name"}}}).Where("id = ?", 1).Delete(&ls).Error
			}, path: always()},
			{name: "delete_returning_in_tx" + sfx, run: func(h *gorm.DB) error {
				return sess(h).Transaction(func(tx *gorm.DB) error {
					var ts []Toy
					D(txBlock(wrN("SQuery", nil, nil)))
					return tx.Clauses(clause.Returning{}).Where("id > ?", 0).Delete(&ts).Error
				})
			}, path: always(litBegin)},
		}
		for _, f := range rw {
			families = append(families, f)
			if f.name != "delete_returning_in_tx"+sfx {
				singleCall[f.name] = true
			}
		}
	}
	forms := []fam{
		{name: "am_append_value_forms", run: func(h *gorm.DB) error {
			if err := h.Model(&User{ID: 1}).Association("Pets").Append([]Pet{{Name: name("vf")}, {Name: name("vf")}}); err != nil {
				return err
			}
			if err := h.Model(&User{ID: 1}).Association("Langs").Append(&[]Lang{{Name: name("vf")}}); err != nil {
				return err
			}
			return h.Model(&[]User{{ID: 1}, {ID: 2}}).Association("Pets").Append([]Pet{{Name: name("vf")}}, []Pet{{Name: name("vf")}})
		}, path: always(litAssocSave0, litAssocSave1)},
		{name: "am_append_omit_select", run: func(h *gorm.DB) error {
			if err := h.Model(&User{ID: 1}).Omit("Langs.*").Association("Langs").Append(&Lang{ID: 1}); err != nil {
				return err
			}
			return h.Model(&User{ID: 1}).Select("Pets.Name").Association("Pets").Append(&Pet{Name: name("os")})
		}, path: always(litAssocSave0, litAssocSave1)},
		{name: "am_loaded_delete_clear", run: func(h *gorm.DB) error {
			var u User
			if err := h.Preload("Pets").Preload("Langs").Preload("Company").Preload("Profile").First(&u, 1).Error; err != nil {
				return err
			}
			if len(u.Pets) > 0 {
				if err := h.Model(&u).Association("Pets").Delete(&u.Pets[0]); err != nil {
					return err
				}
			}
			if len(u.Langs) > 0 {
				if err := h.Model(&u).Association("Langs").Delete(u.Langs[0]); err != nil {
					return err
				}
			}
			if u.Company != nil {
				if err := h.Model(&u).Association("Company").Delete(u.Company); err != nil {
					return err
				}
			}
			var us []User
			if err := h.Preload("Pets").Preload("Profile").Find(&us).Error; err != nil {
				return err
			}
			return h.Model(&us).Association("Pets").Clear()
		}, path: func(t string) []string {
			return []string{litPreload, litAssocSave0, litAssocSave1}
		}},
	}
	families = append(families, forms...)
	families = append(families, more...)
	for _, f := range more {
		switch f.name {
		case "first_or_init", "first_or_create_found", "first_or_create_attrs", "save_slice", "delete_conds", "preload_conds", "debug_session", "scopes":
			singleCall[f.name] = true
		}
	}
}

func famByName(n string) *fam {
	for i := range families {
		if families[i].name == n {
			return &families[i]
		}
	}
	return nil
}

// ---------------------------------------------------------------- running
var tableRe = regexp.MustCompile("(?i)(?:INSERT INTO|UPDATE|DELETE FROM|FROM)\\s+[`\"]?(\\w+)")

func tableOf(q string) string {
	m := tableRe.FindStringSubmatch(q)
	if m == nil {
		return ""
	}
	return strings.ToLower(m[1])
}

func verbOf(q string) string {
	f := strings.Fields(q)
	if len(f) == 0 {
		return ""
	}
	return strings.ToUpper(f[0])
}

var wn int

// copies: the context-copying behaviour of the running gorm (probe.Measure)
var copies probe.Copies

func runCase(in Input, facts srcfacts.Facts) Obs {
	wn++
	dsn := fmt.Sprintf("file:c18_%d_%d?mode=memory&cache=shared", os.Getpid(), wn)
	// gorm on SQLite through the recording driver, with the context-identity layer in front of it
	rec := recdrv.NewRecorder()
	clog := &ctxLog{}
	sqlDB := sql.OpenDB(ctxConnector{inner: recdrv.NewConnector(dsn, rec), log: clog})
	db, err := gorm.Open(sqlite.Dialector{Conn: sqlDB}, &gorm.Config{PrepareStmt: in.Prep, DisableForeignKeyConstraintWhenMigrating: true, Logger: logger.Discard})
	lib.Must(err)
	rec.Reset()
	defer sqlDB.Close()
	lib.Must(db.AutoMigrate(&Profile{}, &Office{}, &Company{}, &Toy{}, &Pet{}, &Lang{}, &User{}))
	nextName = 0
	for i := 0; i < 2; i++ {
		lib.Must(db.Create(newUser()).Error)
	}
	lib.Must(db.Create(&[]User{{Name: name("x"), Age: 20}, {Name: name("x"), Age: 21}, {Name: name("x"), Age: 22}, {Name: name("x"), Age: 23}}).Error)
	dump := func() string {
		rec.Recording = false
		defer func() { rec.Recording = true }()
		var sb strings.Builder
		for _, t := range tables {
			rows, err := sqlDB.Query("SELECT * FROM " + t + " ORDER BY 1, 2")
			lib.Must(err)
			cols, _ := rows.Columns()
			for rows.Next() {
				vals := make([]interface{}, len(cols))
				ptrs := make([]interface{}, len(cols))
				for i := range vals {
					ptrs[i] = &vals[i]
				}
				lib.Must(rows.Scan(ptrs...))
				fmt.Fprintf(&sb, "%s:%v\n", t, vals)
			}
			rows.Close()
		}
		return sb.String()
	}
	var o Obs
	for _, op := range in.Ops {
		f := famByName(op.Fam)
		if f == nil {
			panic("unknown family " + op.Fam)
		}
		// the caller's context: tagged, cancellable (its Done channel is what the driver must be handed)
		ctx, cancelOp := context.WithCancel(context.WithValue(context.Background(), recdrv.TagKey, fmt.Sprintf("tag-%d", op.Tag)))
		clog.register(fmt.Sprintf("tag-%d", op.Tag), ctx.Done())
		if op.Cancelled {
			cancelOp()
		}
		defer cancelOp()
		var h *gorm.DB
		if op.Bind == "session" {
			h = db.Session(&gorm.Session{Context: ctx})
		} else {
			h = db.WithContext(ctx)
		}
		if op.Derive != "" {
			h = h.Session(deriveSession(op.Derive))
		}
		if op.Side != "" {
			deriveSide(h, op.Side, 100000+op.Tag)
		}
		before := dump()
		rec.Reset()
		clog.reset()
		var oo OpOut
		func() {
			defer func() {
				if p := recover(); p != nil {
					oo.Err = fmt.Sprint("panic: ", p)
				}
			}()
			cur.desc, cur.ok = nil, false
			cur.skipTx, cur.noNested = has(op.Derive, "skip_default_tx"), has(op.Derive, "disable_nested_tx")
			if err := f.run(h); err != nil {
				oo.Err = err.Error()
			}
		}()
		// CreateBatchSize routes every Create of a slice through CreateInBatches (further Session{} layers)
		if cur.ok && oo.Err == "" && !op.Cancelled && !has(op.Derive, "batch_size") {
			oo.Desc = append([]string{}, cur.desc...)
		}
		evs := rec.Snapshot()
		notes := clog.snapshot()
		oo.Unchanged = dump() == before
		oo.Events = []EvOut{}
		ni := 0
		for _, e := range evs {
			kind := ""
			switch e.Kind {
			case "begin":
				kind = "begin"
			case "prepare":
				kind = "prepare"
			case "exec", "stmt_exec":
				kind = "exec"
			case "query", "stmt_query":
				kind = "query"
			default:
				continue
			}
			tag := 0
			if strings.HasPrefix(e.Tag, "tag-") {
				fmt.Sscan(e.Tag[4:], &tag)
			}
			// the context must be the caller's for cancellation too, not only carry its values: a context
			// with the caller's tag but another (or no) Done channel is observed as -tag
			if ni < len(notes) {
				if tag > 0 && !notes[ni].sameDone {
					tag = -tag
				}
				ni++
			}
			ev := EvOut{Kind: kind, Query: e.Query, Tx: e.Tx != 0, Tag: tag, Failed: e.Err != "", Done: e.CtxErr}
			ev.Path, ev.Site, ev.Inner = attribute(f, e, in.Prep || has(op.Derive, "prepare_stmt"))
			oo.Events = append(oo.Events, ev)
		}
		o.Ops = append(o.Ops, oo)
	}
	return o
}

// attribute names, without using any file or function name of gorm, the derivation path of an event
// (roles of the internal Session literals, from what the harness knows: the family it ran and the
// statement's table / text), the driver method of the callback / finisher call site that issued it,
// and (PrepareStmt) the method of the wrapper's own call site.
func attribute(f *fam, e recdrv.Event, prep bool) (path []string, site, inner string) {
	if e.Kind == "begin" {
		path = []string{litBegin}
		site = "BeginTx"
		if prep {
			inner = "BeginTx"
		}
		return
	}
	verb, table := verbOf(e.Query), tableOf(e.Query)
	if f.pathQ != nil {
		path = append([]string{}, f.pathQ(table, e.Query)...)
	} else {
		path = append([]string{}, f.path(table)...)
	}
	isQuery := e.Kind == "query" || e.Kind == "stmt_query"
	if e.Kind == "prepare" {
		// the statement about to run decides; RETURNING / SELECT are queries
		isQuery = verb == "SELECT" || strings.Contains(strings.ToUpper(e.Query), "RETURNING")
	}
	site = "ExecContext"
	if isQuery {
		site = "QueryContext"
		if f.name == "row" && verb == "SELECT" {
			site = "QueryRowContext"
		}
	}
	if prep {
		inner = site
		if e.Kind == "prepare" {
			inner = "PrepareContext"
		}
	}
	return
}

// ---------------------------------------------------------------- Gallina printing
func gForm(f string) string {
	switch f {
	case srcfacts.Absent:
		return "FAbsent"
	case srcfacts.StmtCtx:
		return "FStmt"
	case srcfacts.Param:
		return "FParam"
	case srcfacts.Background:
		return "FBackground"
	}
	return "FUnknown"
}

// siteForm: the worst context form among the source's call sites of that driver method — callback /
// finisher sites (wrapper = false) or sites that pass on a context parameter (wrapper = true).
func siteForm(facts srcfacts.Facts, method string, wrapper bool) string {
	f, ok := facts.SiteForm(method, wrapper)
	if !ok {
		return "FUnknown"
	}
	return gForm(f)
}

func gLit(facts srcfacts.Facts, role string) string {
	l, ok := facts.Role(role)
	if !ok {
		// the current source has no literal setting exactly these fields: assume one that sets them
		has := func(f string) bool { return strings.Contains(","+role+",", ","+f+",") }
		form := "FAbsent"
		if has("Context") {
			form = "FStmt"
		}
		return lib.App("mk_slit", form, lib.Bool(has("NewDB")), lib.Bool(has("Initialized")), lib.Bool(has("SkipHooks") || has("PrepareStmt")))
	}
	return lib.App("mk_slit", gForm(l.CtxForm), lib.Bool(l.NewDB == "true" || l.NewDB == "expr"), lib.Bool(l.Init), lib.Bool(l.Own()))
}

func term(in Input, o Obs, facts srcfacts.Facts) string {
	ops := make([]string, len(in.Ops))
	for i, op := range in.Ops {
		evs := make([]string, len(o.Ops[i].Events))
		for j, e := range o.Ops[i].Events {
			kind := map[string]string{"begin": "KBegin", "prepare": "KPrepare", "exec": "KExec", "query": "KQuery"}[e.Kind]
			path := []string{}
			if op.Derive != "" {
				path = append(path, deriveLit(op.Derive)) // outermost: the caller's own derivation
			}
			for _, p := range e.Path {
				path = append(path, gLit(facts, p))
			}
			inner := "None"
			if e.Inner != "" {
				inner = "(Some " + siteForm(facts, e.Inner, true) + ")"
			}
			evs[j] = lib.App("mk_ev", kind, lib.List(path), siteForm(facts, e.Site, false), inner, lib.Z(int64(e.Tag)), lib.Bool(e.Failed), lib.Bool(e.Done))
		}
		derive, desc := "None", "None"
		if op.Derive != "" {
			derive = "(Some " + deriveLit(op.Derive) + ")"
		}
		if o.Ops[i].Desc != nil {
			desc = "(Some " + lib.List(o.Ops[i].Desc) + ")"
		}
		ops[i] = lib.App("mk_opc", lib.Z(int64(op.Tag)), lib.Bool(op.Cancelled), lib.Bool(o.Ops[i].Err != ""), lib.Bool(o.Ops[i].Unchanged), lib.List(evs),
			lib.Bool(in.Prep || has(op.Derive, "prepare_stmt")), derive, desc)
	}
	cp := lib.App("mk_copies", lib.Bool(copies.GetInstance), lib.Bool(copies.Clone), lib.Bool(copies.Session))
	return lib.App("mk_case", cp, facts.RolesTerm(), lib.List(ops))
}

func shapeOf(in Input) string {
	var sb strings.Builder
	fmt.Fprintf(&sb, "prep%v", in.Prep)
	for _, op := range in.Ops {
		fmt.Fprintf(&sb, "|%s/%s/%v/%s/%s", op.Fam, op.Bind, op.Cancelled, op.Derive, op.Side)
	}
	return sb.String()
}

func main() {
	a := lib.ParseArgs()
	repo := "/repo"
	if v := os.Getenv("VERIF_REPO"); v != "" {
		repo = v
	}
	facts, err := srcfacts.Extract(repo)
	lib.Must(err)
	copies, err = probe.Measure()
	lib.Must(err)
	out := lib.NewOut(a.Out, "C18")
	out.PerFile = 200

	add := func(kind string, in Input) {
		o := runCase(in, facts)
		n := 0
		for i := range o.Ops {
			n += len(o.Ops[i].Events)
			out.Count("events_per_op", fmt.Sprint(len(o.Ops[i].Events)))
			out.Count("family", in.Ops[i].Fam)
			out.Count("bind", in.Ops[i].Bind)
			out.Count("cancelled", fmt.Sprint(in.Ops[i].Cancelled))
			out.Count("derived_session", "{"+in.Ops[i].Derive+"}")
			out.Count("side_session", "{"+in.Ops[i].Side+"}")
			errk := "nil"
			if o.Ops[i].Err != "" {
				errk = "error"
				if strings.Contains(o.Ops[i].Err, "context canceled") {
					errk = "context canceled"
				}
			}
			out.Count("op_error", errk)
			if o.Ops[i].Desc != nil {
				out.Count("whole_operation", "opdesc")
				out.Count("opdesc_family", in.Ops[i].Fam)
			} else if errk == "nil" && !in.Ops[i].Cancelled {
				out.Count("whole_operation", "per-event only")
				out.Count("no_opdesc_family", in.Ops[i].Fam)
			} else {
				out.Count("whole_operation", "cancelled or failed")
			}
			for _, e := range o.Ops[i].Events {
				out.Count("event_kind", e.Kind)
				out.Count("path_len", fmt.Sprint(len(e.Path)))
			}
		}
		out.Count("prepare_stmt", fmt.Sprint(in.Prep))
		out.Add(lib.Case{Term: term(in, o, facts), JSON: map[string]interface{}{"input": in, "observed": o},
			Sig: "", Kind: kind, Shape: shapeOf(in), Nontriv: n >= 2})
	}
	readCase := func(f string) Input {
		b, err := os.ReadFile(f)
		lib.Must(err)
		var c struct {
			Case struct {
				Input Input `json:"input"`
			} `json:"case"`
		}
		lib.Must(json.Unmarshal(b, &c))
		return c.Case.Input
	}
	if a.Replay != "" {
		add("replay", readCase(a.Replay))
		lib.Must(out.Flush())
		return
	}
	for _, f := range lib.CorpusFiles(a.Corpus) {
		add("corpus", readCase(f))
	}
	r := lib.NewRng(a.Seed)
	// every family x {WithContext, Session{Context}} x PrepareStmt on/off, alone; then pre-cancelled
	tag := 0
	for _, prep := range []bool{false, true} {
		for _, f := range families {
			for _, bind := range []string{"with", "session"} {
				tag++
				add("sweep", Input{Prep: prep, Ops: []OpIn{{Fam: f.name, Bind: bind, Tag: tag}}})
			}
			tag++
			add("cancelled", Input{Prep: prep, Ops: []OpIn{{Fam: f.name, Bind: lib.Pick(r, []string{"with", "session"}), Tag: tag, Cancelled: true}}})
		}
	}
	// a further session derived from the context-bound handle without repeating the context:
	// Session{NewDB: true, <each other option>} and friends, write / read / transaction, live and pre-cancelled
	for _, d := range derivations {
		for _, fn := range []string{"create_assoc", "preload", "transaction", "updates"} {
			if a.Tier != "thorough" && (fn == "transaction" || fn == "updates") && !(strings.Contains(d, "skip_hooks") || strings.Contains(d, "prepare_stmt") || d == "new_db") {
				continue
			}
			for _, cancelled := range []bool{false, true} {
				tag++
				add("derived", Input{Prep: false, Ops: []OpIn{{Fam: fn, Bind: lib.Pick(r, []string{"with", "session"}), Tag: tag, Cancelled: cancelled, Derive: d}}})
			}
		}
		tag++
		add("derived", Input{Prep: true, Ops: []OpIn{{Fam: "create_assoc", Bind: "with", Tag: tag, Derive: d}, {Fam: "preload_nested", Bind: "session", Tag: tag + 1, Derive: d, Cancelled: true}}})
		tag++
	}
	// a side session with another context derived from the handle the operation then runs on
	for _, sd := range sides {
		for _, fn := range []string{"create_assoc", "preload", "transaction", "find_in_batches_limit"} {
			for _, cancelled := range []bool{false, true} {
				if cancelled && fn != "create_assoc" && a.Tier != "thorough" {
					continue
				}
				tag++
				add("side", Input{Prep: fn == "preload", Ops: []OpIn{{Fam: fn, Bind: lib.Pick(r, []string{"with", "session"}), Tag: tag, Cancelled: cancelled, Side: sd}}})
			}
		}
	}
	budget := 1400
	if a.Tier == "thorough" {
		budget = 2500
	}
	if a.N > 0 {
		budget = a.N
	}
	// random programs of 2..4 operations with distinct tags on one database (shared statement cache)
	for len(out.Cases) < budget {
		n := r.Range(2, 4)
		in := Input{Prep: r.Bool()}
		for i := 0; i < n; i++ {
			tag++
			f := lib.Pick(r, families)
			if a.Focus != "" && r.Chance(2, 3) {
				if ff := famByName(strings.SplitN(strings.SplitN(a.Focus, "|", 3)[1], "/", 2)[0]); ff != nil {
					f = *ff
				}
			}
			d := ""
			if r.Chance(1, 3) {
				d = lib.Pick(r, derivations)
				// Session{Initialized: true} hands out an instance, not a reusable handle: a family that
				// issues several finisher calls from the same handle would be caller misuse
				if has(d, "initialized") && !singleCall[f.name] {
					d = "new_db+skip_hooks"
				}
			}
			sd := ""
			if r.Chance(1, 4) {
				sd = lib.Pick(r, sides)
			}
			in.Ops = append(in.Ops, OpIn{Fam: f.name, Bind: lib.Pick(r, []string{"with", "session"}), Tag: tag, Cancelled: r.Chance(1, 8), Derive: d, Side: sd})
		}
		add("main", in)
	}
	out.Extra["rule"] = "cases = programs of 1..4 operations on one database, each operation from one of " + fmt.Sprint(len(families)) + " families (Create with belongs-to/has-many/many2many values, CreateInBatches, Save existing/missing, Updates, Delete with Select(associations), Preload single/nested/clause.Associations, Joins, Joins + preload nested under the joined relation with First/Take/Last/Find(&one)/Find(&slice)/Find(&[]*T) destinations and inside Transaction, Association mode over belongs-to / has-one / has-many / many2many x Append/Replace/Delete/Clear/Count/Find x one record / slice of records x scoped / Unscoped, FirstOrInit, FirstOrCreate (found+Assign, Attrs), Count with Distinct/Group/Select, Save of a slice, UpdateColumn(s), Delete with conditions, Delete with Select(clause.Associations), cascading Delete of one has-many / has-one / many2many relation or all, scoped and Unscoped, with and without SkipDefaultTransaction, writes whose statement is a query (Create / Update / Delete with RETURNING, in and out of Transaction) with and without SkipDefaultTransaction, Preload with conditions and with a scope function, Connection, manual SavePoint/RollbackTo, Begin..Rollback, Row/Rows/Exec inside Transaction, Scopes, FindInBatches with a statement from the batch handle, FindInBatches with Limit / Offset+Limit over several batches in and out of Transaction, a Transaction block deriving a side session with another context, Count, Pluck, First/Take/Last, FirstOrCreate, Scan, Rows, Row, Raw, Exec, Transaction plain/nested with save points/rolled back, Begin..Commit) started from db.WithContext(ctx) or db.Session(&Session{Context: ctx}) with a distinct tag, optionally through a further caller-derived session Session{NewDB / SkipHooks / PrepareStmt / SkipDefaultTransaction / DisableNestedTransaction / AllowGlobalUpdate / FullSaveAssociations / PropagateUnscoped / QueryFields / Initialized / CreateBatchSize combinations} that does not repeat the context, optionally after a side session bound to ANOTHER context (Session{NewDB,Context} / Session{Context} / WithContext, used and/or cancelled) was derived from the very handle the operation runs on, PrepareStmt on/off, 1/8 pre-cancelled; distinct = distinct (PrepareStmt, family/bind/cancelled sequence); non-trivial = at least 2 driver events observed"
	lib.Must(out.Flush())
}

var _ = clause.Associations
