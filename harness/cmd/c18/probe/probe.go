// Package probe measures, on the RUNNING gorm (the tree this binary is linked against), the three
// context-copying behaviours the C18 model calls `copies` — through public API only, so that no
// function or file name of gorm is involved:
//
//	getinstance: a chain method on a NewDB-derived handle (clone = 1: a fresh Statement) keeps the context
//	clone:       a chain method on an ordinary handle (clone = 2: Statement.clone) keeps the context
//	session:     Session{Context: c} binds the derived handle to c and leaves the parent alone
package probe

import (
	"context"

	"gorm.io/gorm"
	"gorm.io/gorm/logger"
	"gorm.io/gorm/utils/tests"
)

type key struct{}

type Copies struct {
	GetInstance bool `json:"getinstance_copies_ctx"`
	Clone       bool `json:"clone_copies_ctx"`
	Session     bool `json:"session_assigns_ctx"`
}

func Measure() (Copies, error) {
	db, err := gorm.Open(tests.DummyDialector{}, &gorm.Config{Logger: logger.Discard, DryRun: true})
	if err != nil {
		return Copies{}, err
	}
	c1 := context.WithValue(context.Background(), key{}, 1)
	c2 := context.WithValue(context.Background(), key{}, 2)
	same := func(h *gorm.DB, c context.Context) bool {
		return h != nil && h.Statement != nil && h.Statement.Context == c
	}
	var cp Copies
	h := db.Session(&gorm.Session{Context: c1})
	side := h.Session(&gorm.Session{Context: c2})
	cp.Session = same(h, c1) && same(side, c2) && same(h, c1) && same(db.WithContext(c2), c2)
	cp.Clone = same(h.Where("1 = 1"), c1) && same(h.Where("1 = 1").Order("id"), c1) && same(h.Session(&gorm.Session{SkipHooks: true}), c1)
	cp.GetInstance = same(h.Session(&gorm.Session{NewDB: true}).Where("1 = 1"), c1) && same(h.Session(&gorm.Session{NewDB: true}).Table("t").Select("x"), c1)
	return cp, nil
}
