// c20: AutoMigrate is idempotent and never loses data.
// Three kinds of cases, all on the REAL gorm migrator:
//
//	decide  Migrator.MigrateColumn driven directly with a generated (field, reported column type)
//	        pair; a recording migrator notes AlterColumn / Create-/DropConstraint calls
//	round   real SQLite through the recording driver: migrate v1, insert rows, migrate v1 again
//	        (no CREATE/ALTER/DROP may reach the driver), migrate v2 = v1 + added fields/indexes/
//	        constraints, dump compare, insert and read a v2 record
//	reorder Migrator.ReorderModels(values, autoAdd=true) on models with foreign keys
package main

import (
	"encoding/json"
	"fmt"
	"os"
	"reflect"
	"regexp"
	"sort"
	"strconv"
	"strings"

	"gorm.io/driver/sqlite"
	"gorm.io/gorm"
	"gorm.io/gorm/logger"
	"gorm.io/gorm/schema"

	"verifharness/lib"
	"verifharness/recdrv"
)

// ---- recording dialector / migrator ----

type recState struct {
	log                          []string // "AddColumn table col", ...
	delegate                     bool     // run the SQLite migrator's DDL as well
	aliases                      map[string][]string
	rec                          *recdrv.Recorder
	genericIndex, genericColumns bool
}

type recDialector struct {
	sqlite.Dialector
	st *recState
}

func (d recDialector) Migrator(db *gorm.DB) gorm.Migrator {
	return recMig{Migrator: d.Dialector.Migrator(db).(sqlite.Migrator), st: d.st}
}

type recMig struct {
	sqlite.Migrator
	st *recState
}

func (m recMig) tbl(value interface{}) string {
	t := "?"
	m.Migrator.RunWithValue(value, func(stmt *gorm.Statement) error { t = stmt.Table; return nil })
	return t
}
func (m recMig) note(kind string, value interface{}, name string) {
	m.st.log = append(m.st.log, kind+" "+m.tbl(value)+" "+name)
}
func (m recMig) AddColumn(value interface{}, name string) error {
	if m.st.delegate {
		// observed at the DDL level: AutoMigrate also calls AddColumn for a field excluded from
		// migration, which must then not reach the database
		n0 := len(ddlOf(m.st.rec))
		err := m.Migrator.AddColumn(value, name)
		if len(ddlOf(m.st.rec)) > n0 {
			m.note("AddColumn", value, name)
		}
		return err
	}
	m.note("AddColumn", value, name)
	return nil
}
func (m recMig) AlterColumn(value interface{}, name string) error {
	m.note("AlterColumn", value, name)
	if m.st.delegate {
		return m.Migrator.AlterColumn(value, name)
	}
	return nil
}
func (m recMig) DropColumn(value interface{}, name string) error {
	m.note("DropColumn", value, name)
	if m.st.delegate {
		return m.Migrator.DropColumn(value, name)
	}
	return nil
}
func (m recMig) CreateConstraint(value interface{}, name string) error {
	m.note("CreateConstraint", value, name)
	if m.st.delegate {
		return m.Migrator.CreateConstraint(value, name)
	}
	return nil
}
func (m recMig) DropConstraint(value interface{}, name string) error {
	m.note("DropConstraint", value, name)
	if m.st.delegate {
		return m.Migrator.DropConstraint(value, name)
	}
	return nil
}
func (m recMig) CreateIndex(value interface{}, name string) error {
	m.note("CreateIndex", value, name)
	if m.st.delegate {
		if m.st.genericIndex {
			// gorm's generic CreateIndex / BuildIndexOptions (what other dialects run): sound on
			// SQLite for indexes without WHERE
			return m.Migrator.Migrator.CreateIndex(value, name)
		}
		return m.Migrator.CreateIndex(value, name)
	}
	return nil
}
func (m recMig) BuildIndexOptions(opts []schema.IndexOption, stmt *gorm.Statement) []interface{} {
	if m.st.genericIndex {
		return m.Migrator.Migrator.BuildIndexOptions(opts, stmt)
	}
	return m.Migrator.BuildIndexOptions(opts, stmt)
}
func (m recMig) ColumnTypes(value interface{}) ([]gorm.ColumnType, error) {
	if m.st.genericColumns {
		// gorm's generic ColumnTypes (SELECT * LIMIT 1 + database/sql column types)
		return m.Migrator.Migrator.ColumnTypes(value)
	}
	return m.Migrator.ColumnTypes(value)
}
func (m recMig) DropIndex(value interface{}, name string) error {
	m.note("DropIndex", value, name)
	if m.st.delegate {
		return m.Migrator.DropIndex(value, name)
	}
	return nil
}
func (m recMig) CreateTable(values ...interface{}) error {
	for _, v := range values {
		m.note("CreateTable", v, "")
	}
	if m.st.delegate {
		return m.Migrator.CreateTable(values...)
	}
	return nil
}
func (m recMig) DropTable(values ...interface{}) error {
	for _, v := range values {
		m.note("DropTable", v, "")
	}
	if m.st.delegate {
		return m.Migrator.DropTable(values...)
	}
	return nil
}
func (m recMig) GetTypeAliases(name string) []string { return m.st.aliases[name] }

func open(st *recState, flags ...string) (*gorm.DB, *recdrv.Recorder) {
	sqlDB, rec := recdrv.Open(":memory:")
	sqlDB.SetMaxOpenConns(1)
	cfg := &gorm.Config{Logger: logger.Discard}
	for _, f := range flags {
		switch f {
		case "disablefk":
			cfg.DisableForeignKeyConstraintWhenMigrating = true
		case "ignorerel":
			cfg.IgnoreRelationshipsWhenMigrating = true
		case "both":
			cfg.DisableForeignKeyConstraintWhenMigrating, cfg.IgnoreRelationshipsWhenMigrating = true, true
		case "genericindex":
			st.genericIndex = true
		case "genericcolumns":
			st.genericColumns = true
		}
	}
	db, err := gorm.Open(recDialector{Dialector: sqlite.Dialector{Conn: sqlDB}, st: st}, cfg)
	lib.Must(err)
	rec.Reset()
	st.rec = rec
	return db, rec
}

// ---- decide cases ----

type FieldIn struct {
	Ignore    bool    `json:"ignore"`
	PK        bool    `json:"pk"`
	DType     string  `json:"dtype"`
	Size      int     `json:"size"`
	Precision int     `json:"precision"`
	NotNull   bool    `json:"notnull"`
	HasDef    bool    `json:"hasdef"`
	DefI      string  `json:"defi"` // "" none | "int" | "str" | "bool": DefaultValueInterface built from Default
	Default   string  `json:"default"`
	GType     string  `json:"gtype"`               // time | bool | num (Int/Uint/Float) | other
	Parsed    string  `json:"parsed,omitempty"`    // fmt.Sprint(DefaultValueInterface) of a num field (round cases)
	IsFloat   bool    `json:"is_float,omitempty"`  // DefaultValueInterface is a float64 ...
	FloatVal  float64 `json:"float_val,omitempty"` // ... with this value
	Comment   string  `json:"comment"`
	Unique    bool    `json:"unique"`
}
type RepIn struct {
	Type       string   `json:"type"`
	Aliases    []string `json:"aliases"`
	Len        int64    `json:"len"`
	LenOK      bool     `json:"len_ok"`
	Prec       int64    `json:"prec"`
	PrecOK     bool     `json:"prec_ok"`
	Nullable   bool     `json:"nullable"`
	NullableOK bool     `json:"nullable_ok"`
	Default    string   `json:"default"`
	DefaultOK  bool     `json:"default_ok"`
	Comment    string   `json:"comment"`
	CommentOK  bool     `json:"comment_ok"`
	Unique     bool     `json:"unique"`
	UniqueOK   bool     `json:"unique_ok"`
}

// fakeCT implements gorm.ColumnType with arbitrary (value, ok) answers.
type fakeCT struct{ r RepIn }

func (c fakeCT) Name() string                      { return "col" }
func (c fakeCT) DatabaseTypeName() string          { return c.r.Type }
func (c fakeCT) ColumnType() (string, bool)        { return c.r.Type, true }
func (c fakeCT) PrimaryKey() (bool, bool)          { return false, false }
func (c fakeCT) AutoIncrement() (bool, bool)       { return false, false }
func (c fakeCT) Length() (int64, bool)             { return c.r.Len, c.r.LenOK }
func (c fakeCT) DecimalSize() (int64, int64, bool) { return c.r.Prec, 0, c.r.PrecOK }
func (c fakeCT) Nullable() (bool, bool)            { return c.r.Nullable, c.r.NullableOK }
func (c fakeCT) Unique() (bool, bool)              { return c.r.Unique, c.r.UniqueOK }
func (c fakeCT) ScanType() reflect.Type            { return reflect.TypeOf("") }
func (c fakeCT) Comment() (string, bool)           { return c.r.Comment, c.r.CommentOK }
func (c fakeCT) DefaultValue() (string, bool)      { return c.r.Default, c.r.DefaultOK }

type MC struct {
	ID  uint
	Col string
}

func mkField(fi FieldIn) *schema.Field {
	f := &schema.Field{Name: "Col", DBName: "col", DataType: schema.DataType(fi.DType), PrimaryKey: fi.PK,
		Size: fi.Size, Precision: fi.Precision, NotNull: fi.NotNull, HasDefaultValue: fi.HasDef, DefaultValue: fi.Default,
		Comment: fi.Comment, Unique: fi.Unique, IgnoreMigration: fi.Ignore,
		FieldType: reflect.TypeOf(""), IndirectFieldType: reflect.TypeOf(""), TagSettings: map[string]string{}}
	switch fi.GType {
	case "time":
		f.GORMDataType = schema.Time
	case "bool":
		f.GORMDataType = schema.Bool
	case "num":
		f.GORMDataType = schema.Int
	default:
		f.GORMDataType = schema.String
	}
	switch fi.DefI {
	case "int":
		n, _ := strconv.ParseInt(fi.Default, 0, 64) // as ParseField does: base 0
		f.DefaultValueInterface = n
	case "float":
		x, _ := strconv.ParseFloat(fi.Default, 64)
		f.DefaultValueInterface = x
		f.GORMDataType = schema.Float
	case "str":
		f.DefaultValueInterface = fi.Default
	case "bool":
		f.DefaultValueInterface = fi.Default == "true"
	}
	return f
}

type DecideObs struct {
	Full   string   `json:"full"`
	DType  string   `json:"dtype_of"`
	Alter  bool     `json:"alter"`
	Unique string   `json:"unique"` // none | drop | create
	Log    []string `json:"log"`
	Err    string   `json:"err"`
}

func runDecide(fi FieldIn, ri RepIn) DecideObs {
	st := &recState{aliases: map[string][]string{}}
	db, _ := open(st)
	defer func() { s, _ := db.DB(); s.Close() }()
	// GetTypeAliases receives the lower-cased reported type name
	st.aliases[strings.ToLower(ri.Type)] = ri.Aliases
	mig := db.Migrator().(recMig)
	f := mkField(fi)
	o := DecideObs{Full: mig.FullDataTypeOf(f).SQL, DType: mig.DataTypeOf(f), Unique: "none"}
	if err := mig.MigrateColumn(&MC{}, f, fakeCT{ri}); err != nil {
		o.Err = err.Error()
	}
	o.Log = st.log
	for _, l := range st.log {
		switch strings.Fields(l)[0] {
		case "AlterColumn":
			o.Alter = true
		case "DropConstraint":
			o.Unique = "drop"
		case "CreateConstraint":
			o.Unique = "create"
		}
	}
	return o
}

var dtypes = []string{"varchar(100)", "VARCHAR(64)", "varchar", "bigint", "integer", "int", "decimal(10,2)", "decimal(12, 4)",
	"numeric(5)", "text", "datetime", "datetime(3)", "boolean", "char(8)", "float", "double precision", "blob",
	"bigint unsigned", "  text  ", "enum('a','b')", "bit(1)", "varchar(255)", "int(11)", "smallint"}
var rtypes = []string{"varchar", "VARCHAR", "bigint", "integer", "int", "INT", "decimal", "numeric", "text", "TEXT", "datetime",
	"boolean", "bool", "char", "float", "double", "blob", "varchar(100)", "bit", "smallint", "enum", "character varying", "int4", ""}
var defaults = []string{"2.5e-07", "0.00000025", "1e21", "1000000000000000000000", "5e0", "+5", "5", "0x10", "16", "1.50", "1.5", "-7", "007", "", "0", "1", "18", "true", "false", "TRUE", "t", "NULL", "null", "n/a", "'x'", "now()", "NOW", "current_timestamp()",
	"CURRENT_TIMESTAMP", "(-)", "abc", "0.5"}

func genDecide(r *lib.Rng, edge bool) (FieldIn, RepIn) {
	fi := FieldIn{DType: lib.Pick(r, dtypes), GType: lib.Pick(r, []string{"other", "other", "time", "bool", "num", "num"})}
	ri := RepIn{}
	// reported type: mostly related to the declared one
	base := strings.ToLower(strings.TrimSpace(fi.DType))
	if i := strings.IndexAny(base, "( "); i > 0 {
		base = base[:i]
	}
	switch r.Intn(6) {
	case 0, 1, 2:
		ri.Type = base
	case 3:
		ri.Type = strings.ToUpper(base)
	case 4:
		ri.Type = strings.ToLower(strings.TrimSpace(fi.DType))
	default:
		ri.Type = lib.Pick(r, rtypes)
	}
	if r.Chance(1, 4) {
		ri.Aliases = [][]string{{"integer", "int4"}, {"bigint"}, {"varchar", "character varying"}, {"decimal", "numeric"}, {base}, {"zzz"}}[r.Intn(6)]
	}
	fi.PK = r.Chance(1, 8)
	fi.Ignore = r.Chance(1, 30)
	sizes := []int{0, 0, 8, 64, 100, 255, 10, 5}
	fi.Size = lib.Pick(r, sizes)
	ri.Len = int64(lib.Pick(r, sizes))
	if r.Chance(1, 2) {
		ri.Len = int64(fi.Size)
	}
	if edge {
		ri.Len = lib.Pick(r, []int64{-1, 0, 1, 100, 64, 11})
	}
	ri.LenOK = r.Chance(3, 4)
	precs := []int{0, 0, 2, 3, 5, 10, 12, 4}
	fi.Precision = lib.Pick(r, precs)
	ri.Prec = int64(lib.Pick(r, precs))
	if r.Chance(1, 2) {
		ri.Prec = int64(fi.Precision)
	}
	ri.PrecOK = r.Chance(1, 2)
	fi.NotNull = r.Chance(1, 3)
	ri.Nullable = r.Bool()
	if r.Chance(1, 2) {
		ri.Nullable = !fi.NotNull
	}
	ri.NullableOK = r.Chance(3, 4)
	fi.HasDef = r.Chance(1, 2)
	fi.Default = lib.Pick(r, defaults)
	if fi.HasDef && r.Chance(1, 3) {
		fi.DefI = lib.Pick(r, []string{"int", "str", "bool"})
		if fi.GType == "num" {
			fi.DefI = lib.Pick(r, []string{"int", "int", "float"})
		}
	}
	if !fi.HasDef && r.Chance(2, 3) {
		fi.Default = ""
	}
	ri.Default = lib.Pick(r, defaults)
	if r.Chance(1, 2) {
		ri.Default = fi.Default
	}
	ri.DefaultOK = r.Chance(1, 2)
	if r.Chance(1, 2) {
		ri.DefaultOK = fi.HasDef && !strings.EqualFold(fi.Default, "NULL")
	}
	comments := []string{"", "", "", "c1", "other"}
	fi.Comment = lib.Pick(r, comments)
	ri.Comment = lib.Pick(r, comments)
	if r.Chance(2, 3) {
		ri.Comment = fi.Comment
	}
	ri.CommentOK = r.Chance(1, 3)
	fi.Unique = r.Chance(1, 4)
	ri.Unique = r.Chance(1, 4)
	if r.Chance(1, 2) {
		ri.Unique = fi.Unique
	}
	ri.UniqueOK = r.Chance(2, 3)
	return fi, ri
}

// genMatching: a reported column derived from the field so that it MATCHES it by construction (same
// type name with the declared size / precision, agreeing nullability, comment, uniqueness, and a
// default reported in one of the spellings a dialect may use: the tag text, the parsed value as gorm
// prints it, or - for floats - the same number in another notation).  The property then demands that
// MigrateColumn leaves the column alone.
func genMatching(r *lib.Rng) (FieldIn, RepIn) {
	fi, _ := genDecide(r, false)
	fi.Ignore = false
	base := strings.ToLower(strings.TrimSpace(fi.DType))
	if i := strings.IndexAny(base, "( "); i > 0 {
		base = base[:i]
	}
	ri := RepIn{Type: base, Len: int64(fi.Size), LenOK: r.Bool(), NullableOK: r.Bool(), Nullable: !fi.NotNull,
		CommentOK: r.Bool(), Comment: fi.Comment, UniqueOK: r.Bool(), Unique: fi.Unique}
	if r.Bool() {
		ri.Type = strings.ToUpper(base)
	}
	if r.Bool() {
		ri.PrecOK, ri.Prec = true, int64(fi.Precision)
	}
	if fi.GType == "num" {
		fi.HasDef = true
		fi.DefI = lib.Pick(r, []string{"int", "float"})
		if fi.DefI == "int" {
			fi.Default = lib.Pick(r, []string{"5", "+5", "0x10", "007", "-7", "0", "16"})
		} else {
			fi.Default = lib.Pick(r, []string{"1.5", "1.50", "2.5e-07", "0.00000025", "1e21", "5e0", "0.00005", "2"})
		}
	}
	cur := fi.HasDef && (fi.DefI != "" || !strings.EqualFold(fi.Default, "NULL"))
	ri.DefaultOK = cur
	if cur {
		ri.Default = fi.Default // the tag text
		if fi.GType == "num" {
			switch r.Intn(3) {
			case 1: // the parsed value as gorm prints it
				if fi.DefI == "int" {
					n, _ := strconv.ParseInt(fi.Default, 0, 64)
					ri.Default = fmt.Sprint(n)
				} else {
					x, _ := strconv.ParseFloat(fi.Default, 64)
					ri.Default = fmt.Sprint(x)
				}
			case 2: // the same number in plain decimal / exponent notation
				if fi.DefI == "float" {
					x, _ := strconv.ParseFloat(fi.Default, 64)
					ri.Default = strconv.FormatFloat(x, lib.Pick(r, []byte{'f', 'e'}), -1, 64)
				}
			}
		}
	}
	return fi, ri
}

// ---- Gallina ----
func gField(name string, fi FieldIn, full, dtype, reportedDefault string) string {
	g := map[string]string{"time": "GTime", "bool": "GBool"}[fi.GType]
	if fi.GType == "num" {
		parsed := "None"
		isFloat, fv := fi.IsFloat, fi.FloatVal
		switch {
		case fi.Parsed != "":
			parsed = "(Some " + lib.Str(fi.Parsed) + ")"
		case fi.DefI == "int":
			n, _ := strconv.ParseInt(fi.Default, 0, 64)
			parsed = "(Some " + lib.Str(fmt.Sprint(n)) + ")"
		case fi.DefI == "float":
			x, _ := strconv.ParseFloat(fi.Default, 64)
			parsed = "(Some " + lib.Str(fmt.Sprint(x)) + ")"
			isFloat, fv = true, x
		}
		// does the REPORTED default parse (strconv.ParseFloat, Go runtime) to the parsed float default?
		same := false
		if isFloat {
			if got, err := strconv.ParseFloat(reportedDefault, 64); err == nil && got == fv {
				same = true
			}
		}
		g = "(GNum " + parsed + " " + lib.Bool(same) + ")"
	}
	if g == "" {
		g = "GOther"
	}
	return lib.App("mk_field", lib.Str(name), lib.Bool(fi.Ignore), lib.Bool(fi.PK), lib.Str(full), lib.Str(dtype),
		lib.Z(int64(fi.Size)), lib.Z(int64(fi.Precision)), lib.Bool(fi.NotNull), lib.Bool(fi.HasDef), lib.Bool(fi.DefI != ""),
		lib.Str(fi.Default), g, lib.Str(fi.Comment), lib.Bool(fi.Unique))
}
func gRep(ri RepIn) string {
	return lib.App("mk_rep", lib.Str(ri.Type), lib.ListOf(ri.Aliases, lib.Str), lib.Z(ri.Len), lib.Bool(ri.LenOK),
		lib.Z(ri.Prec), lib.Bool(ri.PrecOK), lib.Bool(ri.Nullable), lib.Bool(ri.NullableOK), lib.Str(ri.Default), lib.Bool(ri.DefaultOK),
		lib.Str(ri.Comment), lib.Bool(ri.CommentOK), lib.Bool(ri.Unique), lib.Bool(ri.UniqueOK))
}
func gUnique(u string) string {
	return map[string]string{"none": "UNone", "drop": "UDrop", "create": "UCreate"}[u]
}

// ---- round cases ----

type pair struct {
	Name   string
	V1, V2 interface{}
	Deps   []interface{} // migrated first (foreign key targets)
}

var pairs = []pair{
	{"P1", &P1{}, &P1v2{}, nil}, {"P2", &P2{}, &P2v2{}, nil}, {"P3", &P3{}, &P3v2{}, nil},
	{"P4", &P4{}, &P4v2{}, nil}, {"P5", &P5{}, &P5v2{}, nil}, {"P6", &P6{}, &P6v2{}, []interface{}{&Owner{}}},
	{"P7", &P7{}, &P7v2{}, nil},
	{"P8", &P8{}, &P8v2{}, []interface{}{&P8Tag{}}},
	{"P9", &P9{}, &P9v2{}, nil},
	{"P11", &P11{}, &P11v2{}, nil},
	{"P12", &P12{}, &P12v2{}, []interface{}{&P12Author{}}},
	{"P13", &P13{}, &P13v2{}, nil},
	{"P15", &P15{}, &P15v2{}, nil},
	{"P16", &P16{}, &P16v2{}, nil},
	{"P14", &P14{}, &P14v2{}, nil},
	{"P10", &P10Emp{}, &P10Empv2{}, []interface{}{&P10Co{}, &P10Dept{}, &P10Lang{}}},
}

type RoundIn struct {
	Pair  string `json:"pair"`
	Rows  int    `json:"rows"`
	Seed  uint64 `json:"seed"`
	Flags string `json:"flags,omitempty"` // "" | disablefk | ignorerel | both (migrator configuration)
}
type ColObs struct {
	Field FieldIn `json:"field"`
	Name  string  `json:"name"`
	Full  string  `json:"full"`
	DType string  `json:"dtype_of"`
	Rep   RepIn   `json:"reported"`
}
type ModelObs struct {
	Table       string   `json:"table"`
	Cols        []ColObs `json:"cols"`   // model fields in DBNames order, with what SQLite reports (if the column exists)
	Exists      []bool   `json:"exists"` // column present before this migration
	Constraints []string `json:"constraints"`
	Indexes     []string `json:"indexes"`
	HaveCons    []string `json:"have_constraints"` // of those, present before this migration
	HaveIdx     []string `json:"have_indexes"`
	API         []string `json:"api"` // migrator calls recorded during this migration
	DDL         []string `json:"ddl"` // CREATE/ALTER/DROP statements seen by the recording driver
}
type RoundObs struct {
	Errs   []string   `json:"errs"`
	First  ModelObs   `json:"first"`  // migrate v1 on an empty database
	Again  ModelObs   `json:"again"`  // migrate v1 again
	Extend ModelObs   `json:"extend"` // migrate v2
	Before [][]string `json:"before"` // dump of the v1 columns before v2
	After  [][]string `json:"after"`  // the same columns after v2
	NewOK  bool       `json:"new_ok"` // a v2 record was created and read back equal
	Again2 []string   `json:"again2"` // DDL of migrating v2 a second time
}

var ddlRe = regexp.MustCompile(`(?i)^\s*(CREATE|ALTER|DROP)\b`)

func ddlOf(rec *recdrv.Recorder) []string {
	var out []string
	for _, e := range rec.Snapshot() {
		if e.Query != "" && ddlRe.MatchString(e.Query) && (e.Kind == "exec" || e.Kind == "query" || e.Kind == "stmt_exec" || e.Kind == "stmt_query") {
			out = append(out, e.Query)
		}
	}
	return out
}

func fieldIn(f *schema.Field) FieldIn {
	fi := FieldIn{Ignore: f.IgnoreMigration, PK: f.PrimaryKey, DType: string(f.DataType), Size: f.Size, Precision: f.Precision,
		NotNull: f.NotNull, HasDef: f.HasDefaultValue, Default: f.DefaultValue, Comment: f.Comment, Unique: f.Unique, GType: "other"}
	if f.DefaultValueInterface != nil {
		fi.DefI = "x"
	}
	switch f.GORMDataType {
	case schema.Time:
		fi.GType = "time"
	case schema.Bool:
		fi.GType = "bool"
	case schema.Int, schema.Uint, schema.Float:
		fi.GType = "num"
		if f.DefaultValueInterface != nil {
			fi.Parsed = fmt.Sprint(f.DefaultValueInterface)
			if x, ok := f.DefaultValueInterface.(float64); ok {
				fi.IsFloat, fi.FloatVal = true, x
			}
		}
	}
	return fi
}

func repOf(ct gorm.ColumnType, mig recMig) RepIn {
	ri := RepIn{Type: ct.DatabaseTypeName()}
	ri.Aliases = mig.GetTypeAliases(strings.ToLower(ri.Type))
	ri.Len, ri.LenOK = ct.Length()
	ri.Prec, _, ri.PrecOK = ct.DecimalSize()
	ri.Nullable, ri.NullableOK = ct.Nullable()
	ri.Default, ri.DefaultOK = ct.DefaultValue()
	ri.Comment, ri.CommentOK = ct.Comment()
	ri.Unique, ri.UniqueOK = ct.Unique()
	return ri
}

// observe the state a migration of `model` will see, then run it
func migrateObserved(db *gorm.DB, rec *recdrv.Recorder, st *recState, model interface{}, deps []interface{}, errs *[]string) ModelObs {
	var o ModelObs
	stmt := &gorm.Statement{DB: db}
	lib.Must(stmt.Parse(model))
	sch := stmt.Schema
	o.Table = sch.Table
	mig := db.Migrator().(recMig)
	has := db.Migrator().HasTable(model)
	var cts []gorm.ColumnType
	if has {
		cts, _ = db.Migrator().ColumnTypes(model)
	}
	for _, dbn := range sch.DBNames {
		f := sch.FieldsByDBName[dbn]
		co := ColObs{Field: fieldIn(f), Name: dbn, Full: mig.FullDataTypeOf(f).SQL, DType: mig.DataTypeOf(f)}
		found := false
		for _, ct := range cts {
			if ct.Name() == dbn {
				co.Rep = repOf(ct, mig)
				found = true
				break
			}
		}
		o.Cols = append(o.Cols, co)
		o.Exists = append(o.Exists, found)
	}
	// constraints in the order AutoMigrate visits them: relations (map order: sorted here, at most
	// one per model in this family), then checks; then indexes
	// (foreign keys only when neither DisableForeignKeyConstraintWhenMigrating nor
	// IgnoreRelationshipsWhenMigrating is set: the documented meaning of the two switches)
	var fks []string
	if !db.DisableForeignKeyConstraintWhenMigrating && !db.IgnoreRelationshipsWhenMigrating {
		for _, rel := range sch.Relationships.Relations {
			if rel.Field.IgnoreMigration {
				continue // a relation tagged -:migration is excluded from migration
			}
			if c := rel.ParseConstraint(); c != nil && c.Schema == sch {
				fks = append(fks, c.Name)
			}
		}
	}
	sort.Strings(fks)
	o.Constraints = fks
	for _, chk := range sch.ParseCheckConstraints() {
		o.Constraints = append(o.Constraints, chk.Name)
	}
	// ParseCheckConstraints returns a map: AutoMigrate visits it in map order; sort for a canonical form
	// AutoMigrate visits relations and check constraints in map order: constraint names (and the
	// runs of consecutive CreateConstraint calls below) are compared in sorted order
	sort.Strings(o.Constraints)
	for _, idx := range sch.ParseIndexes() {
		o.Indexes = append(o.Indexes, idx.Name)
	}
	if has {
		for _, c := range o.Constraints {
			if db.Migrator().HasConstraint(model, c) {
				o.HaveCons = append(o.HaveCons, c)
			}
		}
		for _, i := range o.Indexes {
			if db.Migrator().HasIndex(model, i) {
				o.HaveIdx = append(o.HaveIdx, i)
			}
		}
	}
	rec.Reset()
	st.log = nil
	if err := db.AutoMigrate(model); err != nil {
		*errs = append(*errs, "automigrate "+o.Table+": "+err.Error())
	}
	// calls on the model's own table (a many2many model also migrates its join tables; those
	// count through the driver-level DDL below)
	o.API = []string{}
	for _, l := range st.log {
		if f := strings.Fields(l); len(f) > 1 && f[1] == o.Table {
			o.API = append(o.API, l)
		}
	}
	for i := 0; i < len(o.API); {
		j := i
		for j < len(o.API) && strings.HasPrefix(o.API[j], "CreateConstraint ") {
			j++
		}
		if j > i {
			sort.Strings(o.API[i:j])
			i = j
		} else {
			i++
		}
	}
	o.DDL = ddlOf(rec)
	if !has {
		o.Exists = nil
	}
	return o
}

func dump(db *gorm.DB, table string, cols []string) [][]string {
	q := make([]string, len(cols))
	for i, c := range cols {
		q[i] = "quote(`" + c + "`)"
	}
	rows, err := db.Raw("SELECT " + strings.Join(q, ",") + " FROM `" + table + "` ORDER BY rowid").Rows()
	if err != nil {
		return [][]string{{"!err " + err.Error()}}
	}
	defer rows.Close()
	out := [][]string{}
	for rows.Next() {
		cells := make([]string, len(cols))
		ptrs := make([]interface{}, len(cols))
		for i := range cells {
			ptrs[i] = &cells[i]
		}
		if err := rows.Scan(ptrs...); err != nil {
			return [][]string{{"!err " + err.Error()}}
		}
		out = append(out, cells)
	}
	return out
}

func runRound(in RoundIn) RoundObs {
	var o RoundObs
	var p pair
	for _, q := range pairs {
		if q.Name == in.Pair {
			p = q
		}
	}
	st := &recState{delegate: true, aliases: map[string][]string{}}
	db, rec := open(st, in.Flags)
	defer func() { s, _ := db.DB(); s.Close() }()
	if in.Flags == "tableopts" {
		db = db.Set("gorm:table_options", " STRICT").Session(&gorm.Session{})
	}
	for _, d := range p.Deps {
		if err := db.AutoMigrate(d); err != nil {
			o.Errs = append(o.Errs, "deps: "+err.Error())
		}
	}
	o.First = migrateObserved(db, rec, st, p.V1, p.Deps, &o.Errs)
	// rows
	r := lib.NewRng(in.Seed)
	if in.Pair == "P6" {
		db.Create(&Owner{ID: 1, Name: "o"})
	}
	for i := 0; i < in.Rows; i++ {
		rec1 := fillRecord(r, p.V1, i)
		if err := db.Omit(notMigrated(db, rec1)...).Create(rec1).Error; err != nil {
			o.Errs = append(o.Errs, "insert: "+err.Error())
		}
	}
	o.Again = migrateObserved(db, rec, st, p.V1, p.Deps, &o.Errs)
	var cols []string
	for _, c := range o.First.Cols {
		if !c.Field.Ignore {
			cols = append(cols, c.Name)
		}
	}
	o.Before = dump(db, o.First.Table, cols)
	missingIndexes(db, p.V1, o.First.Table, "v1", &o.Errs)
	missingUniques(db, p.V1, o.First.Table, "v1", &o.Errs)
	// preview: AutoMigrate(v2) in a DryRun session over the v1 table must leave the schema as it is
	// (the real migration below must still find everything to do)
	snap := schemaSnapshot(db, o.First.Table)
	rec.Reset()
	func() {
		defer func() {
			// (the SQLite migrator dereferences a nil Row when a DryRun migration re-creates a table:
			// driver code outside /repo; the snapshot comparison below still applies)
			recover()
		}()
		if err := db.Session(&gorm.Session{DryRun: true, Logger: logger.Discard}).AutoMigrate(p.V2); err != nil {
			o.Errs = append(o.Errs, "dry run of v2: "+err.Error())
		}
	}()
	if n := len(ddlOf(rec)); n > 0 {
		o.Errs = append(o.Errs, fmt.Sprintf("dry run of v2 sent %d schema-changing statements: %s", n, ddlOf(rec)[0]))
	}
	if after := schemaSnapshot(db, o.First.Table); after != snap {
		o.Errs = append(o.Errs, "dry run of v2 changed the schema: "+after)
	}
	o.Extend = migrateObserved(db, rec, st, p.V2, p.Deps, &o.Errs)
	missingIndexes(db, p.V2, o.First.Table, "v2", &o.Errs)
	missingUniques(db, p.V2, o.First.Table, "v2", &o.Errs)
	o.After = dump(db, o.First.Table, cols)
	// every belongs-to the struct declares has its foreign key in the migrated table (read from
	// the struct by this harness, looked for in the stored table definition)
	if in.Flags != "disablefk" && in.Flags != "ignorerel" && in.Flags != "both" {
		var ddl string
		db.Raw("SELECT sql FROM sqlite_master WHERE type = 'table' AND name = ?", o.First.Table).Row().Scan(&ddl)
		for _, col := range expectedFKColumns(p.V2) {
			if !strings.Contains(ddl, "FOREIGN KEY (`"+col+"`)") {
				o.Errs = append(o.Errs, "the migrated table has no foreign key on "+col+" (belongs-to declared by the model)")
			}
		}
	}
	// the migrated table accepts and returns records of the new model
	rec2 := fillRecord(r, p.V2, 1000)
	if err := db.Omit(notMigrated(db, rec2)...).Create(rec2).Error; err != nil {
		o.Errs = append(o.Errs, "insert v2: "+err.Error())
	} else {
		back := reflect.New(reflect.TypeOf(p.V2).Elem())
		if err := db.Order("rowid desc").Take(back.Interface()).Error; err != nil {
			o.Errs = append(o.Errs, "read v2: "+err.Error())
		} else {
			a, _ := json.Marshal(zeroTimes(rec2))
			b, _ := json.Marshal(zeroTimes(back.Interface()))
			o.NewOK = string(a) == string(b)
			if !o.NewOK {
				o.Errs = append(o.Errs, "v2 record differs: "+string(a)+" vs "+string(b))
			}
		}
	}
	// DryRun: AutoMigrate of the extended model in DryRun mode sends no schema-changing statement
	rec.Reset()
	func() {
		defer func() {
			// (the SQLite migrator dereferences a nil Row when a DryRun migration wants to alter a
			// column: that is outside /repo; a matching database never gets there)
			recover()
		}()
		if err := db.Session(&gorm.Session{DryRun: true, Logger: logger.Discard}).AutoMigrate(p.V2); err != nil {
			o.Errs = append(o.Errs, "dry run: "+err.Error())
		}
	}()
	if n := len(ddlOf(rec)); n > 0 {
		o.Errs = append(o.Errs, fmt.Sprintf("dry run sent %d schema-changing statements", n))
	}
	if in.Pair == "P8" && in.Flags != "ignorerel" && in.Flags != "both" {
		// (IgnoreRelationshipsWhenMigrating: the join tables are not migrated, by design)
		linkTest(db, &o)
	}
	rec.Reset()
	st.log = nil
	if err := db.AutoMigrate(p.V2); err != nil {
		o.Errs = append(o.Errs, "automigrate v2 again: "+err.Error())
	}
	o.Again2 = append(ddlOf(rec), st.log...)
	return o
}

// linkTest: the migrated many2many tables accept and return links: two owners sharing a target.
func linkTest(db *gorm.DB, o *RoundObs) {
	tags := []P8Tag{{Code: "db", Slug: "s-db"}, {Code: "go", Slug: "s-go"}}
	if err := db.Create(&tags).Error; err != nil {
		o.Errs = append(o.Errs, "tags: "+err.Error())
		return
	}
	ann := P8v2{Name: "ann-link", Tags: []P8Tag{tags[0], tags[1]}, Subs: []P8Tag{tags[1]}}
	bob := P8v2{Name: "bob-link", Tags: []P8Tag{tags[1]}, Subs: []P8Tag{tags[1], tags[0]}}
	for _, p := range []*P8v2{&ann, &bob} {
		if err := db.Create(p).Error; err != nil {
			o.Errs = append(o.Errs, "link create: "+err.Error())
		}
	}
	want := map[string]string{"ann-link": "db,go|s-go", "bob-link": "go|s-db,s-go"}
	var back []P8v2
	if err := db.Preload("Tags").Preload("Subs").Where("name LIKE ?", "%-link").Find(&back).Error; err != nil {
		o.Errs = append(o.Errs, "link read: "+err.Error())
	}
	for _, p := range back {
		var a, b []string
		for _, t := range p.Tags {
			a = append(a, t.Code)
		}
		for _, t := range p.Subs {
			b = append(b, t.Slug)
		}
		sort.Strings(a)
		sort.Strings(b)
		got := strings.Join(a, ",") + "|" + strings.Join(b, ",")
		if got != want[p.Name] {
			o.Errs = append(o.Errs, fmt.Sprintf("links of %s: stored %s, loaded %s", p.Name, want[p.Name], got))
		}
		delete(want, p.Name)
	}
	for n := range want {
		o.Errs = append(o.Errs, "link owner not read back: "+n)
	}
}

// zeroTimes clears time fields (zone/monotonic representation differs after a read)
func zeroTimes(x interface{}) interface{} {
	v := reflect.ValueOf(x).Elem()
	c := reflect.New(v.Type())
	c.Elem().Set(v)
	var walk func(v reflect.Value)
	walk = func(v reflect.Value) {
		for i := 0; i < v.NumField(); i++ {
			f := v.Field(i)
			switch {
			case f.Type().String() == "time.Time":
				f.Set(reflect.Zero(f.Type()))
			case f.Type().String() == "*time.Time":
				f.Set(reflect.Zero(f.Type()))
			case f.Kind() == reflect.Struct && f.Type().PkgPath() == "main":
				walk(f)
			}
		}
	}
	walk(c.Elem())
	return c.Interface()
}

// expectedFKColumns: the foreign-key columns of the belongs-to relations a struct declares at top
// level: a struct / pointer-to-struct field F whose type is a model (has an ID field) and whose
// foreign key (foreignKey: tag, else F+"ID") is a field of the declaring struct; not when the
// relation is excluded (-:migration, constraint:-) or mirrored by a has-one / has-many of the target
// over the same key (gorm attaches that constraint to the other side).
func expectedFKColumns(model interface{}) []string {
	t := reflect.TypeOf(model).Elem()
	ns := schema.NamingStrategy{}
	var out []string
	for i := 0; i < t.NumField(); i++ {
		f := t.Field(i)
		ft := f.Type
		if ft.Kind() == reflect.Ptr {
			ft = ft.Elem()
		}
		if ft.Kind() != reflect.Struct || ft.PkgPath() != "main" {
			continue
		}
		if _, isModel := ft.FieldByName("ID"); !isModel {
			continue
		}
		ts := schema.ParseTagSetting(f.Tag.Get("gorm"), ";")
		if _, ok := ts["EMBEDDED"]; ok || ts["-"] != "" || ts["CONSTRAINT"] == "-" || ts["POLYMORPHIC"] != "" {
			continue
		}
		fk := ts["FOREIGNKEY"]
		if fk == "" {
			fk = f.Name + "ID"
		}
		if _, own := t.FieldByName(fk); !own {
			continue // has-one: the key lives in the other table
		}
		mirrored := false
		for j := 0; j < ft.NumField(); j++ {
			g := ft.Field(j)
			gt := g.Type
			for gt.Kind() == reflect.Ptr || gt.Kind() == reflect.Slice {
				gt = gt.Elem()
			}
			if gt.Kind() == reflect.Struct && (gt == t || strings.TrimSuffix(gt.Name(), "v2") == strings.TrimSuffix(t.Name(), "v2")) && g.Type.Kind() != reflect.Ptr {
				if schema.ParseTagSetting(g.Tag.Get("gorm"), ";")["FOREIGNKEY"] == fk {
					mirrored = true
				}
			}
		}
		if !mirrored {
			out = append(out, ns.ColumnName("", fk))
		}
	}
	return out
}

// schemaSnapshot: the stored definitions of a table and its indexes.
func schemaSnapshot(db *gorm.DB, table string) string {
	var sqls []string
	db.Raw("SELECT coalesce(sql,name) FROM sqlite_master WHERE tbl_name = ? ORDER BY type, name", table).Scan(&sqls)
	return strings.Join(sqls, " | ")
}

// missingIndexes: every index the struct's tags declare (read by this harness: settings split on
// ';' and trimmed, as the documentation writes them) exists after the migration.
func missingIndexes(db *gorm.DB, model interface{}, table, which string, errs *[]string) {
	t := reflect.TypeOf(model).Elem()
	ns := schema.NamingStrategy{}
	want := map[string]bool{}
	for i := 0; i < t.NumField(); i++ {
		f := t.Field(i)
		col := ""
		var idx []string
		for _, part := range strings.Split(f.Tag.Get("gorm"), ";") {
			kv := strings.SplitN(strings.TrimSpace(part), ":", 2)
			k := strings.ToUpper(strings.TrimSpace(kv[0]))
			v := ""
			if len(kv) > 1 {
				v = strings.TrimSpace(kv[1])
			}
			switch k {
			case "COLUMN":
				col = v
			case "INDEX", "UNIQUEINDEX":
				idx = append(idx, v)
			}
		}
		if f.Type.Kind() == reflect.Struct && len(idx) == 0 {
			continue
		}
		if col == "" {
			col = ns.ColumnName("", f.Name)
		}
		for _, v := range idx {
			opts := strings.Split(v, ",")
			name := strings.TrimSpace(opts[0])
			if name == "" {
				name = ns.IndexName(table, f.Name) // gorm names an index after the field
				for _, o := range opts[1:] {
					if kv := strings.SplitN(o, ":", 2); strings.EqualFold(strings.TrimSpace(kv[0]), "composite") && len(kv) == 2 {
						name = ns.IndexName(table, strings.TrimSpace(kv[1]))
					}
				}
			}
			want[name] = true
		}
	}
	for name := range want {
		var n int
		db.Raw("SELECT count(*) FROM sqlite_master WHERE type = 'index' AND tbl_name = ? AND name = ?", table, name).Row().Scan(&n)
		if n == 0 {
			*errs = append(*errs, fmt.Sprintf("after migrating %s the index %s declared by the model does not exist", which, name))
		}
	}
}

// missingUniques: every column a top-level field tags `unique` carries a UNIQUE constraint in the
// stored table definition.
func missingUniques(db *gorm.DB, model interface{}, table, which string, errs *[]string) {
	t := reflect.TypeOf(model).Elem()
	ns := schema.NamingStrategy{}
	var ddl string
	db.Raw("SELECT sql FROM sqlite_master WHERE type = 'table' AND name = ?", table).Row().Scan(&ddl)
	for i := 0; i < t.NumField(); i++ {
		f := t.Field(i)
		col, uniq := "", false
		for _, part := range strings.Split(f.Tag.Get("gorm"), ";") {
			kv := strings.SplitN(strings.TrimSpace(part), ":", 2)
			switch strings.ToUpper(strings.TrimSpace(kv[0])) {
			case "COLUMN":
				if len(kv) > 1 {
					col = strings.TrimSpace(kv[1])
				}
			case "UNIQUE":
				uniq = len(kv) == 1 || !strings.EqualFold(strings.TrimSpace(kv[1]), "false")
			}
		}
		if !uniq || f.Type.Kind() == reflect.Struct {
			continue
		}
		if col == "" {
			col = ns.ColumnName("", f.Name)
		}
		if !strings.Contains(ddl, "UNIQUE (`"+col+"`)") {
			*errs = append(*errs, fmt.Sprintf("after migrating %s the column %s tagged unique has no UNIQUE constraint", which, col))
		}
	}
}

// roundSig: known-finding signature of a round input.
func roundSig(in RoundIn) string {
	return "" // (the P14 / P16 findings are fixed in /repo: fa267c0, 652c1bd)
}

// notMigrated: names of the fields excluded from migration (their columns need not exist)
func notMigrated(db *gorm.DB, model interface{}) []string {
	stmt := &gorm.Statement{DB: db}
	lib.Must(stmt.Parse(model))
	out := []string{}
	for _, f := range stmt.Schema.Fields {
		if f.IgnoreMigration && f.DBName != "" {
			out = append(out, f.Name)
		}
	}
	return out
}

// fixed values by field name: rows that are duplicates OUTSIDE the condition of a partial unique index
var fixedByName = map[string]interface{}{"Kind": "bug", "Sev": "lo", "U1": "u", "U2": int64(5), "Tnt": "t", "Eml": "e", "Arch": int64(1), "Shadow": "", "Ghost": ""}

func fillRecord(r *lib.Rng, model interface{}, i int) interface{} {
	t := reflect.TypeOf(model).Elem()
	rec := reflect.New(t)
	var fill func(v reflect.Value, depth int)
	fill = func(v reflect.Value, depth int) {
		for k := 0; k < v.NumField(); k++ {
			f := v.Field(k)
			sf := v.Type().Field(k)
			name := sf.Name
			switch {
			case name == "ID" || name == "Owner":
				// auto-increment key / association left alone
			case name == "OwnerID":
				f.SetUint(1)
			case fixedByName[name] != nil:
				f.Set(reflect.ValueOf(fixedByName[name]))
			case f.Kind() == reflect.String:
				s := fmt.Sprintf("%s%d-%d", strings.ToLower(name[:1]), i, r.Intn(1000000))
				if len(s) > 10 {
					s = s[:10]
				}
				f.SetString(s)
			case f.Kind() >= reflect.Int && f.Kind() <= reflect.Int64:
				f.SetInt(int64(r.Intn(100)))
			case f.Kind() >= reflect.Uint && f.Kind() <= reflect.Uint64:
				f.SetUint(uint64(r.Intn(100)))
			case f.Kind() == reflect.Float32 || f.Kind() == reflect.Float64:
				f.SetFloat(float64(r.Intn(1000)) / 8)
			case f.Kind() == reflect.Bool:
				f.SetBool(true)
			case f.Kind() == reflect.Slice && f.Type().Elem().Kind() == reflect.Uint8:
				f.SetBytes([]byte{byte(i), 0, 0xff})
			case f.Kind() == reflect.Slice && f.Type().Elem().Kind() == reflect.String:
				f.Set(reflect.ValueOf([]string{"a", "b'"}))
			case f.Kind() == reflect.Map:
				f.Set(reflect.ValueOf(map[string]int64{"k": int64(i)}))
			case f.Kind() == reflect.Struct && f.Type().PkgPath() == "main":
				if _, isModel := f.Type().FieldByName("ID"); !isModel { // associations are left empty
					fill(f, depth+1)
				}
			}
		}
	}
	fill(rec.Elem(), 0)
	return rec.Interface()
}

// ---- reorder cases ----
type ReorderIn struct {
	Models []string `json:"models"`
}
type ReorderObs struct {
	Order []string            `json:"order"`
	Deps  map[string][]string `json:"deps"`
}

var reorderTypes = map[string]interface{}{"RA": &RA{}, "RB": &RB{}, "RC": &RC{}, "RD": &RD{}, "Owner": &Owner{}, "P6": &P6{}, "P1": &P1{}, "P10Emp": &P10Emp{}, "P10Badge": &P10Badge{}}

func runReorder(in ReorderIn) ReorderObs {
	st := &recState{aliases: map[string][]string{}}
	db, _ := open(st)
	defer func() { s, _ := db.DB(); s.Close() }()
	var vals []interface{}
	for _, m := range in.Models {
		vals = append(vals, reorderTypes[m])
	}
	mig := db.Migrator().(recMig)
	o := ReorderObs{Deps: map[string][]string{}}
	for _, v := range mig.ReorderModels(vals, true) {
		stmt := &gorm.Statement{DB: db}
		lib.Must(stmt.Parse(v))
		o.Order = append(o.Order, stmt.Schema.Table)
	}
	// dependency graph from the parsed schemas (foreign keys owned by the model)
	for _, v := range reorderTypes {
		stmt := &gorm.Statement{DB: db}
		lib.Must(stmt.Parse(v))
		var ds []string
		for _, rel := range stmt.Schema.Relationships.Relations {
			if c := rel.ParseConstraint(); c != nil && c.Schema == stmt.Schema && c.Schema != c.ReferenceSchema {
				ds = append(ds, c.ReferenceSchema.Table)
			}
		}
		sort.Strings(ds)
		o.Deps[stmt.Schema.Table] = ds
	}
	return o
}

func tableOf(name string) string {
	return schema.NamingStrategy{}.TableName(name)
}

// ---- terms ----
func gCol(c ColObs) string { return gField(c.Name, c.Field, c.Full, c.DType, c.Rep.Default) }

func gModelObs(m ModelObs) string {
	exists := "None"
	if m.Exists != nil {
		cols := []string{}
		for i, c := range m.Cols {
			if m.Exists[i] {
				cols = append(cols, lib.Pair(lib.Str(c.Name), gRep(c.Rep)))
			}
		}
		exists = "(Some " + lib.App("mk_table", lib.List(cols), lib.ListOf(m.HaveIdx, lib.Str), lib.ListOf(m.HaveCons, lib.Str)) + ")"
	}
	return lib.App("mk_mobs",
		lib.App("mk_model", lib.Str(m.Table), lib.ListOf(m.Cols, gCol), lib.ListOf(m.Constraints, lib.Str), lib.ListOf(m.Indexes, lib.Str)),
		exists, lib.ListOf(m.API, gAPI), lib.Z(int64(len(m.DDL))))
}

func gAPI(l string) string {
	p := strings.SplitN(l, " ", 3)
	for len(p) < 3 {
		p = append(p, "")
	}
	if p[0] == "CreateTable" || p[0] == "DropTable" {
		return lib.App("A"+p[0], lib.Str(p[1]))
	}
	return lib.App("A"+p[0], lib.Str(p[1]), lib.Str(p[2]))
}

func main() {
	a := lib.ParseArgs()
	out := lib.NewOut(a.Out, "C20")
	out.PerFile = 300

	addDecide := func(kind string, fi FieldIn, ri RepIn) {
		o := runDecide(fi, ri)
		term := lib.App("CDecide", gField("col", fi, o.Full, o.DType, ri.Default), gRep(ri), lib.Bool(o.Alter), gUnique(o.Unique), lib.Bool(o.Err != ""))
		sh := fmt.Sprintf("decide|%s|%s|pk%v|sz%d/%d%v|p%d/%d%v|nn%v/%v%v|d%v%s%q/%q%v|c%v|u%v/%v%v|%s|al%d", strings.TrimSpace(fi.DType), ri.Type, fi.PK,
			fi.Size, ri.Len, ri.LenOK, fi.Precision, ri.Prec, ri.PrecOK, fi.NotNull, ri.Nullable, ri.NullableOK, fi.HasDef, fi.DefI, fi.Default, ri.Default, ri.DefaultOK,
			fi.Comment == ri.Comment && ri.CommentOK, fi.Unique, ri.Unique, ri.UniqueOK, fi.GType, len(ri.Aliases))
		out.Add(lib.Case{Term: term, JSON: map[string]interface{}{"input": map[string]interface{}{"kind": "decide", "field": fi, "reported": ri}, "observed": o},
			Kind: kind, Shape: sh, Nontriv: o.Alter || o.Unique != "none"})
		out.Count("case", "decide")
		out.Count("decision_alter", fmt.Sprint(o.Alter))
		out.Count("decision_unique", o.Unique)
	}
	addRound := func(kind string, in RoundIn) {
		o := runRound(in)
		term := lib.App("CRound", gModelObs(o.First), gModelObs(o.Again), gModelObs(o.Extend),
			lib.ListOf(o.Before, func(r []string) string { return lib.ListOf(r, lib.Str) }),
			lib.ListOf(o.After, func(r []string) string { return lib.ListOf(r, lib.Str) }),
			lib.Bool(o.NewOK), lib.Z(int64(len(o.Again2))), lib.Z(int64(len(o.Errs))))
		out.Add(lib.Case{Term: term, JSON: map[string]interface{}{"input": map[string]interface{}{"kind": "round", "round": in}, "observed": o},
			Sig: roundSig(in), Kind: kind, Shape: fmt.Sprintf("round|%s|rows%d|%s", in.Pair, in.Rows, in.Flags), Nontriv: in.Rows > 0})
		out.Count("case", "round")
		out.Count("round_pair", in.Pair)
		out.Count("round_ddl_on_remigrate", fmt.Sprint(len(o.Again.DDL)))
		if os.Getenv("C20_DEBUG") != "" {
			fmt.Fprintf(os.Stderr, "round %s rows=%d errs=%v\n first api=%v\n again api=%v ddl=%v\n extend api=%v\n again2=%v\n", in.Pair, in.Rows, o.Errs, o.First.API, o.Again.API, o.Again.DDL, o.Extend.API, o.Again2)
		}
	}
	addReorder := func(kind string, in ReorderIn) {
		o := runReorder(in)
		var names []string
		for _, m := range in.Models {
			names = append(names, tableOf(m))
		}
		var deps []string
		keys := make([]string, 0, len(o.Deps))
		for k := range o.Deps {
			keys = append(keys, k)
		}
		sort.Strings(keys)
		for _, k := range keys {
			deps = append(deps, lib.Pair(lib.Str(k), lib.ListOf(o.Deps[k], lib.Str)))
		}
		term := lib.App("CReorder", lib.ListOf(names, lib.Str), lib.List(deps), lib.ListOf(o.Order, lib.Str))
		out.Add(lib.Case{Term: term, JSON: map[string]interface{}{"input": map[string]interface{}{"kind": "reorder", "reorder": in}, "observed": o},
			Kind: kind, Shape: "reorder|" + strings.Join(in.Models, ","), Nontriv: len(o.Order) > len(in.Models) || len(in.Models) > 1})
		out.Count("case", "reorder")
	}
	type anyIn struct {
		Kind     string    `json:"kind"`
		Field    FieldIn   `json:"field"`
		Reported RepIn     `json:"reported"`
		Round    RoundIn   `json:"round"`
		Reorder  ReorderIn `json:"reorder"`
	}
	replay := func(kind, f string) {
		b, err := os.ReadFile(f)
		lib.Must(err)
		var c struct {
			Case struct {
				Input anyIn `json:"input"`
			} `json:"case"`
		}
		lib.Must(json.Unmarshal(b, &c))
		switch c.Case.Input.Kind {
		case "decide":
			addDecide(kind, c.Case.Input.Field, c.Case.Input.Reported)
		case "round":
			addRound(kind, c.Case.Input.Round)
		case "reorder":
			addReorder(kind, c.Case.Input.Reorder)
		}
	}
	if a.Replay != "" {
		replay("replay", a.Replay)
		lib.Must(out.Flush())
		return
	}
	for _, f := range lib.CorpusFiles(a.Corpus) {
		replay("corpus", f)
	}
	r := lib.NewRng(a.Seed)
	// round cases: every pair, with and without rows
	for _, p := range pairs {
		for _, n := range []int{0, 3} {
			addRound("main", RoundIn{Pair: p.Name, Rows: n, Seed: r.U64()})
		}
	}
	// the migrator's configuration switches, one at a time and together, on the models with relations
	for _, pn := range []string{"P6", "P8", "P10"} {
		for _, fl := range []string{"disablefk", "ignorerel", "both"} {
			addRound("main", RoundIn{Pair: pn, Rows: 2, Seed: r.U64(), Flags: fl})
		}
	}
	// other dialect capabilities / options: gorm's generic index creation, generic ColumnTypes,
	// table options
	for _, pn := range []string{"P1", "P5", "P7", "P3"} {
		addRound("main", RoundIn{Pair: pn, Rows: 2, Seed: r.U64(), Flags: "genericindex"})
	}
	addRound("main", RoundIn{Pair: "P5", Rows: 2, Seed: r.U64(), Flags: "genericcolumns"})
	addRound("main", RoundIn{Pair: "P5", Rows: 2, Seed: r.U64(), Flags: "tableopts"})
	// reorder cases
	names := []string{"RA", "RB", "RC", "RD", "Owner", "P6", "P1"}
	nre := 20
	if a.Tier == "thorough" {
		nre = 200
	}
	for i := 0; i < nre; i++ {
		k := r.Range(1, 4)
		ms := append([]string{}, names...)
		lib.Shuffle(r, ms)
		sel := append([]string{}, ms[:k]...)
		if r.Chance(1, 4) {
			sel = append(sel, sel[0]) // the same model twice
		}
		addReorder("main", ReorderIn{Models: sel})
	}
	budget := 1500
	if a.Tier == "thorough" {
		budget = 30000
	}
	if a.N > 0 {
		budget = a.N
	}
	for i := 0; i < budget; i++ {
		edge := r.Chance(15, 100)
		fi, ri := genDecide(r, edge)
		kind := "main"
		if edge {
			kind = "edge"
		}
		addDecide(kind, fi, ri)
	}
	nm := 300
	if a.Tier == "thorough" {
		nm = 5000
	}
	for i := 0; i < nm; i++ {
		fi, ri := genMatching(r)
		addDecide("matching", fi, ri)
	}
	out.Extra["rule"] = "cases = (a) decide: generated schema.Field (data type from a 24-word vocabulary with sizes/precisions/case/space variants, primary key, size, precision, not null, default value and DefaultValueInterface, time/bool/other, comment, unique, IgnoreMigration) x generated reported column type (type name related or unrelated, aliases, length/precision/nullable/default/comment/unique each with an ok flag) fed to the real Migrator.MigrateColumn with a recording migrator; (b) round: 16 hand-written model pairs (incl. composite / partial / unique / sorted index options placed on any member field, type: tags carrying their length, fields excluded from migration whose column does not exist, mixed-case column: tags and many2many over unique non-primary references with a link test), the relation pairs also under DisableForeignKeyConstraintWhenMigrating / IgnoreRelationshipsWhenMigrating / both (v1, v2 = v1 + fields/indexes/unique index/check constraints; sizes, not null, literal/bool/null defaults, times, bytes, embedded prefix, renamed column, json serializer, unique, check, composite key and index, foreign key) on real SQLite through the recording driver, with 0 and 3 rows; (c) reorder: ReorderModels on random subsets of 7 models with chain/diamond foreign keys. distinct = distinct input shapes; non-trivial = decision is alter or a unique change / rows present / more than one model"
	lib.Must(out.Flush())
}
