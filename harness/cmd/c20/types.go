// C20 model types: pairs (v1, v2) of hand-written struct types; v2 = v1 plus added fields /
// indexes / constraints and shares v1's table through TableName().
package main

import (
	"database/sql"
	"database/sql/driver"
	"time"

	"gorm.io/gorm"
	"gorm.io/gorm/schema"
)

// ---- P1: sizes, not null, defaults, index, uniqueIndex ----
type P1 struct {
	ID    uint   `gorm:"primaryKey"`
	Name  string `gorm:"size:64;not null;index"`
	Email string `gorm:"size:120;uniqueIndex"`
	Age   int32  `gorm:"default:18"`
	Note  string `gorm:"default:'n/a'"`
	Score float64
	Full  string `gorm:"column:FullName;size:40"`
	Camel int64  `gorm:"column:camelCase;default:5"`
}
type P1v2 struct {
	ID    uint   `gorm:"primaryKey"`
	Name  string `gorm:"size:64;not null;index"`
	Email string `gorm:"size:120;uniqueIndex"`
	Age   int32  `gorm:"default:18"`
	Note  string `gorm:"default:'n/a'"`
	Score float64
	Full  string `gorm:"column:FullName;size:40"`
	Camel int64  `gorm:"column:camelCase;default:5"`
	NickN string `gorm:"column:NickName;size:16"`
	Nick  string `gorm:"size:32;index:idx_p1_nick"`
	Level int8   `gorm:"default:3"`
	Born  *time.Time
}

func (P1v2) TableName() string { return "p1" }

// ---- P2: time, bool default, bytes, pointers, null default ----
type P2 struct {
	ID        int64 `gorm:"primaryKey"`
	Active    bool  `gorm:"default:true"`
	Off       bool  `gorm:"default:false"`
	Data      []byte
	At        time.Time
	PAt       *time.Time
	PS        *string `gorm:"default:null"`
	CreatedAt time.Time
	UpdatedAt time.Time
	N64       sql.NullInt64
}
type P2v2 struct {
	ID        int64 `gorm:"primaryKey"`
	Active    bool  `gorm:"default:true"`
	Off       bool  `gorm:"default:false"`
	Data      []byte
	At        time.Time
	PAt       *time.Time
	PS        *string `gorm:"default:null"`
	CreatedAt time.Time
	UpdatedAt time.Time
	N64       sql.NullInt64
	Flag      bool    `gorm:"default:true;index"`
	Ratio     float32 `gorm:"default:0.5"`
}

func (P2v2) TableName() string { return "p2" }

// ---- P3: embedded with prefix, renamed column, json serializer, all int widths ----
type Dim struct {
	W int64
	H int64 `gorm:"column:hgt"`
}
type P3 struct {
	ID uint16 `gorm:"primaryKey"`
	Dim
	Box  Dim      `gorm:"embedded;embeddedPrefix:box_"`
	Ren  string   `gorm:"column:renamed_col;index"`
	Tags []string `gorm:"serializer:json"`
	I8   int8
	U8   uint8
	I16  int16
	U32  uint32
	U64  uint64
}
type P3v2 struct {
	ID uint16 `gorm:"primaryKey"`
	Dim
	Box  Dim      `gorm:"embedded;embeddedPrefix:box_"`
	Ren  string   `gorm:"column:renamed_col;index"`
	Tags []string `gorm:"serializer:json"`
	I8   int8
	U8   uint8
	I16  int16
	U32  uint32
	U64  uint64
	Lid  Dim              `gorm:"embedded;embeddedPrefix:lid_"`
	Meta map[string]int64 `gorm:"serializer:json"`
}

func (P3v2) TableName() string { return "p3" }

// ---- P4: unique tag, check constraint ----
type P4 struct {
	ID   uint   `gorm:"primaryKey"`
	Code string `gorm:"size:16;unique"`
	Qty  int64  `gorm:"check:qty_nonneg,qty >= 0"`
	Memo string `gorm:"not null;default:''"`
	Kind string `gorm:"size:8;check:chk_kind,kind IN ('bug','task','story')"` // named check with commas
	Pts  int64  `gorm:"check:chk_pts,coalesce(pts,0) >= 0"`
	Nk   string `gorm:"column:nick_name;size:20"`
}
type P4v2 struct {
	ID    uint   `gorm:"primaryKey"`
	Code  string `gorm:"size:16;unique"`
	Qty   int64  `gorm:"check:qty_nonneg,qty >= 0"`
	Memo  string `gorm:"not null;default:'';unique"`
	Kind  string `gorm:"size:8;check:chk_kind,kind IN ('bug','task','story')"`
	Pts   int64  `gorm:"check:chk_pts,coalesce(pts,0) >= 0"`
	Sev   string `gorm:"size:4;check:chk_sev,sev IN ('lo','hi','no')"`
	Nk    string `gorm:"column:nick_name;size:20;unique"` // unique added in v2 to a column with a name override
	Price int64  `gorm:"check:price_pos,price > -1;default:1"`
	Extra string `gorm:"index:idx_p4_extra,unique"`
}

func (P4v2) TableName() string { return "p4" }

// ---- P5: composite primary key, composite index ----
type P5 struct {
	Code string `gorm:"primaryKey;size:20"`
	Seq  int32  `gorm:"primaryKey;autoIncrement:false"`
	A    string `gorm:"index:idx_p5_ab,priority:1,collate:NOCASE"`
	B    int64  `gorm:"index:idx_p5_ab,priority:2,sort:desc"`
}
type P5v2 struct {
	Code string `gorm:"primaryKey;size:20"`
	Seq  int32  `gorm:"primaryKey;autoIncrement:false"`
	A    string `gorm:"index:idx_p5_ab,priority:1,collate:NOCASE"`
	B    int64  `gorm:"index:idx_p5_ab,priority:2,sort:desc"`
	C    string `gorm:"index:idx_p5_c,expression:lower(c)"`
	D    int64  `gorm:"index:idx_p5_d,option:WHERE d > 0"`
}

func (P5v2) TableName() string { return "p5" }

// ---- P6: foreign key (belongs to) with constraint ----
type Owner struct {
	ID   uint `gorm:"primaryKey"`
	Name string
}
type P6 struct {
	ID      uint `gorm:"primaryKey"`
	OwnerID uint
	Owner   Owner `gorm:"constraint:OnDelete:CASCADE"`
	Title   string
}
type P6v2 struct {
	ID      uint `gorm:"primaryKey"`
	OwnerID uint
	Owner   Owner `gorm:"constraint:OnDelete:CASCADE"`
	Title   string
	Sub     string `gorm:"size:10;default:'s'"`
}

func (P6v2) TableName() string { return "p6" }

// ---- P7: unique together with indexes on the same column ----
type P7 struct {
	ID  uint   `gorm:"primaryKey"`
	Tok string `gorm:"size:20;unique;uniqueIndex"`
	A   string `gorm:"size:20;unique;uniqueIndex:idx_p7_ab"`
	B   int64  `gorm:"uniqueIndex:idx_p7_ab"`
	C   string `gorm:"size:20;unique;index"`
	D   string `gorm:"size:20;unique;index:idx_p7_d,unique"`
	E   string `gorm:"size:20;uniqueIndex"`
}
type P7v2 struct {
	ID  uint   `gorm:"primaryKey"`
	Tok string `gorm:"size:20;unique;uniqueIndex"`
	A   string `gorm:"size:20;unique;uniqueIndex:idx_p7_ab"`
	B   int64  `gorm:"uniqueIndex:idx_p7_ab"`
	C   string `gorm:"size:20;unique;index"`
	D   string `gorm:"size:20;unique;index:idx_p7_d,unique"`
	E   string `gorm:"size:20;uniqueIndex"`
	F   string `gorm:"size:20;uniqueIndex:idx_p7_f"`
	G   int64  `gorm:"index"`
}

func (P7v2) TableName() string { return "p7" }

// ---- P8: many2many over a unique non-primary reference ----
type P8Tag struct {
	ID   uint   `gorm:"primaryKey"`
	Code string `gorm:"size:20;unique"`
	Slug string `gorm:"size:20;uniqueIndex"`
}
type P8 struct {
	ID   uint    `gorm:"primaryKey"`
	Name string  `gorm:"size:30"`
	Tags []P8Tag `gorm:"many2many:p8_person_tags;foreignKey:ID;joinForeignKey:PersonID;references:Code;joinReferences:TagCode"`
	Subs []P8Tag `gorm:"many2many:p8_person_subs;foreignKey:ID;joinForeignKey:PersonID;references:Slug;joinReferences:TagSlug"`
}
type P8v2 struct {
	ID   uint    `gorm:"primaryKey"`
	Name string  `gorm:"size:30"`
	Tags []P8Tag `gorm:"many2many:p8_person_tags;foreignKey:ID;joinForeignKey:PersonID;references:Code;joinReferences:TagCode"`
	Subs []P8Tag `gorm:"many2many:p8_person_subs;foreignKey:ID;joinForeignKey:PersonID;references:Slug;joinReferences:TagSlug"`
	City string  `gorm:"size:30;index"`
}

func (P8v2) TableName() string { return "p8" }

// ---- P9: index options on any member field, type: tags carrying their length, fields excluded
// from migration whose column does not exist ----
type P9 struct {
	ID     uint   `gorm:"primaryKey"`
	U1     string `gorm:"size:10;uniqueIndex:idx_p9_u"`
	U2     int64  `gorm:"uniqueIndex:idx_p9_u,where:u2 > 100"` // partial: option on the second member
	Code   string `gorm:"type:varchar(32)"`
	Ch     string `gorm:"type:char(8);index"`
	Shadow string `gorm:"-:migration"`
	Tnt    string `gorm:"size:10"`
	Eml    string `gorm:"size:20"`
	Arch   int64
	K1     int64 `gorm:"index:idx_p9_k,priority:2"`
	K2     int64 `gorm:"index:idx_p9_k,priority:1,sort:desc"`
	CA     int64 `gorm:"index:,composite:p9ab"`
	CB     int64 `gorm:"index:,composite:p9ab"`
}
type P9v2 struct {
	ID     uint   `gorm:"primaryKey"`
	U1     string `gorm:"size:10;uniqueIndex:idx_p9_u"`
	U2     int64  `gorm:"uniqueIndex:idx_p9_u,where:u2 > 100"`
	Code   string `gorm:"type:varchar(32)"`
	Ch     string `gorm:"type:char(8);index"`
	Shadow string `gorm:"-:migration"`
	Tnt    string `gorm:"size:10;uniqueIndex:idx_p9_te"`
	Eml    string `gorm:"size:20;uniqueIndex:idx_p9_te,where:arch = 0"`
	Arch   int64
	K1     int64  `gorm:"index:idx_p9_k,priority:2"`
	K2     int64  `gorm:"index:idx_p9_k,priority:1,sort:desc"`
	CA     int64  `gorm:"index:,composite:p9ab"`
	CB     int64  `gorm:"index:,composite:p9ab"`
	Ghost  string `gorm:"-:migration"`
	Extra  string `gorm:"type:varchar(16)"`
}

func (P9v2) TableName() string { return "p9" }

// ---- P10: relation shapes and constraint options ----
type P10Money struct{ Cents int64 }

func (P10Money) GormDBDataType(db *gorm.DB, f *schema.Field) string { return "integer" }
func (m P10Money) Value() (driver.Value, error)                     { return m.Cents, nil }
func (m *P10Money) Scan(v interface{}) error {
	if x, ok := v.(int64); ok {
		m.Cents = x
	}
	return nil
}

type P10Co struct {
	ID   uint   `gorm:"primaryKey"`
	Name string `gorm:"size:20"`
	Code string `gorm:"size:10;unique"`
}
type P10Dept struct {
	ID   uint `gorm:"primaryKey"`
	Name string
}
type P10Badge struct {
	ID       uint `gorm:"primaryKey"`
	P10EmpID uint
	P10Emp   *P10Emp // back-reference of the has-one
	No       string
}
type P10Lang struct {
	ID   uint `gorm:"primaryKey"`
	Name string
}
type P10Task struct {
	ID       uint `gorm:"primaryKey"`
	P10EmpID uint
	Title    string
}
type P10Note struct {
	ID        uint `gorm:"primaryKey"`
	OwnerID   uint
	OwnerType string
	Text      string
}
type P10Audit struct {
	EditorID uint
	Editor   *P10Co
}
type P10Emp struct {
	ID        uint   `gorm:"primaryKey"`
	Name      string `gorm:"size:30"`
	CoCode    string `gorm:"size:10"`
	Co        P10Co  `gorm:"foreignKey:CoCode;references:Code;constraint:fk_p10_co,OnUpdate:CASCADE,OnDelete:SET NULL"`
	ManagerID *uint
	Manager   *P10Emp `gorm:"constraint:OnDelete:SET NULL"`
	Badge     P10Badge
	Tasks     []P10Task
	Notes     []P10Note `gorm:"polymorphic:Owner;polymorphicType:OwnerType;polymorphicId:OwnerID;polymorphicValue:emp"`
	SkipID    uint
	Skip      P10Dept  `gorm:"-:migration;foreignKey:SkipID"`
	Audit     P10Audit `gorm:"embedded;embeddedPrefix:audit_"`
	Money     P10Money
	Qty       int64     `gorm:"check:qty >= 0"`
	Langs     []P10Lang `gorm:"many2many:p10_emp_langs"`
	Friends   []*P10Emp `gorm:"many2many:p10_friends"`
}
type P10Empv2 struct {
	ID        uint   `gorm:"primaryKey"`
	Name      string `gorm:"size:30"`
	CoCode    string `gorm:"size:10"`
	Co        P10Co  `gorm:"foreignKey:CoCode;references:Code;constraint:fk_p10_co,OnUpdate:CASCADE,OnDelete:SET NULL"`
	ManagerID *uint
	Manager   *P10Empv2 `gorm:"constraint:OnDelete:SET NULL"`
	Badge     P10Badge  `gorm:"foreignKey:P10EmpID"`
	Tasks     []P10Task `gorm:"foreignKey:P10EmpID"`
	Notes     []P10Note `gorm:"polymorphic:Owner;polymorphicType:OwnerType;polymorphicId:OwnerID;polymorphicValue:emp"`
	SkipID    uint
	Skip      P10Dept  `gorm:"-:migration;foreignKey:SkipID"`
	Audit     P10Audit `gorm:"embedded;embeddedPrefix:audit_"`
	Money     P10Money
	Qty       int64       `gorm:"check:qty >= 0"`
	Langs     []P10Lang   `gorm:"many2many:p10_emp_langs"`
	Friends   []*P10Empv2 `gorm:"many2many:p10_friends"`
	DeptID    uint
	Dept      P10Dept
	Level     int8 `gorm:"default:1"`
}

func (P10Empv2) TableName() string { return "p10_emps" }

// ---- P11: two belongs-to relations between the same two schemas (self-referential); the second
// one is added in v2 ----
type P11 struct {
	ID        uint `gorm:"primaryKey"`
	Name      string
	ManagerID *uint
	Manager   *P11
}
type P11v2 struct {
	ID        uint `gorm:"primaryKey"`
	Name      string
	ManagerID *uint
	Manager   *P11v2
	MentorID  *uint
	Mentor    *P11v2
}

func (P11v2) TableName() string { return "p11" }

// ---- P12: has-many with its mirrored belongs-to, plus a second belongs-to to the same schema (one
// in v1, one added in v2) ----
type P12Author struct {
	ID    uint `gorm:"primaryKey"`
	Name  string
	Books []P12 `gorm:"foreignKey:AuthorID"`
}
type P12 struct {
	ID         uint `gorm:"primaryKey"`
	Title      string
	AuthorID   uint
	Author     P12Author
	ReviewerID *uint
	Reviewer   *P12Author
}
type P12v2 struct {
	ID         uint `gorm:"primaryKey"`
	Title      string
	AuthorID   uint
	Author     P12Author
	ReviewerID *uint
	Reviewer   *P12Author
	EditorID   *uint
	Editor     *P12Author
}

func (P12v2) TableName() string { return "p12" }

// ---- P13: spellings of boolean and numeric defaults ----
type P13 struct {
	ID  uint    `gorm:"primaryKey"`
	B1  bool    `gorm:"default:1"`
	Bt  bool    `gorm:"default:t;not null"`
	Bu  bool    `gorm:"default:T"`
	Bw  bool    `gorm:"default:TRUE"`
	Bx  bool    `gorm:"default:True"`
	B0  bool    `gorm:"default:0"`
	Bf  bool    `gorm:"default:f"`
	Bz  bool    `gorm:"default:FALSE"`
	N5  int64   `gorm:"default:5"`
	NN  int64   `gorm:"default:-7"`
	F15 float64 `gorm:"default:1.5"`
	S   string  `gorm:"default:'it''s'"`
	S2  string  `gorm:"default:plain"`
	U8  uint8   `gorm:"default:200"`
	F3  float64 `gorm:"default:2"`
}
type P13v2 struct {
	ID  uint    `gorm:"primaryKey"`
	B1  bool    `gorm:"default:1"`
	Bt  bool    `gorm:"default:t;not null"`
	Bu  bool    `gorm:"default:T"`
	Bw  bool    `gorm:"default:TRUE"`
	Bx  bool    `gorm:"default:True"`
	B0  bool    `gorm:"default:0"`
	Bf  bool    `gorm:"default:f"`
	Bz  bool    `gorm:"default:FALSE"`
	N5  int64   `gorm:"default:5"`
	NN  int64   `gorm:"default:-7"`
	F15 float64 `gorm:"default:1.5"`
	S   string  `gorm:"default:'it''s'"`
	S2  string  `gorm:"default:plain"`
	U8  uint8   `gorm:"default:200"`
	F3  float64 `gorm:"default:2"`
	BN  bool    `gorm:"default:1"`
	N0  int32   `gorm:"default:0"`
}

func (P13v2) TableName() string { return "p13" }

// ---- P14: numeric defaults in a spelling other than the canonical one (gorm writes the DDL from
// the parsed value; re-altered on every migration until repo commit fa267c0) ----
type P14 struct {
	ID uint    `gorm:"primaryKey"`
	NP int64   `gorm:"default:+5"`
	NH int64   `gorm:"default:0x10"`
	F2 float64 `gorm:"default:1.50"`
	FS float64 `gorm:"default:0.00005"`
	FL float64 `gorm:"default:1000000000000000000000"`
}
type P14v2 struct {
	ID uint    `gorm:"primaryKey"`
	NP int64   `gorm:"default:+5"`
	NH int64   `gorm:"default:0x10"`
	F2 float64 `gorm:"default:1.50"`
	FS float64 `gorm:"default:0.00005"`
	FL float64 `gorm:"default:1000000000000000000000"`
	X  int64
}

func (P14v2) TableName() string { return "p14" }

// ---- P15: tag spellings with blanks after ';', index settings in every position ----
type P15 struct {
	ID uint   `gorm:"primaryKey"`
	A  string `gorm:"size:32; not null; uniqueIndex"`
	B  string `gorm:"index; size:20"`
	C  int64  `gorm:"default:3; index:idx_p15_c; not null"`
	D  string `gorm:" size:10;  index:idx_p15_de,priority:1"`
	E  int64  `gorm:"not null; index:idx_p15_de,priority:2"`
	F  string `gorm:"size:12; unique; column:f_col"`
	G  int64  `gorm:"check:chk_p15_g,g >= 0; default:1"`
	Em string `gorm:"size:30;index:idx_p15_em"`
	Lg string `gorm:"size:30"`
}
type P15v2 struct {
	ID uint   `gorm:"primaryKey"`
	A  string `gorm:"size:32; not null; uniqueIndex"`
	B  string `gorm:"index; size:20"`
	C  int64  `gorm:"default:3; index:idx_p15_c; not null"`
	D  string `gorm:" size:10;  index:idx_p15_de,priority:1"`
	E  int64  `gorm:"not null; index:idx_p15_de,priority:2"`
	F  string `gorm:"size:12; unique; column:f_col"`
	G  int64  `gorm:"check:chk_p15_g,g >= 0; default:1"`
	Em string `gorm:"size:30;index:idx_p15_em"`
	Lg string `gorm:"size:30;uniqueIndex:em"` // an index explicitly named like the column of an earlier indexed field
	H  string `gorm:"size:16; uniqueIndex:idx_p15_h"`
	I  int64  `gorm:"default:0; index"`
	J  string `gorm:"size:8; not null; default:'j'; index:idx_p15_j"`
}

func (P15v2) TableName() string { return "p15" }

// ---- P16: a float default written in exponent notation whose plain decimal form differs from both
// the tag text and fmt.Sprint of the value (re-altered on every migration until repo commit 652c1bd) ----
type P16 struct {
	ID uint    `gorm:"primaryKey"`
	FE float64 `gorm:"default:2.5e-07"`
}
type P16v2 struct {
	ID uint    `gorm:"primaryKey"`
	FE float64 `gorm:"default:2.5e-07"`
	X  int64
}

func (P16v2) TableName() string { return "p16" }

// ---- reorder family: chain and diamond of belongs-to dependencies ----
type RA struct {
	ID uint `gorm:"primaryKey"`
}
type RB struct {
	ID   uint `gorm:"primaryKey"`
	RAID uint
	RA   RA
}
type RC struct {
	ID   uint `gorm:"primaryKey"`
	RBID uint
	RB   RB
}
type RD struct {
	ID   uint `gorm:"primaryKey"`
	RCID uint
	RC   RC
	RAID uint
	RA   RA
}
