package main

import (
	"fmt"
	"reflect"

	"gorm.io/gorm"
	"gorm.io/gorm/logger"
	"gorm.io/gorm/utils/tests"
)

// The default registration of every pipeline is read from the RUNNING gorm, not from its source:
// a DB is opened on the dummy dialector (whose Initialize calls callbacks.RegisterDefaultCallbacks) once
// with and once without the default transaction, and the compiled callback list of each processor is
// walked by reflection.  Nothing is identified by a field name: the callback list is the processor's
// only slice of pointers to structs, a callback's name is its only string field that is non-empty in
// every default callback (Before/After requests of the defaults would show up as further strings and are
// refused).  A callback that is present with the default transaction and absent with
// SkipDefaultTransaction is one registered under Match(<transaction enabled>): the stubs are
// re-registered with the same guard.  Every name is confirmed through the public API (Get(name) != nil).

func processorOf(db *gorm.DB, pipeline string) interface{ Get(string) func(*gorm.DB) } {
	cb := db.Callback()
	switch pipeline {
	case "create":
		return cb.Create()
	case "query":
		return cb.Query()
	case "update":
		return cb.Update()
	case "delete":
		return cb.Delete()
	case "row":
		return cb.Row()
	}
	return cb.Raw()
}

// compiledNames lists the names of the callbacks a processor holds, in their compiled order.
func compiledNames(p interface{}) []string {
	v := reflect.ValueOf(p)
	for v.Kind() == reflect.Ptr {
		v = v.Elem()
	}
	if v.Kind() != reflect.Struct {
		panic("c17: a callback processor is not a struct any more")
	}
	var list reflect.Value
	found := 0
	for i := 0; i < v.NumField(); i++ {
		f := v.Field(i)
		if f.Kind() == reflect.Slice && f.Type().Elem().Kind() == reflect.Ptr && f.Type().Elem().Elem().Kind() == reflect.Struct {
			list, found = f, found+1
		}
	}
	if found != 1 {
		panic(fmt.Sprintf("c17: %d candidate callback lists in the processor (want 1)", found))
	}
	n := list.Len()
	if n == 0 {
		return nil
	}
	et := list.Type().Elem().Elem()
	nameField := -1
	for i := 0; i < et.NumField(); i++ {
		if et.Field(i).Type.Kind() != reflect.String {
			continue
		}
		all, any := true, false
		for k := 0; k < n; k++ {
			if list.Index(k).Elem().Field(i).String() == "" {
				all = false
			} else {
				any = true
			}
		}
		switch {
		case all && nameField == -1:
			nameField = i
		case any:
			panic("c17: a default callback carries a Before/After request (or two name-like fields): the built-in prefix is no longer plain")
		}
	}
	if nameField == -1 {
		panic("c17: no name field found in the compiled callbacks")
	}
	out := make([]string, n)
	for k := 0; k < n; k++ {
		out[k] = list.Index(k).Elem().Field(nameField).String()
	}
	return out
}

func readBuiltins() map[string][]Step {
	open := func(skipTx bool) *gorm.DB {
		db, err := gorm.Open(tests.DummyDialector{}, &gorm.Config{Logger: logger.Discard, SkipDefaultTransaction: skipTx})
		if err != nil {
			panic(err)
		}
		return db
	}
	withTx, noTx := open(false), open(true)
	res := map[string][]Step{}
	for _, p := range pipelines {
		all := compiledNames(processorOf(withTx, p))
		kept := map[string]bool{}
		for _, n := range compiledNames(processorOf(noTx, p)) {
			kept[n] = true
		}
		if len(all) == 0 {
			panic("c17: no default callback registered for pipeline " + p)
		}
		seen := map[string]bool{}
		for _, n := range all {
			if seen[n] {
				panic("c17: default callback registered twice: " + p + "/" + n)
			}
			seen[n] = true
			if processorOf(withTx, p).Get(n) == nil {
				panic(fmt.Sprintf("c17: %s/%s read by reflection but Get(name) == nil", p, n))
			}
			res[p] = append(res[p], Step{Kind: "register", Name: n, Builtin: true, Tx: !kept[n]})
		}
		for n := range kept {
			if !seen[n] {
				panic("c17: " + p + "/" + n + " is registered only without the default transaction")
			}
		}
	}
	return res
}
