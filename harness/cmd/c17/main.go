// c17: callback registration honours Before/After and never disturbs the built-in order.
//
// Drives the REAL gorm callback processors (callbacks.go: Register / Before / After / Replace /
// Remove -> compile -> sortCallbacks) with registration histories, through the public API only:
// db.Callback().<Pipeline>().Before(..).After(..).Register(name, stub), then fires the pipeline with
// db.Create / Find / Update / Delete / Row / Exec on a dialector that registers nothing itself.
// Every stub appends (name, id of the step that registered it) to a log: the firing order after
// EVERY step of the history is the observation.  The built-in callbacks of the pipeline are
// re-registered as stubs under the names, in the order and with the Match guards that are read
// from <repo>/callbacks/callbacks.go (go/parser) at start-up.
//
// Cyclic constraints make sortCallbacks recurse without bound (fatal stack overflow, the process
// dies), so histories are executed in worker sub-processes (this binary re-executed with
// -c17worker); a worker that dies while executing step k yields the outcome "crash" for step k.
package main

import (
	"bufio"
	"encoding/json"
	"fmt"
	"io"
	"os"
	"os/exec"
	"runtime/debug"
	"sort"
	"strings"
	"sync"
	"time"

	"gorm.io/gorm"
	"gorm.io/gorm/logger"
	"gorm.io/gorm/utils/tests"

	"verifharness/lib"
)

// ---------------------------------------------------------------- data

type Step struct {
	Kind    string `json:"kind"`              // register | replace | remove
	Name    string `json:"name"`              // callback name
	Before  string `json:"before,omitempty"`  // Before(t)  ("" = not called)
	After   string `json:"after,omitempty"`   // After(t)
	Chain   string `json:"chain,omitempty"`   // "" = Before(..) is called first, "AB" = After(..).Before(..) (both set)
	Builtin bool   `json:"builtin,omitempty"` // part of the default registration of the pipeline
	Tx      bool   `json:"tx,omitempty"`      // registered with Match(enableTransaction)
}

type Input struct {
	Pipeline string `json:"pipeline"` // create | query | update | delete | row | raw
	SkipTx   bool   `json:"skip_tx"`  // Config.SkipDefaultTransaction (Match guards are false)
	Steps    []Step `json:"steps"`    // built-in registrations first, then the history
	// how the pipeline is fired after every call ("" = the plain finisher call):
	// scopes (through db.Scopes), nilptr (a nil *rec as value: ErrInvalidValue), ptrptr (pointer to a nil
	// pointer: Execute allocates), badmodel (an int as model: schema parse error), modelonly (value only in
	// Model).  Whatever Execute does with the statement, the registered callbacks run, in order.
	Fire string `json:"fire,omitempty"`
}

type Fire struct {
	Name string `json:"name"`
	Hid  int    `json:"hid"` // index (in Steps) of the step whose handler ran
}

type Outcome struct {
	Kind  string `json:"kind"` // ok | err | crash
	Err   string `json:"err,omitempty"`
	Fired []Fire `json:"fired,omitempty"`
	// after the LAST call of the history: processor.Get(name) for every name the history mentions
	// (hid = the call whose handler Get returns, -1 = nil)
	Gets []Fire `json:"gets,omitempty"`
}

// ---------------------------------------------------------------- worker: real gorm

type rec struct {
	ID int64 `gorm:"primaryKey"`
	V  int64
}

// nothing registers itself: the processors start empty
type bareDialector struct{ tests.DummyDialector }

func (bareDialector) Initialize(*gorm.DB) error { return nil }

func runCase(in Input, emit func(Outcome)) {
	db, err := gorm.Open(bareDialector{}, &gorm.Config{Logger: logger.Discard, SkipDefaultTransaction: in.SkipTx})
	if err != nil {
		panic(err)
	}
	cb := db.Callback()
	p := cb.Create()
	switch in.Pipeline {
	case "query":
		p = cb.Query()
	case "update":
		p = cb.Update()
	case "delete":
		p = cb.Delete()
	case "row":
		p = cb.Row()
	case "raw":
		p = cb.Raw()
	}
	var log []Fire
	fire := func() []Fire {
		log = []Fire{}
		d := db
		if in.Fire == "scopes" {
			d = db.Scopes(func(x *gorm.DB) *gorm.DB { return x })
		}
		var nilp *rec
		var val interface{} = &rec{ID: 1, V: 1}
		switch in.Fire {
		case "nilptr":
			val = nilp
		case "ptrptr":
			val = &nilp
		case "badmodel":
			val = 42
		}
		switch in.Pipeline {
		case "create":
			if in.Fire == "modelonly" {
				d.Model(&rec{V: 1}).Create(nil)
			} else {
				d.Create(val)
			}
		case "query":
			switch in.Fire {
			case "", "scopes":
				var rs []rec
				d.Find(&rs)
			case "modelonly":
				d.Model(&rec{}).Find(nil)
			default:
				d.Find(val)
			}
		case "update":
			if in.Fire == "" || in.Fire == "scopes" || in.Fire == "modelonly" {
				d.Model(&rec{ID: 1}).Update("v", 2)
			} else {
				d.Model(val).Update("v", 2)
			}
		case "delete":
			if in.Fire == "modelonly" {
				d.Model(&rec{ID: 1}).Delete(nil)
			} else {
				d.Delete(val)
			}
		case "row":
			d.Table("recs").Row()
		case "raw":
			d.Exec("SELECT 1")
		}
		return log
	}
	enableTransaction := func(db *gorm.DB) bool { return !db.SkipDefaultTransaction }
	for i, s := range in.Steps {
		i, s := i, s
		stub := func(*gorm.DB) { log = append(log, Fire{s.Name, i}) }
		// the call forms a user writes: p.Register / p.Before(t).Register / p.After(t).Register /
		// p.Before(a).After(b).Register / p.Match(f).Register / p.Replace / p.Remove
		// the registration object is built by chaining, in the order the history says:
		// [p.Match(f)] then Before(..) / After(..) in either order
		var calls [][2]string
		if s.Before != "" {
			calls = append(calls, [2]string{"before", s.Before})
		}
		if s.After != "" {
			calls = append(calls, [2]string{"after", s.After})
		}
		if s.Chain == "AB" && len(calls) == 2 {
			calls[0], calls[1] = calls[1], calls[0]
		}
		var c chain = p
		switch {
		case s.Tx:
			c = chainOn(p.Match(enableTransaction), calls)
		case len(calls) > 0 && calls[0][0] == "before":
			c = chainOn(p.Before(calls[0][1]), calls[1:])
		case len(calls) > 0:
			c = chainOn(p.After(calls[0][1]), calls[1:])
		}
		var e error
		switch s.Kind {
		case "register":
			e = c.Register(s.Name, stub)
		case "replace":
			e = c.Replace(s.Name, stub)
		case "remove":
			e = c.Remove(s.Name)
		default:
			panic("bad step kind " + s.Kind)
		}
		o := Outcome{Kind: "ok", Fired: fire()}
		if e != nil {
			o = Outcome{Kind: "err", Err: e.Error(), Fired: fire()}
		}
		if i == len(in.Steps)-1 {
			// processor.Get: the handler registered last under a live name, nil for removed / unknown names
			seen := map[string]bool{}
			for _, x := range in.Steps {
				for _, n := range []string{x.Name, x.Before, x.After, "zz:never"} {
					if n == "" || seen[n] {
						continue
					}
					seen[n] = true
					g := Fire{Name: n, Hid: -1}
					if h := p.Get(n); h != nil {
						log = []Fire{}
						h(nil) // a stub: it only appends (name, registering call) to the log
						if len(log) == 1 && log[0].Name == n {
							g.Hid = log[0].Hid
						} else {
							g.Hid = -2 // not the handler of a callback of that name
						}
					}
					o.Gets = append(o.Gets, g)
				}
			}
		}
		emit(o)
	}
}

// what a registration chain ends in
type chain interface {
	Register(string, func(*gorm.DB)) error
	Replace(string, func(*gorm.DB)) error
	Remove(string) error
}

// gorm's *callback (unexported): Before / After return the receiver's own type
type chainObj[C any] interface {
	chain
	Before(string) C
	After(string) C
}

func chainOn[C chainObj[C]](c C, calls [][2]string) chain {
	for _, k := range calls {
		if k[0] == "before" {
			c = c.Before(k[1])
		} else {
			c = c.After(k[1])
		}
	}
	return c
}

func workerMain() {
	debug.SetMaxStack(16 << 20) // the overflow is reached after 16 MB instead of 1 GB of frames
	rd := bufio.NewReaderSize(os.Stdin, 1<<20)
	w := bufio.NewWriter(os.Stdout)
	for {
		line, err := rd.ReadBytes('\n')
		if len(line) > 0 {
			var in Input
			lib.Must(json.Unmarshal(line, &in))
			runCase(in, func(o Outcome) {
				b, _ := json.Marshal(o)
				w.Write(b)
				w.WriteByte('\n')
				w.Flush()
			})
			w.WriteString("END\n")
			w.Flush()
		}
		if err != nil {
			return
		}
	}
}

// ---------------------------------------------------------------- parent side of the workers

type worker struct {
	cmd *exec.Cmd
	in  io.WriteCloser
	out *bufio.Reader
	errb *limitedBuf
}

type limitedBuf struct {
	mu sync.Mutex
	b  []byte
}

func (l *limitedBuf) Write(p []byte) (int, error) {
	l.mu.Lock()
	if len(l.b) < 2048 {
		n := 2048 - len(l.b)
		if n > len(p) {
			n = len(p)
		}
		l.b = append(l.b, p[:n]...)
	}
	l.mu.Unlock()
	return len(p), nil
}

func startWorker() *worker {
	cmd := exec.Command(os.Args[0], "-c17worker")
	in, err := cmd.StdinPipe()
	lib.Must(err)
	out, err := cmd.StdoutPipe()
	lib.Must(err)
	eb := &limitedBuf{}
	cmd.Stderr = eb
	lib.Must(cmd.Start())
	return &worker{cmd, in, bufio.NewReaderSize(out, 1<<20), eb}
}

func (w *worker) stop() {
	w.in.Close()
	done := make(chan struct{})
	go func() { w.cmd.Wait(); close(done) }()
	select {
	case <-done:
	case <-time.After(5 * time.Second):
		w.cmd.Process.Kill()
		<-done
	}
}

// execute runs one input; a worker that dies (or hangs > 60 s) while running step k gives "crash".
func execute(w **worker, in Input) []Outcome {
	if *w == nil {
		*w = startWorker()
	}
	b, _ := json.Marshal(in)
	(*w).in.Write(append(b, '\n'))
	var outs []Outcome
	type res struct {
		line string
		err  error
	}
	for {
		ch := make(chan res, 1)
		go func() {
			l, err := (*w).out.ReadString('\n')
			ch <- res{l, err}
		}()
		var r res
		select {
		case r = <-ch:
		case <-time.After(60 * time.Second):
			(*w).cmd.Process.Kill()
			r = <-ch
			r.err = fmt.Errorf("hang")
		}
		if r.err != nil {
			(*w).cmd.Wait()
			(*w).errb.mu.Lock()
			msg := string((*w).errb.b)
			(*w).errb.mu.Unlock()
			what := "worker died"
			switch {
			case r.err.Error() == "hang":
				what = "hang (no answer in 60 s)"
			case strings.Contains(msg, "stack overflow") || strings.Contains(msg, "goroutine stack exceeds"):
				what = "fatal error: stack overflow"
			default:
				if i := strings.IndexByte(msg, '\n'); i > 0 {
					what = msg[:i]
				}
			}
			outs = append(outs, Outcome{Kind: "crash", Err: what})
			*w = nil
			return outs
		}
		l := strings.TrimSpace(r.line)
		if l == "END" {
			return outs
		}
		var o Outcome
		lib.Must(json.Unmarshal([]byte(l), &o))
		outs = append(outs, o)
	}
}

// runAll executes the inputs on nw workers, preserving order.
func runAll(ins []Input, nw int) [][]Outcome {
	res := make([][]Outcome, len(ins))
	var wg sync.WaitGroup
	chunk := (len(ins) + nw - 1) / nw
	for k := 0; k < nw; k++ {
		lo, hi := k*chunk, (k+1)*chunk
		if hi > len(ins) {
			hi = len(ins)
		}
		if lo >= hi {
			continue
		}
		wg.Add(1)
		go func(lo, hi int) {
			defer wg.Done()
			var w *worker
			for i := lo; i < hi; i++ {
				res[i] = execute(&w, ins[i])
			}
			if w != nil {
				w.stop()
			}
		}(lo, hi)
	}
	wg.Wait()
	return res
}

// ---------------------------------------------------------------- main

func main() {
	for _, a := range os.Args[1:] {
		if a == "-c17worker" {
			workerMain()
			return
		}
	}
	parentMain()
}

var _ = sort.Strings
