package main

import (
	"fmt"

	"verifharness/lib"
)

var pipelines = []string{"create", "query", "update", "delete", "row", "raw"}

// ---------------------------------------------------------------- enumeration

// alphabet of one pipeline shape: names that may be registered, names that may be targeted
type alphabet struct {
	users       []string // fresh names for Register, registered in this order (they are interchangeable)
	targets     []string // Before/After targets (built-ins, users, an unknown name, "*")
	victims     []string // built-in names offered to Replace/Remove (user names are always offered)
	double      []string // targets used in the two-sided form Before(a).After(b)
	doubleDepth int      // the two-sided form is offered for the first doubleDepth calls only (0 = always)
}

// stepsFrom lists the in-domain steps available after the history h (names used so far / live).
func stepsFrom(a alphabet, depth int, used, live map[string]bool, liveOrder []string) []Step {
	var out []Step
	// the first unused user name only: user names are interchangeable until they are registered
	// (targets may name any of them at any time), so they are registered in the order u1, u2, u3
	forms := func(u string) {
		out = append(out, Step{Kind: "register", Name: u})
		for _, t := range a.targets {
			out = append(out, Step{Kind: "register", Name: u, Before: t})
			out = append(out, Step{Kind: "register", Name: u, After: t})
		}
		if a.doubleDepth == 0 || depth < a.doubleDepth {
			for ix, x := range a.double {
				for iy, y := range a.double {
					s := Step{Kind: "register", Name: u, Before: x, After: y}
					if (ix+iy)%2 == 1 {
						s.Chain = "AB" // chained After(y).Before(x)
					}
					out = append(out, s)
				}
			}
		}
	}
	for _, u := range a.users {
		if !used[u] {
			forms(u)
			break
		}
	}
	// names that were removed are free again (users and built-ins)
	for _, u := range append(append([]string{}, a.users...), a.victims...) {
		if used[u] && !live[u] {
			forms(u)
		}
	}
	for _, n := range liveOrder {
		isVictim := false
		for _, v := range a.victims {
			isVictim = isVictim || v == n
		}
		for _, u := range a.users {
			isVictim = isVictim || u == n
		}
		if isVictim {
			out = append(out, Step{Kind: "replace", Name: n}, Step{Kind: "remove", Name: n})
		}
	}
	return out
}

// enumerate all in-domain histories of length <= maxLen over the alphabet, after the prefix base.
func enumerate(base []Step, skipTx bool, a alphabet, maxLen int, visit func(h []Step)) {
	var rec func(h []Step)
	rec = func(h []Step) {
		visit(h)
		if len(h)-len(base) >= maxLen {
			return
		}
		r := newRef()
		for i, s := range h {
			r.apply(i, s, skipTx)
		}
		live := map[string]bool{}
		var order []string
		for _, e := range r.live {
			live[e.Name] = true
			order = append(order, e.Name)
		}
		for _, s := range stepsFrom(a, len(h)-len(base), r.used, live, order) {
			h2 := append(append([]Step{}, h...), s)
			rec(h2)
		}
	}
	rec(base)
}

func alphabetFor(builtins []Step, skipTx bool, full bool, nusers int, doubleDepth int) alphabet {
	var live []string
	for _, b := range builtins {
		if !(b.Tx && skipTx) {
			live = append(live, b.Name)
		}
	}
	reps := live
	if len(live) > 3 && !full {
		reps = []string{live[0], live[len(live)/2], live[len(live)-1]}
	}
	a := alphabet{users: []string{"u1", "u2", "u3"}[:nusers], doubleDepth: doubleDepth}
	a.targets = append(append(append([]string{}, reps...), a.users...), "zz:unknown", "*")
	a.victims = reps
	a.double = a.targets
	return a
}

// ---------------------------------------------------------------- generators

const rule = "case = (pipeline, SkipDefaultTransaction, history); the built-in registrations read from callbacks/callbacks.go are replayed as recording stubs, then the history (Register / Before(t).Register / After(t).Register / Before(a).After(b).Register and the same requests chained After(b).Before(a) / Match(f) first in the chain / Replace / Remove / registration of a removed name again, over built-in names, user names u1..u4 used before or after their registration, an unknown name and '*') runs on the real processor and the pipeline is fired through db.Create/Find/Update/Delete/Row/Exec after every step. Streams: exhaustive = every in-domain history up to the tier's length over the small alphabet; main = random histories of length 1..8 kept outside the known-finding classes; known = histories inside a known-finding class (cyclic or *-unsatisfiable constraints, Replace of a * callback), judged like all others and reported as KNOWN-FINDING; backward = long histories (9..30 calls, up to ~40 compiled callbacks) inside the backward domain of c17_backward_domain_correct (requests name callbacks registered earlier - built-in or user, live, replaced or removed - or unregistered names, never '*'); repeat = short histories that hit ONE user callback again and again (Replace of the replacement, Remove after Replace, registration of the removed name with new requests; requests incl. '*'); edge = out-of-domain calls (duplicate names, Replace/Remove of names that are not live, constrained Replace, user Match guards): model = implementation only. distinct = distinct (pipeline, tx, history) ; non-trivial = in the domain, at least one Before/After request binds (live target or '*'), the last call returned nil and at least two callbacks fired."

func cloneSteps(h []Step) []Step { return append([]Step{}, h...) }

// exhaustive: all in-domain histories of length <= maxLen after the built-in prefix.
// known: how many histories that fall into a known-finding class are kept (-1 = all).
func exhaustive(add func(string, Input), pipeline string, skipTx bool, builtins []Step, full bool, nusers, doubleDepth, maxLen int, keepKnown int) {
	a := alphabetFor(builtins, skipTx, full, nusers, doubleDepth)
	known := 0
	enumerate(builtins, skipTx, a, maxLen, func(h []Step) {
		in := Input{Pipeline: pipeline, SkipTx: skipTx, Steps: cloneSteps(h)}
		if sig, _ := sigOf(in); sig != "" {
			known++
			if keepKnown >= 0 && known > keepKnown {
				return
			}
			add("known", in)
			return
		}
		add("exhaustive", in)
	})
}

func randomHistory(r *lib.Rng, pipeline string, skipTx bool, builtins []Step, mode string) Input {
	in := Input{Pipeline: pipeline, SkipTx: skipTx, Steps: cloneSteps(builtins)}
	users := []string{"u1", "u2", "u3", "u4"}
	var bnames []string
	for _, b := range builtins {
		bnames = append(bnames, b.Name)
	}
	n := r.Range(1, 8)
	if mode == "known" {
		n = r.Range(1, 5)
	}
	target := func() string {
		switch r.Intn(10) {
		case 0, 1, 2, 3:
			return lib.Pick(r, bnames)
		case 4, 5, 6:
			return lib.Pick(r, users)
		case 7:
			return "zz:unknown"
		}
		return "*"
	}
	for len(in.Steps)-len(builtins) < n {
		ref := newRef()
		for i, s := range in.Steps {
			ref.apply(i, s, skipTx)
		}
		var s Step
		for try := 0; ; try++ {
			var fresh, live []string
			for _, u := range users {
				if !ref.used[u] {
					fresh = append(fresh, u)
				}
			}
			for _, e := range ref.live {
				live = append(live, e.Name)
			}
			// removed names (users and built-ins) may be registered again
			var freed []string
			for _, u := range append(append([]string{}, users...), bnames...) {
				if ref.used[u] && ref.find(u) < 0 {
					freed = append(freed, u)
				}
			}
			k := r.Intn(10)
			switch {
			case mode == "edge" && r.Chance(1, 3):
				// out-of-domain calls
				switch r.Intn(6) {
				case 0:
					s = Step{Kind: "register", Name: lib.Pick(r, append(live, "u1"))} // duplicate name
				case 1:
					s = Step{Kind: "register", Name: lib.Pick(r, append(live, "u1")), Before: target()}
				case 2:
					s = Step{Kind: "replace", Name: lib.Pick(r, []string{"zz:unknown", "u4", "u3"})}
				case 3:
					s = Step{Kind: "remove", Name: lib.Pick(r, []string{"zz:unknown", "u4", "u3"})}
				case 4:
					s = Step{Kind: "replace", Name: lib.Pick(r, append(live, "u2")), Before: target()}
				case 5:
					s = Step{Kind: "register", Name: lib.Pick(r, users), After: target(), Tx: true}
				}
			case k < 6 && (len(fresh) > 0 || len(freed) > 0):
				switch {
				case len(freed) > 0 && (len(fresh) == 0 || r.Chance(1, 2)):
					s = Step{Kind: "register", Name: lib.Pick(r, freed)} // re-registration after Remove
				case r.Chance(1, 4):
					s = Step{Kind: "register", Name: lib.Pick(r, fresh)}
				default:
					s = Step{Kind: "register", Name: fresh[0]}
				}
				switch r.Intn(9) {
				case 0:
				case 1, 2, 3:
					s.Before = target()
				case 4, 5:
					s.After = target()
				default: // two-sided, chained in either order
					s.Before, s.After = target(), target()
					if r.Bool() {
						s.Chain = "AB"
					}
				}
				if r.Chance(1, 10) {
					s.Tx = true // p.Match(enableTransaction) first in the chain
				}
			case k < 8 && len(live) > 0:
				s = Step{Kind: "replace", Name: lib.Pick(r, live)}
			case len(live) > 0:
				s = Step{Kind: "remove", Name: lib.Pick(r, live)}
			default:
				continue
			}
			if mode != "main" || try > 20 {
				break
			}
			// main stream: stay outside the known-finding classes
			r2 := newRef()
			for i, x := range in.Steps {
				r2.apply(i, x, skipTx)
			}
			r2.apply(len(in.Steps), s, skipTx)
			if r2.class() == "" { // neither a known class nor the (fixed) self-target label
				break
			}
			if theoremDomain(Input{SkipTx: skipTx, Steps: append(cloneSteps(in.Steps), s)}) != "none" {
				break // inside the backward domain no class applies (sigOf)
			}
			if try == 20 {
				s = Step{Kind: "register", Name: "w" + fmt.Sprint(len(in.Steps))}
				break
			}
		}
		in.Steps = append(in.Steps, s)
	}
	return in
}

// predictConflict: the simple insertion procedure the sorter amounts to in the backward domain
// (C17_Plugin.simple_loop), on the live callbacks in registration order: does it end in a conflict?
// Used by the generator only (to keep most long histories free of a standing error).
func predictConflict(live []entry) bool {
	var sorted []string
	idx := func(n string) int {
		for i := len(sorted) - 1; i >= 0; i-- {
			if sorted[i] == n {
				return i
			}
		}
		return -1
	}
	for _, e := range live {
		if e.Before != "" {
			if si := idx(e.Before); si >= 0 {
				if ci := idx(e.Name); ci < 0 {
					sorted = append(sorted[:si], append([]string{e.Name}, sorted[si:]...)...)
				} else if ci > si {
					return true
				}
			}
		}
		if e.After != "" {
			if si := idx(e.After); si >= 0 {
				if ci := idx(e.Name); ci < 0 {
					sorted = append(sorted, e.Name)
				} else if ci < si {
					return true
				}
			}
		}
		if idx(e.Name) < 0 {
			sorted = append(sorted, e.Name)
		}
	}
	return false
}

// backwardHistory: a long history inside the backward domain (C17_BackDef.backward_hist, theorem
// c17_backward_domain_correct): requests name callbacks registered EARLIER (built-in or user; live, replaced
// or removed by now) or a name nothing is registered under, never "*"; a name that has been named as a
// target is not registered (again).  9..30 calls: up to ~40 compiled callbacks (sort.SliceStable's merge
// path; without "*" its comparator is constantly false).
func backwardHistory(r *lib.Rng, pipeline string, skipTx bool, builtins []Step) Input {
	in := Input{Pipeline: pipeline, SkipTx: skipTx, Steps: cloneSteps(builtins)}
	n := r.Range(9, 30)
	F := map[string]bool{}
	next := 1
	for len(in.Steps)-len(builtins) < n {
		ref := newRef()
		var earlier []string // every name registered so far, in order
		seen := map[string]bool{}
		for i, s := range in.Steps {
			ref.apply(i, s, skipTx)
			if s.Kind == "register" && !seen[s.Name] {
				seen[s.Name] = true
				earlier = append(earlier, s.Name)
			}
		}
		var live, freed []string
		for _, e := range ref.live {
			live = append(live, e.Name)
		}
		for _, u := range earlier {
			if ref.used[u] && ref.find(u) < 0 && !F[u] {
				freed = append(freed, u)
			}
		}
		target := func(self string) string {
			for {
				t := "zz:unknown"
				switch x := r.Intn(10); {
				case x < 5 && len(live) > 0:
					t = lib.Pick(r, live)
				case x < 8:
					t = lib.Pick(r, earlier)
				case x < 9:
					t = "zz:other"
				}
				if t != self {
					return t
				}
			}
		}
		var s Step
		for try := 0; ; try++ {
			k := r.Intn(10)
			switch {
			case k < 6 || len(live) == 0:
				name := fmt.Sprintf("u%d", next)
				if len(freed) > 0 && r.Chance(1, 3) {
					name = lib.Pick(r, freed) // a removed name nobody has named is registered again
				}
				s = Step{Kind: "register", Name: name}
				switch r.Intn(9) {
				case 0:
				case 1, 2, 3:
					s.Before = target(name)
				case 4, 5:
					s.After = target(name)
				default:
					s.Before, s.After = target(name), target(name)
					if r.Bool() {
						s.Chain = "AB"
					}
				}
				if r.Chance(1, 20) {
					s.Tx = true
				}
			case k < 8:
				s = Step{Kind: "replace", Name: lib.Pick(r, live)}
			default:
				s = Step{Kind: "remove", Name: lib.Pick(r, live)}
			}
			r2 := newRef()
			for i, x := range in.Steps {
				r2.apply(i, x, skipTx)
			}
			r2.apply(len(in.Steps), s, skipTx)
			if try < 8 && predictConflict(r2.live) && !predictConflict(ref.live) && r.Chance(4, 5) {
				continue // most histories stay free of a standing error
			}
			break
		}
		if s.Kind == "register" && s.Name == fmt.Sprintf("u%d", next) {
			next++
		}
		backStep(F, s, skipTx)
		in.Steps = append(in.Steps, s)
	}
	if theoremDomain(in) == "none" {
		panic("c17: backwardHistory left the backward domain: " + descHist(in))
	}
	return in
}

// repeatHistory: repeated operations on ONE user callback: Register(x) with random requests (built-in, user,
// unknown name, "*", one- or two-sided), then 2..4 further calls that mostly hit x again - Replace of the
// replacement, Remove after Replace, registration of the removed name with new requests - now and then
// interleaved with a call on another name.  (The random main stream picks its victims uniformly among all live
// names: on the large pipelines the same callback is rarely hit twice.)
func repeatHistory(r *lib.Rng, pipeline string, skipTx bool, builtins []Step) Input {
	in := Input{Pipeline: pipeline, SkipTx: skipTx, Steps: cloneSteps(builtins)}
	var bnames []string
	for _, b := range builtins {
		bnames = append(bnames, b.Name)
	}
	users := []string{"u1", "u2", "u3"}
	target := func() string {
		switch r.Intn(10) {
		case 0, 1, 2:
			return lib.Pick(r, bnames)
		case 3, 4:
			return lib.Pick(r, users)
		case 5:
			return "zz:unknown"
		}
		return "*"
	}
	reg := func(name string) Step {
		s := Step{Kind: "register", Name: name}
		switch r.Intn(6) {
		case 0:
		case 1, 2:
			s.Before = target()
		case 3, 4:
			s.After = target()
		default:
			s.Before, s.After = target(), target()
			if r.Bool() {
				s.Chain = "AB"
			}
		}
		return s
	}
	live := map[string]bool{}
	do := func(s Step) {
		in.Steps = append(in.Steps, s)
		switch s.Kind {
		case "register":
			live[s.Name] = true
		case "remove":
			delete(live, s.Name)
		}
	}
	if r.Bool() {
		do(reg("u2"))
	}
	do(reg("u1"))
	for k := r.Range(2, 4); k > 0; k-- {
		switch x := r.Intn(20); {
		case !live["u1"]:
			do(reg("u1"))
		case x < 12:
			do(Step{Kind: "replace", Name: "u1"})
		case x < 17:
			do(Step{Kind: "remove", Name: "u1"})
		case !live["u3"]:
			do(reg("u3"))
		default:
			do(Step{Kind: "replace", Name: "u3"})
		}
	}
	return in
}

func generate(a lib.Args, bi map[string][]Step, base func(string) []Step, add func(string, Input)) {
	r := lib.NewRng(a.Seed)
	if a.Tier == "thorough" {
		// every in-domain history of length <= 3 (the bound of the property text) on the one-built-in
		// pipelines, known classes included; the larger pipelines: length <= 2, and length 3 without the
		// two-sided form in the last call (the Coq theorems c17_len3_exhaustive_* cover the model in full)
		exhaustive(add, "row", false, base("row"), true, 3, 2, 3, -1)
		exhaustive(add, "raw", false, base("raw"), true, 2, 0, 2, -1)
		exhaustive(add, "query", false, base("query"), true, 2, 1, 3, -1)
		for _, p := range []string{"create", "update", "delete"} {
			exhaustive(add, p, false, base(p), false, 2, 1, 2, -1)
			exhaustive(add, p, true, base(p), false, 2, 1, 2, -1)
		}
	} else if a.Focus == "" {
		exhaustive(add, "row", false, base("row"), true, 2, 0, 2, 150)
	}
	budget := 3000
	if a.Tier == "thorough" {
		budget = 20000
	}
	if a.N > 0 {
		budget = a.N
	}
	for i := 0; i < budget; i++ {
		p := lib.Pick(r, pipelines)
		skipTx := r.Chance(1, 4)
		mode := "main"
		switch x := r.Intn(100); {
		case x < 12:
			mode = "edge"
		case x < 15:
			mode = "known"
		}
		in := randomHistory(r, p, skipTx, base(p), mode)
		if r.Chance(1, 3) {
			in.Fire = lib.Pick(r, []string{"scopes", "nilptr", "ptrptr", "badmodel", "modelonly"})
		}
		if mode == "main" {
			if sig, _ := sigOf(in); sig != "" {
				mode = "known"
			}
		}
		add(mode, in)
	}
	// long histories inside the backward domain (the unbounded theorem c17_backward_domain_correct)
	nb := budget / 30
	for i := 0; i < nb; i++ {
		p := lib.Pick(r, pipelines)
		add("backward", backwardHistory(r, p, r.Chance(1, 4), base(p)))
	}
	// repeated operations on one callback
	for i := 0; i < nb; i++ {
		p := lib.Pick(r, pipelines)
		in := repeatHistory(r, p, r.Chance(1, 4), base(p))
		kind := "repeat"
		if sig, _ := sigOf(in); sig != "" {
			kind = "known"
		}
		add(kind, in)
	}
}
