package main

import (
	"encoding/json"
	"fmt"
	"os"
	"sort"
	"strings"

	"verifharness/lib"
)

func descStep(s Step) string {
	var sb strings.Builder
	if s.Tx && !s.Builtin {
		sb.WriteString("Match(tx).")
	}
	if s.Chain == "AB" && s.Before != "" && s.After != "" {
		fmt.Fprintf(&sb, "After(%s).Before(%s).", s.After, s.Before)
	} else {
		if s.Before != "" {
			fmt.Fprintf(&sb, "Before(%s).", s.Before)
		}
		if s.After != "" {
			fmt.Fprintf(&sb, "After(%s).", s.After)
		}
	}
	switch s.Kind {
	case "register":
		fmt.Fprintf(&sb, "Register(%s)", s.Name)
	case "replace":
		fmt.Fprintf(&sb, "Replace(%s)", s.Name)
	case "remove":
		fmt.Fprintf(&sb, "Remove(%s)", s.Name)
	}
	return sb.String()
}

func descHist(in Input) string {
	var parts []string
	for _, s := range in.Steps {
		if !s.Builtin {
			parts = append(parts, descStep(s))
		}
	}
	return in.Pipeline + ": " + strings.Join(parts, "; ")
}

func exploreMain() {
	bi := readBuiltins()
	for _, p := range pipelines {
		fmt.Println(p, len(bi[p]))
	}
	pl := os.Getenv("C17_PIPE")
	if pl == "" {
		pl = "query"
	}
	maxLen := 3
	fmt.Sscan(os.Getenv("C17_LEN"), &maxLen)
	a := alphabetFor(bi[pl], false, os.Getenv("C17_FULL") != "", 2, 0)
	hist := map[string]int{}
	examples := map[string][]string{}
	level := []Input{{Pipeline: pl, Steps: bi[pl]}}
	total := 0
	for n := 0; n <= maxLen; n++ {
		outs := runAll(level, 12)
		total += len(level)
		var next []Input
		for i, in := range level {
			r := newRef()
			for k, s := range in.Steps {
				r.apply(k, s, in.SkipTx)
			}
			o := outs[i][len(outs[i])-1]
			var prev *Outcome
			if len(outs[i]) > 1 {
				prev = &outs[i][len(outs[i])-2]
			}
			posterr := ""
			for _, x := range outs[i][:len(outs[i])-1] {
				if x.Kind == "err" {
					posterr = "posterr:"
				}
			}
			us := r.unsat()
			v := r.check(o, prev, in.Steps[len(in.Steps)-1])
			key := posterr + us + "/" + o.Kind + "/" + v
			hist[key]++
			if v != "" || (us != "" && o.Kind != "err") || (us == "" && o.Kind == "err") {
				b, _ := json.Marshal(o)
				examples[key] = append(examples[key], descHist(in)+"   => "+string(b))
			}
			if o.Kind == "crash" || n == maxLen {
				continue
			}
			live := map[string]bool{}
			var order []string
			for _, e := range r.live {
				live[e.Name] = true
				order = append(order, e.Name)
			}
			for _, s := range stepsFrom(a, n, r.used, live, order) {
				next = append(next, Input{Pipeline: pl, Steps: append(append([]Step{}, in.Steps...), s)})
			}
		}
		level = next
	}
	fmt.Println("histories:", total)
	keys := []string{}
	for k := range hist {
		keys = append(keys, k)
	}
	sort.Strings(keys)
	for _, k := range keys {
		fmt.Printf("%-20q %d\n", k, hist[k])
	}
	for _, k := range keys {
		ex := examples[k]
		sort.SliceStable(ex, func(i, j int) bool { return len(ex[i]) < len(ex[j]) })
		for i := 0; i < len(ex) && i < 60; i++ {
			fmt.Println(k, "|", ex[i])
		}
	}
}

// ---------------------------------------------------------------- Gallina printing

// every distinct string of a case is printed once (table, index 0 = ""); steps and observations
// refer to it by index (C17_Check.w_names)
type nameTable struct {
	idx   map[string]int
	names []string
}

func newTable() *nameTable { return &nameTable{idx: map[string]int{"": 0}, names: []string{""}} }
func (t *nameTable) of(s string) string {
	i, ok := t.idx[s]
	if !ok {
		i = len(t.names)
		t.idx[s] = i
		t.names = append(t.names, s)
	}
	return lib.N(uint64(i))
}

func term(in Input, outs []Outcome, sig string) string {
	t := newTable()
	z := func(i int) string { return fmt.Sprint(i) } // Z literals (the cases file opens Z_scope)
	of := func(s string) string {
		t.of(s)
		return z(t.idx[s])
	}
	gFired := func(f []Fire) string {
		return lib.ListOf(f, func(x Fire) string { return lib.Pair(of(x.Name), z(x.Hid)) })
	}
	steps := lib.ListOf(in.Steps, func(s Step) string {
		k := map[string]string{"register": "KRegister", "replace": "KReplace", "remove": "KRemove"}[s.Kind]
		return lib.App("WS", k, of(s.Name), of(s.Before), of(s.After), lib.Bool(s.Builtin), lib.Bool(!(s.Tx && in.SkipTx)))
	})
	// the observations of all but the last leading built-in registration are not printed
	skip := 0
	for skip < len(in.Steps) && in.Steps[skip].Builtin && in.Steps[skip].Kind == "register" {
		skip++
	}
	if skip > 0 {
		skip--
	}
	if skip > len(outs) {
		skip = len(outs)
	}
	obs := lib.ListOf(outs[skip:], func(o Outcome) string {
		switch o.Kind {
		case "ok":
			return lib.App("WOk", gFired(o.Fired))
		case "err":
			return lib.App("WErr", lib.Str(o.Err), gFired(o.Fired))
		}
		return "WCrash"
	})
	var gets []Fire
	if len(outs) == len(in.Steps) && len(outs) > 0 {
		gets = outs[len(outs)-1].Gets
	}
	gs := lib.ListOf(gets, func(x Fire) string { return lib.Pair(of(x.Name), lib.Z(int64(x.Hid))) })
	return lib.App("mk_case", lib.App("C17_Check.mk_case", lib.ListOf(t.names, lib.Str), steps, z(skip), obs), z(classCode[sig]), gs)
}

func shapeOf(in Input) string {
	s := descHist(in)
	if in.SkipTx {
		s = "notx|" + s
	}
	if in.Fire != "" {
		s = in.Fire + "|" + s
	}
	return s
}

func parentMain() {
	if os.Getenv("C17_EXPLORE") != "" {
		exploreMain()
		return
	}
	a := lib.ParseArgs()
	bi := readBuiltins()
	out := lib.NewOut(a.Out, "C17")
	out.PerFile = 250
	out.Imports = []string{"Base", "C17_CheckK"}

	type pending struct {
		kind string
		in   Input
	}
	var todo []pending
	add := func(kind string, in Input) { todo = append(todo, pending{kind, in}) }
	base := func(p string) []Step { return append([]Step{}, bi[p]...) }

	finish := func() {
		ins := make([]Input, len(todo))
		for i, t := range todo {
			ins[i] = t.in
		}
		res := runAll(ins, 4)
		for i, t := range todo {
			in, outs := t.in, res[i]
			verdicts, inDom := refRun(in, outs)
			sig, classes := sigOf(in)
			nUser := 0
			for _, s := range in.Steps {
				if !s.Builtin {
					nUser++
				}
			}
			last := outs[len(outs)-1]
			binding := bindingConstraints(in)
			out.Add(lib.Case{Term: term(in, outs, sig), JSON: map[string]interface{}{"input": in, "observed": outs},
				Sig: sig, Kind: t.kind, Shape: shapeOf(in),
				Nontriv: inDom && binding > 0 && last.Kind == "ok" && len(last.Fired) >= 2})
			out.Count("pipeline", in.Pipeline)
			out.Count("skip_default_transaction", fmt.Sprint(in.SkipTx))
			out.Count("fired_through", "plain"+in.Fire)
			out.Count("history_length", fmt.Sprint(nUser))
			out.Count("last_outcome", last.Kind)
			out.Count("in_domain", fmt.Sprint(inDom))
			out.Count("binding_constraints", fmt.Sprint(binding))
			out.Count("known_class", strings.Join(classes, "+"))
			if inDom {
				out.Count("theorem_domain", theoremDomain(in))
			} else {
				out.Count("theorem_domain", "out-of-domain")
			}
			worst := ""
			for _, v := range verdicts {
				if v != "" && v != "-" {
					worst = v
					break
				}
			}
			out.Count("go_twin_verdict", worst)
		}
	}

	readCase := func(f string) Input {
		b, err := os.ReadFile(f)
		lib.Must(err)
		var c struct {
			Case struct {
				Input Input `json:"input"`
			} `json:"case"`
		}
		lib.Must(json.Unmarshal(b, &c))
		return c.Case.Input
	}
	if a.Replay != "" {
		add("replay", readCase(a.Replay))
		finish()
		lib.Must(out.Flush())
		return
	}
	for _, f := range lib.CorpusFiles(a.Corpus) {
		add("corpus", readCase(f))
	}
	generate(a, bi, base, add)
	if os.Getenv("C17_COUNT") != "" {
		cnt := map[string]int{}
		for _, t := range todo {
			cnt[t.in.Pipeline+"/"+t.kind]++
		}
		fmt.Println(len(todo), cnt)
		return
	}
	finish()
	out.Extra["rule"] = rule
	out.Extra["builtins_read_from_running_gorm"] = bi
	lib.Must(out.Flush())
}
