package main

// Go twin of the reference reading of the property (C17_Check.v holds the one that decides).
// Used only for statistics, for the non-triviality rule and to compute the known-finding
// signature of an INPUT; never for the verdict.

type entry struct {
	Name, Before, After string
	Hid                 int // step whose handler must run
	Reg                 int // step that registered the callback
	Builtin             bool
}

type refState struct {
	live     []entry
	used     map[string]bool
	inDomain bool
	userSeen bool // a step that is not part of the default registration has been seen
	ghosts   []ghost // twin of C17_Check.r_ghosts
}

// a callback N that had asked to run Before/After the live callback T (registered at step TReg) was removed
type ghost struct {
	T    string
	TReg int
	N    string
}

func newRef() *refState { return &refState{used: map[string]bool{}, inDomain: true} }

func (r *refState) find(name string) int {
	for i, e := range r.live {
		if e.Name == name {
			return i
		}
	}
	return -1
}

// apply advances the reference state by one step (i = index of the step).
func (r *refState) apply(i int, s Step, skipTx bool) {
	// the default registration is a prefix of plain Register calls
	if s.Builtin && (r.userSeen || s.Kind != "register" || s.Before != "" || s.After != "") {
		r.inDomain = false
	}
	if !s.Builtin {
		r.userSeen = true
	}
	switch s.Kind {
	case "register":
		if s.Tx && skipTx {
			return // guarded out by Match: never part of the pipeline (by design)
		}
		// a live name may not be registered again (the code warns "duplicated callback"); a removed one may
		if s.Name == "" || s.Name == "*" || r.find(s.Name) >= 0 {
			r.inDomain = false
		}
		r.used[s.Name] = true
		r.live = append(r.live, entry{s.Name, s.Before, s.After, i, i, s.Builtin})
	case "replace":
		k := r.find(s.Name)
		if k < 0 || s.Before != "" || s.After != "" || s.Tx {
			r.inDomain = false
			return
		}
		r.live[k].Hid = i
	case "remove":
		k := r.find(s.Name)
		if k < 0 || s.Before != "" || s.After != "" || s.Tx {
			r.inDomain = false
			return
		}
		e := r.live[k]
		for _, tn := range []string{e.Before, e.After} {
			if tn == "" || tn == "*" || tn == e.Name {
				continue
			}
			if j := r.find(tn); j >= 0 {
				r.ghosts = append(r.ghosts, ghost{tn, r.live[j].Reg, e.Name})
			}
		}
		r.live = append(r.live[:k:k], r.live[k+1:]...)
	}
}

func pos(f []Fire, name string) int {
	for i, x := range f {
		if x.Name == name {
			return i
		}
	}
	return -1
}

// verdict of one step: "" = holds, otherwise the clause that fails
func (r *refState) check(o Outcome, prev *Outcome, s Step) string {
	if o.Kind == "crash" {
		return "crash"
	}
	if o.Kind == "err" {
		return ""
	}
	f := o.Fired
	// exactly once, with the handler registered last
	if len(f) != len(r.live) {
		return "once"
	}
	seen := map[string]bool{}
	for _, x := range f {
		if seen[x.Name] {
			return "once"
		}
		seen[x.Name] = true
		k := r.find(x.Name)
		if k < 0 {
			return "once"
		}
		if r.live[k].Hid != x.Hid {
			return "handler"
		}
	}
	// sides
	for _, e := range r.live {
		pe := pos(f, e.Name)
		if e.Before == "*" {
			for _, g := range r.live {
				if g.Name != e.Name && g.Before != "*" && !(pe < pos(f, g.Name)) {
					return "side-before-*"
				}
			}
		} else if e.Before != "" {
			if e.Before == e.Name {
				return "side-self"
			}
			if r.find(e.Before) >= 0 && !(pe < pos(f, e.Before)) {
				return "side-before"
			}
		}
		if e.After == "*" {
			for _, g := range r.live {
				if g.Name != e.Name && g.After != "*" && !(pe > pos(f, g.Name)) {
					return "side-after-*"
				}
			}
		} else if e.After != "" {
			if e.After == e.Name {
				return "side-self"
			}
			if r.find(e.After) >= 0 && !(pe > pos(f, e.After)) {
				return "side-after"
			}
		}
	}
	// built-ins in their original relative order
	last := -1
	for _, e := range r.live {
		if e.Builtin {
			p := pos(f, e.Name)
			if p < last {
				return "builtin-order"
			}
			last = p
		}
	}
	// Replace keeps the position
	if s.Kind == "replace" && prev != nil && prev.Kind == "ok" {
		if len(prev.Fired) != len(f) {
			return "replace-position"
		}
		for i := range f {
			if f[i].Name != prev.Fired[i].Name {
				return "replace-position"
			}
		}
	}
	return ""
}

// refRun evaluates the reference reading on a whole case.  Returns, per step, the failing clause
// ("" = holds, "-" = not evaluated: out of the domain or after an error), and whether the case
// stayed in the domain.
func refRun(in Input, outs []Outcome) (verdicts []string, inDomain bool) {
	r := newRef()
	errSeen := false // strict reading: a step is judged on its own outcome, also after an earlier error
	for i, s := range in.Steps {
		if i >= len(outs) {
			break
		}
		r.apply(i, s, in.SkipTx)
		var prev *Outcome
		if i > 0 {
			prev = &outs[i-1]
		}
		switch {
		case !r.inDomain || errSeen:
			if outs[i].Kind == "crash" && r.inDomain {
				verdicts = append(verdicts, "crash")
			} else {
				verdicts = append(verdicts, "-")
			}
		default:
			verdicts = append(verdicts, r.check(outs[i], prev, s))
		}
	}
	return verdicts, r.inDomain
}

// unsat classifies the constraint set of the live callbacks under the reference reading:
// "" = some order satisfies every side and the built-in order; otherwise why not:
// "cycle" = the named (non-*) constraints together with the built-in order are already cyclic,
// "star" = cyclic only when the * constraints are added.
func (r *refState) unsat() string {
	if r.cyclic(false) {
		return "cycle"
	}
	if r.cyclic(true) {
		return "star"
	}
	return ""
}

func (r *refState) cyclic(withStar bool) bool {
	n := len(r.live)
	adj := make([][]int, n) // edge i -> j : i fires before j
	lastB := -1
	for i, e := range r.live {
		if e.Builtin {
			if lastB >= 0 {
				adj[lastB] = append(adj[lastB], i)
			}
			lastB = i
		}
		if e.Before == "*" {
			if withStar {
				for j, g := range r.live {
					if j != i && g.Before != "*" {
						adj[i] = append(adj[i], j)
					}
				}
			}
		} else if e.Before != "" {
			if j := r.find(e.Before); j >= 0 {
				adj[i] = append(adj[i], j)
			}
		}
		if e.After == "*" {
			if withStar {
				for j, g := range r.live {
					if j != i && g.After != "*" {
						adj[j] = append(adj[j], i)
					}
				}
			}
		} else if e.After != "" {
			if j := r.find(e.After); j >= 0 {
				adj[j] = append(adj[j], i)
			}
		}
	}
	color := make([]int, n)
	var dfs func(i int) bool
	dfs = func(i int) bool {
		color[i] = 1
		for _, j := range adj[i] {
			if color[j] == 1 || (color[j] == 0 && dfs(j)) {
				return true
			}
		}
		color[i] = 2
		return false
	}
	for i := 0; i < n; i++ {
		if color[i] == 0 && dfs(i) {
			return true
		}
	}
	return false
}

// ---------------------------------------------------------------- known-finding classes (input only)

// class of the current registration state (twin of C17_Known.class_of; check_case compares the two).
//   self-target-silent  a live callback names itself AND carries a second, different request or is named by
//                       another callback: it may be accepted silently
//   star-unsat          satisfiable without the * requests but not with them (or Before("*") and After("*")
//                       at once while another callback is live)
//   star-replace        a live callback registered with Before("*") or After("*") has been Replaced
//                       (since /repo e28c215 the replacement inherits the request: label only)
//   after-overwritten   c = Before(x).Register(..) is sorted while x is not (c registered before x, or x is
//                       a * callback): the code stores c's name into x.after, erasing x's own After request
//   self-target         a live callback names itself, nothing else involved (since /repo 591f9f1: an error)
//   named-cycle         the named requests, with the built-in order, are cyclic (since 591f9f1 an error
//                       instead of a stack overflow; some are still accepted silently)
func (r *refState) class() string {
	selfT, selfSilent := false, false
	for _, e := range r.live {
		sb := e.Before != "" && e.Before == e.Name
		sa := e.After != "" && e.After == e.Name
		if !(sb || sa) {
			continue
		}
		selfT = true
		if (sa && e.Before != "" && !sb) || (sb && e.After != "" && !sa) {
			selfSilent = true
		}
		for _, c := range r.live {
			if c.Name != e.Name && (c.Before == e.Name || c.After == e.Name) {
				selfSilent = true
			}
		}
	}
	if selfSilent {
		return "self-target-silent"
	}
	base := r.cyclic(false)
	bothStar := false
	for _, e := range r.live {
		if e.Before == "*" && e.After == "*" && len(r.live) >= 2 {
			bothStar = true
		}
	}
	if !base && (r.cyclic(true) || bothStar) {
		return "star-unsat"
	}
	for _, c := range r.live {
		if c.Before == "" || c.Before == "*" {
			continue
		}
		if k := r.find(c.Before); k >= 0 {
			x := r.live[k]
			if x.After != "" && x.After != c.Name && (c.Reg < x.Reg || x.Before == "*" || x.After == "*" || r.afterReaches(x.Name, c.Name)) {
				return "after-overwritten"
			}
		}
	}
	// stale-request: a removed callback n had asked to run Before/After t; t is still the same registration
	// and a new callback is registered under the name n
	for _, g := range r.ghosts {
		if j := r.find(g.T); j >= 0 && r.live[j].Reg == g.TReg && r.find(g.N) >= 0 {
			return "stale-request"
		}
	}
	if selfT {
		return "self-target"
	}
	if base {
		return "named-cycle"
	}
	// label only (fixed by /repo e28c215); checked last so that it never hides a class that is still known
	// (twin of C17_CheckK.class_k)
	for _, e := range r.live {
		if (e.Before == "*" || e.After == "*") && e.Hid != e.Reg {
			return "star-replace"
		}
	}
	return ""
}

// afterReaches: following After requests from the callback named from reaches the callback named goal
// (twin of C17_Known.after_reaches, fuel = number of live callbacks)
func (r *refState) afterReaches(from, goal string) bool {
	for fuel := len(r.live); fuel > 0; fuel-- {
		k := r.find(from)
		if k < 0 || r.live[k].After == "" {
			return false
		}
		if r.live[k].After == goal {
			return true
		}
		from = r.live[k].After
	}
	return false
}

// classCode: the constructor number of C17_Known.kclass
var classCode = map[string]int{"": 0, "self-target": 1, "named-cycle": 2, "star-unsat": 3, "star-replace": 4,
	"after-overwritten": 5, "self-target-silent": 6, "stale-request": 7}

// star-replace (fixed by /repo e28c215) and self-target (fixed by 591f9f1) are labels only
var knownClass = map[string]bool{"self-target-silent": true, "named-cycle": true, "star-unsat": true,
	"after-overwritten": true, "stale-request": true}

// backStep: twin of C17_BackDef.ok_step_b.  F = the Before/After targets named so far (updated with the
// targets of s first): no request is "*", and a matched Register does not take a name that has been a target.
func backStep(F map[string]bool, s Step, skipTx bool) bool {
	if s.Before != "" {
		F[s.Before] = true
	}
	if s.After != "" {
		F[s.After] = true
	}
	if s.Before == "*" || s.After == "*" {
		return false
	}
	matched := !(s.Tx && skipTx)
	return !(s.Kind == "register" && matched && F[s.Name])
}

// theoremDomain: which unbounded whole-property theorem covers the history (input only):
// "backward:user-targets" (c17_backward_domain_correct, some request names a user callback registered
// earlier), "backward:builtin-targets" (requests name built-ins or nothing: also the plugin domain), "none".
func theoremDomain(in Input) string {
	F := map[string]bool{}
	user := map[string]bool{}
	beyond := false
	for _, s := range in.Steps {
		if !backStep(F, s, in.SkipTx) {
			return "none"
		}
		if user[s.Before] || user[s.After] {
			beyond = true
		}
		if s.Kind == "register" && !s.Builtin {
			user[s.Name] = true
		}
	}
	if beyond {
		return "backward:user-targets"
	}
	return "backward:builtin-targets"
}

// sigOf: the class of the first in-domain step of the history, after it has left the backward domain,
// whose state is in a KNOWN class ("" = none); computed from the input only (twin of C17_CheckK.first_known).  Also returns the distinct classes and
// labels met along the history.
func sigOf(in Input) (string, []string) {
	r := newRef()
	sig := ""
	var all []string
	seen := map[string]bool{}
	F := map[string]bool{}
	bk := true
	for i, s := range in.Steps {
		r.apply(i, s, in.SkipTx)
		bk = backStep(F, s, in.SkipTx) && bk
		if !r.inDomain {
			break
		}
		c := r.class()
		// while the history is backward the whole property is proved on the model
		// (c17_backward_domain_correct): no class excuses a failure there
		if knownClass[c] && sig == "" && !bk {
			sig = c
		}
		if c != "" && !seen[c] {
			seen[c] = true
			all = append(all, c)
		}
	}
	if len(all) == 0 {
		all = []string{"none"}
	}
	return sig, all
}

// bindingConstraints counts the Before/After requests of the final live callbacks that bind
// ("*" or a live target).
func bindingConstraints(in Input) int {
	r := newRef()
	for i, s := range in.Steps {
		r.apply(i, s, in.SkipTx)
	}
	n := 0
	for _, e := range r.live {
		for _, t := range []string{e.Before, e.After} {
			if t == "*" || (t != "" && r.find(t) >= 0) {
				n++
			}
		}
	}
	return n
}
