// c05: each single write operation is all-or-nothing under any failure and reports it.
// For generated record graphs (belongs-to, has-one, has-many, many-to-many, polymorphic) and
// the operations Create / Create(slice) / CreateInBatches / Save / Updates / Delete (with
// Select-ed associations, FullSaveAssociations) on real gorm + file-backed SQLite behind the
// recording driver: one fault-free run records the operation's event sequence (driver
// operations, hook invocations, hook-callback boundaries) and the table dumps after each
// COMMIT; then the same operation is re-run from the same database state once per driver
// operation index (that operation fails) and once per hook invocation (that hook returns an
// error). Every run is one case: the event sequence + the fault, and what was observed.
package main

import (
	"context"
	"database/sql"
	"encoding/json"
	"errors"
	"fmt"
	"os"
	"path/filepath"
	"sort"
	"strings"
	"time"

	sqlite3 "github.com/mattn/go-sqlite3"
	"gorm.io/driver/sqlite"
	"gorm.io/gorm"
	"gorm.io/gorm/callbacks"
	"gorm.io/gorm/clause"
	"gorm.io/gorm/logger"

	"verifharness/lib"
	"verifharness/recdrv"
)

// ---------------------------------------------------------------- models
// Time columns are tracked by gorm (CreatedAt / UpdatedAt / autoCreateTime / autoUpdateTime in
// seconds, milli- and nanoseconds, soft delete); NowFunc is pinned, so dumps are reproducible.

type Company struct {
	ID        uint `gorm:"primaryKey"`
	Name      string
	CreatedS  int64 `gorm:"autoCreateTime"`
	UpdatedMs int64 `gorm:"autoUpdateTime:milli"`
}
type Profile struct {
	ID        uint `gorm:"primaryKey"`
	UserID    uint
	Bio       string
	UpdatedNs int64 `gorm:"autoUpdateTime:nano"`
}
type Toy struct {
	ID        uint `gorm:"primaryKey"`
	Name      string
	OwnerID   uint
	OwnerType string
}
type Collar struct { // has-one held BY VALUE
	ID    uint `gorm:"primaryKey"`
	PetID uint
	Tag   string
}
type Pet struct {
	ID        uint `gorm:"primaryKey"`
	UserID    uint
	Name      string
	Kind      string `gorm:"default:dog"` // database default value
	Toys      []Toy  `gorm:"polymorphic:Owner"`
	Collar    Collar
	DeletedAt gorm.DeletedAt // soft delete: Delete becomes UPDATE unless Unscoped
}
type Language struct {
	ID   uint `gorm:"primaryKey"`
	Code string
}
type Badge struct { // polymorphic has-one
	ID         uint `gorm:"primaryKey"`
	Label      string
	UpdatedS   int64 `gorm:"autoUpdateTime"`
	HolderID   uint
	HolderType string
}
type Note struct { // has-many held as POINTERS
	ID     uint `gorm:"primaryKey"`
	UserID uint
	Text   string
}

// caller-keyed (natural key) models: the key is set by the program, nothing is generated, so gorm
// INSERTs them with Exec (no RETURNING) whatever the dialect can do
type Tag struct { // many-to-many side
	Code  string `gorm:"primaryKey"`
	Label string
}
type Country struct { // belongs-to side
	Code string `gorm:"primaryKey"`
	Name string
}
type Alias struct { // has-many side
	Name   string `gorm:"primaryKey"`
	UserID uint
}
type User struct {
	ID          uint `gorm:"primaryKey"`
	Name        string
	Age         int
	CreatedAt   time.Time
	UpdatedAt   time.Time
	BuddyID     *uint
	Buddy       *User // belongs-to the same table (cycles are possible)
	CompanyID   *uint
	Company     *Company // belongs-to by pointer
	HomeID      *uint
	Home        Company // belongs-to by value
	Profile     *Profile
	Badge       *Badge `gorm:"polymorphic:Holder"`
	Pets        []Pet
	Notes       []*Note
	Languages   []Language `gorm:"many2many:user_languages"`
	Toys        []Toy      `gorm:"polymorphic:Owner"`
	CountryCode *string
	Country     *Country `gorm:"foreignKey:CountryCode;references:Code"`
	Aliases     []Alias
	Tags        []Tag `gorm:"many2many:user_tags"`
}

var pinnedNow = time.Date(2024, 5, 6, 7, 8, 9, 123456789, time.UTC)

func nowFunc() time.Time { return pinnedNow }

var tables = []string{"companies", "users", "profiles", "pets", "collars", "toys", "languages", "user_languages", "badges", "notes", "tags", "countries", "aliases", "user_tags"}

// hooks: every invocation is an event; the hfault-th invocation returns errHook
var (
	errFault = errors.New("verif: injected driver fault (C05)")
	errHook  = errors.New("verif: hook error (C05)")
	errVeto  = errors.New("verif: error already on the handle (C05)")
	cur      *runState
)

type Ev struct {
	K    string `json:"k"`              // op | hook | mark
	Kind string `json:"kind,omitempty"` // op: begin stmt commit rollback ; hook: name ; mark: callback
	F    bool   `json:"f,omitempty"`    // the event failed (injected)
}

// ctxErr is an injected error that also is a context error.
type ctxErr struct{ base, ctx error }

func (e *ctxErr) Error() string   { return e.base.Error() + ": " + e.ctx.Error() }
func (e *ctxErr) Is(t error) bool { return t == e.base || t == e.ctx }

func injected(base error, kind string) error {
	switch kind {
	case "canceled":
		return &ctxErr{base, context.Canceled}
	case "deadline":
		return &ctxErr{base, context.DeadlineExceeded}
	}
	return base
}

type runState struct {
	errKind        string
	dfault, hfault int
	nops, nhooks   int
	evs            []Ev
	dumps          []string // after each successful COMMIT (fault-free run only)
	wantDumps      bool
	fresh          *sql.DB
}

func hookPoint(name string) error {
	if cur == nil {
		return nil
	}
	i := cur.nhooks
	cur.nhooks++
	if i == cur.hfault {
		cur.evs = append(cur.evs, Ev{K: "hook", Kind: name, F: true})
		return injected(errHook, cur.errKind)
	}
	cur.evs = append(cur.evs, Ev{K: "hook", Kind: name})
	return nil
}

func (u *User) BeforeSave(tx *gorm.DB) error     { return hookPoint("User.BeforeSave") }
func (u *User) BeforeCreate(tx *gorm.DB) error   { return hookPoint("User.BeforeCreate") }
func (u *User) AfterCreate(tx *gorm.DB) error    { return hookPoint("User.AfterCreate") }
func (u *User) AfterSave(tx *gorm.DB) error      { return hookPoint("User.AfterSave") }
func (u *User) BeforeUpdate(tx *gorm.DB) error   { return hookPoint("User.BeforeUpdate") }
func (u *User) AfterUpdate(tx *gorm.DB) error    { return hookPoint("User.AfterUpdate") }
func (u *User) BeforeDelete(tx *gorm.DB) error   { return hookPoint("User.BeforeDelete") }
func (u *User) AfterDelete(tx *gorm.DB) error    { return hookPoint("User.AfterDelete") }
func (p *Pet) BeforeCreate(tx *gorm.DB) error    { return hookPoint("Pet.BeforeCreate") }
func (p *Pet) AfterSave(tx *gorm.DB) error       { return hookPoint("Pet.AfterSave") }
func (p *Pet) BeforeDelete(tx *gorm.DB) error    { return hookPoint("Pet.BeforeDelete") }
func (c *Company) AfterCreate(tx *gorm.DB) error { return hookPoint("Company.AfterCreate") }
func (t *Toy) BeforeSave(tx *gorm.DB) error      { return hookPoint("Toy.BeforeSave") }

// ---------------------------------------------------------------- inputs

type ToySpec struct {
	ID   uint   `json:"id,omitempty"`
	Name string `json:"name"`
}
type PetSpec struct {
	ID     uint      `json:"id,omitempty"`
	Name   string    `json:"name"`
	Kind   string    `json:"kind,omitempty"` // "" = the database default
	Toys   []ToySpec `json:"toys,omitempty"`
	Collar *ToySpec  `json:"collar,omitempty"` // id+tag
}
type UserSpec struct {
	ID      uint      `json:"id,omitempty"`
	Name    string    `json:"name"`
	Age     int       `json:"age,omitempty"`
	Company *ToySpec  `json:"company,omitempty"` // id+name
	Home    *ToySpec  `json:"home,omitempty"`    // id+name (belongs-to by value)
	Profile *ToySpec  `json:"profile,omitempty"` // id+bio
	Badge   *ToySpec  `json:"badge,omitempty"`   // id+label (polymorphic has-one)
	Notes   []ToySpec `json:"notes,omitempty"`   // id+text (has-many of pointers)
	Country *ToySpec  `json:"country,omitempty"` // name = code (caller-assigned key), belongs-to
	Aliases []ToySpec `json:"aliases,omitempty"` // name = key, has-many
	Tags    []ToySpec `json:"tags,omitempty"`    // name = code, many-to-many
	Buddy   string    `json:"buddy,omitempty"`   // "self": the record is its own buddy (a cycle) | "new": a fresh user
	Pets    []PetSpec `json:"pets,omitempty"`
	Langs   []ToySpec `json:"langs,omitempty"` // id+code
	Toys    []ToySpec `json:"toys,omitempty"`
}

// Op: create | create_slice | create_batches | save | updates | delete
type Op struct {
	Kind     string     `json:"kind"`
	Users    []UserSpec `json:"users"`
	Batch    int        `json:"batch,omitempty"`
	FullSave bool       `json:"full_save,omitempty"`
	Select   []string   `json:"select,omitempty"`  // delete: association names, or "*" for clause.Associations
	Target   uint       `json:"target,omitempty"`  // updates: id of the row updated
	Targets  []uint     `json:"targets,omitempty"` // updates_slice: ids of the rows of the slice model
	Pet      PetSpec    `json:"pet,omitempty"`     // create_pet
	Table    string     `json:"table,omitempty"`   // update_row: companies | profiles | badges
	// options
	Omit      []string `json:"omit,omitempty"`         // create/save/updates: Omit(...)
	Sel       []string `json:"sel,omitempty"`          // create/save/updates: Select(...)
	Returning bool     `json:"returning,omitempty"`    // updates / delete: Clauses(clause.Returning{})
	Unscoped  bool     `json:"unscoped,omitempty"`     // delete: Unscoped()
	NoRet     bool     `json:"no_returning,omitempty"` // the dialector believes the database has no RETURNING (LastInsertID back-fill)
	Share     bool     `json:"share,omitempty"`        // slices: the users that have a company share ONE *Company value
	BatchSize int      `json:"batch_size,omitempty"`   // Session{CreateBatchSize}
	Scopes    bool     `json:"scopes,omitempty"`       // the call goes through db.Scopes(...)
	// the operation is called on a handle derived by Session options that must not change whether
	// the call is all-or-nothing: skiphooks (no hook runs) | ctx (WithContext) | newdb | queryfields |
	// allowglobal | unscopedprop | logger | nowfunc | initialized
	Sess  []string `json:"sess,omitempty"`
	FwdID bool     `json:"fwd_id,omitempty"` // with NoRet: LastInsertId is the FIRST row's key (MySQL style) instead of the last (SQLite style)
	Form  int      `json:"form,omitempty"`   // update_row / create_map(s): alternative form of the same call
	// the operation is called on a handle that already carries an error when the first callback runs:
	// "handle": h := db.Session(&Session{}); h.AddError(e) | "scope": a Scopes function that vetoes the write
	// with AddError(e). Nothing may be sent (no BEGIN either), nothing stays open, Error is e.
	Veto string `json:"veto,omitempty"`
}

type Input struct {
	Seed []UserSpec `json:"seed"` // database state before: these users are created first (not recorded)
	// History of the *gorm.DB handle before the operation: calls made on the SAME handle whose
	// results are discarded (tosql | dryrun | skipdef | session | ctx | prep). They send no write
	// and must not change how the operation runs ("with default settings").
	Pre    []string `json:"pre,omitempty"`
	Op     Op       `json:"op"`
	DFault int      `json:"dfault"` // index of the failing driver operation (-1 none)
	HFault int      `json:"hfault"` // index of the failing hook invocation (-1 none)
	// what the injected error IS besides the harness' sentinel: "" nothing | "canceled": it also is
	// (errors.Is) context.Canceled | "deadline": context.DeadlineExceeded - a failure that came from
	// some other, shorter-lived context while the operation's own context is alive
	ErrKind string `json:"err_kind,omitempty"`
}

func buildUser(s UserSpec) User {
	u := User{ID: s.ID, Name: s.Name, Age: s.Age}
	if s.Company != nil {
		u.Company = &Company{ID: s.Company.ID, Name: s.Company.Name}
	}
	if s.Home != nil {
		u.Home = Company{ID: s.Home.ID, Name: s.Home.Name}
	}
	if s.Profile != nil {
		u.Profile = &Profile{ID: s.Profile.ID, Bio: s.Profile.Name}
	}
	if s.Badge != nil {
		u.Badge = &Badge{ID: s.Badge.ID, Label: s.Badge.Name}
	}
	for _, n := range s.Notes {
		u.Notes = append(u.Notes, &Note{ID: n.ID, Text: n.Name})
	}
	if s.Country != nil {
		u.Country = &Country{Code: s.Country.Name, Name: "country " + s.Country.Name}
	}
	for _, a := range s.Aliases {
		u.Aliases = append(u.Aliases, Alias{Name: a.Name})
	}
	for _, t := range s.Tags {
		u.Tags = append(u.Tags, Tag{Code: t.Name, Label: "tag " + t.Name})
	}
	for _, p := range s.Pets {
		pet := Pet{ID: p.ID, Name: p.Name, Kind: p.Kind}
		if p.Collar != nil {
			pet.Collar = Collar{ID: p.Collar.ID, Tag: p.Collar.Name}
		}
		for _, t := range p.Toys {
			pet.Toys = append(pet.Toys, Toy{ID: t.ID, Name: t.Name})
		}
		u.Pets = append(u.Pets, pet)
	}
	for _, l := range s.Langs {
		u.Languages = append(u.Languages, Language{ID: l.ID, Code: l.Name})
	}
	for _, t := range s.Toys {
		u.Toys = append(u.Toys, Toy{ID: t.ID, Name: t.Name})
	}
	return u
}

// ---------------------------------------------------------------- environment

type env struct {
	db    *gorm.DB
	plain *gorm.DB // same file, not recorded: seeds the state before
	rec   *recdrv.Recorder
	sqlDB *sql.DB
	fresh *sql.DB
}

var (
	theEnv  *env
	workDir string
	envGen  int
)

func init() { sql.Register("c05fresh", &sqlite3.SQLiteDriver{}) }

func mark(name string) func(*gorm.DB) {
	return func(*gorm.DB) {
		if cur != nil {
			cur.evs = append(cur.evs, Ev{K: "mark", Kind: name})
		}
	}
}

func getEnv() *env {
	if theEnv != nil {
		return theEnv
	}
	envGen++
	path := filepath.Join(workDir, fmt.Sprintf("c05_%d.sqlite", envGen))
	os.Remove(path)
	dsn := "file:" + path + "?_busy_timeout=2000&_synchronous=0&_journal_mode=MEMORY"
	sqlDB, rec := recdrv.Open(dsn)
	db := openHandle(sqlDB)
	lib.Must(db.AutoMigrate(&Company{}, &User{}, &Profile{}, &Pet{}, &Collar{}, &Toy{}, &Language{}, &Badge{}, &Note{}, &Tag{}, &Country{}, &Alias{}))
	fresh, err := sql.Open("c05fresh", dsn)
	lib.Must(err)
	plain, err := gorm.Open(sqlite.Dialector{Conn: fresh}, &gorm.Config{Logger: logger.Discard, NowFunc: nowFunc})
	lib.Must(err)
	theEnv = &env{db: db, plain: plain, rec: rec, sqlDB: sqlDB, fresh: fresh}
	return theEnv
}

// openHandle opens a new *gorm.DB (default settings) on the pool. Every run gets its own, so the
// history of a handle is exactly the Pre steps of the case.
func openHandle(sqlDB *sql.DB) *gorm.DB {
	db, err := gorm.Open(sqlite.Dialector{Conn: sqlDB}, &gorm.Config{Logger: logger.Discard, NowFunc: nowFunc})
	lib.Must(err)
	// boundaries of the callbacks that invoke hooks (public callback API; the markers do nothing else)
	lib.Must(db.Callback().Create().Before("gorm:before_create").Register("verif:before_create", mark("before_create")))
	lib.Must(db.Callback().Create().Before("gorm:after_create").Register("verif:after_create", mark("after_create")))
	lib.Must(db.Callback().Update().Before("gorm:before_update").Register("verif:before_update", mark("before_update")))
	lib.Must(db.Callback().Update().Before("gorm:after_update").Register("verif:after_update", mark("after_update")))
	lib.Must(db.Callback().Delete().Before("gorm:before_delete").Register("verif:before_delete", mark("before_delete")))
	lib.Must(db.Callback().Delete().Before("gorm:after_delete").Register("verif:after_delete", mark("after_delete")))
	return db
}

// history runs the Pre steps on the handle and throws their results away.
func history(db *gorm.DB, pre []string) {
	for _, p := range pre {
		switch p {
		case "tosql":
			_ = db.ToSQL(func(tx *gorm.DB) *gorm.DB { return tx.Model(&User{}).Where("id = ?", 1).Find(&[]User{}) })
		case "dryrun":
			_ = db.Session(&gorm.Session{DryRun: true}).Create(&User{Name: "dry"})
		case "skipdef":
			var n int64
			_ = db.Session(&gorm.Session{SkipDefaultTransaction: true}).Model(&User{}).Count(&n)
		case "session":
			_ = db.Session(&gorm.Session{})
		case "ctx":
			_ = db.WithContext(context.Background())
		case "prep":
			_ = db.Session(&gorm.Session{PrepareStmt: true})
		}
	}
}

func dumpAll(fresh *sql.DB) string {
	var sb strings.Builder
	for _, t := range tables {
		rows, err := fresh.Query("SELECT * FROM " + t)
		lib.Must(err)
		cols, _ := rows.Columns()
		var lines []string
		for rows.Next() {
			vals := make([]interface{}, len(cols))
			ptrs := make([]interface{}, len(cols))
			for i := range vals {
				ptrs[i] = &vals[i]
			}
			lib.Must(rows.Scan(ptrs...))
			parts := make([]string, len(cols))
			for i, v := range vals {
				if b, ok := v.([]byte); ok {
					v = string(b)
				}
				parts[i] = fmt.Sprintf("%s=%v", cols[i], v)
			}
			lines = append(lines, strings.Join(parts, ","))
		}
		rows.Close()
		sort.Strings(lines)
		fmt.Fprintf(&sb, "[%s]\n%s\n", t, strings.Join(lines, "\n"))
	}
	return sb.String()
}

// reset empties every table (and the AUTOINCREMENT counters) and creates the seed users.
func reset(e *env, seed []UserSpec) {
	for _, t := range tables {
		_, err := e.fresh.Exec("DELETE FROM " + t)
		lib.Must(err)
	}
	e.fresh.Exec("DELETE FROM sqlite_sequence")
	cur = nil
	for _, s := range seed {
		u := buildUser(s)
		lib.Must(e.plain.Create(&u).Error)
	}
}

type Observed struct {
	Evs     []Ev   `json:"evs"`
	ErrK    string `json:"err"`     // nil | fault | hook | other
	Wrapped bool   `json:"wrapped"` // the error wraps another one
	Match   []bool `json:"match"`   // final dump == dump after the j-th COMMIT of the fault-free run (j = 0: before)
	InUse   int64  `json:"in_use"`
	OpenTx  int64  `json:"open_tx"`
	ErrText string `json:"err_text,omitempty"`
}

func users(op Op) []User {
	us := make([]User, len(op.Users))
	var shared *Company
	for i, s := range op.Users {
		us[i] = buildUser(s)
		if op.Share && us[i].Company != nil {
			if shared == nil {
				shared = us[i].Company
			}
			us[i].Company = shared
		}
	}
	return us
}

func strs(l []string) []interface{} {
	out := make([]interface{}, len(l))
	for i, s := range l {
		out[i] = s
	}
	return out
}

func doOp(db *gorm.DB, op Op) error {
	for _, o := range op.Sess {
		switch o {
		case "skiphooks":
			db = db.Session(&gorm.Session{SkipHooks: true})
		case "ctx":
			db = db.WithContext(context.Background())
		case "newdb":
			db = db.Session(&gorm.Session{NewDB: true})
		case "queryfields":
			db = db.Session(&gorm.Session{QueryFields: true})
		case "allowglobal":
			db = db.Session(&gorm.Session{AllowGlobalUpdate: true})
		case "unscopedprop":
			db = db.Session(&gorm.Session{PropagateUnscoped: true})
		case "logger":
			db = db.Session(&gorm.Session{Logger: logger.Discard})
		case "nowfunc":
			db = db.Session(&gorm.Session{NowFunc: nowFunc})
		case "initialized":
			db = db.Session(&gorm.Session{Initialized: true})
		}
	}
	if op.FullSave {
		db = db.Session(&gorm.Session{FullSaveAssociations: true})
	}
	if op.BatchSize > 0 {
		db = db.Session(&gorm.Session{CreateBatchSize: op.BatchSize})
	}
	if op.Scopes {
		db = db.Scopes(func(d *gorm.DB) *gorm.DB { return d })
	}
	if len(op.Sel) > 0 {
		db = db.Select(op.Sel[0], strs(op.Sel[1:])...)
	}
	if len(op.Omit) > 0 {
		db = db.Omit(op.Omit...)
	}
	if op.Returning {
		db = db.Clauses(clause.Returning{})
	}
	if op.Unscoped {
		db = db.Unscoped()
	}
	switch op.Veto {
	case "handle":
		db = db.Session(&gorm.Session{})
		_ = db.AddError(errVeto)
	case "scope":
		db = db.Scopes(func(d *gorm.DB) *gorm.DB { _ = d.AddError(errVeto); return d })
	}
	switch op.Kind {
	case "create":
		u := buildUser(op.Users[0])
		switch op.Users[0].Buddy {
		case "self":
			u.Buddy = &u
		case "new":
			u.Buddy = &User{Name: op.Users[0].Name + "-buddy"}
		}
		return db.Create(&u).Error
	case "create_value": // the record passed BY VALUE: hooks cannot be called on it
		return db.Create(buildUser(op.Users[0])).Error
	case "create_tag": // a caller-keyed record, alone or several
		ts := make([]Tag, len(op.Users))
		for i, u := range op.Users {
			ts[i] = Tag{Code: u.Name, Label: "tag " + u.Name}
		}
		if len(ts) == 1 {
			return db.Create(&ts[0]).Error
		}
		return db.Create(&ts).Error
	case "create_note": // a model without any hook method
		return db.Create(&Note{UserID: op.Target, Text: op.Users[0].Name}).Error
	case "create_note_value": // ... passed BY VALUE: nothing may be written (ErrInvalidValue)
		return db.Create(Note{UserID: op.Target, Text: op.Users[0].Name}).Error
	case "create_pet": // a record with a has-one held by value, polymorphic children, a default value
		p := buildUser(UserSpec{Pets: []PetSpec{op.Pet}}).Pets[0]
		p.UserID = op.Target
		return db.Create(&p).Error
	case "update_row": // rows whose update time is tracked in seconds / milli- / nanoseconds, soft-deletable rows
		name := op.Users[0].Name
		switch op.Table {
		case "companies":
			if op.Form == 1 {
				return db.Model(&Company{ID: op.Target}).Update("name", name).Error
			}
			return db.Model(&Company{ID: op.Target}).Updates(Company{Name: name}).Error
		case "profiles":
			if op.Form == 1 {
				return db.Model(&Profile{ID: op.Target}).Updates(Profile{Bio: name}).Error
			}
			return db.Model(&Profile{ID: op.Target}).Update("bio", name).Error
		case "pets":
			return db.Model(&Pet{ID: op.Target}).Update("name", name).Error
		default:
			if op.Form == 1 {
				return db.Model(&Badge{ID: op.Target}).Updates(Badge{Label: name}).Error
			}
			return db.Model(&Badge{ID: op.Target}).Updates(map[string]interface{}{"label": name}).Error
		}
	case "create_slice_value": // a slice passed BY VALUE: its elements are not addressable
		return db.Create(users(op)).Error
	case "create_slice":
		us := users(op)
		return db.Create(&us).Error
	case "create_ptrs":
		us := users(op)
		ps := make([]*User, len(us))
		for i := range us {
			ps[i] = &us[i]
		}
		return db.Create(&ps).Error
	case "create_batches":
		us := users(op)
		return db.CreateInBatches(&us, op.Batch).Error
	case "create_batches_one": // CreateInBatches of a single struct
		u := buildUser(op.Users[0])
		return db.CreateInBatches(&u, op.Batch).Error
	case "create_map":
		m := map[string]interface{}{"name": op.Users[0].Name, "age": op.Users[0].Age}
		if op.Form == 1 {
			return db.Model(&User{}).Create(&m).Error
		}
		return db.Model(&User{}).Create(m).Error
	case "create_maps":
		ms := make([]map[string]interface{}, len(op.Users))
		for i, s := range op.Users {
			ms[i] = map[string]interface{}{"name": s.Name, "age": s.Age}
		}
		if op.Form == 1 {
			return db.Model(&User{}).Create(ms).Error
		}
		return db.Model(&User{}).Create(&ms).Error
	case "save":
		u := buildUser(op.Users[0])
		return db.Save(&u).Error
	case "save_slice":
		us := users(op)
		return db.Save(&us).Error
	case "updates":
		u := buildUser(op.Users[0])
		u.ID = 0
		return db.Model(&User{ID: op.Target}).Updates(&u).Error
	case "updates_map":
		return db.Model(&User{ID: op.Target}).Updates(map[string]interface{}{"name": op.Users[0].Name, "age": op.Users[0].Age}).Error
	case "update_col":
		return db.Model(&User{ID: op.Target}).Update("name", op.Users[0].Name).Error
	case "update_column": // no hooks, no time tracking
		return db.Model(&User{ID: op.Target}).UpdateColumn("name", op.Users[0].Name).Error
	case "update_columns":
		return db.Model(&User{ID: op.Target}).UpdateColumns(User{Name: op.Users[0].Name, Age: op.Users[0].Age}).Error
	case "updates_slice": // the model is a slice: every row of it is updated
		ms := make([]User, len(op.Targets))
		for i, id := range op.Targets {
			ms[i] = User{ID: id}
		}
		return db.Model(&ms).Updates(User{Age: op.Users[0].Age, Name: op.Users[0].Name}).Error
	case "delete", "delete_where", "delete_model", "delete_pet", "delete_conds":
		tx := db
		if len(op.Select) == 1 && op.Select[0] == "*" {
			tx = tx.Select(clause.Associations)
		} else if len(op.Select) > 0 {
			tx = tx.Select(op.Select[0], strs(op.Select[1:])...)
		}
		switch op.Kind {
		case "delete_where":
			return tx.Where("id = ?", op.Users[0].ID).Delete(&User{}).Error
		case "delete_conds": // inline primary-key condition
			return tx.Delete(&User{}, op.Users[0].ID).Error
		case "delete_model": // conditions from the primary key of the value, the model given apart
			return tx.Model(&User{}).Delete(&User{ID: op.Users[0].ID}).Error
		case "delete_pet": // soft delete (UPDATE) unless Unscoped
			return tx.Delete(&Pet{ID: op.Users[0].ID}).Error
		}
		u := User{ID: op.Users[0].ID}
		return tx.Delete(&u).Error
	}
	panic("unknown op " + op.Kind)
}

// runOnce resets the database, runs the operation with the given faults and observes.
func runOnce(in Input, refDumps []string) (Observed, []string) {
	e := getEnv()
	reset(e, in.Seed)
	e.rec.FakeVersion = ""
	if in.Op.NoRet {
		e.rec.FakeVersion = "3.30.0" // older than RETURNING support: INSERT via Exec + LastInsertId
	}
	db := openHandle(e.sqlDB)
	e.rec.FakeVersion = ""
	if in.Op.FwdID { // a dialect whose LastInsertId is the first inserted key (public callback API)
		lib.Must(db.Callback().Create().Replace("gorm:create", callbacks.Create(&callbacks.Config{
			CreateClauses: []string{"INSERT", "VALUES", "ON CONFLICT"}, LastInsertIDReversed: false})))
	}
	history(db, in.Pre)
	st := &runState{errKind: in.ErrKind, dfault: in.DFault, hfault: in.HFault, fresh: e.fresh, wantDumps: refDumps == nil}
	st.dumps = []string{dumpAll(e.fresh)}
	e.rec.Reset()
	e.rec.Fault = func(_ int, ev *recdrv.Event) error {
		k := "stmt"
		switch ev.Kind {
		case "begin", "commit", "rollback":
			k = ev.Kind
		}
		i := st.nops
		st.nops++
		if i == st.dfault {
			st.evs = append(st.evs, Ev{K: "op", Kind: k, F: true})
			return injected(errFault, st.errKind)
		}
		st.evs = append(st.evs, Ev{K: "op", Kind: k})
		return nil
	}
	e.rec.After = func(ev recdrv.Event) {
		if st.wantDumps && ev.Kind == "commit" && ev.Err == "" {
			st.dumps = append(st.dumps, dumpAll(e.fresh))
		}
	}
	cur = st
	var err error
	func() { // a panic raised by gorm is an observation (reported as an "other" error), never the end of the harness
		defer func() {
			if p := recover(); p != nil {
				err = fmt.Errorf("PANIC in gorm: %v", p)
			}
		}()
		err = doOp(db, in.Op)
	}()
	cur = nil
	e.rec.Fault, e.rec.After = nil, nil
	var o Observed
	o.Evs = st.evs
	if o.Evs == nil {
		o.Evs = []Ev{}
	}
	switch {
	case err == nil:
		o.ErrK = "nil"
	case errors.Is(err, errFault):
		o.ErrK = "fault"
	case errors.Is(err, errHook):
		o.ErrK = "hook"
	case errors.Is(err, errVeto):
		o.ErrK = "pre"
	default:
		o.ErrK = "other"
		o.ErrText = err.Error()
	}
	o.Wrapped = err != nil && errors.Unwrap(err) != nil
	o.InUse = int64(e.sqlDB.Stats().InUse)
	otx, _, _ := e.rec.Counters()
	o.OpenTx = int64(otx)
	final := dumpAll(e.fresh)
	ref := refDumps
	if ref == nil {
		ref = st.dumps
	}
	for _, d := range ref {
		o.Match = append(o.Match, d == final)
	}
	if o.InUse != 0 || o.OpenTx != 0 {
		theEnv = nil // a leaked transaction holds SQLite's write lock: abandon this database
	}
	return o, st.dumps
}

// ---------------------------------------------------------------- Gallina

func evTerm(e Ev) string {
	switch e.K {
	case "op":
		k := map[string]string{"begin": "DBegin", "stmt": "DStmt", "commit": "DCommit", "rollback": "DRollback"}[e.Kind]
		return lib.App("EOp", k, lib.Bool(e.F))
	case "hook":
		return lib.App("EHook", lib.Bool(e.F))
	}
	return "EMark"
}

func faultTerm(k int) string {
	if k < 0 {
		return "None"
	}
	return lib.App("Some", lib.Nat(k))
}

func term(in Input, free, o Observed, natural bool) string {
	errk := map[string]string{"nil": "XNil", "fault": "XFault", "hook": "XHook", "other": "XOther", "pre": "XPre"}[o.ErrK]
	return lib.App("mk_case",
		lib.ListOf(free.Evs, evTerm), faultTerm(in.DFault), faultTerm(in.HFault), lib.Bool(natural),
		lib.ListOf(o.Evs, evTerm), errk, lib.Bool(o.Wrapped),
		lib.ListOf(o.Match, lib.Bool), lib.Z(o.InUse), lib.Z(o.OpenTx), lib.Bool(in.Op.Veto != ""))
}

// ---------------------------------------------------------------- generators

type gen struct {
	r    *lib.Rng
	n    int
	seed []UserSpec
}

func (g *gen) name(p string) string { g.n++; return fmt.Sprintf("%s%d", p, g.n) }

// counts of the rows the seed creates (ids are 1..count in creation order)
func seedCounts(seed []UserSpec) (users, companies, langs, pets, toys, profiles uint) {
	for _, u := range seed {
		users++
		if u.Company != nil {
			companies++
		}
		if u.Home != nil {
			companies++
		}
		if u.Profile != nil {
			profiles++
		}
		for _, p := range u.Pets {
			pets++
			toys += uint(len(p.Toys))
		}
		langs += uint(len(u.Langs))
		toys += uint(len(u.Toys))
	}
	return
}

func (g *gen) toys(max int) []ToySpec {
	var out []ToySpec
	for i := g.r.Intn(max + 1); i > 0; i-- {
		out = append(out, ToySpec{Name: g.name("t")})
	}
	return out
}

// user generates a record graph. existing: associations may refer to rows of the seed by id.
func (g *gen) user(existing bool) UserSpec {
	r := g.r
	_, nc, nl, np, _, _ := seedCounts(g.seed)
	u := UserSpec{Name: g.name("u"), Age: r.Range(1, 90)}
	if r.Chance(1, 2) {
		u.Company = &ToySpec{Name: g.name("c")}
		if existing && nc > 0 && r.Chance(1, 3) {
			u.Company.ID = uint(r.Range(1, int(nc)))
		}
	}
	if r.Chance(1, 4) {
		u.Home = &ToySpec{Name: g.name("h")}
	}
	if r.Chance(2, 5) {
		u.Profile = &ToySpec{Name: g.name("bio")}
	}
	if r.Chance(1, 4) {
		u.Badge = &ToySpec{Name: g.name("b")}
	}
	if r.Chance(1, 4) {
		u.Country = &ToySpec{Name: g.name("cc")}
	}
	for i := r.Intn(3); i > 0 && r.Chance(1, 2); i-- {
		u.Aliases = append(u.Aliases, ToySpec{Name: g.name("al")})
	}
	for i := r.Intn(3); i > 0 && r.Chance(1, 2); i-- {
		u.Tags = append(u.Tags, ToySpec{Name: g.name("tg")})
	}
	for i := r.Intn(3); i > 0 && r.Chance(1, 3); i-- {
		u.Notes = append(u.Notes, ToySpec{Name: g.name("n")})
	}
	for i := r.Pick3(); i > 0; i-- {
		p := PetSpec{Name: g.name("p"), Toys: g.toys(2)}
		if r.Bool() {
			p.Kind = "cat"
		}
		if r.Chance(1, 3) {
			p.Collar = &ToySpec{Name: g.name("k")}
		}
		if existing && np > 0 && r.Chance(1, 4) {
			p.ID = uint(r.Range(1, int(np)))
		}
		u.Pets = append(u.Pets, p)
	}
	used := map[uint]bool{}
	for i := r.Pick3(); i > 0; i-- {
		l := ToySpec{Name: g.name("l")}
		if existing && nl > 0 && r.Chance(1, 2) {
			l.ID = uint(r.Range(1, int(nl)))
			if used[l.ID] {
				continue
			}
			used[l.ID] = true
		}
		u.Langs = append(u.Langs, l)
	}
	if r.Chance(1, 3) {
		u.Toys = g.toys(2)
	}
	return u
}

func (g *gen) input() Input {
	r := g.r
	in := Input{DFault: -1, HFault: -1, Seed: []UserSpec{}}
	for i := lib.Pick(r, []int{0, 1, 1, 2, 2, 2}); i > 0; i-- {
		in.Seed = append(in.Seed, g.user(false))
	}
	g.seed = in.Seed
	nu, _, _, _, _, _ := seedCounts(in.Seed)
	op := Op{}
	many := func(lo, hi int) {
		for i := r.Range(lo, hi); i > 0; i-- {
			op.Users = append(op.Users, g.user(true))
		}
	}
	pets := uint(0)
	for _, u := range in.Seed {
		pets += uint(len(u.Pets))
	}
	_, ncomp, _, _, _, nprof := seedCounts(in.Seed)
	nbadge := uint(0)
	for _, u := range in.Seed {
		if u.Badge != nil {
			nbadge++
		}
	}
	switch c := r.Intn(44); {
	case c >= 40 && c < 42:
		op.Kind, op.Target = "create_pet", nu
		op.Pet = PetSpec{Name: g.name("p"), Toys: g.toys(2), Collar: &ToySpec{Name: g.name("k")}}
		if r.Bool() {
			op.Pet.Kind = "cat"
		}
	case c >= 42 && ncomp+nprof+nbadge > 0:
		op.Kind = "update_row"
		op.Users = []UserSpec{{Name: g.name("r")}}
		switch {
		case ncomp > 0 && (r.Bool() || nprof+nbadge == 0):
			op.Table, op.Target = "companies", uint(r.Range(1, int(ncomp)))
		case nprof > 0 && (r.Bool() || nbadge == 0):
			op.Table, op.Target = "profiles", uint(r.Range(1, int(nprof)))
		default:
			op.Table, op.Target = "badges", uint(r.Range(1, int(nbadge)))
		}
	case c < 8:
		u := g.user(true)
		if r.Chance(1, 5) {
			u.Buddy = lib.Pick(r, []string{"self", "new"})
		}
		op.Kind, op.Users = "create", []UserSpec{u}
		if r.Chance(1, 12) {
			op.Kind = "create_value"
		} else if r.Chance(1, 12) {
			op.Kind = "create_tag"
			op.Users = []UserSpec{{Name: g.name("tg")}}
			if r.Bool() {
				op.Users = append(op.Users, UserSpec{Name: g.name("tg")})
			}
		} else if r.Chance(1, 12) {
			op.Kind, op.Target = lib.Pick(r, []string{"create_note", "create_note_value"}), nu
			op.Users = []UserSpec{{Name: g.name("n")}}
		} else if nu > 0 && r.Chance(1, 12) {
			op.Users[0].ID = uint(r.Range(1, int(nu))) // key already taken: the INSERT fails after the belongs-to rows were written
		}
	case c < 12:
		op.Kind = lib.Pick(r, []string{"create_slice", "create_slice", "create_ptrs"})
		many(1, 3)
		op.Share = r.Chance(1, 3)
		if r.Chance(1, 4) {
			op.BatchSize = r.Range(1, 2) // Create goes through CreateInBatches
		}
	case c < 15:
		op.Kind, op.Batch = "create_batches", r.Range(1, 2)
		many(2, 4)
	case c < 16:
		op.Kind, op.Batch, op.Users = "create_batches_one", r.Range(1, 2), []UserSpec{g.user(true)}
	case c < 18:
		op.Kind = lib.Pick(r, []string{"create_map", "create_maps"})
		many(1, 2)
	case c < 24:
		op.Kind = "save"
		u := g.user(true)
		if nu > 0 && r.Chance(2, 3) {
			u.ID = uint(r.Range(1, int(nu))) // existing row: UPDATE path
		} else if r.Chance(1, 3) {
			u.ID = 40 + uint(r.Intn(5)) // preset key of a missing row: UPDATE, then INSERT
			if r.Chance(2, 3) {         // keep out of the known finding: no associations
				u.Company, u.Profile, u.Pets, u.Langs, u.Toys = nil, nil, nil, nil, nil
				u.Home, u.Badge, u.Notes = nil, nil, nil
				u.Country, u.Aliases, u.Tags = nil, nil, nil
			}
		}
		op.Users = []UserSpec{u}
	case c < 26:
		op.Kind = "save_slice" // upsert of every element
		many(1, 2)
		for i := range op.Users {
			if nu > 0 && r.Bool() {
				op.Users[i].ID = uint(r.Range(1, int(nu)))
			}
		}
		if len(op.Users) == 2 && op.Users[0].ID != 0 && op.Users[0].ID == op.Users[1].ID {
			op.Users[1].ID = 0
		}
	case c < 29 && nu > 0:
		op.Kind, op.Target = "updates", uint(r.Range(1, int(nu)))
		op.Users = []UserSpec{g.user(true)}
	case c < 32 && nu > 0:
		op.Kind, op.Target = lib.Pick(r, []string{"updates_map", "update_col", "update_columns", "update_column"}), uint(r.Range(1, int(nu)))
		op.Users = []UserSpec{{Name: g.name("r"), Age: r.Range(1, 90)}}
		op.Returning = r.Chance(1, 3)
		switch r.Intn(4) { // column selection for the update
		case 0:
			op.Sel = []string{"name"}
		case 1:
			op.Omit = []string{"age"}
		}
	case c < 34 && nu > 0:
		op.Kind = "updates_slice"
		for id := uint(1); id <= nu; id++ {
			op.Targets = append(op.Targets, id)
		}
		op.Users = []UserSpec{{Name: g.name("r"), Age: r.Range(1, 90)}}
	case c < 36 && pets > 0:
		op.Kind = "delete_pet"
		op.Users = []UserSpec{{ID: uint(r.Range(1, int(pets)))}}
		op.Unscoped = r.Bool()
		if r.Bool() {
			op.Select = lib.Pick(r, [][]string{{"*"}, {"Toys"}, {"Collar"}, {"Toys", "Collar"}})
		}
	case nu > 0:
		op.Kind = lib.Pick(r, []string{"delete", "delete", "delete_where", "delete_model", "delete_conds"})
		op.Users = []UserSpec{{ID: uint(r.Range(1, int(nu)))}}
		op.Unscoped = r.Chance(1, 4)
		op.Returning = r.Chance(1, 4)
		if op.Kind != "delete_where" && op.Kind != "delete_conds" { // association deletes need the primary key in the value
			switch r.Intn(4) {
			case 0:
			case 1:
				op.Select = []string{"*"}
			default:
				for _, a := range []string{"Pets", "Profile", "Languages", "Toys", "Badge", "Notes"} {
					if r.Chance(2, 5) {
						op.Select = append(op.Select, a)
					}
				}
			}
		}
	default:
		op.Kind, op.Users = "create", []UserSpec{g.user(true)}
	}
	writes := strings.HasPrefix(op.Kind, "create") || strings.HasPrefix(op.Kind, "save") || op.Kind == "updates"
	if writes && !strings.Contains(op.Kind, "map") {
		if r.Chance(1, 4) {
			op.FullSave = true
		}
		switch r.Intn(10) { // associations left out / picked
		case 0:
			op.Omit = []string{lib.Pick(r, []string{"Company", "Pets", "Languages", "Profile", "Home"})}
		case 1:
			op.Omit = []string{clause.Associations}
		case 2:
			op.Sel = []string{"Name", "Age", lib.Pick(r, []string{"Company", "Pets", "Languages", "Toys", "Notes"})}
		case 3:
			op.Sel = []string{"*"}
		case 4:
			op.Omit = []string{"Company.Name"} // a column of an association
		case 5:
			op.Sel = []string{"*", "Company", "Company.Name"}
		}
	}
	if strings.HasPrefix(op.Kind, "create") || op.Kind == "save" || op.Kind == "save_slice" {
		op.NoRet = r.Chance(1, 4)
		op.FwdID = op.NoRet && r.Chance(1, 3)
	}
	op.Scopes = r.Chance(1, 8)
	if r.Chance(1, 3) {
		op.Sess = append(op.Sess, "skiphooks")
	}
	if r.Chance(1, 4) {
		op.Sess = append(op.Sess, lib.Pick(r, []string{"ctx", "newdb", "queryfields", "allowglobal", "unscopedprop", "logger", "nowfunc", "initialized"}))
	}
	in.Op = op
	for i := r.Pick3(); i > 0; i-- {
		in.Pre = append(in.Pre, lib.Pick(r, []string{"tosql", "dryrun", "skipdef", "session", "ctx", "prep"}))
	}
	return in
}

// samePrefix: up to the first failed event, the run's driver operations and hook invocations
// are those of the fault-free run, in the same order.
func samePrefix(free, got []Ev) bool {
	var a, b []Ev
	for _, e := range free {
		if e.K != "mark" {
			a = append(a, e)
		}
	}
	for _, e := range got {
		if e.K != "mark" {
			b = append(b, e)
		}
	}
	for i, e := range b {
		if i >= len(a) {
			return false
		}
		if e.K != a[i].K || (e.K == "op" && e.Kind != a[i].Kind) || (e.K == "hook" && e.Kind != a[i].Kind) {
			return e.K == "op" && e.Kind == "rollback" // the ROLLBACK that follows a failure
		}
		if e.F {
			return true
		}
	}
	return true
}

func withID(u UserSpec, id uint) UserSpec { u.ID = id; return u }

func hasAssoc(u UserSpec) bool {
	return u.Company != nil || u.Country != nil || len(u.Aliases) > 0 || len(u.Tags) > 0 || u.Home != nil || u.Profile != nil || u.Badge != nil || len(u.Notes) > 0 || len(u.Pets) > 0 || len(u.Langs) > 0 || len(u.Toys) > 0
}

const sigSaveTwoTx = "save-preset-key-missing-row-with-associations"

// sig: known-finding signature, from the input only: Save of a record whose preset primary key
// matches no row (UPDATE affects nothing, then a second INSERT pipeline) and that carries
// associations, with a fault (the fault decides nothing about the signature's shape).
func sig(in Input) string {
	nu, _, _, _, _, _ := seedCounts(in.Seed)
	if in.Op.Kind == "save" && len(in.Op.Users) == 1 && in.Op.Users[0].ID > nu && hasAssoc(in.Op.Users[0]) &&
		(in.DFault >= 0 || in.HFault >= 0) {
		return sigSaveTwoTx
	}
	return ""
}

func shape(in Input, free Observed) string {
	var sb strings.Builder
	fmt.Fprintf(&sb, "%v %v %s%s fs=%v sel=%v |", in.Pre, in.Op.Sess, in.Op.Kind, in.Op.Veto, in.Op.FullSave, in.Op.Select)
	for _, e := range free.Evs {
		switch e.K {
		case "op":
			sb.WriteString(e.Kind[:1])
		case "hook":
			sb.WriteByte('h')
		}
	}
	fmt.Fprintf(&sb, "| d%d h%d %s", in.DFault, in.HFault, in.ErrKind)
	return sb.String()
}

func main() {
	a := lib.ParseArgs()
	workDir = a.Out
	lib.Must(os.MkdirAll(workDir, 0o755))
	out := lib.NewOut(a.Out, "C05")
	out.PerFile = 300

	// one operation: the fault-free run, then one run per driver operation and per hook invocation
	addOp := func(kind string, in Input, onlyD, onlyH int) {
		in.DFault, in.HFault = -1, -1
		veto := in.Op.Veto // (replay / corpus of such a case) the fault-free reference run is the operation without it
		in.Op.Veto = ""
		free, dumps := runOnce(in, nil)
		if free.ErrK != "nil" {
			// the operation fails by itself (empty slice, constraint ...): no model prediction, but the
			// property still says: database unchanged, failure reported, transaction closed
			out.Count("natural_failure", free.ErrText)
			out.Add(lib.Case{Term: term(in, free, free, true), JSON: map[string]interface{}{"input": in, "observed": free, "free": free},
				Sig: sig(in), Kind: kind, Shape: "natural|" + shape(in, free), Nontriv: false})
			return
		}
		nops, nhooks, npipes := 0, 0, 0
		for _, e := range free.Evs {
			if e.K == "op" {
				nops++
				if e.Kind == "begin" {
					npipes++
				}
			} else if e.K == "hook" {
				nhooks++
			}
		}
		one := func(in Input) {
			o := free
			if in.DFault >= 0 || in.HFault >= 0 || in.Op.Veto != "" {
				// DeleteBeforeAssociations ranges over a Go map: the order of the association
				// deletes differs from run to run. The faulted run is repeated until its events
				// are a prefix of the fault-free run's (same order), at most 80 times.
				ok := false
				for try := 0; try < 80 && !ok; try++ {
					o, _ = runOnce(in, dumps)
					ok = samePrefix(free.Evs, o.Evs)
				}
				if !ok {
					out.Count("skipped", "event order never matched the fault-free run (map iteration order)")
					return
				}
			}
			fk := "none"
			if in.DFault >= 0 {
				fk = "driver:beyond"
				j := 0
				for _, e := range free.Evs {
					if e.K == "op" {
						if j == in.DFault {
							fk = "driver:" + e.Kind
						}
						j++
					}
				}
			} else if in.HFault >= 0 {
				fk = "hook:beyond"
				j := 0
				for _, e := range free.Evs {
					if e.K == "hook" {
						if j == in.HFault {
							fk = "hook:" + e.Kind
						}
						j++
					}
				}
			}
			out.Add(lib.Case{Term: term(in, free, o, false), JSON: map[string]interface{}{"input": in, "observed": o, "free": free},
				Sig: sig(in), Kind: kind, Shape: shape(in, free), Nontriv: nops >= 4 && nhooks >= 2})
			out.Count("operation", in.Op.Kind)
			out.Count("fault", fk)
			out.Count("error_is", "sentinel+"+in.ErrKind)
			out.Count("error", o.ErrK)
			out.Count("driver_ops", fmt.Sprint(nops))
			out.Count("hook_invocations", fmt.Sprint(nhooks))
			out.Count("pipelines", fmt.Sprint(npipes))
			out.Count("full_save", fmt.Sprint(in.Op.FullSave))
			out.Count("history", fmt.Sprint(in.Pre))
			out.Count("session_options", fmt.Sprint(in.Op.Sess))
			if o.ErrK == "other" {
				out.Count("other_error", o.ErrText)
			}
		}
		if onlyD >= 0 || onlyH >= 0 || veto != "" {
			in.DFault, in.HFault, in.Op.Veto = onlyD, onlyH, veto
			one(in)
			return
		}
		one(in)
		// every index with the plain sentinel; every third index also with an error that is
		// context.Canceled / context.DeadlineExceeded (the operation's own context stays alive)
		kinds := func(i int) []string {
			switch i % 3 {
			case 1:
				return []string{"", "canceled"}
			case 2:
				return []string{"", "deadline"}
			}
			return []string{""}
		}
		for k := 0; k < nops; k++ {
			in.DFault, in.HFault = k, -1
			if sig(in) != "" && kind != "corpus" {
				continue
			}
			for _, ek := range kinds(k) {
				in.ErrKind = ek
				one(in)
			}
		}
		for h := 0; h < nhooks; h++ {
			in.DFault, in.HFault = -1, h
			if sig(in) != "" && kind != "corpus" {
				continue
			}
			for _, ek := range kinds(h + 1) {
				in.ErrKind = ek
				one(in)
			}
		}
		in.ErrKind = ""
		// the same operation on a handle that already carries an error (every armed fault position is
		// irrelevant: nothing may be sent). CreateInBatches is left out: its wrapping Transaction is an
		// explicit block (Begin does not look at the handle's error), C04's subject.
		if !strings.Contains(in.Op.Kind, "batches") && in.Op.BatchSize == 0 {
			in.DFault, in.HFault = []int{-1, 0}[(nops/2)%2], -1 // an armed fault changes nothing: no driver operation is reached
			in.Op.Veto = []string{"handle", "scope"}[(nops+nhooks)%2]
			one(in)
			in.Op.Veto = ""
		}
	}

	readCase := func(f string) Input {
		b, err := os.ReadFile(f)
		lib.Must(err)
		var c struct {
			Case struct {
				Input Input `json:"input"`
			} `json:"case"`
		}
		lib.Must(json.Unmarshal(b, &c))
		return c.Case.Input
	}
	if a.Replay != "" {
		in := readCase(a.Replay)
		addOp("replay", in, in.DFault, in.HFault)
		if len(out.Cases) == 0 {
			addOp("replay", in, -1, -1)
		}
		lib.Must(out.Flush())
		return
	}
	for _, f := range lib.CorpusFiles(a.Corpus) {
		in := readCase(f)
		addOp("corpus", in, in.DFault, in.HFault)
	}

	r := lib.NewRng(a.Seed)
	nops := 120
	if a.Tier == "thorough" {
		nops = 2000
	}
	if a.N > 0 {
		nops = a.N / 25
		if nops < 1 {
			nops = 1
		}
	}
	// menu: every operation form x the options that change its path, on small fixed graphs, so
	// that no form depends on the luck of the random stream
	{
		full := UserSpec{Name: "m", Age: 30, Company: &ToySpec{Name: "mc"}, Home: &ToySpec{Name: "mh"}, Profile: &ToySpec{Name: "mbio"},
			Badge: &ToySpec{Name: "mb"}, Notes: []ToySpec{{Name: "mn"}},
			Pets:  []PetSpec{{Name: "mp", Toys: []ToySpec{{Name: "mt"}}, Collar: &ToySpec{Name: "mk"}}},
			Langs: []ToySpec{{ID: 1, Name: "go"}, {Name: "ml"}}, Toys: []ToySpec{{Name: "mut"}}}
		small := UserSpec{Name: "s", Age: 20, Company: &ToySpec{Name: "sc"}, Pets: []PetSpec{{Name: "sp"}}}
		seed := []UserSpec{{Name: "old", Age: 50, Company: &ToySpec{Name: "oc"}, Profile: &ToySpec{Name: "obio"}, Badge: &ToySpec{Name: "ob"},
			Pets: []PetSpec{{Name: "op", Toys: []ToySpec{{Name: "ot"}}, Collar: &ToySpec{Name: "ok"}}}, Langs: []ToySpec{{Name: "go"}}, Notes: []ToySpec{{Name: "on"}}},
			{Name: "old2", Age: 51}}
		plain := UserSpec{Name: "r", Age: 33}
		menu := []Op{
			{Kind: "create", Users: []UserSpec{full}}, {Kind: "create", Users: []UserSpec{full}, NoRet: true},
			{Kind: "create", Users: []UserSpec{full}, FullSave: true}, {Kind: "create", Users: []UserSpec{full}, Omit: []string{clause.Associations}},
			{Kind: "create", Users: []UserSpec{full}, Sel: []string{"Name", "Pets"}}, {Kind: "create", Users: []UserSpec{full}, Omit: []string{"Company.Name"}},
			{Kind: "create", Users: []UserSpec{{Name: "b", Buddy: "new"}}},
			{Kind: "create_slice", Users: []UserSpec{small, full}, Share: true}, {Kind: "create_slice", Users: []UserSpec{small, full}, NoRet: true},
			{Kind: "create_slice", Users: []UserSpec{small, small, full}, BatchSize: 2}, {Kind: "create_ptrs", Users: []UserSpec{small, full}},
			{Kind: "create_batches", Users: []UserSpec{small, small, small}, Batch: 2}, {Kind: "create_batches_one", Users: []UserSpec{small}, Batch: 2},
			{Kind: "create_map", Users: []UserSpec{plain}}, {Kind: "create_map", Users: []UserSpec{plain}, NoRet: true},
			{Kind: "create_maps", Users: []UserSpec{plain, plain}}, {Kind: "create_maps", Users: []UserSpec{plain, plain}, NoRet: true},
			{Kind: "create_pet", Target: 1, Pet: full.Pets[0]}, {Kind: "create_pet", Target: 1, Pet: PetSpec{Name: "dflt"}, NoRet: true},
			{Kind: "save", Users: []UserSpec{withID(full, 1)}}, {Kind: "save", Users: []UserSpec{withID(full, 1)}, FullSave: true},
			{Kind: "save", Users: []UserSpec{full}}, {Kind: "save", Users: []UserSpec{withID(plain, 44)}},
			{Kind: "save_slice", Users: []UserSpec{withID(small, 1), small}}, {Kind: "save_slice", Users: []UserSpec{withID(small, 2), small}, NoRet: true},
			{Kind: "updates", Target: 1, Users: []UserSpec{full}}, {Kind: "updates", Target: 1, Users: []UserSpec{full}, FullSave: true},
			{Kind: "updates_map", Target: 1, Users: []UserSpec{plain}}, {Kind: "updates_map", Target: 1, Users: []UserSpec{plain}, Sel: []string{"name"}},
			{Kind: "updates_map", Target: 1, Users: []UserSpec{plain}, Omit: []string{"age"}, Returning: true},
			{Kind: "update_col", Target: 2, Users: []UserSpec{plain}}, {Kind: "update_columns", Target: 2, Users: []UserSpec{plain}},
			{Kind: "updates_slice", Targets: []uint{1, 2}, Users: []UserSpec{plain}},
			{Kind: "update_row", Table: "companies", Target: 1, Users: []UserSpec{plain}}, {Kind: "update_row", Table: "profiles", Target: 1, Users: []UserSpec{plain}},
			{Kind: "update_row", Table: "badges", Target: 1, Users: []UserSpec{plain}},
			{Kind: "delete", Users: []UserSpec{{ID: 1}}}, {Kind: "delete", Users: []UserSpec{{ID: 1}}, Select: []string{"*"}},
			{Kind: "delete", Users: []UserSpec{{ID: 1}}, Select: []string{"Pets", "Badge", "Notes"}, Unscoped: true},
			{Kind: "delete", Users: []UserSpec{{ID: 1}}, Select: []string{"Languages"}, Returning: true},
			{Kind: "delete_where", Users: []UserSpec{{ID: 2}}}, {Kind: "delete_model", Users: []UserSpec{{ID: 1}}, Select: []string{"Profile"}},
			{Kind: "delete_pet", Users: []UserSpec{{ID: 1}}, Select: []string{"*"}}, {Kind: "delete_pet", Users: []UserSpec{{ID: 1}}, Select: []string{"Toys", "Collar"}, Unscoped: true},
			{Kind: "create_value", Users: []UserSpec{small}}, {Kind: "create", Users: []UserSpec{withID(small, 1)}},
			{Kind: "create_slice_value", Users: []UserSpec{small, small}}, {Kind: "create_slice", Users: []UserSpec{}},
			{Kind: "create_map", Users: []UserSpec{plain}, Form: 1}, {Kind: "create_maps", Users: []UserSpec{plain, plain}, Form: 1},
			{Kind: "create_slice", Users: []UserSpec{small, full}, NoRet: true, FwdID: true}, {Kind: "create", Users: []UserSpec{full}, NoRet: true, FwdID: true},
			{Kind: "create_maps", Users: []UserSpec{plain, plain}, NoRet: true, FwdID: true},
			{Kind: "update_row", Table: "companies", Target: 1, Users: []UserSpec{plain}, Form: 1}, {Kind: "update_row", Table: "profiles", Target: 1, Users: []UserSpec{plain}, Form: 1},
			{Kind: "update_row", Table: "badges", Target: 1, Users: []UserSpec{plain}, Form: 1}, {Kind: "update_row", Table: "pets", Target: 1, Users: []UserSpec{plain}},
			{Kind: "updates_map", Target: 1, Users: []UserSpec{plain}, Sel: []string{"Name"}},
			{Kind: "delete", Users: []UserSpec{{ID: 1}}, Select: []string{"Pets", "Pets.Toys"}},
			{Kind: "update_column", Target: 2, Users: []UserSpec{plain}}, {Kind: "delete_conds", Users: []UserSpec{{ID: 2}}},
			{Kind: "create", Users: []UserSpec{full}, Sess: []string{"skiphooks"}}, {Kind: "create_slice", Users: []UserSpec{small, full}, Sess: []string{"skiphooks", "ctx"}},
			{Kind: "save", Users: []UserSpec{withID(full, 1)}, Sess: []string{"skiphooks"}}, {Kind: "updates", Target: 1, Users: []UserSpec{full}, Sess: []string{"skiphooks", "newdb"}},
			{Kind: "delete", Users: []UserSpec{{ID: 1}}, Select: []string{"*"}, Sess: []string{"skiphooks"}}, {Kind: "create", Users: []UserSpec{full}, Sess: []string{"initialized", "queryfields"}},
			{Kind: "create_value", Users: []UserSpec{small}, Sess: []string{"skiphooks"}}, {Kind: "create_value", Users: []UserSpec{plain}, Sess: []string{"skiphooks"}},
			{Kind: "create_tag", Users: []UserSpec{{Name: "t1"}}}, {Kind: "create_tag", Users: []UserSpec{{Name: "t1"}, {Name: "t2"}}, NoRet: true},
			{Kind: "create", Users: []UserSpec{{Name: "k", Country: &ToySpec{Name: "xx"}, Aliases: []ToySpec{{Name: "a1"}, {Name: "a2"}}, Tags: []ToySpec{{Name: "g1"}, {Name: "g2"}}}}},
			{Kind: "create", Users: []UserSpec{{Name: "k", Country: &ToySpec{Name: "xx"}, Aliases: []ToySpec{{Name: "a1"}}, Tags: []ToySpec{{Name: "g1"}}}}, NoRet: true},
			{Kind: "save", Users: []UserSpec{withID(UserSpec{Name: "k", Country: &ToySpec{Name: "xx"}, Aliases: []ToySpec{{Name: "a1"}}, Tags: []ToySpec{{Name: "g1"}}}, 1)}},
			{Kind: "create_note", Target: 1, Users: []UserSpec{plain}}, {Kind: "create_note_value", Target: 1, Users: []UserSpec{plain}},
			{Kind: "create_batches", Users: []UserSpec{small, small, small}, Batch: 2, Sess: []string{"skiphooks"}}, {Kind: "create", Users: []UserSpec{full}, Sess: []string{"logger", "nowfunc", "allowglobal", "unscopedprop"}},
		}
		for i, op := range menu {
			if a.N > 0 && i >= a.N/25 {
				break
			}
			in := Input{Seed: seed, Op: op, DFault: -1, HFault: -1}
			if i%3 == 1 {
				in.Pre = []string{[]string{"tosql", "skipdef", "dryrun", "prep"}[i%4]}
			}
			addOp("menu", in, -1, -1)
		}
		nops -= 62
		if nops < 20 {
			nops = 20
		}
	}
	for i := 0; i < nops; i++ {
		g := &gen{r: r.Fork()}
		kind := "main"
		in := g.input()
		if r.Chance(15, 100) { // edge stream: minimal graphs, empty seed
			kind = "edge"
			in.Seed = []UserSpec{}
			g.seed = nil
			in.Op = Op{Kind: lib.Pick(r, []string{"create", "create_slice", "save"}), Users: []UserSpec{{Name: g.name("e")}}}
			if in.Op.Kind == "create_slice" && r.Bool() {
				in.Op.Users = []UserSpec{}
			}
		}
		addOp(kind, in, -1, -1)
	}
	out.Extra["rule"] = "operations = the write forms of gorm (Create of struct / slice / slice of pointers / map / slice of maps / by value, CreateInBatches, Session{CreateBatchSize}, Save of struct (existing row, key-less, preset key of a missing row) and of slices, Updates / Update / UpdateColumn(s) / map updates / slice-model updates / updates of the associated tables, Delete by value / Where / inline key / Model+value, soft and Unscoped, with Select-ed (nested) associations, RETURNING) with options (FullSaveAssociations, Select / Omit of associations and columns, shared association values, Scopes, dialect with / without RETURNING, forward LastInsertId) on generated record graphs (belongs-to by pointer / by value / self-referencing, has-one by pointer / by value / polymorphic, has-many of values / pointers with polymorphic children, many-to-many new or existing; tracked time columns, default values, soft delete) over a seeded database of 0-2 users and a generated history of the handle; a fixed menu of ~60 forms first, then the random stream; every operation is run fault-free, then once per driver-operation index (BEGIN, every statement, COMMIT) with that operation failing and once per hook invocation with that hook returning an error, each from the same database state; one case per run; operations that fail by themselves are spec-only cases; distinct = distinct (history, operation kind, options, event sequence, fault position); non-trivial = the operation issues >= 4 driver operations and >= 2 hook invocations. Save of a preset key matching no row with associations + a fault is the known finding, kept out of the generated stream and replayed from corpus/C05."
	lib.Must(out.Flush())
}
