// c01: argument values reach the database only as bound parameters, one per placeholder.
// Every generated chain is built by real gorm under three dialectors (DryRun with '?', DryRun with
// '$n', executed on SQLite through the recording driver), together with a twin that has the same
// calls and other argument values; the Gallina model and the specification are evaluated on it by
// C01_Check.check_case.
package main

import (
	"encoding/json"
	"fmt"
	"os"
	"strings"

	. "verifharness/cmd/c01/cgen"
	"verifharness/lib"
)

type Observed struct {
	Q, D   Obs
	Q2, D2 Obs
	R      Obs
	Ran    bool   `json:"ran"`
	RErr   bool   `json:"rerr"`   // the driver reported an argument-count / binding error
	Skip   string `json:"skip"`   // why the SQLite run does not count (SQL not valid for SQLite)
}

func bindingError(msg string) bool {
	m := strings.ToLower(msg)
	return strings.Contains(m, "args") || strings.Contains(m, "argument") || strings.Contains(m, "bind") ||
		strings.Contains(m, "parameter") || strings.Contains(m, "placeholder") || strings.Contains(m, "missing")
}

func runCase(h Handles, in Input, twin Input) Observed {
	var o Observed
	o.Q, o.D = Dry(h.Q, in), Dry(h.D, in)
	o.Q2, o.D2 = Dry(h.Q, twin), Dry(h.D, twin)
	if !in.NoExec {
		o.R = RealRun(h.R, h.Rec, in)
		switch {
		case o.R.SQL == "":
			o.Skip = "no statement reached the driver: " + o.R.Err
		case o.R.Err == "":
			o.Ran = true
		case bindingError(o.R.Err):
			o.Ran, o.RErr = true, true
		default:
			o.Skip = o.R.Err
		}
	}
	return o
}

// ---- known-finding signatures, computed from the input only ----
func isBytes(v V) bool { return v.T == "VS" && v.Sc != nil && v.Sc.K == "bytes" }
func deepBytes(v V) bool {
	if isBytes(v) {
		return true
	}
	for _, l := range [][]V{v.L, v.L2, v.L3} {
		for _, x := range l {
			if deepBytes(x) {
				return true
			}
		}
	}
	for _, x := range []*V{v.X, v.X2} {
		if x != nil && deepBytes(*x) {
			return true
		}
	}
	return false
}
func bytesAfterParen(tmpl string, args []V, wop bool) bool {
	ap, i := false, 0
	for _, c := range []byte(tmpl) {
		if c == '?' {
			if i < len(args) && (ap || wop) && isBytes(args[i]) {
				return true
			}
			i++
		} else {
			ap = c == '('
		}
	}
	return false
}
func emptyKnownList(v *V) bool {
	return v != nil && v.T == "VList" && len(v.L) == 0 && (v.S == "LKnown" || v.S == "LIface")
}

// an Eq over an empty list that gorm negates into Neq (Not(...), clause.Not), or a Neq given directly
func negatedEmptyList(v V, negated bool) bool {
	switch v.T {
	case "VCmp":
		if emptyKnownList(v.X2) && (v.S == "ONeq" || (v.S == "OEq" && negated)) {
			return true
		}
	case "VNot":
		negated = true
	case "KCond":
		n := v.S == "KNot"
		if n && v.X != nil && v.X.T == "VQStr" && len(v.L) == 1 && emptyKnownList(&v.L[0]) {
			return true
		}
		if v.X != nil && negatedEmptyList(*v.X, n) {
			return true
		}
		negated = false
	}
	for _, l := range [][]V{v.L, v.L2, v.L3} {
		for _, x := range l {
			if negatedEmptyList(x, negated) {
				return true
			}
		}
	}
	for _, x := range []*V{v.X, v.X2} {
		if x != nil && v.T != "KCond" && negatedEmptyList(*x, negated) {
			return true
		}
	}
	return false
}

// a non-empty []byte, or a driver.Valuer whose Value() is one, as the ONLY argument of a primary-key condition
func soleBytesKey(q *V, args []V) bool {
	return q != nil && len(args) == 0 && (q.T == "VS" || q.T == "VDrv") && q.Sc != nil && q.Sc.K == "bytes" && q.Sc.S != ""
}

func sigWalk(v V, found map[string]bool) {
	switch v.T {
	case "KCond", "KHaving":
		if soleBytesKey(v.X, v.L) {
			found["bytes-as-primary-key"] = true
		}
		if v.X != nil && v.X.T == "VQStr" && bytesAfterParen(v.X.S, v.L, false) {
			found["bytes-after-paren"] = true
		}
	case "VExpr":
		if bytesAfterParen(v.S, v.L, v.B) {
			found["bytes-after-paren"] = true
		}
	case "VNamedExpr", "KSelect", "KJoins", "KTable":
		if bytesAfterParen(v.S, v.L, false) {
			found["bytes-after-paren"] = true
		}
	case "VRawSub":
		if deepBytes(v) {
			found["bytes-in-built-subquery"] = true
		}
	case "VMapCond":
		for _, e := range v.L {
			if e.X != nil && isBytes(*e.X) {
				found["bytes-in-map-condition"] = true
			}
		}
	}
	for _, l := range [][]V{v.L, v.L2, v.L3} {
		for _, x := range l {
			sigWalk(x, found)
		}
	}
	for _, x := range []*V{v.X, v.X2} {
		if x != nil {
			sigWalk(*x, found)
		}
	}
}
func sigOf(in Input) string {
	found := map[string]bool{}
	for _, c := range in.Chain {
		sigWalk(c, found)
	}
	for _, c := range in.Fin.L {
		sigWalk(c, found)
	}
	if in.Fin.X != nil {
		sigWalk(*in.Fin.X, found)
	}
	if len(in.Fin.L) == 1 && soleBytesKey(&in.Fin.L[0], nil) {
		switch in.Fin.K {
		case "find", "first", "take", "last", "delete":
			return "bytes-as-primary-key"
		}
	}
	if found["bytes-as-primary-key"] {
		return "bytes-as-primary-key"
	}
	if len(in.Fin.L) > 0 && in.Fin.L[0].T == "VQStr" && bytesAfterParen(in.Fin.L[0].S, in.Fin.L[1:], false) {
		found["bytes-after-paren"] = true
	}
	if (in.Fin.K == "raw" || in.Fin.K == "exec") && bytesAfterParen(in.Fin.S, in.Fin.L, false) {
		found["bytes-after-paren"] = true
	}
	all := append(append([]V{}, in.Chain...), in.Fin.L...)
	if in.Fin.X != nil {
		all = append(all, *in.Fin.X)
	}
	for _, c := range all {
		if negatedEmptyList(c, false) {
			return "neq-empty-list"
		}
	}
	if len(in.Fin.L) == 2 && in.Fin.L[0].T == "VQStr" && false {
		return ""
	}
	for _, s := range []string{"bytes-after-paren", "bytes-in-map-condition", "bytes-in-built-subquery"} {
		if found[s] {
			return s
		}
	}
	return ""
}

func term(in, twin Input, o Observed) string {
	return lib.App("mk_case", in.TI.Coq(), CoqList(in.Chain), in.Fin.Coq(),
		CoqList(twin.Chain), twin.Fin.Coq(),
		o.Q.Coq(), o.D.Coq(), lib.Str(o.Q2.SQL), lib.Str(o.D2.SQL),
		lib.Bool(o.Ran), o.R.Coq(), lib.Bool(o.RErr))
}

type stored struct {
	Input Input `json:"input"`
	Twin  Input `json:"twin"`
}

func main() {
	a := lib.ParseArgs()
	h := OpenHandles()
	out := lib.NewOut(a.Out, "C01")
	out.PerFile = 150

	add := func(kind string, in, twin Input) {
		o := runCase(h, in, twin)
		nv := len(o.Q.Vars)
		hostileVals := 0
		for _, v := range o.Q.Vars {
			if v.K == "str" && strings.ContainsAny(v.S, "'\"\\?@);`") {
				hostileVals++
			}
		}
		out.Add(lib.Case{Term: term(in, twin, o),
			JSON: map[string]interface{}{"input": in, "twin": twin, "observed": o},
			Sig: sigOf(in), Kind: kind, Shape: Shape(in), Nontriv: kind != "error" && nv >= 2 && hostileVals >= 1 && o.Ran})
		out.Count("finisher", in.Fin.K)
		out.Count("chain_calls", fmt.Sprint(len(in.Chain)))
		out.Count("bound_values", fmt.Sprint(min(nv, 12)))
		out.Count("executed_on_sqlite", fmt.Sprint(o.Ran))
		if o.Skip != "" {
			s := o.Skip
			if len(s) > 40 {
				s = s[:40]
			}
			out.Count("sqlite_skip", s)
		}
		if o.RErr {
			out.Count("sqlite_binding_error", o.R.Err)
		}
		if o.Q.Err != "" {
			e := o.Q.Err
			if len(e) > 40 {
				e = e[:40]
			}
			out.Count("dry_error", e)
		}
		for _, c := range in.Chain {
			out.Count("call", c.T)
		}
	}

	load := func(f string) stored {
		b, err := os.ReadFile(f)
		lib.Must(err)
		var c struct {
			Case stored `json:"case"`
		}
		lib.Must(json.Unmarshal(b, &c))
		return c.Case
	}
	if a.Replay != "" {
		c := load(a.Replay)
		add("replay", c.Input, c.Twin)
		lib.Must(out.Flush())
		return
	}
	for _, f := range lib.CorpusFiles(a.Corpus) {
		c := load(f)
		add("corpus", c.Input, c.Twin)
	}

	r := lib.NewRng(a.Seed)
	budget := 1200
	if a.Tier == "thorough" {
		budget = 20000
	}
	if a.N > 0 {
		budget = a.N
	}
	for i := 0; i < budget; i++ {
		var g *Gen
		var in Input
		kind := "main"
		for {
			g = NewGen(r.Fork())
			kind = "main"
			if g.Rng().Chance(8, 100) {
				in = g.BadInput()
				kind = "error"
			} else if g.Rng().Chance(6, 100) {
				in = g.LitQInput()
				kind = "edge"
			} else if g.Rng().Chance(6, 100) {
				in = g.TightInput()
				kind = "edge"
			} else {
				in = g.Input()
				if g.Rng().Chance(15, 100) {
					kind = "edge"
				}
			}
			break // (neq-empty-list is fixed in /repo b6731b9: back in the main stream)
		}
		if sg := sigOf(in); sg != "" {
			out.Count("shape_of_fixed_finding", sg) // fixed in /repo b0cce87 / b6731b9 / 70948e8: back in the main stream
		}
		in.NoExec = !g.Exec()
		add(kind, in, TwinOf(in, r.Fork()))
	}
	out.Extra["rule"] = "cases = handle Model(&Item{}) x chain of Where/Not/Or (string templates with ?, @name templates with sql.Named/map/struct, column+value, map, struct, clause.Eq/Neq/Gt/Like/IN/And/Or/Not trees, grouped *DB, primary keys) / Select / Table (incl. sub-query table) / Joins / Group / Having / Order (string and clause.Expr) / Limit / Offset / Distinct / Clauses x finisher Find/First/Take/Last/Count/Pluck/Update/Updates(map,struct)/Delete/Create(struct,slice,map,[]map, OnConflict)/Raw/Exec x argument values (hostile strings, ints, bools, []byte, nil and non-nil pointers, sql.Null*, custom driver.Valuer incl. slice-kinded, gorm.Valuer, typed and []interface{} slices incl. empty and nested, clause.Expr with own arguments, sub-query handles built and unbuilt, clause.Column) x dialects ('?' DryRun, '$n' DryRun, SQLite executed); every case has a twin with all scalars replaced; 8% deliberately malformed calls (model-vs-code only); distinct = distinct call/constructor/template skeletons; non-trivial = in-domain stream, >= 2 bound values, >= 1 bound string containing a quote/backslash/?/@/)/;/backtick, executed on SQLite"
	lib.Must(out.Flush())
}

func min(a, b int) int {
	if a < b {
		return a
	}
	return b
}
