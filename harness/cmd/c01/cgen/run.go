// run.go — executes one input on real gorm: DryRun under the '?' dummy dialector and under a
// '$n' dummy dialector, and for real on SQLite through the recording driver.
package cgen

import (
	"database/sql"
	"database/sql/driver"
	"errors"
	"fmt"
	"reflect"
	"regexp"
	"strconv"
	"time"

	"gorm.io/gorm"
	"gorm.io/gorm/clause"
	"gorm.io/gorm/logger"
	"gorm.io/gorm/utils/tests"

	"verifharness/gdb"
	"verifharness/lib"
	"verifharness/recdrv"
)

var tableRegexp = regexp.MustCompile(`(?i)(?:.+? AS (\w+)\s*(?:$|,)|^\w+\s+(\w+)$)`)

// DollarDialector: the dummy dialector with numbered placeholders (as the postgres dialector).
type DollarDialector struct{ tests.DummyDialector }

func (DollarDialector) BindVarTo(writer clause.Writer, stmt *gorm.Statement, v interface{}) {
	writer.WriteByte('$')
	writer.WriteString(strconv.Itoa(len(stmt.Vars)))
}

// Fin is a finisher call.
type Fin struct {
	K    string `json:"k"` // find first take last count pluck update updates_map updates_struct delete create_struct create_slice create_map create_maps raw exec
	S    string `json:"s,omitempty"`
	L    []V    `json:"l,omitempty"`
	X    *V     `json:"x,omitempty"`
	Rows bool   `json:"rows,omitempty"` // raw: use Rows() instead of Scan
}

func (f Fin) Coq() string {
	switch f.K {
	case "find":
		return lib.App("FFind", CoqList(f.L))
	case "first":
		return lib.App("FFirst", CoqList(f.L))
	case "take":
		return lib.App("FTake", CoqList(f.L))
	case "last":
		return lib.App("FLast", CoqList(f.L))
	case "count":
		return "FCount"
	case "pluck":
		return lib.App("FPluck", lib.Str(f.S))
	case "update", "update_column":
		return lib.App("FUpdate", lib.Str(f.S), f.X.Coq())
	case "updates_map", "update_columns":
		return lib.App("FUpdatesMap", CoqList(f.L))
	case "save_struct":
		return lib.App("FSaveStruct", CoqList(f.L))
	case "save_slice":
		return lib.App("FSaveSlice", CoqList(f.L))
	case "updates_struct":
		return lib.App("FUpdatesStruct", CoqList(f.L))
	case "delete":
		return lib.App("FDelete", CoqList(f.L))
	case "create_struct":
		return lib.App("FCreateStruct", CoqList(f.L))
	case "create_slice":
		return lib.App("FCreateSlice", CoqList(f.L))
	case "create_map":
		return lib.App("FCreateMap", CoqList(f.L))
	case "create_maps":
		return lib.App("FCreateMaps", CoqList(f.L))
	case "raw":
		return lib.App("FRaw", lib.Str(f.S), CoqList(f.L))
	case "exec":
		return lib.App("FExec", lib.Str(f.S), CoqList(f.L))
	}
	panic("fin " + f.K)
}

func (f Fin) twin(fr *fresher) Fin {
	g := f
	g.L = fr.list(f.L)
	g.X = fr.ptr(f.X)
	return g
}

// Input is one case: a handle (Model or Table), a chain and a finisher.
type Input struct {
	TI     TInfo `json:"ti"`
	Chain  []V   `json:"chain"`
	Fin    Fin   `json:"fin"`
	NoExec bool  `json:"noexec,omitempty"` // DryRun only (not valid SQL for SQLite, or deliberately malformed)
}

// Obs is what one handle showed.
type Obs struct {
	SQL  string   `json:"sql"`
	Vars []Sc     `json:"vars"`
	Err  string   `json:"err,omitempty"`
	Ev   []string `json:"events,omitempty"`
}

func (o Obs) Coq() string {
	return lib.App("mk_obs", lib.Str(o.SQL), lib.ListOf(o.Vars, func(s Sc) string { return s.Coq() }))
}

// canon maps a Go value found in Statement.Vars or in the driver's argument list to a scalar.
func canon(v interface{}) Sc {
	if v == nil {
		return Sc{K: "null"}
	}
	if dv, ok := v.(driver.Valuer); ok {
		rv := reflect.ValueOf(v)
		if rv.Kind() == reflect.Ptr && rv.IsNil() {
			return Sc{K: "null"}
		}
		x, err := dv.Value()
		if err != nil {
			return Sc{K: "str", S: "<valuer error>"}
		}
		return canon(x)
	}
	switch x := v.(type) {
	case []byte:
		return Sc{K: "bytes", S: string(x)}
	case time.Time:
		return Sc{K: "str", S: "T:" + x.UTC().Format(time.RFC3339Nano)}
	}
	rv := reflect.ValueOf(v)
	switch rv.Kind() {
	case reflect.Ptr:
		if rv.IsNil() {
			return Sc{K: "null"}
		}
		return canon(rv.Elem().Interface())
	case reflect.Int, reflect.Int8, reflect.Int16, reflect.Int32, reflect.Int64:
		return Sc{K: "int", I: rv.Int()}
	case reflect.Uint, reflect.Uint8, reflect.Uint16, reflect.Uint32, reflect.Uint64:
		return Sc{K: "int", I: int64(rv.Uint())}
	case reflect.String:
		return Sc{K: "str", S: rv.String()}
	case reflect.Slice:
		if rv.Type().Elem().Kind() == reflect.Uint8 {
			return Sc{K: "bytes", S: string(rv.Bytes())}
		}
	case reflect.Bool:
		return Sc{K: "bool", B: rv.Bool()}
	}
	return Sc{K: "str", S: fmt.Sprintf("<opaque %T>", v)}
}

func CanonAll(vs []interface{}) []Sc {
	out := make([]Sc, len(vs))
	for i, v := range vs {
		out[i] = canon(v)
	}
	return out
}

// finish runs the finisher on the built chain and returns the resulting *gorm.DB.
func (g Gctx) Finish(tx *gorm.DB, f Fin) *gorm.DB {
	switch f.K {
	case "find":
		var dst []Item
		return tx.Find(&dst, g.list(f.L)...)
	case "first":
		var dst Item
		return tx.First(&dst, g.list(f.L)...)
	case "take":
		var dst Item
		return tx.Take(&dst, g.list(f.L)...)
	case "last":
		var dst Item
		return tx.Last(&dst, g.list(f.L)...)
	case "count":
		var n int64
		return tx.Count(&n)
	case "pluck":
		var dst []interface{}
		return tx.Pluck(f.S, &dst)
	case "update":
		return tx.Update(f.S, g.val(*f.X))
	case "updates_map":
		return tx.Updates(namedEntries(f.L, g))
	case "update_column":
		return tx.UpdateColumn(f.S, g.val(*f.X))
	case "update_columns":
		return tx.UpdateColumns(namedEntries(f.L, g))
	case "save_struct":
		it := g.item(f.L)
		return tx.Save(&it)
	case "save_slice":
		its := make([]Item, len(f.L))
		for i, r := range f.L {
			its[i] = g.item(r.L)
		}
		return tx.Save(&its)
	case "updates_struct":
		return tx.Updates(g.item(f.L))
	case "delete":
		return tx.Delete(&Item{}, g.list(f.L)...)
	case "create_struct":
		it := g.item(f.L)
		return tx.Create(&it)
	case "create_slice":
		its := make([]Item, len(f.L))
		for i, r := range f.L {
			its[i] = g.item(r.L)
		}
		return tx.Create(&its)
	case "create_map":
		m := namedEntries(f.L, g)
		if f.Rows {
			return tx.Create(&m)
		}
		return tx.Create(m)
	case "create_maps":
		ms := make([]map[string]interface{}, len(f.L))
		for i, r := range f.L {
			ms[i] = namedEntries(r.L, g)
		}
		if len(ms)%2 == 0 {
			return tx.Create(&ms)
		}
		return tx.Create(ms)
	case "raw":
		var dst []map[string]interface{}
		return g.db.Raw(f.S, g.list(f.L)...).Scan(&dst)
	case "exec":
		return g.db.Exec(f.S, g.list(f.L)...)
	}
	panic("finish " + f.K)
}

// dry runs the input on a DryRun handle and returns Statement.SQL / Vars.
func Dry(db *gorm.DB, in Input) (o Obs) {
	defer func() {
		if r := recover(); r != nil {
			o.Err = fmt.Sprint("panic: ", r)
		}
	}()
	g := NewGctx(db.Session(&gorm.Session{}))
	tx := g.Run(in)
	o.SQL = tx.Statement.SQL.String()
	o.Vars = CanonAll(tx.Statement.Vars)
	if tx.Error != nil {
		o.Err = tx.Error.Error()
	}
	return o
}

// real runs the input on SQLite inside a transaction that is rolled back, and returns the text
// and arguments of the first statement the driver received.
func RealRun(db *gorm.DB, rec *recdrv.Recorder, in Input) (o Obs) {
	defer func() {
		if r := recover(); r != nil {
			o.Err = fmt.Sprint("panic: ", r)
		}
	}()
	outer := db.Session(&gorm.Session{SkipDefaultTransaction: true}).Begin()
	defer outer.Rollback()
	rec.Reset()
	g := NewGctx(outer)
	tx := g.Run(in)
	for _, e := range rec.Snapshot() {
		o.Ev = append(o.Ev, e.Kind)
		if (e.Kind == "exec" || e.Kind == "query" || e.Kind == "stmt_exec" || e.Kind == "stmt_query") && o.SQL == "" {
			o.SQL = e.Query
			o.Vars = CanonAll(e.Args)
			o.Err = e.Err // the driver's verdict on this statement (errors of scanning the rows do not count)
		}
	}
	if o.SQL == "" && tx.Error != nil && !errors.Is(tx.Error, gorm.ErrRecordNotFound) {
		o.Err = tx.Error.Error()
	}
	return o
}

type Handles struct {
	Q, D *gorm.DB // DryRun: '?' dummy dialector, '$n' dummy dialector
	R    *gorm.DB // SQLite behind the recording driver
	Rec  *recdrv.Recorder
	SQL  *sql.DB
}

func OpenHandles() Handles {
	cfg := func() *gorm.Config { return &gorm.Config{DryRun: true, Logger: logger.Discard} }
	q, err := gorm.Open(tests.DummyDialector{}, cfg())
	lib.Must(err)
	d, err := gorm.Open(DollarDialector{}, cfg())
	lib.Must(err)
	r, rec, sqlDB, err := gdb.Open(gdb.Opt{})
	lib.Must(err)
	lib.Must(r.AutoMigrate(&Item{}))
	note := "n1"
	seed := []Item{
		{Name: "ann", Code: "c1", Age: 20, Active: true, Data: []byte("d1"), Note: &note},
		{Name: "bob", Code: "c2", Age: 31, Data: []byte("d2")},
		{Name: "cid", Code: "c1", Age: 44, Active: true},
	}
	lib.Must(r.Create(&seed).Error)
	return Handles{Q: q, D: d, R: r, Rec: rec, SQL: sqlDB}
}

// TwinOf: the same calls with every scalar replaced by a fresh one of the same kind.
func TwinOf(in Input, r *lib.Rng) Input {
	fr := &fresher{n: 5000, rng: r}
	t := in
	t.Chain = fr.list(in.Chain)
	t.Fin = in.Fin.twin(fr)
	return t
}
