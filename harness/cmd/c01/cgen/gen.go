// gen.go — the C01 quantifier as a grammar: argument values x chain methods x finishers.
package cgen

import (
	"fmt"
	"strings"

	"verifharness/lib"
)

type Gen struct {
	r    *lib.Rng
	fr   *fresher
	scoped bool // the chain ends in a Scopes call: no inline conditions on the finisher
	exec bool // cleared when a construct is produced that SQLite cannot run (DryRun-only case)
	bad  bool // the case deliberately leaves the property's domain
}

// Rng is the generator's PRNG; Exec reports whether everything generated so far can run on SQLite.
func (g *Gen) Rng() *lib.Rng { return g.r }
func (g *Gen) Exec() bool    { return g.exec }

func NewGen(r *lib.Rng) *Gen { return &Gen{r: r, fr: &fresher{rng: r.Fork()}, exec: true} }

var cols = []string{"name", "code", "age", "id", "data", "note", "nick", "active"}

func (g *Gen) col() string { return lib.Pick(g.r, cols[:5]) }

// ---- scalars ----
func (g *Gen) str() V {
	return vs(Sc{K: "str", S: g.fr.str()}, lib.Pick(g.r, []string{"string", "string", "string", "*string", "mystr"}))
}
func (g *Gen) int() V {
	return vs(Sc{K: "int", I: int64(g.r.Range(1, 60))}, lib.Pick(g.r, []string{"int", "int64", "int64", "uint", "int32", "*int64"}))
}
func (g *Gen) null() V {
	return vs(Sc{K: "null"}, lib.Pick(g.r, []string{"nil", "*string", "*int64"}))
}
func (g *Gen) bytes() V {
	return vs(Sc{K: "bytes", S: g.fr.str()[:3+g.r.Intn(3)]}, lib.Pick(g.r, []string{"[]byte", "[]byte", "mybytes"}))
}
func (g *Gen) scalar() V {
	switch g.r.Intn(12) {
	case 0, 1, 2, 3, 4:
		return g.str()
	case 5, 6, 7:
		return g.int()
	case 8:
		return vs(Sc{K: "bool", B: g.r.Bool()}, "bool")
	case 9:
		return g.bytes()
	case 10:
		return g.null()
	}
	return g.drv()
}
func (g *Gen) drv() V {
	mk := func(s Sc, variant string) V { return V{T: "VDrv", Sc: &s, Go: variant} }
	switch g.r.Intn(10) {
	case 8: // array-kinded Valuer
		return mk(Sc{K: "str", S: g.fr.str()}, "pair")
	case 9: // Valuer whose Value() is a []byte
		return mk(Sc{K: "bytes", S: g.fr.str()[:3+g.r.Intn(3)]}, "binkey")
	case 0, 1:
		return mk(Sc{K: "str", S: g.fr.str()}, "nullstring")
	case 2:
		return mk(Sc{K: "null"}, "nullstring")
	case 3:
		return mk(Sc{K: "int", I: int64(g.r.Range(1, 90))}, "nullint64")
	case 4:
		return mk(Sc{K: "int", I: int64(g.r.Range(1, 90))}, "money")
	case 5:
		return mk(Sc{K: "str", S: g.fr.str() + "," + g.fr.str()}, "tags")
	case 6:
		return mk(Sc{K: "null"}, "optstr")
	}
	return mk(Sc{K: "str", S: g.fr.str()}, "optstr")
}

// ---- slices ----
func (g *Gen) list(depth int, allowEmpty bool) V {
	n := g.r.Range(1, 3)
	if allowEmpty && g.r.Chance(1, 6) {
		n = 0
	}
	mkl := func(kind, gotype string, f func() V) V {
		l := make([]V, n)
		for i := range l {
			l[i] = f()
		}
		return V{T: "VList", S: kind, Go: gotype, L: l}
	}
	plainStr := func() V { return vs(Sc{K: "str", S: g.fr.str()}, "string") }
	plainInt := func(variant string) func() V {
		return func() V { return vs(Sc{K: "int", I: int64(g.r.Range(1, 60))}, variant) }
	}
	switch g.r.Intn(14) {
	case 12, 13: // element type of KIND uint8 that is not uint8 itself: a list of values, not a byte string
		if g.r.Chance(1, 3) {
			n = 2
			return mkl("LU8", "[2]level", plainInt("level"))
		}
		return mkl("LU8", "[]level", plainInt("level"))
	case 0, 1:
		return mkl("LKnown", "[]string", plainStr)
	case 2:
		return mkl("LKnown", "[]int", plainInt("int"))
	case 3:
		return mkl("LKnown", "[]int64", plainInt("int64"))
	case 4:
		return mkl("LKnown", "[]uint", plainInt("uint"))
	case 5:
		return mkl("LOther", "[]bool", func() V { return vs(Sc{K: "bool", B: g.r.Bool()}, "bool") })
	case 6:
		return mkl("LOther", "[]mystr", func() V { return vs(Sc{K: "str", S: g.fr.str()}, "mystr") })
	case 7:
		n = 2
		return mkl("LOther", "[2]int64", plainInt("int64"))
	case 8:
		return mkl("LOther", "[]*string", func() V {
			if g.r.Chance(1, 3) {
				return vs(Sc{K: "null"}, "*string")
			}
			return vs(Sc{K: "str", S: g.fr.str()}, "*string")
		})
	case 9:
		return mkl("LOther", "[]nullstring", func() V {
			s := Sc{K: "str", S: g.fr.str()}
			if g.r.Chance(1, 3) {
				s = Sc{K: "null"}
			}
			return V{T: "VDrv", Sc: &s, Go: "nullstring"}
		})
	}
	// []interface{} of anything
	return mkl("LIface", "[]interface{}", func() V {
		if depth > 0 && g.r.Chance(1, 6) {
			return g.expr(depth - 1)
		}
		return g.scalar()
	})
}

// nested list: [][]interface{} (rendered ((a,b),(c,d)); not executable on SQLite)
func (g *Gen) nested() V {
	g.exec = false
	rows := make([]V, g.r.Range(1, 2))
	for i := range rows {
		rows[i] = V{T: "VList", S: "LIface", Go: "[]interface{}", L: []V{g.scalar(), g.scalar()}}
	}
	return V{T: "VList", S: "LOther", Go: "[][]interface{}", L: rows}
}

// ---- expressions with their own arguments ----
func (g *Gen) expr(depth int) V {
	switch g.r.Intn(5) {
	case 0:
		return V{T: "VExpr", S: "? + ?", L: []V{g.int(), g.int()}}
	case 1:
		return V{T: "VExpr", S: "lower(?)", L: []V{g.str()}}
	case 2:
		return V{T: "VExpr", S: "coalesce(?)", B: true, L: []V{g.listOf2()}}
	case 3:
		if g.r.Chance(1, 3) { // WithoutParentheses: a Valuer (also a slice-kinded one) is still one value
			return V{T: "VExpr", S: "coalesce(?, ?)", B: true, L: []V{g.tags(), g.drv()}}
		}
		return V{T: "VExpr", S: "coalesce(?, ?)", L: []V{g.null(), g.scalar()}}
	}
	if depth > 0 {
		return V{T: "VExpr", S: "abs(?) + ?", L: []V{g.expr(depth - 1), g.int()}}
	}
	return V{T: "VExpr", S: "length(?)", L: []V{g.str()}}
}
func (g *Gen) drvNonNull() V {
	for {
		if v := g.drv(); v.Sc.K != "null" {
			return v
		}
	}
}
func (g *Gen) tags() V {
	s := Sc{K: "str", S: g.fr.str() + "," + g.fr.str()}
	return V{T: "VDrv", Sc: &s, Go: "tags"}
}

func (g *Gen) listOf2() V {
	l := g.list(0, false)
	if l.S == "LU8" {
		g.exec = false // coalesce((?,?)): gorm hands a list of a uint8-kind element type whole to AddVar, which adds its own parentheses
	}
	for len(l.L) < 2 && l.Go != "[2]int64" {
		l.L = append(l.L, l.L[0])
	}
	return l
}
func (g *Gen) gormValuer() V {
	switch g.r.Intn(4) {
	case 0:
		return V{T: "VGormValuer", B: true, Go: "ptr", X: vp(V{T: "VExpr", S: "(? + ?)", L: []V{vInt(1), vInt(1)}})}
	case 1:
		return V{T: "VGormValuer", Go: "ptr", X: vp(V{T: "VExpr", S: "(? + ?)", L: []V{vInt(int64(g.r.Range(1, 9))), vInt(int64(g.r.Range(1, 9)))}})}
	}
	return V{T: "VGormValuer", Go: "val", X: vp(V{T: "VExpr", S: "lower(?) || ?", L: []V{g.str(), g.str()}})}
}

// ---- sub-query Handles ----
func (g *Gen) sub(depth int, scalarSub bool) V {
	ti := ItemTI
	if g.r.Chance(1, 3) {
		ti = itemsTableTI
	}
	var chain []V
	if scalarSub {
		chain = append(chain, V{T: "KSelect", S: lib.Pick(g.r, []string{"max(age)", "min(id)", "count(*)"})})
	} else if g.r.Chance(1, 4) {
		chain = append(chain, V{T: "KSelect", S: "coalesce(?, id)", L: []V{g.null()}})
	} else {
		chain = append(chain, V{T: "KSelectCols", SL: []string{"id"}})
	}
	for i := g.r.Intn(3); i > 0; i-- {
		chain = append(chain, g.condCall(depth-1, false))
	}
	if g.r.Chance(1, 5) {
		chain = append(chain, V{T: "KGroup", S: "name"}, V{T: "KHaving", X: vp(vq("count(*) >= ?")), L: []V{g.int()}})
	}
	if g.r.Chance(1, 6) {
		chain = append(chain, V{T: "KLimit", N: int64(g.r.Range(1, 5))})
	}
	return V{T: "VSub", TI: &ti, L: chain}
}
func (g *Gen) rawsub() V {
	switch g.r.Intn(4) {
	case 0:
		return V{T: "VRawSub", S: "SELECT id FROM items WHERE name = ? OR age IN (?)", L: []V{g.str(), g.listNoBytes()}}
	case 1:
		return V{T: "VRawSub", S: "SELECT max(age) FROM items WHERE code <> ?", L: []V{g.scalarNoBytes()}}
	case 2:
		if g.r.Chance(1, 3) { // '@' inside a literal: the embedded text is built again by the named scanner
			return V{T: "VRawSub", S: "SELECT id FROM items WHERE name <> 'a@b.c' AND code <> ?", L: []V{g.scalarNoBytes()}}
		}
		return V{T: "VRawSub", S: "SELECT id FROM items WHERE name = @n AND code <> @c", L: []V{named("n", g.str()), named("c", g.str())}}
	}
	// eleven values: "$1" is a prefix of "$10" and "$11"
	l := make([]V, 11)
	for i := range l {
		l[i] = g.scalarNoBytes()
	}
	return V{T: "VRawSub", S: "SELECT id FROM items WHERE name IN (?,?,?,?,?,?,?,?,?,?) OR code = ?", L: l}
}
func (g *Gen) scalarNoBytes() V {
	for {
		v := g.scalar()
		if v.Sc.K != "bytes" {
			return v
		}
	}
}
func (g *Gen) listNoBytes() V { return g.list(0, true) }

// ---- argument of one placeholder ----
func (g *Gen) arg(depth int) V {
	switch g.r.Intn(20) {
	case 0:
		if depth > 0 {
			return g.expr(depth - 1)
		}
	case 1:
		return g.gormValuer()
	case 2:
		return V{T: "VCol", S2: g.col()}
	}
	return g.scalar()
}

// ---- string templates ----
var joiners = []string{" AND ", " OR ", " and ", " or ", "\tAND\t", " AND\n", " Or "}

type atom struct {
	tmpl string
	args []V
}

func (g *Gen) atom(depth int) atom {
	c := g.col()
	switch g.r.Intn(16) {
	case 0, 1, 2, 3:
		op := lib.Pick(g.r, []string{"=", "<>", ">", "<", ">=", "<=", "LIKE", "IS", "IS NOT"})
		return atom{c + " " + op + " ?", []V{g.arg(depth)}}
	case 4, 5:
		var a V
		switch g.r.Intn(9) {
		case 8: // a slice-kinded driver.Valuer right after '(': bound as ONE value, never expanded
			a = g.tags()
		case 0:
			if depth > 0 {
				a = g.sub(depth, false)
				break
			}
			fallthrough
		case 1:
			a = g.rawsub()
		case 2:
			a = g.scalar()
		default:
			a = g.list(depth, true)
		}
		return atom{c + " IN (?)", []V{a}}
	case 6:
		return atom{c + " IN ?", []V{g.list(depth, true)}}
	case 7:
		return atom{c + " NOT IN ?", []V{g.list(depth, true)}}
	case 8:
		return atom{c + " BETWEEN ? AND ?", []V{g.int(), g.int()}}
	case 9:
		if depth > 0 {
			return atom{c + " > (?)", []V{g.sub(depth, true)}}
		}
	case 10:
		return atom{"lower(" + c + ") = lower(?)", []V{g.str()}}
	case 11:
		return atom{"coalesce(?, " + c + ") <> ?", []V{g.null(), g.scalar()}}
	case 12:
		return atom{"? = ?", []V{{T: "VCol", S2: c}, g.scalar()}}
	case 13:
		return atom{"(" + c + ", id) IN ?", []V{g.nested()}}
	case 14:
		return atom{c + " = (?)", []V{g.rawsub()}}
	}
	return atom{c + " = ?", []V{g.scalar()}}
}

func (g *Gen) template(depth int) (string, []V) {
	n := lib.Pick(g.r, []int{1, 1, 1, 2, 2, 3})
	var sb strings.Builder
	var args []V
	for i := 0; i < n; i++ {
		if i > 0 {
			sb.WriteString(lib.Pick(g.r, joiners))
		}
		a := g.atom(depth)
		if g.r.Chance(1, 8) {
			sb.WriteString("(" + a.tmpl + ")")
		} else {
			sb.WriteString(a.tmpl)
		}
		args = append(args, a.args...)
	}
	return sb.String(), args
}

// named template: positional atoms rewritten with @names
func (g *Gen) namedTemplate() (string, V) {
	names := []string{"Name", "Age", "Code"}
	colOfName := map[string]string{"Name": "name", "Age": "age", "Code": "code"}
	n := g.r.Range(1, 3)
	var parts []string
	used := map[string]bool{}
	for i := 0; i < n; i++ {
		nm := lib.Pick(g.r, names)
		used[nm] = true
		end := lib.Pick(g.r, []string{"", "", " ", "\t", "\n"})
		switch g.r.Intn(6) {
		case 4, 5: // IS / IS NOT: meaningful with a nil value too; the name may be the last token of the text
			parts = append(parts, colOfName[nm]+lib.Pick(g.r, []string{" IS @", " IS NOT @"})+nm+end)
		case 0:
			parts = append(parts, "("+colOfName[nm]+" = @"+nm+")")
		case 1:
			parts = append(parts, colOfName[nm]+" IN (@"+nm+", @"+nm+")")
		default:
			parts = append(parts, colOfName[nm]+" <> @"+nm+end)
		}
	}
	tmpl := strings.Join(parts, lib.Pick(g.r, []string{" AND ", " OR ", " and "}))
	val := func(nm string) V {
		if nm == "Age" {
			return vs(Sc{K: "int", I: int64(g.r.Range(1, 60))}, "int64")
		}
		return vs(Sc{K: "str", S: g.fr.str()}, "string")
	}
	var entries []V
	for _, nm := range names {
		if used[nm] || g.r.Chance(1, 3) {
			entries = append(entries, named(nm, val(nm)))
		}
	}
	src := g.r.Intn(3)
	if src != 0 { // sql.Named / map sources can carry an untyped nil (a struct field cannot)
		for i := range entries {
			if g.r.Chance(1, 4) {
				entries[i] = named(entries[i].S, vNil())
			}
		}
	}
	switch src {
	case 0:
		// struct source: all three fields exist
		have := map[string]bool{}
		for _, e := range entries {
			have[e.S] = true
		}
		for _, nm := range names {
			if !have[nm] {
				z := vs(Sc{K: "str", S: ""}, "string")
				if nm == "Age" {
					z = vs(Sc{K: "int", I: 0}, "int64")
				}
				entries = append(entries, named(nm, z))
			}
		}
		sortNamed(entries)
		// struct fields in declaration order Name, Age, Code
		ord := []V{}
		for _, nm := range names {
			for _, e := range entries {
				if e.S == nm {
					ord = append(ord, e)
				}
			}
		}
		return tmpl, V{T: "VNameSrc", Go: "struct", L: ord}
	case 1:
		sortNamed(entries)
		return tmpl, V{T: "VNameSrc", Go: "map", L: entries}
	}
	return tmpl, V{T: "VList", L: entries} // marker: spread as separate sql.Named arguments
}

// ---- clause.Expression trees ----
func (g *Gen) cexpr(depth int) V {
	colv := func() V {
		switch g.r.Intn(8) {
		case 0, 1:
			return V{T: "VCol", S: "items", S2: g.col()}
		case 2: // clause.Expr as the column of Eq / IN
			return V{T: "VExpr", S: "lower(" + g.col() + ")"}
		}
		return vq(g.col())
	}
	switch g.r.Intn(10) {
	case 0, 1, 2:
		op := lib.Pick(g.r, []string{"OEq", "OEq", "ONeq", "OGt", "OGte", "OLt", "OLte", "OLike"})
		var v V
		switch g.r.Intn(6) {
		case 0:
			v = g.list(0, true)
			if (v.S == "LOther" || v.S == "LU8") && len(v.L) != 1 {
				g.exec = false // `col = (?,?)`
			}
			if op != "OEq" && op != "ONeq" && len(v.L) != 1 {
				g.exec = false
			}
			if op == "ONeq" && len(v.L) == 0 && v.S != "LOther" {
				g.exec = false // NOT IN ()
			}
		case 1:
			v = g.null()
		default:
			v = g.arg(depth)
		}
		return V{T: "VCmp", S: op, X: vp(colv()), X2: vp(v)}
	case 3, 4:
		if g.r.Chance(1, 5) { // IN over several columns: Column is a []clause.Column or a []string
			g.exec = false
			cols := V{T: "VSeq", Go: lib.Pick(g.r, []string{"[]clause.Column", "[]string"}), L: []V{{T: "VText", S: "("},
				{T: "VSeq", S: ",", L: []V{{T: "VCol", S2: "name"}, {T: "VCol", S2: "age"}}}, {T: "VText", S: ")"}}}
			rows := []V{}
			for i := g.r.Range(1, 3); i > 0; i-- {
				rows = append(rows, V{T: "VList", S: "LIface", Go: "[]interface{}", L: []V{g.str(), g.int()}})
			}
			return V{T: "VIn", X: &cols, L: rows}
		}
		n := g.r.Intn(4)
		l := make([]V, n)
		for i := range l {
			l[i] = g.scalar()
		}
		if n == 1 && g.r.Chance(1, 3) {
			l[0] = V{T: "VList", S: "LIface", Go: "[]interface{}", L: []V{g.scalar(), g.scalar()}}
			g.exec = false // IN ((?,?))
		}
		return V{T: "VIn", X: vp(colv()), L: l}
	case 5:
		t, a := g.template(depth)
		return V{T: "VExpr", S: t, L: a}
	}
	if depth <= 0 {
		return V{T: "VCmp", S: "OEq", X: vp(colv()), X2: vp(g.scalar())}
	}
	n := g.r.Range(1, 3)
	l := make([]V, n)
	for i := range l {
		l[i] = g.cexpr(depth - 1)
	}
	return V{T: lib.Pick(g.r, []string{"VAnd", "VOr", "VNot"}), L: l}
}

// normalise what clause.And / Or / Not return for the arguments given (the Gallina side receives
// the value gorm receives)
func normExpr(v V) V {
	for i := range v.L {
		v.L[i] = normExpr(v.L[i])
	}
	switch v.T {
	case "VAnd":
		if len(v.L) == 1 && v.L[0].T != "VOr" {
			return v.L[0]
		}
	case "VNot":
		if len(v.L) == 1 && v.L[0].T == "VAnd" {
			return V{T: "VNot", L: v.L[0].L}
		}
	}
	return v
}

// ---- struct and map conditions ----
func (g *Gen) fieldVal(c string, zero bool) V {
	switch c {
	case "id":
		if zero {
			return vs(Sc{K: "int", I: 0}, "uint")
		}
		return vs(Sc{K: "int", I: int64(g.r.Range(1000, 9000))}, "uint")
	case "age":
		if zero {
			return vs(Sc{K: "int", I: 0}, "int64")
		}
		return vs(Sc{K: "int", I: int64(g.r.Range(1, 90))}, "int64")
	case "active":
		return vs(Sc{K: "bool", B: !zero}, "bool")
	case "data":
		if zero {
			return vs(Sc{K: "bytes", S: ""}, "[]byte")
		}
		b := g.bytes()
		b.Go = "[]byte" // the struct field's type
		return b
	case "note":
		if zero {
			return vs(Sc{K: "null"}, "*string")
		}
		return vs(Sc{K: "str", S: g.fr.str()}, "*string")
	case "nick":
		s := Sc{K: "str", S: g.fr.str()}
		if zero {
			s = Sc{K: "null"}
		}
		return V{T: "VDrv", Sc: &s, Go: "nullstring"}
	}
	if zero {
		return vs(Sc{K: "str", S: ""}, "string")
	}
	return vs(Sc{K: "str", S: g.fr.str()}, "string")
}

// all fields of an Item in column order; pzero = probability (in sixths) that a field is zero
func (g *Gen) fields(pzero int, idZero bool) []V {
	out := []V{}
	for _, f := range ItemTI.Fields {
		c := f[1]
		zero := g.r.Chance(pzero, 6)
		if c == "id" {
			zero = idZero
		}
		out = append(out, V{T: "VField", S: c, B: zero, X: vp(g.fieldVal(c, zero))})
	}
	return out
}

func (g *Gen) mapCond() V {
	n := g.r.Range(1, 3)
	seen := map[string]bool{}
	var es []V
	for len(es) < n {
		c := g.col()
		if seen[c] {
			continue
		}
		seen[c] = true
		var v V
		switch g.r.Intn(8) {
		case 0:
			v = g.list(0, true)
		case 1:
			v = g.null()
		case 2:
			v = g.bytes()
		default:
			v = g.scalar()
		}
		es = append(es, named(c, v))
	}
	sortNamed(es)
	m := V{T: "VMapCond", L: es}
	allStr := true
	for _, e := range es {
		if !(e.X.T == "VS" && e.X.Sc.K == "str" && e.X.Go == "string") {
			allStr = false
		}
	}
	if allStr && g.r.Bool() {
		m.Go = "strmap" // map[string]string
	} else if len(es) == 1 && g.r.Chance(1, 3) {
		m.Go = "ifacemap" // map[interface{}]interface{} with one entry
	}
	return m
}

// ---- one Where / Not / Or call ----
func (g *Gen) condCall(depth int, allowOr bool) V {
	k := lib.Pick(g.r, []string{"KWh", "KWh", "KWh", "KNot", "KOr"})
	if !allowOr && k == "KOr" {
		k = "KWh"
	}
	q, args := g.condForm(depth)
	return V{T: "KCond", S: k, X: &q, L: args}
}

func (g *Gen) condForm(depth int) (V, []V) {
	switch g.r.Intn(20) {
	case 0, 1, 2, 3, 4, 5:
		t, a := g.template(depth)
		return vq(t), a
	case 6, 7:
		t, src := g.namedTemplate()
		if src.T == "VList" {
			return vq(t), src.L
		}
		return vq(t), []V{src}
	case 8, 9:
		var v V
		switch g.r.Intn(6) {
		case 0:
			v = g.list(0, true)
			if (v.S == "LOther" || v.S == "LU8") && len(v.L) != 1 {
				g.exec = false
			}
		case 1:
			v = g.null()
		default:
			v = g.arg(depth)
		}
		return vq(g.col()), []V{v}
	case 10, 11:
		return g.mapCond(), nil
	case 12:
		switch g.r.Intn(5) {
		case 0:
			return V{T: "VStructCond", Go: "ptr", L: g.fields(4, true)}, nil
		case 1: // Where(Item{...}, "name", "Age"): the named columns are conditions even when zero
			fs := g.fields(4, true)
			sel := []V{}
			for _, nm := range [][2]string{{"name", "name"}, {"Age", "age"}, {"code", "code"}} {
				if g.r.Bool() || len(sel) == 0 {
					sel = append(sel, vq(nm[0]))
					for i := range fs {
						if fs[i].S == nm[1] {
							fs[i].B = false
						}
					}
				}
			}
			for i := range fs { // with a selection, ONLY the named columns count
				named := false
				for _, q := range sel {
					if strings.ToLower(q.S) == fs[i].S {
						named = true
					}
				}
				if !named {
					fs[i].B = true
					fs[i].X = vp(g.fieldVal(fs[i].S, true))
				}
			}
			return V{T: "VStructCond", L: fs}, sel
		case 2: // Where([]Item{a, b})
			return V{T: "VStructCond", Go: "slice", L: append(g.fields(4, true), g.fields(4, true)...)}, nil
		}
		return V{T: "VStructCond", L: g.fields(4, true)}, nil
	case 13, 14, 15:
		return normExpr(g.cexpr(depth)), nil
	case 16:
		if g.r.Chance(1, 6) {
			return vq(""), nil // Where(""): no condition
		}
		if depth > 0 {
			ti := TInfo{}
			if g.r.Chance(1, 4) { // db.Or(x) alone as a grouped condition
				q, a := g.condForm(0)
				return V{T: "VSub", TI: &ti, L: []V{{T: "KCond", S: "KOr", X: &q, L: a}}}, nil
			}
			calls := []V{g.condCall(depth-1, false)}
			for i := g.r.Intn(3); i > 0; i-- {
				calls = append(calls, g.condCall(depth-1, true))
			}
			return V{T: "VSub", TI: &ti, L: calls}, nil
		}
	case 17:
		// primary keys
		switch g.r.Intn(8) {
		case 4, 5: // a driver.Valuer of ANY Go kind (struct, slice, array, string; Value() a string, an int, a []byte)
			// as the only key: one value, bound once
			for {
				if v := g.drv(); v.Sc.K != "null" {
					return v, nil
				}
			}
		case 6: // several keys, Valuers and lists among them: IN over all of them, each bound whole
			n := g.r.Range(1, 2)
			rest := make([]V, n)
			for i := range rest {
				rest[i] = lib.Pick(g.r, []V{g.int(), g.tags(), g.str()})
			}
			return lib.Pick(g.r, []V{g.int(), g.tags(), g.drvNonNull()}), rest
		case 7: // a []byte as the only key / a list of a named uint8-kind type as the key list
			if g.r.Bool() {
				return g.bytes(), nil
			}
			l := V{T: "VList", S: "LU8", Go: "[]level"}
			for i := g.r.Range(1, 3); i > 0; i-- {
				l.L = append(l.L, vs(Sc{K: "int", I: int64(g.r.Range(1, 9))}, "level"))
			}
			return l, nil
		case 3: // a driver.Valuer as primary key: its Value() is used
			s := Sc{K: "int", I: int64(g.r.Range(1, 9))}
			return V{T: "VDrv", Sc: &s, Go: "nullint64"}, nil
		case 0:
			return vs(Sc{K: "int", I: int64(g.r.Range(1, 9))}, "int"), nil
		case 1:
			return vq(fmt.Sprint(g.r.Range(1, 99))), nil
		}
		l := V{T: "VList", S: "LKnown", Go: "[]int64"}
		for i := g.r.Range(0, 3); i > 0; i-- {
			l.L = append(l.L, vs(Sc{K: "int", I: int64(g.r.Range(1, 9))}, "int64"))
		}
		return l, nil
	case 18:
		if g.r.Bool() {
			// clause.NamedExpr given '?' arguments only (the scanner Joins uses)
			c := g.col()
			if g.r.Chance(1, 3) {
				return V{T: "VNamedExpr", S: c + " IN (?) OR " + c + " = (?)", L: []V{lib.Pick(g.r, []V{g.drv(), g.tags()}), lib.Pick(g.r, []V{g.scalar(), g.bytes()})}}, nil
			}
			return V{T: "VNamedExpr", S: c + " IN (?) OR " + c + " NOT IN (?)", L: []V{g.list(0, true), g.list(0, true)}}, nil
		}
		t, src := g.namedTemplate()
		if src.T == "VList" {
			return V{T: "VNamedExpr", S: t, L: src.L}, nil
		}
		return V{T: "VNamedExpr", S: t, L: []V{src}}, nil
	}
	t, a := g.template(depth)
	return vq(t), a
}

// ---- text with more '?' than arguments: the extra ones stand in literals / comments AFTER the real
// placeholders (valid SQL; gorm leaves them alone).  Outside the counted domain, but no argument may
// reach the text and the text may not depend on the values. ----
var litQ = []string{" AND code <> '?'", " AND code NOT LIKE '%?%' /* why? */", " /* ? ? */", " AND name <> 'a?b' AND code <> '?'"}

func (g *Gen) strOrOther() V {
	switch g.r.Intn(4) {
	case 0:
		return vs(Sc{K: "str", S: g.fr.str()}, "string") // plain Go string: hostile
	case 1:
		return vs(Sc{K: "str", S: fmt.Sprintf("w%d", g.r.Intn(900)+100) + "ord"}, "string")
	case 2:
		return g.int()
	}
	return g.scalar()
}

func (g *Gen) litQCall() V {
	sfx := lib.Pick(g.r, litQ)
	switch g.r.Intn(5) {
	case 0:
		return V{T: "KCond", S: lib.Pick(g.r, []string{"KWh", "KNot", "KOr"}), X: vp(vq("name <> ?" + sfx)), L: []V{g.strOrOther()}}
	case 1:
		return V{T: "KSelect", S: "id, IFNULL(name, ?) || '?' AS name", L: []V{g.strOrOther()}}
	case 2:
		return V{T: "KSelect", S: "id, coalesce(?, name) AS name, coalesce(?, code) || '??' /* ? */ AS code", L: []V{g.strOrOther(), g.strOrOther()}}
	case 3:
		return V{T: "KJoins", S: "JOIN items AS j ON j.id = items.id AND j.name <> ? AND j.code <> '?'", L: []V{g.strOrOther()}}
	}
	return V{T: "KOrderExpr", X: vp(V{T: "VExpr", S: "CASE WHEN items.name = ? THEN 0 ELSE 1 END /* ? */", L: []V{g.strOrOther()}})}
}

func (g *Gen) litQInput() Input {
	in := Input{TI: ItemTI}
	switch g.r.Intn(6) {
	case 0:
		in.Fin = Fin{K: "raw", S: "SELECT * FROM items WHERE name <> ? AND code <> '?' -- ?", L: []V{g.strOrOther()}}
	case 1:
		in.Fin = Fin{K: "exec", S: "UPDATE items SET code = ? WHERE name = ? AND code <> '?' /* ? */", L: []V{g.strOrOther(), g.strOrOther()}}
	case 2:
		in.Chain = []V{{T: "KGroup", S: "name"}, {T: "KHaving", X: vp(vq("count(*) >= ? AND name <> '?'")), L: []V{g.strOrOther()}}}
		in.Fin = Fin{K: "find"}
	default:
		in.Chain = []V{g.litQCall()}
		if g.r.Bool() {
			in.Chain = append(in.Chain, g.condCall(1, true))
		}
		in.Fin = Fin{K: lib.Pick(g.r, []string{"find", "find", "first", "count"})}
		if in.Chain[0].T == "KSelect" && in.Fin.K == "count" {
			in.Fin.K = "find"
		}
	}
	return in
}

// ---- out-of-domain calls: only model and code have to agree on them ----
func (g *Gen) badCall() V {
	g.exec = false
	g.bad = true
	switch g.r.Intn(10) {
	case 7: // text with a space, arguments, no placeholder at all
		return V{T: "KCond", S: "KWh", X: vp(vq("name IS NOT NULL")), L: []V{g.str()}}
	case 8: // unknown name at the very end of the text
		return V{T: "KCond", S: "KWh", X: vp(vq("code = @c AND name = @nobody")), L: []V{named("c", g.str())}}
	case 9: // an expression followed by a nil argument
		return V{T: "KCond", S: "KWh", X: vp(V{T: "VCmp", S: "OEq", X: vp(vq("name")), X2: vp(g.str())}), L: []V{vNil()}}
	case 0: // surplus arguments
		return V{T: "KCond", S: "KWh", X: vp(vq("name = ?")), L: []V{g.str(), g.int(), g.str()}}
	case 1: // missing argument
		return V{T: "KCond", S: "KWh", X: vp(vq("name = ? AND age > ?")), L: []V{g.str()}}
	case 2: // sql.NamedArg given to '?'
		return V{T: "KCond", S: "KWh", X: vp(vq("name = ? AND code = ?")), L: []V{named("n", g.str()), g.str()}}
	case 3: // quoted placeholder
		return V{T: "KCond", S: "KWh", X: vp(vq("name = '?' AND code = ?")), L: []V{g.str()}}
	case 4: // unknown name
		return V{T: "KCond", S: "KWh", X: vp(vq("name = @nobody AND code = @c")), L: []V{named("c", g.str())}}
	case 5: // '?' and '@' mixed
		return V{T: "KCond", S: "KWh", X: vp(vq("name = @n AND code = ?")), L: []V{named("n", g.str()), g.str()}}
	}
	// template that starts with a digit / contains '$'
	return V{T: "KCond", S: "KWh", X: vp(vq(lib.Pick(g.r, []string{"1 = 1 AND name = ?", "name = ? AND code <> '$'"}))), L: []V{g.str()}}
}

// selectExpr1: Select / Distinct with a one-column expression and '?' or '@name' arguments
func (g *Gen) selectExpr1() V {
	switch g.r.Intn(4) {
	case 0:
		return V{T: "KSelect", S: "coalesce(@v, name) AS name", L: []V{named("v", g.scalar())}}
	case 1:
		return V{T: "KDistinct", S: "coalesce(?, code)", L: []V{g.strOrOther()}}
	case 2:
		return V{T: "KSelect", S: "name || ?", L: []V{g.str()}}
	}
	return V{T: "KSelect", S: "coalesce(?, name) AS name", L: []V{g.strOrOther()}}
}

// modelKey: now and then the value given to Model() carries its primary key
func (g *Gen) modelKey(in *Input) {
	if g.r.Chance(1, 4) {
		k := V{T: "VField", S: "id", X: vp(vs(Sc{K: "int", I: int64(g.r.Range(1, 3))}, "uint"))}
		in.Chain = append([]V{k}, in.Chain...)
	} else if in.Fin.K != "delete" && g.r.Chance(1, 8) { // Model(&[]Item{{ID: a}, {ID: b}}): the keys become an IN condition
		l := V{T: "VList", S: "LOther", Go: "[]uint"}
		for i, n := 1, g.r.Range(1, 3); i <= n; i++ { // distinct keys (gorm de-duplicates identities)
			l.L = append(l.L, vs(Sc{K: "int", I: int64(i)}, "uint"))
		}
		in.Chain = append([]V{{T: "VField", S: "id", X: &l}}, in.Chain...)
	}
}

// ---- whole cases ----
func (g *Gen) queryChain(depth int) []V {
	var ch []V
	if g.r.Chance(1, 16) {
		ch = append(ch, V{T: "KTable", S: "main.items", S2: "items"}) // schema-qualified: quoted part by part
	} else if g.r.Chance(1, 8) {
		ch = append(ch, V{T: "KTable", S: "items"})
	} else if g.r.Chance(1, 10) {
		name := lib.Pick(g.r, []string{"(?) AS items", "(?) as items"})
		sub := V{T: "VSub", TI: &ItemTI, L: []V{g.condCall(depth-1, false)}}
		ch = append(ch, V{T: "KTable", S: name, S2: tableAlias(name), L: []V{sub}})
	}
	if g.r.Chance(1, 10) {
		ch = append(ch, V{T: "KDistinct"})
	}
	switch g.r.Intn(12) {
	case 0:
		ch = append(ch, V{T: "KSelectCols", SL: []string{"name", "age", "code"}[:g.r.Range(1, 3)], Go: lib.Pick(g.r, []string{"", "spread", "slice+more"})})
	case 5: // a select expression replaced by a later column list
		ch = append(ch, V{T: "KSelect", S: "coalesce(?, code) AS code", L: []V{g.scalar()}}, V{T: "KSelectCols", SL: []string{"name"}})
	case 4: // clause.Column / clause.Table values as arguments: quoted, with alias
		ch = append(ch, V{T: "KSelect", S: "?, ?", L: []V{{T: "VCol", S2: "name", S3: "name"}, {T: "VCol", S: "items", S2: "code", S3: "code"}}})
	case 1:
		ch = append(ch, V{T: "KSelect", S: "name, coalesce(?, code) AS code", L: []V{g.scalar()}})
	case 2:
		ch = append(ch, V{T: "KSelect", S: "*, (?) AS c", L: []V{g.sub(depth-1, true)}})
	case 3:
		ch = append(ch, V{T: "KSelect", S: "name, @v AS code", L: []V{named("v", g.scalar())}})
	}
	for i := lib.Pick(g.r, []int{0, 1, 1, 2, 2, 3}); i > 0; i-- {
		ch = append(ch, g.condCall(depth, true))
	}
	if g.r.Chance(1, 7) {
		switch g.r.Intn(5) {
		case 0:
			ch = append(ch, V{T: "KJoins", S: "JOIN items AS j ON j.id = items.id AND j.name <> ?", L: []V{g.scalar()}})
		case 1:
			ch = append(ch, V{T: "KJoins", S: "LEFT JOIN (?) AS s ON s.id = items.id", L: []V{g.sub(depth-1, false)}})
		case 2:
			ch = append(ch, V{T: "KJoins", S: "JOIN items j ON j.code = @c", L: []V{named("c", g.str())}})
		case 3:
			ch = append(ch, V{T: "KJoins", Go: "inner", S: "JOIN ? ON j.id = items.id AND j.name <> ?", L: []V{{T: "VTable", S: "items", S2: "j"}, g.scalar()}})
		default:
			// Joins always builds through NamedExpr: slice expansion (incl. the empty slice) right after '('
			ch = append(ch, V{T: "KJoins", S: "JOIN items AS j ON j.id = items.id AND j.age IN (?) AND j.code <> ?", L: []V{g.list(0, true), g.scalar()}})
		}
	}
	if g.r.Chance(1, 8) {
		ch = append(ch, V{T: "KGroup", S: lib.Pick(g.r, []string{"name", "items.code", "lower(name)"})})
		if g.r.Bool() {
			q, a := g.condForm(0)
			ch = append(ch, V{T: "KHaving", X: &q, L: a})
		}
	}
	switch g.r.Intn(10) {
	case 0:
		ch = append(ch, V{T: "KOrder", S: lib.Pick(g.r, []string{"name desc", "age", "id DESC, name"})})
	case 1:
		ch = append(ch, V{T: "KOrderExpr", X: vp(V{T: "VExpr", S: "CASE WHEN name = ? THEN 0 ELSE 1 END", L: []V{g.str()}})})
	case 2:
		ch = append(ch, V{T: "KOrderExpr", X: vp(V{T: "VExpr", S: "coalesce(?) DESC", B: true, L: []V{g.listOf2()}})})
	}
	if g.r.Chance(1, 6) {
		ch = append(ch, V{T: "KLimit", N: int64(g.r.Range(-1, 5))})
	}
	if g.r.Chance(1, 10) {
		ch = append(ch, V{T: "KOffset", N: int64(g.r.Range(-1, 3))})
	}
	if g.r.Chance(1, 12) { // a scope: its condition is added when the finisher executes, i.e. last
		c := g.condCall(1, true)
		c.Go = "scope"
		ch = append(ch, c)
		g.scoped = true
	} else if g.r.Chance(1, 12) {
		ch = append(ch, V{T: "KClauses", L: []V{{T: "VWhere", L: []V{normExpr(g.cexpr(1))}}}})
	} else if g.r.Chance(1, 12) {
		ch = append(ch, V{T: "KClauses", L: []V{normExpr(g.cexpr(1))}})
	}
	return ch
}

func (g *Gen) whereChain(depth int) []V {
	var ch []V
	for i := g.r.Range(1, 3); i > 0; i-- {
		ch = append(ch, g.condCall(depth, len(ch) > 0))
	}
	return ch
}

func (g *Gen) setValue(c string) V {
	switch g.r.Intn(8) {
	case 0:
		return V{T: "VExpr", S: c + " || ?", L: []V{g.str()}}
	case 1:
		return g.sub(1, true)
	case 2:
		return g.null()
	case 3:
		return g.gormValuer()
	case 4:
		return g.rawsub()
	}
	return g.scalar()
}

func (g *Gen) onConflict() V {
	oc := V{T: "VOnConflict", L: []V{{T: "VCol", S2: "id"}}}
	switch g.r.Intn(5) {
	case 3: // clause.AssignmentColumns: every column from "excluded"
		oc.Go = "excluded"
		for _, c := range []string{"age", "code", "name"}[:g.r.Range(1, 3)] {
			oc.L2 = append(oc.L2, named(c, V{T: "VCol", S: "excluded", S2: c}))
		}
	case 4: // DO UPDATE SET with nothing to set: key = key
	case 0:
		oc.B = true
	case 1:
		oc.L2 = []V{named("age", V{T: "VExpr", S: "age + ?", L: []V{g.int()}}), named("name", g.str())}
	default:
		oc.L2 = []V{named("code", g.scalar())}
		oc.L3 = []V{{T: "VCmp", S: "OLt", X: vp(V{T: "VCol", S: "items", S2: "age"}), X2: vp(g.int())}}
	}
	return oc
}

var rawTemplates = []struct {
	exec bool
	tmpl string
	n    int
}{
	{false, "SELECT * FROM items WHERE name = ? AND age IN ?", 2},
	{false, "SELECT name, ? AS tag FROM items WHERE code <> ? OR id IN (?)", 3},
	{false, "SELECT count(*) AS c FROM items WHERE data = ? AND note IS NOT ?", 2},
	{true, "UPDATE items SET code = ? WHERE name = ?", 2},
	{true, "DELETE FROM items WHERE id IN (?) OR name = ?", 2},
	{true, "INSERT INTO items (name, age, data) VALUES (?, ?, ?)", 3},
}

func (g *Gen) rawFin() Fin {
	if g.r.Chance(1, 8) {
		// text with '@' goes through NamedExpr even for '?' arguments (outside the domain: model = code only)
		g.exec = false
		return Fin{K: "raw", S: "SELECT * FROM items WHERE name <> 'a@b.c' AND id IN (?) AND code = ?", L: []V{g.list(0, true), g.scalar()}}
	}
	if g.r.Chance(1, 3) {
		// named
		ex := g.r.Bool()
		tmpl := "SELECT * FROM items WHERE name = @name OR (code = @code AND name <> @name)"
		k := "raw"
		if ex {
			tmpl = "UPDATE items SET code = @code WHERE name = @name;"
			k = "exec"
		}
		if g.r.Bool() { // the last token of the text is a name
			tmpl = "SELECT * FROM items WHERE code = @code OR name IS NOT @name"
			if ex {
				tmpl = "UPDATE items SET code = @code WHERE name IS @name"
			}
		}
		nameV, codeV := g.str(), g.scalar()
		if g.r.Chance(1, 3) {
			nameV = vNil()
		}
		if g.r.Chance(1, 4) {
			codeV = vNil()
		}
		args := []V{named("name", nameV), named("code", codeV)}
		if g.r.Bool() {
			args = []V{{T: "VNameSrc", Go: "map", L: args}}
			sortNamed(args[0].L)
		}
		return Fin{K: k, S: tmpl, L: args}
	}
	for {
		t := lib.Pick(g.r, rawTemplates)
		args := make([]V, t.n)
		for i := range args {
			args[i] = g.scalar()
		}
		if strings.Contains(t.tmpl, "IN ?") {
			args[1] = g.list(0, true)
		}
		if strings.Contains(t.tmpl, "IN (?)") {
			args[t.n-1] = lib.Pick(g.r, []V{g.list(0, true), g.list(0, true), g.tags()})
			if strings.HasPrefix(t.tmpl, "DELETE") {
				args[0], args[1] = g.list(0, true), g.scalar()
			}
		}
		k := "raw"
		if t.exec {
			k = "exec"
		}
		return Fin{K: k, S: t.tmpl, L: args}
	}
}

// one case
func (g *Gen) Input() Input {
	in := Input{TI: ItemTI}
	depth := 2
	switch g.r.Intn(20) {
	case 0, 1, 2, 3, 4:
		in.Chain = g.queryChain(depth)
		in.Fin = Fin{K: "find"}
		if g.r.Chance(1, 4) && !g.scoped {
			q, a := g.condForm(1)
			in.Fin.L = append([]V{q}, a...)
		}
	case 5, 6:
		in.Chain = g.queryChain(depth)
		if g.r.Chance(1, 6) {
			in.Chain = append(in.Chain, g.selectExpr1())
		}
		in.Fin = Fin{K: lib.Pick(g.r, []string{"first", "first", "take", "last"})}
		if g.r.Chance(1, 3) && !g.scoped {
			q, a := g.condForm(1)
			in.Fin.L = append([]V{q}, a...)
		}
	case 7, 8:
		in.Chain = g.queryChain(depth)
		if g.r.Chance(1, 5) {
			in.Chain = append(in.Chain, g.selectExpr1()) // Count replaces a select expression by count(*): its arguments go with it
		}
		in.Fin = Fin{K: "count"}
	case 9:
		for _, c := range g.queryChain(depth) {
			if c.T != "KSelect" && c.T != "KSelectCols" && !(c.T == "KDistinct" && c.S != "") { // Pluck of a multi-column select is a misuse (scan panics)
				in.Chain = append(in.Chain, c)
			}
		}
		if g.r.Chance(1, 2) { // a ONE-column select expression with arguments installed before Pluck: it stays
			in.Chain = append([]V{g.selectExpr1()}, in.Chain...)
		}
		in.Fin = Fin{K: "pluck", S: lib.Pick(g.r, []string{"name", "Age", "code", "lower(name)"})}
	case 10, 11:
		in.Chain = g.whereChain(depth)
		c := lib.Pick(g.r, []string{"name", "code", "Age", "note", "nick", "data"})
		in.Fin = Fin{K: lib.Pick(g.r, []string{"update", "update", "update_column"}), S: c, X: vp(g.setValue(strings.ToLower(c)))}
		g.modelKey(&in)
	case 12:
		in.Chain = g.whereChain(depth)
		es := []V{}
		seen := map[string]bool{}
		for i := g.r.Range(1, 3); i > 0; i-- {
			c := lib.Pick(g.r, []string{"name", "code", "age", "Note", "nick"})
			if !seen[c] {
				seen[c] = true
				es = append(es, named(c, g.setValue(strings.ToLower(c))))
			}
		}
		if g.r.Chance(1, 8) { // a key that is no field of the model: used as the column name as it is
			es = append(es, named("zz_extra", g.scalar()))
			g.exec = false
		}
		sortNamed(es)
		in.Fin = Fin{K: lib.Pick(g.r, []string{"updates_map", "updates_map", "update_columns"}), L: es}
		g.modelKey(&in)
	case 13:
		in.Chain = g.whereChain(depth)
		fs := g.fields(3, g.r.Chance(5, 6))
		nz := 0
		for _, f := range fs {
			if !f.B {
				nz++
			}
		}
		if nz == 0 {
			fs[1] = V{T: "VField", S: "name", X: vp(g.fieldVal("name", false))}
		}
		in.Fin = Fin{K: "updates_struct", L: fs}
	case 14:
		in.Chain = g.whereChain(depth)
		in.Fin = Fin{K: "delete"}
		g.modelKey(&in)
		if g.r.Chance(1, 3) {
			q, a := g.condForm(1)
			in.Fin.L = append([]V{q}, a...)
		}
	case 15:
		if g.r.Chance(1, 3) {
			in.Chain = []V{{T: "KClauses", L: []V{g.onConflict()}}}
		}
		in.Fin = Fin{K: "create_struct", L: g.fields(2, !(len(in.Chain) > 0 && g.r.Bool()))}
		if len(in.Chain) == 0 && g.r.Chance(1, 4) { // Save(&record) with its key: update of every column
			fs := g.fields(2, false)
			fs[0].X = vp(vs(Sc{K: "int", I: int64(g.r.Range(1, 3))}, "uint"))
			in.Fin = Fin{K: "save_struct", L: fs}
		}
	case 16:
		rows := []V{}
		mixed := g.r.Chance(1, 3) // some records carry their key: the others get the dialect's default expression
		for i := g.r.Range(1, 3); i > 0; i-- {
			rows = append(rows, V{T: "VSeq", L: g.fields(2, !(mixed && g.r.Bool()))})
		}
		if g.r.Chance(1, 4) { // Save(&records): insert, on conflict update every column
			in.Fin = Fin{K: "save_slice", L: rows}
			break
		}
		if g.r.Chance(1, 4) {
			in.Chain = []V{{T: "KClauses", L: []V{g.onConflict()}}}
		}
		in.Fin = Fin{K: "create_slice", L: rows}
	case 17:
		mk := func() []V {
			es := []V{}
			seen := map[string]bool{}
			for i := g.r.Range(2, 5); i > 0; i-- {
				c := lib.Pick(g.r, []string{"name", "code", "age", "Note", "Name", "data"})
				lc := strings.ToLower(c)
				if !seen[lc] {
					seen[lc] = true
					v := g.scalar()
					if g.r.Chance(1, 6) {
						v = V{T: "VExpr", S: "lower(?)", L: []V{g.str()}}
					} else if g.r.Chance(1, 4) {
						v = g.null()
					}
					es = append(es, named(c, v))
				}
			}
			sortNamed(es)
			return es
		}
		if g.r.Bool() {
			in.Fin = Fin{K: "create_map", L: mk(), Rows: g.r.Chance(1, 3)} // Rows = pass a pointer to the map
		} else {
			in.Fin = Fin{K: "create_maps", L: []V{{T: "VNameSrc", Go: "map", L: mk()}, {T: "VNameSrc", Go: "map", L: mk()}}}
		}
	default:
		in.Fin = g.rawFin()
	}
	return in
}

// an input with one deliberately malformed call
// ---- texts WITH arguments that contain neither a space nor a back-quote (the heuristics of Table,
// Select, BuildCondition look at exactly these bytes) ----
func (g *Gen) jsonArr() V {
	return vs(Sc{K: "str", S: fmt.Sprintf("[%d,%d,\"%s\"]", g.r.Range(1, 9), g.r.Range(10, 99), strings.ReplaceAll(strings.ReplaceAll(g.fr.str(), "\\", "/"), "\"", "'"))}, "string")
}

func (g *Gen) tightInput() Input {
	in := Input{TI: ItemTI, Fin: Fin{K: lib.Pick(g.r, []string{"find", "find", "count", "first"})}}
	switch g.r.Intn(8) {
	case 0: // table-valued function
		in.Chain = []V{{T: "KTable", S: "json_each(?)", S2: tableAlias("json_each(?)"), L: []V{g.jsonArr()}},
			{T: "KCond", S: "KWh", X: vp(vq("value<>?")), L: []V{g.strOrOther()}}}
		in.Fin = Fin{K: lib.Pick(g.r, []string{"find", "count"})}
	case 1: // bare sub-query as table
		in.Chain = []V{{T: "KTable", S: "(?)", S2: tableAlias("(?)"), L: []V{g.sub(1, false)}},
			{T: "KCond", S: "KWh", X: vp(vq("id>?")), L: []V{g.int()}}}
		in.Fin = Fin{K: lib.Pick(g.r, []string{"find", "count"})}
	case 2:
		in.Chain = []V{{T: "KTable", S: "(?)", S2: tableAlias("(?)"), L: []V{g.rawsub()}}}
		in.Fin = Fin{K: "count"}
	case 3:
		in.Chain = []V{{T: "KSelect", S: "coalesce(?,name)", L: []V{g.strOrOther()}}, g.condCall(1, false)}
		in.Fin = Fin{K: "find"}
	case 4:
		in.Chain = []V{{T: "KDistinct", S: "coalesce(?,code)", L: []V{g.strOrOther()}}}
		in.Fin = Fin{K: "find"}
	case 5:
		in.Chain = []V{{T: "KGroup", S: "name"}, {T: "KHaving", X: vp(vq("count(*)>=?")), L: []V{g.int()}},
			{T: "KCond", S: lib.Pick(g.r, []string{"KWh", "KNot"}), X: vp(vq("code<>?")), L: []V{g.strOrOther()}}}
		in.Fin = Fin{K: "find"}
	case 6:
		in.Chain = []V{{T: "KOrderExpr", X: vp(V{T: "VExpr", S: "coalesce(?,name)", L: []V{g.strOrOther()}})},
			{T: "KCond", S: "KWh", X: vp(vq("age>?")), L: []V{g.int()}}}
	default:
		in.Chain = []V{{T: "KJoins", S: "JOIN json_each(?) AS j ON j.value=items.id", L: []V{g.jsonArr()}},
			{T: "KCond", S: "KWh", X: vp(vq("items.name<>?")), L: []V{g.strOrOther()}}}
		in.Fin = Fin{K: "find"}
	}
	return in
}

// TightInput: texts with arguments and without spaces / back-quotes.
func (g *Gen) TightInput() Input { return g.tightInput() }

// LitQInput: a case whose SQL text holds '?' characters that are not placeholders.
func (g *Gen) LitQInput() Input { return g.litQInput() }

func (g *Gen) BadInput() Input {
	in := Input{TI: ItemTI, Chain: []V{g.badCall()}, Fin: Fin{K: "find"}}
	if g.r.Bool() {
		in.Chain = append([]V{g.condCall(1, false)}, in.Chain...)
	}
	return in
}

// ---- shape (distinctness) ----
func shapeOf(v V, sb *strings.Builder) {
	sb.WriteString(v.T)
	if v.Sc != nil {
		sb.WriteString(":" + v.Sc.K)
	}
	if v.T != "VS" && v.T != "VDrv" {
		sb.WriteString(v.S)
	}
	for _, l := range [][]V{v.L, v.L2, v.L3} {
		if len(l) > 0 {
			sb.WriteByte('[')
			for _, x := range l {
				shapeOf(x, sb)
				sb.WriteByte(',')
			}
			sb.WriteByte(']')
		}
	}
	for _, x := range []*V{v.X, v.X2} {
		if x != nil {
			sb.WriteByte('<')
			shapeOf(*x, sb)
			sb.WriteByte('>')
		}
	}
}
func Shape(in Input) string {
	var sb strings.Builder
	for _, c := range in.Chain {
		shapeOf(c, &sb)
		sb.WriteByte(';')
	}
	sb.WriteString("|" + in.Fin.K + in.Fin.S)
	for _, x := range in.Fin.L {
		shapeOf(x, &sb)
	}
	if in.Fin.X != nil {
		shapeOf(*in.Fin.X, &sb)
	}
	return sb.String()
}
