// val.go — the argument/statement tree shared by the C01 and C19 harnesses: one Go type V that
// mirrors the Gallina type C01_Model.val.  From a V the harness builds (a) the real Go value
// handed to gorm, (b) the Gallina term, (c) a twin with every scalar replaced.
package cgen

import (
	"context"
	"database/sql"
	"database/sql/driver"
	"fmt"
	"sort"
	"strings"

	"gorm.io/gorm"
	"gorm.io/gorm/clause"

	"verifharness/lib"
)

// Sc is a scalar of the value universe: int | str | bytes | bool | null.
type Sc struct {
	K string `json:"k"`
	I int64  `json:"i,omitempty"`
	S string `json:"s,omitempty"` // str and bytes
	B bool   `json:"b,omitempty"`
}

func (s Sc) Coq() string {
	switch s.K {
	case "int":
		return lib.App("SInt", lib.Z(s.I))
	case "str":
		return lib.App("SStr", lib.Str(s.S))
	case "bytes":
		return lib.App("SBytes", lib.Str(s.S))
	case "bool":
		return lib.App("SBool", lib.Bool(s.B))
	}
	return "SNull"
}

// TInfo mirrors C01_Model.tinfo.
type TInfo struct {
	Table  string      `json:"table"`
	PK     string      `json:"pk"` // "" = no schema
	Fields [][2]string `json:"fields"`
	Model  bool        `json:"model"` // handle starts with Model(&Item{}) (true) or Table(name) (false)
}

func (t TInfo) Coq() string {
	pk := "None"
	if t.PK != "" {
		pk = "(Some " + lib.Str(t.PK) + ")"
	}
	return lib.App("mk_tinfo", lib.Str(t.Table), pk,
		lib.ListOf(t.Fields, func(f [2]string) string { return lib.Pair(lib.Str(f[0]), lib.Str(f[1])) }))
}

// V is one node. T is the Gallina constructor name.
type V struct {
	T  string `json:"t"`
	Sc *Sc    `json:"sc,omitempty"`
	Go string `json:"go,omitempty"` // Go type variant of a value (see goScalar / goList)
	S  string `json:"s,omitempty"`
	S2 string `json:"s2,omitempty"`
	S3 string `json:"s3,omitempty"`
	B  bool   `json:"b,omitempty"`
	N  int64  `json:"n,omitempty"`
	SL []string `json:"sl,omitempty"`
	L  []V    `json:"l,omitempty"`
	L2 []V    `json:"l2,omitempty"`
	L3 []V    `json:"l3,omitempty"`
	X  *V     `json:"x,omitempty"`
	X2 *V     `json:"x2,omitempty"`
	TI *TInfo `json:"ti,omitempty"`
}

// ---- Gallina ----
func CoqList(l []V) string { return lib.ListOf(l, func(v V) string { return v.Coq() }) }
func strList(l []string) string { return lib.ListOf(l, lib.Str) }

func (v V) Coq() string {
	switch v.T {
	case "VS", "VDrv":
		return lib.App(v.T, v.Sc.Coq())
	case "VList":
		return lib.App("VList", v.S, CoqList(v.L)) // S = LIface | LKnown | LOther
	case "VNamed":
		return lib.App("VNamed", lib.Str(v.S), v.X.Coq())
	case "VMapCond":
		if v.Go == "ifacemap" { // map[interface{}]interface{}: a plain Eq per entry (no IN conversion); one entry here
			return lib.App("VCmp", "OEq", lib.App("VQStr", lib.Str(v.L[0].S)), v.L[0].X.Coq())
		}
		return lib.App(v.T, CoqList(v.L))
	case "VNameSrc", "VAnd", "VOr", "VNot", "VWhere", "KClauses", "VStructCond":
		return lib.App(v.T, CoqList(v.L))
	case "VGormValuer":
		return lib.App("VGormValuer", lib.Bool(v.B), v.X.Coq())
	case "VCol":
		return lib.App("VCol", lib.Str(v.S), lib.Str(v.S2), lib.Str(v.S3), lib.Bool(v.B))
	case "VTable":
		return lib.App("VTable", lib.Str(v.S), lib.Str(v.S2), lib.Bool(v.B))
	case "VQStr", "VText", "KGroup", "KOrder":
		return lib.App(v.T, lib.Str(v.S))
	case "VExpr":
		return lib.App("VExpr", lib.Bool(v.B), lib.Str(v.S), CoqList(v.L))
	case "VNamedExpr", "VRawSub", "KSelect", "KJoins":
		return lib.App(v.T, lib.Str(v.S), CoqList(v.L))
	case "VCmp":
		return lib.App("VCmp", v.S, v.X.Coq(), v.X2.Coq()) // S = OEq ...
	case "VIn":
		return lib.App("VIn", v.X.Coq(), CoqList(v.L))
	case "VSub":
		return lib.App("VSub", v.TI.Coq(), CoqList(v.L))
	case "KCond":
		return lib.App("KCond", v.S, v.X.Coq(), CoqList(v.L)) // S = KWh | KNot | KOr
	case "KHaving":
		return lib.App("KHaving", v.X.Coq(), CoqList(v.L))
	case "KSelectCols":
		return lib.App("KSelectCols", strList(v.SL))
	case "KTable":
		return lib.App("KTable", lib.Str(v.S), lib.Str(v.S2), CoqList(v.L))
	case "KOrderExpr":
		return lib.App("KOrderExpr", v.X.Coq())
	case "KLimit", "KOffset":
		return lib.App(v.T, lib.Z(v.N))
	case "KDistinct":
		if v.S != "" { // Distinct(q, args...): sets Distinct, then Select(q, args...)
			return "KDistinct; " + lib.App("KSelect", lib.Str(v.S), CoqList(v.L))
		}
		return "KDistinct"
	case "VField":
		return lib.App("VField", lib.Str(v.S), lib.Bool(v.B), v.X.Coq())
	case "VSeq":
		return lib.App("VSeq", lib.Str(v.S), CoqList(v.L))
	case "VOnConflict":
		return lib.App("VOnConflict", CoqList(v.L), lib.Bool(v.B), CoqList(v.L2), CoqList(v.L3))
	}
	panic("Coq: unknown node " + v.T)
}

// ---- twin: every scalar replaced by a fresh one of the same kind (nil-ness, zero-ness, byte
// length and booleans kept) ----
type fresher struct {
	n   int
	rng *lib.Rng
}

var hostile = []string{"'", "\"", "\\", "?", "@name", ")", "--", ";", "ü", "%", "`", "(", "''", "/*", "$1", "\t", "\n", " OR 1=1", "', '"}

func (f *fresher) str() string {
	f.n++
	h := hostile[f.rng.Intn(len(hostile))]
	h2 := hostile[f.rng.Intn(len(hostile))]
	return fmt.Sprintf("z%d%s_%s%d", f.n, h, h2, f.rng.Intn(90)+10)
}
func (f *fresher) int() int64 { f.n++; return int64(1000 + f.n*7 + f.rng.Intn(5)) }

func (f *fresher) scalar(s Sc) Sc {
	switch s.K {
	case "int":
		if s.I == 0 {
			return s
		}
		return Sc{K: "int", I: f.int()}
	case "str":
		if s.S == "" {
			return s
		}
		return Sc{K: "str", S: f.str()}
	case "bytes":
		b := []byte(f.str() + strings.Repeat("x", len(s.S)))
		return Sc{K: "bytes", S: string(b[:len(s.S)])}
	}
	return s
}

func (f *fresher) list(l []V) []V {
	if l == nil {
		return nil
	}
	out := make([]V, len(l))
	for i, x := range l {
		out[i] = f.twin(x)
	}
	return out
}
func (f *fresher) ptr(x *V) *V {
	if x == nil {
		return nil
	}
	t := f.twin(*x)
	return &t
}
func (f *fresher) twin(v V) V {
	w := v
	if v.Sc != nil {
		s := f.scalar(*v.Sc)
		w.Sc = &s
	}
	w.L, w.L2, w.L3 = f.list(v.L), f.list(v.L2), f.list(v.L3)
	w.X, w.X2 = f.ptr(v.X), f.ptr(v.X2)
	return w
}

// ---- Go values ----

// Item is the table of every statement.
type Item struct {
	ID     uint `gorm:"primaryKey"`
	Name   string
	Code   string
	Age    int64
	Active bool
	Data   []byte
	Note   *string
	Nick   sql.NullString
}

var ItemTI = TInfo{Table: "items", PK: "id", Model: true, Fields: [][2]string{
	{"ID", "id"}, {"Name", "name"}, {"Code", "code"}, {"Age", "age"}, {"Active", "active"},
	{"Data", "data"}, {"Note", "note"}, {"Nick", "nick"}}}
var itemsTableTI = TInfo{Table: "items", PK: "", Model: false}

// driver.Valuer types
type Money struct{ Cents int64 }

func (m Money) Value() (driver.Value, error) { return m.Cents, nil }

type Tags []string // slice-kinded driver.Valuer
func (t Tags) Value() (driver.Value, error) { return strings.Join(t, ","), nil }

// Pair: an ARRAY-kinded driver.Valuer (as uuid.UUID is); one value, never a list
type Pair [2]string

func (p Pair) Value() (driver.Value, error) { return p[0] + p[1], nil }

// BinKey: a driver.Valuer whose Value() is a []byte (a binary key)
type BinKey string

func (k BinKey) Value() (driver.Value, error) { return []byte(k), nil }

// Level: a named type of kind uint8 (the usual small enum); []Level / [2]Level are LISTS, not byte strings
type Level uint8

type OptStr struct{ P *string } // Value() may be nil
func (o OptStr) Value() (driver.Value, error) {
	if o.P == nil {
		return nil, nil
	}
	return *o.P, nil
}

type MyStr string
type MyBytes []byte // a named byte-slice type: not matched by `case []byte`

// gorm.Valuer
type Plus struct {
	SQL  string
	Vars []interface{}
}

func (p Plus) GormValue(ctx context.Context, db *gorm.DB) clause.Expr {
	return clause.Expr{SQL: p.SQL, Vars: p.Vars}
}

type PlusP struct{ A, B int64 }

func (p *PlusP) GormValue(ctx context.Context, db *gorm.DB) clause.Expr {
	return clause.Expr{SQL: "(? + ?)", Vars: []interface{}{p.A, p.B}}
}

// named-template struct source
type NameArgs struct {
	Name string
	Age  int64
	Code string
}

type Gctx struct{ db *gorm.DB }

func NewGctx(db *gorm.DB) Gctx { return Gctx{db: db} }

// Prefix applies the handle and the chain of in (no finisher).
func (g Gctx) Prefix(in Input) *gorm.DB { return g.chain(g.handleFor(in), in.Chain) }

// Run applies the chain of in to a fresh handle and calls the finisher.
func (g Gctx) Run(in Input) *gorm.DB {
	if in.Fin.K == "raw" || in.Fin.K == "exec" {
		return g.Finish(g.db, in.Fin)
	}
	return g.Finish(g.chain(g.handleFor(in), in.Chain), in.Fin)
}

func goScalar(s Sc, variant string) interface{} {
	switch s.K {
	case "int":
		switch variant {
		case "int64":
			return s.I
		case "uint":
			return uint(s.I)
		case "int32":
			return int32(s.I)
		case "*int64":
			x := s.I
			return &x
		case "uint8":
			return uint8(s.I)
		case "level":
			return Level(s.I)
		}
		return int(s.I)
	case "str":
		switch variant {
		case "*string":
			x := s.S
			return &x
		case "mystr":
			return MyStr(s.S)
		}
		return s.S
	case "bytes":
		if variant == "mybytes" {
			return MyBytes(s.S)
		}
		return []byte(s.S)
	case "bool":
		return s.B
	}
	switch variant {
	case "*string":
		return (*string)(nil)
	case "*int64":
		return (*int64)(nil)
	}
	return nil
}

func goDrv(s Sc, variant string) interface{} {
	switch variant {
	case "nullstring":
		if s.K == "null" {
			return sql.NullString{}
		}
		return sql.NullString{String: s.S, Valid: true}
	case "nullint64":
		if s.K == "null" {
			return sql.NullInt64{}
		}
		return sql.NullInt64{Int64: s.I, Valid: true}
	case "nullbool":
		if s.K == "null" {
			return sql.NullBool{}
		}
		return sql.NullBool{Bool: s.B, Valid: true}
	case "money":
		return Money{s.I}
	case "tags": // s.S = joined tags
		return Tags(strings.Split(s.S, ","))
	case "pair": // s.S = the two halves, concatenated
		return Pair{s.S[:len(s.S)/2], s.S[len(s.S)/2:]}
	case "binkey":
		return BinKey(s.S)
	case "optstr":
		if s.K == "null" {
			return OptStr{}
		}
		x := s.S
		return OptStr{&x}
	}
	panic("goDrv " + variant)
}

func (g Gctx) list(l []V) []interface{} {
	out := make([]interface{}, len(l))
	for i, x := range l {
		out[i] = g.val(x)
	}
	return out
}

func (g Gctx) goList(v V) interface{} {
	switch v.Go {
	case "[]interface{}":
		return g.list(v.L)
	case "[]string":
		out := make([]string, len(v.L))
		for i, x := range v.L {
			out[i] = x.Sc.S
		}
		return out
	case "[]int":
		out := make([]int, len(v.L))
		for i, x := range v.L {
			out[i] = int(x.Sc.I)
		}
		return out
	case "[]int64":
		out := make([]int64, len(v.L))
		for i, x := range v.L {
			out[i] = x.Sc.I
		}
		return out
	case "[]uint":
		out := make([]uint, len(v.L))
		for i, x := range v.L {
			out[i] = uint(x.Sc.I)
		}
		return out
	case "[]bool":
		out := make([]bool, len(v.L))
		for i, x := range v.L {
			out[i] = x.Sc.B
		}
		return out
	case "[]mystr":
		out := make([]MyStr, len(v.L))
		for i, x := range v.L {
			out[i] = MyStr(x.Sc.S)
		}
		return out
	case "[]level":
		out := make([]Level, len(v.L))
		for i, x := range v.L {
			out[i] = Level(x.Sc.I)
		}
		return out
	case "[2]level":
		var out [2]Level
		for i, x := range v.L {
			out[i] = Level(x.Sc.I)
		}
		return out
	case "[2]int64":
		var out [2]int64
		for i, x := range v.L {
			out[i] = x.Sc.I
		}
		return out
	case "[]*string":
		out := make([]*string, len(v.L))
		for i, x := range v.L {
			if x.Sc.K != "null" {
				s := x.Sc.S
				out[i] = &s
			}
		}
		return out
	case "[]nullstring":
		out := make([]sql.NullString, len(v.L))
		for i, x := range v.L {
			out[i] = goDrv(*x.Sc, "nullstring").(sql.NullString)
		}
		return out
	case "[][]interface{}":
		out := make([][]interface{}, len(v.L))
		for i, x := range v.L {
			out[i] = g.list(x.L)
		}
		return out
	}
	panic("goList " + v.Go)
}

func colOf(v V) clause.Column { return clause.Column{Table: v.S, Name: v.S2, Alias: v.S3, Raw: v.B} }

// column position of Eq / IN: a Go string or a clause.Column
func (g Gctx) col(v V) interface{} {
	if v.T == "VQStr" {
		return v.S
	}
	if v.T == "VSeq" && len(v.L) == 3 { // "(" cols ")": several columns
		if v.Go == "[]string" {
			out := []string{}
			for _, c := range v.L[1].L {
				out = append(out, c.S2)
			}
			return out
		}
		out := []clause.Column{}
		for _, c := range v.L[1].L {
			out = append(out, colOf(c))
		}
		return out
	}
	return g.val(v)
}

func (g Gctx) exprs(l []V) []clause.Expression {
	out := make([]clause.Expression, len(l))
	for i, x := range l {
		out[i] = g.val(x).(clause.Expression)
	}
	return out
}

func namedEntries(l []V, g Gctx) map[string]interface{} {
	m := map[string]interface{}{}
	for _, e := range l {
		m[e.S] = g.val(*e.X)
	}
	return m
}

// val builds the Go value gorm receives for v.
func (g Gctx) val(v V) interface{} {
	switch v.T {
	case "VS":
		return goScalar(*v.Sc, v.Go)
	case "VDrv":
		return goDrv(*v.Sc, v.Go)
	case "VList":
		return g.goList(v)
	case "VNamed":
		return sql.Named(v.S, g.val(*v.X))
	case "VNameSrc":
		if v.Go == "struct" {
			m := namedEntries(v.L, g)
			na := NameArgs{}
			if x, ok := m["Name"]; ok {
				na.Name = x.(string)
			}
			if x, ok := m["Age"]; ok {
				na.Age = x.(int64)
			}
			if x, ok := m["Code"]; ok {
				na.Code = x.(string)
			}
			return na
		}
		return namedEntries(v.L, g)
	case "VGormValuer":
		if v.B {
			return (*PlusP)(nil)
		}
		e := g.val(*v.X).(clause.Expr)
		if v.Go == "ptr" {
			return &PlusP{A: e.Vars[0].(int64), B: e.Vars[1].(int64)}
		}
		return Plus{SQL: e.SQL, Vars: e.Vars}
	case "VCol":
		return colOf(v)
	case "VTable":
		return clause.Table{Name: v.S, Alias: v.S2, Raw: v.B}
	case "VQStr":
		return v.S
	case "VExpr":
		return clause.Expr{SQL: v.S, Vars: g.list(v.L), WithoutParentheses: v.B}
	case "VNamedExpr":
		return clause.NamedExpr{SQL: v.S, Vars: g.list(v.L)}
	case "VCmp":
		eq := clause.Eq{Column: g.col(*v.X), Value: g.val(*v.X2)}
		switch v.S {
		case "OEq":
			return eq
		case "ONeq":
			return clause.Neq(eq)
		case "OGt":
			return clause.Gt(eq)
		case "OGte":
			return clause.Gte(eq)
		case "OLt":
			return clause.Lt(eq)
		case "OLte":
			return clause.Lte(eq)
		case "OLike":
			return clause.Like(eq)
		}
		panic("cmp " + v.S)
	case "VIn":
		return clause.IN{Column: g.col(*v.X), Values: g.list(v.L)}
	case "VAnd":
		return clause.And(g.exprs(v.L)...)
	case "VOr":
		return clause.Or(g.exprs(v.L)...)
	case "VNot":
		return clause.Not(g.exprs(v.L)...)
	case "VWhere":
		return clause.Where{Exprs: g.exprs(v.L)}
	case "VSub":
		return g.chain(g.handle(*v.TI), v.L)
	case "VRawSub":
		return g.db.Raw(v.S, g.list(v.L)...)
	case "VMapCond":
		switch v.Go {
		case "strmap":
			m := map[string]string{}
			for _, e := range v.L {
				m[e.S] = e.X.Sc.S
			}
			return m
		case "ifacemap": // one entry only: iteration order does not matter
			return map[interface{}]interface{}{v.L[0].S: g.val(*v.L[0].X)}
		}
		return namedEntries(v.L, g)
	case "VStructCond":
		if v.Go == "slice" { // []Item: the fields of all records, 8 per record
			n := len(ItemTI.Fields)
			out := []Item{}
			for i := 0; i+n <= len(v.L); i += n {
				out = append(out, g.item(v.L[i:i+n]))
			}
			return out
		}
		if v.Go == "ptr" {
			it := g.item(v.L)
			return &it
		}
		return g.item(v.L)
	case "VOnConflict":
		oc := clause.OnConflict{DoNothing: v.B}
		for _, c := range v.L {
			oc.Columns = append(oc.Columns, colOf(c))
		}
		if len(v.L2) > 0 {
			if v.Go == "excluded" {
				names := []string{}
				for _, e := range v.L2 {
					names = append(names, e.S)
				}
				oc.DoUpdates = clause.AssignmentColumns(names)
			} else {
				oc.DoUpdates = clause.Assignments(namedEntries(v.L2, g))
			}
		}
		if len(v.L3) > 0 {
			oc.Where = clause.Where{Exprs: g.exprs(v.L3)}
		}
		return oc
	}
	panic("val: unknown node " + v.T)
}

// item builds an Item from VField nodes (column name, zero flag, value).
func (g Gctx) item(fields []V) Item {
	var it Item
	for _, f := range fields {
		if f.B {
			continue
		}
		x := g.val(*f.X)
		switch f.S {
		case "id":
			it.ID = x.(uint)
		case "name":
			it.Name = x.(string)
		case "code":
			it.Code = x.(string)
		case "age":
			it.Age = x.(int64)
		case "active":
			it.Active = x.(bool)
		case "data":
			it.Data = x.([]byte)
		case "note":
			it.Note = x.(*string)
		case "nick":
			it.Nick = x.(sql.NullString)
		}
	}
	return it
}

func (g Gctx) handleFor(in Input) *gorm.DB {
	if len(in.Chain) > 0 && in.Chain[0].T == "VField" { // Model(&Item{ID: key}) / Model(&[]Item{{ID: a}, ...})
		if k := in.Chain[0].X; k.T == "VList" {
			its := []Item{}
			for _, e := range k.L {
				its = append(its, Item{ID: uint(e.Sc.I)})
			}
			return g.db.Model(&its)
		}
		return g.db.Model(&Item{ID: uint(in.Chain[0].X.Sc.I)})
	}
	if strings.HasPrefix(in.Fin.K, "save_") { // Save sets Dest itself; Model must stay unset (Model == Dest)
		return g.db.Session(&gorm.Session{})
	}
	return g.handle(in.TI)
}

func (g Gctx) handle(ti TInfo) *gorm.DB {
	if ti.Model {
		return g.db.Model(&Item{})
	}
	return g.db.Table(ti.Table)
}

// chain applies the K* calls.
func (g Gctx) chain(tx *gorm.DB, calls []V) *gorm.DB {
	for _, c := range calls {
		switch c.T {
		case "VField": // the model key: consumed by handleFor
		case "KCond":
			q, args := g.val(*c.X), g.list(c.L)
			if c.Go == "scope" { // Scopes(func): applied when the finisher executes
				k := c.S
				tx = tx.Scopes(func(d *gorm.DB) *gorm.DB {
					switch k {
					case "KNot":
						return d.Not(q, args...)
					case "KOr":
						return d.Or(q, args...)
					}
					return d.Where(q, args...)
				})
				continue
			}
			switch c.S {
			case "KWh":
				tx = tx.Where(q, args...)
			case "KNot":
				tx = tx.Not(q, args...)
			case "KOr":
				tx = tx.Or(q, args...)
			}
		case "KHaving":
			tx = tx.Having(g.val(*c.X), g.list(c.L)...)
		case "KSelect":
			tx = tx.Select(c.S, g.list(c.L)...)
		case "KSelectCols":
			rest := []interface{}{}
			for _, x := range c.SL[1:] {
				rest = append(rest, x)
			}
			switch c.Go {
			case "spread": // Select("a", "b", "c")
				tx = tx.Select(c.SL[0], rest...)
			case "slice+more": // Select([]string{"a"}, "b", []string{"c"})
				more := []interface{}{}
				for i, x := range c.SL[1:] {
					if i%2 == 0 {
						more = append(more, x)
					} else {
						more = append(more, []string{x})
					}
				}
				tx = tx.Select(c.SL[:1], more...)
			default:
				tx = tx.Select(c.SL)
			}
		case "KTable":
			tx = tx.Table(c.S, g.list(c.L)...)
		case "KJoins":
			if c.Go == "inner" {
				tx = tx.InnerJoins(c.S, g.list(c.L)...)
			} else {
				tx = tx.Joins(c.S, g.list(c.L)...)
			}
		case "KGroup":
			tx = tx.Group(c.S)
		case "KOrder":
			tx = tx.Order(c.S)
		case "KOrderExpr":
			tx = tx.Order(clause.OrderBy{Expression: g.val(*c.X).(clause.Expression)})
		case "KLimit":
			tx = tx.Limit(int(c.N))
		case "KOffset":
			tx = tx.Offset(int(c.N))
		case "KDistinct":
			if c.S != "" {
				tx = tx.Distinct(append([]interface{}{c.S}, g.list(c.L)...)...)
			} else {
				tx = tx.Distinct()
			}
		case "KClauses":
			tx = tx.Clauses(g.exprs(c.L)...)
		default:
			panic("chain: " + c.T)
		}
	}
	return tx
}

// ---- constructors used by the generators ----
func vs(s Sc, variant string) V { return V{T: "VS", Sc: &s, Go: variant} }
func vInt(i int64) V            { return vs(Sc{K: "int", I: i}, "int64") }
func vStr(s string) V           { return vs(Sc{K: "str", S: s}, "string") }
func vNil() V                   { return vs(Sc{K: "null"}, "nil") }
func vq(s string) V             { return V{T: "VQStr", S: s} }
func vp(v V) *V                 { return &v }
func named(n string, v V) V     { return V{T: "VNamed", S: n, X: &v} }
func sortNamed(l []V)           { sort.Slice(l, func(i, j int) bool { return l[i].S < l[j].S }) }

// regexp of chainable_api.go Table(): alias of a table expression
func tableAlias(name string) string {
	if m := tableRegexp.FindStringSubmatch(name); len(m) == 3 {
		if m[1] != "" {
			return m[1]
		}
		return m[2]
	}
	return ""
}
