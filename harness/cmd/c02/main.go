// c02: chained conditions select exactly the rows of their logical combination.
// Runs generated chains of Where/Not/Or (every unit form) on real gorm + SQLite; records the
// WHERE text gorm built (arguments inlined by Explain), per-row truth tables of every atom as
// SQLite evaluates it, and the ids read / counted / updated / deleted.
package main

import (
	"encoding/json"
	"fmt"
	"os"
	"sort"
	"strings"

	"gorm.io/gorm"

	"verifharness/gdb"
	"verifharness/lib"
	"verifharness/whr"
)

type Row struct {
	ID   int64   `json:"id"`
	Age  int64   `json:"age"`
	Name string  `json:"name"`
	Nick *string `json:"nick"`
}

type Input struct {
	Rows  []Row      `json:"rows"`
	Atoms []whr.Atom `json:"atoms"`
	Chain []whr.Call `json:"chain"`
	// PK != 0: the chain ends with one more AND unit, `id = PK`, which Find and Count receive as
	// Where(map) and Update and Delete receive as the primary key of their model value
	PK int64 `json:"pk,omitempty"`
	// PK2 != 0 (with PK): the model value is a slice of two records with keys PK and PK2: the unit is
	// `id IN (PK, PK2)`
	PK2 int64 `json:"pk2,omitempty"`
	// DelVia (with PK, without PK2): "" Delete(&T{ID: PK}) | model Model(&T{ID: PK})...Delete(&T{})
	DelVia string `json:"del_via,omitempty"`
	// PKAge != 0 (with PK, without PK2): the model value has the composite key (id, age) = (PK,
	// PKAge) (type TC on the same table): the unit is `id = PK AND age = PKAge`
	PKAge int64 `json:"pk_age,omitempty"`
}

// TC: the table ts through a model whose primary key is (id, age)
type TC struct {
	ID   int64 `gorm:"primaryKey;autoIncrement:false"`
	Age  int64 `gorm:"primaryKey;autoIncrement:false"`
	Name string
	Nick *string
	Mark int64
}

func (TC) TableName() string { return "ts" }

const pkAgeAtom = 21

const pkAtom = 20

// full returns the input as the checker reads it: the primary-key unit as last Where call.
func (in Input) full() Input {
	if in.PK == 0 {
		return in
	}
	out := in
	pk := whr.Atom{ID: pkAtom, Col: "id", Op: "eq", I: in.PK}
	if in.PK2 != 0 {
		pk = whr.Atom{ID: pkAtom, Col: "id", Op: "in", IL: []int64{in.PK, in.PK2}}
	}
	out.Atoms = append(append([]whr.Atom{}, in.Atoms...), pk)
	members := []int{pkAtom}
	if in.PKAge != 0 && in.PK2 == 0 {
		out.Atoms = append(out.Atoms, whr.Atom{ID: pkAgeAtom, Col: "age", Op: "eq", I: in.PKAge})
		members = []int{pkAgeAtom, pkAtom} // (map members are rendered in column-name order)
	}
	out.Chain = append(append([]whr.Call{}, in.Chain...), whr.Call{Kind: "where", Unit: whr.Unit{Form: "map", Members: members}})
	return out
}

type Obs struct {
	WhereSQL string           `json:"where_sql"`
	Texts    map[int][]string `json:"texts"`
	Truth    map[int][]string `json:"truth"` // atom id -> per row "T" "F" "U" (rows in id order)
	Find     []int64          `json:"find"`
	Count    int64            `json:"count"`
	Update   []int64          `json:"update"`
	Delete   []int64          `json:"delete"`
	// Same: further finishers that must touch exactly the selected rows (Pluck, Scan into another
	// type, Rows, FindInBatches, Updates(map), UpdateColumn), in the order of sameKinds;
	// One: single-record reads: kind (0 First, 1 Last, 2 Take / Find into one record) followed by
	// the id of the record returned (nothing = ErrRecordNotFound / no row)
	Same [][]int64 `json:"same"`
	One  [][]int64 `json:"one"`
	Errs []string  `json:"errs"`
}

var sameKinds = []string{"pluck", "scan", "rows", "batches", "updates_map", "update_column"}
var oneKinds = []string{"first", "last", "take"}

// selfDecos (primary-key cases): Updates / UpdateColumns of the model value itself, after a Select /
// Omit that names the key column or field; appended to Same
var selfDecos = []string{"", "omit_key", "omit_key_field", "select_key", "select_key_field", "omit_key"}

var names = []string{"a", "b", "ab", "c d", "x", ""}
var nicks = []string{"n1", "n2", "a"}

func genRows(r *lib.Rng) []Row {
	n := r.Range(6, 14)
	rows := make([]Row, n)
	for i := range rows {
		rows[i] = Row{ID: int64(i + 1), Age: int64(r.Range(0, 5)), Name: lib.Pick(r, names)}
		if r.Chance(3, 5) {
			s := lib.Pick(r, nicks)
			if r.Chance(1, 8) {
				s = ""
			}
			rows[i].Nick = &s
		}
	}
	return rows
}

type env struct {
	db *gorm.DB
}

func (e *env) whereText(tx *gorm.DB) (string, error) {
	var dst []whr.T
	st := tx.Session(&gorm.Session{DryRun: true}).Find(&dst).Statement
	if tx.Error != nil {
		return "", tx.Error
	}
	full := e.db.Dialector.Explain(st.SQL.String(), st.Vars...)
	i := strings.Index(full, " WHERE ")
	if i < 0 {
		return "", nil
	}
	return full[i+len(" WHERE "):], nil
}

func addText(m map[int][]string, id int, t string) {
	if t == "" {
		return
	}
	for _, x := range m[id] {
		if x == t {
			return
		}
	}
	m[id] = append(m[id], t)
}

func (e *env) run(orig Input) Obs {
	in := orig.full()
	o := Obs{Texts: map[int][]string{}, Truth: map[int][]string{}}
	fail := func(w string, err error) {
		if err != nil {
			o.Errs = append(o.Errs, w+": "+err.Error())
		}
	}
	db := e.db
	byID := map[int]whr.Atom{}
	for _, a := range in.Atoms {
		byID[a.ID] = a
	}
	fail("reset", db.Exec("DELETE FROM ts").Error)
	for _, r := range in.Rows {
		fail("insert", db.Exec("INSERT INTO ts (id, age, name, nick, mark) VALUES (?,?,?,?,0)", r.ID, r.Age, r.Name, r.Nick).Error)
	}
	base := func() *gorm.DB { return db.Session(&gorm.Session{}) }
	// atom texts: what gorm renders for the atom alone in each form, and for its negation
	{
		texts, errs := whr.DiscoverTexts(db, base, in.Atoms)
		for _, err := range errs {
			fail("text", err)
		}
		o.Texts = texts
	}
	// truth tables from SQLite
	truth := func(id int, text string) {
		rows, err := db.Raw("SELECT (" + text + ") FROM ts ORDER BY id").Rows()
		if err != nil {
			fail("truth", err)
			return
		}
		defer rows.Close()
		for rows.Next() {
			var v *int64
			rows.Scan(&v)
			switch {
			case v == nil:
				o.Truth[id] = append(o.Truth[id], "U")
			case *v != 0:
				o.Truth[id] = append(o.Truth[id], "T")
			default:
				o.Truth[id] = append(o.Truth[id], "F")
			}
		}
	}
	for _, a := range in.Atoms {
		truth(a.ID, a.RawText())
		if ts := o.Texts[a.NegID()]; len(ts) > 0 {
			truth(a.NegID(), ts[0])
		}
	}
	// the chain
	build := func() (*gorm.DB, []interface{}) {
		tx := base()
		var inline []interface{}
		for i, c := range in.Chain {
			if c.Inline && i == len(in.Chain)-1 && c.Kind == "where" {
				q, args := c.Unit.QueryArgs(db, byID)
				inline = append([]interface{}{q}, args...)
				continue
			}
			tx = c.Apply(db, tx, byID)
		}
		return tx, inline
	}
	tx, inline := build()
	{
		var dst []whr.T
		st := tx.Session(&gorm.Session{DryRun: true}).Find(&dst, inline...).Statement
		full := db.Dialector.Explain(st.SQL.String(), st.Vars...)
		if i := strings.Index(full, " WHERE "); i >= 0 {
			o.WhereSQL = full[i+len(" WHERE "):]
		}
	}
	var found []whr.T
	tx, inline = build()
	fail("find", tx.Find(&found, inline...).Error)
	o.Find = []int64{}
	for _, t := range found {
		o.Find = append(o.Find, t.ID)
	}
	sort.Slice(o.Find, func(i, j int) bool { return o.Find[i] < o.Find[j] })
	tx, inline = build()
	if len(inline) > 0 {
		tx = tx.Where(inline[0], inline[1:]...)
	}
	fail("count", tx.Model(&whr.T{}).Count(&o.Count).Error)
	// the other reading finishers
	sorted := func(ids []int64) []int64 {
		out := append([]int64{}, ids...)
		sort.Slice(out, func(i, j int) bool { return out[i] < out[j] })
		return out
	}
	whole := func() *gorm.DB {
		tx, inline := build()
		if len(inline) > 0 {
			tx = tx.Where(inline[0], inline[1:]...)
		}
		return tx
	}
	{
		var ids []int64
		fail("pluck", whole().Model(&whr.T{}).Pluck("id", &ids).Error)
		o.Same = append(o.Same, sorted(ids))
		var dto []struct{ ID int64 }
		fail("scan", whole().Model(&whr.T{}).Scan(&dto).Error)
		ids = nil
		for _, d := range dto {
			ids = append(ids, d.ID)
		}
		o.Same = append(o.Same, sorted(ids))
		ids = nil
		rows, err := whole().Model(&whr.T{}).Rows()
		fail("rows", err)
		if err == nil {
			for rows.Next() {
				var t whr.T
				fail("scanrows", db.ScanRows(rows, &t))
				ids = append(ids, t.ID)
			}
			rows.Close()
		}
		o.Same = append(o.Same, sorted(ids))
		ids = nil
		var batch []whr.T
		tx, inline := build()
		if len(inline) > 0 {
			tx = tx.Where(inline[0], inline[1:]...)
		}
		fail("batches", tx.FindInBatches(&batch, 3, func(_ *gorm.DB, _ int) error {
			for _, t := range batch {
				ids = append(ids, t.ID)
			}
			if len(ids) > 4*len(in.Rows)+8 {
				return fmt.Errorf("FindInBatches keeps delivering rows: %d from a table of %d", len(ids), len(in.Rows))
			}
			return nil
		}).Error)
		o.Same = append(o.Same, sorted(ids))
		for _, k := range oneKinds {
			var t whr.T
			tx, inline := build()
			var err error
			switch k {
			case "first":
				err = tx.First(&t, inline...).Error
			case "last":
				err = tx.Last(&t, inline...).Error
			default:
				err = tx.Take(&t, inline...).Error
			}
			code := map[string]int64{"first": 0, "last": 1, "take": 2}[k]
			if err == gorm.ErrRecordNotFound {
				o.One = append(o.One, []int64{code})
			} else {
				fail(k, err)
				o.One = append(o.One, []int64{code, t.ID})
			}
		}
	}
	// Update marks rows; AllowGlobalUpdate so that condition-free chains run too
	if orig.PK != 0 {
		in = orig // the primary-key unit now comes from the model value
	}
	if orig.PK != 0 && orig.PK2 == 0 {
		// reads whose destination carries the key (with and without an explicit, different Model)
		for _, explicit := range []bool{false, true} {
			for _, k := range []string{"first", "take", "last", "find"} {
				dst := whr.T{ID: orig.PK}
				dstc := TC{ID: orig.PK, Age: orig.PKAge}
				var dest interface{} = &dst
				tx, inline := build()
				if orig.PKAge != 0 {
					dest = &dstc
					if explicit {
						tx = tx.Model(&TC{})
					}
				} else if explicit {
					tx = tx.Model(&whr.T{})
				}
				var res *gorm.DB
				switch k {
				case "first":
					res = tx.First(dest, inline...)
				case "take":
					res = tx.Take(dest, inline...)
				case "last":
					res = tx.Last(dest, inline...)
				default:
					res = tx.Find(dest, inline...)
				}
				if orig.PKAge != 0 {
					dst.ID = dstc.ID
				}
				code := map[string]int64{"first": 0, "last": 1, "take": 2, "find": 2}[k]
				switch {
				case res.Error == gorm.ErrRecordNotFound || (res.Error == nil && res.RowsAffected == 0):
					o.One = append(o.One, []int64{code})
				default:
					fail(k+"_destkey", res.Error)
					o.One = append(o.One, []int64{code, dst.ID})
				}
			}
		}
	}
	tx, inline = build()
	if len(inline) > 0 {
		tx = tx.Where(inline[0], inline[1:]...)
	}
	var modelValue, deleteValue interface{} = &whr.T{ID: orig.PK}, &whr.T{ID: orig.PK}
	if orig.PK2 != 0 {
		modelValue, deleteValue = &[]whr.T{{ID: orig.PK}, {ID: orig.PK2}}, &[]whr.T{{ID: orig.PK}, {ID: orig.PK2}}
	} else if orig.PKAge != 0 {
		modelValue, deleteValue = &TC{ID: orig.PK, Age: orig.PKAge}, &TC{ID: orig.PK, Age: orig.PKAge}
	}
	fail("update", tx.Session(&gorm.Session{AllowGlobalUpdate: true}).Model(modelValue).Update("mark", 1).Error)
	o.Update = []int64{}
	fail("marked", db.Raw("SELECT id FROM ts WHERE mark = 1 ORDER BY id").Scan(&o.Update).Error)
	fail("unmark", db.Exec("UPDATE ts SET mark = 0").Error)
	for _, k := range []string{"updates_map", "update_column"} {
		tx, inline = build()
		if len(inline) > 0 {
			tx = tx.Where(inline[0], inline[1:]...)
		}
		tx = tx.Session(&gorm.Session{AllowGlobalUpdate: true}).Model(modelValue)
		if k == "updates_map" {
			fail(k, tx.Updates(map[string]interface{}{"mark": 1}).Error)
		} else {
			fail(k, tx.UpdateColumn("mark", 1).Error)
		}
		var ids []int64
		fail("marked", db.Raw("SELECT id FROM ts WHERE mark = 1 ORDER BY id").Scan(&ids).Error)
		o.Same = append(o.Same, append([]int64{}, ids...))
		fail("unmark", db.Exec("UPDATE ts SET mark = 0").Error)
	}
	// the update value itself is the model (no Model call): its key is the unit, whatever Select /
	// Omit say about the key column (they restrict the assignments, not the conditions)
	if orig.PK != 0 && orig.PK2 == 0 {
		for i, deco := range selfDecos {
			tx, inline = build()
			if len(inline) > 0 {
				tx = tx.Where(inline[0], inline[1:]...)
			}
			tx = tx.Session(&gorm.Session{AllowGlobalUpdate: true})
			switch deco {
			case "omit_key":
				tx = tx.Omit("id")
			case "omit_key_field":
				tx = tx.Omit("ID", "Name")
			case "select_key":
				tx = tx.Select("id", "mark")
			case "select_key_field":
				tx = tx.Select("ID", "Mark")
			}
			var value interface{} = &whr.T{ID: orig.PK, Mark: 1}
			if orig.PKAge != 0 {
				value = &TC{ID: orig.PK, Age: orig.PKAge, Mark: 1}
			}
			if i%2 == 0 {
				fail("updates_self_"+deco, tx.Updates(value).Error)
			} else {
				fail("update_columns_self_"+deco, tx.UpdateColumns(value).Error)
			}
			var ids []int64
			fail("marked", db.Raw("SELECT id FROM ts WHERE mark = 1 ORDER BY id").Scan(&ids).Error)
			o.Same = append(o.Same, append([]int64{}, ids...))
			fail("unmark", db.Exec("UPDATE ts SET mark = 0").Error)
		}
	}
	// Delete inside a transaction that is rolled back
	o.Delete = []int64{}
	t := db.Begin()
	chainOn := func(root *gorm.DB) (*gorm.DB, []interface{}) {
		tx := root.Session(&gorm.Session{AllowGlobalUpdate: true})
		var inline []interface{}
		for i, c := range in.Chain {
			if c.Inline && i == len(in.Chain)-1 && c.Kind == "where" {
				q, args := c.Unit.QueryArgs(db, byID)
				inline = append([]interface{}{q}, args...)
				continue
			}
			tx = c.Apply(db, tx, byID)
		}
		return tx, inline
	}
	dtx, dinline := chainOn(t)
	if orig.DelVia == "model" && orig.PK != 0 && orig.PK2 == 0 {
		// the key comes from the Model value, the deleted value carries none
		if orig.PKAge != 0 {
			dtx, deleteValue = dtx.Model(&TC{ID: orig.PK, Age: orig.PKAge}), &TC{}
		} else {
			dtx, deleteValue = dtx.Model(&whr.T{ID: orig.PK}), &whr.T{}
		}
	}
	fail("delete", dtx.Delete(deleteValue, dinline...).Error)
	var remaining []int64
	fail("remaining", t.Raw("SELECT id FROM ts ORDER BY id").Scan(&remaining).Error)
	t.Rollback()
	rem := map[int64]bool{}
	for _, id := range remaining {
		rem[id] = true
	}
	for _, r := range in.Rows {
		if !rem[r.ID] {
			o.Delete = append(o.Delete, r.ID)
		}
	}
	return o
}

func gTV(s string) string { return map[string]string{"T": "TT", "F": "TF", "U": "TU"}[s] }

func term(orig Input, o Obs) string {
	in := orig.full()
	byID := map[int]whr.Atom{}
	for _, a := range in.Atoms {
		byID[a.ID] = a
	}
	ids := []int{}
	for id := range o.Truth {
		ids = append(ids, id)
	}
	sort.Ints(ids)
	rows := make([]string, len(in.Rows))
	for i, r := range in.Rows {
		vals := []string{}
		for _, id := range ids {
			if i < len(o.Truth[id]) {
				vals = append(vals, lib.Pair(lib.Nat(id), gTV(o.Truth[id][i])))
			}
		}
		rows[i] = lib.Pair(lib.Z(r.ID), lib.List(vals))
	}
	return lib.App("mk_case", whr.GTable(in.Atoms, o.Texts), whr.GCalls(in.Chain, byID), lib.List(rows),
		lib.Str(o.WhereSQL), lib.ZList(o.Find), lib.Z(o.Count), lib.ZList(o.Update), lib.ZList(o.Delete),
		zlists(o.Same), zlists(o.One), lib.Z(int64(len(o.Errs))), whr.GArgsOfCalls(in.Chain, byID), keyRuns(orig))
}

// keyRuns: the model values that carry the primary-key unit to the update / delete finishers of a
// primary-key case, as C09_Keys reads them (per record one flag per key field: true = zero)
func keyRuns(in Input) string {
	if in.PK == 0 {
		return "[]"
	}
	run := func(del bool, vals ...string) string { return lib.Pair(lib.Bool(del), lib.List(vals)) }
	rec := "[false]"
	if in.PKAge != 0 && in.PK2 == 0 {
		rec = "[false; false]"
	}
	zrec := strings.ReplaceAll(rec, "false", "true")
	val := lib.App("VStruct", rec)
	if in.PK2 != 0 {
		val = lib.App("VSlice", "[[false]; [false]]")
	}
	runs := []string{run(false, val)} // Model(value).Update / Updates(map) / UpdateColumn
	if in.DelVia == "model" && in.PK2 == 0 {
		runs = append(runs, run(true, lib.App("VStruct", zrec), val)) // Model(value).Delete(&T{})
	} else {
		runs = append(runs, run(true, val))
	}
	if in.PK2 == 0 {
		// Updates(&value) / UpdateColumns(&value): the columns of T / TC in schema order with what the
		// Select / Omit of the run says about each
		for _, deco := range selfDecos {
			sel := map[string]string{}
			switch deco {
			case "omit_key":
				sel["id"] = "(Some false)"
			case "omit_key_field":
				sel["id"], sel["name"] = "(Some false)", "(Some false)"
			case "select_key", "select_key_field":
				sel["id"], sel["mark"] = "(Some true)", "(Some true)"
			}
			cols := []string{}
			for _, c := range []string{"id", "age", "name", "nick", "mark"} {
				pk := c == "id" || c == "age" && in.PKAge != 0
				zero := !(pk || c == "mark")
				st := sel[c]
				if st == "" {
					st = "None"
				}
				cols = append(cols, lib.App("mk_col", lib.Bool(pk), lib.Bool(zero), st))
			}
			runs = append(runs, run(false, lib.App("VSelf", lib.List(cols))))
		}
	}
	return lib.List(runs)
}

func zlists(l [][]int64) string {
	parts := make([]string, len(l))
	for i, x := range l {
		parts[i] = lib.ZList(x)
	}
	return lib.List(parts)
}

// pickPK: a row id that no `id = k` atom of the case already names (two atoms with one text
// would make the WHERE text ambiguous for the lexer).
func pickPK(r *lib.Rng, in Input) int64 {
	for {
		k := in.Rows[r.Intn(len(in.Rows))].ID
		clash := false
		for _, a := range in.Atoms {
			if a.Col == "id" && a.Op == "eq" && a.I == k {
				clash = true
			}
		}
		if !clash {
			return k
		}
	}
}

func sig(in Input) string {
	// narrow signatures of known findings, computed from the input only
	if whr.NotOfAndGroupNoAtom(in.Chain) {
		return "not-of-and-group-without-structured-member"
	}
	byID := map[int]whr.Atom{}
	for _, a := range in.Atoms {
		byID[a.ID] = a
	}
	if whr.NegatesEmptyIn(in.Chain, byID, false) {
		return "not-over-empty-in"
	}
	return ""
}

func main() {
	a := lib.ParseArgs()
	db, _, _, err := gdb.Open(gdb.Opt{})
	lib.Must(err)
	lib.Must(db.AutoMigrate(&whr.T{}))
	e := &env{db: db}
	out := lib.NewOut(a.Out, "C02")
	out.PerFile = 100
	out.TheoremApplies = true

	add := func(kind string, in Input) {
		if kind != "corpus" && kind != "replay" && kind != "known-shape" {
			byID := map[int]whr.Atom{}
			for _, a := range in.Atoms {
				byID[a.ID] = a
			}
			if whr.NegatesEmptyIn(in.Chain, byID, false) {
				return // the known shape below; kept out of the other streams
			}
		}
		o := e.run(in)
		nontriv := len(in.Chain) >= 2 && len(o.Find) > 0 && len(o.Find) < len(in.Rows)
		out.Add(lib.Case{Term: term(in, o), JSON: map[string]interface{}{"input": in, "observed": o},
			Sig: sig(in), Kind: kind, Shape: whr.Shape(in.Chain), Nontriv: nontriv})
		out.Count("chain_len", fmt.Sprint(len(in.Chain)))
		out.Count("primary_key_unit", fmt.Sprint(in.PK != 0))
		for _, c := range in.Chain {
			out.Count("call", c.Kind)
			out.Count("form", c.Unit.Form+"/"+c.Unit.Via)
		}
		out.Count("rows_selected", fmt.Sprint(len(o.Find)))
		out.Count("errors", fmt.Sprint(len(o.Errs)))
	}
	load := func(f string) Input {
		b, err := os.ReadFile(f)
		lib.Must(err)
		var c struct {
			Case struct {
				Input Input `json:"input"`
			} `json:"case"`
		}
		lib.Must(json.Unmarshal(b, &c))
		return c.Case.Input
	}
	if a.Replay != "" {
		add("replay", load(a.Replay))
		lib.Must(out.Flush())
		return
	}
	for _, f := range lib.CorpusFiles(a.Corpus) {
		add("corpus", load(f))
	}
	r := lib.NewRng(a.Seed)
	// pattern stream: the catalogue of parenthesisation / negation shapes at every position
	rounds := 1
	if a.Tier == "thorough" {
		rounds = 6
	}
	for round := 0; round < rounds; round++ {
		in0 := Input{Atoms: whr.GenAtoms(r, names, nicks)}
		g := whr.NewGen(r, in0.Atoms)
		for i, ch := range g.PatternChains(false) {
			add("pattern", Input{Rows: genRows(r), Atoms: in0.Atoms, Chain: ch})
			if i%4 == 0 {
				rows := genRows(r)
				add("pattern", Input{Rows: rows, Atoms: in0.Atoms, Chain: ch, PK: pickPK(r, Input{Rows: rows, Atoms: in0.Atoms})})
			}
		}
	}
	// the catalogue once more, as the inline condition of the finishers
	for round := 0; round < rounds; round++ {
		atoms := whr.GenAtoms(r, names, nicks)
		g := whr.NewGen(r, atoms)
		for _, ch := range g.InlinePatternChains() {
			add("pattern-inline", Input{Rows: genRows(r), Atoms: atoms, Chain: ch})
		}
	}
	for round := 0; round < rounds; round++ {
		atoms := whr.FullAtoms(r)
		g := whr.NewGen(r, atoms)
		for _, ch := range g.NegationChains() {
			add("negation", Input{Rows: genRows(r), Atoms: atoms, Chain: ch})
		}
	}
	// key-form stream: the primary key as a condition unit in every Go value that carries it
	for round := 0; round < rounds; round++ {
		atoms := whr.WithKeyAtoms(r, whr.GenAtoms(r, names, nicks), 8)
		g := whr.NewGen(r, atoms)
		for _, ch := range g.KeyFormChains() {
			add("keyform", Input{Rows: genRows(r), Atoms: atoms, Chain: ch})
		}
	}
	// the known shape: Not over a map whose value is an empty slice
	{
		atoms := []whr.Atom{{ID: 1, Col: "nick", Op: "inempty", IsStr: true}, {ID: 2, Col: "age", Op: "gt", I: 1}}
		not := whr.Call{Kind: "not", Unit: whr.Unit{Form: "map", Members: []int{1}}}
		add("known-shape", Input{Rows: genRows(r), Atoms: atoms, Chain: []whr.Call{not}})
		add("known-shape", Input{Rows: genRows(r), Atoms: atoms, Chain: []whr.Call{{Kind: "where", Unit: whr.Unit{Form: "expr", CE: &whr.CExpr{Kind: "atom", Atom: 2}}}, not}})
	}
	budget := 600
	if a.Tier == "thorough" {
		budget = 12000
	}
	if a.N > 0 {
		budget = a.N
	}
	for i := 0; i < budget; i++ {
		in := Input{Rows: genRows(r), Atoms: whr.GenAtoms(r, names, nicks)}
		g := whr.NewGen(r, in.Atoms)
		hostile := r.Chance(1, 2)
		n := r.Range(1, 4)
		for j := 0; j < n; j++ {
			k := "where"
			if j > 0 {
				k = lib.Pick(r, []string{"where", "where", "or", "or", "not"})
			} else if r.Chance(1, 4) {
				k = "not"
			}
			var u whr.Unit
			if r.Chance(1, 12) {
				u = whr.EmptyUnit(r)
			} else {
				u = g.GenUnit(2, hostile, true)
			}
			in.Chain = append(in.Chain, whr.Call{Kind: k, Unit: u})
		}
		// first effective call must not be Or (C02 domain): empty units before it do not count
		for j := range in.Chain {
			if whr.IsEmptyUnit(in.Chain[j].Unit) {
				if in.Chain[j].Kind == "or" {
					in.Chain[j].Kind = "where"
				}
				continue
			}
			if in.Chain[j].Kind == "or" {
				in.Chain[j].Kind = "where"
			}
			break
		}
		last := &in.Chain[len(in.Chain)-1]
		if last.Kind == "where" && last.Unit.Form != "group" && r.Chance(1, 5) {
			last.Inline = true
		}
		if r.Chance(1, 5) {
			in.PK = pickPK(r, in)
			if r.Chance(1, 3) {
				in.PK2 = pickPK(r, in)
				clash := in.PK2 == in.PK
				for _, a := range in.Atoms {
					if a.Col == "id" && a.Op == "in" {
						clash = true // (one text for two atoms would be ambiguous for the lexer)
					}
				}
				if clash {
					in.PK2 = 0
				}
			}
			if in.PK2 == 0 && r.Bool() {
				in.DelVia = "model"
			}
			if in.PK2 == 0 && r.Chance(1, 3) {
				// composite key: the age of the row named by PK, or another one (never 0: a zero
				// value is no key part; never a value some `age = a` atom already names)
				cand := []int64{}
				for a := int64(1); a <= 6; a++ {
					clash := false
					for _, at := range in.Atoms {
						// (also `age <> a`, whose negation renders `age = a`, and lists holding a: one
						// text for two atoms would be ambiguous for the lexer)
						if at.Col == "age" && at.I == a && !at.IsStr {
							clash = true
						}
						for _, v := range at.IL {
							if at.Col == "age" && v == a {
								clash = true
							}
						}
					}
					if !clash {
						cand = append(cand, a)
					}
				}
				for _, row := range in.Rows {
					if row.ID == in.PK && row.Age != 0 && r.Chance(2, 3) {
						for _, a := range cand {
							if a == row.Age {
								cand = []int64{a}
							}
						}
					}
				}
				if len(cand) > 0 {
					in.PKAge = lib.Pick(r, cand)
				}
			}
		}
		kind := "main"
		if hostile {
			kind = "edge"
		}
		add(kind, in)
	}
	out.Extra["rule"] = "chains of 1..4 Where/Not/Or calls (first effective call not Or; last Where optionally as inline finisher condition) over a table of 6..14 rows (int, string, nullable string incl. NULLs); every unit drawn from: raw string (inline literals, ? arguments, @named arguments; half of the runs with random keyword case, whitespace in {space, 2 spaces, tab, newline} and redundant parentheses), map (scalar / nil / slice values), struct, clause expressions (Eq/Neq/Lt/Gt/Like/IN, clause.And/Or/Not nests), grouped db.Where(db...) sub-builders, empty forms; finishers Find/Count/Update/Delete; in a fifth of the chains one more AND unit `id = k` reaches Update and Delete as the primary key of their model value (and Find/Count as Where(map)); distinct = distinct chain shapes (forms, connectives, tree shapes); non-trivial = at least 2 calls and a strict non-empty subset of the rows selected"
	lib.Must(out.Flush())
}
