// c16: Save / upsert / FirstOrCreate / FirstOrInit converge to the documented state.
// Runs histories of single steps on real gorm + SQLite (key space 1..4, so keys collide) and
// writes, per step, the table before, the chain and finisher as executed, and what gorm returned
// (record, RowsAffected, error, number of write statements, table after) as Gallina terms for
// C16_Check.check_case.
package main

import (
	"context"
	"database/sql"
	"encoding/json"
	"fmt"
	"os"
	"sort"
	"strings"
	"time"

	"gorm.io/gorm"
	"gorm.io/gorm/clause"
	"gorm.io/gorm/logger"

	"verifharness/gdb"
	"verifharness/lib"
	"verifharness/recdrv"
)

type Acct struct {
	ID        uint `gorm:"primaryKey"`
	Name      string
	Age       int64  `gorm:"default:0"`  // literal zero defaults: nothing changes on the tree as it is
	Email     string `gorm:"default:''"` // (the column is inserted and, under UpdateAll, updated like any other)
	CreatedAt time.Time
	UpdatedAt time.Time
	DeletedAt gorm.DeletedAt
}

func (Acct) TableName() string { return "accts" }

// Stock: a COMPOSITE primary key with a prioritized member (the field named ID). In the Coq terms a Stock is
// a rec with r_id = ID, r_name = Region, r_age = Qty, r_email = Note (no tracked times, no soft delete).
type Stock struct {
	ID     uint   `gorm:"primaryKey;autoIncrement:false"`
	Region string `gorm:"primaryKey"`
	Qty    int64
	Note   string
}

func (Stock) TableName() string { return "stocks" }

func toStock(r Rec) Stock   { return Stock{ID: uint(r.ID), Region: r.Name, Qty: r.Age, Note: r.Email} }
func fromStock(s Stock) Rec { return Rec{ID: int64(s.ID), Name: s.Region, Age: s.Qty, Email: s.Note} }

// Lot: a COMPOSITE primary key WITHOUT a prioritized member (no field named ID, nothing auto-incremented):
// Schema.PrioritizedPrimaryField is nil. Same encoding: r_id = TenantID, r_name = Code, r_age = Qty, r_email = Note.
type Lot struct {
	TenantID uint   `gorm:"primaryKey;autoIncrement:false"`
	Code     string `gorm:"primaryKey"`
	Qty      int64
	Note     string
}

func (Lot) TableName() string { return "lots" }

func toLot(r Rec) Lot   { return Lot{TenantID: uint(r.ID), Code: r.Name, Qty: r.Age, Note: r.Email} }
func fromLot(l Lot) Rec { return Rec{ID: int64(l.TenantID), Name: l.Code, Age: l.Qty, Email: l.Note} }

// compOps: the four composite-key finishers on one of the two model types
type compOps struct {
	table     string
	k1, k2    string // key columns
	save      func(tx *gorm.DB, v Rec) (*gorm.DB, Rec)
	saveSlice func(tx *gorm.DB, vs []Rec) *gorm.DB
	create    func(tx *gorm.DB, v Rec) (*gorm.DB, Rec)
	foc       func(tx *gorm.DB) (*gorm.DB, Rec)
}

func compOpsOf[T any](table, k1, k2 string, to func(Rec) T, from func(T) Rec) compOps {
	return compOps{table: table, k1: k1, k2: k2,
		save: func(tx *gorm.DB, v Rec) (*gorm.DB, Rec) {
			d := to(v)
			res := tx.Save(&d)
			return res, from(d)
		},
		saveSlice: func(tx *gorm.DB, vs []Rec) *gorm.DB {
			sl := make([]T, len(vs))
			for i, v := range vs {
				sl[i] = to(v)
			}
			return tx.Save(&sl)
		},
		create: func(tx *gorm.DB, v Rec) (*gorm.DB, Rec) {
			d := to(v)
			res := tx.Create(&d)
			return res, from(d)
		},
		foc: func(tx *gorm.DB) (*gorm.DB, Rec) {
			var d T
			res := tx.FirstOrCreate(&d)
			return res, from(d)
		},
	}
}

var compTypes = map[string]compOps{
	"":    compOpsOf("stocks", "id", "region", toStock, fromStock),
	"lot": compOpsOf("lots", "tenant_id", "code", toLot, fromLot),
}

// ---- JSON twin of the Coq terms -------------------------------------------------------

// Rec: times are seconds after [base]; 0 = the zero time.Time; Del nil = NULL.
type Rec struct {
	ID    int64  `json:"id"`
	Name  string `json:"name"`
	Age   int64  `json:"age"`
	Email string `json:"email"`
	Cat   int64  `json:"cat"`
	Uat   int64  `json:"uat"`
	Del   *int64 `json:"del"`
}
type Val struct {
	T string `json:"t"` // i | s
	I int64  `json:"i"`
	S string `json:"s"`
}
type KV struct {
	Col string `json:"col"` // id name age email created_at updated_at deleted_at
	Val Val    `json:"val"`
}
type Cond struct {
	Kind string `json:"kind"` // struct | map | agegt
	Rec  *Rec   `json:"rec,omitempty"`
	KV   []KV   `json:"kv,omitempty"`
	K    int64  `json:"k"`
}
type Arg struct {
	Kind  string `json:"kind"` // struct | map | kv
	Rec   *Rec   `json:"rec,omitempty"`
	KV    []KV   `json:"kv,omitempty"`
	Spell string `json:"spell"`         // db | field : spelling of map / key-value keys
	Ptr   bool   `json:"ptr,omitempty"` // struct form passed as a pointer
}
type Cel struct {
	Kind string `json:"kind"` // where | attrs | assign | session | ctx
	Cond *Cond  `json:"cond,omitempty"`
	Args []Arg  `json:"args,omitempty"`
	// session: which option the Session call carries ("" = &Session{}); every option listed must leave the
	// result alone.  ctx: "" WithContext | session_ctx Session{Context} | prepare Session{PrepareStmt} (these
	// clone the statement at once)
	Opt string `json:"opt,omitempty"`
	// where: "" Where(...) | scope: Scopes(func(d) { return d.Where(...) })
	Via string `json:"via,omitempty"`
}
type Fin struct {
	Kind   string   `json:"kind"` // save | create_oc | foi | foc
	Val    *Rec     `json:"val,omitempty"`
	Rule   string   `json:"rule,omitempty"` // nothing | updates | all
	Cols   []string `json:"cols,omitempty"`
	Target bool     `json:"target"` // OnConflict.Columns = [id] given explicitly
	// conditional rules: OnConflict.Where = (stored age < OCWhere) on DoUpdates/UpdateAll;
	// OnConflict.TargetWhere = (age < OCTarget) in the conflict-target position (no effect on a
	// non-partial key index)
	OCWhere   *int64   `json:"oc_where,omitempty"`
	OCTarget  *int64   `json:"oc_target,omitempty"`
	Inline    []Cond   `json:"inline,omitempty"`
	Vals      []Rec    `json:"vals,omitempty"`   // save_slice: Save(&[]Acct{...}); create_oc_slice: Create(&[]Acct{...})
	PtrPtr    bool     `json:"ptrptr,omitempty"` // save: Save(&ptr)
	CID       int64    `json:"cid,omitempty"`    // c_foc: Where(map{id, region})
	CRegion   string   `json:"cregion,omitempty"`
	CAttrs    *string  `json:"cattrs,omitempty"`     // c_foc: Attrs(map{note})
	CAssign   *int64   `json:"cassign,omitempty"`    // c_foc: Assign(map{qty})
	Batch     int      `json:"batch,omitempty"`      // create_oc_slice: CreateInBatches(&slice, n); 0 = Create(&slice)
	Omits     []string `json:"omits,omitempty"`      // save_omit: Omit(cols...).Save(&v), columns in either spelling
	OmitSpell string   `json:"omit_spell,omitempty"` // db | field
	// create_maps: Model(&Acct{}).Clauses(OnConflict{...}).Create(value), value built from Maps:
	// MapShape map (map[string]interface{}) | pmap (*map) | slice ([]map) | pslice (*[]map); the keys in column
	// or field-name spelling
	Maps     [][]KV `json:"maps,omitempty"`
	MapShape string `json:"map_shape,omitempty"`
	MapSpell string `json:"map_spell,omitempty"`
}
type Input struct {
	Tbl      []Rec `json:"tbl"`
	Now      int64 `json:"now"`
	Chain    []Cel `json:"chain"`
	Fin      Fin   `json:"fin"`
	NoReturn bool  `json:"no_returning"` // dialector configured without RETURNING
	// Composite: the step runs on the Stock table (composite key (id, region)); Tbl rows are Stocks in rowid
	// order. Fin kinds: c_save | c_save_slice | c_create_oc | c_foc
	Composite bool `json:"composite,omitempty"`
	// CType: which composite-key model type: "" Stock{ID, Region} (ID is the prioritized member) | lot
	// Lot{TenantID, Code} (no prioritized member)
	CType string `json:"ctype,omitempty"`
}
type Obs struct {
	Ret    Rec    `json:"ret"`
	Rets   []Rec  `json:"rets"` // save_slice: the caller's slice after the call (keys handed back)
	RA     int64  `json:"ra"`
	Err    string `json:"err"`
	Writes int64  `json:"writes"`
	Tbl    []Rec  `json:"tbl"`
	Setup  string `json:"setup_err,omitempty"`
}

var base = time.Date(2021, 1, 1, 0, 0, 0, 0, time.UTC)

func tm(n int64) time.Time {
	if n == 0 {
		return time.Time{}
	}
	return base.Add(time.Duration(n) * time.Second)
}
func untm(t time.Time) int64 {
	if t.IsZero() {
		return 0
	}
	return t.Unix() - base.Unix()
}
func toAcct(r Rec) Acct {
	a := Acct{ID: uint(r.ID), Name: r.Name, Age: r.Age, Email: r.Email, CreatedAt: tm(r.Cat), UpdatedAt: tm(r.Uat)}
	if r.Del != nil {
		a.DeletedAt = gorm.DeletedAt{Time: tm(*r.Del), Valid: true}
	}
	return a
}
func fromAcct(a Acct) Rec {
	r := Rec{ID: int64(a.ID), Name: a.Name, Age: a.Age, Email: a.Email, Cat: untm(a.CreatedAt), Uat: untm(a.UpdatedAt)}
	if a.DeletedAt.Valid {
		d := untm(a.DeletedAt.Time)
		r.Del = &d
	}
	return r
}

var fieldName = map[string]string{"id": "ID", "name": "Name", "age": "Age", "email": "Email",
	"created_at": "CreatedAt", "updated_at": "UpdatedAt", "deleted_at": "DeletedAt"}

func goVal(col string, v Val) interface{} {
	switch col {
	case "created_at", "updated_at", "deleted_at":
		return tm(v.I)
	}
	if v.T == "s" {
		return v.S
	}
	return v.I
}
func kvMap(kv []KV, spell string) map[string]interface{} {
	m := map[string]interface{}{}
	for _, p := range kv {
		k := p.Col
		if spell == "field" {
			k = fieldName[p.Col]
		}
		m[k] = goVal(p.Col, p.Val)
	}
	return m
}
func condArg(c Cond) []interface{} {
	switch c.Kind {
	case "struct":
		return []interface{}{toAcct(*c.Rec)}
	case "map":
		return []interface{}{kvMap(c.KV, "db")}
	}
	return []interface{}{"age > ?", c.K}
}
func argList(as []Arg) []interface{} {
	var out []interface{}
	for _, a := range as {
		switch a.Kind {
		case "struct":
			v := toAcct(*a.Rec)
			if a.Ptr { // Attrs(&Acct{...}): pointer to struct, accepted like the value
				out = append(out, &v)
			} else {
				out = append(out, v)
			}
		case "map":
			out = append(out, kvMap(a.KV, a.Spell))
		case "kv":
			k := a.KV[0].Col
			if a.Spell == "field" {
				k = fieldName[k]
			}
			out = append(out, k, goVal(a.KV[0].Col, a.KV[0].Val))
		}
	}
	return out
}

// ---- the two database handles (with / without RETURNING) -------------------------------

type env struct {
	db  *gorm.DB
	rec *recdrv.Recorder
	sql *sql.DB
}

var cur time.Time // pinned clock

func openEnv(noReturning bool) *env {
	db, rec, sqlDB, err := gdb.Open(gdb.Opt{NoReturning: noReturning,
		Config: &gorm.Config{NowFunc: func() time.Time { return cur }}})
	lib.Must(err)
	// INTEGER PRIMARY KEY without AUTOINCREMENT: a fresh key is max(key)+1, a function of the table
	_, err = sqlDB.Exec(`CREATE TABLE accts (id integer PRIMARY KEY, name text, age integer, email text,
		created_at datetime, updated_at datetime, deleted_at datetime)`)
	lib.Must(err)
	_, err = sqlDB.Exec(`CREATE TABLE stocks (id integer, region text, qty integer, note text, PRIMARY KEY (id, region))`)
	lib.Must(err)
	_, err = sqlDB.Exec(`CREATE TABLE lots (tenant_id integer, code text, qty integer, note text, PRIMARY KEY (tenant_id, code))`)
	lib.Must(err)
	// a SECOND unique index: e-mails starting with "u" are unique (ordinary e-mails never start with u)
	_, err = sqlDB.Exec(`CREATE UNIQUE INDEX accts_uemail ON accts(email) WHERE email LIKE 'u%'`)
	lib.Must(err)
	return &env{db, rec, sqlDB}
}

func (e *env) restore(tbl []Rec) error {
	if _, err := e.sql.Exec("DELETE FROM accts"); err != nil {
		return err
	}
	for _, r := range tbl {
		var del interface{}
		if r.Del != nil {
			del = tm(*r.Del)
		}
		if _, err := e.sql.Exec("INSERT INTO accts (id,name,age,email,created_at,updated_at,deleted_at) VALUES (?,?,?,?,?,?,?)",
			r.ID, r.Name, r.Age, r.Email, tm(r.Cat), tm(r.Uat), del); err != nil {
			return err
		}
	}
	return nil
}

func (e *env) dump() ([]Rec, error) {
	rows, err := e.sql.Query("SELECT id,name,age,email,created_at,updated_at,deleted_at FROM accts ORDER BY id")
	if err != nil {
		return nil, err
	}
	defer rows.Close()
	out := []Rec{}
	for rows.Next() {
		var (
			id, age     sql.NullInt64
			name, email sql.NullString
			cat, uat, d sql.NullTime
		)
		if err := rows.Scan(&id, &name, &age, &email, &cat, &uat, &d); err != nil {
			return nil, err
		}
		r := Rec{ID: id.Int64, Name: name.String, Age: age.Int64, Email: email.String}
		if cat.Valid {
			r.Cat = untm(cat.Time)
		}
		if uat.Valid {
			r.Uat = untm(uat.Time)
		}
		if d.Valid {
			x := untm(d.Time)
			r.Del = &x
		}
		out = append(out, r)
	}
	return out, rows.Err()
}

func isWrite(q string) bool {
	q = strings.ToUpper(strings.TrimSpace(q))
	return strings.HasPrefix(q, "INSERT") || strings.HasPrefix(q, "UPDATE") || strings.HasPrefix(q, "DELETE") || strings.HasPrefix(q, "REPLACE")
}

type ctxMark struct{}

// run executes one step on real gorm.
func (e *env) restoreC(c compOps, tbl []Rec) error {
	if _, err := e.sql.Exec("DELETE FROM " + c.table); err != nil {
		return err
	}
	for _, r := range tbl {
		if _, err := e.sql.Exec("INSERT INTO "+c.table+" ("+c.k1+","+c.k2+",qty,note) VALUES (?,?,?,?)", r.ID, r.Name, r.Age, r.Email); err != nil {
			return err
		}
	}
	return nil
}
func (e *env) dumpC(c compOps) ([]Rec, error) {
	rows, err := e.sql.Query("SELECT " + c.k1 + "," + c.k2 + ",qty,note FROM " + c.table + " ORDER BY rowid")
	if err != nil {
		return nil, err
	}
	defer rows.Close()
	out := []Rec{}
	for rows.Next() {
		var r Rec
		var reg, note sql.NullString
		var qty sql.NullInt64
		if err := rows.Scan(&r.ID, &reg, &qty, &note); err != nil {
			return nil, err
		}
		r.Name, r.Age, r.Email = reg.String, qty.Int64, note.String
		out = append(out, r)
	}
	return out, rows.Err()
}

// runC: one step on the composite-key table
func runC(e *env, in Input) Obs {
	var o Obs
	ct, ok := compTypes[in.CType]
	if !ok {
		o.Setup = "unknown composite type " + in.CType
		return o
	}
	if err := e.restoreC(ct, in.Tbl); err != nil {
		o.Setup = err.Error()
		return o
	}
	cur = tm(in.Now)
	e.rec.Reset()
	tx := e.db
	for _, c := range in.Chain {
		if c.Kind == "session" {
			tx = tx.Session(&gorm.Session{})
		} else if c.Kind == "ctx" {
			tx = tx.WithContext(context.WithValue(context.Background(), ctxMark{}, 1))
		}
	}
	var res *gorm.DB
	var dest Rec
	f := in.Fin
	switch f.Kind {
	case "c_save":
		res, dest = ct.save(tx, *f.Val)
	case "c_save_slice":
		res = ct.saveSlice(tx, f.Vals)
	case "c_create_oc":
		oc := clause.OnConflict{}
		if f.Target {
			oc.Columns = []clause.Column{{Name: ct.k1}, {Name: ct.k2}}
		}
		switch f.Rule {
		case "nothing":
			oc.DoNothing = true
		case "updates":
			oc.DoUpdates = clause.AssignmentColumns(f.Cols)
		case "all":
			oc.UpdateAll = true
		}
		res, dest = ct.create(tx.Clauses(oc), *f.Val)
	case "c_foc":
		tx = tx.Where(map[string]interface{}{ct.k1: f.CID, ct.k2: f.CRegion})
		if f.CAttrs != nil {
			tx = tx.Attrs(map[string]interface{}{"note": *f.CAttrs})
		}
		if f.CAssign != nil {
			tx = tx.Assign(map[string]interface{}{"qty": *f.CAssign})
		}
		res, dest = ct.foc(tx)
	default:
		o.Setup = "unknown composite finisher " + f.Kind
		return o
	}
	o.Ret = dest
	o.RA = res.RowsAffected
	if res.Error != nil {
		o.Err = res.Error.Error()
	}
	for _, ev := range e.rec.Snapshot() {
		switch ev.Kind {
		case "exec", "query", "stmt_exec", "stmt_query":
			if isWrite(ev.Query) {
				o.Writes++
			}
		}
	}
	t, err := e.dumpC(ct)
	if err != nil {
		o.Setup = err.Error()
	}
	o.Tbl = t
	return o
}

func run(e *env, in Input) Obs {
	if in.Composite {
		return runC(e, in)
	}
	var o Obs
	if err := e.restore(in.Tbl); err != nil {
		o.Setup = err.Error()
		return o
	}
	cur = tm(in.Now)
	e.rec.Reset()
	tx := e.db
	for _, c := range in.Chain {
		switch c.Kind {
		case "where":
			a := condArg(*c.Cond)
			if c.Via == "scope" {
				tx = tx.Scopes(func(d *gorm.DB) *gorm.DB { return d.Where(a[0], a[1:]...) })
			} else {
				tx = tx.Where(a[0], a[1:]...)
			}
		case "unscoped":
			tx = tx.Unscoped()
		case "attrs":
			tx = tx.Attrs(argList(c.Args)...)
		case "assign":
			tx = tx.Assign(argList(c.Args)...)
		case "session":
			cfg := &gorm.Session{}
			switch c.Opt {
			case "skip_default_tx":
				cfg.SkipDefaultTransaction = true
			case "query_fields":
				cfg.QueryFields = true
			case "batch_size":
				cfg.CreateBatchSize = 100
			case "logger":
				cfg.Logger = logger.Discard
			case "now_func":
				cfg.NowFunc = func() time.Time { return cur }
			case "no_nested_tx":
				cfg.DisableNestedTransaction = true
			case "full_save_assoc":
				cfg.FullSaveAssociations = true
			case "propagate_unscoped":
				cfg.PropagateUnscoped = true
			}
			tx = tx.Session(cfg)
		case "ctx":
			ctx := context.WithValue(context.Background(), ctxMark{}, 1)
			switch c.Opt {
			case "session_ctx":
				tx = tx.Session(&gorm.Session{Context: ctx})
			case "prepare":
				tx = tx.Session(&gorm.Session{PrepareStmt: true})
			default:
				tx = tx.WithContext(ctx)
			}
		}
	}
	var inline []interface{}
	if len(in.Fin.Inline) > 0 {
		inline = condArg(in.Fin.Inline[0])
	}
	var dest Acct
	var res *gorm.DB
	switch in.Fin.Kind {
	case "save":
		dest = toAcct(*in.Fin.Val)
		if in.Fin.PtrPtr { // Save(&ptr): pointer to the pointer
			p := &dest
			res = tx.Save(&p)
		} else {
			res = tx.Save(&dest)
		}
	case "save_omit":
		dest = toAcct(*in.Fin.Val)
		var cols []string
		for _, c := range in.Fin.Omits {
			if in.Fin.OmitSpell == "field" {
				c = fieldName[c]
			}
			cols = append(cols, c)
		}
		if in.Fin.OmitSpell == "comma" { // Omit("a,b"): one comma-separated string
			cols = []string{strings.Join(cols, ",")}
		}
		res = tx.Omit(cols...).Save(&dest)
	case "save_slice":
		sl := make([]Acct, len(in.Fin.Vals))
		for i, v := range in.Fin.Vals {
			sl[i] = toAcct(v)
		}
		res = tx.Save(&sl)
		for _, a := range sl {
			o.Rets = append(o.Rets, fromAcct(a))
		}
		if len(sl) > 0 {
			dest = sl[len(sl)-1]
		}
	case "create_oc", "create_u", "create_oc_slice", "create_maps":
		if in.Fin.Val != nil {
			dest = toAcct(*in.Fin.Val)
		}
		oc := clause.OnConflict{}
		if in.Fin.Target {
			oc.Columns = []clause.Column{{Name: "id"}}
		}
		switch in.Fin.Rule {
		case "nothing":
			oc.DoNothing = true
		case "updates":
			oc.DoUpdates = clause.AssignmentColumns(in.Fin.Cols)
		case "all":
			oc.UpdateAll = true
		}
		ageLt := func(k int64) clause.Where {
			return clause.Where{Exprs: []clause.Expression{clause.Lt{Column: clause.Column{Table: clause.CurrentTable, Name: "age"}, Value: k}}}
		}
		if in.Fin.OCWhere != nil {
			oc.Where = ageLt(*in.Fin.OCWhere)
		}
		if in.Fin.OCTarget != nil {
			oc.TargetWhere = ageLt(*in.Fin.OCTarget)
		}
		if in.Fin.Kind == "create_maps" {
			ms := make([]map[string]interface{}, len(in.Fin.Maps))
			for i, kv := range in.Fin.Maps {
				ms[i] = kvMap(kv, in.Fin.MapSpell)
			}
			mtx := tx.Model(&Acct{}).Clauses(oc)
			switch in.Fin.MapShape {
			case "map":
				res = mtx.Create(ms[0])
			case "pmap":
				res = mtx.Create(&ms[0])
			case "slice":
				res = mtx.Create(ms)
			default:
				res = mtx.Create(&ms)
			}
			dest = Acct{}
		} else if in.Fin.Kind == "create_oc_slice" {
			sl := make([]Acct, len(in.Fin.Vals))
			for i, v := range in.Fin.Vals {
				sl[i] = toAcct(v)
			}
			if in.Fin.Batch > 0 {
				res = tx.Clauses(oc).CreateInBatches(&sl, in.Fin.Batch)
			} else {
				res = tx.Clauses(oc).Create(&sl)
			}
			dest = Acct{}
		} else {
			res = tx.Clauses(oc).Create(&dest)
		}
	case "foi":
		res = tx.FirstOrInit(&dest, inline...)
	case "foc":
		res = tx.FirstOrCreate(&dest, inline...)
	default:
		o.Setup = "unknown finisher " + in.Fin.Kind
		return o
	}
	o.Ret = fromAcct(dest)
	o.RA = res.RowsAffected
	if res.Error != nil {
		o.Err = res.Error.Error()
	}
	for _, ev := range e.rec.Snapshot() {
		switch ev.Kind {
		case "exec", "query", "stmt_exec", "stmt_query":
			if isWrite(ev.Query) {
				o.Writes++
			}
		}
	}
	t, err := e.dump()
	if err != nil {
		o.Setup = err.Error()
	}
	o.Tbl = t
	return o
}

// ---- Gallina printing ---------------------------------------------------------------------

func gRec(r Rec) string {
	del := "None"
	if r.Del != nil {
		del = "(Some " + lib.Z(*r.Del) + ")"
	}
	return lib.App("mk_rec", lib.Z(r.ID), lib.Str(r.Name), lib.Z(r.Age), lib.Str(r.Email), lib.Z(r.Cat), lib.Z(r.Uat), del)
}

var gColName = map[string]string{"id": "CId", "name": "CName", "age": "CAge", "email": "CEmail",
	"created_at": "CCat", "updated_at": "CUat", "deleted_at": "CDel"}

func gVal(v Val) string {
	if v.T == "s" {
		return lib.App("VStr", lib.Str(v.S))
	}
	return lib.App("VInt", lib.Z(v.I))
}

// maps are iterated by gorm in sorted key order: print them in the order of the keys as spelled
func sortedKV(kv []KV, spell string) []KV {
	out := append([]KV(nil), kv...)
	key := func(p KV) string {
		if spell == "field" {
			return fieldName[p.Col]
		}
		return p.Col
	}
	sort.SliceStable(out, func(i, j int) bool { return key(out[i]) < key(out[j]) })
	return out
}
func gKV(p KV) string { return lib.Pair(gColName[p.Col], gVal(p.Val)) }
func gCond(c Cond) string {
	switch c.Kind {
	case "struct":
		return lib.App("CStruct", gRec(*c.Rec))
	case "map":
		return lib.App("CMap", lib.ListOf(sortedKV(c.KV, "db"), gKV))
	}
	return lib.App("CAgeGt", lib.Z(c.K))
}
func gArg(a Arg) string {
	switch a.Kind {
	case "struct":
		return lib.App("AStruct", gRec(*a.Rec))
	case "map":
		return lib.App("AMap", lib.ListOf(sortedKV(a.KV, a.Spell), gKV))
	}
	return lib.App("AKV", gColName[a.KV[0].Col], gVal(a.KV[0].Val))
}
func gCel(c Cel) string {
	switch c.Kind {
	case "where":
		return lib.App("EWhere", gCond(*c.Cond))
	case "unscoped":
		return "(EWhere CUnscoped)"
	case "attrs":
		return lib.App("EAttrs", lib.ListOf(c.Args, gArg))
	case "assign":
		return lib.App("EAssign", lib.ListOf(c.Args, gArg))
	case "session":
		return "ESession"
	}
	return "ECtx"
}
func gFin(f Fin) string {
	optS := func(p *string) string {
		if p == nil {
			return "None"
		}
		return "(Some " + lib.Str(*p) + ")"
	}
	optZ := func(p *int64) string {
		if p == nil {
			return "None"
		}
		return "(Some " + lib.Z(*p) + ")"
	}
	switch f.Kind {
	case "c_save":
		return lib.App("FCSave", gRec(*f.Val))
	case "c_save_slice":
		return lib.App("FCSaveSlice", lib.ListOf(f.Vals, gRec))
	case "c_create_oc":
		rule := map[string]string{"nothing": "RNothing", "all": "RAll"}[f.Rule]
		if f.Rule == "updates" {
			rule = lib.App("RUpdates", lib.ListOf(f.Cols, func(c string) string { return map[string]string{"qty": "CAge", "note": "CEmail"}[c] }))
		}
		return lib.App("FCCreateOC", rule, gRec(*f.Val))
	case "c_foc":
		return lib.App("FCFoc", lib.Z(f.CID), lib.Str(f.CRegion), optS(f.CAttrs), optZ(f.CAssign))
	case "save":
		return lib.App("FSave", gRec(*f.Val))
	case "save_slice":
		return lib.App("FSaveSlice", lib.ListOf(f.Vals, gRec))
	case "save_omit":
		return lib.App("FSaveOmit", lib.ListOf(f.Omits, func(c string) string { return gColName[c] }), gRec(*f.Val))
	case "create_oc", "create_u", "create_oc_slice", "create_maps":
		rule := "RNothing"
		switch f.Rule {
		case "updates":
			rule = lib.App("RUpdates", lib.ListOf(f.Cols, func(c string) string { return gColName[c] }))
		case "all":
			rule = "RAll"
		}
		if f.OCTarget != nil {
			rule = lib.App("RTarget", lib.Z(*f.OCTarget), rule)
		}
		if f.OCWhere != nil {
			rule = lib.App("RWhere", lib.Z(*f.OCWhere), rule)
		}
		if f.Kind == "create_u" {
			return lib.App("FCreateU", rule, lib.Bool(f.Target), gRec(*f.Val))
		}
		if f.Kind == "create_maps" {
			return lib.App("FCreateMaps", rule, lib.ListOf(f.Maps, func(kv []KV) string { return lib.ListOf(kv, gKV) }))
		}
		if f.Kind == "create_oc_slice" {
			return lib.App("FCreateOCSlice", rule, lib.Z(int64(f.Batch)), lib.ListOf(f.Vals, gRec))
		}
		return lib.App("FCreateOC", rule, gRec(*f.Val))
	case "foi":
		return lib.App("FInit", lib.ListOf(f.Inline, gCond))
	}
	return lib.App("FFoc", lib.ListOf(f.Inline, gCond))
}
func term(in Input, o Obs) string {
	return lib.App("mk_case", lib.ListOf(in.Tbl, gRec), lib.Z(in.Now), lib.ListOf(in.Chain, gCel), gFin(in.Fin),
		gRec(o.Ret), lib.ListOf(o.Rets, gRec), lib.Z(o.RA), lib.Bool(o.Err != ""), lib.Z(o.Writes), lib.ListOf(o.Tbl, gRec),
		lib.Bool(o.Setup != ""),
		lib.Bool(!(in.Fin.Kind == "create_oc_slice" && in.Fin.Rule == "nothing" && !in.NoReturn)))
}

// ---- chain shapes ------------------------------------------------------------------------------

// sessionAfterAttrs reports whether a Session/WithContext follows a non-empty Attrs/Assign in the
// chain: the shape that lost the Attrs/Assign before /repo commit 2b43abc (known finding
// clone-drops-attrs, now fixed).  Such cases are generated on purpose (stream session-after-attrs).
func sessionAfterAttrs(in Input) bool {
	seen := false
	for _, c := range in.Chain {
		switch c.Kind {
		case "attrs", "assign":
			if len(c.Args) > 0 {
				seen = true
			}
		case "session", "ctx":
			if seen {
				return true
			}
		}
	}
	return false
}

// sig: no known finding is open for C16.
func sig(in Input) string { return "" }

// allNothingWhere: the shape of the fixed finding update-all-nothing-where (/repo commit b84cf7b): Create from map
// values that name no column UpdateAll could set (only the key and/or created_at) under
// OnConflict{UpdateAll: true, Where: ...} — the rule degenerates to DO NOTHING, which takes no condition.
// Generated on purpose (stream update-all-nothing-where).
func allNothingWhere(in Input) bool {
	if in.Fin.Kind == "create_maps" && in.Fin.Rule == "all" && in.Fin.OCWhere != nil {
		for _, kv := range in.Fin.Maps {
			for _, p := range kv {
				if p.Col != "id" && p.Col != "created_at" {
					return false
				}
			}
		}
		return true
	}
	return false
}

// ---- generation ------------------------------------------------------------------------------

var names = []string{"a", "b", "c"}
var emails = []string{"x@e", "y@e"}

func vI(n int64) Val  { return Val{T: "i", I: n} }
func vS(s string) Val { return Val{T: "s", S: s} }

func genRow(r *lib.Rng, id int64) Rec {
	x := Rec{ID: id, Name: lib.Pick(r, names), Age: int64(r.Intn(4)), Cat: int64(1 + r.Intn(5)), Uat: int64(1 + r.Intn(5))}
	if r.Bool() {
		x.Email = lib.Pick(r, emails)
	}
	if r.Chance(1, 3) {
		d := int64(6 + r.Intn(3))
		x.Del = &d
	}
	return x
}

func genValue(r *lib.Rng, state []Rec, edge bool) Rec {
	var v Rec
	if len(state) > 0 && r.Chance(3, 10) {
		// a record loaded earlier (its timestamps come along), then edited
		v = state[r.Intn(len(state))]
		if v.Del != nil && r.Chance(2, 3) {
			v.Del = nil
		}
	} else {
		v = Rec{ID: int64(1 + r.Intn(4))}
		if r.Chance(15, 100) {
			v.ID = 0
		}
		if r.Chance(1, 6) {
			v.Cat = int64(1 + r.Intn(5))
		}
		if r.Chance(1, 8) {
			v.Uat = int64(1 + r.Intn(5))
		}
		if r.Chance(1, 12) {
			d := int64(6 + r.Intn(3))
			v.Del = &d
		}
	}
	if r.Chance(4, 5) {
		v.Name = lib.Pick(r, names)
	}
	if r.Chance(3, 5) {
		v.Age = int64(r.Intn(4))
	}
	if r.Chance(1, 2) {
		v.Email = lib.Pick(r, emails)
	}
	if edge && r.Chance(1, 3) {
		v.Name, v.Age, v.Email = "", 0, ""
	}
	return v
}

func genCond(r *lib.Rng, state []Rec, edge bool) Cond {
	// towards an existing row (live or soft-deleted) most of the time
	var ref Rec
	hit := len(state) > 0 && r.Chance(7, 10)
	if hit {
		ref = state[r.Intn(len(state))]
	} else {
		ref = Rec{ID: int64(1 + r.Intn(4)), Name: lib.Pick(r, names), Age: int64(r.Intn(4)), Email: lib.Pick(r, emails)}
	}
	k := r.Intn(10)
	switch {
	case k < 4:
		c := Rec{}
		if r.Chance(2, 5) {
			c.ID = ref.ID
		}
		if r.Chance(3, 5) {
			c.Name = ref.Name
		}
		if r.Chance(1, 3) {
			c.Age = ref.Age
		}
		if r.Chance(1, 4) {
			c.Email = ref.Email
		}
		if edge && r.Chance(1, 4) {
			c = Rec{}
		}
		return Cond{Kind: "struct", Rec: &c}
	case k < 9:
		var kv []KV
		if r.Chance(2, 5) {
			kv = append(kv, KV{"id", vI(ref.ID)})
		}
		if r.Chance(3, 5) {
			kv = append(kv, KV{"name", vS(ref.Name)})
		}
		if r.Chance(1, 3) {
			kv = append(kv, KV{"age", vI(ref.Age)})
		}
		if r.Chance(1, 4) {
			kv = append(kv, KV{"email", vS(ref.Email)})
		}
		if len(kv) == 0 {
			kv = append(kv, KV{"name", vS(ref.Name)})
		}
		return Cond{Kind: "map", KV: kv}
	}
	return Cond{Kind: "agegt", K: int64(r.Intn(3))}
}

func genArgs(r *lib.Rng, edge bool) []Arg {
	one := func() Arg {
		spell := "db"
		if r.Chance(1, 3) {
			spell = "field"
		}
		nm, ag, em := lib.Pick(r, []string{"p", "q"}), int64(5+r.Intn(3)), lib.Pick(r, []string{"m@e", "n@e"})
		switch r.Intn(3) {
		case 0:
			c := Rec{}
			if r.Chance(2, 3) {
				c.Name = nm
			}
			if r.Chance(1, 2) {
				c.Age = ag
			}
			if r.Chance(1, 2) {
				c.Email = em
			}
			if edge && r.Chance(1, 4) {
				c = Rec{}
			}
			return Arg{Kind: "struct", Rec: &c, Spell: "db", Ptr: r.Bool()}
		case 1:
			var kv []KV
			if r.Chance(2, 3) {
				kv = append(kv, KV{"name", vS(nm)})
			}
			if r.Chance(1, 2) {
				if edge && r.Bool() {
					ag = 0 // maps carry zero values
				}
				kv = append(kv, KV{"age", vI(ag)})
			}
			if r.Chance(1, 2) {
				if edge && r.Bool() {
					em = ""
				}
				kv = append(kv, KV{"email", vS(em)})
			}
			if len(kv) == 0 {
				kv = append(kv, KV{"email", vS(em)})
			}
			return Arg{Kind: "map", KV: kv, Spell: spell}
		}
		switch r.Intn(3) {
		case 0:
			return Arg{Kind: "kv", KV: []KV{{"name", vS(nm)}}, Spell: spell}
		case 1:
			return Arg{Kind: "kv", KV: []KV{{"age", vI(ag)}}, Spell: spell}
		}
		return Arg{Kind: "kv", KV: []KV{{"email", vS(em)}}, Spell: spell}
	}
	a := one()
	if a.Kind != "kv" && r.Chance(1, 5) {
		b := one()
		for b.Kind == "kv" {
			b = one()
		}
		// two arguments: column spelling only (a struct argument yields the column name as map key, so
		// "name" and "Name" would be two keys of the Updates map, ordered by spelling)
		a.Spell, b.Spell = "db", "db"
		return []Arg{a, b}
	}
	return []Arg{a}
}

var sessionOpts = []string{"", "", "", "skip_default_tx", "query_fields", "batch_size", "logger", "now_func", "no_nested_tx", "full_save_assoc", "propagate_unscoped"}
var ctxOpts = []string{"", "", "session_ctx", "prepare"}

func sessionEl(r *lib.Rng) Cel {
	if r.Bool() {
		return Cel{Kind: "session", Opt: lib.Pick(r, sessionOpts)}
	}
	return Cel{Kind: "ctx", Opt: lib.Pick(r, ctxOpts)}
}

// genStep draws one step. known=true forces a Session/WithContext after an Attrs/Assign (the shape
// of the fixed finding clone-drops-attrs); otherwise session elements go to any chain position.
// fixSelfClash: domain of slice statements — a caller-given key must not be the key the database assigns to
// an earlier zero-key element of the same statement (max+1 at that moment), otherwise the caller's own
// elements collide
func fixSelfClash(state []Rec, vals []Rec) {
	for tries := 0; tries < 20; tries++ {
		maxk, assigned, clash := int64(0), map[int64]bool{}, -1
		for _, row := range state {
			if row.ID > maxk {
				maxk = row.ID
			}
		}
		for i, v := range vals {
			if v.ID == 0 {
				maxk++
				assigned[maxk] = true
			} else {
				if assigned[v.ID] {
					clash = i
					break
				}
				if v.ID > maxk {
					maxk = v.ID
				}
			}
		}
		if clash < 0 {
			return
		}
		vals[clash].ID = 0
	}
}

var lastSlice []Rec // what the previous save_slice step of this history handed back

func genStep(r *lib.Rng, state []Rec, now int64, edge, known bool) Input {
	in := Input{Tbl: append([]Rec(nil), state...), Now: now, NoReturn: r.Chance(1, 4)}
	k := r.Intn(100)
	if known {
		k = 50 + r.Intn(50)
	}
	switch {
	case k < 10 && !known:
		// Save of a slice mixing keyed (stored or fresh keys, distinct) and zero-key elements in any
		// order; RETURNING dialect only (without RETURNING the key back-fill of mixed slices is C03's
		// documented limitation)
		in.NoReturn = false
		if len(lastSlice) > 0 && r.Bool() {
			// saving the slice gorm handed back once more (possibly edited)
			vals := append([]Rec(nil), lastSlice...)
			if r.Bool() {
				i := r.Intn(len(vals))
				vals[i].Name = lib.Pick(r, names)
			}
			in.Fin = Fin{Kind: "save_slice", Vals: vals}
			break
		}
		n := r.Range(2, 4)
		used := map[int64]bool{}
		var vals []Rec
		for i := 0; i < n; i++ {
			v := genValue(r, state, edge)
			switch {
			case r.Chance(2, 5):
				v.ID = 0
			case r.Chance(1, 4):
				v.ID = int64(20 + r.Intn(5)) // a fresh key far from the assigned ones
			}
			if v.ID != 0 && used[v.ID] {
				v.ID = 0
			}
			used[v.ID] = true
			vals = append(vals, v)
		}
		fixSelfClash(state, vals)
		in.Fin = Fin{Kind: "save_slice", Vals: vals}
	case k < 17 && !known:
		// Omit(cols...).Save(&v): stored, soft-deleted, missing and zero keys; zero-valued fields
		v := genValue(r, state, edge)
		if r.Chance(1, 3) {
			switch r.Intn(3) {
			case 0:
				v.Name = ""
			case 1:
				v.Age = 0
			default:
				v.Email = ""
			}
		}
		f := Fin{Kind: "save_omit", Val: &v, OmitSpell: lib.Pick(r, []string{"db", "field", "comma"})}
		for _, c := range []string{"name", "age", "email", "updated_at"} {
			if r.Chance(1, 3) {
				f.Omits = append(f.Omits, c)
			}
		}
		if len(f.Omits) == 0 {
			f.Omits = []string{lib.Pick(r, []string{"name", "age", "email"})}
		}
		in.Fin = f
	case k < 25:
		v := genValue(r, state, edge)
		in.Fin = Fin{Kind: "save", Val: &v, PtrPtr: r.Chance(1, 4)}
	case k < 50:
		v := genValue(r, state, edge)
		f := Fin{Kind: "create_oc", Val: &v, Target: true}
		switch r.Intn(3) {
		case 0:
			f.Rule = "nothing"
			f.Target = r.Bool()
		case 1:
			f.Rule = "updates"
			all := []string{"name", "age", "email", "updated_at", "deleted_at"}
			for _, c := range all {
				if r.Chance(2, 5) {
					f.Cols = append(f.Cols, c)
				}
			}
			if len(f.Cols) == 0 {
				f.Cols = []string{lib.Pick(r, all[:3])}
			}
			lib.Shuffle(r, f.Cols)
		default:
			f.Rule = "all"
			f.Target = r.Bool()
		}
		// conditional rules (ages are 0..3, so both sides of the condition occur)
		if f.Rule != "nothing" && r.Chance(2, 5) {
			k := int64(1 + r.Intn(3))
			f.OCWhere = &k
		}
		if r.Chance(1, 5) {
			k := int64(1 + r.Intn(3))
			f.OCTarget, f.Target = &k, true
		}
		if r.Chance(1, 4) {
			// the rule on a SLICE: Create(&slice) / CreateInBatches(&slice, n), distinct keys and zero keys
			n := r.Range(2, 4)
			used := map[int64]bool{}
			vals := []Rec{v}
			used[v.ID] = true
			for i := 1; i < n; i++ {
				w := genValue(r, state, edge)
				if r.Chance(1, 3) {
					w.ID = 0
				}
				if w.ID != 0 && used[w.ID] {
					w.ID = 0
				}
				used[w.ID] = true
				vals = append(vals, w)
			}
			fixSelfClash(state, vals)
			f.Kind, f.Val, f.Vals = "create_oc_slice", nil, vals
			if r.Bool() {
				f.Batch = r.Range(1, 3)
			}
		} else if r.Chance(2, 5) {
			// the rule on MAP values: Model(&Acct{}).Create(map | *map | []map | *[]map); every map names its own
			// subset of the columns (key, data columns, tracked times, deleted_at)
			f.MapShape = lib.Pick(r, []string{"map", "pmap", "slice", "pslice"})
			f.MapSpell = lib.Pick(r, []string{"db", "db", "field"})
			vals := []Rec{v}
			if f.MapShape == "slice" || f.MapShape == "pslice" {
				used := map[int64]bool{v.ID: true}
				for i, n := 1, r.Range(1, 3); i < n; i++ {
					w := genValue(r, state, edge)
					if r.Chance(1, 3) || used[w.ID] {
						w.ID = 0
					}
					used[w.ID] = true
					vals = append(vals, w)
				}
				fixSelfClash(state, vals)
			}
			if f.MapShape == "slice" {
				in.NoReturn = true // a slice of maps BY VALUE cannot take the RETURNING rows (gorm.Scan fails on it)
			}
			for _, w := range vals {
				var kv []KV
				if w.ID != 0 {
					kv = append(kv, KV{"id", vI(w.ID)})
				}
				if r.Chance(2, 3) {
					kv = append(kv, KV{"name", vS(w.Name)})
				}
				if r.Chance(1, 2) {
					kv = append(kv, KV{"age", vI(w.Age)})
				}
				if r.Chance(1, 2) {
					kv = append(kv, KV{"email", vS(w.Email)})
				}
				if r.Chance(1, 6) {
					kv = append(kv, KV{"updated_at", vI(int64(1 + r.Intn(5)))})
				}
				if r.Chance(1, 8) {
					kv = append(kv, KV{"created_at", vI(int64(1 + r.Intn(5)))})
				}
				if r.Chance(1, 10) {
					kv = append(kv, KV{"deleted_at", vI(int64(6 + r.Intn(3)))})
				}
				if len(kv) == 0 || (len(kv) == 1 && w.ID != 0 && r.Chance(2, 3)) {
					// a map naming nothing but its key makes UpdateAll a DO NOTHING (kept, rarely)
					kv = append(kv, KV{"name", vS(w.Name)})
				}
				lib.Shuffle(r, kv)
				f.Maps = append(f.Maps, kv)
			}
			if f.Rule == "all" && r.Chance(1, 6) {
				// the fixed finding's shape: UpdateAll + Where over maps naming only key / created_at
				if f.OCWhere == nil {
					k := int64(1 + r.Intn(3))
					f.OCWhere = &k
				}
				for i, kv := range f.Maps {
					var keep []KV
					for _, p := range kv {
						if p.Col == "id" || p.Col == "created_at" {
							keep = append(keep, p)
						}
					}
					if len(keep) == 0 {
						keep = []KV{{"created_at", vI(int64(1 + r.Intn(5)))}}
					}
					f.Maps[i] = keep
				}
			}
			f.Kind, f.Val = "create_maps", nil
		}
		in.Fin = f
	default:
		f := Fin{Kind: "foi"}
		if k >= 72 {
			f.Kind = "foc"
		}
		var els []Cel
		nw := r.Pick3()
		if nw > 2 {
			nw = 2
		}
		for i := 0; i < nw; i++ {
			c := genCond(r, state, edge)
			els = append(els, Cel{Kind: "where", Cond: &c})
		}
		if r.Chance(3, 10) || (nw == 0 && r.Chance(2, 3)) {
			f.Inline = []Cond{genCond(r, state, edge)}
			for f.Inline[0].Kind == "agegt" { // inline raw SQL goes through the same code; keep struct/map
				f.Inline[0] = genCond(r, state, edge)
			}
		}
		if r.Chance(1, 2) || known {
			els = append(els, Cel{Kind: "attrs", Args: genArgs(r, edge)})
		}
		// Unscoped() somewhere in the chain (1 in 4): soft-deleted rows are matches too; the conditions are then
		// aimed at a soft-deleted row most of the time and an Assign is more likely (the found row is updated)
		unsc := !known && r.Chance(1, 4)
		if unsc {
			var gone []Rec
			for _, row := range state {
				if row.Del != nil {
					gone = append(gone, row)
				}
			}
			if len(gone) > 0 && r.Chance(3, 4) {
				c := genCond(r, gone, false)
				for c.Kind == "agegt" {
					c = genCond(r, gone, false)
				}
				if len(els) > 0 && r.Bool() {
					els[0] = Cel{Kind: "where", Cond: &c}
				} else {
					els = append(els, Cel{Kind: "where", Cond: &c})
				}
			}
			els = append(els, Cel{Kind: "unscoped"})
		}
		if r.Chance(2, 5) || (known && r.Bool()) || (unsc && r.Bool()) {
			els = append(els, Cel{Kind: "assign", Args: genArgs(r, edge)})
		}
		lib.Shuffle(r, els)
		// the LAST condition of the chain may be given through Scopes(...) (scopes run when the finisher
		// executes, after the chain's and the inline conditions: only the last one keeps the order)
		if len(f.Inline) == 0 && r.Chance(1, 4) {
			for i := len(els) - 1; i >= 0; i-- {
				if els[i].Kind == "where" {
					els[i].Via = "scope"
					break
				}
			}
		}
		in.Chain = els
		in.Fin = f
	}
	// Session / WithContext at chain positions
	ns := []int{0, 0, 1, 1, 1, 2}[r.Intn(6)]
	if known && ns == 0 {
		ns = 1
	}
	for i := 0; i < ns; i++ {
		firstAttr := len(in.Chain)
		for j, c := range in.Chain {
			if c.Kind == "attrs" || c.Kind == "assign" {
				firstAttr = j
				break
			}
		}
		var pos int
		if known {
			pos = firstAttr + 1 + r.Intn(len(in.Chain)-firstAttr)
		} else {
			pos = r.Intn(len(in.Chain) + 1)
		}
		el := sessionEl(r)
		in.Chain = append(in.Chain[:pos], append([]Cel{el}, in.Chain[pos:]...)...)
	}
	if in.Fin.MapShape == "pslice" {
		// Session{CreateBatchSize} turns Create(&[]map) into CreateInBatches, which hands sub-slices BY VALUE on
		for _, c := range in.Chain {
			if c.Kind == "session" && c.Opt == "batch_size" {
				in.NoReturn = true
			}
		}
	}
	return in
}

// genUnique draws a stand-alone case on a table whose rows carry UNIQUE e-mails (u1@e, u2@e): an incoming
// row whose key is fresh / assigned / stored and whose e-mail is free, its own, or held by ANOTHER row,
// under every OnConflict rule with and without an explicit conflict target.
func genUnique(r *lib.Rng, now int64) Input {
	d := int64(7)
	tbl := []Rec{{ID: 1, Name: "a", Age: 1, Email: "u1@e", Cat: 2, Uat: 3}, {ID: 2, Name: "b", Age: 2, Email: "u2@e", Cat: 2, Uat: 3},
		{ID: 3, Name: "c", Age: 3, Email: "x@e", Cat: 2, Uat: 3}}
	if r.Chance(1, 3) {
		tbl[1].Del = &d // the holder of u2@e is soft-deleted: still a collision
	}
	v := Rec{ID: lib.Pick(r, []int64{0, 0, 9, 1, 2, 3}), Name: lib.Pick(r, names), Age: int64(r.Intn(4)),
		Email: lib.Pick(r, []string{"u1@e", "u2@e", "u2@e", "u3@e", "x@e"})}
	f := Fin{Kind: "create_u", Val: &v, Target: true}
	switch r.Intn(3) {
	case 0:
		f.Rule = "nothing"
		f.Target = r.Chance(2, 3)
	case 1:
		f.Rule = "updates"
		for _, c := range []string{"name", "age", "email"} {
			if r.Bool() {
				f.Cols = append(f.Cols, c)
			}
		}
		if len(f.Cols) == 0 {
			f.Cols = []string{"email"}
		}
	default:
		f.Rule = "all"
		f.Target = r.Bool()
	}
	if f.Rule != "nothing" && r.Chance(1, 4) {
		k := int64(1 + r.Intn(3))
		f.OCWhere = &k
	}
	if r.Chance(1, 4) {
		// the collision is on the OTHER index only: a fresh or assigned key, an e-mail another row holds
		v.ID, v.Email = lib.Pick(r, []int64{0, 9}), lib.Pick(r, []string{"u1@e", "u2@e"})
	}
	// DO NOTHING on the key while ANOTHER row holds the e-mail, with the key stored too: which of the two
	// collisions SQLite reports first is not part of the rule; not generated
	if f.Rule == "nothing" && v.ID != 0 && v.ID != 9 {
		for _, row := range tbl {
			if row.ID != v.ID && row.Email == v.Email && strings.HasPrefix(v.Email, "u") {
				v.Email = "u3@e"
			}
		}
	}
	return Input{Tbl: tbl, Now: now, NoReturn: r.Chance(1, 4), Fin: f}
}

// genComposite draws one step on the composite-key table.
func genComposite(r *lib.Rng, state []Rec, now int64, ctype string) Input {
	val := func() Rec {
		return Rec{ID: int64(1 + r.Intn(2)), Name: lib.Pick(r, []string{"eu", "us"}), Age: int64(r.Intn(9)), Email: lib.Pick(r, []string{"", "a", "b", "c"})}
	}
	// zeroMember: one key member of the value is the zero value (0 / ""), the other one is kept — mostly one that
	// stored rows carry (the stored rows themselves never have a zero-valued member: domain)
	zeroMember := func(v *Rec) {
		if len(state) > 0 && r.Chance(3, 4) {
			row := state[r.Intn(len(state))]
			v.ID, v.Name = row.ID, row.Name
		}
		if r.Bool() {
			v.ID = 0
		} else {
			v.Name = ""
		}
	}
	in := Input{Tbl: append([]Rec(nil), state...), Now: now, Composite: true, CType: ctype, NoReturn: r.Chance(1, 4)}
	if r.Chance(1, 3) {
		in.Chain = []Cel{sessionEl(r)}
		in.Chain[0].Opt = ""
	}
	switch r.Intn(4) {
	case 0:
		v := val()
		if r.Chance(2, 5) {
			zeroMember(&v)
		}
		in.Fin = Fin{Kind: "c_save", Val: &v}
	case 1:
		var vals []Rec
		seen := map[string]bool{}
		for i, n := 0, r.Range(2, 3); i < n; i++ {
			v := val()
			k := fmt.Sprint(v.ID, v.Name)
			if seen[k] {
				continue
			}
			seen[k] = true
			vals = append(vals, v)
		}
		if r.Chance(1, 5) {
			zeroMember(&vals[0])
			if len(vals) > 1 && vals[1].ID == vals[0].ID && vals[1].Name == vals[0].Name {
				vals = vals[:1]
			}
		}
		in.Fin = Fin{Kind: "c_save_slice", Vals: vals}
	case 2:
		v := val()
		f := Fin{Kind: "c_create_oc", Val: &v, Target: true}
		switch r.Intn(3) {
		case 0:
			f.Rule, f.Target = "nothing", r.Bool()
		case 1:
			f.Rule = "updates"
			f.Cols = lib.Pick(r, [][]string{{"qty"}, {"note"}, {"qty", "note"}, {"note", "qty"}})
		default:
			f.Rule, f.Target = "all", r.Chance(1, 3) // mostly the DEFAULT conflict target (all primary fields)
		}
		if r.Chance(1, 5) {
			zeroMember(f.Val)
		}
		in.Fin = f
	default:
		f := Fin{Kind: "c_foc", CID: int64(1 + r.Intn(2)), CRegion: lib.Pick(r, []string{"eu", "us"})}
		if r.Bool() {
			n := lib.Pick(r, []string{"p", "q"})
			f.CAttrs = &n
		}
		if r.Bool() {
			q := int64(10 + r.Intn(5))
			f.CAssign = &q
		}
		in.Fin = f
	}
	return in
}

func findRow(t []Rec, id int64) *Rec {
	for i := range t {
		if t[i].ID == id {
			return &t[i]
		}
	}
	return nil
}

// mapID: the key a map value names (0: none)
func mapID(kv []KV) int64 {
	for _, p := range kv {
		if p.Col == "id" {
			return p.Val.I
		}
	}
	return 0
}

func slicePattern(in Input) string {
	var sb strings.Builder
	vals := in.Fin.Vals
	for _, kv := range in.Fin.Maps {
		vals = append(vals, Rec{ID: mapID(kv)})
	}
	for _, v := range vals {
		switch row := findRow(in.Tbl, v.ID); {
		case v.ID == 0:
			sb.WriteString("z")
		case row == nil:
			sb.WriteString("f")
		case row.Del != nil:
			sb.WriteString("d")
		default:
			sb.WriteString("s")
		}
	}
	return sb.String()
}

func compositeCollision(in Input, v Rec) string {
	full, member := false, false
	for _, row := range in.Tbl {
		if row.ID == v.ID && row.Name == v.Name {
			full = true
		} else if row.ID == v.ID || row.Name == v.Name {
			member = true
		}
	}
	switch {
	case full:
		return "full-key"
	case member:
		return "one-member"
	}
	return "none"
}

func shape(in Input, o Obs) string {
	var sb strings.Builder
	sb.WriteString(in.Fin.Kind)
	if in.Composite {
		f := in.Fin
		zm := func(v Rec) string {
			switch {
			case v.ID == 0 && v.Name == "":
				return "z00"
			case v.ID == 0:
				return "z0k"
			case v.Name == "":
				return "zk0"
			}
			return ""
		}
		fmt.Fprintf(&sb, "%s|%s%v%v|", in.CType, f.Rule, f.Target, f.Cols)
		if f.Val != nil {
			sb.WriteString(zm(*f.Val))
		}
		for _, v := range f.Vals {
			sb.WriteString(zm(v))
		}
		if f.Val != nil {
			sb.WriteString(compositeCollision(in, *f.Val))
		}
		for _, v := range f.Vals {
			sb.WriteString(compositeCollision(in, v) + ",")
		}
		if f.Kind == "c_foc" {
			fmt.Fprintf(&sb, "%s a%v q%v", compositeCollision(in, Rec{ID: f.CID, Name: f.CRegion}), f.CAttrs != nil, f.CAssign != nil)
		}
		fmt.Fprintf(&sb, "|ra%d|w%d|e%v|n%d|nr%v", o.RA, o.Writes, o.Err != "", len(in.Tbl), in.NoReturn)
		return sb.String()
	}
	if in.Fin.Kind == "save_slice" {
		sb.WriteString(":" + slicePattern(in))
	}
	if in.Fin.Kind == "save_omit" {
		sb.WriteString(":" + strings.Join(in.Fin.Omits, ",") + in.Fin.OmitSpell)
	}
	if in.Fin.Kind == "create_oc_slice" {
		fmt.Fprintf(&sb, ":%s%v b%d %s", in.Fin.Rule, in.Fin.Target, in.Fin.Batch, slicePattern(in))
	}
	if in.Fin.Kind == "create_maps" {
		fmt.Fprintf(&sb, ":%s%v %s %s %s", in.Fin.Rule, in.Fin.Target, in.Fin.MapShape, in.Fin.MapSpell, slicePattern(in))
		for _, kv := range in.Fin.Maps {
			var ks []string
			for _, p := range kv {
				ks = append(ks, p.Col[:1])
			}
			sort.Strings(ks)
			sb.WriteString(" " + strings.Join(ks, ""))
		}
		if in.Fin.OCWhere != nil {
			sb.WriteString("+where")
		}
		if in.Fin.OCTarget != nil {
			sb.WriteString("+target")
		}
	}
	if in.Fin.Kind == "create_oc" || in.Fin.Kind == "create_u" {
		sb.WriteString(":" + in.Fin.Rule + fmt.Sprint(in.Fin.Target) + in.Fin.Val.Email)
		if in.Fin.OCWhere != nil {
			fmt.Fprintf(&sb, "+where%d", *in.Fin.OCWhere)
		}
		if in.Fin.OCTarget != nil {
			fmt.Fprintf(&sb, "+target%d", *in.Fin.OCTarget)
		}
		cs := append([]string(nil), in.Fin.Cols...)
		sort.Strings(cs)
		sb.WriteString("[" + strings.Join(cs, ",") + "]")
	}
	if in.Fin.Val != nil {
		switch row := findRow(in.Tbl, in.Fin.Val.ID); {
		case in.Fin.Val.ID == 0:
			sb.WriteString("|key0")
		case row == nil:
			sb.WriteString("|fresh")
		case row.Del != nil:
			sb.WriteString("|hits-deleted")
		default:
			sb.WriteString("|hits-live")
		}
	}
	sb.WriteString("|")
	for _, c := range in.Chain {
		switch c.Kind {
		case "where":
			sb.WriteString("w" + c.Cond.Kind[:1])
		case "attrs", "assign":
			sb.WriteString(c.Kind[:2] + "(")
			for _, a := range c.Args {
				sb.WriteString(a.Kind[:1])
			}
			sb.WriteString(")")
		case "unscoped":
			sb.WriteString("U")
		case "session":
			sb.WriteString("S")
		case "ctx":
			sb.WriteString("X")
		}
		sb.WriteString(".")
	}
	for _, c := range in.Fin.Inline {
		sb.WriteString("|in" + c.Kind[:1])
	}
	fmt.Fprintf(&sb, "|ra%d|w%d|e%v|n%d", o.RA, o.Writes, o.Err != "", len(in.Tbl))
	return sb.String()
}

func nontrivial(in Input, o Obs) bool {
	if in.Composite {
		return len(in.Tbl) > 0
	}
	switch in.Fin.Kind {
	case "create_u":
		return true
	case "save", "create_oc", "save_omit":
		return in.Fin.Val.ID != 0 && findRow(in.Tbl, in.Fin.Val.ID) != nil
	case "save_slice", "create_oc_slice":
		p := slicePattern(in)
		return strings.Contains(p, "z") && strings.ContainsAny(p, "sfd")
	case "create_maps":
		return strings.ContainsAny(slicePattern(in), "sd")
	}
	hasA := false
	conds := len(in.Fin.Inline)
	for _, c := range in.Chain {
		if (c.Kind == "attrs" || c.Kind == "assign") && len(c.Args) > 0 {
			hasA = true
		}
		if c.Kind == "where" {
			conds++
		}
	}
	return hasA && conds > 0 && len(in.Tbl) > 0
}

func main() {
	a := lib.ParseArgs()
	envs := map[bool]*env{false: openEnv(false), true: openEnv(true)}
	out := lib.NewOut(a.Out, "C16")
	out.PerFile = 250

	add := func(kind string, in Input) Obs {
		o := run(envs[in.NoReturn], in)
		out.Add(lib.Case{Term: term(in, o), JSON: map[string]interface{}{"input": in, "observed": o},
			Sig: sig(in), Kind: kind, Shape: shape(in, o), Nontriv: nontrivial(in, o)})
		fk := in.Fin.Kind
		if fk == "create_oc" {
			fk += ":" + in.Fin.Rule
			if in.Fin.OCWhere != nil {
				fk += "+where"
				if row := findRow(in.Tbl, in.Fin.Val.ID); row != nil && in.Fin.Val.ID != 0 {
					out.Count("conditional_rule_on_collision", fmt.Sprintf("stored row satisfies the condition: %v", row.Age < *in.Fin.OCWhere))
				}
			}
			if in.Fin.OCTarget != nil {
				fk += "+target"
			}
		}
		out.Count("finisher", fk)
		if in.Composite {
			out.Count("composite_type", map[string]string{"": "Stock (prioritized member ID)", "lot": "Lot (no prioritized member)"}[in.CType])
			if v := in.Fin.Val; v != nil && (v.ID == 0 || v.Name == "") {
				out.Count("composite_zero_member", in.Fin.Kind+":"+compositeCollision(in, *v))
			}
			if in.Fin.Val != nil {
				out.Count("composite_collision", in.Fin.Kind+":"+compositeCollision(in, *in.Fin.Val))
			}
			for _, v := range in.Fin.Vals {
				out.Count("composite_collision", in.Fin.Kind+":"+compositeCollision(in, v))
			}
		}
		if in.Fin.Kind == "create_maps" {
			out.Count("create_from_maps(shape rule: s=stored key,d=soft-deleted,f=fresh key,z=no key)", in.Fin.MapShape+" "+in.Fin.Rule+": "+slicePattern(in))
		}
		if in.Fin.Kind == "save_slice" {
			out.Count("slice_pattern(s=stored key,d=soft-deleted,f=fresh key,z=zero key)", slicePattern(in))
		}
		out.Count("table_size", fmt.Sprint(len(in.Tbl)))
		out.Count("chain_len", fmt.Sprint(len(in.Chain)))
		ns := 0
		for _, c := range in.Chain {
			if c.Kind == "session" || c.Kind == "ctx" {
				ns++
			}
			if c.Kind == "attrs" || c.Kind == "assign" {
				for _, x := range c.Args {
					form := c.Kind + ":" + x.Kind + ":" + x.Spell
					if x.Ptr {
						form += ":pointer"
					}
					out.Count("attr_form", form)
				}
			}
			if c.Kind == "where" {
				out.Count("cond_form", c.Cond.Kind)
			}
			if c.Kind == "unscoped" {
				what := "no match"
				if o.RA > 0 || (in.Fin.Kind == "foc" && o.Writes == 0) {
					what = "match"
					if o.Ret.Del != nil {
						what = "soft-deleted match"
					}
				}
				out.Count("unscoped_chain", in.Fin.Kind+": "+what)
			}
		}
		out.Count("session_elements", fmt.Sprint(ns))
		out.Count("rows_affected", fmt.Sprint(o.RA))
		out.Count("writes", fmt.Sprint(o.Writes))
		out.Count("error", fmt.Sprint(o.Err != ""))
		out.Count("returning", fmt.Sprint(!in.NoReturn))
		if in.Fin.Val != nil {
			switch row := findRow(in.Tbl, in.Fin.Val.ID); {
			case in.Fin.Val.ID == 0:
				out.Count("collision", "zero-key")
			case row == nil:
				out.Count("collision", "none")
			case row.Del != nil:
				out.Count("collision", "soft-deleted")
			default:
				out.Count("collision", "live")
			}
		}
		if o.Setup != "" {
			out.Count("setup_error", o.Setup)
		}
		return o
	}

	readCase := func(f string) Input {
		b, err := os.ReadFile(f)
		lib.Must(err)
		var c struct {
			Case struct {
				Input Input `json:"input"`
			} `json:"case"`
		}
		lib.Must(json.Unmarshal(b, &c))
		return c.Case.Input
	}
	if a.Replay != "" {
		add("replay", readCase(a.Replay))
		lib.Must(out.Flush())
		return
	}
	for _, f := range lib.CorpusFiles(a.Corpus) {
		add("corpus", readCase(f))
	}

	r := lib.NewRng(a.Seed)
	budget := 1500
	if a.Tier == "thorough" {
		budget = 30000
	}
	if a.N > 0 {
		budget = a.N
	}
	for n := 0; n < budget; {
		if r.Chance(1, 8) {
			// a history on the COMPOSITE-key table: keys (id, region) over {1,2} x {eu,us}, so values collide on
			// the full key and on one member only
			var cstate []Rec
			for _, k := range [][2]interface{}{{int64(1), "eu"}, {int64(1), "us"}, {int64(2), "eu"}} {
				if r.Chance(2, 5) {
					cstate = append(cstate, Rec{ID: k[0].(int64), Name: k[1].(string), Age: int64(1 + r.Intn(8)), Email: lib.Pick(r, []string{"", "a", "b"})})
				}
			}
			ctype := lib.Pick(r, []string{"", "lot"}) // with (Stock.ID) or without (Lot) a prioritized key member
			for s, steps := 0, r.Range(5, 9); s < steps && n < budget; s++ {
				in := genComposite(r, cstate, int64(10*(s+2)), ctype)
				o := add("composite-key", in)
				n++
				if o.Setup == "" {
					cstate = cstate[:0:0]
					for _, row := range o.Tbl { // a row stored with a zero-valued key member leaves the history (domain)
						if row.ID != 0 && row.Name != "" {
							cstate = append(cstate, row)
						}
					}
				}
			}
			continue
		}
		// one history: a small table, then steps on the evolving state
		var state []Rec
		for id := int64(1); id <= 4; id++ {
			if r.Chance(2, 5) {
				state = append(state, genRow(r, id))
			}
		}
		steps := r.Range(6, 12)
		for s := 0; s < steps && n < budget; s++ {
			// auxiliary state changes between steps (not cases): soft delete / hard delete a row
			if len(state) > 0 && r.Chance(1, 5) {
				i := r.Intn(len(state))
				if r.Chance(2, 3) {
					if state[i].Del == nil {
						d := int64(10*(s+1) + 5)
						state[i].Del = &d
					}
				} else {
					state = append(state[:i], state[i+1:]...)
				}
			}
			if r.Chance(7, 100) { // a stand-alone case on the table with unique e-mails (not part of the history)
				add("unique-index", genUnique(r, int64(10*(s+2))))
				n++
				continue
			}
			edge := r.Chance(15, 100)
			known := r.Chance(15, 100) // force a Session/WithContext after an Attrs/Assign
			in := genStep(r, state, int64(10*(s+2)), edge, known)
			kind := "main"
			if edge {
				kind = "edge"
			}
			if sessionAfterAttrs(in) {
				kind = "session-after-attrs"
			}
			if allNothingWhere(in) {
				kind = "update-all-nothing-where"
			}
			o := add(kind, in)
			n++
			if o.Setup == "" {
				state = o.Tbl
			}
			if in.Fin.Kind == "save_slice" && o.Err == "" {
				lastSlice = o.Rets
			} else if r.Chance(1, 3) {
				lastSlice = nil
			}
		}
	}
	out.Extra["rule"] = "a case is ONE step on a table of 0..n rows over keys 1..4 (+ rowid-assigned keys): Save(v) | Omit(subset of name,age,email,updated_at in column or field spelling).Save(v) on stored, soft-deleted, missing and zero keys with zero-valued fields | Create+OnConflict rule on a slice (Create(&slice) or CreateInBatches) | Save(&ptr) | Save(&slice of 2-4 values mixing stored keys, fresh keys and zero keys in any order; the slice handed back is compared element by element and is saved again by a later step; RETURNING dialect) | Create+OnConflict{DoNothing, DoUpdates(subset of name,age,email,updated_at,deleted_at), UpdateAll}(v), optionally conditional (OnConflict.Where = stored age < k on DoUpdates/UpdateAll, OnConflict.TargetWhere = age < k; colliding rows on both sides of the condition) | the same rules, with and without explicit Columns=[id], on a stand-alone table with a second (partial) UNIQUE index on e-mails starting with 'u' and incoming rows whose e-mail is free, their own or held by another (live or soft-deleted) row | histories (1 in 8) of Save / Save(&slice) / Create+OnConflict (DoNothing, DoUpdates, UpdateAll with the explicit (id, region) target or the DEFAULT one) / FirstOrCreate on two model types with a COMPOSITE primary key over {1,2} x {eu,us} — Stock{ID, Region} (ID is the prioritized member) and Lot{TenantID, Code} (no prioritized member): collisions on the full key and on one member only, and values with ONE zero-valued key member (0 / empty string) whose other member stored rows share (stored rows never have a zero-valued member) | the same rules on MAP values, Model(&Acct{}).Clauses(rule).Create(map | *map | []map (no-RETURNING dialect) | *[]map of 1-3 maps), every map naming its own subset of id/name/age/email/updated_at/created_at/deleted_at in column or field spelling, keys stored / soft-deleted / fresh / absent | FirstOrInit | FirstOrCreate, preceded by a chain of Unscoped() (1 chain in 4, at any position, conditions then aimed at a soft-deleted row 3 times in 4) / Where(struct|map|raw 'age > ?') / Attrs / Assign (struct by value or by pointer, map in column or field spelling, key-value; 1-2 arguments) in any order with Session / WithContext inserted at chain positions (Session with every result-neutral option: none, SkipDefaultTransaction, QueryFields, CreateBatchSize, Logger, NowFunc, DisableNestedTransaction, FullSaveAssociations, PropagateUnscoped; statement-cloning forms WithContext, Session{Context}, Session{PrepareStmt}); the last chain condition may come through Scopes(...); steps are chained into histories of 6..12 steps on the evolving table with soft/hard deletions in between; v is fresh (key 0 or 1..4) or a previously stored row edited. Session/WithContext are inserted at EVERY chain position, also after Attrs/Assign (stream session-after-attrs forces that shape, the fixed finding clone-drops-attrs). Stream update-all-nothing-where forces the shape of the fixed finding (maps naming only key/created_at under UpdateAll+Where: DO NOTHING takes no condition, /repo b84cf7b). Domain: at most one Attrs and one Assign per chain, key-value form alone, two-argument forms in column spelling, Attrs/Assign keys among name/age/email, type-correct values, one inline condition. distinct = distinct (finisher, rule+cols, collision kind, chain form, inline form, RowsAffected, writes, error, table size); non-trivial = the value's key collides with a stored row (Save/upsert; a map's key is stored) or the chain has a condition and a non-empty Attrs/Assign on a non-empty table (FirstOr*)."
	lib.Must(out.Flush())
}
