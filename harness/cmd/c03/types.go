// C03 model types: a FIXED, hand-written family of struct types covering the field kinds and
// tags of the property's grammar (no run-time code generation of Go types).  Every type has a
// unique marker column `Mark` through which the row storing a record is found.
package main

import (
	"context"
	"database/sql"
	"database/sql/driver"
	"encoding/json"
	"errors"
	"fmt"
	"reflect"
	"strconv"
	"strings"
	"time"

	"gorm.io/gorm"
	"gorm.io/gorm/schema"
)

// ---- custom Scanner/Valuer types ----

// Level: named basic type with Valuer/Scanner, stored as an integer.
type Level int8

func (l Level) Value() (driver.Value, error) { return int64(l), nil }
func (l *Level) Scan(v interface{}) error {
	switch x := v.(type) {
	case int64:
		*l = Level(x)
	case nil:
		*l = 0
	default:
		return fmt.Errorf("Level: cannot scan %T", v)
	}
	return nil
}

// Tag: struct scanner stored as text "tag:<S>".
type Tag struct{ S string }

func (t Tag) Value() (driver.Value, error) { return "tag:" + t.S, nil }
func (t *Tag) Scan(v interface{}) error {
	var s string
	switch x := v.(type) {
	case string:
		s = x
	case []byte:
		s = string(x)
	case nil:
		t.S = ""
		return nil
	default:
		return fmt.Errorf("Tag: cannot scan %T", v)
	}
	if !strings.HasPrefix(s, "tag:") {
		return errors.New("Tag: missing prefix")
	}
	t.S = s[4:]
	return nil
}

// Cents: struct scanner stored as integer.
type Cents struct{ N int64 }

func (c Cents) Value() (driver.Value, error) { return c.N, nil }
func (c *Cents) Scan(v interface{}) error {
	switch x := v.(type) {
	case int64:
		c.N = x
	case []byte:
		n, err := strconv.ParseInt(string(x), 10, 64)
		c.N = n
		return err
	case nil:
		c.N = 0
	default:
		return fmt.Errorf("Cents: cannot scan %T", v)
	}
	return nil
}

// Pts: struct scanner that names its own gorm data type (GormDataTypeInterface)
type Pts struct{ N int64 }

func (p Pts) Value() (driver.Value, error) { return p.N, nil }
func (Pts) GormDataType() string           { return "int" }
func (p *Pts) Scan(v interface{}) error {
	switch x := v.(type) {
	case int64:
		p.N = x
	case nil:
		p.N = 0
	default:
		return fmt.Errorf("Pts: cannot scan %T", v)
	}
	return nil
}

// ---- custom Scanner/Valuer types of every underlying kind, with a NON-identity encoding ----

// Price: named integer, stored x100
type Price int64

func (p Price) Value() (driver.Value, error) { return int64(p) * 100, nil }
func (p *Price) Scan(v interface{}) error {
	switch x := v.(type) {
	case int64:
		*p = Price(x / 100)
	case nil:
		*p = 0
	default:
		return fmt.Errorf("Price: cannot scan %T", v)
	}
	return nil
}

// Code: named string, stored with the prefix "enc:"
type Code string

func (c Code) Value() (driver.Value, error) { return "enc:" + string(c), nil }
func (c *Code) Scan(v interface{}) error {
	var s string
	switch x := v.(type) {
	case string:
		s = x
	case []byte:
		s = string(x)
	case nil:
		*c = ""
		return nil
	default:
		return fmt.Errorf("Code: cannot scan %T", v)
	}
	*c = Code(strings.TrimPrefix(s, "enc:"))
	return nil
}

// CSV: named slice, stored as comma separated text (nil = NULL)
type CSV []string

func (l CSV) Value() (driver.Value, error) {
	if l == nil {
		return nil, nil
	}
	return "[" + strings.Join(l, ",") + "]", nil
}
func (CSV) GormDataType() string { return "text" }
func (l *CSV) Scan(v interface{}) error {
	var s string
	switch x := v.(type) {
	case string:
		s = x
	case []byte:
		s = string(x)
	case nil:
		*l = nil
		return nil
	default:
		return fmt.Errorf("CSV: cannot scan %T", v)
	}
	s = strings.TrimSuffix(strings.TrimPrefix(s, "["), "]")
	if s == "" {
		*l = CSV{}
		return nil
	}
	*l = CSV(strings.Split(s, ","))
	return nil
}

// KV: named map, stored as JSON text (nil = NULL)
type KV map[string]string

func (m KV) Value() (driver.Value, error) {
	if m == nil {
		return nil, nil
	}
	b, err := json.Marshal(map[string]string(m))
	return string(b), err
}
func (KV) GormDataType() string { return "text" }
func (m *KV) Scan(v interface{}) error {
	var s string
	switch x := v.(type) {
	case string:
		s = x
	case []byte:
		s = string(x)
	case nil:
		*m = nil
		return nil
	default:
		return fmt.Errorf("KV: cannot scan %T", v)
	}
	out := map[string]string{}
	if err := json.Unmarshal([]byte(s), &out); err != nil {
		return err
	}
	*m = out
	return nil
}

// ---- serialized payloads ----

type Payload struct {
	A int64
	B string
	C []int64
}

// ---- T1: integers of every width, and pointers to them ----
type Ints struct {
	ID   uint   `gorm:"primaryKey"`
	Mark string `gorm:"uniqueIndex"`
	I    int
	I8   int8
	I16  int16
	I32  int32
	I64  int64
	U    uint
	U8   uint8
	U16  uint16
	U32  uint32
	U64  uint64
	PI   *int
	PI8  *int8
	PI16 *int16
	PI32 *int32
	PI64 *int64
	PU   *uint
	PU8  *uint8
	PU16 *uint16
	PU32 *uint32
	PU64 *uint64
}

// ---- T2: floats, bool, string, bytes, time and pointers ----
type Scalars struct {
	ID   int64  `gorm:"primaryKey"`
	Mark string `gorm:"uniqueIndex"`
	F32  float32
	F64  float64
	B    bool
	S    string
	Bs   []byte
	T    time.Time
	PF32 *float32
	PF64 *float64
	PB   *bool
	PS   *string
	PBs  *[]byte
	PT   *time.Time
}

// ---- T3: nullable wrappers and custom Scanner/Valuer types ----
type Nulls struct {
	ID   int32  `gorm:"primaryKey"`
	Mark string `gorm:"uniqueIndex"`
	NI64 sql.NullInt64
	NI32 sql.NullInt32
	NI16 sql.NullInt16
	NBy  sql.NullByte
	NF   sql.NullFloat64
	NB   sql.NullBool
	NS   sql.NullString
	NT   sql.NullTime
	Lv   Level
	PLv  *Level
	Tg   Tag
	PTg  *Tag
	Ce   Cents
}

// ---- T4: serializers ----
type Sers struct {
	ID   uint64            `gorm:"primaryKey"`
	Mark string            `gorm:"uniqueIndex"`
	JL   []string          `gorm:"serializer:json"`
	JM   map[string]int64  `gorm:"serializer:json"`
	JS   Payload           `gorm:"serializer:json"`
	JP   *Payload          `gorm:"serializer:json"`
	GS   Payload           `gorm:"serializer:gob"`
	GM   map[string]string `gorm:"serializer:gob"`
	UT   int64             `gorm:"serializer:unixtime;type:datetime"`
	UT32 int32             `gorm:"serializer:unixtime;type:datetime"`
	PUT  *int64            `gorm:"serializer:unixtime;type:datetime"`
}

// ---- T5: embedded structs, prefixes, renamed columns ----
type Dims struct {
	W int64
	H int64 `gorm:"column:hgt"`
}
type Author struct {
	Name  string
	Email *string
}
type Deep struct {
	Level1 int16
	Inner  Dims `gorm:"embedded;embeddedPrefix:in_"`
}
type Embs struct {
	ID       uint16  `gorm:"primaryKey"`
	Mark     string  `gorm:"uniqueIndex"`
	Dims             // anonymous, no prefix: columns w, hgt
	Box      Dims    `gorm:"embedded;embeddedPrefix:box_"`
	Auth     Author  `gorm:"embedded;embeddedPrefix:auth_"`
	PAuth    *Author `gorm:"embedded;embeddedPrefix:pauth_"`
	Dp       Deep    `gorm:"embedded;embeddedPrefix:dp_"`
	Ren      string  `gorm:"column:renamed_col"`
	HTTPCode int32
}

// ---- T6: defaults and tracked times ----
type Defs struct {
	ID        int64   `gorm:"primaryKey"`
	Mark      string  `gorm:"uniqueIndex"`
	DI        int64   `gorm:"default:7"`
	DU        uint8   `gorm:"default:200"`
	DS        string  `gorm:"default:'it''s'"`
	DS2       string  `gorm:"default:plain"`
	DB        bool    `gorm:"default:true"`
	DF        float64 `gorm:"default:1.5"`
	GenI      int64   `gorm:"default:(abs(-42))"`
	GenS      string  `gorm:"default:(lower('GEN'))"`
	NulS      *string `gorm:"default:null"`
	CreatedAt time.Time
	UpdatedAt time.Time
	CNano     int64  `gorm:"autoCreateTime:nano"`
	CMilli    int64  `gorm:"autoCreateTime:milli"`
	CSec      int64  `gorm:"autoCreateTime"`
	UNano     int64  `gorm:"autoUpdateTime:nano"`
	UMilli    uint64 `gorm:"autoUpdateTime:milli"`
	USec      int32  `gorm:"autoUpdateTime"`
}

// ---- T7: composite primary key without auto-increment ----
type Comp struct {
	Code string `gorm:"primaryKey"`
	Seq  int32  `gorm:"primaryKey;autoIncrement:false"`
	Mark string `gorm:"uniqueIndex"`
	V    int64
}

// ---- T8: auto-increment key with another name ----
type Keyed struct {
	Key  int64  `gorm:"primaryKey;column:k"`
	Mark string `gorm:"uniqueIndex"`
	V    string
}

// ---- T9: string primary key (never back-filled) ----
type StrKey struct {
	Name string `gorm:"primaryKey"`
	Mark string `gorm:"uniqueIndex"`
	V    int64
}

// ---- T10: unixtime serializer on an unsigned field (panicked before repo commit f5d72d2) ----
type UnixU struct {
	ID   uint   `gorm:"primaryKey"`
	Mark string `gorm:"uniqueIndex"`
	UT   uint   `gorm:"serializer:unixtime;type:datetime"`
}

// ---- T12: composite key with a member named ID (the prioritized primary field), rows share it ----
type Loc struct {
	ID     int64  `gorm:"primaryKey;autoIncrement:false"`
	Locale string `gorm:"primaryKey"`
	Mark   string `gorm:"uniqueIndex"`
	Title  string
	Hits   int64
}

// table names given by the model (schema.Tabler / schema.TablerWithNamer)
func (Loc) TableName() string               { return "loc_table" }
func (Uid) TableName(n schema.Namer) string { return n.TableName("UidRow") }

// ---- T13: the key is the field named ID, stored under another column name, no primaryKey tag ----
type Uid struct {
	ID   uint   `gorm:"column:uid"`
	Mark string `gorm:"uniqueIndex"`
	V    string
}

// ---- T14: pointer-typed tracked times, left nil by the caller ----
type PTimes struct {
	ID        uint   `gorm:"primaryKey"`
	Mark      string `gorm:"uniqueIndex"`
	CreatedAt *time.Time
	UpdatedAt *time.Time
	Seen      *time.Time `gorm:"autoCreateTime"`
	Touched   *time.Time `gorm:"autoUpdateTime"`
	N         int64
}

// ---- T15: gorm.Model (embedded key, tracked times, soft delete) and an embedded struct with an
// untagged ID field ----
type Meta struct {
	ID   int64
	Note string
}
type Modeled struct {
	gorm.Model
	Mark  string `gorm:"uniqueIndex"`
	Inner Meta   `gorm:"embedded;embeddedPrefix:in_"`
	V     int64
}

// Enc: a field type that is its own serializer (schema.SerializerInterface); stored as JSON text
type Enc string

func (e *Enc) Scan(ctx context.Context, field *schema.Field, dst reflect.Value, dbValue interface{}) error {
	var s string
	switch v := dbValue.(type) {
	case nil:
		*e = ""
		return nil
	case string:
		s = v
	case []byte:
		s = string(v)
	default:
		return fmt.Errorf("Enc: cannot scan %T", dbValue)
	}
	var out string
	if err := json.Unmarshal([]byte(s), &out); err != nil {
		return err
	}
	*e = Enc(out)
	return nil
}
func (e *Enc) Value(ctx context.Context, field *schema.Field, dst reflect.Value, fieldValue interface{}) (interface{}, error) {
	var s string
	switch v := fieldValue.(type) {
	case Enc:
		s = string(v)
	case *Enc:
		if v != nil {
			s = string(*v)
		}
	}
	b, err := json.Marshal(s)
	return string(b), err
}

// ---- T16: defaults on pointer / custom fields, a time default, precision and type tags, a
// self-serializing field, unixtime on a pointer to an unsigned integer ----
type Defs2 struct {
	ID   uint      `gorm:"primaryKey"`
	Mark string    `gorm:"uniqueIndex"`
	PDI  *int64    `gorm:"default:9"`
	PDS  *string   `gorm:"default:'p'"`
	PDB  *bool     `gorm:"default:true"`
	DCe  Cents     `gorm:"default:5"`
	DT   time.Time `gorm:"default:2021-02-03 04:05:06"`
	Amt  float64   `gorm:"precision:10;scale:2"`
	TS   string    `gorm:"type:string;size:40"`
	TI   int32     `gorm:"type:int"`
	E    Enc
	P    Pts
	PUU  *uint32 `gorm:"serializer:unixtime;type:datetime"`
	HexV int64   `gorm:"default:0x10"`
}

// ---- T17 / T18: keys that are NOT generated by the database (string key; composite key) with
// database-side default expressions on other columns ----
type SDef struct {
	Code string `gorm:"primaryKey"`
	Mark string `gorm:"uniqueIndex"`
	GenI int64  `gorm:"default:(abs(-42))"`
	GenS string `gorm:"default:(lower('GEN'))"`
	V    int64
}
type CDef struct {
	Code string `gorm:"primaryKey"`
	Seq  int32  `gorm:"primaryKey;autoIncrement:false"`
	Mark string `gorm:"uniqueIndex"`
	GenL int64  `gorm:"default:(length('abc'))"`
	V    string
}

// ---- T19: a struct of value-typed fields of every kind, bool included, embedded by pointer (nil and
// non-nil at Create) and by value ----
type Flags struct {
	On  bool
	Lvl int8
	N   int64
	U   uint16
	F   float64
	S   string
	T   time.Time
	NS  sql.NullString
	Tg  Tag
}
type PEmb struct {
	ID     uint   `gorm:"primaryKey"`
	Mark   string `gorm:"uniqueIndex"`
	Opt    *Flags `gorm:"embedded;embeddedPrefix:opt_"`
	*Flags        // anonymous pointer embedding, no prefix
	Val    Flags  `gorm:"embedded;embeddedPrefix:val_"`
	V      int64
}

// ---- T20: named serializers on scalar numeric fields and pointers to them ----
type NumSer struct {
	ID   uint     `gorm:"primaryKey"`
	Mark string   `gorm:"uniqueIndex"`
	JI   int      `gorm:"serializer:json"`
	JI8  int8     `gorm:"serializer:json"`
	JU   uint32   `gorm:"serializer:json"`
	JF   float64  `gorm:"serializer:json"`
	JPI  *int64   `gorm:"serializer:json"`
	JPF  *float64 `gorm:"serializer:json"`
	JS   string   `gorm:"serializer:json"`
}

// ---- T21: custom types of every underlying kind ----
type Customs struct {
	ID   uint   `gorm:"primaryKey"`
	Mark string `gorm:"uniqueIndex"`
	P    Price
	PP   *Price
	C    Code
	PC   *Code
	L    CSV
	M    KV
	Lv   Level
	Tg   Tag
}

// ---- T11: the same struct embedded twice with different prefixes, inner `column:` rename ----
type Addr struct {
	City string
	Zip  string   `gorm:"column:postcode"`
	Lat  *float64 `gorm:"column:lat"`
}
type Twice struct {
	ID   uint   `gorm:"primaryKey"`
	Mark string `gorm:"uniqueIndex"`
	From Addr   `gorm:"embedded;embeddedPrefix:from_"`
	To   Addr   `gorm:"embedded;embeddedPrefix:to_"`
	Alt  *Addr  `gorm:"embedded;embeddedPrefix:alt_"`
	Zip  string `gorm:"column:own_postcode"`
}

// ---- T22: several fields mapped to ONE column.  Plain structs (no methods, so that they can also be
// embedded anonymously into reflect.StructOf types) whose fields collide with fields of the model ----
type BaseA struct {
	Title string
	Note  string
	Rank  int64
}
type BaseB struct {
	Title string `gorm:"column:headline"`
	Qty   int32
	Note  string
}
type BaseK struct { // carries the key, gorm.Model style
	ID    uint `gorm:"primaryKey"`
	Title string
	Note  string
}
type WrapA struct { // anonymous embedding twice: leaves at depth 3
	BaseA
	Depth int16
}

// the embedded struct FIRST, the model's own fields after it
type Shadow struct {
	BaseK        // anonymous: id, title, note
	Mark  string `gorm:"uniqueIndex"`
	Title string // shadows BaseK.Title (Go's own promotion rule)
	Memo  string `gorm:"column:note"` // another Go name, the same column as BaseK.Note
	In    BaseA  `gorm:"embedded"`    // title, note once more at depth 2 (lose), rank (its own)
	V     int64
}

// the model's own fields first; the same struct anonymously at depth 2 and, through WrapA, at depth 3
type Shadow2 struct {
	ID    int64  `gorm:"primaryKey"`
	Mark  string `gorm:"uniqueIndex"`
	Rank  int32  // another Go type than BaseA.Rank
	WrapA        // depth 3: title, note, rank; depth 2: depth
	*BaseB       // depth 2, through a pointer: headline, qty, note (beats WrapA.BaseA.Note)
	Title string // declared last, depth 1: beats WrapA.BaseA.Title
}

// registry (slices and pointers are built by reflection from the element type)
var registry = []struct {
	Name string
	T    reflect.Type
}{
	{"Ints", reflect.TypeOf(Ints{})}, {"Scalars", reflect.TypeOf(Scalars{})}, {"Nulls", reflect.TypeOf(Nulls{})},
	{"Sers", reflect.TypeOf(Sers{})}, {"Embs", reflect.TypeOf(Embs{})}, {"Defs", reflect.TypeOf(Defs{})},
	{"Comp", reflect.TypeOf(Comp{})}, {"Keyed", reflect.TypeOf(Keyed{})}, {"StrKey", reflect.TypeOf(StrKey{})},
	{"UnixU", reflect.TypeOf(UnixU{})}, {"Twice", reflect.TypeOf(Twice{})}, {"Loc", reflect.TypeOf(Loc{})}, {"Uid", reflect.TypeOf(Uid{})}, {"PTimes", reflect.TypeOf(PTimes{})}, {"Modeled", reflect.TypeOf(Modeled{})}, {"Defs2", reflect.TypeOf(Defs2{})}, {"SDef", reflect.TypeOf(SDef{})}, {"CDef", reflect.TypeOf(CDef{})}, {"PEmb", reflect.TypeOf(PEmb{})}, {"NumSer", reflect.TypeOf(NumSer{})}, {"Customs", reflect.TypeOf(Customs{})},
	{"Shadow", reflect.TypeOf(Shadow{})}, {"Shadow2", reflect.TypeOf(Shadow2{})},
}

func typeByName(n string) reflect.Type {
	if t, ok := genTypes[n]; ok {
		return t
	}
	for _, e := range registry {
		if e.Name == n {
			return e.T
		}
	}
	return nil
}
