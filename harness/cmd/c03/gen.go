// Generators of C03 inputs (one PRNG; every case is stored fully expanded).
package main

import (
	"fmt"
	"math"
	"reflect"
	"strings"
	"time"

	"verifharness/lib"
)

var hostile = []string{"", "a", "it's", `say "hi"`, `back\slash`, "semi;colon -- x", "q? @name $1", "héllo wörld ✓", "日本語テキスト",
	"123", " 42", "1e3", "NULL", "0", "tab\tnl\nend", "emoji 🙂 ok", "%_like", "x''y", strings.Repeat("long ", 60)}

func genInt(r *lib.Rng, w int, edge bool) int64 {
	min, max := int64(math.MinInt64), int64(math.MaxInt64)
	switch w {
	case 8:
		min, max = math.MinInt8, math.MaxInt8
	case 16:
		min, max = math.MinInt16, math.MaxInt16
	case 32:
		min, max = math.MinInt32, math.MaxInt32
	}
	switch r.Intn(8) {
	case 0:
		return min
	case 1:
		return max
	case 2:
		return 0
	case 3:
		return -1
	case 4:
		return 1
	}
	span := uint64(max) - uint64(min)
	if span == math.MaxUint64 {
		return int64(r.U64())
	}
	return min + int64(r.U64()%(span+1))
}

// genUint: main stream stays below 2^63 (SQLite integers are signed 64 bit: DESIGN 8.0 C03);
// `over` asks for a value with the high bit set (error stream).
func genUint(r *lib.Rng, w int, over bool) uint64 {
	max := uint64(math.MaxInt64)
	switch w {
	case 8:
		max = math.MaxUint8
	case 16:
		max = math.MaxUint16
	case 32:
		max = math.MaxUint32
	}
	if over && w == 64 {
		return lib.Pick(r, []uint64{1 << 63, math.MaxUint64, 1<<63 + 12345})
	}
	switch r.Intn(6) {
	case 0:
		return 0
	case 1:
		return max
	case 2:
		return 1
	}
	return r.U64() % (max + 1)
}

func genFloat(r *lib.Rng, w int) float64 {
	var f float64
	switch r.Intn(10) {
	case 0:
		f = 0
	case 1:
		f = 1.5
	case 2:
		f = -2.25
	case 3:
		f = math.MaxFloat64
	case 4:
		f = math.SmallestNonzeroFloat64
	case 5:
		f = 1e100
	case 6:
		f = 3 // integral value in a REAL column
	case 7:
		f = 0.1
	default:
		f = float64(int64(r.U64())) / 1024.0
	}
	if w == 32 {
		if math.Abs(f) > math.MaxFloat32 {
			f = math.MaxFloat32
		}
		f = float64(float32(f))
	}
	return f
}

func genTime(r *lib.Rng) time.Time {
	switch r.Intn(9) {
	case 0:
		return time.Time{}
	case 1:
		return time.Unix(0, 0).UTC()
	case 2:
		return time.Unix(1700000000, 123456789).UTC()
	case 3:
		return time.Date(9999, 12, 31, 23, 59, 59, 999999999, time.UTC)
	case 4:
		return time.Date(1969, 7, 20, 20, 17, 40, 1, time.FixedZone("x", -4*3600))
	case 5:
		return time.Date(2024, 2, 29, 12, 0, 0, 500, time.FixedZone("ist", 5*3600+1800))
	case 6:
		return time.Date(1, 1, 2, 0, 0, 0, 0, time.UTC)
	}
	return time.Unix(int64(r.U64()%4102444800), int64(r.U64()%1000000000)).UTC()
}

func genBytes(r *lib.Rng) []byte {
	switch r.Intn(6) {
	case 0:
		return nil
	case 1:
		return []byte{}
	case 2:
		return []byte{0}
	case 3:
		return []byte{0xff, 0x00, 0x27, 0x22, 0x5c}
	}
	b := make([]byte, r.Range(1, 12))
	for i := range b {
		b[i] = byte(r.U64())
	}
	return b
}

// genVal: a representable canonical value for a column (pk / mark / default handling is done by genRec).
func genVal(r *lib.Rng, f *FDesc, k Kind, t reflect.Type, over bool) Val {
	switch k.K {
	case "int":
		return vInt(genInt(r, k.W, false))
	case "uint":
		return vUint(genUint(r, k.W, over))
	case "bool":
		return vBool(r.Bool())
	case "str":
		return vStr(lib.Pick(r, hostile))
	case "bytes":
		b := genBytes(r)
		if b == nil {
			return vNil
		}
		return vBytes(b)
	case "float":
		return vFloat(genFloat(r, k.W))
	case "time":
		return vTime(genTime(r))
	case "ptr", "null":
		if r.Chance(1, 3) {
			return vNil
		}
		et := t
		if k.K == "ptr" {
			et = t.Elem()
		} else {
			et = t.Field(0).Type
		}
		for {
			in := genVal(r, f, *k.Of, et, over)
			if in.T != "nil" { // some(nil) (pointer to a nil []byte) is stored as NULL: not representable
				return vSome(in)
			}
		}
	case "custom":
		switch t {
		case reflect.TypeOf(Tag{}):
			return vStr("tag:" + lib.Pick(r, hostile))
		case reflect.TypeOf(Price(0)):
			return vInt(100 * int64(r.Range(-50000, 50000)))
		case reflect.TypeOf(Code("")):
			return vStr("enc:" + lib.Pick(r, hostile))
		case reflect.TypeOf(CSV{}):
			switch r.Intn(4) {
			case 0:
				return vNil
			case 1:
				return vSome(vStr("[]"))
			}
			return vSome(vStr("[" + lib.Pick(r, []string{"a", "b c", "é"}) + "," + lib.Pick(r, []string{"x", "it's", "q\"q"}) + "]"))
		case reflect.TypeOf(KV{}):
			switch r.Intn(4) {
			case 0:
				return vNil
			case 1:
				return vSome(vStr("{}"))
			}
			return vSome(vStr(canonJSON(map[string]string{"k": lib.Pick(r, hostile), lib.Pick(r, []string{"a", "b'"}): "v"})))
		case reflect.TypeOf(Level(0)):
			return vInt(genInt(r, 8, false))
		default:
			return vInt(genInt(r, 64, false))
		}
	case "ser":
		if k.Ser == "unix" {
			// whole seconds (the serializer stores a time built from the integer)
			if k.Of.K == "ptr" {
				if r.Chance(1, 3) {
					return vNil
				}
				if k.Of.Of.K == "uint" {
					return vSome(vInt(genUnixSec(r, 32) & 0x7fffffff))
				}
				return vSome(vInt(genUnixSec(r, k.Of.Of.W)))
			}
			if k.Of.K == "uint" {
				return vUint(uint64(genUnixSec(r, 32)) & 0x7fffffff)
			}
			return vInt(genUnixSec(r, k.Of.W))
		}
		return canon(k, reflect.ValueOf(genComposite(r, t, k.Ser)))
	}
	panic("genVal " + k.K)
}

func genUnixSec(r *lib.Rng, w int) int64 {
	if w == 32 {
		return int64(int32(genInt(r, 32, false)))
	}
	switch r.Intn(5) {
	case 0:
		return 0
	case 1:
		return 253402300799 // 9999-12-31T23:59:59Z
	case 2:
		return -62135596800 + 86400 // year 1
	case 3:
		return -1
	}
	return int64(r.U64() % 4102444800)
}

func genComposite(r *lib.Rng, t reflect.Type, ser string) interface{} {
	pl := func() Payload {
		p := Payload{A: genInt(r, 64, false), B: lib.Pick(r, hostile)}
		for i := r.Intn(3); i > 0; i-- {
			p.C = append(p.C, genInt(r, 64, false))
		}
		return p
	}
	switch t.Kind() {
	case reflect.Int, reflect.Int8, reflect.Int64:
		v := reflect.New(t).Elem()
		w := 64
		if t.Kind() == reflect.Int8 {
			w = 8
		}
		v.SetInt(genInt(r, w, false))
		return v.Interface()
	case reflect.Uint32:
		return uint32(genUint(r, 32, false))
	case reflect.Float64:
		return genFloat(r, 64)
	case reflect.Bool:
		return r.Bool()
	case reflect.String:
		if t == reflect.TypeOf("") {
			return lib.Pick(r, hostile)
		}
	case reflect.Ptr:
		switch t.Elem().Kind() {
		case reflect.Int64:
			if r.Chance(1, 3) {
				return (*int64)(nil)
			}
			x := genInt(r, 64, false)
			return &x
		case reflect.Float64:
			if r.Chance(1, 3) {
				return (*float64)(nil)
			}
			x := genFloat(r, 64)
			return &x
		}
	}
	switch t {
	case reflect.TypeOf([]string{}):
		switch r.Intn(4) {
		case 0:
			return []string(nil)
		case 1:
			if ser == "json" {
				return []string{}
			}
		}
		return []string{lib.Pick(r, hostile), lib.Pick(r, hostile)}
	case reflect.TypeOf(map[string]int64{}):
		switch r.Intn(4) {
		case 0:
			return map[string]int64(nil)
		case 1:
			return map[string]int64{}
		}
		return map[string]int64{lib.Pick(r, hostile): genInt(r, 64, false), "k": 1}
	case reflect.TypeOf(map[string]string{}):
		if r.Chance(1, 4) {
			return map[string]string(nil)
		}
		return map[string]string{"a": lib.Pick(r, hostile), lib.Pick(r, hostile): "v"}
	case reflect.TypeOf(Enc("")):
		return Enc(lib.Pick(r, hostile))
	case reflect.TypeOf(Payload{}):
		if r.Chance(1, 5) {
			return Payload{}
		}
		return pl()
	case reflect.TypeOf(&Payload{}):
		if r.Chance(1, 3) {
			return (*Payload)(nil)
		}
		p := pl()
		return &p
	}
	panic("genComposite " + t.String())
}

// GenOpt steers genInput.
type GenOpt struct {
	Type       string
	NoRet      bool
	Op         string
	N          int
	Edge       bool
	Spec       []GField
	Naming     string
	Fwd        bool
	QF         bool
	CBS        int
	Over       bool // error stream: one uint64 with the high bit set
	AllowKnown bool
}

var mainTypes = []string{"Shadow", "Shadow", "Shadow2", "Shadow2", "Ints", "Scalars", "Nulls", "Sers", "Embs", "Defs", "Comp", "Keyed", "StrKey", "UnixU", "Twice", "Loc", "Loc", "Uid", "PTimes", "PTimes", "Modeled", "Modeled", "Defs2", "Defs2", "SDef", "SDef", "CDef", "PEmb", "PEmb", "PEmb", "NumSer", "NumSer", "Customs", "Customs", "Customs"}
var mapTypes = []string{"Ints", "Scalars", "Keyed", "Comp", "Embs", "Twice", "Loc", "Uid"}

func genInput(r *lib.Rng, id int, g GenOpt) Input {
	if isGen(g.Type) {
		registerGen(g.Type, g.Spec)
	}
	curNaming = g.Naming
	d := descOf(g.Type)
	if caseClash(d) {
		// SQLite column names are case-insensitive (environment): a naming strategy under which two
		// columns of the model differ only by case is not usable with this model type
		g.Naming, curNaming = "", ""
		d = descOf(g.Type)
	}
	in := Input{Type: g.Type, Spec: g.Spec, Naming: g.Naming, QF: g.QF, CBS: g.CBS, Fwd: g.Fwd, NoRet: g.NoRet, Op: g.Op, Pre: lib.Pick(r, []int{0, 0, 3, 8})}
	if g.Op == "batches" {
		in.BS = r.Range(1, 4)
		if g.Edge {
			in.BS = lib.Pick(r, []int{1, g.N, g.N + 1, 100})
			if in.BS < 1 {
				in.BS = 1
			}
		}
	}
	isMap := strings.HasPrefix(g.Op, "map")
	in.NoMMap = hasSer(d) && !g.AllowKnown
	if isMap {
		in.MapKeys = lib.Pick(r, []string{"col", "col", "name"})
		if g.Type == "Embs" || g.Type == "Twice" {
			in.MapKeys = "col" // Go field names repeat across embedded structs
		}
	}
	pk := d.pkAuto()
	// preset keys: none / all / mixed (mixed only where it is not a known finding)
	keyMode := lib.Pick(r, []string{"zero", "zero", "zero", "all", "mixed"})
	if keyMode == "mixed" && g.NoRet && !g.AllowKnown && (g.Op == "slice" || g.Op == "ptrslice" || g.Op == "batches") {
		keyMode = "zero"
	}
	if isMap {
		keyMode = lib.Pick(r, []string{"zero", "zero", "all"})
		if g.NoRet && !g.AllowKnown && g.Op != "map" && g.Op != "mapptr" {
			keyMode = "zero" // []map with preset keys and no RETURNING: known finding
		}
	}
	// database-generated defaults: the SQLite dialector renders DEFAULT for a record without a
	// value when another record of the same statement has one, which SQLite rejects (environment,
	// outside /repo): all-zero or all-set per case.  Without RETURNING zero values are a known finding.
	dbdefZero := r.Bool()
	if g.NoRet && !g.AllowKnown {
		dbdefZero = false
	}
	// nil pointer-embedded structs, decided per embedded struct
	embNil := map[string]bool{}
	for _, f := range d.Fields {
		if f.EmbRoot != "" {
			if _, ok := embNil[f.EmbRoot]; !ok {
				embNil[f.EmbRoot] = r.Chance(2, 5) && (!f.Unsafe || g.AllowKnown)
			}
		}
	}
	ragged := isMap && r.Chance(2, 3)
	overAt := -1
	if g.Over {
		overAt = r.Intn(g.N)
	}
	used := map[int64]bool{}
	for i := 0; i < g.N; i++ {
		rec := make([]Val, len(d.Fields))
		for j, f := range d.Fields {
			switch {
			case len(f.Path) == 1 && f.Path[0] == "Mark":
				rec[j] = vStr(fmt.Sprintf("m%d-%d-%s", id, i, lib.Pick(r, []string{"", "'", "✓", `"`, "x y"})))
			case pk != nil && f == pk:
				preset := keyMode == "all" || (keyMode == "mixed" && r.Bool())
				if preset {
					k := int64(1000 + r.Intn(5000))
					for used[k] {
						k++
					}
					used[k] = true
					rec[j] = vInt(k)
				} else {
					rec[j] = vInt(0)
				}
				if isMap && rec[j].Z == "0" {
					rec[j] = vAbsent
				}
			case f.HPK && pk == nil && (f.Kind.K == "int" || f.Kind.K == "uint") && hasStrKey(d):
				// member of a composite key: few values, so that rows share it
				rec[j] = vInt(int64(1 + r.Intn(2)))
			case f.HPK && f.Kind.K == "str":
				rec[j] = vStr(fmt.Sprintf("k%d-%d%s", id, i, lib.Pick(r, []string{"", "'", "é"})))
			case f.Path[len(f.Path)-1] == "DeletedAt":
				rec[j] = vNil // not soft-deleted
			case f.EmbPtr && embNil[f.EmbRoot]:
				rec[j] = vAbsent
			case f.DbDef != nil:
				if dbdefZero {
					rec[j] = zeroVal(f.Kind)
				} else {
					rec[j] = nonZero(r, f)
				}
			case f.DefI != nil || f.CTime > 0 || f.UTime > 0:
				if r.Chance(1, 2) {
					rec[j] = zeroVal(f.Kind)
				} else {
					rec[j] = nonZero(r, f)
				}
			default:
				over := i == overAt && f.Kind.K == "uint" && f.Kind.W == 64 && !f.HPK
				rec[j] = genVal(r, f, f.Kind, f.goType, over)
				if isMap && f.Kind.K == "ser" {
					rec[j] = vAbsent
				}
				// ragged key sets: a map may lack any non-key column (then NULL / omitted)
				if isMap && ragged && !f.HPK && r.Chance(1, 3) {
					rec[j] = vAbsent
				}
			}
		}
		in.Recs = append(in.Recs, rec)
		x := []Val{}
		if !isMap {
			for _, f := range d.Extra {
				x = append(x, genVal(r, f, f.Kind, f.goType, false))
			}
		}
		in.XRecs = append(in.XRecs, x)
	}
	return in
}

func caseClash(d *Desc) bool {
	seen := map[string]bool{}
	for _, f := range d.Fields {
		l := strings.ToLower(f.Col)
		if seen[l] {
			return true
		}
		seen[l] = true
	}
	return false
}

func zeroVal(k Kind) Val {
	switch k.K {
	case "int", "uint":
		return vInt(0)
	case "bool":
		return vBool(false)
	case "str":
		return vStr("")
	case "float":
		return vFloat(0)
	case "time":
		return Val{T: "opq", Z: zeroNs}
	case "custom":
		return zeroVal(*k.Of)
	}
	return vNil
}

func nonZero(r *lib.Rng, f *FDesc) Val {
	for {
		v := genVal(r, f, f.Kind, f.goType, false)
		if !v.eq(zeroVal(f.Kind)) {
			if f.Kind.K == "int" && (f.CTime > 0 || f.UTime > 0) && strings.HasPrefix(v.Z, "-") {
				continue
			}
			return v
		}
	}
}

func hasStrKey(d *Desc) bool {
	for _, f := range d.Fields {
		if f.HPK && f.Kind.K == "str" {
			return true
		}
	}
	return false
}

func hasSer(d *Desc) bool {
	for _, f := range d.Fields {
		if f.Kind.K == "ser" {
			return true
		}
	}
	return false
}

// sig: known-finding signature computed from the INPUT only.
func sig(in Input) string {
	if isGen(in.Type) {
		registerGen(in.Type, in.Spec)
	}
	curNaming = in.Naming
	d := descOf(in.Type)
	for j, f := range d.Fields {
		if f.Unsafe && !strings.HasPrefix(in.Op, "map") {
			for _, r := range in.Recs {
				if r[j].T == "absent" {
					return "nil-embedded-pointer-with-pointer-field-read-back-non-nil"
				}
			}
		}
	}
	if hasSer(d) && !in.NoMMap {
		return "map-read-through-model-with-serializer-field"
	}
	if !in.NoRet && in.Op == "maps" {
		return "returning-create-from-slice-of-maps-by-value"
	}
	if !in.NoRet && in.Op == "mapsptr" {
		return "returning-create-from-slice-of-maps-appends"
	}
	if in.NoRet {
		for j, f := range d.Fields {
			if f.DbDef == nil || f.DbDef.T == "nil" {
				continue
			}
			for _, r := range in.Recs {
				if r[j].eq(zeroVal(f.Kind)) {
					return "no-returning-db-default-not-loaded"
				}
			}
		}
		if pk := d.pkAuto(); pk != nil && (in.Op == "maps" || in.Op == "mapsptr") {
			for j, f := range d.Fields {
				if f == pk {
					for _, r := range in.Recs {
						if r[j].T == "int" && r[j].Z != "0" {
							return "no-returning-slice-of-maps-with-preset-keys"
						}
					}
				}
			}
		}
		if pk := d.pkAuto(); pk != nil && (in.Op == "slice" || in.Op == "ptrslice" || in.Op == "batches") {
			j := 0
			for k, f := range d.Fields {
				if f == pk {
					j = k
				}
			}
			bs := len(in.Recs)
			if in.Op == "batches" {
				bs = in.BS
			} else if in.CBS > 0 {
				bs = in.CBS
			}
			for s := 0; s < len(in.Recs); s += bs {
				zero, set := false, false
				for i := s; i < s+bs && i < len(in.Recs); i++ {
					if in.Recs[i][j].Z == "0" {
						zero = true
					} else {
						set = true
					}
				}
				if zero && set {
					return "no-returning-slice-mixing-preset-and-zero-keys"
				}
			}
		}
	}
	return ""
}

func shape(in Input) string {
	curNaming = in.Naming
	d := descOf(in.Type)
	var sb strings.Builder
	tn := in.Type
	if isGen(tn) {
		tn = "gen"
		for _, g := range in.Spec {
			tn += "," + g.Go + ":" + g.Tag
			if g.Anon {
				tn += ":anon"
			} else if g.Name[0] != 'F' {
				tn += ":" + g.Name
			}
		}
	}
	fmt.Fprintf(&sb, "%s|%s|fwd%v|qf%v|cbs%d|noret=%v|%s%d|pre%d|n%d|%s|", tn, in.Naming, in.Fwd, in.QF, in.CBS, in.NoRet, in.Op, in.BS, in.Pre, len(in.Recs), in.MapKeys)
	// per record: which columns are zero / nil / absent (the value classes the code branches on)
	for _, r := range in.Recs {
		for j, f := range d.Fields {
			switch {
			case r[j].T == "absent":
				sb.WriteByte('a')
			case r[j].T == "nil":
				sb.WriteByte('n')
			case r[j].eq(zeroVal(f.Kind)):
				sb.WriteByte('0')
			default:
				sb.WriteByte('v')
			}
		}
		sb.WriteByte('/')
	}
	return sb.String()
}
