// c03: what Create stores is what queries load back, for every field kind and schema.
// Runs generated records of a fixed family of model types through real gorm + SQLite (with and
// without RETURNING) and writes, per case, the input as executed and everything observed, as
// Gallina terms for C03_Check.check_case.
package main

import (
	"encoding/json"
	"flag"
	"fmt"
	"os"

	"verifharness/lib"
)

func gRec(vs []Val) string    { return lib.ListOf(vs, gVal) }
func gRecs(rs [][]Val) string { return lib.ListOf(rs, gRec) }
func gRow(vs []Val) string    { return lib.ListOf(vs, gDb) }
func gRows(rs [][]Val) string { return lib.ListOf(rs, gRow) }

func gOp(in Input) string {
	switch in.Op {
	case "struct":
		return "OpStruct"
	case "slice", "ptrslice":
		if in.CBS > 0 { // Config.CreateBatchSize turns Create(slice) into CreateInBatches
			return lib.App("OpBatches", lib.Z(int64(in.CBS)))
		}
		if in.Op == "slice" {
			return "OpSlice"
		}
		return "OpPtrSlice"
	case "batches":
		return lib.App("OpBatches", lib.Z(int64(in.BS)))
	case "map", "mapptr":
		return "OpMap"
	case "maps":
		return "OpMaps"
	case "mapsptr":
		return "OpMapsPtr"
	}
	panic("gOp")
}

func xrecs(in Input) [][]Val {
	out := make([][]Val, len(in.Recs))
	for i := range out {
		out[i] = xrec(in, i)
		if out[i] == nil {
			out[i] = []Val{}
		}
	}
	return out
}

func term(in Input, o Obs) string {
	curNaming = in.Naming
	d := descOf(in.Type)
	dbn := lib.ListOf(d.DBNames, func(x []string) string {
		return lib.Pair(lib.Str(x[0]), lib.ListOf(x[1:], lib.Str))
	})
	return lib.App("mk_case",
		lib.ListOf(d.Tree, gNode), dbn, lib.ListOf(d.Fields, gFDesc), lib.ListOf(d.Fields, func(f *FDesc) string { return lib.Bool(f.HPK) }), lib.Str(d.Prio), lib.Bool(d.PrioHasDef),
		lib.Bool(!in.NoRet), lib.Bool(!in.Fwd), gOp(in), lib.Z(o.Base), gZ(timeNs(nowPinned)),
		gRecs(in.Recs), lib.ListOf(d.Extra, func(f *FDesc) string { return gKind(f.Kind) }),
		lib.ListOf(d.Extra, func(f *FDesc) string { return lib.ListOf(f.Path, lib.Str) }), gRecs(o.XBefore),
		lib.Bool(o.Err != ""), gRecs(o.After), gRows(o.Rows), lib.Z(o.RowCount),
		gRecs(o.Find), gRecs(o.XFind), gRecs(o.First), gRecs(o.Take), gRecs(o.ByKey), gRows(o.MMap), gRows(o.TMap), lib.Z(o.NMaps),
		lib.Z(int64(len(o.ReadErrs))))
}

// emitCorpus writes the replay inputs of the known findings (developer aid: -emit-corpus dir).
func emitCorpus(dir string) {
	r := lib.NewRng(7)
	put := func(name, note string, in Input) {
		b, _ := json.MarshalIndent(map[string]interface{}{"note": note, "case": map[string]interface{}{"input": in}}, "", " ")
		lib.Must(os.WriteFile(dir+"/"+name+".json", b, 0o644))
	}
	setKey := func(in *Input, keys ...int64) {
		d := descOf(in.Type)
		for j, f := range d.Fields {
			if f == d.pkAuto() {
				for i, k := range keys {
					if k < 0 {
						in.Recs[i][j] = vAbsent
					} else {
						in.Recs[i][j] = vInt(k)
					}
				}
			}
		}
	}
	in := genInput(r, 9001, GenOpt{Type: "Keyed", NoRet: true, Op: "slice", N: 3, AllowKnown: true})
	in.Pre = 0
	setKey(&in, 0, 10, 0)
	put("lastid_mixed_keys", "Create(&[]T{{}, {Key:10}, {}}) without RETURNING: record 0 receives key 10 (row 1 stores it)", in)
	in = genInput(r, 9002, GenOpt{Type: "Defs", NoRet: true, Op: "struct", N: 1, AllowKnown: true})
	d := descOf("Defs")
	for j, f := range d.Fields {
		if f.DbDef != nil {
			in.Recs[0][j] = zeroVal(f.Kind)
		}
	}
	put("noret_dbdefault", "without RETURNING a database-generated default (default:(abs(-42))) is not loaded into the created record", in)
	in = genInput(r, 9003, GenOpt{Type: "Keyed", NoRet: false, Op: "maps", N: 2, AllowKnown: true})
	setKey(&in, -1, -1)
	put("returning_maps_value", "Model(&T{}).Create([]map[string]interface{}{...}) on a RETURNING dialect: Scan error, nothing stored", in)
	in.Op = "mapsptr"
	put("returning_maps_appended", "Model(&T{}).Create(&[]map[string]interface{}{...}) on a RETURNING dialect: id maps are appended to the slice", in)
	in = genInput(r, 9004, GenOpt{Type: "Keyed", NoRet: true, Op: "maps", N: 2, AllowKnown: true})
	setKey(&in, 5000, 3000)
	put("noret_maps_preset_keys", "Create([]map) with preset keys without RETURNING: the keys in the maps are overwritten by LastInsertId arithmetic", in)
	in = genInput(r, 9005, GenOpt{Type: "UnixU", NoRet: false, Op: "struct", N: 1})
	put("unixtime_uint", "fixed defect (repo commit f5d72d2): serializer:unixtime on a uint field panicked in reflect.Value.Int; must now round-trip", in)
	in = genInput(r, 9007, GenOpt{Type: "Twice", NoRet: false, Op: "struct", N: 1, AllowKnown: true})
	dtw := descOf("Twice")
	for j, f := range dtw.Fields {
		if f.EmbRoot == "Alt" {
			in.Recs[0][j] = vAbsent
		}
	}
	put("nil_embedded_pointer", "a record created with a nil pointer-embedded struct that has a pointer field (Alt *Addr, Addr.Lat *float64) is read back with a non-nil zero struct", in)
	in = genInput(r, 9006, GenOpt{Type: "Sers", NoRet: false, Op: "struct", N: 1, AllowKnown: true})
	put("model_map_serializer", "Model(&T{}).Take(&map) on a model with serializer fields: Scan error", in)
}

func main() {
	emit := flag.String("emit-corpus", "", "write the known-finding corpus inputs into this directory and exit")
	a := lib.ParseArgs()
	if *emit != "" {
		emitCorpus(*emit)
		return
	}
	out := lib.NewOut(a.Out, "C03")
	out.PerFile = 60
	id := 0
	add := func(kind string, in Input) {
		o := run(in)
		id++
		nontriv := len(in.Recs) >= 2 && o.Err == ""
		out.Add(lib.Case{Term: term(in, o), JSON: map[string]interface{}{"input": in, "observed": o},
			Sig: sig(in), Kind: kind, Shape: shape(in), Nontriv: nontriv})
		out.Count("fields_without_own_column", fmt.Sprint(len(descOf(in.Type).Extra)))
		if isGen(in.Type) {
			out.Count("type", "generated")
			out.Count("generated_fields", fmt.Sprint(len(in.Spec)))
		} else {
			out.Count("type", in.Type)
		}
		out.Count("op", in.Op)
		out.Count("returning", fmt.Sprint(!in.NoRet))
		out.Count("last_insert_id_reversed", fmt.Sprint(!in.Fwd))
		out.Count("naming", "ns:"+in.Naming)
		out.Count("query_fields", fmt.Sprint(in.QF))
		out.Count("create_batch_size", fmt.Sprint(in.CBS))
		out.Count("records", fmt.Sprint(len(in.Recs)))
		out.Count("create_error", fmt.Sprint(o.Err != ""))
		out.Count("read_errors", fmt.Sprint(len(o.ReadErrs)))
		if os.Getenv("C03_DEBUG") != "" && (o.Err != "" || len(o.ReadErrs) > 0) {
			fmt.Fprintf(os.Stderr, "case %d %s %s noret=%v err=%q readerrs=%v\n", id, in.Type, in.Op, in.NoRet, o.Err, o.ReadErrs)
		}
		if os.Getenv("C03_DEBUG") != "" {
			debugCompare(id, in, o)
		}
	}
	load := func(f string) Input {
		b, err := os.ReadFile(f)
		lib.Must(err)
		var c struct {
			Case struct {
				Input Input `json:"input"`
			} `json:"case"`
		}
		lib.Must(json.Unmarshal(b, &c))
		return c.Case.Input
	}
	if a.Replay != "" {
		add("replay", load(a.Replay))
		lib.Must(out.Flush())
		return
	}
	for _, f := range lib.CorpusFiles(a.Corpus) {
		add("corpus", load(f))
	}
	r := lib.NewRng(a.Seed)
	budget := 400
	if a.Tier == "thorough" {
		budget = 6000
	}
	if a.N > 0 {
		budget = a.N
	}
	structOps := []string{"struct", "slice", "slice", "ptrslice", "batches", "batches"}
	for i := 0; i < budget; i++ {
		edge := r.Chance(15, 100)
		g := GenOpt{NoRet: r.Bool(), Edge: edge, N: r.Range(1, 5)}
		kind := "main"
		if edge {
			kind = "edge"
			g.N = lib.Pick(r, []int{1, 1, 2, 7, 0}) // incl. the empty slice (ErrEmptySlice, nothing stored)
		}
		if r.Chance(1, 6) {
			g.Type = lib.Pick(r, mapTypes)
			g.Op = lib.Pick(r, []string{"map", "mapptr"})
			if g.NoRet {
				g.Op = lib.Pick(r, []string{"map", "mapptr", "maps", "maps", "mapsptr", "mapsptr"})
				if g.Op == "maps" || g.Op == "mapsptr" {
					g.N = r.Range(2, 4) // every ragged pattern over 2-4 rows gets its chance
				}
			}
		} else if r.Chance(2, 5) {
			g.Type, g.Spec = genSpec(r, i)
			g.Op = lib.Pick(r, structOps)
		} else {
			g.Type = lib.Pick(r, mainTypes)
			g.Op = lib.Pick(r, structOps)
		}
		// configuration dimensions
		if r.Chance(1, 4) {
			g.Naming = lib.Pick(r, []string{"prefix", "nolower", "replacer"})
		}
		g.QF = r.Chance(1, 3)
		if (g.Op == "slice" || g.Op == "ptrslice" || g.Op == "struct") && r.Chance(1, 4) {
			g.CBS = r.Range(1, 3)
		}
		// the other LastInsertId direction: only statements that run outside a transaction
		if g.NoRet && r.Chance(1, 3) && g.Op != "batches" {
			g.Fwd = true
			g.CBS = 0
		}
		if g.Type == "Ints" && r.Chance(1, 8) && (g.Op == "slice" || g.Op == "ptrslice" || g.Op == "batches") {
			g.Over = true
			kind = "error"
		}
		add(kind, genInput(r, i, g))
	}
	out.Extra["rule"] = "cases = model type (fixed family of 21 hand-written struct types plus, in 2 of 5 struct cases, a struct type GENERATED at run time with reflect.StructOf from the grammar key kind {uint,int64,uint32,renamed,composite} x 3..12 fields drawn from 42 Go types x their tag alternatives (column:, default:, autoCreateTime/autoUpdateTime variants, serializer json/gob/unixtime, embedded+embeddedPrefix); the family covers: integer widths, floats/bool/string/bytes/time and pointers, sql.Null*, custom Scanner/Valuer, json/gob/unixtime serializers, embedded structs with prefixes and renamed columns, literal and database-generated defaults, tracked times, composite / renamed / string keys) x RETURNING on/off x Create of struct | slice | slice of pointers | CreateInBatches(bs) | map | []map x 1..7 records of boundary values x preset / zero / mixed keys x pre-existing rows; distinct = distinct (type, mode, op, sizes, per-cell value class zero/nil/absent/value) shapes; non-trivial = at least two records created without error"
	lib.Must(out.Flush())
}
