// Run-time generated model types (reflect.StructOf): random selections from the grammar
// field kind x tags, in addition to the fixed hand-written family.  A generated type has no name,
// so every gorm call goes through Table(<name>).
package main

import (
	"database/sql"
	"fmt"
	"reflect"
	"strings"
	"time"

	"verifharness/lib"
)

// GField is one field of a generated struct type (fully stored in the case JSON for replay).
type GField struct {
	Name string `json:"name"`
	Go   string `json:"go"`  // key of goTypes
	Tag  string `json:"tag"` // gorm tag text
	Anon bool   `json:"anon,omitempty"` // anonymous (embedded without a field name of its own)
}

var goTypes = map[string]reflect.Type{
	"int": reflect.TypeOf(int(0)), "int8": reflect.TypeOf(int8(0)), "int16": reflect.TypeOf(int16(0)),
	"int32": reflect.TypeOf(int32(0)), "int64": reflect.TypeOf(int64(0)),
	"uint": reflect.TypeOf(uint(0)), "uint8": reflect.TypeOf(uint8(0)), "uint16": reflect.TypeOf(uint16(0)),
	"uint32": reflect.TypeOf(uint32(0)), "uint64": reflect.TypeOf(uint64(0)),
	"float32": reflect.TypeOf(float32(0)), "float64": reflect.TypeOf(float64(0)),
	"bool": reflect.TypeOf(false), "string": reflect.TypeOf(""), "bytes": reflect.TypeOf([]byte(nil)),
	"time":   reflect.TypeOf(time.Time{}),
	"*int64": reflect.TypeOf((*int64)(nil)), "*uint8": reflect.TypeOf((*uint8)(nil)), "*int16": reflect.TypeOf((*int16)(nil)),
	"*string": reflect.TypeOf((*string)(nil)), "*bool": reflect.TypeOf((*bool)(nil)), "*float64": reflect.TypeOf((*float64)(nil)),
	"*time":     reflect.TypeOf((*time.Time)(nil)),
	"NullInt64": reflect.TypeOf(sql.NullInt64{}), "NullString": reflect.TypeOf(sql.NullString{}), "NullBool": reflect.TypeOf(sql.NullBool{}),
	"NullTime": reflect.TypeOf(sql.NullTime{}), "NullFloat64": reflect.TypeOf(sql.NullFloat64{}), "NullInt32": reflect.TypeOf(sql.NullInt32{}),
	"Price": reflect.TypeOf(Price(0)), "*Price": reflect.TypeOf((*Price)(nil)), "Code": reflect.TypeOf(Code("")), "CSV": reflect.TypeOf(CSV{}), "KV": reflect.TypeOf(KV{}),
	"Level": reflect.TypeOf(Level(0)), "Tag": reflect.TypeOf(Tag{}), "Cents": reflect.TypeOf(Cents{}), "*Tag": reflect.TypeOf((*Tag)(nil)),
	"[]string": reflect.TypeOf([]string(nil)), "map[string]int64": reflect.TypeOf(map[string]int64(nil)),
	"Payload": reflect.TypeOf(Payload{}), "*Payload": reflect.TypeOf((*Payload)(nil)), "map[string]string": reflect.TypeOf(map[string]string(nil)),
	"Dims": reflect.TypeOf(Dims{}), "Author": reflect.TypeOf(Author{}), "*Author": reflect.TypeOf((*Author)(nil)), "Deep": reflect.TypeOf(Deep{}),
	"Flags": reflect.TypeOf(Flags{}), "*Flags": reflect.TypeOf((*Flags)(nil)),
	"Addr": reflect.TypeOf(Addr{}), "*Addr": reflect.TypeOf((*Addr)(nil)),
	"BaseA": reflect.TypeOf(BaseA{}), "*BaseA": reflect.TypeOf((*BaseA)(nil)), "BaseB": reflect.TypeOf(BaseB{}), "*BaseB": reflect.TypeOf((*BaseB)(nil)),
	"BaseK": reflect.TypeOf(BaseK{}), "WrapA": reflect.TypeOf(WrapA{}), "*WrapA": reflect.TypeOf((*WrapA)(nil)),
}

var genTypes = map[string]reflect.Type{}

func isGen(name string) bool { return strings.HasPrefix(name, "gen_") }

func registerGen(name string, spec []GField) {
	if _, ok := genTypes[name]; ok {
		return
	}
	fs := make([]reflect.StructField, len(spec))
	for i, g := range spec {
		fs[i] = reflect.StructField{Name: g.Name, Type: goTypes[g.Go], Tag: reflect.StructTag(`gorm:"` + g.Tag + `"`), Anonymous: g.Anon}
	}
	genTypes[name] = reflect.StructOf(fs)
}

// plain (non-key) field templates: Go type x tag alternatives
var fieldPool = []struct {
	Go   string
	Tags []string
}{
	{"int", []string{"", "default:7", "column:{c}"}}, {"int64", []string{"default:(abs(-42))", "default:(length('abc'))"}},
	{"string", []string{"default:(lower('GEN'))"}}, {"int8", []string{"", "default:-3"}}, {"int16", []string{""}},
	{"int32", []string{"", "autoUpdateTime"}}, {"int64", []string{"", "autoCreateTime:nano", "autoCreateTime:milli", "autoUpdateTime:milli", "serializer:unixtime;type:datetime", "column:{c}"}},
	{"uint", []string{"", "serializer:unixtime;type:datetime"}}, {"uint8", []string{"", "default:200"}}, {"uint16", []string{""}},
	{"uint32", []string{""}}, {"uint64", []string{"", "autoUpdateTime:nano"}},
	{"float32", []string{""}}, {"float64", []string{"", "default:1.5"}},
	{"bool", []string{"", "default:true"}}, {"string", []string{"", "default:'it''s'", "default:plain", "column:{c}", "size:300"}},
	{"bytes", []string{""}}, {"time", []string{"", "autoCreateTime", "autoUpdateTime"}},
	{"*int64", []string{"", "serializer:unixtime;type:datetime"}}, {"*uint8", []string{""}}, {"*int16", []string{""}}, {"*string", []string{"", "column:{c}"}},
	{"*bool", []string{""}}, {"*float64", []string{""}}, {"*time", []string{"", "autoCreateTime", "autoUpdateTime"}}, {"*time", []string{"autoCreateTime", "autoUpdateTime"}},
	{"NullInt64", []string{""}}, {"NullString", []string{""}}, {"NullBool", []string{""}}, {"NullTime", []string{""}},
	{"NullFloat64", []string{""}}, {"NullInt32", []string{""}},
	{"Level", []string{""}}, {"Price", []string{""}}, {"*Price", []string{""}}, {"Code", []string{""}}, {"CSV", []string{""}}, {"KV", []string{""}}, {"Tag", []string{""}}, {"Cents", []string{""}}, {"*Tag", []string{""}},
	{"[]string", []string{"serializer:json"}}, {"map[string]int64", []string{"serializer:json"}}, {"Payload", []string{"serializer:json", "serializer:gob"}},
	{"*Payload", []string{"serializer:json"}}, {"map[string]string", []string{"serializer:gob"}},
	{"Dims", []string{"embedded;embeddedPrefix:{c}_"}}, {"*Flags", []string{"embedded;embeddedPrefix:{c}_"}},
	{"*Flags", []string{"embedded;embeddedPrefix:{c}_"}}, {"Flags", []string{"embedded;embeddedPrefix:{c}_"}},
	{"int", []string{"serializer:json"}}, {"float64", []string{"serializer:json"}}, {"*int64", []string{"serializer:json"}}, {"Author", []string{"embedded;embeddedPrefix:{c}_"}},
	{"*Author", []string{"embedded;embeddedPrefix:{c}_"}}, {"Deep", []string{"embedded;embeddedPrefix:{c}_"}},
	{"Addr", []string{"embedded;embeddedPrefix:{c}_"}}, {"Addr", []string{"embedded;embeddedPrefix:{c}_"}}, {"*Addr", []string{"embedded;embeddedPrefix:{c}_"}},
	{"Dims", []string{"embedded;embeddedPrefix:{c}_"}}, {"*Flags", []string{"embedded;embeddedPrefix:{c}_"}},
	{"*Flags", []string{"embedded;embeddedPrefix:{c}_"}}, {"Flags", []string{"embedded;embeddedPrefix:{c}_"}},
	{"int", []string{"serializer:json"}}, {"float64", []string{"serializer:json"}}, {"*int64", []string{"serializer:json"}},
}

// genSpec draws a struct type: a key, the marker column, 3..12 further fields.
func genSpec(r *lib.Rng, id int) (string, []GField) {
	var spec []GField
	switch r.Intn(8) {
	case 5: // key by name only, stored under another column name
		spec = append(spec, GField{Name: "ID", Go: "uint", Tag: "column:uid"})
	case 6:
		spec = append(spec, GField{Name: "ID", Go: "int64", Tag: "column:key_id"})
	case 0:
		spec = append(spec, GField{Name: "ID", Go: "uint", Tag: "primaryKey"})
	case 1:
		spec = append(spec, GField{Name: "ID", Go: "int64", Tag: "primaryKey"})
	case 2:
		spec = append(spec, GField{Name: "ID", Go: "uint32", Tag: "primaryKey"})
	case 3:
		spec = append(spec, GField{Name: "Key", Go: "int64", Tag: "primaryKey;column:k"})
	case 4: // composite key with a member named ID
		spec = append(spec, GField{Name: "ID", Go: "int64", Tag: "primaryKey;autoIncrement:false"}, GField{Name: "Locale", Go: "string", Tag: "primaryKey"})
	default: // composite key without auto-increment
		spec = append(spec, GField{Name: "Code", Go: "string", Tag: "primaryKey"}, GField{Name: "Seq", Go: "int32", Tag: "primaryKey;autoIncrement:false"})
	}
	spec = append(spec, GField{Name: "Mark", Go: "string", Tag: "uniqueIndex"})
	n := r.Range(3, 12)
	for i := 0; i < n; i++ {
		p := lib.Pick(r, fieldPool)
		tag := strings.ReplaceAll(lib.Pick(r, p.Tags), "{c}", fmt.Sprintf("x%d", i))
		spec = append(spec, GField{Name: fmt.Sprintf("F%d", i), Go: p.Go, Tag: tag})
	}
	// several fields mapped to ONE column: structs embedded anonymously (value / pointer / nested) or
	// with the `embedded` tag and no prefix, and fields of the model itself that carry the Go name or
	// the column of one of their leaves; every declaration order
	if r.Chance(2, 5) {
		nkey := len(spec) - n - 1 // the key fields stay in front
		insert := func(g GField) {
			k := nkey + r.Intn(len(spec)-nkey+1)
			spec = append(spec[:k], append([]GField{g}, spec[k:]...)...)
		}
		bases := []string{"BaseA", "BaseB", "WrapA"}
		lib.Shuffle(r, bases)
		if spec[0].Name == "ID" && spec[0].Tag == "primaryKey" && spec[0].Go == "uint" && r.Bool() {
			// the key itself comes from an anonymously embedded struct (gorm.Model style)
			spec[0] = GField{Name: "BaseK", Go: "BaseK", Anon: true}
		}
		for _, b := range bases[:r.Range(1, 2)] {
			switch r.Intn(4) {
			case 0, 1:
				insert(GField{Name: b, Go: b, Anon: true})
			case 2:
				insert(GField{Name: b, Go: "*" + b, Anon: true})
			default:
				insert(GField{Name: "In" + b, Go: b, Tag: "embedded"})
			}
		}
		colliders := []GField{
			{Name: "Title", Go: "string"}, {Name: "Title", Go: "string", Tag: "column:headline"}, {Name: "Note", Go: "string"},
			{Name: "Note", Go: "*string"}, {Name: "Rank", Go: "int64"}, {Name: "Rank", Go: "int16"}, {Name: "Qty", Go: "int32"}, {Name: "Depth", Go: "int16"},
			{Name: "Head", Go: "string", Tag: "column:title"}, {Name: "Memo", Go: "string", Tag: "column:note"}, {Name: "Pos", Go: "int64", Tag: "column:rank"},
			{Name: "Hl", Go: "string", Tag: "column:headline"}, {Name: "Amount", Go: "int32", Tag: "column:qty"},
		}
		used := map[string]bool{}
		for i := r.Range(1, 3); i > 0; i-- {
			c := lib.Pick(r, colliders)
			if !used[c.Name] {
				used[c.Name] = true
				insert(c)
			}
		}
	}
	// the marker somewhere in the middle
	if r.Bool() {
		k := 2 + r.Intn(len(spec)-2)
		m := 0
		for i, g := range spec {
			if g.Name == "Mark" {
				m = i
			}
		}
		if k > m {
			spec[m], spec[k] = spec[k], spec[m]
		}
	}
	return fmt.Sprintf("gen_%d", id), spec
}
