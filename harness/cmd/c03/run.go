// Execution of one C03 case on real gorm + SQLite, and the observations.
package main

import (
	"database/sql"
	"fmt"
	"math"
	"os"
	"reflect"
	"runtime/debug"
	"strings"
	"time"

	"gorm.io/driver/sqlite"
	"gorm.io/gorm"
	"gorm.io/gorm/logger"

	"verifharness/gdb"
	"verifharness/recdrv"
)

type Input struct {
	Type    string   `json:"type"`
	NoRet   bool     `json:"noret"`
	Op      string   `json:"op"` // struct | slice | ptrslice | batches | map | maps | mapsptr
	BS      int      `json:"bs,omitempty"`
	Pre     int      `json:"pre"`               // rows inserted (and half of them deleted) before the case
	MapKeys string   `json:"mapkeys,omitempty"` // col | name
	NoMMap  bool     `json:"nommap,omitempty"`  // skip the Model(&T{}).Take(&map) read (types with serializer fields: known finding)
	Naming  string   `json:"naming,omitempty"`  // "" | prefix | nolower | replacer (Config.NamingStrategy)
	QF      bool     `json:"qf,omitempty"`      // Config.QueryFields
	CBS     int      `json:"cbs,omitempty"`     // Config.CreateBatchSize
	Fwd     bool     `json:"fwd,omitempty"`     // dialect without RETURNING whose LastInsertId is the FIRST key (not reversed)
	Spec    []GField `json:"spec,omitempty"`    // run-time generated struct type (reflect.StructOf); Type = "gen_<n>"
	XRecs   [][]Val  `json:"xrecs,omitempty"`   // values of struct leaves that gorm mapped to no column (normally none)
	Recs    [][]Val  `json:"recs"`              // canonical values per record, in column (DBNames) order
}

type Obs struct {
	Base     int64    `json:"base"`      // sqlite_sequence value before Create
	Err      string   `json:"err"`       // Create error ("" = none; "panic: ..." for a panic)
	After    [][]Val  `json:"after"`     // in-memory records after Create
	Rows     [][]Val  `json:"rows"`      // row storing record i (by marker), canonical db values; nil if none
	RowCount int64    `json:"row_count"` // rows carrying one of the case's markers
	Find     [][]Val  `json:"find"`
	XBefore  [][]Val  `json:"xbefore"` // the unmapped leaves as the records held them when Create was called
	XFind    [][]Val  `json:"xfind"`   // the unmapped leaves as read back by Find
	First    [][]Val  `json:"first"`
	Take     [][]Val  `json:"take"`
	ByKey    [][]Val  `json:"bykey"` // First/Take(&T{<own primary key>}) without any Where
	MMap     [][]Val  `json:"mmap"`  // Model(&T{}).Take(&map)
	TMap     [][]Val  `json:"tmap"`  // Table(t).Take(&map)
	NMaps    int64    `json:"nmaps"` // length of the []map slice after Create (map ops)
	ReadErrs []string `json:"read_errs"`
}

var clockReads int

const clockStep = 1001001001 * time.Nanosecond

var nowPinned = time.Date(2024, 3, 5, 6, 7, 8, 123456789, time.UTC)

func markIdx(d *Desc) int {
	for i, f := range d.Fields {
		if len(f.Path) == 1 && f.Path[0] == "Mark" {
			return i
		}
	}
	panic("no mark column")
}

// plain Go value handed to Create inside a map, for a canonical value of a column
func plainOf(f *FDesc, v Val) interface{} {
	rv := build(f.Kind, v, f.goType)
	return rv.Interface()
}

func run(in Input) (o Obs) {
	if isGen(in.Type) {
		registerGen(in.Type, in.Spec)
	}
	curNaming = in.Naming
	d := descOf(in.Type)
	cfg := &gorm.Config{NamingStrategy: namingOf(in.Naming), QueryFields: in.QF, CreateBatchSize: in.CBS, Logger: logger.Discard, NowFunc: func() time.Time {
		// a moving clock: every reading is clockStep later than the previous one
		t := nowPinned.Add(time.Duration(clockReads) * clockStep)
		clockReads++
		return t
	}}
	var db *gorm.DB
	var sqlDB *sql.DB
	var err error
	if in.Fwd {
		// statements go straight to the (wrapped) pool: no implicit transaction
		cfg.SkipDefaultTransaction = true
		sqlDB, _ = recdrv.Open(":memory:")
		sqlDB.SetMaxOpenConns(1)
		db, err = gorm.Open(fwdDialector{sqlite.Dialector{Conn: fwdPool{sqlDB}}}, cfg)
	} else {
		db, _, sqlDB, err = gdb.Open(gdb.Opt{NoReturning: in.NoRet, Config: cfg})
	}
	clockReads = 0
	if err != nil {
		panic(err)
	}
	defer sqlDB.Close()
	if isGen(in.Type) {
		db = db.Table(d.Table).Session(&gorm.Session{})
	}
	model := reflect.New(d.t).Interface()
	if err := db.AutoMigrate(model); err != nil {
		panic(err)
	}
	mi := markIdx(d)
	pk := d.pkAuto()
	if pk != nil {
		for i := 0; i < in.Pre; i++ {
			if _, err := sqlDB.Exec("INSERT INTO `"+d.Table+"` (mark) VALUES (?)", fmt.Sprintf("pre%d", i)); err != nil {
				panic(err)
			}
		}
		if in.Pre > 0 {
			if _, err := sqlDB.Exec("DELETE FROM `"+d.Table+"` WHERE rowid > ?", (in.Pre+1)/2); err != nil {
				panic(err)
			}
		}
		_ = sqlDB.QueryRow("SELECT seq FROM sqlite_sequence WHERE name = ?", d.Table).Scan(&o.Base)
	}

	n := len(in.Recs)
	marks := make([]string, n)
	for i, r := range in.Recs {
		marks[i] = r[mi].S
	}
	o.After = make([][]Val, n)
	o.XBefore = empty(n)

	// ---- Create ----
	func() {
		defer func() {
			if r := recover(); r != nil {
				o.Err = fmt.Sprint("panic: ", r)
				if os.Getenv("C03_DEBUG") != "" {
					fmt.Fprintf(os.Stderr, "%s\n", debug.Stack())
				}
			}
		}()
		switch in.Op {
		case "struct":
			recs := make([]reflect.Value, n)
			for i, r := range in.Recs {
				recs[i] = reflect.New(d.t)
				d.buildRec(recs[i], r)
				d.buildExtra(recs[i], xrec(in, i))
				o.XBefore[i] = d.xbefore(recs[i], in, i)
				if err := db.Create(recs[i].Interface()).Error; err != nil && o.Err == "" {
					o.Err = err.Error()
				}
			}
			// every record is looked at after ALL creates: an earlier record must not change when
			// a later one is created
			for i := range recs {
				o.After[i] = d.canonRec(recs[i])
			}
		case "slice", "batches":
			sl := reflect.New(reflect.SliceOf(d.t))
			sl.Elem().Set(reflect.MakeSlice(reflect.SliceOf(d.t), n, n))
			for i, r := range in.Recs {
				d.buildRec(sl.Elem().Index(i), r)
				d.buildExtra(sl.Elem().Index(i), xrec(in, i))
				o.XBefore[i] = d.xbefore(sl.Elem().Index(i), in, i)
			}
			if in.Op == "slice" {
				err = db.Create(sl.Interface()).Error
			} else {
				err = db.CreateInBatches(sl.Interface(), in.BS).Error
			}
			if err != nil {
				o.Err = err.Error()
			}
			for i := 0; i < n; i++ {
				o.After[i] = d.canonRec(sl.Elem().Index(i))
			}
		case "ptrslice":
			pt := reflect.PtrTo(d.t)
			sl := reflect.New(reflect.SliceOf(pt))
			sl.Elem().Set(reflect.MakeSlice(reflect.SliceOf(pt), n, n))
			for i, r := range in.Recs {
				rec := reflect.New(d.t)
				d.buildRec(rec, r)
				d.buildExtra(rec, xrec(in, i))
				o.XBefore[i] = d.xbefore(rec, in, i)
				sl.Elem().Index(i).Set(rec)
			}
			if err := db.Create(sl.Interface()).Error; err != nil {
				o.Err = err.Error()
			}
			for i := 0; i < n; i++ {
				o.After[i] = d.canonRec(sl.Elem().Index(i))
			}
		case "map", "mapptr", "maps", "mapsptr":
			maps := make([]map[string]interface{}, n)
			for i, r := range in.Recs {
				m := map[string]interface{}{}
				for j, f := range d.Fields {
					if r[j].T == "absent" {
						continue
					}
					key := f.Col
					if in.MapKeys == "name" {
						key = f.field.Name
					}
					m[key] = plainOf(f, r[j])
				}
				maps[i] = m
			}
			switch in.Op {
			case "map":
				for i := range maps {
					if err := db.Model(model).Create(maps[i]).Error; err != nil && o.Err == "" {
						o.Err = err.Error()
					}
				}
			case "mapptr":
				for i := range maps {
					if err := db.Model(model).Create(&maps[i]).Error; err != nil && o.Err == "" {
						o.Err = err.Error()
					}
				}
			case "maps":
				err = db.Model(model).Create(maps).Error
			case "mapsptr":
				err = db.Model(model).Create(&maps).Error
			}
			if err != nil {
				o.Err = err.Error()
			}
			o.NMaps = int64(len(maps))
			// the caller's maps as they are after Create (not what was put in)
			for i := 0; i < n; i++ {
				after := make([]Val, len(d.Fields))
				for j, f := range d.Fields {
					after[j] = vAbsent
					keys := []string{f.Col}
					if in.MapKeys == "name" {
						keys = []string{f.field.Name}
					}
					if f.HPK {
						keys = []string{f.field.Name, f.Col, "@id"} // where gorm may write the key
					}
					for _, key := range keys {
						if v, ok := maps[i][key]; ok {
							after[j] = mapVal(f, v)
						}
					}
				}
				o.After[i] = after
			}
		}
	}()
	if strings.HasPrefix(o.Err, "panic") {
		// the connection may be stuck inside the panicked call: nothing more can be observed
		for i := range o.After {
			if o.After[i] == nil {
				o.After[i] = []Val{}
			}
		}
		o.Rows, o.Find, o.First, o.Take, o.MMap, o.TMap = empty(n), empty(n), empty(n), empty(n), empty(n), empty(n)
		o.XFind, o.ByKey = empty(n), empty(n)
		return o
	}

	// ---- the rows that store the records (raw database/sql, no gorm) ----
	o.Rows = make([][]Val, n)
	cols := make([]string, len(d.Fields))
	for i, f := range d.Fields {
		cols[i] = "`" + f.Col + "`"
	}
	rows, err := sqlDB.Query("SELECT " + strings.Join(cols, ",") + " FROM `" + d.Table + "` ORDER BY rowid")
	if err != nil {
		panic(err)
	}
	for rows.Next() {
		cells := make([]interface{}, len(cols))
		ptrs := make([]interface{}, len(cols))
		for i := range cells {
			ptrs[i] = &cells[i]
		}
		if err := rows.Scan(ptrs...); err != nil {
			panic(err)
		}
		row := make([]Val, len(cols))
		for i, f := range d.Fields {
			row[i] = dbCell(f, cells[i])
		}
		for i, m := range marks {
			if row[mi].T == "str" && row[mi].S == m {
				o.RowCount++
				if o.Rows[i] == nil {
					o.Rows[i] = row
				}
			}
		}
	}
	rows.Close()
	for i := range o.Rows {
		if o.Rows[i] == nil {
			o.Rows[i] = []Val{}
		}
	}

	// ---- read back through gorm ----
	rerr := func(where string, err error) {
		if err != nil {
			o.ReadErrs = append(o.ReadErrs, where+": "+err.Error())
		}
	}
	o.Find, o.First, o.Take, o.MMap, o.TMap = empty(n), empty(n), empty(n), empty(n), empty(n)
	o.XFind, o.ByKey = empty(n), empty(n)
	all := reflect.New(reflect.SliceOf(d.t))
	rerr("find", db.Find(all.Interface()).Error)
	for k := 0; k < all.Elem().Len(); k++ {
		c := d.canonRec(all.Elem().Index(k))
		for i, m := range marks {
			if c[mi].S == m && len(o.Find[i]) == 0 {
				o.Find[i] = c
				if len(xrec(in, i)) > 0 {
					o.XFind[i] = d.canonExtra(all.Elem().Index(k))
				}
			}
		}
	}
	for i, m := range marks {
		if len(o.Rows[i]) == 0 {
			continue
		}
		rec := reflect.New(d.t)
		first := db.Where("mark = ?", m).First(rec.Interface())
		if i%2 == 1 {
			rec = reflect.New(d.t)
			first = db.First(rec.Interface(), "mark = ?", m) // inline condition
		}
		if err := first.Error; err != nil {
			rerr("first", err)
		} else {
			o.First[i] = d.canonRec(rec)
		}
		rec = reflect.New(d.t)
		take := db.Where("mark = ?", m).Take(rec.Interface())
		if i%2 == 1 {
			rec = reflect.New(d.t)
			take = db.Take(rec.Interface(), map[string]interface{}{"mark": m}) // inline map condition
		}
		if err := take.Error; err != nil {
			rerr("take", err)
		} else {
			o.Take[i] = d.canonRec(rec)
		}
		// reload through the destination's own key: a fresh struct carrying only the primary key
		// of the in-memory record, no Where
		rec = reflect.New(d.t)
		keyOK := len(o.After[i]) == len(d.Fields)
		if keyOK {
			keyed := make([]Val, len(d.Fields))
			for j, f := range d.Fields {
				keyed[j] = vAbsent
				if f.HPK {
					keyed[j] = o.After[i][j]
					if keyed[j].T == "absent" || keyed[j].eq(zeroVal(f.Kind)) {
						keyOK = false
					}
				}
			}
			if keyOK {
				d.buildRec(rec, keyed)
			}
		}
		if !keyOK {
			o.ByKey[i] = o.Find[i] // no usable key in memory (reported elsewhere): nothing to reload by
		} else {
			q := db.Take
			switch i % 3 {
			case 0:
				q = db.First
			case 2:
				q = db.Last
			}
			if err := q(rec.Interface()).Error; err != nil {
				rerr("bykey", err)
			} else {
				o.ByKey[i] = d.canonRec(rec)
			}
		}
		var mm map[string]interface{} // a nil map: allocated by Scan
		if in.NoMMap {
		} else if err := db.Model(model).Where("mark = ?", m).Take(&mm).Error; err != nil {
			rerr("mmap", err)
		} else {
			o.MMap[i] = mapRow(d, mm)
		}
		tm := map[string]interface{}{}
		if err := db.Table(d.Table).Where("mark = ?", m).Take(&tm).Error; err != nil {
			rerr("tmap", err)
		} else {
			o.TMap[i] = untyped(d, mapRow(d, tm))
		}
	}
	return o
}

func empty(n int) [][]Val {
	out := make([][]Val, n)
	for i := range out {
		out[i] = []Val{}
	}
	return out
}

// dbCell: canonical value of a stored cell; gob blobs are decoded by the harness (encoding/gob)
// and shown as the canonical JSON text of the decoded value (gob bytes are not canonical).
func dbCell(f *FDesc, x interface{}) Val {
	if f.Kind.K == "ser" && f.Kind.Ser == "gob" {
		if sx, ok := x.(string); ok {
			x = []byte(sx) // map reads without a schema deliver the blob as a string
		}
		if b, ok := x.([]byte); ok {
			js := gobDecodeJSON(b, f.goType)
			if js == "null" {
				return vNil // an empty gob map/slice is the same value as a nil one
			}
			return vStr(js)
		}
	}
	if f.Kind.K == "ser" && f.Kind.Ser == "json" {
		// a JSON number / boolean in a column with INTEGER / REAL / NUMERIC affinity is handed back
		// as a number: shown as its JSON text
		switch x.(type) {
		case int64, float64, bool:
			return vStr(canonJSON(x))
		}
	}
	return canonDyn(x)
}

func mapCell(f *FDesc, x interface{}) Val {
	// a map read holds driver values: a value still typed as one of the model's own types
	// (a custom Valuer that was not unwrapped) is reported as such, never converted here
	if x != nil {
		if t := reflect.TypeOf(x); t.PkgPath() == "main" || (t.Kind() == reflect.Ptr && t.Elem().PkgPath() == "main") {
			return vStr(fmt.Sprintf("!typed:%T", x))
		}
	}
	if p, ok := x.(*interface{}); ok && p != nil {
		x = *p
	}
	if rb, ok := x.(sql.RawBytes); ok {
		x = []byte(rb)
	}
	return dbCell(f, x)
}

func mapRow(d *Desc, m map[string]interface{}) []Val {
	out := make([]Val, len(d.Fields))
	for i, f := range d.Fields {
		x, ok := m[f.Col]
		if !ok {
			out[i] = vStr("!missing")
			continue
		}
		out[i] = mapCell(f, x)
	}
	return out
}

// untyped: a map read without a schema is typed by the driver's ScanType (mattn: NUMERIC columns
// as float64, BLOB columns as RawBytes which gorm turns into a string); the same value is
// compared, not its Go type: integral floats of boolean columns as integers, strings of byte
// columns as bytes.
func untyped(d *Desc, row []Val) []Val {
	for i, f := range d.Fields {
		k := f.Kind
		for k.K == "ptr" || k.K == "null" || k.K == "custom" {
			k = *k.Of
		}
		switch {
		case k.K == "bool" && row[i].T == "opq":
			var bits uint64
			fmt.Sscan(row[i].Z, &bits)
			fl := math.Float64frombits(bits)
			if fl == math.Trunc(fl) {
				row[i] = vInt(int64(fl))
			}
		case k.K == "bytes" && row[i].T == "str":
			row[i] = vBytes([]byte(row[i].S))
		}
	}
	return row
}

// xbefore: the unmapped leaves as the record holds them (a leaf under a nil embedded pointer is absent)
func (d *Desc) xbefore(rec reflect.Value, in Input, i int) []Val {
	if len(xrec(in, i)) == 0 {
		return []Val{}
	}
	return d.canonExtra(rec)
}

func xrec(in Input, i int) []Val {
	if i < len(in.XRecs) {
		return in.XRecs[i]
	}
	return nil
}

// mapVal: canonical value of an entry of the caller's map: in the field's kind when it still has
// the Go type that was put in, otherwise (a key written by gorm) as a database value.
func mapVal(f *FDesc, v interface{}) Val {
	if v == nil {
		return vNil
	}
	if reflect.TypeOf(v) == f.goType {
		return canon(f.Kind, reflect.ValueOf(v))
	}
	return mapCell(f, v)
}
