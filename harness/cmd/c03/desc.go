// Schema description of a model type: (a) the struct tree read from the Go type and its tags by
// this harness (input of the flattening model) and (b) what gorm's schema.Parse produced
// (observed: DBNames, winning bind paths; plus per-column facts used as inputs of the codec model).
package main

import (
	"database/sql/driver"
	"reflect"
	"strings"
	"sync"

	"gorm.io/gorm/schema"

	"verifharness/lib"
)

type Node struct {
	Name   string  `json:"name"`
	Col    string  `json:"col,omitempty"`    // leaf: local column name (column: tag or naming strategy)
	Embed  bool    `json:"embed,omitempty"`  // embedded struct
	Ptr    bool    `json:"ptr,omitempty"`    // embedded through a pointer
	Prefix string  `json:"prefix,omitempty"` // embeddedPrefix
	Kids   []*Node `json:"kids,omitempty"`
}

func tagSettings(tag reflect.StructTag) map[string]string {
	return schema.ParseTagSetting(tag.Get("gorm"), ";")
}

// treeOf walks the Go type (never gorm's schema).
func treeOf(t reflect.Type) []*Node {
	var out []*Node
	ns := schema.NamingStrategy{}
	for i := 0; i < t.NumField(); i++ {
		f := t.Field(i)
		if f.PkgPath != "" {
			continue
		}
		ts := tagSettings(f.Tag)
		ft := f.Type
		isPtr := false
		if ft.Kind() == reflect.Ptr {
			ft, isPtr = ft.Elem(), true
		}
		_, embTag := ts["EMBEDDED"]
		_, isValuer := reflect.New(ft).Interface().(driver.Valuer)
		if ft.Kind() == reflect.Struct && ft != timeType && !isValuer && (embTag || f.Anonymous) && ts["SERIALIZER"] == "" {
			out = append(out, &Node{Name: f.Name, Embed: true, Ptr: isPtr, Prefix: ts["EMBEDDEDPREFIX"], Kids: treeOf(ft)})
			continue
		}
		col := ts["COLUMN"]
		if col == "" {
			col = ns.ColumnName("", f.Name)
		}
		out = append(out, &Node{Name: f.Name, Col: col})
	}
	return out
}

func gNode(n *Node) string {
	if n.Embed {
		return lib.App("FEmbed", lib.Str(n.Name), lib.Str(n.Prefix), lib.ListOf(n.Kids, gNode))
	}
	return lib.App("FLeaf", lib.Str(n.Name), lib.Str(n.Col))
}

// FDesc: one column of the model type.
type FDesc struct {
	Path    []string `json:"path"`
	Col     string   `json:"col"`
	Kind    Kind     `json:"kind"`
	PK      bool     `json:"pk"`
	Auto    bool     `json:"auto"`
	HasDef  bool     `json:"hasdef"`
	DefI    *Val     `json:"defi,omitempty"`  // DefaultValueInterface, canonical in the field's kind
	DbDef   *Val     `json:"dbdef,omitempty"` // value SQLite generates when the column is omitted
	CTime   int      `json:"ctime"`
	UTime   int      `json:"utime"`
	EmbPtr  bool     `json:"embptr"` // lives under a pointer-embedded struct
	goType  reflect.Type
	field   *schema.Field
}

type Desc struct {
	Type   string   `json:"type"`
	Table  string   `json:"table"`
	Tree   []*Node  `json:"-"`
	Fields []*FDesc `json:"fields"`
	Extra  []*FDesc `json:"extra"` // leaves of the Go struct that gorm mapped to no column of their own
	Prio   string   `json:"prio"` // column of the prioritized primary field ("" = none)
	PrioHasDef bool `json:"prio_hasdef"`
	DBNames [][]string `json:"-"` // observed: [dbname, bind path...]
	sch    *schema.Schema
	t      reflect.Type
}

// values SQLite computes for the database-generated defaults of the fixed family
var dbDefaults = map[string]Val{
	"Defs.gen_i": vInt(42),
	"Defs.gen_s": vStr("gen"),
	"Defs.nul_s": vNil,
}

var descCache = map[string]*Desc{}

func descOf(name string) *Desc {
	if d, ok := descCache[name]; ok {
		return d
	}
	t := typeByName(name)
	sch, err := schema.Parse(reflect.New(t).Interface(), &sync.Map{}, schema.NamingStrategy{})
	lib.Must(err)
	d := &Desc{Type: name, Table: sch.Table, Tree: treeOf(t), sch: sch, t: t}
	if isGen(name) {
		d.Table = name // unnamed struct type: every call goes through Table(name)
	}
	if sch.PrioritizedPrimaryField != nil {
		d.Prio = sch.PrioritizedPrimaryField.DBName
		d.PrioHasDef = sch.PrioritizedPrimaryField.HasDefaultValue
	}
	for _, db := range sch.DBNames {
		f := sch.FieldsByDBName[db]
		d.DBNames = append(d.DBNames, append([]string{db}, f.BindNames...))
		fd := &FDesc{Path: f.BindNames, Col: db, PK: f.PrimaryKey, Auto: f.AutoIncrement, HasDef: f.HasDefaultValue,
			CTime: int(f.AutoCreateTime), UTime: int(f.AutoUpdateTime), field: f}
		// Go type and pointer-embedding, by walking the Go type along the bind path
		ft := t
		for i, nm := range f.BindNames {
			sf, _ := ft.FieldByName(nm)
			ft = sf.Type
			if i < len(f.BindNames)-1 && ft.Kind() == reflect.Ptr {
				ft = ft.Elem()
				fd.EmbPtr = true
			}
		}
		fd.goType = ft
		ser := tagSettings(f.StructField.Tag)["SERIALIZER"]
		fd.Kind = kindOfType(ft, ser)
		if f.DefaultValueInterface != nil {
			v := canonDyn(f.DefaultValueInterface)
			// in the field's kind: ints stay ints, float defaults are float64
			fd.DefI = &v
		}
		if f.HasDefaultValue && f.DefaultValueInterface == nil && !f.AutoIncrement {
			if v, ok := dbDefaults[name+"."+db]; ok {
				fd.DbDef = &v
			}
		}
		d.Fields = append(d.Fields, fd)
	}
	// every leaf of the Go struct (walked by this harness, not by gorm) must own a column: leaves
	// whose bind path is not the winner of any column are kept apart and compared by value
	var walk func(t reflect.Type, nodes []*Node, path []string, embptr bool)
	walk = func(t reflect.Type, nodes []*Node, path []string, embptr bool) {
		for _, n := range nodes {
			sf, _ := t.FieldByName(n.Name)
			p := append(append([]string{}, path...), n.Name)
			if n.Embed {
				ft := sf.Type
				if ft.Kind() == reflect.Ptr {
					ft = ft.Elem()
				}
				walk(ft, n.Kids, p, embptr || n.Ptr)
				continue
			}
			if d.byPath(strings.Join(p, ".")) != nil {
				continue
			}
			ser := tagSettings(sf.Tag)["SERIALIZER"]
			d.Extra = append(d.Extra, &FDesc{Path: p, Col: "", Kind: kindOfType(sf.Type, ser), EmbPtr: embptr, goType: sf.Type})
		}
	}
	walk(t, d.Tree, nil, false)
	descCache[name] = d
	return d
}

func (d *Desc) pkAuto() *FDesc {
	for _, f := range d.Fields {
		if f.Col == d.Prio && f.Auto {
			return f
		}
	}
	return nil
}

func (d *Desc) byPath(p string) *FDesc {
	for _, f := range d.Fields {
		if strings.Join(f.Path, ".") == p {
			return f
		}
	}
	return nil
}

// fieldValue walks a struct value along the bind path; ok=false when an embedded pointer is nil.
func fieldValue(rec reflect.Value, path []string, alloc bool) (reflect.Value, bool) {
	v := rec
	for i, nm := range path {
		v = v.FieldByName(nm)
		if i < len(path)-1 && v.Kind() == reflect.Ptr {
			if v.IsNil() {
				if !alloc {
					return reflect.Value{}, false
				}
				v.Set(reflect.New(v.Type().Elem()))
			}
			v = v.Elem()
		}
	}
	return v, true
}

// canonRec: canonical values of a record, in Fields order.
func (d *Desc) canonRec(rec reflect.Value) []Val {
	rec = reflect.Indirect(rec)
	out := make([]Val, len(d.Fields))
	for i, f := range d.Fields {
		v, ok := fieldValue(rec, f.Path, false)
		if !ok {
			out[i] = vAbsent
			continue
		}
		out[i] = canon(f.Kind, v)
	}
	return out
}

// canonExtra / buildExtra: the same for the unmapped leaves.
func (d *Desc) canonExtra(rec reflect.Value) []Val {
	rec = reflect.Indirect(rec)
	out := make([]Val, len(d.Extra))
	for i, f := range d.Extra {
		v, ok := fieldValue(rec, f.Path, false)
		if !ok {
			out[i] = vAbsent
			continue
		}
		out[i] = canon(f.Kind, v)
	}
	return out
}
func (d *Desc) buildExtra(rec reflect.Value, vals []Val) {
	rec = reflect.Indirect(rec)
	for i, f := range d.Extra {
		if i >= len(vals) || vals[i].T == "absent" {
			continue
		}
		if v, ok := fieldValue(rec, f.Path, false); ok {
			v.Set(build(f.Kind, vals[i], f.goType))
		}
	}
}

// buildRec fills a struct value from canonical values.
func (d *Desc) buildRec(rec reflect.Value, vals []Val) {
	rec = reflect.Indirect(rec)
	for i, f := range d.Fields {
		if vals[i].T == "absent" {
			continue
		}
		v, _ := fieldValue(rec, f.Path, true)
		v.Set(build(f.Kind, vals[i], f.goType))
	}
}

func gOptVal(v *Val, pr func(Val) string) string {
	if v == nil {
		return "None"
	}
	return "(Some " + pr(*v) + ")"
}

func gFDesc(f *FDesc) string {
	return lib.App("mk_fd", lib.ListOf(f.Path, lib.Str), lib.Str(f.Col), gKind(f.Kind), lib.Bool(f.PK), lib.Bool(f.Auto),
		lib.Bool(f.HasDef), gOptVal(f.DefI, gVal), gOptVal(f.DbDef, gDb), lib.Z(int64(f.CTime)), lib.Z(int64(f.UTime)), lib.Bool(f.EmbPtr))
}
