// A dialector with the capabilities of a MySQL-like driver, on SQLite: no RETURNING, and
// LastInsertId reports the FIRST key of a multi-row insert (callbacks.Config.LastInsertIDReversed
// = false).  SQLite reports the last key, so the connection pool wrapper rewrites the result
// (last - (rows-1)); rows of one INSERT get consecutive keys when none is preset.
package main

import (
	"context"
	"database/sql"

	"gorm.io/driver/sqlite"
	"gorm.io/gorm"
	"gorm.io/gorm/callbacks"
)

type fwdResult struct{ sql.Result }

func (r fwdResult) LastInsertId() (int64, error) {
	id, err := r.Result.LastInsertId()
	if err != nil {
		return id, err
	}
	n, _ := r.Result.RowsAffected()
	if n > 1 {
		id -= n - 1
	}
	return id, nil
}

type fwdPool struct{ *sql.DB }

func (p fwdPool) ExecContext(ctx context.Context, query string, args ...interface{}) (sql.Result, error) {
	res, err := p.DB.ExecContext(ctx, query, args...)
	if err != nil {
		return res, err
	}
	return fwdResult{res}, nil
}

type fwdDialector struct{ sqlite.Dialector }

func (d fwdDialector) Initialize(db *gorm.DB) error {
	db.ConnPool = d.Conn
	callbacks.RegisterDefaultCallbacks(db, &callbacks.Config{LastInsertIDReversed: false})
	for k, v := range d.ClauseBuilders() {
		db.ClauseBuilders[k] = v
	}
	return nil
}
