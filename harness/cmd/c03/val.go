// Canonical values and kinds: the projection of Go field values / SQLite cell values the
// property speaks about.  Derived from the Go types by reflection, never from gorm's schema.
package main

import (
	"bytes"
	"database/sql"
	"database/sql/driver"
	"encoding/gob"
	"encoding/hex"
	"encoding/json"
	"fmt"
	"math"
	"math/big"
	"reflect"
	"strings"
	"time"

	"gorm.io/gorm"

	"verifharness/lib"
)

// Kind mirrors C03_Model.kind.
type Kind struct {
	K   string `json:"k"` // int uint bool str bytes float time ptr null custom ser
	W   int    `json:"w,omitempty"`
	Ser string `json:"ser,omitempty"` // json gob unix
	Of  *Kind  `json:"of,omitempty"`
}

// Val mirrors C03_Model.goval (and dbval when T is dnull/dint/dtext/dblob/dopq).
type Val struct {
	T string `json:"t"` // int bool str bytes opq nil some absent
	Z string `json:"z,omitempty"`
	B bool   `json:"b,omitempty"`
	S string `json:"s,omitempty"` // str: text ; bytes: hex
	V *Val   `json:"v,omitempty"`
}

var (
	timeType = reflect.TypeOf(time.Time{})
	zeroNs   = timeNs(time.Time{})
)

func timeNs(t time.Time) string {
	z := new(big.Int).Mul(big.NewInt(t.Unix()), big.NewInt(1000000000))
	z.Add(z, big.NewInt(int64(t.Nanosecond())))
	return z.String()
}

func nsTime(z string) time.Time {
	n, _ := new(big.Int).SetString(z, 10)
	q, m := new(big.Int).DivMod(n, big.NewInt(1000000000), new(big.Int))
	return time.Unix(q.Int64(), m.Int64()).UTC()
}

func vInt(n int64) Val    { return Val{T: "int", Z: fmt.Sprint(n)} }
func vUint(n uint64) Val  { return Val{T: "int", Z: fmt.Sprint(n)} }
func vStr(s string) Val   { return Val{T: "str", S: s} }
func vBytes(b []byte) Val { return Val{T: "bytes", S: hex.EncodeToString(b)} }
func vFloat(f float64) Val {
	return Val{T: "opq", Z: fmt.Sprint(math.Float64bits(f))}
}
func vTime(t time.Time) Val { return Val{T: "opq", Z: timeNs(t)} }
func vBool(b bool) Val      { return Val{T: "bool", B: b} }
func vSome(v Val) Val       { return Val{T: "some", V: &v} }

var vNil = Val{T: "nil"}
var vAbsent = Val{T: "absent"}

func (v Val) eq(o Val) bool {
	if v.T != o.T || v.Z != o.Z || v.B != o.B || v.S != o.S {
		return false
	}
	if (v.V == nil) != (o.V == nil) {
		return false
	}
	return v.V == nil || v.V.eq(*o.V)
}

// kindOfType derives the kind of a struct field from its Go type and serializer tag.
func kindOfType(t reflect.Type, ser string) Kind {
	if ser != "" {
		switch ser {
		case "unixtime":
			in := kindOfType(t, "")
			return Kind{K: "ser", Ser: "unix", Of: &in}
		default:
			in := Kind{K: "str"}
			if t.Kind() == reflect.Ptr || t.Kind() == reflect.Slice || t.Kind() == reflect.Map {
				in = Kind{K: "ptr", Of: &Kind{K: "str"}}
			}
			return Kind{K: "ser", Ser: ser, Of: &in}
		}
	}
	switch t {
	case timeType:
		return Kind{K: "time"}
	case reflect.TypeOf(sql.NullInt64{}):
		return Kind{K: "null", Of: &Kind{K: "int", W: 64}}
	case reflect.TypeOf(sql.NullInt32{}):
		return Kind{K: "null", Of: &Kind{K: "int", W: 32}}
	case reflect.TypeOf(sql.NullInt16{}):
		return Kind{K: "null", Of: &Kind{K: "int", W: 16}}
	case reflect.TypeOf(sql.NullByte{}):
		return Kind{K: "null", Of: &Kind{K: "uint", W: 8}}
	case reflect.TypeOf(sql.NullFloat64{}):
		return Kind{K: "null", Of: &Kind{K: "float", W: 64}}
	case reflect.TypeOf(sql.NullBool{}):
		return Kind{K: "null", Of: &Kind{K: "bool"}}
	case reflect.TypeOf(sql.NullString{}):
		return Kind{K: "null", Of: &Kind{K: "str"}}
	case reflect.TypeOf(sql.NullTime{}):
		return Kind{K: "null", Of: &Kind{K: "time"}}
	case reflect.TypeOf(Level(0)):
		return Kind{K: "custom", Of: &Kind{K: "int", W: 8}}
	case reflect.TypeOf(Tag{}):
		return Kind{K: "custom", Of: &Kind{K: "str"}}
	case reflect.TypeOf(Cents{}):
		return Kind{K: "custom", Of: &Kind{K: "int", W: 64}}
	case reflect.TypeOf(Pts{}), reflect.TypeOf(Price(0)):
		return Kind{K: "custom", Of: &Kind{K: "int", W: 64}}
	case reflect.TypeOf(Code("")):
		return Kind{K: "custom", Of: &Kind{K: "str"}}
	case reflect.TypeOf(CSV{}), reflect.TypeOf(KV{}):
		return Kind{K: "custom", Of: &Kind{K: "ptr", Of: &Kind{K: "str"}}} // stored as text, nil as NULL
	case reflect.TypeOf(gorm.DeletedAt{}):
		return Kind{K: "null", Of: &Kind{K: "time"}}
	case reflect.TypeOf(Enc("")):
		return Kind{K: "ser", Ser: "json", Of: &Kind{K: "str"}} // its own serializer, JSON text of the string
	}
	switch t.Kind() {
	case reflect.Ptr:
		in := kindOfType(t.Elem(), "")
		return Kind{K: "ptr", Of: &in}
	case reflect.Int, reflect.Int64:
		return Kind{K: "int", W: 64}
	case reflect.Int8:
		return Kind{K: "int", W: 8}
	case reflect.Int16:
		return Kind{K: "int", W: 16}
	case reflect.Int32:
		return Kind{K: "int", W: 32}
	case reflect.Uint, reflect.Uint64:
		return Kind{K: "uint", W: 64}
	case reflect.Uint8:
		return Kind{K: "uint", W: 8}
	case reflect.Uint16:
		return Kind{K: "uint", W: 16}
	case reflect.Uint32:
		return Kind{K: "uint", W: 32}
	case reflect.Float32:
		return Kind{K: "float", W: 32}
	case reflect.Float64:
		return Kind{K: "float", W: 64}
	case reflect.Bool:
		return Kind{K: "bool"}
	case reflect.String:
		return Kind{K: "str"}
	case reflect.Slice:
		if t.Elem().Kind() == reflect.Uint8 {
			return Kind{K: "bytes"}
		}
	}
	panic("kindOfType: unsupported " + t.String())
}

func canonJSON(v interface{}) string {
	b, err := json.Marshal(v)
	if err != nil {
		return "!err:" + err.Error()
	}
	return string(b)
}

// canon: Go field value -> canonical value of kind k.
func canon(k Kind, v reflect.Value) Val {
	switch k.K {
	case "int":
		return vInt(v.Int())
	case "uint":
		return vUint(v.Uint())
	case "bool":
		return vBool(v.Bool())
	case "str":
		return vStr(v.String())
	case "bytes":
		if v.IsNil() {
			return vNil
		}
		return vBytes(v.Bytes())
	case "float":
		return vFloat(v.Float())
	case "time":
		return vTime(v.Interface().(time.Time))
	case "ptr":
		if v.IsNil() {
			return vNil
		}
		return vSome(canon(*k.Of, v.Elem()))
	case "null":
		if !v.FieldByName("Valid").Bool() {
			return vNil
		}
		return vSome(canon(*k.Of, v.Field(0)))
	case "custom":
		dv, err := v.Interface().(driver.Valuer).Value()
		if err != nil {
			return vStr("!err:" + err.Error())
		}
		if k.Of.K == "ptr" { // nullable encoding
			if dv == nil {
				return vNil
			}
			return vSome(canonDyn(dv))
		}
		return canonDyn(dv)
	case "ser":
		switch k.Ser {
		case "unix":
			return canon(*k.Of, v)
		default:
			js := canonJSON(v.Interface())
			if k.Ser == "gob" && (v.Kind() == reflect.Map || v.Kind() == reflect.Slice) && v.Len() == 0 {
				js = "null" // gob does not distinguish an empty from a nil map/slice (documented in props.d)
			}
			if k.Of.K == "ptr" {
				if js == "null" {
					return vNil
				}
				return vSome(vStr(js))
			}
			return vStr(js)
		}
	}
	panic("canon: bad kind " + k.K)
}

// canonDyn: a dynamically typed value (driver.Value, map entry) -> canonical db value.
func canonDyn(x interface{}) Val {
	switch d := x.(type) {
	case nil:
		return vNil
	case int64:
		return vInt(d)
	case int:
		return vInt(int64(d))
	case int8:
		return vInt(int64(d))
	case int16:
		return vInt(int64(d))
	case int32:
		return vInt(int64(d))
	case uint:
		return vUint(uint64(d))
	case uint8:
		return vUint(uint64(d))
	case uint16:
		return vUint(uint64(d))
	case uint32:
		return vUint(uint64(d))
	case uint64:
		return vUint(d)
	case float64:
		return vFloat(d)
	case float32:
		return vFloat(float64(d))
	case bool:
		return vBool(d)
	case string:
		return vStr(d)
	case []byte:
		if d == nil {
			return vNil
		}
		return vBytes(d)
	case time.Time:
		return vTime(d)
	case driver.Valuer:
		rv := reflect.ValueOf(x)
		if rv.Kind() == reflect.Ptr && rv.IsNil() {
			return vNil
		}
		dv, err := d.Value()
		if err != nil {
			return vStr("!err:" + err.Error())
		}
		return canonDyn(dv)
	}
	rv := reflect.ValueOf(x)
	if rv.Kind() == reflect.Ptr {
		if rv.IsNil() {
			return vNil
		}
		return canonDyn(rv.Elem().Interface())
	}
	return vStr(fmt.Sprintf("!dyn:%T:%v", x, x))
}

// build: canonical value -> Go value of type t (inverse of canon on generated values).
func build(k Kind, val Val, t reflect.Type) reflect.Value {
	out := reflect.New(t).Elem()
	if val.T == "absent" {
		return out
	}
	switch k.K {
	case "int":
		n, _ := new(big.Int).SetString(val.Z, 10)
		out.SetInt(n.Int64())
	case "uint":
		n, _ := new(big.Int).SetString(val.Z, 10)
		out.SetUint(n.Uint64())
	case "bool":
		out.SetBool(val.B)
	case "str":
		out.SetString(val.S)
	case "bytes":
		if val.T != "nil" {
			b, _ := hex.DecodeString(val.S)
			if b == nil {
				b = []byte{}
			}
			out.SetBytes(b)
		}
	case "float":
		n, _ := new(big.Int).SetString(val.Z, 10)
		out.SetFloat(math.Float64frombits(n.Uint64()))
	case "time":
		if val.Z != zeroNs {
			out.Set(reflect.ValueOf(nsTime(val.Z)))
		}
	case "ptr":
		if val.T != "nil" {
			p := reflect.New(t.Elem())
			p.Elem().Set(build(*k.Of, *val.V, t.Elem()))
			out.Set(p)
		}
	case "null":
		if val.T != "nil" {
			out.Field(0).Set(build(*k.Of, *val.V, t.Field(0).Type))
			out.FieldByName("Valid").SetBool(true)
		}
	case "custom":
		switch t {
		case reflect.TypeOf(Level(0)):
			n, _ := new(big.Int).SetString(val.Z, 10)
			out.SetInt(n.Int64())
		case reflect.TypeOf(Tag{}):
			out.Field(0).SetString(val.S[4:])
		case reflect.TypeOf(Price(0)):
			n, _ := new(big.Int).SetString(val.Z, 10)
			out.SetInt(n.Int64() / 100)
		case reflect.TypeOf(Code("")):
			out.SetString(strings.TrimPrefix(val.S, "enc:"))
		case reflect.TypeOf(CSV{}), reflect.TypeOf(KV{}):
			if val.T == "some" {
				p := reflect.New(t)
				if err := p.Interface().(sql.Scanner).Scan(val.V.S); err != nil {
					panic(err)
				}
				out.Set(p.Elem())
			}
		case reflect.TypeOf(Cents{}), reflect.TypeOf(Pts{}):
			n, _ := new(big.Int).SetString(val.Z, 10)
			out.Field(0).SetInt(n.Int64())
		}
	case "ser":
		switch k.Ser {
		case "unix":
			return build(*k.Of, val, t)
		default:
			js := "null"
			switch {
			case val.T == "str":
				js = val.S
			case val.T == "some":
				js = val.V.S
			}
			p := reflect.New(t)
			if err := json.Unmarshal([]byte(js), p.Interface()); err != nil {
				panic("build: " + err.Error() + " on " + js)
			}
			out.Set(p.Elem())
		}
	}
	return out
}

// gobDecodeJSON decodes stored gob bytes into a value of type t and renders its canonical JSON.
func gobDecodeJSON(b []byte, t reflect.Type) string {
	p := reflect.New(t)
	if err := gob.NewDecoder(bytes.NewReader(b)).Decode(p.Interface()); err != nil {
		return "!gob:" + err.Error()
	}
	v := p.Elem()
	if (v.Kind() == reflect.Map || v.Kind() == reflect.Slice) && v.Len() == 0 {
		return "null"
	}
	return canonJSON(v.Interface())
}

// ---- Gallina printers ----

func gKind(k Kind) string {
	switch k.K {
	case "int":
		return lib.App("KInt", lib.Z(int64(k.W)))
	case "uint":
		return lib.App("KUint", lib.Z(int64(k.W)))
	case "bool":
		return "KBool"
	case "str":
		return "KStr"
	case "bytes":
		return "KBytes"
	case "float":
		return lib.App("KFloat", lib.Z(int64(k.W)))
	case "time":
		return "KTime"
	case "ptr":
		return lib.App("KPtr", gKind(*k.Of))
	case "null":
		return lib.App("KNull", gKind(*k.Of))
	case "custom":
		return lib.App("KCustom", gKind(*k.Of))
	case "ser":
		s := map[string]string{"json": "SJson", "gob": "SGob", "unix": "SUnix"}[k.Ser]
		return lib.App("KSer", s, gKind(*k.Of))
	}
	panic("gKind")
}

func gZ(z string) string {
	if len(z) > 0 && z[0] == '-' {
		return "(" + z + ")%Z"
	}
	return z + "%Z"
}

// gVal prints a goval.
func gVal(v Val) string {
	switch v.T {
	case "int":
		return lib.App("GInt", gZ(v.Z))
	case "bool":
		return lib.App("GBool", lib.Bool(v.B))
	case "str":
		return lib.App("GStr", lib.Str(v.S))
	case "bytes":
		b, _ := hex.DecodeString(v.S)
		return lib.App("GBytes", gBytes(b))
	case "opq":
		return lib.App("GOpq", gZ(v.Z))
	case "nil":
		return "GNil"
	case "absent":
		return "GAbsent"
	case "some":
		return lib.App("GSome", gVal(*v.V))
	}
	panic("gVal " + v.T)
}

// gDb prints a dbval (same JSON carrier; T in int str bytes opq nil).
func gDb(v Val) string {
	switch v.T {
	case "int":
		return lib.App("DInt", gZ(v.Z))
	case "bool":
		if v.B {
			return "(DInt 1%Z)"
		}
		return "(DInt 0%Z)"
	case "str":
		return lib.App("DText", lib.Str(v.S))
	case "bytes":
		b, _ := hex.DecodeString(v.S)
		return lib.App("DBlob", gBytes(b))
	case "opq":
		return lib.App("DOpq", gZ(v.Z))
	case "nil":
		return "DNull"
	}
	panic("gDb " + v.T)
}

// bytes are printed as a list of Z (Coq strings cannot hold NUL conveniently)
func gBytes(b []byte) string {
	xs := make([]string, len(b))
	for i, c := range b {
		xs[i] = fmt.Sprintf("%d%%Z", c)
	}
	return lib.List(xs)
}
