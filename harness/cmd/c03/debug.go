package main

import (
	"fmt"
	"os"
)

// debugCompare: developer aid only (C03_DEBUG=1); the verdict is computed in Coq.
func debugCompare(id int, in Input, o Obs) {
	d := descOf(in.Type)
	norm := func(f *FDesc, v Val) Val {
		if v.T == "absent" {
			return zeroVal(f.Kind)
		}
		return v
	}
	for i := range in.Recs {
		for name, got := range map[string][][]Val{"find": o.Find, "first": o.First, "take": o.Take} {
			if len(got[i]) == 0 || len(o.After[i]) == 0 {
				if o.Err == "" {
					fmt.Fprintf(os.Stderr, "DBG case %d %s %s noret=%v rec %d: no %s result\n", id, in.Type, in.Op, in.NoRet, i, name)
				}
				continue
			}
			for j, f := range d.Fields {
				if !norm(f, o.After[i][j]).eq(norm(f, got[i][j])) {
					fmt.Fprintf(os.Stderr, "DBG case %d %s %s noret=%v rec %d col %s: after=%v %s=%v before=%v\n", id, in.Type, in.Op, in.NoRet, i, f.Col, o.After[i][j], name, got[i][j], in.Recs[i][j])
				}
			}
		}
		if len(o.After[i]) > 0 {
			for j, f := range d.Fields {
				b := in.Recs[i][j]
				if b.T == "absent" || b.eq(zeroVal(f.Kind)) {
					continue
				}
				if !b.eq(o.After[i][j]) {
					fmt.Fprintf(os.Stderr, "DBG case %d %s %s noret=%v rec %d col %s: before=%v after=%v\n", id, in.Type, in.Op, in.NoRet, i, f.Col, b, o.After[i][j])
				}
			}
		}
	}
	for i := range in.Recs {
		for name, got := range map[string][][]Val{"mmap": o.MMap, "tmap": o.TMap} {
			if len(got[i]) == 0 || len(o.Rows[i]) == 0 {
				continue
			}
			for j, f := range d.Fields {
				if !o.Rows[i][j].eq(got[i][j]) && !(o.Rows[i][j].T == "bool" || got[i][j].T == "bool") {
					fmt.Fprintf(os.Stderr, "DBG case %d %s rec %d col %s: row=%v %s=%v\n", id, in.Type, i, f.Col, o.Rows[i][j], name, got[i][j])
				}
			}
		}
	}
	if o.Err == "" && o.RowCount != int64(len(in.Recs)) {
		fmt.Fprintf(os.Stderr, "DBG case %d %s %s: rowcount %d for %d records\n", id, in.Type, in.Op, o.RowCount, len(in.Recs))
	}
}
