// engine.go — runs ONE C13 operation on real gorm + SQLite (through the recording driver) with
// instrumented model types, and observes the hook event log, the driver events, the error and
// the tables.
package main

import (
	"context"
	"database/sql"
	"errors"
	"fmt"
	"reflect"
	"regexp"
	"sort"
	"strconv"
	"strings"

	"gorm.io/gorm"
	"gorm.io/gorm/clause"

	"verifharness/gdb"
	"verifharness/recdrv"
)

var hookNames = []string{"BeforeSave", "BeforeCreate", "AfterCreate", "AfterSave", "BeforeUpdate", "AfterUpdate",
	"BeforeDelete", "AfterDelete", "AfterFind"}

// RecIn is one in-memory record handed to gorm.
type RecIn struct {
	ID   int64  `json:"id"`  // primary key (0 = let the database choose)
	Tag  int64  `json:"tag"` // identity of the in-memory record (unique over the whole case)
	Val  int64  `json:"val"`
	Nil  bool   `json:"nil,omitempty"`  // pointer-element shapes only: the element is a nil pointer
	Boss *RecIn `json:"boss,omitempty"` // belongs-to (saved before the record)
	// BossIx: the record's belongs-to value is the SHARED in-memory record Input.Shared[BossIx-1]
	// (the same pointer in every owner that names it); 0 = none
	BossIx int     `json:"boss_ix,omitempty"`
	Kids   []RecIn `json:"kids,omitempty"` // has-many, slice of values
	Pets   []RecIn `json:"pets,omitempty"` // has-many, slice of pointers
}

// Row is a stored row of one of the tables.
type Row struct {
	Tbl   string `json:"tbl"` // recs | bosses | kids | pets
	ID    int64  `json:"id"`
	Tag   int64  `json:"tag"`
	Val   int64  `json:"val"`
	Owner int64  `json:"owner,omitempty"` // seeded kids / pets: owner_id (their tag is owner*1000 + j)
}

// Input is one case.
type Input struct {
	Op     string  `json:"op"`                      // create save update updates update_column update_columns delete find first
	Type   string  `json:"type"`                    // T0..T11
	Shape  string  `json:"shape"`                   // [ptr_]struct | [ptr_]slice_{val,ptr} | [ptr_]array_{val,ptr}
	Recs   []RecIn `json:"recs"`                    // the in-memory records (struct shapes: exactly one)
	Shared []RecIn `json:"shared_bosses,omitempty"` // belongs-to records shared by several owners (RecIn.BossIx)
	// Graph: a cyclic in-memory graph over the has-many Kids of the records:
	//   keeper_cycle: every Kid points (belongs-to) to ONE shared Keeper (GraphKeeper) whose has-many Wards are those very Kids
	//   owner_back:   every Kid points back (belongs-to OwnerT1) to the T1 record that owns it
	Graph       string `json:"graph,omitempty"`
	GraphKeeper *RecIn `json:"graph_keeper,omitempty"`
	Seed        []Row  `json:"seed"` // rows present before the operation
	Skip        bool   `json:"skip_hooks"`
	TxMode      string `json:"tx_mode"` // default | outer | skipdefault
	Fails       []int  `json:"fails"`   // hook invocations (0-based, counted over the whole operation) that return an error
	Sets        []int  `json:"sets"`    // hook invocations at which the hook calls tx.Statement.SetColumn("Val", 1000+k)
	Pay         int64  `json:"pay"`     // update payload for Val (update/updates/update_column(s))
	PayVia      string `json:"pay_via"` // map_db (key "val") | map_field (key "Val") | struct (T{...}) | struct_ptr (&T{...})
	SetKey      string `json:"set_key"` // name the hooks pass to SetColumn: field ("Val") | db ("val")
	Limit       int64  `json:"limit"`   // find: rows with tag <= Limit are selected
	// FailKind: what a failing hook returns: "" = errors.New-style "E<k>"; otherwise "E<k>: %w" wrapping one
	// of gorm's own sentinel errors: not_found | invalid_tx | missing_where | invalid_value | empty_slice | invalid_data
	FailKind    string `json:"fail_kind,omitempty"`
	Batch       int    `json:"batch,omitempty"`        // create_in_batches: batch size
	NoReturning bool   `json:"no_returning,omitempty"` // the dialector believes SQLite has no RETURNING: Exec + LastInsertId path of Create
	Returning   bool   `json:"returning,omitempty"`    // update / delete with Clauses(clause.Returning{})
	SetAll      bool   `json:"set_all,omitempty"`      // hooks call SetColumn(name, v, true)
	DelAssoc    int    `json:"del_assoc,omitempty"`    // delete: Select("Kids") = 1, Select("Pets") = 2
	Preload     bool   `json:"preload,omitempty"`      // find / first: Preload("Kids").Preload("Pets")
	SetAfter    bool   `json:"set_after,omitempty"`    // the marked invocations of AfterCreate/Update/Save/Delete also go through the statement: Changed + SetColumn
}

// Ev is one hook invocation as the hook itself saw it.
type Ev struct {
	Hook   string `json:"hook"`
	Type   string `json:"type"`
	Tag    int64  `json:"tag"`
	K      int    `json:"k"`       // invocation number
	Tx     int    `json:"tx"`      // transaction id of the probe statement issued from inside the hook through tx
	PErr   string `json:"perr"`    // error of the probe ("" = ok)
	PoolTx bool   `json:"pool_tx"` // tx.Statement.ConnPool is a transaction
	marker string
	pos    int // number of recorded driver events when the hook was entered
}

// TEv is one element of the merged trace: a hook invocation (placed where its probe statement reached
// the driver) or a driver call of the operation.
type TEv struct {
	K     string `json:"k"` // hook | begin | commit | rollback | stmt
	Hook  string `json:"hook,omitempty"`
	Type  string `json:"type,omitempty"`
	Tag   int64  `json:"tag,omitempty"`
	Pool  int    `json:"pool"` // 0 = no transaction, n = n-th transaction begun since the start of the case, -1 = unknown
	Verb  string `json:"verb,omitempty"`
	Table string `json:"table,omitempty"`
}

// Obs is what was observed.
type Obs struct {
	Log       []Ev     `json:"log"`
	Trace     []TEv    `json:"trace"`
	Errs      []string `json:"errs"`        // result.Error split at "; "  (E<k> = error injected at invocation k)
	ErrIsLast bool     `json:"err_is_last"` // errors.Is(result.Error, the error object injected last)
	Begins    int      `json:"begins"`
	Commits   int      `json:"commits"`
	Rollbacks int      `json:"rollbacks"`
	After     []Row    `json:"after"` // all tables afterwards
	RA        int64    `json:"ra"`
	Mem       []Row    `json:"mem"`  // the in-memory records afterwards (top level): id, tag, val
	Kids      []int64  `json:"kids"` // tags of the Kid / Pet values found in the in-memory records afterwards
	Pets      []int64  `json:"pets"`
	Panic     string   `json:"panic"`
}

// ---------------------------------------------------------------- environment of the hooks

type env struct {
	rec      *recdrv.Recorder
	log      []Ev
	inv      int
	fails    map[int]bool
	sets     map[int]bool
	setKey   string
	failKind string
	setAll   bool
	setAfter bool
	updating bool
	errs     map[int]error
	last     error
}

var E *env

var probeSeq int

func hk(tx *gorm.DB, hook, typ string, tag int64) error {
	k := E.inv
	E.inv++
	ev := Ev{Hook: hook, Type: typ, Tag: tag, K: k}
	defer func() { E.log = append(E.log, ev) }()
	_, ev.PoolTx = tx.Statement.ConnPool.(gorm.TxCommitter)
	ev.pos = len(E.rec.Snapshot())
	// probe: a statement issued from inside the hook through the handle the hook was given
	probeSeq++
	marker := fmt.Sprintf("probe-%d", probeSeq)
	var got string
	if err := tx.Raw("SELECT ? -- c13probe", marker).Scan(&got).Error; err != nil {
		ev.PErr = err.Error()
	}
	ev.Tx = -1
	for _, e := range E.rec.Snapshot() {
		if len(e.Args) == 1 && e.Args[0] == marker && (e.Kind == "query" || e.Kind == "stmt_query") {
			ev.Tx = e.Tx
		}
	}
	ev.marker = marker
	afterWrite := hook == "AfterCreate" || hook == "AfterUpdate" || hook == "AfterSave" || hook == "AfterDelete"
	if E.sets[k] && E.setAfter && afterWrite && E.updating {
		_ = tx.Statement.Changed("Val") // documented for updates (a payload next to the model)
	}
	if E.sets[k] && (hook == "BeforeSave" || hook == "BeforeCreate" || hook == "BeforeUpdate" || (E.setAfter && afterWrite)) {
		if E.setAll {
			tx.Statement.SetColumn(E.setKey, int64(1000+k), true)
		} else {
			tx.Statement.SetColumn(E.setKey, int64(1000+k))
		}
	}
	if E.fails[k] {
		err := fmt.Errorf("E%d", k)
		if w, ok := sentinels[E.failKind]; ok {
			err = fmt.Errorf("E%d: %w", k, w)
		}
		E.errs[k] = err
		E.last = err
		return err
	}
	return nil
}

var sentinels = map[string]error{"not_found": gorm.ErrRecordNotFound, "invalid_tx": gorm.ErrInvalidTransaction,
	"missing_where": gorm.ErrMissingWhereClause, "invalid_value": gorm.ErrInvalidValue, "empty_slice": gorm.ErrEmptySlice,
	"invalid_data": gorm.ErrInvalidData}

// ---------------------------------------------------------------- database

type World struct {
	DB    *gorm.DB
	Rec   *recdrv.Recorder
	SQL   *sql.DB
	Types map[string]typeInfo
}

func OpenWorld(dsn string, noReturning bool) *World {
	db, rec, sqlDB, err := gdb.Open(gdb.Opt{DSN: dsn, NoReturning: noReturning, Config: &gorm.Config{DisableForeignKeyConstraintWhenMigrating: true}})
	if err != nil {
		panic(err)
	}
	w := &World{DB: db, Rec: rec, SQL: sqlDB, Types: map[string]typeInfo{}}
	E = &env{rec: rec, fails: map[int]bool{}, sets: map[int]bool{}, errs: map[int]error{}}
	for _, ti := range typeList {
		w.Types[ti.Name] = ti
		if err := db.Session(&gorm.Session{SkipHooks: true}).AutoMigrate(reflect.New(ti.T).Interface()); err != nil {
			panic(err)
		}
	}
	return w
}

var tables = []string{"recs", "bosses", "kids", "pets", "keepers"}

func (w *World) dump() []Row {
	out := []Row{}
	for _, t := range tables {
		rows, err := w.SQL.Query("SELECT id, tag, val FROM " + t + " ORDER BY tag, id")
		if err != nil {
			panic(err)
		}
		for rows.Next() {
			r := Row{Tbl: t}
			if err := rows.Scan(&r.ID, &r.Tag, &r.Val); err != nil {
				panic(err)
			}
			out = append(out, r)
		}
		rows.Close()
	}
	return out
}

func (w *World) reset(seed []Row) {
	for _, t := range tables {
		if _, err := w.SQL.Exec("DELETE FROM " + t); err != nil {
			panic(err)
		}
	}
	w.SQL.Exec("DELETE FROM sqlite_sequence")
	for _, r := range seed {
		var err error
		if r.Tbl == "kids" || r.Tbl == "pets" {
			_, err = w.SQL.Exec("INSERT INTO "+r.Tbl+" (id, tag, val, owner_id) VALUES (?,?,?,?)", r.ID, r.Tag, r.Val, r.Owner)
		} else {
			_, err = w.SQL.Exec("INSERT INTO "+r.Tbl+" (id, tag, val) VALUES (?,?,?)", r.ID, r.Tag, r.Val)
		}
		if err != nil {
			panic(err)
		}
	}
}

// ---------------------------------------------------------------- building the argument

// sharedBoss holds the in-memory shared belongs-to records of the case being built
var sharedBoss []*Boss

// cyclic graph of the case being built
var (
	graphMode   string
	graphKeeper *Keeper
)

func setRec(v reflect.Value, r RecIn) {
	v.FieldByName("ID").SetInt(r.ID)
	v.FieldByName("Tag").SetInt(r.Tag)
	v.FieldByName("Val").SetInt(r.Val)
	if f := v.FieldByName("Boss"); f.IsValid() && r.Boss != nil {
		b := &Boss{ID: r.Boss.ID, Tag: r.Boss.Tag, Val: r.Boss.Val}
		f.Set(reflect.ValueOf(b))
	}
	if f := v.FieldByName("Boss"); f.IsValid() && r.BossIx > 0 && r.BossIx <= len(sharedBoss) {
		f.Set(reflect.ValueOf(sharedBoss[r.BossIx-1]))
	}
	if f := v.FieldByName("Kids"); f.IsValid() && len(r.Kids) > 0 {
		ks := make([]Kid, len(r.Kids))
		for i, k := range r.Kids {
			ks[i] = Kid{ID: k.ID, Tag: k.Tag, Val: k.Val}
		}
		f.Set(reflect.ValueOf(ks))
		switch graphMode {
		case "keeper_cycle":
			for i := range ks {
				ks[i].Keeper = graphKeeper
				graphKeeper.Wards = append(graphKeeper.Wards, &ks[i])
			}
		case "owner_back":
			if v.CanAddr() {
				if owner, ok := v.Addr().Interface().(*T1); ok {
					for i := range ks {
						ks[i].OwnerT1 = owner
					}
				}
			}
		}
	}
	if f := v.FieldByName("Pets"); f.IsValid() && len(r.Pets) > 0 {
		ps := make([]*Pet, len(r.Pets))
		for i, k := range r.Pets {
			ps[i] = &Pet{ID: k.ID, Tag: k.Tag, Val: k.Val}
		}
		f.Set(reflect.ValueOf(ps))
	}
}

// build returns the value to hand to gorm and a reader of the in-memory records afterwards.
// association values found in the in-memory records by the last mem() call
var memKids, memPets []int64

func build(t reflect.Type, shape string, recs []RecIn) (arg interface{}, mem func() []Row) {
	outerPtr := strings.HasPrefix(shape, "ptr_")
	base := strings.TrimPrefix(shape, "ptr_")
	readOne := func(v reflect.Value) Row {
		for v.Kind() == reflect.Ptr {
			if v.IsNil() {
				return Row{Tbl: "nil"}
			}
			v = v.Elem()
		}
		if f := v.FieldByName("Kids"); f.IsValid() {
			for i := 0; i < f.Len(); i++ {
				memKids = append(memKids, f.Index(i).FieldByName("Tag").Int())
			}
		}
		if f := v.FieldByName("Pets"); f.IsValid() {
			for i := 0; i < f.Len(); i++ {
				if p := f.Index(i); !p.IsNil() {
					memPets = append(memPets, p.Elem().FieldByName("Tag").Int())
				}
			}
		}
		return Row{Tbl: "mem", ID: v.FieldByName("ID").Int(), Tag: v.FieldByName("Tag").Int(), Val: v.FieldByName("Val").Int()}
	}
	switch base {
	case "struct":
		p := reflect.New(t)
		if len(recs) > 0 {
			setRec(p.Elem(), recs[0])
		}
		if outerPtr {
			return p.Interface(), func() []Row { return []Row{readOne(p)} }
		}
		return p.Elem().Interface(), func() []Row { return []Row{readOne(p)} }
	case "slice_val", "slice_ptr", "array_val", "array_ptr":
		et := t
		if strings.HasSuffix(base, "_ptr") {
			et = reflect.PointerTo(t)
		}
		var ct reflect.Type
		if strings.HasPrefix(base, "slice") {
			ct = reflect.SliceOf(et)
		} else {
			ct = reflect.ArrayOf(len(recs), et)
		}
		p := reflect.New(ct)
		if strings.HasPrefix(base, "slice") {
			p.Elem().Set(reflect.MakeSlice(ct, len(recs), len(recs)))
		}
		for i, r := range recs {
			e := p.Elem().Index(i)
			if et.Kind() == reflect.Ptr {
				if r.Nil {
					continue
				}
				e.Set(reflect.New(t))
				e = e.Elem()
			}
			setRec(e, r)
		}
		mem = func() []Row {
			out := []Row{}
			for i := 0; i < p.Elem().Len(); i++ {
				out = append(out, readOne(p.Elem().Index(i)))
			}
			return out
		}
		if outerPtr {
			return p.Interface(), mem
		}
		return p.Elem().Interface(), mem
	}
	panic("unknown shape " + shape)
}

// ---------------------------------------------------------------- running

var stmtRe = regexp.MustCompile("(?i)^\\s*(INSERT INTO|UPDATE|DELETE FROM|SELECT .*? FROM)\\s+[`\"]?(\\w+)")

func classify(q string) string {
	if strings.Contains(q, "c13probe") {
		return ""
	}
	m := stmtRe.FindStringSubmatch(q)
	if m == nil {
		return ""
	}
	verb := strings.ToUpper(strings.Fields(m[1])[0])
	return verb + " " + strings.ToLower(m[2])
}

func ids(recs []RecIn) []int64 {
	out := []int64{}
	for _, r := range recs {
		out = append(out, r.ID)
	}
	return out
}

func (w *World) Run(in Input) (o Obs) {
	ti, ok := w.Types[in.Type]
	if !ok {
		panic("unknown type " + in.Type)
	}
	w.reset(in.Seed)
	E.rec = w.Rec
	E.log, E.inv, E.last = nil, 0, nil
	E.fails, E.sets, E.errs = map[int]bool{}, map[int]bool{}, map[int]error{}
	for _, k := range in.Fails {
		E.fails[k] = true
	}
	for _, k := range in.Sets {
		E.sets[k] = true
	}
	E.failKind = in.FailKind
	E.setAll = in.SetAll
	E.setAfter = in.SetAfter
	E.updating = in.Op == "update" || in.Op == "updates"
	E.setKey = "Val"
	if in.SetKey == "db" {
		E.setKey = "val"
	}
	sharedBoss = nil
	for _, b := range in.Shared {
		sharedBoss = append(sharedBoss, &Boss{ID: b.ID, Tag: b.Tag, Val: b.Val})
	}
	graphMode, graphKeeper = in.Graph, nil
	if in.Graph == "keeper_cycle" && in.GraphKeeper != nil {
		graphKeeper = &Keeper{ID: in.GraphKeeper.ID, Tag: in.GraphKeeper.Tag, Val: in.GraphKeeper.Val}
	}
	arg, mem := build(ti.T, in.Shape, in.Recs)

	db := w.DB.Session(&gorm.Session{SkipHooks: in.Skip, SkipDefaultTransaction: in.TxMode == "skipdefault"})
	var outer *gorm.DB
	w.Rec.Reset()
	if in.TxMode == "outer" {
		outer = db.Begin()
		if outer.Error != nil {
			panic(outer.Error)
		}
		db = outer
	}
	var res *gorm.DB
	func() {
		defer func() {
			if p := recover(); p != nil {
				o.Panic = fmt.Sprint(p)
			}
		}()
		if in.Returning {
			db = db.Clauses(clause.Returning{})
		}
		model := func() *gorm.DB { return db.Model(arg) }
		var payload interface{}
		payKey := "val"
		if in.PayVia == "map_field" {
			payKey = "Val"
		}
		if in.PayVia == "struct" || in.PayVia == "struct_ptr" {
			pv := reflect.New(ti.T)
			pv.Elem().FieldByName("Val").SetInt(in.Pay)
			payload = pv.Elem().Interface() // Updates(T{...})
			if in.PayVia == "struct_ptr" {
				payload = pv.Interface() // Updates(&T{...}): the payload is itself a pointer to a value of the model's type
			}
		} else {
			payload = map[string]interface{}{payKey: in.Pay}
		}
		switch in.Op {
		case "create":
			res = db.Create(arg)
		case "create_in_batches":
			res = db.CreateInBatches(arg, in.Batch)
		case "save":
			res = db.Save(arg)
		case "update":
			res = model().Update(payKey, in.Pay)
		case "updates":
			res = model().Updates(payload)
		case "update_column":
			res = model().UpdateColumn(payKey, in.Pay)
		case "update_columns":
			res = model().UpdateColumns(payload)
		case "delete":
			d := db
			switch in.DelAssoc {
			case 1:
				d = d.Select("Kids")
			case 2:
				d = d.Select("Pets")
			}
			res = d.Delete(arg)
		case "find":
			q := db.Where("tag <= ?", in.Limit).Order("tag")
			if in.Preload {
				q = q.Preload("Kids").Preload("Pets")
			}
			res = q.Find(arg)
		case "first":
			q := db.Where("tag <= ?", in.Limit).Order(clause.OrderByColumn{Column: clause.Column{Name: "tag"}})
			if in.Preload {
				q = q.Preload("Kids").Preload("Pets")
			}
			res = q.First(arg)
		default:
			panic("unknown op " + in.Op)
		}
	}()
	if outer != nil {
		// the caller's decision: roll back on error, commit otherwise
		if o.Panic != "" || (res != nil && res.Error != nil) {
			outer.Rollback()
		} else {
			outer.Commit()
		}
	}
	evs := w.Rec.Snapshot()
	o.Log = append([]Ev{}, E.log...)
	if res != nil {
		o.RA = res.RowsAffected
		if res.Error != nil {
			o.Errs = strings.Split(res.Error.Error(), "; ")
			for i, s := range o.Errs {
				o.Errs[i] = normErr(s, res.Error)
			}
			o.ErrIsLast = E.last != nil && errors.Is(res.Error, E.last)
		}
	}
	if o.Errs == nil {
		o.Errs = []string{}
	}
	// merged trace
	ord := map[int]int{0: 0} // raw transaction id -> ordinal
	for _, e := range evs {
		if e.Kind == "begin" {
			ord[e.Tx] = len(ord)
		}
	}
	pool := func(tx int) int {
		if n, ok := ord[tx]; ok {
			return n
		}
		return -1
	}
	o.Trace = []TEv{}
	hi := 0
	flushHooks := func(upto int) {
		for hi < len(o.Log) && o.Log[hi].pos <= upto {
			h := o.Log[hi]
			o.Trace = append(o.Trace, TEv{K: "hook", Hook: h.Hook, Type: h.Type, Tag: h.Tag, Pool: pool(h.Tx)})
			hi++
		}
	}
	for i, e := range evs {
		flushHooks(i)
		switch e.Kind {
		case "begin":
			o.Begins++
			o.Trace = append(o.Trace, TEv{K: "begin"})
		case "commit":
			o.Commits++
			o.Trace = append(o.Trace, TEv{K: "commit"})
		case "rollback":
			o.Rollbacks++
			o.Trace = append(o.Trace, TEv{K: "rollback"})
		case "exec", "query", "stmt_exec", "stmt_query":
			if c := classify(e.Query); c != "" {
				f := strings.Fields(c)
				o.Trace = append(o.Trace, TEv{K: "stmt", Verb: f[0], Table: f[1], Pool: pool(e.Tx)})
			}
		}
	}
	flushHooks(len(evs) + 1)
	o.After = w.dump()
	memKids, memPets = []int64{}, []int64{}
	o.Mem = mem()
	o.Kids, o.Pets = memKids, memPets
	return o
}

func normErr(s string, full error) string {
	if m := regexp.MustCompile(`^(E\d+)(: .*)?$`).FindStringSubmatch(s); m != nil {
		return m[1]
	}
	switch s {
	case gorm.ErrInvalidValue.Error():
		return "ErrInvalidValue"
	case gorm.ErrRecordNotFound.Error():
		return "ErrRecordNotFound"
	case gorm.ErrMissingWhereClause.Error():
		return "ErrMissingWhereClause"
	case gorm.ErrInvalidData.Error():
		return "ErrInvalidData"
	}
	return "other:" + s
}

func sortRows(rs []Row) {
	sort.Slice(rs, func(i, j int) bool {
		if rs[i].Tbl != rs[j].Tbl {
			return rs[i].Tbl < rs[j].Tbl
		}
		if rs[i].Tag != rs[j].Tag {
			return rs[i].Tag < rs[j].Tag
		}
		return rs[i].ID < rs[j].ID
	})
}

var _ = context.Background
var _ = strconv.Itoa
