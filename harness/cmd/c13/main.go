// c13: hooks run once per record, in documented order, in the operation's transaction.
// Runs generated operations on real gorm + SQLite (recording driver) over instrumented model types
// (types_gen.go: 12 configurations of hook presence x receiver kind, plus Boss/Kid/Pet association
// types with hooks of their own) and writes, per case, the operation as executed and what was
// observed: the merged trace of hook invocations (record identity, transaction of a probe statement
// issued from inside the hook) and driver calls, the accumulated error, the tables afterwards.
package main

import (
	"encoding/json"
	"fmt"
	"os"
	"sort"
	"strings"

	"verifharness/lib"
)

// ---------------------------------------------------------------- Gallina printing

func tyIndex(name string) int {
	for i, ti := range typeList {
		if ti.Name == name {
			return i
		}
	}
	panic("type " + name)
}

func gTy(name string) string {
	ti := typeList[tyIndex(name)]
	args := []string{lib.Z(int64(tyIndex(name)))}
	for _, c := range ti.Recv {
		switch c {
		case 'P':
			args = append(args, "RPtr")
		case 'V':
			args = append(args, "RVal")
		default:
			args = append(args, "RNo")
		}
	}
	return lib.App("mk_ty", args...)
}

func gShape(sh string) string {
	outer := strings.HasPrefix(sh, "ptr_")
	base := strings.TrimPrefix(sh, "ptr_")
	cont := "CStruct"
	if strings.HasPrefix(base, "slice") {
		cont = "CSlice"
	} else if strings.HasPrefix(base, "array") {
		cont = "CArray"
	}
	return lib.App("mk_shape", cont, lib.Bool(outer), lib.Bool(strings.HasSuffix(base, "_ptr")))
}

func gRec(r RecIn) string {
	return lib.App("mk_rec", lib.Z(r.ID), lib.Z(r.Tag), lib.Z(r.Val), lib.Bool(r.Nil))
}

func gTable(t string) string {
	return map[string]string{"recs": "TRecs", "bosses": "TBosses", "kids": "TKids", "pets": "TPets", "keepers": "TKeepers"}[t]
}

func gRow(r Row) string { return "(" + gTable(r.Tbl) + ", " + lib.Z(r.Tag) + ", " + lib.Z(r.Val) + ")" }

func gInts(xs []int) string {
	out := make([]string, len(xs))
	for i, x := range xs {
		out[i] = lib.Z(int64(x))
	}
	return lib.List(out)
}

func gTEv(e TEv) string {
	switch e.K {
	case "hook":
		return lib.App("THook", e.Hook, lib.Z(int64(tyIndex(e.Type))), lib.Z(e.Tag), lib.Z(int64(e.Pool)))
	case "begin":
		return "TBegin"
	case "commit":
		return "TCommit"
	case "rollback":
		return "TRollback"
	}
	verb := map[string]string{"INSERT": "VInsert", "UPDATE": "VUpdate", "DELETE": "VDelete", "SELECT": "VSelect"}[e.Verb]
	tb := gTable(e.Table)
	if tb == "" {
		tb = "TRecs"
		verb = "VSelect" // an unknown table: make it disagree visibly
		return lib.App("TStmt", verb, tb, lib.Z(-7))
	}
	return lib.App("TStmt", verb, tb, lib.Z(int64(e.Pool)))
}

func gErr(s string) string {
	if strings.HasPrefix(s, "E") && len(s) > 1 && s[1] >= '0' && s[1] <= '9' {
		return lib.App("EInj", lib.Z(atoi(s[1:])))
	}
	switch s {
	case "ErrInvalidValue":
		return "EInvalidValue"
	case "ErrRecordNotFound":
		return "ERecordNotFound"
	case "ErrMissingWhereClause":
		return "EMissingWhere"
	case "other:empty slice found":
		return "EEmptySlice"
	}
	if strings.Contains(s, "unsupported data") || s == "ErrInvalidData" {
		return "EInvalidData"
	}
	return lib.App("EInj", lib.Z(-999)) // unknown error: never equal to a model error
}

func atoi(s string) int64 {
	var n int64
	fmt.Sscan(s, &n)
	return n
}

// assocLists mirrors how SaveBefore/AfterAssociations collect the association values of the records.
func assocLists(in Input) (boss, kids, pets []RecIn) {
	single := strings.HasSuffix(in.Shape, "struct")
	seen := map[int64]bool{} // SaveBeforeAssociations (slice branch): belongs-to values with a primary key are saved once per key
	for _, r := range in.Recs {
		if r.Nil {
			continue
		}
		var b *RecIn
		if r.Boss != nil {
			b = r.Boss
		} else if r.BossIx > 0 && r.BossIx <= len(in.Shared) {
			b = &in.Shared[r.BossIx-1]
		}
		if b != nil {
			// identity of a belongs-to value: its primary key; without one, the in-memory value itself
			// (shared records only) when the tree de-duplicates keyless values (see probeKeyless)
			key := b.ID
			if key == 0 && keylessSavedOnce && r.Boss == nil {
				key = -int64(r.BossIx)
			}
			if single || key == 0 || !seen[key] {
				boss = append(boss, *b)
			}
			if key != 0 {
				seen[key] = true
			}
		}
		kids = append(kids, r.Kids...)
		pets = append(pets, r.Pets...)
	}
	return
}

func gRecs(rs []RecIn) string { return lib.ListOf(rs, gRec) }

func term(in Input, o Obs) string {
	kind := map[string]string{"create_in_batches": fmt.Sprintf("(OCreateInBatches %s)", lib.Z(int64(in.Batch))), "create": "OCreate", "save": "OSave", "update": "OUpdate", "updates": "OUpdate",
		"update_column": "OUpdateColumn", "update_columns": "OUpdateColumn", "delete": "ODelete", "find": "OFind", "first": "OFirst"}[in.Op]
	boss, kids, pets := assocLists(in)
	keepers := []RecIn{}
	if in.Graph == "keeper_cycle" && in.GraphKeeper != nil && len(kids) > 0 {
		keepers = append(keepers, *in.GraphKeeper) // the one shared keeper, saved once from inside the kids' create
	}
	assocs := lib.App("mk_assocs", "("+gTy("Boss")+", "+gTy("Kid")+", "+gTy("Pet")+")", gRecs(boss), gRecs(kids), gRecs(pets), gTy("Keeper"), gRecs(keepers))
	txm := map[string]string{"default": "TxDefault", "outer": "TxOuter", "skipdefault": "TxSkipDefault"}[in.TxMode]
	setkey := "KField"
	if in.SetKey == "db" {
		setkey = "KDb"
	}
	pv := map[string]string{"map_db": "PVMapDb", "map_field": "PVMapField", "struct": "PVStruct", "struct_ptr": "PVStruct", "": "PVMapDb"}[in.PayVia]
	op := lib.App("mk_op", kind, gTy(in.Type), gShape(in.Shape), gRecs(in.Recs), assocs,
		lib.Bool(in.Skip), txm, gInts(in.Fails), gInts(in.Sets), setkey, lib.Z(in.Pay), pv, lib.Z(in.Limit), lib.ListOf(in.Seed, gRow),
		lib.App("mk_opts", lib.Bool(in.SetAll), lib.Z(int64(in.DelAssoc)), lib.Bool(in.Preload), lib.Bool(in.SetAfter)))
	mem := []string{}
	for _, t := range loadedTags(in, o) {
		mem = append(mem, lib.Z(t))
	}
	return lib.App("mk_case", op, lib.ListOf(o.Trace, gTEv), lib.ListOf(o.Errs, gErr), lib.Bool(o.ErrIsLast),
		lib.ListOf(o.After, gRow), lib.List(mem), lib.ZList(kidsOfLoaded(in, o, o.Kids)), lib.ZList(kidsOfLoaded(in, o, o.Pets)), lib.Bool(o.Panic != ""))
}

// kidsOfLoaded: association values only count for queries with Preload
func kidsOfLoaded(in Input, o Obs, tags []int64) []int64 {
	if !in.Preload || (in.Op != "find" && in.Op != "first") {
		return []int64{}
	}
	return tags
}

// loadedTags: query operations: the records the query loaded (the first RowsAffected in-memory ones);
// other operations: the in-memory records.
func loadedTags(in Input, o Obs) []int64 {
	out := []int64{}
	for i, m := range o.Mem {
		if m.Tbl != "mem" {
			continue
		}
		if (in.Op == "find" || in.Op == "first") && int64(i) >= o.RA {
			break
		}
		out = append(out, m.Tag)
	}
	return out
}

// ---------------------------------------------------------------- signatures of known findings

func mixedPhase(recv string, a, b int) bool {
	x, y := recv[a], recv[b]
	return (x == 'V' && y == 'P') || (x == 'P' && y == 'V')
}

// keylessSavedOnce: does the tree under test save ONE keyless belongs-to record shared by several owners
// of a slice once (de-duplication by in-memory identity)?  Measured on the real gorm at start-up
// (probeKeyless); while it does not, that input shape is the known finding
// shared-belongs-to-without-key-in-slice (kept out of the main stream, replayed from the corpus);
// once it does, the shape joins the main stream and the mirror in assocLists de-duplicates it.
var keylessSavedOnce bool

// rootVisitedOnce: does the tree under test keep the operation's OWN record out of the association saves
// when a child points back to it (has-many child with a belongs-to back-pointer to its owner)?  While it
// does not (the owner's hooks fire a second time from inside the children's create), that shape is the
// known finding cyclic-graph-operation-record-saved-again.
var rootVisitedOnce bool

func probeRootVisited(w *World) bool {
	o := w.Run(Input{Op: "create", Type: "T1", Shape: "ptr_struct", TxMode: "default", PayVia: "map_db", SetKey: "db", Graph: "owner_back",
		Recs: []RecIn{{Tag: 993, Val: 1, Kids: []RecIn{{Tag: 994, Val: 1}}}}})
	n := 0
	for _, e := range o.Log {
		if e.Type == "T1" && e.Hook == "BeforeSave" {
			n++
		}
	}
	return n == 1
}

func probeKeyless(w *World) bool {
	o := w.Run(Input{Op: "create", Type: "T0", Shape: "ptr_slice_ptr", TxMode: "default", PayVia: "map_db", SetKey: "db",
		Shared: []RecIn{{Tag: 990, Val: 1}}, Recs: []RecIn{{Tag: 991, Val: 1, BossIx: 1}, {Tag: 992, Val: 2, BossIx: 1}}})
	n := 0
	for _, e := range o.Log {
		if e.Type == "Boss" && e.Hook == "BeforeSave" {
			n++
		}
	}
	return n == 1
}

// sig: computed from the INPUT only.
func sig(in Input) string {
	base := strings.TrimPrefix(in.Shape, "ptr_")
	recv := typeList[tyIndex(in.Type)].Recv
	if base == "struct" && !in.Skip {
		switch in.Op {
		case "create", "save":
			// hook order in Recv: BS BC AC AS BU AU BD AD AF
			if mixedPhase(recv, 0, 1) || mixedPhase(recv, 2, 3) || mixedPhase(recv, 0, 4) || mixedPhase(recv, 5, 3) {
				return "mixed-receivers-on-struct-value"
			}
		case "update", "updates":
			if mixedPhase(recv, 0, 4) || mixedPhase(recv, 5, 3) {
				return "mixed-receivers-on-struct-value"
			}
		}
	}
	if in.Graph == "owner_back" && !rootVisitedOnce && in.Type == "T1" {
		for _, rc := range in.Recs {
			if len(rc.Kids) > 0 {
				return "cyclic-graph-operation-record-saved-again"
			}
		}
	}
	if !keylessSavedOnce && base != "struct" {
		n := map[int]int{}
		for _, r := range in.Recs {
			if !r.Nil && r.BossIx > 0 && r.BossIx <= len(in.Shared) && in.Shared[r.BossIx-1].ID == 0 {
				n[r.BossIx]++
				if n[r.BossIx] > 1 {
					return "shared-belongs-to-without-key-in-slice"
				}
			}
		}
	}
	return ""
}

// ---------------------------------------------------------------- generation

type gen struct {
	r       *lib.Rng
	nextTag int64
}

func (g *gen) tag() int64 { g.nextTag++; return g.nextTag }

var domShapes = []string{"ptr_struct", "ptr_struct", "ptr_slice_val", "ptr_slice_val", "slice_val", "ptr_slice_ptr", "slice_ptr", "ptr_array_val", "ptr_array_ptr", "array_ptr"}

func isStruct(sh string) bool { return strings.HasSuffix(sh, "struct") }

func (g *gen) seed(n int) []Row {
	out := []Row{}
	for i := 1; i <= n; i++ {
		out = append(out, Row{Tbl: "recs", ID: int64(i), Tag: int64(i), Val: int64(10 * i)})
	}
	return out
}

// seedKids adds has-many rows owned by the seeded records 1..n (tag = owner*1000 + j: the model reads the
// owner off the tag): kids j = 1..2, pets j = 501
func seedKids(rows []Row, n int) []Row {
	id := int64(0)
	for i := 1; i <= n; i++ {
		for j := 1; j <= 1+i%2; j++ {
			id++
			rows = append(rows, Row{Tbl: "kids", ID: id, Tag: int64(i*1000 + j), Val: int64(j), Owner: int64(i)})
		}
	}
	for i := 1; i <= n; i++ {
		if i%3 != 0 {
			id++
			rows = append(rows, Row{Tbl: "pets", ID: id, Tag: int64(i*1000 + 501), Val: 5, Owner: int64(i)})
		}
	}
	return rows
}

func (g *gen) input(edge bool) Input {
	r := g.r
	g.nextTag = 100
	in := Input{TxMode: "default", PayVia: "map_db", SetKey: "db", Pay: int64(r.Range(50, 99))}
	in.Op = lib.Pick(r, []string{"create", "create", "create", "create_in_batches", "create_in_batches", "save", "save", "update", "updates", "updates", "update_column", "update_columns", "delete", "delete", "find", "find", "first"})
	in.Type = lib.Pick(r, []string{"T1", "T1", "T1", "T2", "T2", "T0", "T3", "T4", "T5", "T6", "T7", "T8", "T9", "T10", "T11", "T12", "T13", "T13", "T14", "T14"})
	nseed := r.Range(0, 5)
	if in.Op != "create" && r.Chance(4, 5) {
		nseed = r.Range(2, 5)
	}
	in.Seed = g.seed(nseed)
	switch in.Op {
	case "find":
		in.Shape = lib.Pick(r, []string{"ptr_struct", "ptr_slice_val", "ptr_slice_val", "ptr_slice_ptr"})
		in.Limit = int64(r.Range(0, nseed+1))
	case "first":
		in.Shape = "ptr_struct"
		in.Limit = int64(r.Range(0, nseed+1))
	default:
		in.Shape = lib.Pick(r, domShapes)
		if edge && r.Chance(1, 3) {
			in.Shape = lib.Pick(r, []string{"struct", "array_val"})
		}
		n := r.Range(1, 6)
		if edge && r.Chance(1, 4) {
			n = 0
		}
		if in.Op == "create_in_batches" {
			// slices only (gorm slices the reflect value), every relation between length and batch size
			in.Shape = lib.Pick(r, []string{"ptr_slice_val", "ptr_slice_val", "slice_val", "ptr_slice_ptr", "slice_ptr"})
			in.Batch = r.Range(1, 4)
			n = lib.Pick(r, []int{in.Batch - 1, in.Batch, in.Batch + 1, 2*in.Batch - 1, 2 * in.Batch, 2*in.Batch + 1, 3 * in.Batch, r.Range(0, 7)})
			if n < 0 {
				n = 0
			}
			if n > 8 {
				n = 8
			}
		}
		if isStruct(in.Shape) {
			n = 1
		}
		for i := 0; i < n; i++ {
			var rec RecIn
			switch in.Op {
			case "create", "create_in_batches":
				rec = RecIn{Tag: g.tag(), Val: int64(r.Range(1, 40))}
			case "save":
				switch {
				case nseed > 0 && r.Chance(1, 3):
					id := int64(r.Range(1, nseed))
					rec = RecIn{ID: id, Tag: id, Val: int64(r.Range(1, 40))}
				case r.Chance(2, 3) && isStruct(in.Shape):
					t := g.tag()
					rec = RecIn{ID: t, Tag: t, Val: int64(r.Range(1, 40))} // primary key set, no such row: upsert fallback
				default:
					rec = RecIn{Tag: g.tag(), Val: int64(r.Range(1, 40))}
				}
			default: // update / delete: existing rows, sometimes one that does not exist
				if nseed > 0 && !r.Chance(1, 8) {
					id := int64(r.Range(1, nseed))
					rec = RecIn{ID: id, Tag: id, Val: int64(10 * id)}
				} else {
					t := g.tag()
					rec = RecIn{ID: t, Tag: t, Val: 1}
				}
			}
			in.Recs = append(in.Recs, rec)
		}
		// the same row twice in one slice makes "per record" ambiguous: keep tags distinct
		seen := map[int64]bool{}
		recs := in.Recs[:0]
		for _, rc := range in.Recs {
			if !seen[rc.Tag] {
				seen[rc.Tag] = true
				recs = append(recs, rc)
			}
		}
		in.Recs = recs
		if strings.Contains(in.Shape, "array") || isStruct(in.Shape) {
			// arrays keep their length
		}
		// values that are not reachable through a pointer: only where the hook dispatch itself answers
		// ErrInvalidValue before the statement (gorm would go on to write into an unaddressable value
		// and panic)
		rv := typeList[tyIndex(in.Type)].Recv
		firstPhase := map[string][]int{"create": {0, 1}, "save": {0, 1}, "update": {0, 4}, "updates": {0, 4}, "delete": {6}}[in.Op]
		if in.Op == "save" && isStruct(in.Shape) && len(in.Recs) > 0 && in.Recs[0].ID != 0 {
			firstPhase = []int{0, 4} // Save of a struct with its key set starts with the update pipeline
		}
		guard, anyVal := false, false
		for _, i := range firstPhase {
			if rv[i] != '-' {
				guard = true
			}
			if rv[i] == 'V' {
				anyVal = true
			}
		}
		if in.Shape == "array_val" && !(guard && len(in.Recs) > 0) {
			in.Shape = "ptr_array_val"
		}
		if in.Shape == "struct" && (in.Op == "create" || in.Op == "save") && !(guard && !anyVal) {
			in.Shape = "ptr_struct"
		}
		// nil elements (error stream): only where a before-hook phase exists
		if edge && strings.HasSuffix(in.Shape, "_ptr") && len(in.Recs) > 1 && r.Chance(1, 4) && in.Op == "create" {
			rv := typeList[tyIndex(in.Type)].Recv
			if rv[0] != '-' || rv[1] != '-' {
				in.Recs[r.Intn(len(in.Recs))].Nil = true
			}
		}
		// associations with hooks of their own
		addressable := in.Shape != "struct" && in.Shape != "array_val"
		if (in.Op == "create" || in.Op == "save") && addressable && r.Chance(2, 5) {
			// one belongs-to record (primary key set) shared, as the same pointer, by several owners
			shareFrom := -1
			if len(in.Recs) >= 2 && !isStruct(in.Shape) && r.Chance(1, 2) {
				t := g.tag()
				in.Shared = []RecIn{{ID: 900 + t, Tag: t, Val: int64(r.Range(1, 9))}}
				if keylessSavedOnce && r.Chance(1, 2) {
					in.Shared[0].ID = 0
				}
				shareFrom = r.Intn(len(in.Recs) - 1)
			}
			for i := range in.Recs {
				if in.Recs[i].Nil {
					continue
				}
				if shareFrom >= 0 && i >= shareFrom && (i <= shareFrom+1 || r.Bool()) {
					in.Recs[i].BossIx = 1
				} else if r.Chance(2, 5) {
					in.Recs[i].Boss = &RecIn{Tag: g.tag(), Val: int64(r.Range(1, 9))}
				}
				for k := r.Pick3(); k > 0; k-- {
					in.Recs[i].Kids = append(in.Recs[i].Kids, RecIn{Tag: g.tag(), Val: int64(r.Range(1, 9))})
				}
				for k := r.Intn(3); k > 0; k-- {
					in.Recs[i].Pets = append(in.Recs[i].Pets, RecIn{Tag: g.tag(), Val: int64(r.Range(1, 9))})
				}
			}
		}
	}
	// cyclic in-memory graphs over the kids
	if (in.Op == "create" || in.Op == "save") && in.Shape != "struct" && in.Shape != "array_val" {
		nk, other := 0, false
		for _, rc := range in.Recs {
			nk += len(rc.Kids)
			if rc.Boss != nil || rc.BossIx > 0 || len(rc.Pets) > 0 {
				other = true
			}
		}
		if nk > 0 && !other && r.Chance(1, 2) {
			in.Graph = "keeper_cycle"
			in.GraphKeeper = &RecIn{Tag: g.tag(), Val: int64(r.Range(1, 9))}
			if in.Type == "T1" && r.Chance(1, 3) {
				in.Graph, in.GraphKeeper = "owner_back", nil
			}
		}
	}
	if in.Op == "updates" || in.Op == "update_columns" {
		in.PayVia = lib.Pick(r, []string{"map_db", "map_field", "struct", "struct_ptr"})
	} else if in.Op == "update" || in.Op == "update_column" {
		in.PayVia = lib.Pick(r, []string{"map_db", "map_field"})
	}
	in.SetKey = lib.Pick(r, []string{"field", "field", "db"})
	ptrShape := strings.HasPrefix(in.Shape, "ptr_")
	switch in.Op {
	case "find", "first":
		if r.Chance(1, 2) {
			in.Preload = true
			in.Seed = seedKids(in.Seed, nseed)
		}
	case "delete":
		if len(in.Recs) > 0 && in.Shape != "struct" && in.Shape != "array_val" && r.Chance(2, 5) {
			in.DelAssoc = r.Range(1, 2)
			in.Seed = seedKids(in.Seed, nseed)
		}
		in.Returning = ptrShape && r.Chance(1, 4)
	case "update", "updates", "update_column", "update_columns":
		in.Returning = ptrShape && r.Chance(1, 4)
	case "create", "save":
		noAssoc := true
		for _, rc := range in.Recs {
			if rc.Boss != nil || rc.BossIx > 0 || len(rc.Kids) > 0 || len(rc.Pets) > 0 {
				noAssoc = false
			}
		}
		if noAssoc && !isStruct(in.Shape) && in.Shape != "array_val" && r.Chance(1, 5) {
			in.SetAll = true
		}
	}
	if in.Returning {
		// with RETURNING gorm scans the returned rows back INTO the model value (a slice is rebuilt from
		// them): the in-memory records stay the same set in the same order only when every record has
		// its row and the records are in key order; arrays and by-value shapes are left out
		ok := in.Shape == "ptr_struct" || in.Shape == "ptr_slice_val" || in.Shape == "ptr_slice_ptr"
		last := int64(0)
		for _, rc := range in.Recs {
			if rc.ID <= last || rc.ID > int64(nseed) {
				ok = false
			}
			last = rc.ID
		}
		in.Returning = ok
	}
	in.NoReturning = !in.Returning && r.Chance(1, 4)
	in.Skip = r.Chance(1, 8)
	if in.Shape == "array_val" || (in.Shape == "struct" && (in.Op == "create" || in.Op == "save")) {
		in.Skip = false
	}
	switch r.Intn(10) {
	case 0, 1:
		in.TxMode = "outer"
	case 2:
		in.TxMode = "skipdefault"
	}
	return in
}

func shapeOf(in Input) string {
	nk, np, nb := 0, 0, 0
	for _, r := range in.Recs {
		nk += len(r.Kids)
		np += len(r.Pets)
		if r.Boss != nil || r.BossIx > 0 {
			nb++
		}
	}
	return fmt.Sprintf("%s|%s|%s|n%d|a%d.%d.%d|skip%v|%s|f%v|s%v|%s|%s|L%d", in.Op, in.Type, in.Shape, len(in.Recs), nb, nk, np, in.Skip, in.TxMode, in.Fails, in.Sets, in.PayVia, in.SetKey, in.Limit)
}

func main() {
	a := lib.ParseArgs()
	wn := 0
	open := func(noRet bool) *World {
		wn++
		return OpenWorld(fmt.Sprintf("file:c13_%d_%d?mode=memory&cache=shared", os.Getpid(), wn), noRet)
	}
	w := open(false)
	wNoRet := open(true) // the dialector believes SQLite cannot RETURNING: Exec + LastInsertId
	keylessSavedOnce = probeKeyless(w)
	rootVisitedOnce = probeRootVisited(w)
	out := lib.NewOut(a.Out, "C13")
	out.Extra["keyless_shared_belongs_to_saved_once"] = keylessSavedOnce
	out.Extra["operation_record_not_saved_again_in_cyclic_graph"] = rootVisitedOnce
	out.PerFile = 150

	runOne := func(in Input) Obs {
		if in.NoReturning {
			o := wNoRet.Run(in)
			if o.Panic != "" {
				wNoRet = open(true)
			}
			return o
		}
		o := w.Run(in)
		if o.Panic != "" {
			w = open(false) // a panic inside gorm leaves its transaction open
		}
		return o
	}
	add := func(kind string, in Input) {
		o := runOne(in)
		failing := false
		for _, k := range in.Fails {
			if k >= 0 && k < len(o.Log) {
				failing = true
			}
		}
		nontriv := len(o.Log) >= 2 && (failing || len(in.Recs) > 1 || len(in.Sets) > 0)
		out.Add(lib.Case{Term: term(in, o), JSON: map[string]interface{}{"input": in, "observed": o},
			Sig: sig(in), Kind: kind, Shape: shapeOf(in), Nontriv: nontriv})
		out.Count("op", in.Op)
		out.Count("type", in.Type)
		out.Count("shape", in.Shape)
		out.Count("records", fmt.Sprint(len(in.Recs)))
		out.Count("hook_invocations", fmt.Sprint(len(o.Log)))
		out.Count("tx_mode", in.TxMode)
		out.Count("skip_hooks", fmt.Sprint(in.Skip))
		out.Count("failing_invocations", fmt.Sprint(len(in.Fails)))
		out.Count("setcolumn_calls", fmt.Sprint(len(in.Sets)))
		kind2 := "nil"
		if len(o.Errs) > 0 {
			kind2 = o.Errs[len(o.Errs)-1]
			if strings.HasPrefix(kind2, "E") && !strings.HasPrefix(kind2, "Err") {
				kind2 = "injected"
			}
		}
		out.Count("error", kind2)
		boss, kids, pets := assocLists(in)
		out.Count("association_records", fmt.Sprint(len(boss)+len(kids)+len(pets)))
		owners := 0
		for _, rc := range in.Recs {
			if rc.BossIx > 0 {
				owners++
			}
		}
		out.Count("owners_sharing_a_belongs_to", fmt.Sprint(owners))
	}

	readCase := func(f string) Input {
		b, err := os.ReadFile(f)
		lib.Must(err)
		var c struct {
			Case struct {
				Input Input `json:"input"`
			} `json:"case"`
		}
		lib.Must(json.Unmarshal(b, &c))
		return c.Case.Input
	}
	if a.Replay != "" {
		add("replay", readCase(a.Replay))
		lib.Must(out.Flush())
		return
	}
	for _, f := range lib.CorpusFiles(a.Corpus) {
		add("corpus", readCase(f))
	}

	g := &gen{r: lib.NewRng(a.Seed)}
	r := g.r
	budget := 1500
	if a.Tier == "thorough" {
		budget = 5000
	}
	if a.N > 0 {
		budget = a.N
	}
	// with a failure injected at each hook invocation / SetColumn at each invocation
	withFaults := func(kind string, base Input, exhaustive bool) {
		pilot := runOne(base)
		n := len(pilot.Log)
		add(kind, base)
		if n == 0 {
			return
		}
		kinds := []string{"", "", "not_found", "not_found", "invalid_tx", "missing_where", "invalid_value", "empty_slice", "invalid_data"}
		if exhaustive {
			for k := 0; k < n; k++ {
				in := base
				in.Fails = []int{k}
				in.FailKind = kinds[(k+len(base.Recs))%len(kinds)]
				add(kind, in)
			}
			return
		}
		// one or two faulted variants
		in := base
		switch r.Intn(6) {
		case 0, 1, 2:
			in.Fails = []int{r.Intn(n)}
		case 3:
			in.Fails = []int{r.Intn(n), r.Intn(n + 2)}
			sort.Ints(in.Fails)
			if in.Fails[0] == in.Fails[1] {
				in.Fails = in.Fails[:1]
			}
		case 4:
			in.Sets = []int{r.Intn(n)}
			if r.Bool() {
				in.Sets = append(in.Sets, r.Intn(n))
				sort.Ints(in.Sets)
			}
		case 5:
			in.Sets = []int{r.Intn(n)}
			in.Fails = []int{r.Intn(n)}
		}
		if len(in.Fails) > 0 {
			in.FailKind = lib.Pick(r, kinds)
		}
		// after-hooks going through the statement (not for Save of a struct: its upsert fallback would
		// store what an AfterUpdate hook set, and not for batches / the all-records form)
		if len(in.Sets) > 0 && !in.SetAll && in.Op != "create_in_batches" && !(in.Op == "save" && isStruct(in.Shape)) && r.Chance(1, 2) {
			in.SetAfter = true
		}
		add(kind, in)
	}
	// directed scenarios: constructs a random stream reaches too rarely, each with a failure at every
	// invocation (quick tier: when at most 12 invocations)
	kidsOf := func(base int64) []RecIn {
		return []RecIn{{Tag: base + 1, Val: 1}, {Tag: base + 2, Val: 2}}
	}
	for _, sk := range []bool{false, true} {
		for _, txm := range []string{"default", "outer", "skipdefault"} {
			for _, ty := range []string{"T1", "T2", "T5"} {
				d := []Input{
					// Save with a primary key that matches no row: update hooks, then the hook-less upsert fallback
					{Op: "save", Type: ty, Shape: "ptr_struct", Recs: []RecIn{{ID: 9, Tag: 9, Val: 90}}, Seed: g.seed(3)},
					// associations carrying their own hooks
					{Op: "create", Type: ty, Shape: "ptr_slice_val", Recs: []RecIn{
						{Tag: 101, Val: 1, Boss: &RecIn{Tag: 301, Val: 3}, Kids: kidsOf(200), Pets: []RecIn{{Tag: 401, Val: 4}}},
						{Tag: 102, Val: 2, Kids: []RecIn{{Tag: 211, Val: 5}}}}},
					{Op: "create", Type: ty, Shape: "ptr_struct", Recs: []RecIn{{Tag: 101, Val: 1, Boss: &RecIn{Tag: 301, Val: 3}, Kids: kidsOf(200)}}},
					// cyclic graphs: the kids point to a keeper whose wards they are; the kids point back to their owner
					{Op: "create", Type: ty, Shape: "ptr_struct", Graph: "keeper_cycle", GraphKeeper: &RecIn{Tag: 501, Val: 5}, Recs: []RecIn{{Tag: 101, Val: 1, Kids: kidsOf(200)}}},
					{Op: "create", Type: ty, Shape: "ptr_slice_ptr", Graph: "keeper_cycle", GraphKeeper: &RecIn{Tag: 502, Val: 5}, Recs: []RecIn{{Tag: 101, Val: 1, Kids: kidsOf(200)}, {Tag: 102, Val: 2, Kids: kidsOf(210)}}},
					{Op: "save", Type: ty, Shape: "ptr_slice_val", Graph: "keeper_cycle", GraphKeeper: &RecIn{Tag: 503, Val: 5}, Recs: []RecIn{{Tag: 101, Val: 1, Kids: kidsOf(200)}, {Tag: 102, Val: 2}}},
					{Op: "create", Type: ty, Shape: "ptr_struct", Graph: "owner_back", Recs: []RecIn{{Tag: 101, Val: 1, Kids: kidsOf(200)}}},
					// several owners of one Create(&slice) sharing ONE belongs-to record (same pointer, key set)
					{Op: "create", Type: ty, Shape: "ptr_slice_ptr", Shared: []RecIn{{ID: 77, Tag: 301, Val: 3}}, Recs: []RecIn{
						{Tag: 101, Val: 1, BossIx: 1}, {Tag: 102, Val: 2, BossIx: 1}, {Tag: 103, Val: 3, BossIx: 1}}},
					{Op: "create", Type: ty, Shape: "ptr_slice_val", Shared: []RecIn{{ID: 78, Tag: 302, Val: 4}}, Recs: []RecIn{
						{Tag: 101, Val: 1, Boss: &RecIn{Tag: 303, Val: 5}}, {Tag: 102, Val: 2, BossIx: 1}, {Tag: 103, Val: 3, BossIx: 1, Kids: kidsOf(200)}}},
					{Op: "save", Type: ty, Shape: "slice_ptr", Shared: []RecIn{{ID: 79, Tag: 304, Val: 6}}, Recs: []RecIn{
						{Tag: 101, Val: 1, BossIx: 1}, {Tag: 102, Val: 2, BossIx: 1}}},
					{Op: "create", Type: ty, Shape: "ptr_slice_val", Shared: []RecIn{{ID: 0, Tag: 305, Val: 7}}, Recs: []RecIn{
						{Tag: 101, Val: 1, BossIx: 1}, {Tag: 102, Val: 2, BossIx: 1}, {Tag: 103, Val: 3, BossIx: 1}}},
					{Op: "save", Type: ty, Shape: "ptr_struct", Recs: []RecIn{{ID: 1, Tag: 1, Val: 11, Kids: kidsOf(200), Pets: []RecIn{{Tag: 401, Val: 4}}}}, Seed: g.seed(2)},
					{Op: "update_column", Type: ty, Shape: "ptr_struct", Recs: []RecIn{{ID: 1, Tag: 1, Val: 11, Kids: kidsOf(200)}}, Seed: g.seed(2), Pay: 61, PayVia: "map_db"},
					{Op: "updates", Type: ty, Shape: "ptr_slice_ptr", Recs: []RecIn{{ID: 1, Tag: 1, Val: 10}, {ID: 3, Tag: 3, Val: 30}}, Seed: g.seed(3), Pay: 62, PayVia: "map_field"},
					{Op: "delete", Type: ty, Shape: "slice_val", Recs: []RecIn{{ID: 2, Tag: 2, Val: 20}, {ID: 3, Tag: 3, Val: 30}}, Seed: g.seed(4)},
					{Op: "find", Type: ty, Shape: "ptr_slice_ptr", Seed: g.seed(3), Limit: 2},
					{Op: "find", Type: ty, Shape: "ptr_slice_val", Seed: seedKids(g.seed(4), 4), Limit: 3, Preload: true},
					{Op: "first", Type: ty, Shape: "ptr_struct", Seed: seedKids(g.seed(3), 3), Limit: 2, Preload: true},
					{Op: "delete", Type: ty, Shape: "ptr_slice_val", Recs: []RecIn{{ID: 1, Tag: 1, Val: 10}, {ID: 2, Tag: 2, Val: 20}}, Seed: seedKids(g.seed(3), 3), DelAssoc: 1},
					{Op: "delete", Type: ty, Shape: "ptr_struct", Recs: []RecIn{{ID: 2, Tag: 2, Val: 20}}, Seed: seedKids(g.seed(3), 3), DelAssoc: 2, Returning: true},
					{Op: "updates", Type: ty, Shape: "ptr_slice_val", Recs: []RecIn{{ID: 1, Tag: 1, Val: 10}, {ID: 2, Tag: 2, Val: 20}}, Seed: g.seed(3), Pay: 63, PayVia: "map_db", Returning: true},
					{Op: "create", Type: ty, Shape: "ptr_slice_ptr", Recs: []RecIn{{Tag: 101, Val: 1}, {Tag: 102, Val: 2}}, NoReturning: true},
					{Op: "create", Type: ty, Shape: "ptr_slice_val", Recs: []RecIn{{Tag: 101, Val: 1}, {Tag: 102, Val: 2}, {Tag: 103, Val: 3}}, SetAll: true, Sets: []int{0, 3}},
					{Op: "updates", Type: ty, Shape: "struct", Recs: []RecIn{{ID: 1, Tag: 1, Val: 10}}, Seed: g.seed(2), Pay: 64, PayVia: "map_db"},
					{Op: "delete", Type: ty, Shape: "struct", Recs: []RecIn{{ID: 1, Tag: 1, Val: 10}}, Seed: g.seed(2)},
					{Op: "delete", Type: ty, Shape: "array_val", Recs: []RecIn{{ID: 1, Tag: 1, Val: 10}, {ID: 2, Tag: 2, Val: 20}}, Seed: g.seed(2)},
				}
				for _, in := range d {
					in.Skip, in.TxMode = sk, txm
					if sk && (in.Shape == "array_val" || in.Shape == "struct") {
						continue // not reachable through a pointer and no hook phase to answer ErrInvalidValue: outside the domain
					}
					if sig(in) != "" {
						continue // a known-finding shape: corpus only
					}
					if in.PayVia == "" {
						in.PayVia = "map_db"
					}
					in.SetKey = "field"
					if sk && txm != "default" && ty != "T1" {
						continue
					}
					pilot := runOne(in)
					withFaults("directed", in, a.Tier == "thorough" || (len(pilot.Log) <= 12 && ty == "T1" && txm == "default"))
				}
			}
		}
	}
	// every model type x every operation through ONE struct value (the only shape in which callMethod first
	// offers the struct VALUE to the hook closure): which hooks of a phase's pair exist, and on which
	// receiver, decides what fires
	for _, ti := range typeList[:15] {
		for _, sc := range []Input{
			{Op: "create", Recs: []RecIn{{Tag: 101, Val: 1}}},
			{Op: "save", Recs: []RecIn{{Tag: 101, Val: 1}}},
			{Op: "save", Recs: []RecIn{{ID: 1, Tag: 1, Val: 11}}, Seed: g.seed(2)},
			{Op: "save", Recs: []RecIn{{ID: 9, Tag: 9, Val: 90}}, Seed: g.seed(2)},
			{Op: "update", Recs: []RecIn{{ID: 1, Tag: 1, Val: 10}}, Seed: g.seed(2), Pay: 65},
			{Op: "updates", Recs: []RecIn{{ID: 2, Tag: 2, Val: 20}}, Seed: g.seed(2), Pay: 66, PayVia: "struct"},
			{Op: "updates", Recs: []RecIn{{ID: 2, Tag: 2, Val: 20}}, Seed: g.seed(2), Pay: 69, PayVia: "struct_ptr"},
			{Op: "delete", Recs: []RecIn{{ID: 1, Tag: 1, Val: 10}}, Seed: g.seed(2)},
			{Op: "first", Seed: g.seed(2), Limit: 2},
		} {
			in := sc
			in.Type, in.Shape, in.TxMode, in.SetKey = ti.Name, "ptr_struct", "default", "db"
			if in.PayVia == "" {
				in.PayVia = "map_db"
			}
			if sig(in) != "" {
				continue
			}
			withFaults("per_type", in, a.Tier == "thorough")
		}
	}
	// SetColumn from every before-hook invocation, per record and with the fromCallbacks flag, over every
	// container shape of the argument (slices and Go arrays, of values and of pointers)
	for _, sh := range []string{"ptr_slice_val", "slice_val", "ptr_slice_ptr", "slice_ptr", "ptr_array_val", "ptr_array_ptr", "array_ptr"} {
		for _, op := range []string{"create", "save"} {
			base := Input{Op: op, Type: "T5", Shape: sh, TxMode: "default", PayVia: "map_db", SetKey: lib.Pick(r, []string{"field", "db"}),
				Recs: []RecIn{{Tag: 101, Val: 1}, {Tag: 102, Val: 2}, {Tag: 103, Val: 3}}}
			n := len(runOne(base).Log)
			for k := 0; k < n; k++ {
				in := base
				in.Sets = []int{k}
				add("setcolumn", in)
				if a.Tier == "thorough" || k%2 == 1 {
					in.SetAll = true
					in.Sets = []int{k, (k + 3) % n}
					sort.Ints(in.Sets)
					add("setcolumn", in)
				}
			}
		}
	}
	// after-hooks that go through the statement (Changed + SetColumn) on models that also have before-hooks,
	// for slice arguments (Create / Save / Delete) and slice Models (Update / Updates), at every invocation
	for _, sh := range []string{"ptr_slice_val", "ptr_slice_ptr", "slice_ptr", "ptr_array_val"} {
		for _, sc := range []Input{
			{Op: "create", Recs: []RecIn{{Tag: 101, Val: 1}, {Tag: 102, Val: 2}}},
			{Op: "save", Recs: []RecIn{{ID: 1, Tag: 1, Val: 11}, {Tag: 102, Val: 2}}, Seed: g.seed(2)},
			{Op: "updates", Recs: []RecIn{{ID: 1, Tag: 1, Val: 10}, {ID: 2, Tag: 2, Val: 20}}, Seed: g.seed(3), Pay: 67, PayVia: "struct"},
			{Op: "updates", Recs: []RecIn{{ID: 1, Tag: 1, Val: 10}, {ID: 2, Tag: 2, Val: 20}}, Seed: g.seed(3), Pay: 70, PayVia: "struct_ptr"},
			{Op: "update", Recs: []RecIn{{ID: 1, Tag: 1, Val: 10}, {ID: 2, Tag: 2, Val: 20}}, Seed: g.seed(3), Pay: 68, PayVia: "map_db"},
			{Op: "delete", Recs: []RecIn{{ID: 1, Tag: 1, Val: 10}, {ID: 3, Tag: 3, Val: 30}}, Seed: g.seed(3)},
		} {
			base := sc
			base.Type, base.Shape, base.TxMode, base.SetKey, base.SetAfter = lib.Pick(r, []string{"T1", "T1", "T2"}), sh, "default", "db", true
			if base.PayVia == "" {
				base.PayVia = "map_db"
			}
			n := len(runOne(base).Log)
			for k := 0; k < n; k++ {
				if a.Tier != "thorough" && k%2 == 0 && k+1 < n {
					continue
				}
				in := base
				in.Sets = []int{k}
				add("setafter", in)
			}
		}
	}
	// CreateInBatches: every relation between length and batch size, a failure at every invocation
	for _, tb := range []struct {
		ty   string
		n, b int
	}{{"T1", 3, 2}, {"T4", 5, 3}, {"T10", 4, 2}, {"T6", 7, 3}, {"T5", 2, 2}, {"T1", 1, 3}, {"T3", 5, 2}} {
		for _, txm := range []string{"default", "outer", "skipdefault"} {
			in := Input{Op: "create_in_batches", Type: tb.ty, Shape: lib.Pick(r, []string{"ptr_slice_val", "ptr_slice_ptr", "slice_val"}), TxMode: txm, Batch: tb.b, PayVia: "map_db", SetKey: "field"}
			for i := 1; i <= tb.n; i++ {
				in.Recs = append(in.Recs, RecIn{Tag: int64(100 + i), Val: int64(i)})
			}
			withFaults("directed", in, a.Tier == "thorough" || txm == "default")
		}
	}
	for out != nil && len(out.Cases) < budget {
		edge := r.Chance(15, 100)
		in := g.input(edge)
		if sig(in) != "" {
			continue // known-finding shapes are replayed from the corpus only
		}
		kind := "main"
		if edge {
			kind = "edge"
		}
		if a.Focus != "" && !strings.HasPrefix(shapeOf(in), strings.SplitN(a.Focus, "|", 2)[0]) && r.Chance(2, 3) {
			continue
		}
		withFaults(kind, in, a.Tier == "thorough" && r.Chance(1, 6))
	}
	if a.Tier == "thorough" {
		// bounded-exhaustive sweep: every type x in-domain shape x n in 0..6 x operation, no faults,
		// then a failure at every invocation for n <= 3
		for _, ti := range typeList[:15] {
			for _, sh := range []string{"ptr_struct", "ptr_slice_val", "slice_val", "ptr_slice_ptr", "slice_ptr", "ptr_array_val", "ptr_array_ptr", "array_ptr"} {
				for n := 0; n <= 6; n++ {
					if isStruct(sh) && n != 1 {
						continue
					}
					for _, op := range []string{"create", "updates", "delete"} {
						in := Input{Op: op, Type: ti.Name, Shape: sh, TxMode: "default", PayVia: []string{"struct", "struct_ptr"}[n%2], SetKey: "field", Pay: 77, Seed: g.seed(6)}
						for i := 1; i <= n; i++ {
							if op == "create" {
								in.Recs = append(in.Recs, RecIn{Tag: int64(100 + i), Val: int64(i)})
							} else {
								in.Recs = append(in.Recs, RecIn{ID: int64(i), Tag: int64(i), Val: int64(10 * i)})
							}
						}
						if sig(in) != "" {
							continue
						}
						withFaults("grid", in, n <= 3)
					}
				}
			}
		}
	}
	out.Extra["rule"] = "cases = operation {Create, CreateInBatches (every relation of length to batch size), Save, Update, Updates(map by column / by field name / struct value / pointer to a struct of the model type), UpdateColumn(s), Delete, Find, First} x 15 model types (hook presence x pointer/value receivers, incl. none, mixed, wrong signature, and single value-receiver hooks whose phase partner is absent) x argument shape {*T, T, []T, *[]T, []*T, *[]*T, *[n]T, [n]T, *[n]*T, [n]*T} x 0..6 records x has-many/belongs-to values with hooks of their own (incl. one belongs-to record shared by several owners of a slice, and cyclic graphs: kids holding a belongs-to to a keeper whose has-many wards they are, kids pointing back to their owner) x SkipHooks x {default transaction, explicit outer transaction, SkipDefaultTransaction} x failure injected at one or two hook invocations (plain errors and errors wrapping gorm's sentinel errors ErrRecordNotFound / ErrInvalidTransaction / ErrMissingWhereClause / ErrInvalidValue / ErrEmptySlice / ErrInvalidData) x SetColumn from before-hooks (per record and, with the fromCallbacks flag, for every record of a slice) x RETURNING / no-RETURNING dialect capability x Clauses(Returning) on update/delete x Delete with Select(has-many) x Find/First with Preload of has-many values carrying AfterFind hooks x a type whose hook methods have the wrong signature; distinct = distinct (op,type,shape,n,associations,skip,txmode,fails,sets,payload form) tuples; non-trivial = at least 2 hook invocations observed and (a failing invocation was reached, or more than one record, or a SetColumn call)"
	lib.Must(out.Flush())
}
