// c11: eager loading attaches to each record exactly its own associated rows.
// Runs Preload / association Joins / Association().Find of REAL gorm on SQLite over generated data
// graphs and writes, per observed relation, the parents' keys as gorm saw them, raw dumps of the
// child / join tables and the uids gorm attached to every parent, as Gallina terms for
// C11_Check.check_case (model prediction + reference join by value, both computed in Coq).
package main

import (
	"database/sql"
	"encoding/json"
	"errors"
	"fmt"
	"os"
	"reflect"
	"sort"
	"strings"
	"sync"

	"gorm.io/gorm"
	"gorm.io/gorm/clause"
	"gorm.io/gorm/schema"

	"verifharness/gdb"
	"verifharness/lib"
)

// ---------------------------------------------------------------- descriptors

type Fam struct {
	Conv  bool // gorm conventions instead of foreignKey / references tags (family D)
	Name  string
	Parts []string // Go field names of the key parts of XP / XT / XG
	Types []string // "uint" | "int" | "str"
	Mod   map[string]interface{}
}

var fams = map[string]*Fam{
	"I": {Name: "I", Parts: []string{"K"}, Types: []string{"uint"},
		Mod: map[string]interface{}{"P": IP{}, "O": IO{}, "M": IM{}, "T": IT{}, "G": IG{}, "N": IN{}, "L": IL{}, "C": IC{}, "U": IU{}, "H": IH{}, "W": IW{}}},
	"S": {Name: "S", Parts: []string{"K"}, Types: []string{"str"},
		Mod: map[string]interface{}{"P": SP{}, "O": SO{}, "M": SM{}, "T": ST{}, "G": SG{}, "N": SN{}, "L": SL{}, "C": SC{}, "U": SU{}, "H": SH{}}},
	"C": {Name: "C", Parts: []string{"A", "B"}, Types: []string{"str", "str"},
		Mod: map[string]interface{}{"P": CP{}, "O": CO{}, "M": CM{}, "T": CT{}, "G": CG{}, "W": CW{}}},
	"M": {Name: "M", Parts: []string{"N", "S"}, Types: []string{"int", "str"},
		Mod: map[string]interface{}{"P": MP{}, "O": MO{}, "M": MM{}, "T": MT{}, "G": MG{}}},
	"R": {Name: "R", Parts: []string{"S", "N"}, Types: []string{"str", "int"},
		Mod: map[string]interface{}{"P": RP{}, "O": RO{}, "M": RM{}, "T": RT{}, "G": RG{}}},
	"V": {Name: "V", Parts: []string{"N", "S"}, Types: []string{"int", "str"},
		Mod: map[string]interface{}{"P": VP{}, "O": VO{}, "M": VM{}, "T": VT{}, "G": VG{}}},
	"B": {Name: "B", Parts: []string{"K"}, Types: []string{"bytes"},
		Mod: map[string]interface{}{"P": BP{}, "O": BO{}, "M": BM{}, "T": BT{}, "G": BG{}}},
}
var famNames = []string{"I", "S", "C", "M", "R", "V", "B", "D"}

// joinModels: families whose relation LTags goes through a join MODEL of its own (SetupJoinTable); its
// columns share names with columns of the related model
var joinModels = map[string]interface{}{"I": IPLTag{}, "C": CPLTag{}, "D": DPLTag{}}

func init() {
	fams["D"] = &Fam{Name: "D", Parts: []string{"ID"}, Types: []string{"uint"}, Conv: true,
		Mod: map[string]interface{}{"P": DP{}, "O": DO{}, "M": DM{}, "T": DT{}, "G": DG{}, "N": DN{}, "U": DU{}}}
}

// Rel describes one relation: which Go fields of the parent and of the child are matched.
type Rel struct {
	Name            string
	Kind            string
	On              string // model the relation field lives on: "P" or "M"
	Child           string // model of the child rows
	Single          bool
	M2M             bool
	PF, CF          []string // Go field names (parent side, child side)
	KT              []string // key part types when they are not the family's (keys overridden by tags)
	OT              []string // many2many: key part types of the OWNER side when they differ from the target side's
	TypeF           string   // polymorphic: Go field / db column of the type ("" = OwnerType / owner_type)
	TypeC           string
	Tbl             string // key of the join rows in Input.Tables ("" = "J")
	NoJoin, NoAssoc bool   // the relation is only reachable by Preload (relation inside an embedded struct)
	PPtr            bool
	CPtr            bool
	Poly            string
	JOwner          []string // join-table columns (db names)
	JTag            []string
	JTable          string
}

func pre(p string, parts []string) []string {
	out := make([]string, len(parts))
	for i, x := range parts {
		out[i] = p + x
	}
	return out
}

func (f *Fam) rels() map[string]Rel {
	if f.Conv {
		id := []string{"ID"}
		return map[string]Rel{
			"One":        {Name: "One", Kind: "has_one_by_convention", On: "P", Child: "O", Single: true, PF: id, CF: []string{"DPID"}, CPtr: true},
			"Many":       {Name: "Many", Kind: "has_many_by_convention", On: "P", Child: "M", PF: id, CF: []string{"DPID"}, CPtr: true},
			"Target":     {Name: "Target", Kind: "belongs_to_by_convention", On: "P", Child: "T", Single: true, PF: []string{"TargetID"}, CF: id, PPtr: true},
			"Tags":       {Name: "Tags", Kind: "many2many_default_keys", On: "P", Child: "G", M2M: true, PF: id, CF: id, JTable: "dp_tags", JOwner: []string{"dp_id"}, JTag: []string{"dg_id"}},
			"LTags":      {Name: "LTags", Kind: "many2many_join_model", On: "P", Child: "G", M2M: true, PF: id, CF: id, JTable: "dp_ltags", JOwner: []string{"dp_id"}, JTag: []string{"dg_id"}, Tbl: "J5"},
			"Friends":    {Name: "Friends", Kind: "self_many2many", On: "P", Child: "P", M2M: true, PF: id, CF: id, JTable: "dp_friends", JOwner: []string{"dp_id"}, JTag: []string{"friend_id"}, Tbl: "J2"},
			"Boss":       {Name: "Boss", Kind: "self_belongs_to", On: "P", Child: "P", Single: true, PF: []string{"BossID"}, CF: id, PPtr: true},
			"Team":       {Name: "Team", Kind: "self_has_many", On: "P", Child: "P", PF: id, CF: []string{"BossID"}, CPtr: true},
			"Owner":      {Name: "Owner", Kind: "belongs_to", On: "M", Child: "P", Single: true, PF: []string{"DPID"}, CF: id, PPtr: true},
			"Notes":      {Name: "Notes", Kind: "polymorphic_renamed_columns", On: "P", Child: "N", PF: id, CF: []string{"OID"}, CPtr: true, Poly: "xp", TypeF: "Kind", TypeC: "kind"},
			"Subs":       {Name: "Subs", Kind: "has_many_references_only", On: "P", Child: "U", PF: []string{"Code"}, CF: []string{"DPCode"}, KT: []string{"str"}, CPtr: true},
			"Info.Buddy": {Name: "Info.Buddy", Kind: "embedded_belongs_to", On: "P", Child: "T", Single: true, PF: []string{"Info.BuddyID"}, CF: id, PPtr: true, NoJoin: true, NoAssoc: true},
		}
	}
	lower := func(p string, parts []string) []string {
		out := make([]string, len(parts))
		for i, x := range parts {
			out[i] = p + strings.ToLower(x)
		}
		return out
	}
	m := map[string]Rel{
		"One":    {Name: "One", Kind: "has_one", On: "P", Child: "O", Single: true, PF: f.Parts, CF: pre("P", f.Parts), CPtr: true},
		"Many":   {Name: "Many", Kind: "has_many", On: "P", Child: "M", PF: f.Parts, CF: pre("P", f.Parts), CPtr: true},
		"Target": {Name: "Target", Kind: "belongs_to", On: "P", Child: "T", Single: true, PF: pre("T", f.Parts), CF: f.Parts, PPtr: true},
		"Tags": {Name: "Tags", Kind: "many2many", On: "P", Child: "G", M2M: true, PF: f.Parts, CF: f.Parts,
			JTable: strings.ToLower(f.Name) + "p_tags", JOwner: lower("owner_", f.Parts), JTag: lower("tag_", f.Parts)},
		"Boss":  {Name: "Boss", Kind: "self_belongs_to", On: "P", Child: "P", Single: true, PF: pre("B", f.Parts), CF: f.Parts, PPtr: true},
		"Team":  {Name: "Team", Kind: "self_has_many", On: "P", Child: "P", PF: f.Parts, CF: pre("B", f.Parts), CPtr: true},
		"Owner": {Name: "Owner", Kind: "belongs_to", On: "M", Child: "P", Single: true, PF: pre("P", f.Parts), CF: f.Parts, PPtr: true},
	}
	if _, ok := joinModels[f.Name]; ok { // many2many through a join model of its own
		m["LTags"] = Rel{Name: "LTags", Kind: "many2many_join_model", On: "P", Child: "G", M2M: true, PF: f.Parts, CF: f.Parts,
			JTable: strings.ToLower(f.Name) + "p_ltags", JOwner: lower("owner_", f.Parts), JTag: lower("tag_", f.Parts), Tbl: "J5"}
	}
	if _, ok := f.Mod["N"]; ok {
		m["Notes"] = Rel{Name: "Notes", Kind: "polymorphic", On: "P", Child: "N", PF: f.Parts, CF: []string{"OwnerID"}, CPtr: true, Poly: "xp"}
	}
	if _, ok := f.Mod["L"]; ok { // keys overridden by tags: the owner side is the non-primary field Code
		st := []string{"str"}
		m["Labels"] = Rel{Name: "Labels", Kind: "polymorphic_fk_tag", On: "P", Child: "L", PF: []string{"Code"}, CF: []string{"OwnerID"}, KT: st, CPtr: true, Poly: "xp"}
		m["Cover"] = Rel{Name: "Cover", Kind: "polymorphic_has_one_fk_tag", On: "P", Child: "C", Single: true, PF: []string{"Code"}, CF: []string{"OwnerID"}, KT: st, CPtr: true, Poly: "xp"}
		m["CTags"] = Rel{Name: "CTags", Kind: "many2many_non_primary_references", On: "P", Child: "H", M2M: true, PF: []string{"Code"}, CF: []string{"Code"}, KT: st,
			JTable: strings.ToLower(f.Name) + "p_ctags", JOwner: []string{"owner_code"}, JTag: []string{"tag_code"}, Tbl: "J3"}
		m["Subs"] = Rel{Name: "Subs", Kind: "has_many_references_tag", On: "P", Child: "U", PF: []string{"Code"}, CF: []string{"PCode"}, KT: st, CPtr: true}
	}
	if _, ok := f.Mod["W"]; ok { // many2many whose two sides have keys of different lengths (1/2 and 2/1)
		w := Rel{Name: "WTags", On: "P", Child: "W", M2M: true, PF: f.Parts, OT: f.Types,
			JTable: strings.ToLower(f.Name) + "p_wtags", JOwner: lower("owner_", f.Parts), Tbl: "J4"}
		if len(f.Parts) == 1 {
			w.Kind, w.CF, w.KT, w.JTag = "many2many_key_lengths_1_2", []string{"A", "B"}, []string{"str", "str"}, []string{"tag_a", "tag_b"}
		} else {
			w.Kind, w.CF, w.KT, w.JTag = "many2many_key_lengths_2_1", []string{"K"}, []string{"uint"}, []string{"tag_k"}
		}
		m["WTags"] = w
	}
	return m
}

// key part types of a relation
func (f *Fam) kt(r Rel) []string {
	if r.KT != nil {
		return r.KT
	}
	return f.Types
}

func (f *Fam) relNamesOnP() []string {
	if f.Conv {
		return []string{"One", "Many", "Target", "Tags", "Friends", "Boss", "Team", "Notes", "Info.Buddy", "Subs", "LTags"}
	}
	out := []string{"One", "Many", "Target", "Tags", "Boss", "Team"}
	if _, ok := f.Mod["N"]; ok {
		out = append(out, "Notes")
	}
	if _, ok := f.Mod["L"]; ok {
		out = append(out, "Labels", "Cover", "Subs", "CTags")
	}
	if _, ok := f.Mod["W"]; ok {
		out = append(out, "WTags")
	}
	if _, ok := joinModels[f.Name]; ok {
		out = append(out, "LTags")
	}
	return out
}

// nested second hops available below a first hop
func (f *Fam) nestedOf(first string) []string {
	if f.Conv {
		switch first {
		case "Many", "One":
			return []string{"Owner"}
		case "Team", "Boss":
			return []string{"One", "Many", "Target", "Boss", "Team", "Notes", "Info.Buddy"}
		}
		return nil
	}
	switch first {
	case "Many":
		return []string{"Owner"}
	case "Team", "Boss":
		out := []string{"One", "Many", "Target", "Boss", "Team"}
		if _, ok := f.Mod["N"]; ok {
			out = append(out, "Notes")
		}
		if _, ok := f.Mod["L"]; ok {
			out = append(out, "Labels", "Cover", "Subs")
		}
		return out
	}
	return nil
}

// third hops available below a second hop (the third hop may be many2many)
func (f *Fam) nestedOf2(second string) []string {
	if f.Conv {
		switch second {
		case "Many", "One":
			return []string{"Owner"}
		case "Team", "Boss", "Owner":
			return []string{"One", "Many", "Target", "Boss", "Team", "Notes", "Tags", "Friends"}
		}
		return nil
	}
	switch second {
	case "Many":
		return []string{"Owner"}
	case "Team", "Boss", "Owner":
		return append(f.nestedOf("Team"), "Tags")
	}
	return nil
}

// ---------------------------------------------------------------- schema info

var schemaCache = &sync.Map{}

func schemaOf(db *gorm.DB, model interface{}) *schema.Schema {
	s, err := schema.Parse(model, schemaCache, db.NamingStrategy)
	lib.Must(err)
	return s
}

func (f *Fam) table(db *gorm.DB, m string) string { return schemaOf(db, f.Mod[m]).Table }
func (f *Fam) col(db *gorm.DB, m, goName string) string {
	if i := strings.LastIndex(goName, "."); i >= 0 { // field of an embedded struct
		goName = goName[i+1:]
	}
	fd := schemaOf(db, f.Mod[m]).LookUpField(goName)
	if fd == nil {
		panic("no field " + goName + " on " + f.Name + m)
	}
	return fd.DBName
}

// ---------------------------------------------------------------- input

type Val struct {
	Null bool    `json:"null,omitempty"`
	I    *int64  `json:"i,omitempty"`
	S    *string `json:"s,omitempty"`
}

func VI(i int64) Val  { return Val{I: &i} }
func VS(s string) Val { return Val{S: &s} }

var VNull = Val{Null: true}

func (v Val) arg() interface{} {
	switch {
	case v.I != nil:
		return *v.I
	case v.S != nil:
		return *v.S
	}
	return nil
}
func (v Val) eq(w Val) bool {
	if v.Null || w.Null {
		return false
	}
	if v.I != nil && w.I != nil {
		return *v.I == *w.I
	}
	if v.S != nil && w.S != nil {
		return *v.S == *w.S
	}
	return false
}

// Row: Go field name (or raw column for the join table) -> value. "Del" = soft-deleted.
type Row struct {
	F   map[string]Val `json:"f"`
	Del bool           `json:"del,omitempty"`
}

type Cond struct {
	Kind string `json:"kind"` // all | mod | gt | none | and
	A    int64  `json:"a,omitempty"`
	B    int64  `json:"b,omitempty"`
	As   string `json:"as,omitempty"` // inline | scope
	L    *Cond  `json:"l,omitempty"`  // and: both hold (own conditions AND the all-associations ones)
	R    *Cond  `json:"r,omitempty"`
}

func condAnd(a, b Cond) Cond {
	if a.Kind == "all" || a.Kind == "" {
		return b
	}
	if b.Kind == "all" || b.Kind == "" {
		return a
	}
	return Cond{Kind: "and", L: &a, R: &b}
}

// Reload: the SAME destination is loaded a second time after the stored state changed.
type Reload struct {
	SoftDelete []int64 `json:"soft_delete"` // uids of rows of the relation's child table soft-deleted between the loads
	Cond       Cond    `json:"cond"`        // conditions of the second load
}

type Input struct {
	Fam        string           `json:"fam"`
	Rel        string           `json:"rel"`
	Mode       string           `json:"mode"` // preload | joins | assoc
	Nested     string           `json:"nested,omitempty"`
	Nested2    string           `json:"nested2,omitempty"`      // third segment of the path Rel.Nested.Nested2
	Both       bool             `json:"both,omitempty"`         // Preload(Rel, Cond) AND Preload(clause.Associations, CondAll) in one query
	CondAll    Cond             `json:"cond_all"`               // conditions / scope given with clause.Associations (Both)
	AllUnsc    bool             `json:"all_unscoped,omitempty"` // the all-associations scope also calls Unscoped()
	AllFirst   bool             `json:"all_first,omitempty"`    // order of the two Preload calls
	Reload     *Reload          `json:"reload,omitempty"`
	JoinNested string           `json:"join_nested,omitempty"` // joins mode: also Joins(Rel + "." + JoinNested), a nested relation join
	JoinDeep   string           `json:"join_deep,omitempty"`   // ... and Joins(Rel + "." + JoinNested + "." + JoinDeep): a join path of three relations
	JoinForm   string           `json:"join_form,omitempty"`   // which joins are issued: "all" (every prefix, default) | "rel+deep" (Rel and the longest path) | "deep" (the longest path only)
	Kept       bool             `json:"kept,omitempty"`        // assoc mode: ONE *Association is kept and used for Find(Cond), Find(Cond2), Find(), Count()
	DupPtr     bool             `json:"dup_ptr,omitempty"`     // assoc mode, pointer slice: the SAME parent pointer occurs twice in the owners slice
	AllAssoc   bool             `json:"all_assoc,omitempty"`
	Cond       Cond             `json:"cond"`
	Cond2      Cond             `json:"cond2"`
	Unscoped   bool             `json:"unscoped,omitempty"`
	Shape      string           `json:"shape"` // struct | slice | ptrs
	Dup        bool             `json:"dup,omitempty"`
	Inner      bool             `json:"inner,omitempty"`  // joins mode: InnerJoins instead of Joins
	Subset     []int64          `json:"subset,omitempty"` // parent uids selected (nil = all)
	Tables     map[string][]Row `json:"tables"`           // P O M T G N J
}

// ---------------------------------------------------------------- key parts (Coq side encoding)

type KP struct {
	C string // KStr KPStr KUint KInt KPInt KNil
	I int64
	S string
}

func (k KP) gallina() string {
	switch k.C {
	case "KStr", "KPStr":
		return lib.App(k.C, lib.Str(k.S))
	case "KUint":
		return lib.App("KUint", lib.N(uint64(k.I)))
	case "KInt", "KPInt":
		return lib.App(k.C, lib.Z(k.I))
	}
	return "KNil"
}
func gKey(k []KP) string { return lib.ListOf(k, KP.gallina) }

// independent re-statement of "how gorm prints the key" used ONLY to classify known shapes (Sig)
func (k KP) str() string {
	switch k.C {
	case "KStr", "KPStr":
		return k.S
	case "KUint", "KPInt":
		return fmt.Sprint(k.I)
	case "KInt":
		if k.I == 0 {
			return "nil"
		}
		return fmt.Sprint(k.I)
	}
	return "nil"
}
func (k KP) val() string { // canonical VALUE ("" for NULL)
	switch k.C {
	case "KStr", "KPStr":
		return "t:" + k.S
	case "KNil":
		return ""
	}
	return fmt.Sprintf("i:%d", k.I)
}
func (k KP) zero() bool {
	switch k.C {
	case "KStr":
		return k.S == ""
	case "KUint", "KInt":
		return k.I == 0
	case "KNil":
		return true
	}
	return false
}
func keyStr(k []KP) string {
	p := make([]string, len(k))
	for i, x := range k {
		p[i] = x.str()
	}
	return strings.Join(p, "_")
}
func keyVal(k []KP) (string, bool) { // value tuple, hasNull
	p := make([]string, len(k))
	null := false
	for i, x := range k {
		p[i] = x.val()
		if x.C == "KNil" {
			null = true
		}
	}
	return strings.Join(p, "\x00"), null
}
func allZero(k []KP) bool {
	for _, x := range k {
		if !x.zero() {
			return false
		}
	}
	return true
}

// kpOfRaw encodes a raw SQL value of a column whose Go field has kind typ / ptr.
func kpOfRaw(typ string, ptr bool, raw interface{}) KP {
	if raw == nil {
		return KP{C: "KNil"}
	}
	var s string
	var n int64
	isStr := false
	switch x := raw.(type) {
	case int64:
		n = x
	case []byte:
		s, isStr = string(x), true
	case string:
		s, isStr = x, true
	default:
		panic(fmt.Sprintf("raw value %T", raw))
	}
	if typ == "bytes" { // a non-nil []byte is never "zero" and prints its content
		if !isStr {
			s = fmt.Sprint(n)
		}
		return KP{C: "KPStr", S: s}
	}
	if typ == "str" {
		if !isStr {
			s = fmt.Sprint(n)
		}
		if ptr {
			return KP{C: "KPStr", S: s}
		}
		return KP{C: "KStr", S: s}
	}
	if isStr {
		fmt.Sscan(s, &n)
	}
	if ptr {
		return KP{C: "KPInt", I: n}
	}
	if typ == "uint" {
		return KP{C: "KUint", I: n}
	}
	return KP{C: "KInt", I: n}
}

// kpOfField encodes the Go value of a key field of a loaded object (what ToStringKey receives).
func kpOfField(v reflect.Value) KP {
	if v.Kind() == reflect.Ptr {
		if v.IsNil() {
			return KP{C: "KNil"}
		}
		e := v.Elem()
		switch e.Kind() {
		case reflect.String:
			return KP{C: "KPStr", S: e.String()}
		case reflect.Uint, reflect.Uint64:
			return KP{C: "KPInt", I: int64(e.Uint())}
		default:
			return KP{C: "KPInt", I: e.Int()}
		}
	}
	switch x := v.Interface().(type) {
	case sql.NullString: // driver.Valuer: ToStringKey prints Value()
		if !x.Valid {
			return KP{C: "KNil"}
		}
		return KP{C: "KPStr", S: x.String}
	case sql.NullInt64:
		if !x.Valid {
			return KP{C: "KNil"}
		}
		return KP{C: "KPInt", I: x.Int64}
	case []byte:
		if x == nil {
			return KP{C: "KNil"}
		}
		return KP{C: "KPStr", S: string(x)}
	}
	switch v.Kind() {
	case reflect.String:
		return KP{C: "KStr", S: v.String()}
	case reflect.Uint:
		return KP{C: "KUint", I: int64(v.Uint())}
	default:
		return KP{C: "KInt", I: v.Int()}
	}
}

// ---------------------------------------------------------------- whole rows (column for column)

// SV: one SQL value of a stored row, or the value an attached record holds in the field of that column.
type SV struct {
	K string // "n" NULL | "i" integer | "t" text
	I int64
	S string
}

func (v SV) gallina() string {
	switch v.K {
	case "i":
		if v.I < 0 { // the cases files open Z_scope
			return fmt.Sprintf("(VInt (%d))", v.I)
		}
		return fmt.Sprintf("(VInt %d)", v.I)
	case "t":
		q := lib.Str(v.S) // vt takes its argument in string scope
		return "(vt " + strings.TrimSuffix(q, "%string") + ")"
	}
	return "VNull"
}
// gCols: column names as one comma-separated string, split again by C11_Check.cols
func gCols(cs []string) string {
	if len(cs) == 0 {
		return "[]"
	}
	for _, c := range cs {
		if strings.ContainsAny(c, ",\"") {
			panic("column name " + c)
		}
	}
	return "(cols \"" + strings.Join(cs, ",") + "\")"
}
func gSVs(vs []SV) string { return lib.ListOf(vs, SV.gallina) }

// RowV: the values of one row / record in column order, keyed by the row's uid.
type RowV struct {
	UID  int64 `json:"uid"`
	Vals []SV  `json:"vals"`
}

func gRowV(r RowV) string { return fmt.Sprintf("(%d, %s)", r.UID, gSVs(r.Vals)) }

// svOfRaw: a raw SQL value; deleted_at is reduced to NULL / set (timestamps are not compared).
func svOfRaw(col string, raw interface{}) SV {
	if raw == nil {
		return SV{K: "n"}
	}
	if col == "deleted_at" {
		return SV{K: "i", I: 1}
	}
	switch x := raw.(type) {
	case int64:
		return SV{K: "i", I: x}
	case []byte:
		return SV{K: "t", S: string(x)}
	case string:
		return SV{K: "t", S: x}
	}
	return SV{K: "t", S: fmt.Sprint(raw)}
}

// svOfField: the Go value an in-memory record holds in a column's field.
func svOfField(v reflect.Value) SV {
	if v.Kind() == reflect.Ptr {
		if v.IsNil() {
			return SV{K: "n"}
		}
		return svOfField(v.Elem())
	}
	switch x := v.Interface().(type) {
	case gorm.DeletedAt:
		if !x.Valid {
			return SV{K: "n"}
		}
		return SV{K: "i", I: 1}
	case sql.NullString:
		if !x.Valid {
			return SV{K: "n"}
		}
		return SV{K: "t", S: x.String}
	case sql.NullInt64:
		if !x.Valid {
			return SV{K: "n"}
		}
		return SV{K: "i", I: x.Int64}
	case []byte:
		if x == nil {
			return SV{K: "n"}
		}
		return SV{K: "t", S: string(x)}
	}
	switch v.Kind() {
	case reflect.String:
		return SV{K: "t", S: v.String()}
	case reflect.Uint, reflect.Uint8, reflect.Uint16, reflect.Uint32, reflect.Uint64:
		return SV{K: "i", I: int64(v.Uint())}
	case reflect.Int, reflect.Int8, reflect.Int16, reflect.Int32, reflect.Int64:
		return SV{K: "i", I: v.Int()}
	}
	return SV{K: "t", S: fmt.Sprint(v.Interface())}
}

// recOf: the values record obj (of model m) holds, in the order of the model's columns (schema.DBNames).
func (e *Env) recOf(f *Fam, m string, obj reflect.Value) RowV {
	sch := schemaOf(e.db, f.Mod[m])
	o := reflect.Indirect(obj)
	r := RowV{UID: uidOf(obj)}
	for _, name := range sch.DBNames {
		r.Vals = append(r.Vals, svOfField(o.FieldByIndex(sch.FieldsByDBName[name].StructField.Index)))
	}
	return r
}

// dumpRowsOf: the stored rows of model m with the given uids, all columns in schema order, by raw SQL.
func (e *Env) dumpRowsOf(f *Fam, m string, uids []int64) []RowV {
	sch := schemaOf(e.db, f.Mod[m])
	out := []RowV{}
	if len(uids) == 0 {
		return out
	}
	in := make([]string, len(uids))
	for i, u := range uids {
		in[i] = fmt.Sprint(u)
	}
	rows, err := e.sql.Query("SELECT uid, " + strings.Join(sch.DBNames, ", ") + " FROM " + sch.Table + " WHERE uid IN (" + strings.Join(in, ",") + ") ORDER BY rowid")
	lib.Must(err)
	defer rows.Close()
	for rows.Next() {
		raw := make([]interface{}, 1+len(sch.DBNames))
		ptrs := make([]interface{}, len(raw))
		for i := range raw {
			ptrs[i] = &raw[i]
		}
		lib.Must(rows.Scan(ptrs...))
		r := RowV{UID: raw[0].(int64)}
		for i, name := range sch.DBNames {
			r.Vals = append(r.Vals, svOfRaw(name, raw[1+i]))
		}
		out = append(out, r)
	}
	return out
}

// dumpJoinRows: every column of the join table, same row order as dumpJoins.
func (e *Env) dumpJoinRows(rel Rel) ([]string, [][]SV) {
	rows, err := e.sql.Query("SELECT * FROM " + rel.JTable + " ORDER BY rowid")
	lib.Must(err)
	defer rows.Close()
	cols, err := rows.Columns()
	lib.Must(err)
	out := [][]SV{}
	for rows.Next() {
		raw := make([]interface{}, len(cols))
		ptrs := make([]interface{}, len(cols))
		for i := range raw {
			ptrs[i] = &raw[i]
		}
		lib.Must(rows.Scan(ptrs...))
		vs := make([]SV, len(cols))
		for i, c := range cols {
			vs[i] = svOfRaw(c, raw[i])
		}
		out = append(out, vs)
	}
	return cols, out
}

// fillRows records, for the records objs gorm attached / returned for relation r: the columns of the
// related model, the stored rows with the uids these records carry, and what the records hold in memory.
func (e *Env) fillRows(o *Obs, f *Fam, r Rel, alias string, objs []reflect.Value) {
	o.Alias = alias
	o.Cols, o.Rows, o.Recs, o.JCols, o.JRows = []string{}, []RowV{}, []RowV{}, []string{}, [][]SV{}
	e.rowN++
	if e.sample && o.Mode != "MJoins" && !(o.Mode == "MAssocFind" && r.M2M) && e.rowN%3 != 0 {
		return
	}
	o.Cols = append([]string{}, schemaOf(e.db, f.Mod[r.Child]).DBNames...)
	seen := map[string]bool{}
	var uids []int64
	o.Recs = []RowV{}
	for _, obj := range objs {
		rec := e.recOf(f, r.Child, obj)
		k := fmt.Sprint(rec)
		if seen[k] {
			continue
		}
		seen[k] = true
		o.Recs = append(o.Recs, rec)
		if !containsI(uids, rec.UID) {
			uids = append(uids, rec.UID)
		}
	}
	if len(o.Recs) == 0 { // nothing attached: nothing to compare
		o.Cols = []string{}
	}
	o.Rows = e.dumpRowsOf(f, r.Child, uids)
	o.JCols, o.JRows = []string{}, [][]SV{}
	if r.M2M && o.Mode == "MAssocFind" {
		o.JCols, o.JRows = e.dumpJoinRows(r)
	}
}

// ---------------------------------------------------------------- observation records

type ChildRow struct {
	UID  int64
	Key  []KP
	V    int64
	Del  bool
	Ty   string
	Key2 []KP
}

func (c ChildRow) gallina() string {
	return lib.App("mk_child", lib.Z(c.UID), gKey(c.Key), lib.Z(c.V), lib.Bool(c.Del), lib.Str(c.Ty), gKey(c.Key2))
}

type JoinRow struct{ L, R []KP }

type Hop struct {
	Single   bool
	Cond     Cond
	Unscoped bool
	Poly     string
}

func gCond(c Cond) string {
	switch c.Kind {
	case "mod":
		return lib.App("CMod", lib.Z(c.A), lib.Z(c.B))
	case "gt":
		return lib.App("CGt", lib.Z(c.A))
	case "none":
		return "CNone"
	case "and":
		return lib.App("CAnd", gCond(*c.L), gCond(*c.R))
	}
	return "CAll"
}
func (h Hop) gallina() string {
	poly := "None"
	if h.Poly != "" {
		poly = "(Some " + lib.Str(h.Poly) + ")"
	}
	return lib.App("mk_hop", lib.Bool(h.Single), gCond(h.Cond), lib.Bool(h.Unscoped), poly)
}

type Att2 struct {
	UID int64   `json:"uid"`
	Ids []int64 `json:"ids"`
}

// Obs is one Coq case: one relation observed on one run.
type Obs struct {
	Rel      string    `json:"rel"`
	Mode     string    `json:"mode"` // MPreload MJoins MAssocFind
	M2M      bool      `json:"m2m"`
	Parents  [][]KP    `json:"-"`
	PKeys    []string  `json:"parent_keys"` // printable
	Att      [][]int64 `json:"attached"`
	Err      int64     `json:"err"`
	ErrText  string    `json:"err_text,omitempty"`
	Nested   bool      `json:"nested"`
	Att2     []Att2    `json:"attached2,omitempty"`
	Cols     []string  `json:"cols,omitempty"`      // columns of the related model
	Rows     []RowV    `json:"rows,omitempty"`      // stored rows of the attached uids
	Recs     []RowV    `json:"records,omitempty"`   // what the attached records hold, column for column
	JCols    []string  `json:"join_cols,omitempty"` // many2many Find: every column of the join table
	JRows    [][]SV    `json:"-"`
	Alias    string    `json:"alias,omitempty"` // Joins: alias of the joined relation in the query
	hop      Hop
	hop2     Hop
	children []ChildRow
	child2   []ChildRow
	joins    []JoinRow
}

func (o Obs) term() string {
	att2 := lib.ListOf(o.Att2, func(a Att2) string { return lib.Pair(lib.Z(a.UID), lib.ZList(a.Ids)) })
	return lib.App("mk_case", o.Mode, lib.Bool(o.M2M), o.hop.gallina(),
		lib.ListOf(o.Parents, gKey),
		lib.ListOf(o.children, ChildRow.gallina),
		lib.ListOf(o.joins, func(j JoinRow) string { return lib.Pair(gKey(j.L), gKey(j.R)) }),
		lib.ListOf(o.Att, lib.ZList), lib.Z(o.Err),
		lib.Bool(o.Nested), o.hop2.gallina(), lib.ListOf(o.child2, ChildRow.gallina), att2,
		gCols(o.Cols), lib.ListOf(o.Rows, gRowV), gCols(o.JCols), lib.ListOf(o.JRows, gSVs),
		lib.Str(o.Alias), lib.ListOf(o.Recs, gRowV))
}

// ---------------------------------------------------------------- running one input

type Env struct {
	db  *gorm.DB
	sql *sql.DB
	// targeted and random streams: the whole-row data of the one-table queries (Preload, has-kind Find) is
	// recorded for every third observation only (size of the Coq terms); Joins and many2many Find, the
	// corpus and replays always carry it
	sample bool
	rowN   int
}

func (e *Env) reset(f *Fam) {
	for m := range f.Mod {
		lib.Must(e.db.Exec("DELETE FROM " + f.table(e.db, m)).Error)
	}
	for _, r := range f.rels() {
		if r.JTable != "" {
			lib.Must(e.db.Exec("DELETE FROM " + r.JTable).Error)
		}
	}
}

// joinTableOf: the join table whose rows are stored under key m of Input.Tables ("J", "J2").
func (f *Fam) joinTableOf(m string) string {
	for _, r := range f.rels() {
		if r.JTable != "" && (r.Tbl == m || (r.Tbl == "" && m == "J")) {
			return r.JTable
		}
	}
	return ""
}

const delStamp = "2020-02-02 02:02:02"

func (e *Env) load(f *Fam, in Input) {
	e.reset(f)
	for m, rows := range in.Tables {
		for _, r := range rows {
			var cols []string
			var args []interface{}
			if f.joinTableOf(m) == "" && schemaOf(e.db, f.Mod[m]).LookUpField("Lbl") != nil {
				if _, has := r.F["Lbl"]; !has && r.F["UID"].I != nil && *r.F["UID"].I%2 == 0 {
					r.F["Lbl"] = VS(fmt.Sprint("l", *r.F["UID"].I)) // odd uids keep the leading column NULL
				}
			}
			if _, ok := f.Mod["U"]; ok && m == "P" {
				if _, has := r.F["Code"]; !has {
					r.F["Code"] = VS(fmt.Sprint("code-", *r.F["UID"].I))
				}
			}
			names := make([]string, 0, len(r.F))
			for k := range r.F {
				names = append(names, k)
			}
			sort.Strings(names)
			for _, k := range names {
				if f.joinTableOf(m) != "" {
					cols = append(cols, k)
				} else {
					cols = append(cols, f.col(e.db, m, k))
				}
				a := r.F[k].arg()
				if str, ok := a.(string); ok && f.Types[0] == "bytes" {
					a = []byte(str) // binary keys are stored (and bound by gorm) as blobs
				}
				args = append(args, a)
			}
			tbl := f.joinTableOf(m)
			if tbl == "" {
				tbl = f.table(e.db, m)
				cols = append(cols, "deleted_at")
				if r.Del {
					args = append(args, delStamp)
				} else {
					args = append(args, nil)
				}
			}
			q := "INSERT INTO " + tbl + " (" + strings.Join(cols, ",") + ") VALUES (" + strings.TrimSuffix(strings.Repeat("?,", len(cols)), ",") + ")"
			if err := e.db.Exec(q, args...).Error; err != nil {
				panic(fmt.Sprintf("insert %s: %v (%v)", q, err, args))
			}
		}
	}
}

func typOf(f *Fam, i int) string { return f.Types[i] }

// dump reads the child table of rel by raw SQL: uid, matched columns, v, deleted, type, and the
// columns key2F (parent-side columns of a following hop), in rowid order.
func (e *Env) dump(f *Fam, rel Rel, key2F []string, key2Ptr bool, key2T ...string) []ChildRow {
	if len(key2T) == 0 {
		key2T = f.Types
	}
	tbl := f.table(e.db, rel.Child)
	cols := []string{"uid", "v", "deleted_at IS NOT NULL"}
	if rel.Poly != "" && rel.TypeC != "" {
		cols = append(cols, rel.TypeC)
	} else if rel.Poly != "" {
		cols = append(cols, "owner_type")
	} else {
		cols = append(cols, "''")
	}
	for _, c := range rel.CF {
		cols = append(cols, f.col(e.db, rel.Child, c))
	}
	for _, c := range key2F {
		cols = append(cols, f.col(e.db, rel.Child, c))
	}
	rows, err := e.sql.Query("SELECT " + strings.Join(cols, ", ") + " FROM " + tbl + " ORDER BY rowid")
	lib.Must(err)
	defer rows.Close()
	var out []ChildRow
	for rows.Next() {
		raw := make([]interface{}, len(cols))
		ptrs := make([]interface{}, len(cols))
		for i := range raw {
			ptrs[i] = &raw[i]
		}
		lib.Must(rows.Scan(ptrs...))
		c := ChildRow{UID: raw[0].(int64), V: raw[1].(int64), Del: raw[2].(int64) != 0}
		switch t := raw[3].(type) {
		case string:
			c.Ty = t
		case []byte:
			c.Ty = string(t)
		}
		for i := range rel.CF {
			c.Key = append(c.Key, kpOfRaw(f.kt(rel)[i], rel.CPtr, raw[4+i]))
		}
		for i := range key2F {
			c.Key2 = append(c.Key2, kpOfRaw(key2T[i], key2Ptr, raw[4+len(rel.CF)+i]))
		}
		out = append(out, c)
	}
	return out
}

func (e *Env) dumpJoins(f *Fam, rel Rel) []JoinRow {
	cols := append(append([]string{}, rel.JOwner...), rel.JTag...)
	rows, err := e.sql.Query("SELECT " + strings.Join(cols, ", ") + " FROM " + rel.JTable + " ORDER BY rowid")
	lib.Must(err)
	defer rows.Close()
	var out []JoinRow
	n := len(rel.JOwner)
	ot := f.kt(rel)
	if rel.OT != nil {
		ot = rel.OT
	}
	for rows.Next() {
		raw := make([]interface{}, len(cols))
		ptrs := make([]interface{}, len(cols))
		for i := range raw {
			ptrs[i] = &raw[i]
		}
		lib.Must(rows.Scan(ptrs...))
		var j JoinRow
		for i := range rel.JOwner {
			j.L = append(j.L, kpOfRaw(ot[i], false, raw[i]))
		}
		for i := range rel.JTag {
			j.R = append(j.R, kpOfRaw(f.kt(rel)[i], false, raw[n+i]))
		}
		out = append(out, j)
	}
	return out
}

func condArgs(c Cond) []interface{} { return condArgsQ(c, "") }

// condArgsQ: the data column qualified by qual ("table."): needed where the query joins a table that has
// a column of the same name (a join model with its own v column)
func condArgsQ(c Cond, qual string) []interface{} {
	var q string
	var args []interface{}
	switch c.Kind {
	case "mod":
		q, args = qual+"v % ? = ?", []interface{}{c.A, c.B}
	case "gt":
		q, args = qual+"v > ?", []interface{}{c.A}
	case "none":
		q = "1 = 0"
	default:
		return nil
	}
	if c.As == "scope" {
		return []interface{}{func(db *gorm.DB) *gorm.DB { return db.Where(q, args...) }}
	}
	return append([]interface{}{q}, args...)
}

// nestedPath: "Rel.Nested" or "Rel.Nested.Nested2"; the conditions (Cond2) belong to the LAST segment.
func nestedPath(in Input) string {
	p := in.Rel + "." + in.Nested
	if in.Nested2 != "" {
		p += "." + in.Nested2
	}
	return p
}

func uidOf(v reflect.Value) int64 { return reflect.Indirect(v).FieldByName("UID").Int() }

// attached returns the uids held by relation field name of obj, plus the held objects.
func attached(obj reflect.Value, name string) ([]int64, []reflect.Value) {
	fv := fieldByPath(obj, name)
	var ids []int64
	var objs []reflect.Value
	switch fv.Kind() {
	case reflect.Ptr:
		if !fv.IsNil() {
			ids, objs = append(ids, uidOf(fv)), append(objs, fv)
		}
	case reflect.Struct: // relation field held by value: a zero struct means "nothing attached"
		if uidOf(fv) != 0 {
			ids, objs = append(ids, uidOf(fv)), append(objs, fv)
		}
	case reflect.Slice:
		for i := 0; i < fv.Len(); i++ {
			ids, objs = append(ids, uidOf(fv.Index(i))), append(objs, fv.Index(i))
		}
	}
	sort.Slice(ids, func(i, j int) bool { return ids[i] < ids[j] })
	if ids == nil {
		ids = []int64{}
	}
	return ids, objs
}

// fieldByPath: "Info.Buddy" = field Buddy of the embedded struct field Info.
func fieldByPath(obj reflect.Value, path string) reflect.Value {
	v := reflect.Indirect(obj)
	for _, n := range strings.Split(path, ".") {
		v = reflect.Indirect(v).FieldByName(n)
	}
	return v
}

func keyOfObj(obj reflect.Value, fields []string) []KP {
	out := make([]KP, len(fields))
	for i, f := range fields {
		out[i] = kpOfField(fieldByPath(obj, f))
	}
	return out
}

func errCode(err error) (int64, string) {
	if err == nil {
		return 0, ""
	}
	if strings.Contains(err.Error(), "failed to assign association") {
		return 1, "failed to assign association"
	}
	return 2, err.Error()
}

func parentObjs(dest reflect.Value, shape string) []reflect.Value {
	d := dest.Elem()
	if shape == "struct" {
		return []reflect.Value{d}
	}
	out := make([]reflect.Value, d.Len())
	for i := range out {
		out[i] = d.Index(i)
	}
	return out
}

func printable(ks [][]KP) []string {
	out := make([]string, len(ks))
	for i, k := range ks {
		p := make([]string, len(k))
		for j, x := range k {
			p[j] = x.gallina()
		}
		out[i] = strings.Join(p, ",")
	}
	return out
}

// run executes the input on real gorm and returns the observed cases (nil when the parent
// query found nothing to work on in struct shape).
func (e *Env) run(in Input) []Obs {
	f := fams[in.Fam]
	rels := f.rels()
	e.load(f, in)
	db := e.db
	pt := reflect.TypeOf(f.Mod["P"])
	ptbl := f.table(db, "P")
	var dest reflect.Value
	switch in.Shape {
	case "struct":
		dest = reflect.New(pt)
	case "ptrs":
		dest = reflect.New(reflect.SliceOf(reflect.PtrTo(pt)))
	default:
		dest = reflect.New(reflect.SliceOf(pt))
	}
	rel := rels[in.Rel]
	cond1 := in.Cond // conditions of the load that is observed (the second one when reloading)
	var obsRels []string
	var tx *gorm.DB
	build := func() {
		tx = db.Session(&gorm.Session{})
		if in.Unscoped {
			tx = tx.Unscoped()
		}
		if in.Dup && in.Shape != "struct" && in.Mode == "preload" {
			tx = tx.Joins("JOIN (SELECT 1 AS dupn UNION ALL SELECT 2) AS dupt")
		}
		if in.Subset != nil {
			tx = tx.Where(ptbl+".uid IN ?", in.Subset)
		}
		allArgs := func() []interface{} { // Preload(clause.Associations, scope)
			ca := in.CondAll
			return []interface{}{func(d *gorm.DB) *gorm.DB {
				if a := condArgs(Cond{Kind: ca.Kind, A: ca.A, B: ca.B, As: "inline"}); len(a) > 0 {
					d = d.Where(a[0], a[1:]...)
				}
				if in.AllUnsc {
					d = d.Unscoped()
				}
				return d
			}}
		}
		switch in.Mode {
		case "preload":
			if in.AllAssoc {
				tx = tx.Preload(clause.Associations, condArgs(cond1)...)
				obsRels = f.relNamesOnP()
			} else if in.Both {
				if in.AllFirst {
					tx = tx.Preload(clause.Associations, allArgs()...).Preload(rel.Name, condArgs(cond1)...)
				} else {
					tx = tx.Preload(rel.Name, condArgs(cond1)...).Preload(clause.Associations, allArgs()...)
				}
				obsRels = f.relNamesOnP()
			} else {
				if in.Nested == "" || cond1.Kind != "all" {
					tx = tx.Preload(rel.Name, condArgs(cond1)...)
				}
				obsRels = []string{rel.Name}
			}
			if in.Nested != "" {
				tx = tx.Preload(nestedPath(in), condArgs(in.Cond2)...)
			}
		case "joins":
			// ON conditions are passed as a *gorm.DB (Joins("Rel", db.Where(...))); the joined table's
			// alias is the relation name
			var jargs []interface{}
			switch cond1.Kind {
			case "mod":
				jargs = append(jargs, db.Where(rel.Name+".v % ? = ?", cond1.A, cond1.B))
			case "gt":
				jargs = append(jargs, db.Where(rel.Name+".v > ?", cond1.A))
			case "none":
				jargs = append(jargs, db.Where("1 = 0"))
			}
			longest := rel.Name
			if in.JoinNested != "" {
				longest += "." + in.JoinNested
				if in.JoinDeep != "" {
					longest += "." + in.JoinDeep
				}
			}
			if in.JoinForm != "deep" || in.JoinNested == "" {
				if in.Inner {
					tx = tx.InnerJoins(rel.Name, jargs...)
				} else {
					tx = tx.Joins(rel.Name, jargs...)
				}
			}
			if in.JoinNested != "" {
				if in.JoinDeep != "" && (in.JoinForm == "all" || in.JoinForm == "") {
					tx = tx.Joins(rel.Name + "." + in.JoinNested)
				}
				tx = tx.Joins(longest) // a nested join path joins every relation on it
			}
			if in.Nested != "" {
				tx = tx.Preload(nestedPath(in), condArgs(in.Cond2)...)
			}
			obsRels = []string{rel.Name}
		case "assoc":
			obsRels = []string{rel.Name}
		}
	} // build
	loadDest := func() error {
		build()
		if in.Shape == "struct" {
			return tx.Take(dest.Interface()).Error
		}
		return tx.Find(dest.Interface()).Error
	}
	err := loadDest()
	if errors.Is(err, gorm.ErrRecordNotFound) {
		return nil
	}
	if in.Reload != nil && err == nil {
		// the usual "reload": the stored state changes, then the SAME destination is loaded again
		if len(in.Reload.SoftDelete) > 0 {
			lib.Must(db.Exec("UPDATE "+f.table(db, rel.Child)+" SET deleted_at = ? WHERE uid IN ?", delStamp, in.Reload.SoftDelete).Error)
		}
		cond1 = in.Reload.Cond
		err = loadDest()
		if errors.Is(err, gorm.ErrRecordNotFound) {
			return nil
		}
	}
	hop1 := Hop{Single: rel.Single, Cond: cond1, Unscoped: in.Unscoped, Poly: rel.Poly}
	code, etext := errCode(err)
	ps := parentObjs(dest, in.Shape)

	var out []Obs
	if in.Mode == "assoc" {
		ct := reflect.TypeOf(f.Mod[rel.Child])
		adb := db.Session(&gorm.Session{})
		if in.Unscoped {
			adb = adb.Unscoped()
		}
		if in.DupPtr && in.Shape == "ptrs" && dest.Elem().Len() > 0 {
			// a user-built owners slice holding the same record twice (same pointer)
			dest.Elem().Set(reflect.Append(dest.Elem(), dest.Elem().Index(0)))
			ps = parentObjs(dest, in.Shape)
		}
		// the calls: one Find, or - kept handle - several reads through ONE *Association:
		// Find(conds), Find(other conds), Find() and Count(), each judged on its own
		calls := []Cond{cond1}
		if in.Kept {
			c2 := in.Cond2
			if c2.As == "scope" {
				c2.As = "inline"
			}
			calls = []Cond{cond1, c2, {Kind: "all"}}
		}
		var kept *gorm.Association
		handle := func() *gorm.Association {
			if !in.Kept {
				return adb.Model(dest.Interface()).Association(rel.Name)
			}
			if kept == nil {
				kept = adb.Model(dest.Interface()).Association(rel.Name)
			}
			return kept
		}
		var obs []Obs
		for _, cc := range calls {
			res := reflect.New(reflect.SliceOf(ct))
			var aerr error
			if code == 0 {
				qual := ""
				if rel.Kind == "many2many_join_model" { // the join model has a v column of its own
					qual = f.table(db, rel.Child) + "."
				}
				aerr = handle().Find(res.Interface(), condArgsQ(cc, qual)...)
			}
			ids := []int64{}
			for i := 0; i < res.Elem().Len(); i++ {
				ids = append(ids, uidOf(res.Elem().Index(i)))
			}
			if code == 0 && aerr == nil && (cc.Kind == "all" || cc.Kind == "") {
				// Count() reports the number of rows Find() returns
				if cnt := handle().Count(); int(cnt) != len(ids) {
					aerr = fmt.Errorf("Count() = %d but Find() returned %d rows", cnt, len(ids))
				}
			}
			sort.Slice(ids, func(i, j int) bool { return ids[i] < ids[j] })
			if rel.M2M && len(ps) > 1 { // a target linked to several owners is returned once per owner
				ids = dedupe(ids)
			}
			h := hop1
			h.Cond = cc
			o := Obs{Rel: rel.Name, Mode: "MAssocFind", M2M: rel.M2M, hop: h, hop2: Hop{Cond: Cond{Kind: "all"}}}
			for _, p := range ps {
				o.Parents = append(o.Parents, keyOfObj(p, rel.PF))
			}
			o.Att = [][]int64{ids}
			o.Err, o.ErrText = code, etext
			if code == 0 {
				o.Err, o.ErrText = errCode(aerr)
			}
			o.children = e.dump(f, rel, nil, false)
			if rel.M2M {
				o.joins = e.dumpJoins(f, rel)
			}
			o.PKeys = printable(o.Parents)
			var found []reflect.Value
			for i := 0; i < res.Elem().Len(); i++ {
				found = append(found, res.Elem().Index(i))
			}
			e.fillRows(&o, f, rel, "", found)
			obs = append(obs, o)
		}
		return obs
	}

	for _, rn := range obsRels {
		r := rels[rn]
		o := Obs{Rel: rn, Mode: "MPreload", M2M: r.M2M, Err: code, ErrText: etext,
			hop: Hop{Single: r.Single, Cond: cond1, Unscoped: in.Unscoped, Poly: r.Poly}, hop2: Hop{Cond: Cond{Kind: "all"}}}
		if in.Both { // the relation's own conditions AND the all-associations ones; the scope may unscope
			if rn == rel.Name {
				o.hop.Cond = condAnd(cond1, in.CondAll)
			} else {
				o.hop.Cond = in.CondAll
			}
			o.hop.Unscoped = in.Unscoped || in.AllUnsc
		}
		if in.Mode == "joins" {
			o.Mode = "MJoins"
		}
		var lvl1 []reflect.Value
		for _, p := range ps {
			o.Parents = append(o.Parents, keyOfObj(p, r.PF))
			ids, objs := attached(p, rn)
			o.Att = append(o.Att, ids)
			lvl1 = append(lvl1, objs...)
		}
		if o.Att == nil {
			o.Att = [][]int64{}
		}
		var key2F []string
		var key2Ptr bool
		var r2 Rel
		nested := in.Nested != "" && rn == rel.Name
		cond2 := in.Cond2
		if in.Nested2 != "" {
			cond2 = Cond{Kind: "all"} // the conditions go to the third segment
		}
		if nested {
			r2 = rels[in.Nested]
			key2F, key2Ptr = r2.PF, r2.PPtr
		}
		o.children = e.dump(f, r, key2F, key2Ptr, f.kt(r2)...)
		if r.M2M {
			o.joins = e.dumpJoins(f, r)
		}
		o.PKeys = printable(o.Parents)
		e.fillRows(&o, f, r, rn, lvl1)
		if nested && in.Mode == "preload" {
			o.Nested = true
			o.hop2 = Hop{Single: r2.Single, Cond: cond2, Unscoped: in.Unscoped, Poly: r2.Poly}
			o.child2 = e.dump(f, r2, nil, false)
			seen := map[int64]int{}
			for _, c := range lvl1 {
				ids, _ := attached(c, r2.Name)
				u := uidOf(c)
				if k, ok := seen[u]; ok {
					if fmt.Sprint(o.Att2[k].Ids) != fmt.Sprint(ids) && o.Err == 0 {
						o.Err, o.ErrText = 2, "copies of one level-1 row carry different level-2 rows"
					}
					continue
				}
				seen[u] = len(o.Att2)
				o.Att2 = append(o.Att2, Att2{u, ids})
			}
		}
		out = append(out, o)
		if nested && in.Mode == "joins" {
			// Joins(A).Preload(A.B): preloadEntryPoint runs hop B on the joined A objects
			o2 := Obs{Rel: rn + "." + r2.Name, Mode: "MPreload", M2M: false, Err: code, ErrText: etext,
				hop: Hop{Single: r2.Single, Cond: cond2, Unscoped: in.Unscoped, Poly: r2.Poly}, hop2: Hop{Cond: Cond{Kind: "all"}}}
			var objs2 []reflect.Value
			for _, c := range lvl1 {
				o2.Parents = append(o2.Parents, keyOfObj(c, r2.PF))
				ids, ob := attached(c, r2.Name)
				o2.Att = append(o2.Att, ids)
				objs2 = append(objs2, ob...)
			}
			if o2.Att == nil {
				o2.Att = [][]int64{}
			}
			o2.children = e.dump(f, r2, nil, false)
			o2.PKeys = printable(o2.Parents)
			e.fillRows(&o2, f, r2, "", objs2)
			out = append(out, o2)
		}
		if in.Mode == "joins" && in.JoinNested != "" && rn == rel.Name {
			// Joins(A).Joins(A.B): the nested join attaches B to the joined A objects
			rj := rels[in.JoinNested]
			oj := Obs{Rel: rn + "+" + rj.Name, Mode: "MJoins", Err: code, ErrText: etext,
				hop: Hop{Single: rj.Single, Cond: Cond{Kind: "all"}, Unscoped: in.Unscoped, Poly: rj.Poly}, hop2: Hop{Cond: Cond{Kind: "all"}}}
			var objsj []reflect.Value
			for _, c := range lvl1 {
				oj.Parents = append(oj.Parents, keyOfObj(c, rj.PF))
				ids, ob := attached(c, rj.Name)
				oj.Att = append(oj.Att, ids)
				objsj = append(objsj, ob...)
			}
			if oj.Att == nil {
				oj.Att = [][]int64{}
			}
			oj.children = e.dump(f, rj, nil, false)
			oj.PKeys = printable(oj.Parents)
			e.fillRows(&oj, f, rj, rn+"__"+rj.Name, objsj)
			out = append(out, oj)
			if in.JoinDeep != "" {
				// third relation of the join path, attached to the joined second-level objects
				rd := rels[in.JoinDeep]
				od := Obs{Rel: rn + "+" + rj.Name + "+" + rd.Name, Mode: "MJoins", Err: code, ErrText: etext,
					hop: Hop{Single: rd.Single, Cond: Cond{Kind: "all"}, Unscoped: in.Unscoped, Poly: rd.Poly}, hop2: Hop{Cond: Cond{Kind: "all"}}}
				var objsd []reflect.Value
				for _, c1 := range lvl1 {
					_, l2 := attached(c1, rj.Name)
					for _, c2 := range l2 {
						od.Parents = append(od.Parents, keyOfObj(c2, rd.PF))
						ids, ob := attached(c2, rd.Name)
						od.Att = append(od.Att, ids)
						objsd = append(objsd, ob...)
					}
				}
				if od.Att == nil {
					od.Att = [][]int64{}
				}
				od.children = e.dump(f, rd, nil, false)
				od.PKeys = printable(od.Parents)
				e.fillRows(&od, f, rd, rn+"__"+rj.Name+"__"+rd.Name, objsd)
				out = append(out, od)
			}
		}
		if nested && in.Nested2 != "" {
			// third segment: hop Nested2 runs on the rows loaded for the second segment
			r3 := rels[in.Nested2]
			o3 := Obs{Rel: rn + "." + r2.Name + "." + r3.Name, Mode: "MPreload", M2M: r3.M2M, Err: code, ErrText: etext,
				hop: Hop{Single: r3.Single, Cond: in.Cond2, Unscoped: in.Unscoped, Poly: r3.Poly}, hop2: Hop{Cond: Cond{Kind: "all"}}}
			var objs3 []reflect.Value
			for _, c1 := range lvl1 {
				_, lvl2 := attached(c1, r2.Name)
				for _, c2 := range lvl2 {
					o3.Parents = append(o3.Parents, keyOfObj(c2, r3.PF))
					ids, ob := attached(c2, r3.Name)
					o3.Att = append(o3.Att, ids)
					objs3 = append(objs3, ob...)
				}
			}
			if o3.Att == nil {
				o3.Att = [][]int64{}
			}
			o3.children = e.dump(f, r3, nil, false)
			if r3.M2M {
				o3.joins = e.dumpJoins(f, r3)
			}
			o3.PKeys = printable(o3.Parents)
			e.fillRows(&o3, f, r3, "", objs3)
			out = append(out, o3)
		}
	}
	return out
}

func containsI(xs []int64, x int64) bool {
	for _, y := range xs {
		if x == y {
			return true
		}
	}
	return false
}

func dedupe(ids []int64) []int64 {
	out := []int64{}
	for i, x := range ids {
		if i == 0 || x != ids[i-1] {
			out = append(out, x)
		}
	}
	return out
}

// ---------------------------------------------------------------- known-shape signature (input only)

// keysOf returns the key tuples of model m's rows over Go fields flds as gorm will see them.
func rowsKeys(f *Fam, rows []Row, flds []string, ptr bool, raw bool) [][]KP {
	var out [][]KP
	for _, r := range rows {
		k := make([]KP, len(flds))
		for i, fl := range flds {
			v := r.F[fl]
			typ := "str"
			if len(flds) == len(f.Types) && v.S == nil {
				typ = f.Types[i]
			}
			k[i] = kpOfRaw(typ, ptr, v.arg())
		}
		out = append(out, k)
	}
	return out
}

// collision classifies a pair of key tuples: "" when string-key equality agrees with value equality.
func collision(a, b []KP, bothParents bool) string {
	va, na := keyVal(a)
	vb, nb := keyVal(b)
	sameStr := keyStr(a) == keyStr(b)
	sameVal := va == vb && !na && !nb
	if bothParents {
		sameVal = va == vb // NULL-carrying parent keys only need equal IN entries
	}
	if sameStr == sameVal {
		return ""
	}
	if !sameStr {
		return "tostringkey-zero-vs-pointer-zero"
	}
	for _, k := range append(append([]KP{}, a...), b...) {
		if k.C == "KNil" || (k.C == "KInt" && k.I == 0) {
			return "tostringkey-collision-nil"
		}
	}
	return "tostringkey-collision-separator"
}

func sigPairs(ps, cs [][]KP) string {
	var live [][]KP
	for _, p := range ps {
		if !allZero(p) {
			live = append(live, p)
		}
	}
	for i := range live {
		for j := i + 1; j < len(live); j++ {
			if s := collision(live[i], live[j], true); s != "" {
				return s
			}
		}
		for _, c := range cs {
			if _, null := keyVal(c); null {
				continue
			}
			if s := collision(live[i], c, false); s != "" {
				return s
			}
		}
	}
	return ""
}

// sig: known-finding signature, from the input only.  A relation inside an EMBEDDED struct preloaded by
// name with its own conditions together with Preload(clause.Associations, ...): parsePreloadMap writes
// both into preloadMap[embedded][relation], the last map entry visited wins, so the relation's own
// conditions are dropped in a map-order dependent share of the runs.
func sig(in Input) string {
	// no known shape at present.  Former ones, ordinary inputs now: a relation inside an embedded
	// struct preloaded by name with own conditions next to Preload(clause.Associations) (fixed in
	// /repo b890351); a struct destination without joined row + a second joined relation + a preload
	// below it, which panicked (fixed in /repo d2ef4bc).
	return ""
}

// formerShape classifies inputs that hit one of the four defects fixed in /repo (5d340d3: identity
// keys joined with '_' without escaping, NULL / zero printed as the text nil; 1c8b2be: empty IN over
// several columns).  It is computed from the input tables only and is used ONLY for the
// distribution histogram: these inputs are part of the ordinary streams and must pass.
func formerShape(in Input) string {
	f := fams[in.Fam]
	rels := f.rels()
	if in.Mode == "assoc" && len(f.Parts) > 1 {
		r := rels[in.Rel]
		any := false
		for _, row := range in.Tables["P"] {
			if row.Del && !in.Unscoped {
				continue
			}
			if in.Subset != nil && !containsI(in.Subset, *row.F["UID"].I) {
				continue
			}
			if ks := rowsKeys(f, []Row{row}, r.PF, r.PPtr, false); !allZero(ks[0]) {
				any = true
			}
		}
		if !any {
			return "assoc-find-empty-composite-in"
		}
	}
	names := []string{in.Rel}
	if in.AllAssoc {
		names = f.relNamesOnP()
	}
	check := func(r Rel) string {
		ps := rowsKeys(f, in.Tables[r.On], r.PF, r.PPtr, false)
		if r.M2M {
			var jl, jr [][]KP
			jt := "J"
			if r.Tbl != "" {
				jt = r.Tbl
			}
			for _, row := range in.Tables[jt] {
				l := make([]KP, len(r.JOwner))
				rr := make([]KP, len(r.JTag))
				for i := range r.JOwner {
					l[i] = kpOfRaw(f.Types[i], false, row.F[r.JOwner[i]].arg())
				}
				for i := range r.JTag {
					rr[i] = kpOfRaw(f.kt(r)[i], false, row.F[r.JTag[i]].arg())
				}
				jl, jr = append(jl, l), append(jr, rr)
			}
			if s := sigPairs(ps, jl); s != "" {
				return s
			}
			return sigPairs(jr, rowsKeys(f, in.Tables[r.Child], r.CF, r.CPtr, false))
		}
		return sigPairs(ps, rowsKeys(f, in.Tables[r.Child], r.CF, r.CPtr, false))
	}
	for _, n := range names {
		if s := check(rels[n]); s != "" {
			return s
		}
	}
	if in.Nested != "" {
		if s := check(rels[in.Nested]); s != "" {
			return s
		}
	}
	return ""
}

// ---------------------------------------------------------------- generation

var strPool = []string{"a", "b", "c", "d", "a_b", "b_c", "a_", "_a", "_", "nil", "nil_a", "a_nil", "x y", "A", "é", "0", "1", "a'b", `a\b`, "a__b", "b_", "_c", "-1", "nil_"}
var strEdge = []string{"", "nil", "_", "__", "a_b_c", "NULL", "nil_nil", "\"q\"", "%", "a,b"}

func genPart(r *lib.Rng, typ string, edge bool) Val {
	switch typ {
	case "uint":
		if edge && r.Chance(1, 6) {
			return VI(0)
		}
		return VI(int64(r.Range(1, 7)))
	case "bytes":
		return VS(lib.Pick(r, []string{"a", "b", "c", "a_b", "b_c", "_", "nil", "\\x", "k1", "k2", "k\x01z"}))
	case "int":
		if !edge && r.Chance(1, 12) {
			return VI(0)
		}
		if edge && r.Chance(1, 4) {
			return VI(int64(lib.Pick(r, []int{0, -1, -2, 1 << 40})))
		}
		return VI(int64(r.Range(1, 6)))
	}
	if edge && r.Chance(1, 3) {
		return VS(lib.Pick(r, strEdge))
	}
	if r.Chance(1, 14) {
		return VS("")
	}
	return VS(lib.Pick(r, strPool))
}

func tupleEq(a, b []Val) bool {
	for i := range a {
		if a[i].Null != b[i].Null {
			return false
		}
		if !a[i].Null && !a[i].eq(b[i]) {
			return false
		}
	}
	return true
}
func hasTuple(ts [][]Val, t []Val) bool {
	for _, x := range ts {
		if tupleEq(x, t) {
			return true
		}
	}
	return false
}

// casePool draws the small set of key tuples a case is built from.
func casePool(r *lib.Rng, f *Fam, edge bool) [][]Val {
	n := r.Range(4, 9)
	var pool [][]Val
	// per-part pools so that composite tuples share parts (near misses)
	parts := make([][]Val, len(f.Types))
	for i, t := range f.Types {
		k := r.Range(2, 5)
		for j := 0; j < k; j++ {
			parts[i] = append(parts[i], genPart(r, t, edge))
		}
	}
	for tries := 0; len(pool) < n && tries < 40; tries++ {
		t := make([]Val, len(f.Types))
		for i := range t {
			t[i] = lib.Pick(r, parts[i])
		}
		if !hasTuple(pool, t) {
			pool = append(pool, t)
		}
	}
	return pool
}

func setKey(row *Row, flds []string, t []Val) {
	for i, fl := range flds {
		row.F[fl] = t[i]
	}
}

// fkChoice: a foreign key tuple pointing at one of refs, at a stray pool key, NULL, or partly NULL.
func fkChoice(r *lib.Rng, refs, pool [][]Val, arity int, pRef, pStray, pNull int) []Val {
	null := make([]Val, arity)
	for i := range null {
		null[i] = VNull
	}
	x := r.Intn(100)
	switch {
	case x < pRef && len(refs) > 0:
		return append([]Val{}, lib.Pick(r, refs)...)
	case x < pRef+pStray && len(pool) > 0:
		return append([]Val{}, lib.Pick(r, pool)...)
	case x < pRef+pStray+pNull || arity == 1 || len(pool) == 0:
		return null
	}
	t := append([]Val{}, lib.Pick(r, pool)...)
	t[r.Intn(arity)] = VNull
	return t
}

func genInput(r *lib.Rng, edge bool) Input {
	f := fams[lib.Pick(r, famNames)]
	in := Input{Fam: f.Name, Tables: map[string][]Row{}, Cond: Cond{Kind: "all"}, Cond2: Cond{Kind: "all"}}
	rels := f.rels()
	in.Rel = lib.Pick(r, f.relNamesOnP())
	rel := rels[in.Rel]
	switch x := r.Intn(100); {
	case x < 52:
		in.Mode = "preload"
	case x < 82 && rel.Single:
		in.Mode = "joins"
	case x < 82:
		in.Mode = "preload"
	default:
		in.Mode = "assoc"
	}
	if (in.Mode == "joins" && rel.NoJoin) || (in.Mode == "assoc" && rel.NoAssoc) {
		in.Mode = "preload"
	}
	in.Shape = lib.Pick(r, []string{"slice", "slice", "slice", "ptrs", "ptrs", "struct"})
	in.Unscoped = r.Chance(1, 5)
	genCond := func() Cond {
		c := Cond{Kind: "all"}
		switch r.Intn(9) {
		case 0, 1:
			m := int64(r.Range(2, 3))
			c = Cond{Kind: "mod", A: m, B: int64(r.Intn(int(m)))}
		case 2:
			c = Cond{Kind: "gt", A: int64(r.Range(0, 8))}
		case 3:
			if edge {
				c = Cond{Kind: "none"}
			}
		}
		if c.Kind != "all" {
			c.As = lib.Pick(r, []string{"inline", "scope"})
		}
		return c
	}
	in.Cond = genCond()
	if in.Mode == "joins" {
		in.Inner = r.Chance(1, 4)
		if in.Cond.Kind != "all" {
			in.Cond.As = "on-db"
		} else if r.Chance(1, 2) { // ON conditions are frequent in this mode
			in.Cond = Cond{Kind: "gt", A: int64(r.Range(0, 4)), As: "on-db"}
		}
	}
	if in.Mode == "preload" {
		if r.Chance(1, 7) {
			in.AllAssoc = true
		} else if ns := f.nestedOf(in.Rel); len(ns) > 0 && r.Chance(1, 2) {
			in.Nested = lib.Pick(r, ns)
			in.Cond2 = genCond()
		}
		in.Dup = r.Chance(1, 6)
	}
	if in.Mode == "joins" {
		if ns := f.nestedOf(in.Rel); len(ns) > 0 && r.Chance(1, 2) {
			in.Nested = lib.Pick(r, ns)
			in.Cond2 = genCond()
		}
		// nested relation joins: Joins("Boss").Joins("Boss.Target")
		var single []string
		for _, n := range f.nestedOf(in.Rel) {
			if rels[n].Single && !rels[n].NoJoin {
				single = append(single, n)
			}
		}
		if len(single) > 0 && r.Chance(1, 2) {
			in.JoinNested = lib.Pick(r, single)
			// a third relation on the join path, and which of its prefixes are joined explicitly
			var deeper []string
			for _, n := range f.nestedOf(in.JoinNested) {
				if rels[n].Single && !rels[n].NoJoin {
					deeper = append(deeper, n)
				}
			}
			if len(deeper) > 0 && r.Chance(1, 2) {
				in.JoinDeep = lib.Pick(r, deeper)
			}
			in.JoinForm = lib.Pick(r, []string{"all", "rel+deep", "deep"})
			if in.JoinForm == "deep" { // no explicit Joins(Rel): nowhere to put ON conditions
				in.Cond, in.Inner = Cond{Kind: "all"}, false
			}
			if in.JoinNested == in.Nested {
				if ns2 := f.nestedOf2(in.Nested); len(ns2) > 0 {
					// Preload BELOW the joined second relation: "Rel.JoinNested.X" (the conditions go to X)
					in.Nested2 = lib.Pick(r, ns2)
				} else {
					// the same nested relation joined AND preloaded with nothing below: by design the join
					// wins and the preload (with its conditions) is skipped - not a form with one meaning
					in.JoinNested, in.JoinDeep = "", ""
				}
			}
			if in.JoinDeep != "" && in.JoinDeep == in.Nested2 && in.Nested == in.JoinNested {
				in.JoinDeep = ""
			}
		}
	}
	if in.Mode == "assoc" {
		in.DupPtr = r.Chance(1, 4)
		if r.Chance(1, 2) {
			in.Kept = true
			in.Cond2 = genCond()
			for tries := 0; in.Cond.Kind == "all" && tries < 3; tries++ {
				in.Cond = genCond()
			}
		}
	}
	if in.Nested != "" {
		// self-referential relations are walked repeatedly: Boss.Boss.X, Team.Team.Team, ...
		if (in.Rel == "Boss" || in.Rel == "Team") && r.Chance(1, 3) {
			in.Nested = in.Rel
		}
		if ns := f.nestedOf2(in.Nested); len(ns) > 0 && r.Chance(1, 2) {
			in.Nested2 = lib.Pick(r, ns)
			if in.Nested == in.Rel && r.Chance(1, 3) {
				in.Nested2 = in.Rel
			}
		}
	}
	if in.Mode == "joins" && in.JoinNested != "" {
		// a nested relation that is both joined and preloaded is only meaningful with something
		// preloaded BELOW it ("Rel.JoinNested.X"); the same holds one level down
		if in.JoinNested == in.Nested && in.Nested2 == "" {
			if ns2 := f.nestedOf2(in.Nested); len(ns2) > 0 {
				in.Nested2 = lib.Pick(r, ns2)
			} else {
				in.JoinNested, in.JoinDeep = "", ""
			}
		}
		if in.JoinDeep != "" && in.Nested == in.JoinNested && in.JoinDeep == in.Nested2 {
			in.JoinDeep = ""
		}
	}
	if in.Mode == "joins" && in.Nested != "" && !in.Unscoped {
		in.Unscoped = r.Chance(1, 4) // Unscoped has to reach the joined relation and every preload below it
	}
	in.CondAll = Cond{Kind: "all"}
	if in.Mode == "preload" && in.Nested == "" && !in.AllAssoc {
		switch x := r.Intn(6); {
		case x == 0:
			// the relation's own conditions AND conditions / a scope for all associations, one query
			in.Both = true
			in.CondAll = genCond()
			in.AllUnsc = r.Chance(1, 3)
			in.AllFirst = r.Bool()
			for tries := 0; in.Cond.Kind == "all" && tries < 3; tries++ {
				in.Cond = genCond()
			}
		case x == 1:
			// reload into the same destination after rows were soft-deleted / with other conditions
			in.Reload = &Reload{Cond: genCond()}
			if r.Bool() {
				in.Shape = "struct"
			}
		}
	}
	if in.Mode == "assoc" && in.Cond.As == "scope" {
		in.Cond.As = "inline" // Find(out, conds...) takes inline conditions
	}

	pool := casePool(r, f, edge)
	ar := len(f.Parts)
	uid := int64(100)
	base := func() Row {
		uid++
		return Row{F: map[string]Val{"UID": VI(uid), "V": VI(int64(r.Intn(10)))}, Del: r.Chance(1, 6)}
	}
	distinct := func(max int) [][]Val {
		var ks [][]Val
		n := r.Range(0, max)
		if edge && r.Chance(1, 3) {
			n = r.Intn(2)
		}
		for i := 0; i < n; i++ {
			t := lib.Pick(r, pool)
			if !hasTuple(ks, t) {
				ks = append(ks, t)
			}
		}
		return ks
	}
	pk := distinct(8)
	for tries := 0; len(pk) < 2 && !edge && tries < 20; tries++ {
		if t := lib.Pick(r, pool); !hasTuple(pk, t) {
			pk = append(pk, t)
		}
	}
	tk := distinct(5)
	gk := distinct(5)
	for _, k := range tk {
		row := base()
		setKey(&row, f.Parts, k)
		in.Tables["T"] = append(in.Tables["T"], row)
	}
	for _, k := range gk {
		row := base()
		setKey(&row, f.Parts, k)
		in.Tables["G"] = append(in.Tables["G"], row)
	}
	for _, k := range pk {
		row := base()
		row.Del = r.Chance(1, 10)
		setKey(&row, f.Parts, k)
		setKey(&row, rels["Target"].PF, fkChoice(r, tk, pool, ar, 55, 15, 20))
		setKey(&row, rels["Boss"].PF, fkChoice(r, pk, pool, ar, 45, 10, 35))
		if eb, ok := rels["Info.Buddy"]; ok { // foreign key inside the embedded struct
			setKey(&row, []string{eb.PF[0][strings.LastIndex(eb.PF[0], ".")+1:]}, fkChoice(r, tk, pool, ar, 55, 15, 20))
		}
		in.Tables["P"] = append(in.Tables["P"], row)
	}
	// has-one: at most one row per foreign-key value
	var used [][]Val
	for i, n := 0, r.Range(1, 8); i < n; i++ {
		fk := fkChoice(r, pk, pool, ar, 70, 10, 10)
		nonNull := true
		for _, v := range fk {
			nonNull = nonNull && !v.Null
		}
		if nonNull {
			if hasTuple(used, fk) {
				continue
			}
			used = append(used, fk)
		}
		row := base()
		row.F["ID"] = VI(uid)
		setKey(&row, rels["One"].CF, fk)
		in.Tables["O"] = append(in.Tables["O"], row)
	}
	for i, n := 0, r.Range(1, 10); i < n; i++ {
		row := base()
		row.F["ID"] = VI(uid)
		setKey(&row, rels["Many"].CF, fkChoice(r, pk, pool, ar, 70, 10, 12))
		in.Tables["M"] = append(in.Tables["M"], row)
	}
	if _, ok := f.Mod["N"]; ok {
		for i, n := 0, r.Range(1, 8); i < n; i++ {
			row := base()
			row.F["ID"] = VI(uid)
			tf := "OwnerType"
			if rels["Notes"].TypeF != "" {
				tf = rels["Notes"].TypeF
			}
			row.F[rels["Notes"].CF[0]] = fkChoice(r, pk, pool, 1, 70, 10, 20)[0]
			row.F[tf] = VS(lib.Pick(r, []string{"xp", "xp", "xp", "other"}))
			in.Tables["N"] = append(in.Tables["N"], row)
		}
	}
	if _, ok := f.Mod["U"]; ok {
		// relations keyed by the NON-primary field Code (keys overridden by tags): codes are distinct
		// strings, some of which read like the primary keys of OTHER parents
		codePool := append([]string{"1", "2", "3", "4", "5", "6", "7"}, strPool...)
		for _, k := range pk {
			if k[0].S != nil {
				codePool = append(codePool, *k[0].S, *k[0].S)
			}
		}
		var codes [][]Val
		for i := range in.Tables["P"] {
			c := []Val{VS(fmt.Sprint("c", i))}
			for tries := 0; tries < 10; tries++ {
				if t := []Val{VS(lib.Pick(r, codePool))}; !hasTuple(codes, t) && *t[0].S != "" {
					c = t
					break
				}
			}
			codes = append(codes, c)
			in.Tables["P"][i].F["Code"] = c[0]
		}
		var strays [][]Val
		for i := 0; i < 3; i++ {
			strays = append(strays, []Val{VS(lib.Pick(r, codePool))})
		}
		var usedC [][]Val
		_, hasL := f.Mod["L"]
		for i, n := 0, r.Range(1, 8); i < n && hasL; i++ {
			row := base()
			row.F["ID"] = VI(uid)
			row.F["OwnerID"] = fkChoice(r, codes, strays, 1, 70, 12, 18)[0]
			row.F["OwnerType"] = VS(lib.Pick(r, []string{"xp", "xp", "xp", "other"}))
			in.Tables["L"] = append(in.Tables["L"], row)
		}
		for i, n := 0, r.Range(1, 6); i < n && hasL; i++ {
			fk := fkChoice(r, codes, strays, 1, 70, 12, 18)
			if !fk[0].Null {
				if hasTuple(usedC, fk) {
					continue
				}
				usedC = append(usedC, fk)
			}
			row := base()
			row.F["ID"] = VI(uid)
			row.F["OwnerID"] = fk[0]
			row.F["OwnerType"] = VS("xp")
			in.Tables["C"] = append(in.Tables["C"], row)
		}
		for i, n := 0, r.Range(1, 8); i < n; i++ {
			row := base()
			row.F["ID"] = VI(uid)
			row.F[rels["Subs"].CF[0]] = fkChoice(r, codes, strays, 1, 70, 12, 18)[0]
			in.Tables["U"] = append(in.Tables["U"], row)
		}
		if ct, ok := rels["CTags"]; ok {
			// tags keyed by a unique Code that is NOT their primary key; some codes read like ids
			var hcodes [][]Val
			for i, n := 0, r.Range(1, 5); i < n; i++ {
				c := []Val{VS(lib.Pick(r, codePool))}
				if hasTuple(hcodes, c) || *c[0].S == "" {
					continue
				}
				hcodes = append(hcodes, c)
				row := base()
				row.F["ID"] = VI(int64(len(hcodes)))
				row.F["Code"] = c[0]
				in.Tables["H"] = append(in.Tables["H"], row)
			}
			var seen [][]Val
			for i, n := 0, r.Range(1, 9); i < n && len(codes) > 0 && len(hcodes) > 0; i++ {
				l, g := lib.Pick(r, codes), lib.Pick(r, hcodes)
				if r.Chance(1, 6) {
					g = lib.Pick(r, strays)
				}
				both := append(append([]Val{}, l...), g...)
				if hasTuple(seen, both) {
					continue
				}
				seen = append(seen, both)
				row := Row{F: map[string]Val{}}
				setKey(&row, ct.JOwner, l)
				setKey(&row, ct.JTag, g)
				in.Tables["J3"] = append(in.Tables["J3"], row)
			}
		}
	}
	var jseen [][]Val
	tags := rels["Tags"]
	for i, n := 0, r.Range(1, 10); i < n; i++ {
		var l, g []Val
		if r.Chance(4, 5) && len(pk) > 0 {
			l = lib.Pick(r, pk)
		} else {
			l = lib.Pick(r, pool)
		}
		if r.Chance(4, 5) && len(gk) > 0 {
			g = lib.Pick(r, gk)
		} else {
			g = lib.Pick(r, pool)
		}
		both := append(append([]Val{}, l...), g...)
		if hasTuple(jseen, both) {
			continue
		}
		jseen = append(jseen, both)
		row := Row{F: map[string]Val{}}
		setKey(&row, tags.JOwner, l)
		setKey(&row, tags.JTag, g)
		in.Tables["J"] = append(in.Tables["J"], row)
	}
	if wt, ok := rels["WTags"]; ok {
		// many2many whose target key has another length (and other part types) than the owner key
		wparts := make([][]Val, len(wt.KT))
		for i, t := range wt.KT {
			for j, k := 0, r.Range(2, 4); j < k; j++ {
				wparts[i] = append(wparts[i], genPart(r, t, edge))
			}
		}
		wtuple := func() []Val {
			t := make([]Val, len(wparts))
			for i := range t {
				t[i] = lib.Pick(r, wparts[i])
			}
			return t
		}
		var wk [][]Val
		for i, n := 0, r.Range(1, 5); i < n; i++ {
			if t := wtuple(); !hasTuple(wk, t) {
				wk = append(wk, t)
				row := base()
				setKey(&row, wt.CF, t)
				in.Tables["W"] = append(in.Tables["W"], row)
			}
		}
		var seen [][]Val
		for i, n := 0, r.Range(1, 10); i < n && len(pk) > 0; i++ {
			l, g := lib.Pick(r, pk), lib.Pick(r, wk)
			if r.Chance(1, 6) {
				l = lib.Pick(r, pool)
			}
			if r.Chance(1, 6) {
				g = wtuple()
			}
			both := append(append([]Val{}, l...), g...)
			if hasTuple(seen, both) {
				continue
			}
			seen = append(seen, both)
			row := Row{F: map[string]Val{}}
			setKey(&row, wt.JOwner, l)
			setKey(&row, wt.JTag, g)
			in.Tables["J4"] = append(in.Tables["J4"], row)
		}
	}
	if lt, ok := rels["LTags"]; ok {
		// many2many through a join MODEL of its own: surrogate ids in another order than the related rows'
		// keys, and data columns named like columns of the related model (values of OTHER rows)
		var seen [][]Val
		n := r.Range(1, 10)
		for i := 0; i < n; i++ {
			var l, g []Val
			if r.Chance(4, 5) && len(pk) > 0 {
				l = lib.Pick(r, pk)
			} else {
				l = lib.Pick(r, pool)
			}
			if r.Chance(4, 5) && len(gk) > 0 {
				g = lib.Pick(r, gk)
			} else {
				g = lib.Pick(r, pool)
			}
			both := append(append([]Val{}, l...), g...)
			if hasTuple(seen, both) {
				continue
			}
			seen = append(seen, both)
			row := Row{F: map[string]Val{"id": VI(int64(n - i)), "v": VI(int64(r.Intn(10)))}}
			setKey(&row, lt.JOwner, l)
			setKey(&row, lt.JTag, g)
			joinExtra(f, &row, lib.Pick(r, pool), int64(9000+i))
			in.Tables["J5"] = append(in.Tables["J5"], row)
		}
	}
	if fr, ok := rels["Friends"]; ok { // self-referential many2many
		var seen [][]Val
		for i, n := 0, r.Range(1, 9); i < n && len(pk) > 0; i++ {
			l, g := lib.Pick(r, pk), lib.Pick(r, pk)
			if r.Chance(1, 6) {
				g = lib.Pick(r, pool)
			}
			both := append(append([]Val{}, l...), g...)
			if hasTuple(seen, both) {
				continue
			}
			seen = append(seen, both)
			row := Row{F: map[string]Val{}}
			setKey(&row, fr.JOwner, l)
			setKey(&row, fr.JTag, g)
			in.Tables["J2"] = append(in.Tables["J2"], row)
		}
	}
	if in.Reload != nil {
		for _, row := range in.Tables[rel.Child] {
			if !row.Del && r.Chance(1, 2) {
				in.Reload.SoftDelete = append(in.Reload.SoftDelete, *row.F["UID"].I)
			}
		}
	}
	// parent selection
	var live []int64
	for _, p := range in.Tables["P"] {
		if !p.Del || in.Unscoped {
			live = append(live, *p.F["UID"].I)
		}
	}
	if in.Shape == "struct" {
		if len(live) == 0 {
			in.Shape = "slice"
		} else {
			in.Subset = []int64{lib.Pick(r, live)}
		}
	} else if r.Chance(1, 4) && len(live) > 0 {
		in.Subset = []int64{}
		for _, u := range live {
			if r.Bool() {
				in.Subset = append(in.Subset, u)
			}
		}
	}
	return in
}

// joinExtra fills the data columns of a join-model row that are named like columns of the related model.
func joinExtra(f *Fam, row *Row, other []Val, uid int64) {
	switch f.Name {
	case "I":
		row.F["k"], row.F["uid"] = other[0], VI(uid)
	case "C":
		row.F["a"], row.F["b"] = other[0], other[1]
	}
}

// targetedInputs: a small deterministic stream run in EVERY tier ((a)-(d) below).
//
//	(a) a parent held as a single STRUCT (and as slices, for contrast) whose composite key has a zero
//	    LAST part ("" or 0) next to a sibling with the same first part: has one, has many, belongs to,
//	    self relations, Preload and Association().Find;
//	(b) association Joins / InnerJoins with ON conditions passed as *gorm.DB on children of which
//	    some are soft-deleted and satisfy the condition.
func targetedInputs() []Input {
	var out []Input
	null2 := []Val{VNull, VNull}
	type kf struct {
		fam       string
		zero, one []Val
	}
	for _, k := range []kf{
		{"C", []Val{VS("x"), VS("")}, []Val{VS("x"), VS("y")}},
		{"M", []Val{VI(5), VS("")}, []Val{VI(5), VS("y")}},
		{"R", []Val{VS("x"), VI(0)}, []Val{VS("x"), VI(1)}},
	} {
		f := fams[k.fam]
		mkP := func(uid int64, key, tfk, bfk []Val) Row {
			row := Row{F: map[string]Val{"UID": VI(uid), "V": VI(uid % 10)}}
			setKey(&row, f.Parts, key)
			setKey(&row, pre("T", f.Parts), tfk)
			setKey(&row, pre("B", f.Parts), bfk)
			return row
		}
		child := func(uid int64, fk []Val, del bool) Row {
			row := Row{F: map[string]Val{"UID": VI(uid), "V": VI(uid % 10), "ID": VI(uid)}, Del: del}
			setKey(&row, pre("P", f.Parts), fk)
			return row
		}
		keyed := func(uid int64, key []Val) Row {
			row := Row{F: map[string]Val{"UID": VI(uid), "V": VI(uid % 10)}}
			setKey(&row, f.Parts, key)
			return row
		}
		tables := map[string][]Row{
			// 101 has the zero-last-part key, 102 the sibling key and belongs to / reports to 101's key
			"P": {mkP(101, k.zero, k.one, null2), mkP(102, k.one, k.zero, k.zero)},
			"M": {child(201, k.zero, false), child(202, k.zero, false), child(203, k.one, false), child(204, k.zero, true)},
			"O": {child(301, k.zero, false), child(302, k.one, false)},
			"T": {keyed(401, k.zero), keyed(402, k.one)},
			"G": {keyed(501, k.zero), keyed(502, k.one)},
		}
		jrow := func(l, g []Val) Row {
			row := Row{F: map[string]Val{}}
			tags := f.rels()["Tags"]
			setKey(&row, tags.JOwner, l)
			setKey(&row, tags.JTag, g)
			return row
		}
		tables["J"] = []Row{jrow(k.zero, k.one), jrow(k.one, k.zero), jrow(k.zero, k.zero)}
		for _, rel := range []string{"Many", "One", "Target", "Team", "Boss", "Tags"} {
			for _, mode := range []string{"preload", "assoc"} {
				for _, sh := range []struct {
					shape string
					sub   []int64
				}{{"struct", []int64{101}}, {"struct", []int64{102}}, {"slice", nil}, {"ptrs", []int64{101}}} {
					out = append(out, Input{Fam: k.fam, Rel: rel, Mode: mode, Shape: sh.shape, Subset: sh.sub,
						Cond: Cond{Kind: "all"}, Cond2: Cond{Kind: "all"}, Tables: tables})
				}
			}
		}
	}
	// (b) joins with ON conditions over soft-deleted children
	for _, fam := range []string{"I", "S", "C"} {
		f := fams[fam]
		key := func(i int) []Val {
			t := make([]Val, len(f.Types))
			for j, ty := range f.Types {
				if ty == "str" {
					t[j] = VS(fmt.Sprint("k", i, j))
				} else {
					t[j] = VI(int64(i + 1))
				}
			}
			return t
		}
		null := make([]Val, len(f.Parts))
		for i := range null {
			null[i] = VNull
		}
		var ps, os, ts []Row
		for i := 0; i < 4; i++ {
			p := Row{F: map[string]Val{"UID": VI(int64(101 + i)), "V": VI(int64(i))}}
			setKey(&p, f.Parts, key(i))
			setKey(&p, pre("T", f.Parts), key(10+i))
			setKey(&p, pre("B", f.Parts), null)
			if i > 0 {
				setKey(&p, pre("B", f.Parts), key(i-1))
			}
			ps = append(ps, p)
			// has-one children: v = 5 everywhere, rows of parents 1 and 3 soft-deleted
			o := Row{F: map[string]Val{"UID": VI(int64(301 + i)), "ID": VI(int64(301 + i)), "V": VI(5)}, Del: i%2 == 1}
			setKey(&o, pre("P", f.Parts), key(i))
			os = append(os, o)
			t := Row{F: map[string]Val{"UID": VI(int64(401 + i)), "V": VI(5)}, Del: i%2 == 0}
			setKey(&t, f.Parts, key(10+i))
			ts = append(ts, t)
		}
		ps[2].Del = true // a soft-deleted Boss
		tables := map[string][]Row{"P": ps, "O": os, "T": ts}
		for _, rel := range []string{"One", "Target", "Boss"} {
			for _, c := range []Cond{{Kind: "all"}, {Kind: "gt", A: 0, As: "on-db"}, {Kind: "mod", A: 2, B: 1, As: "on-db"}} {
				for _, inner := range []bool{false, true} {
					out = append(out, Input{Fam: fam, Rel: rel, Mode: "joins", Shape: "slice", Inner: inner,
						Cond: c, Cond2: Cond{Kind: "all"}, Tables: tables})
				}
			}
		}
	}
	// (c) joined + nested preload with nil joined parents in every position, and self-referential
	//     paths of depth 3 (Boss.Boss.X, Team.Team.Team): a reporting forest
	//     p0 <- p1 <- p3 <- p6, p0 <- p4, p2 and p5 without boss
	for _, fam := range []string{"I", "C", "R"} {
		f := fams[fam]
		key := func(i int) []Val {
			t := make([]Val, len(f.Types))
			for j, ty := range f.Types {
				if ty == "str" {
					t[j] = VS(fmt.Sprint("n", i, j))
				} else {
					t[j] = VI(int64(i + 1))
				}
			}
			return t
		}
		null := make([]Val, len(f.Parts))
		for i := range null {
			null[i] = VNull
		}
		boss := []int{-1, 0, -1, 1, 0, -1, 3}
		var ps, ms, os []Row
		for i, b := range boss {
			p := Row{F: map[string]Val{"UID": VI(int64(101 + i)), "V": VI(int64(i))}}
			setKey(&p, f.Parts, key(i))
			setKey(&p, pre("T", f.Parts), null)
			setKey(&p, pre("B", f.Parts), null)
			if b >= 0 {
				setKey(&p, pre("B", f.Parts), key(b))
			}
			ps = append(ps, p)
			for j := 0; j < 1+i%2; j++ {
				m := Row{F: map[string]Val{"UID": VI(int64(201 + 10*i + j)), "ID": VI(int64(201 + 10*i + j)), "V": VI(int64(j))}}
				setKey(&m, pre("P", f.Parts), key(i))
				ms = append(ms, m)
			}
			o := Row{F: map[string]Val{"UID": VI(int64(301 + i)), "ID": VI(int64(301 + i)), "V": VI(3)}}
			setKey(&o, pre("P", f.Parts), key(i))
			os = append(os, o)
		}
		tables := map[string][]Row{"P": ps, "M": ms, "O": os}
		all := Cond{Kind: "all"}
		for _, sh := range []string{"slice", "ptrs"} {
			for _, n1 := range []string{"Many", "One", "Team", "Boss"} {
				out = append(out, Input{Fam: fam, Rel: "Boss", Mode: "joins", Shape: sh, Nested: n1, Cond: all, Cond2: all, Tables: tables})
				out = append(out, Input{Fam: fam, Rel: "Boss", Mode: "joins", Shape: sh, Nested: "Boss", Nested2: n1, Cond: all, Cond2: all, Tables: tables})
				out = append(out, Input{Fam: fam, Rel: "Boss", Mode: "preload", Shape: sh, Nested: "Boss", Nested2: n1, Cond: all, Cond2: all, Tables: tables})
				out = append(out, Input{Fam: fam, Rel: "Team", Mode: "preload", Shape: sh, Nested: "Team", Nested2: n1, Cond: all, Cond2: all, Tables: tables})
			}
		}
		// join paths of THREE relations (Boss.Boss.X), joined by the longest path only / with Joins(Boss) /
		// with every prefix, and a preload below the first or the second relation of the path
		for _, sh := range []struct {
			shape string
			sub   []int64
		}{{"slice", nil}, {"ptrs", nil}, {"struct", []int64{107}}} {
			for _, form := range []string{"deep", "rel+deep", "all"} {
				for _, deep := range []string{"One", "Boss"} {
					out = append(out,
						Input{Fam: fam, Rel: "Boss", Mode: "joins", Shape: sh.shape, Subset: sh.sub, JoinNested: "Boss", JoinDeep: deep, JoinForm: form, Cond: all, Cond2: all, Tables: tables},
						Input{Fam: fam, Rel: "Boss", Mode: "joins", Shape: sh.shape, Subset: sh.sub, JoinNested: "Boss", JoinDeep: deep, JoinForm: form, Nested: "Many", Cond: all, Cond2: all, Tables: tables},
						Input{Fam: fam, Rel: "Boss", Mode: "joins", Shape: sh.shape, Subset: sh.sub, JoinNested: "Boss", JoinDeep: deep, JoinForm: form, Nested: "Boss", Nested2: "Many", Cond: all, Cond2: all, Tables: tables})
				}
			}
		}
		out = append(out, Input{Fam: fam, Rel: "Many", Mode: "preload", Shape: "slice", Nested: "Owner", Nested2: "Many", Cond: all, Cond2: all, Tables: tables})
		// the same forest with soft-deleted rows at EVERY level (a parent, joined bosses, rows of the
		// relations preloaded below the join), read with and without Unscoped(): the flag has to reach
		// the joined relation AND every preload below it
		delRows := func(rows []Row, del func(i int) bool) []Row {
			cp := make([]Row, len(rows))
			for i, r := range rows {
				cp[i] = Row{F: r.F, Del: del(i)}
			}
			return cp
		}
		tdel := map[string][]Row{
			"P": delRows(ps, func(i int) bool { return i == 1 || i == 4 }),
			"M": delRows(ms, func(i int) bool { return i%2 == 0 }),
			"O": delRows(os, func(i int) bool { return i == 0 || i == 3 }),
		}
		for _, un := range []bool{true, false} {
			for _, sh := range []struct {
				shape string
				sub   []int64
			}{{"slice", nil}, {"ptrs", nil}, {"struct", []int64{104}}, {"struct", []int64{107}}} {
				for _, n1 := range []string{"Many", "One", "Team", "Boss"} {
					out = append(out,
						Input{Fam: fam, Rel: "Boss", Mode: "joins", Unscoped: un, Shape: sh.shape, Subset: sh.sub, Nested: n1, Cond: all, Cond2: all, Tables: tdel},
						Input{Fam: fam, Rel: "Boss", Mode: "joins", Unscoped: un, Shape: sh.shape, Subset: sh.sub, Nested: "Boss", Nested2: n1, Cond: all, Cond2: all, Tables: tdel},
						Input{Fam: fam, Rel: "Boss", Mode: "preload", Unscoped: un, Shape: sh.shape, Subset: sh.sub, Nested: "Boss", Nested2: n1, Cond: all, Cond2: all, Tables: tdel})
				}
				out = append(out,
					Input{Fam: fam, Rel: "Boss", Mode: "joins", Unscoped: un, Shape: sh.shape, Subset: sh.sub, JoinNested: "Boss", JoinForm: "all", Nested: "Many", Cond: all, Cond2: all, Tables: tdel},
					Input{Fam: fam, Rel: "Boss", Mode: "joins", Unscoped: un, Shape: sh.shape, Subset: sh.sub, JoinNested: "Boss", JoinDeep: "One", JoinForm: "deep", Nested: "Boss", Nested2: "Many", Cond: all, Cond2: all, Tables: tdel})
			}
		}
	}
	// (g) many2many whose two sides have keys of DIFFERENT lengths: one owner column and two target
	//     columns (family I), two owner columns and one target column (family C); some targets are
	//     shared, one is soft-deleted, one join row points at no target
	for _, fam := range []string{"I", "C"} {
		f := fams[fam]
		wt := f.rels()["WTags"]
		okey := func(i int) []Val {
			if len(f.Parts) == 1 {
				return []Val{VI(int64(i + 1))}
			}
			return []Val{VS(fmt.Sprint("a", i/2)), VS(fmt.Sprint("b", i))}
		}
		wkey := func(i int) []Val {
			if len(wt.CF) == 1 {
				return []Val{VI(int64(i + 1))}
			}
			return []Val{VS(fmt.Sprint("x", i/2)), VS(fmt.Sprint("y", i))}
		}
		null := make([]Val, len(f.Parts))
		for i := range null {
			null[i] = VNull
		}
		var ps, ws, js []Row
		for i := 0; i < 4; i++ {
			p := Row{F: map[string]Val{"UID": VI(int64(101 + i)), "V": VI(int64(i))}}
			setKey(&p, f.Parts, okey(i))
			setKey(&p, pre("T", f.Parts), null)
			setKey(&p, pre("B", f.Parts), null)
			ps = append(ps, p)
			w := Row{F: map[string]Val{"UID": VI(int64(601 + i)), "V": VI(int64(i + 1))}, Del: i == 3}
			setKey(&w, wt.CF, wkey(i))
			ws = append(ws, w)
		}
		for _, lk := range [][2]int{{0, 0}, {0, 1}, {1, 1}, {1, 2}, {2, 3}, {2, 0}, {3, 7}, {9, 2}} {
			j := Row{F: map[string]Val{}}
			setKey(&j, wt.JOwner, okey(lk[0]))
			setKey(&j, wt.JTag, wkey(lk[1]))
			js = append(js, j)
		}
		tw := map[string][]Row{"P": ps, "W": ws, "J4": js}
		all := Cond{Kind: "all"}
		for _, sh := range []string{"slice", "ptrs", "struct"} {
			var sub []int64
			if sh == "struct" {
				sub = []int64{101}
			}
			for _, un := range []bool{false, true} {
				out = append(out,
					Input{Fam: fam, Rel: "WTags", Mode: "preload", Unscoped: un, Shape: sh, Subset: sub, Cond: all, Cond2: all, Tables: tw},
					Input{Fam: fam, Rel: "WTags", Mode: "assoc", Unscoped: un, Shape: sh, Subset: sub, Cond: all, Cond2: all, Tables: tw})
			}
			out = append(out,
				Input{Fam: fam, Rel: "WTags", Mode: "preload", Shape: sh, Subset: sub, Cond: Cond{Kind: "gt", A: 1, As: "inline"}, Cond2: all, Tables: tw},
				Input{Fam: fam, Rel: "WTags", Mode: "assoc", Shape: sh, Subset: sub, Kept: true, Cond: Cond{Kind: "gt", A: 1, As: "inline"}, Cond2: Cond{Kind: "mod", A: 2, B: 1, As: "inline"}, Tables: tw})
		}
	}
	// (h) many2many through a join MODEL of its own (SetupJoinTable) whose columns share names with the
	//     related model's (surrogate id, key-named and data columns carrying OTHER rows' values): the
	//     records Preload / Association().Find hand out must be the related rows, column for column
	for _, fam := range []string{"I", "C", "D"} {
		f := fams[fam]
		lt := f.rels()["LTags"]
		key := func(i int) []Val {
			t := make([]Val, len(f.Types))
			for j, ty := range f.Types {
				if ty == "str" {
					t[j] = VS(fmt.Sprint("h", i, j))
				} else {
					t[j] = VI(int64(i + 1))
				}
			}
			return t
		}
		var ps, gs, js []Row
		for i := 0; i < 3; i++ {
			p := Row{F: map[string]Val{"UID": VI(int64(101 + i)), "V": VI(int64(i))}}
			setKey(&p, f.Parts, key(i))
			ps = append(ps, p)
		}
		for i := 0; i < 4; i++ {
			g := Row{F: map[string]Val{"UID": VI(int64(501 + i)), "V": VI(int64(i + 1))}, Del: i == 3}
			setKey(&g, f.Parts, key(i))
			gs = append(gs, g)
		}
		for n, lk := range [][2]int{{1, 3}, {1, 2}, {0, 3}, {0, 1}, {2, 0}, {5, 2}} {
			j := Row{F: map[string]Val{"id": VI(int64(n + 1)), "v": VI(int64(7 - n))}}
			setKey(&j, lt.JOwner, key(lk[0]))
			setKey(&j, lt.JTag, key(lk[1]))
			joinExtra(f, &j, key((lk[1]+1)%4), int64(501+(lk[1]+2)%4))
			js = append(js, j)
		}
		th := map[string][]Row{"P": ps, "G": gs, "J5": js}
		all := Cond{Kind: "all"}
		for _, sh := range []string{"slice", "ptrs", "struct"} {
			var sub []int64
			if sh == "struct" {
				sub = []int64{102}
			}
			for _, un := range []bool{false, true} {
				out = append(out,
					Input{Fam: fam, Rel: "LTags", Mode: "preload", Unscoped: un, Shape: sh, Subset: sub, Cond: all, Cond2: all, Tables: th},
					Input{Fam: fam, Rel: "LTags", Mode: "assoc", Unscoped: un, Shape: sh, Subset: sub, Cond: all, Cond2: all, Tables: th})
			}
			out = append(out,
				Input{Fam: fam, Rel: "LTags", Mode: "assoc", Shape: sh, Subset: sub, Kept: true, Cond: Cond{Kind: "gt", A: 1, As: "inline"}, Cond2: Cond{Kind: "mod", A: 2, B: 1, As: "inline"}, Tables: th})
		}
	}
	// (d) relations whose keys are overridden by tags: polymorphic has many / has one with
	//     `foreignKey:Code` and has many with `references:Code`, where a parent's Code reads like the
	//     primary key of ANOTHER parent
	for _, fam := range []string{"I", "S"} {
		f := fams[fam]
		pk := func(i int) Val {
			if f.Types[0] == "str" {
				return VS(fmt.Sprint(i))
			}
			return VI(int64(i))
		}
		codes := []string{"2", "1", "x_3", "nil"}
		var ps, ls, cs, us []Row
		for i, c := range codes {
			p := Row{F: map[string]Val{"UID": VI(int64(101 + i)), "V": VI(int64(i)), "K": pk(i + 1), "TK": VNull, "BK": VNull, "Code": VS(c)}}
			ps = append(ps, p)
			for j := 0; j < 1+i%2; j++ {
				id := int64(201 + 10*i + j)
				ls = append(ls, Row{F: map[string]Val{"UID": VI(id), "ID": VI(id), "V": VI(int64(j)), "OwnerID": VS(c), "OwnerType": VS("xp")}})
				us = append(us, Row{F: map[string]Val{"UID": VI(id + 300), "ID": VI(id + 300), "V": VI(int64(j)), "PCode": VS(c)}})
			}
			cs = append(cs, Row{F: map[string]Val{"UID": VI(int64(401 + i)), "ID": VI(int64(401 + i)), "V": VI(1), "OwnerID": VS(c), "OwnerType": VS("xp")}})
		}
		ls = append(ls, Row{F: map[string]Val{"UID": VI(299), "ID": VI(299), "V": VI(1), "OwnerID": VS("2"), "OwnerType": VS("other")}})
		tables := map[string][]Row{"P": ps, "L": ls, "C": cs, "U": us}
		all := Cond{Kind: "all"}
		for _, rel := range []string{"Labels", "Cover", "Subs"} {
			for _, sh := range []string{"slice", "ptrs", "struct"} {
				var sub []int64
				if sh == "struct" {
					sub = []int64{101}
				}
				out = append(out, Input{Fam: fam, Rel: rel, Mode: "preload", Shape: sh, Subset: sub, Cond: all, Cond2: all, Tables: tables})
				out = append(out, Input{Fam: fam, Rel: rel, Mode: "assoc", Shape: sh, Subset: sub, Cond: all, Cond2: all, Tables: tables})
			}
		}
		out = append(out, Input{Fam: fam, Rel: "Cover", Mode: "joins", Shape: "slice", Cond: all, Cond2: all, Tables: tables})
		// many2many through NON-primary unique columns on both sides, read by Association().Find / Count
		// (one call, and several calls through one kept handle) with Preload as the cross-check
		hs := []Row{}
		for i, c := range []string{"3", "1", "t_x"} {
			hs = append(hs, Row{F: map[string]Val{"UID": VI(int64(501 + i)), "V": VI(int64(i + 1)), "ID": VI(int64(i + 1)), "Code": VS(c)}})
		}
		j3 := []Row{}
		for _, lc := range [][2]string{{"2", "3"}, {"2", "t_x"}, {"1", "1"}, {"x_3", "3"}, {"nil", "t_x"}} {
			j3 = append(j3, Row{F: map[string]Val{"owner_code": VS(lc[0]), "tag_code": VS(lc[1])}})
		}
		t2 := map[string][]Row{"P": ps, "L": ls, "C": cs, "U": us, "H": hs, "J3": j3}
		gt1 := Cond{Kind: "gt", A: 1, As: "inline"}
		for _, sh := range []string{"slice", "ptrs", "struct"} {
			var sub []int64
			if sh == "struct" {
				sub = []int64{101}
			}
			out = append(out,
				Input{Fam: fam, Rel: "CTags", Mode: "preload", Shape: sh, Subset: sub, Cond: all, Cond2: all, Tables: t2},
				Input{Fam: fam, Rel: "CTags", Mode: "assoc", Shape: sh, Subset: sub, Cond: all, Cond2: all, Tables: t2},
				Input{Fam: fam, Rel: "CTags", Mode: "assoc", Shape: sh, Subset: sub, Kept: true, Cond: gt1, Cond2: Cond{Kind: "mod", A: 2, B: 1, As: "inline"}, Tables: t2},
				Input{Fam: fam, Rel: "Labels", Mode: "assoc", Shape: sh, Subset: sub, Kept: true, Cond: Cond{Kind: "gt", A: 0, As: "inline"}, Cond2: all, Tables: t2},
				Input{Fam: fam, Rel: "Subs", Mode: "assoc", Shape: sh, Subset: sub, Kept: true, Cond: Cond{Kind: "none", As: "inline"}, Cond2: gt1, Tables: t2})
		}
	}
	// (e) one query with Preload(Rel, own conditions) AND Preload(clause.Associations, scope), in both
	//     orders, the scope filtering by v and / or calling Unscoped(); (f) the SAME destination loaded
	//     again after children were soft-deleted or with conditions the attached row fails
	for _, fam := range []string{"I", "C"} {
		f := fams[fam]
		key := func(i int) []Val {
			t := make([]Val, len(f.Types))
			for j, ty := range f.Types {
				if ty == "str" {
					t[j] = VS(fmt.Sprint("e", i, j))
				} else {
					t[j] = VI(int64(i + 1))
				}
			}
			return t
		}
		null := make([]Val, len(f.Parts))
		for i := range null {
			null[i] = VNull
		}
		var ps, ms, os, ts []Row
		for i := 0; i < 3; i++ {
			p := Row{F: map[string]Val{"UID": VI(int64(101 + i)), "V": VI(int64(i + 1))}}
			setKey(&p, f.Parts, key(i))
			setKey(&p, pre("T", f.Parts), key(10+i))
			setKey(&p, pre("B", f.Parts), null)
			if i > 0 {
				setKey(&p, pre("B", f.Parts), key(0))
			}
			ps = append(ps, p)
			for j := 0; j < 4; j++ { // v = 1..4, the row with v = 3 soft-deleted
				id := int64(201 + 10*i + j)
				m := Row{F: map[string]Val{"UID": VI(id), "ID": VI(id), "V": VI(int64(j + 1))}, Del: j == 2}
				setKey(&m, pre("P", f.Parts), key(i))
				ms = append(ms, m)
			}
			o := Row{F: map[string]Val{"UID": VI(int64(301 + i)), "ID": VI(int64(301 + i)), "V": VI(int64(2 + i))}}
			setKey(&o, pre("P", f.Parts), key(i))
			os = append(os, o)
			t := Row{F: map[string]Val{"UID": VI(int64(401 + i)), "V": VI(int64(2 + i))}}
			setKey(&t, f.Parts, key(10+i))
			ts = append(ts, t)
		}
		tables := map[string][]Row{"P": ps, "M": ms, "O": os, "T": ts}
		gt1 := Cond{Kind: "gt", A: 1, As: "scope"}
		gt1i := Cond{Kind: "gt", A: 1, As: "inline"}
		even := Cond{Kind: "mod", A: 2, B: 0}
		all := Cond{Kind: "all"}
		for _, rel := range []string{"Many", "One", "Target", "Boss", "Team"} {
			for _, sh := range []string{"struct", "slice", "ptrs"} {
				var sub []int64
				if sh == "struct" {
					sub = []int64{102}
				}
				for _, first := range []bool{false, true} {
					out = append(out,
						Input{Fam: fam, Rel: rel, Mode: "preload", Shape: sh, Subset: sub, Both: true, AllFirst: first, Cond: gt1, CondAll: even, Cond2: all, Tables: tables},
						Input{Fam: fam, Rel: rel, Mode: "preload", Shape: sh, Subset: sub, Both: true, AllFirst: first, Cond: gt1i, CondAll: all, AllUnsc: true, Cond2: all, Tables: tables},
						Input{Fam: fam, Rel: rel, Mode: "preload", Shape: sh, Subset: sub, Both: true, AllFirst: first, Cond: all, CondAll: even, AllUnsc: true, Cond2: all, Tables: tables})
				}
			}
		}
		for _, sh := range []string{"struct", "slice", "ptrs"} {
			sub := []int64{102}
			out = append(out,
				Input{Fam: fam, Rel: "One", Mode: "preload", Shape: sh, Subset: sub, Cond: all, Cond2: all, Tables: tables, Reload: &Reload{SoftDelete: []int64{302}, Cond: all}},
				Input{Fam: fam, Rel: "One", Mode: "preload", Shape: sh, Subset: sub, Cond: all, Cond2: all, Tables: tables, Reload: &Reload{Cond: Cond{Kind: "gt", A: 8, As: "inline"}}},
				Input{Fam: fam, Rel: "Target", Mode: "preload", Shape: sh, Subset: sub, Cond: all, Cond2: all, Tables: tables, Reload: &Reload{SoftDelete: []int64{402}, Cond: all}},
				Input{Fam: fam, Rel: "Target", Mode: "preload", Shape: sh, Subset: sub, Cond: all, Cond2: all, Tables: tables, Reload: &Reload{Cond: Cond{Kind: "none", As: "scope"}}},
				Input{Fam: fam, Rel: "Boss", Mode: "preload", Shape: sh, Subset: sub, Cond: all, Cond2: all, Tables: tables, Reload: &Reload{Cond: Cond{Kind: "gt", A: 8, As: "scope"}}},
				Input{Fam: fam, Rel: "Many", Mode: "preload", Shape: sh, Subset: sub, Cond: all, Cond2: all, Tables: tables, Reload: &Reload{SoftDelete: []int64{211, 212}, Cond: gt1}})
		}
	}
	return out
}

// sweepInputs: bounded-exhaustive sweep (thorough tier) over all pairs of composite string keys
// built from a separator / nil heavy alphabet, as two has-many parents with one child each and as
// two belongs-to owners of two targets.  Every pair must satisfy the property.
func sweepInputs() []Input {
	alpha := []string{"a", "b", "_", "a_", "_a", "nil", "a_b"}
	var tuples [][]Val
	for _, x := range alpha {
		for _, y := range alpha {
			tuples = append(tuples, []Val{VS(x), VS(y)})
		}
	}
	null := []Val{VNull, VNull}
	var out []Input
	for i := range tuples {
		for j := i + 1; j < len(tuples); j++ {
			mk := func(uid int64, k, t []Val) Row {
				row := Row{F: map[string]Val{"UID": VI(uid), "V": VI(uid % 10)}}
				setKey(&row, []string{"A", "B"}, k)
				setKey(&row, []string{"TA", "TB"}, t)
				setKey(&row, []string{"BA", "BB"}, null)
				return row
			}
			child := func(uid int64, fk []Val) Row {
				row := Row{F: map[string]Val{"UID": VI(uid), "V": VI(uid % 10), "ID": VI(uid)}}
				setKey(&row, []string{"PA", "PB"}, fk)
				return row
			}
			target := func(uid int64, k []Val) Row {
				row := Row{F: map[string]Val{"UID": VI(uid), "V": VI(uid % 10)}}
				setKey(&row, []string{"A", "B"}, k)
				return row
			}
			many := Input{Fam: "C", Rel: "Many", Mode: "preload", Shape: "slice", Cond: Cond{Kind: "all"}, Cond2: Cond{Kind: "all"},
				Tables: map[string][]Row{
					"P": {mk(101, tuples[i], null), mk(102, tuples[j], null)},
					"M": {child(201, tuples[i]), child(202, tuples[j])}}}
			bt := Input{Fam: "C", Rel: "Target", Mode: "preload", Shape: "ptrs", Cond: Cond{Kind: "all"}, Cond2: Cond{Kind: "all"},
				Tables: map[string][]Row{
					"P": {mk(101, []Val{VS("p"), VS("1")}, tuples[i]), mk(102, []Val{VS("p"), VS("2")}, tuples[j]),
						mk(103, []Val{VS("p"), VS("3")}, []Val{VNull, tuples[j][1]})},
					"T": {target(301, tuples[i]), target(302, tuples[j])}}}
			out = append(out, many, bt)
		}
	}
	return out
}

func shapeOf(in Input) string {
	n := func(m string) int { return len(in.Tables[m]) }
	flags := ""
	for _, rows := range in.Tables {
		for _, row := range rows {
			for _, v := range row.F {
				if v.S != nil && strings.Contains(*v.S, "_") && !strings.Contains(flags, "s") {
					flags += "s"
				}
				if v.S != nil && *v.S == "nil" && !strings.Contains(flags, "n") {
					flags += "n"
				}
			}
		}
	}
	fl := []byte(flags)
	sort.Slice(fl, func(i, j int) bool { return fl[i] < fl[j] })
	return fmt.Sprintf("%s.%s|%s|inner=%v|n=%s|all=%v|c=%s%s,%s%s|u=%v|%s|dup=%v|sub=%d|P%d,O%d,M%d,T%d,G%d,N%d,J%d|%s",
		in.Fam, in.Rel, in.Mode, in.Inner, in.Nested+"."+in.Nested2+fmt.Sprint("|both=", in.Both, in.CondAll.Kind, in.AllUnsc, in.AllFirst, "|reload=", in.Reload != nil, "|jn=", in.JoinNested, in.JoinDeep, in.JoinForm, "|dp=", in.DupPtr, "|kept=", in.Kept), in.AllAssoc, in.Cond.Kind, in.Cond.As, in.Cond2.Kind, in.Cond2.As, in.Unscoped,
		in.Shape, in.Dup, len(in.Subset), n("P"), n("O"), n("M"), n("T"), n("G"), n("N"), n("J"), string(fl))
}

func readInput(path string) Input {
	b, err := os.ReadFile(path)
	lib.Must(err)
	var c struct {
		Case struct {
			Input Input `json:"input"`
		} `json:"case"`
	}
	lib.Must(json.Unmarshal(b, &c))
	return c.Case.Input
}

func main() {
	a := lib.ParseArgs()
	db, _, sqlDB, err := gdb.Open(gdb.Opt{})
	lib.Must(err)
	for _, fn := range famNames {
		if jm, ok := joinModels[fn]; ok {
			jp := reflect.New(reflect.TypeOf(jm)).Interface()
			lib.Must(db.SetupJoinTable(reflect.New(reflect.TypeOf(fams[fn].Mod["P"])).Interface(), "LTags", jp))
			lib.Must(db.AutoMigrate(jp))
		}
	}
	for _, fn := range famNames {
		f := fams[fn]
		for _, m := range []string{"T", "G", "H", "W", "P", "O", "M", "N", "L", "C", "U"} {
			if mod, ok := f.Mod[m]; ok {
				lib.Must(db.AutoMigrate(reflect.New(reflect.TypeOf(mod)).Interface()))
			}
		}
	}
	env := &Env{db: db, sql: sqlDB}
	out := lib.NewOut(a.Out, "C11")
	out.PerFile = 250

	add := func(kind string, in Input) {
		s := formerShape(in)
		// a panic inside gorm is an observation (error class 2) of this input, not the end of the run
		obs := func() (o []Obs) {
			defer func() {
				if p := recover(); p != nil {
					rel := fams[in.Fam].rels()[in.Rel]
					mode := map[string]string{"preload": "MPreload", "joins": "MJoins", "assoc": "MAssocFind"}[in.Mode]
					o = []Obs{{Rel: in.Rel, Mode: mode, M2M: rel.M2M, Att: [][]int64{}, Err: 2, ErrText: fmt.Sprint("panic: ", p),
						hop: Hop{Single: rel.Single, Cond: Cond{Kind: "all"}, Poly: rel.Poly}, hop2: Hop{Cond: Cond{Kind: "all"}}}}
				}
			}()
			return env.run(in)
		}()
		for _, o := range obs {
			att, total := 0, len(o.children)
			distinctSets := map[string]bool{}
			for _, l := range o.Att {
				att += len(l)
				if len(l) > 0 {
					distinctSets[fmt.Sprint(l)] = true
				}
			}
			nontriv := att > 0 && (len(distinctSets) >= 2 || total > att)
			out.Add(lib.Case{Term: o.term(), JSON: map[string]interface{}{"input": in, "observed": o},
				Sig: sig(in), Kind: kind, Shape: shapeOf(in) + "|" + o.Rel, Nontriv: nontriv})
			out.Count("family", in.Fam)
			out.Count("relation", fams[in.Fam].rels()[strings.Split(o.Rel, ".")[len(strings.Split(o.Rel, "."))-1]].Kind)
			out.Count("mode", o.Mode)
			out.Count("parent_shape", in.Shape)
			out.Count("parents", fmt.Sprint(len(o.Parents)))
			out.Count("attached_total", fmt.Sprint(att))
			out.Count("nested", fmt.Sprint(o.Nested))
			out.Count("cond", in.Cond.Kind+"/"+in.Cond.As)
			out.Count("unscoped", fmt.Sprint(in.Unscoped))
			out.Count("dup_parents", fmt.Sprint(in.Dup))
			out.Count("error", fmt.Sprint(o.Err))
			out.Count("records_compared_column_for_column", fmt.Sprint(len(o.Recs) > 0))
			out.Count("formerly_failing_shape", s)
		}
		if len(obs) == 0 {
			out.Count("skipped_no_parent", in.Fam)
		}
	}

	if a.Replay != "" {
		add("replay", readInput(a.Replay))
		lib.Must(out.Flush())
		return
	}
	for _, fpath := range lib.CorpusFiles(a.Corpus) {
		add("corpus", readInput(fpath))
	}
	env.sample = true
	for _, in := range targetedInputs() {
		add("targeted", in)
	}
	r := lib.NewRng(a.Seed)
	budget := 1350
	if a.Tier == "thorough" {
		budget = 12000
		for _, in := range sweepInputs() {
			add("sweep", in)
		}
	}
	if a.N > 0 {
		budget = a.N
	}
	for i := 0; i < budget; i++ {
		edge := r.Chance(15, 100)
		in := genInput(r, edge)
		kind := "main"
		if edge {
			kind = "edge"
		}
		add(kind, in)
	}
	out.Extra["rule"] = "cases = data graph over one of 8 model families (keys: uint, string, (string,string), (int64,string), (string,int64), (int64,string) with sql.Null* foreign keys, []byte, uint by gorm's naming conventions without foreignKey/references tags) x relation {has_one, has_many, belongs_to, many2many (also through non-primary columns, with keys of DIFFERENT lengths on the two sides: 1/2 and 2/1 columns, and through a join MODEL of its own (SetupJoinTable) whose surrogate id / key-named / data columns are named like columns of the related model and carry other rows' values), polymorphic, self belongs_to, self has_many} x {Preload single / nested / clause.Associations / with inline or scope conditions / a named preload with its own conditions combined with clause.Associations carrying conditions or an Unscoped scope (both orders) / the same destination loaded again after rows were soft-deleted or with other conditions, association Joins / InnerJoins without and with ON conditions passed as *gorm.DB, join paths of two and three relations joined by the longest path only / with Joins(Rel) / with every prefix (+nested preload below the first or the second joined relation), Association().Find} x Unscoped x parent shape {struct, slice, slice of pointers} x duplicated parents; key strings include separators, the text nil and the empty string, numeric key parts include 0 (also as the LAST part of a composite key of a struct-shaped parent: deterministic 'targeted' stream in every tier), foreign keys include NULL and partly NULL tuples, children include soft-deleted rows (at every level of a joined + nested-preload path, read with and without Unscoped); the inputs of the four defects fixed in /repo (separator / nil / zero key collisions, empty composite IN) are replayed from corpus/C11 first and occur in the random streams and the sweep like any other input; besides the uids, every attached / returned record is read back column for column and compared with the stored row of its uid and with the model of SELECT list + Scan (always for Joins, many2many Find, corpus and replays; every third observation of the one-table queries); distinct = distinct (family, relation, mode, path, conditions, shape, table sizes, flags) shapes; non-trivial = at least one child attached and either two parents with different non-empty attachments or a child row of the table attached to nobody"
	lib.Must(out.Flush())
}
