package main

// The model family of the C11 harness: four key signatures, each with every relation kind.
//   I : single uint key            (gorm.Model style; utils.ToStringKey has a uint case)
//   S : single string key
//   C : composite (string, string) key
//   M : composite (int64, string) key
// Per family X: XP parent (has-one One, has-many Many, belongs-to Target, many2many Tags,
// self-referential belongs-to Boss / has-many Team, polymorphic has-many Notes for I and S),
// XO / XM children (foreign keys are pointers: NULL is representable), XT belongs-to target,
// XG many2many target, XN polymorphic child.  Every table has uid (row identity in observations),
// v (data column for preload conditions) and deleted_at (soft delete).

import (
	"database/sql"

	"gorm.io/gorm"
)

type Base struct {
	UID       int64
	V         int64
	DeletedAt gorm.DeletedAt
}

// ---------------- family I ----------------
type IP struct {
	Lbl *string // nullable column declared BEFORE the key: the first column of a joined row can be NULL
	K   uint    `gorm:"primaryKey;autoIncrement:false"`
	Base
	TK     *uint
	BK     *uint
	Target *IT  `gorm:"foreignKey:TK;references:K"`
	One    *IO  `gorm:"foreignKey:PK;references:K"`
	Many   []IM `gorm:"foreignKey:PK;references:K"`
	Tags   []IG `gorm:"many2many:ip_tags;foreignKey:K;joinForeignKey:OwnerK;references:K;joinReferences:TagK"`
	Notes  []IN `gorm:"polymorphic:Owner;polymorphicValue:xp"`
	Boss   *IP  `gorm:"foreignKey:BK;references:K"`
	Team   []IP `gorm:"foreignKey:BK;references:K"`
	Code   string
	Labels []IL `gorm:"polymorphic:Owner;polymorphicValue:xp;foreignKey:Code"`
	Cover  *IC  `gorm:"polymorphic:Owner;polymorphicValue:xp;foreignKey:Code"`
	Subs   []IU `gorm:"foreignKey:PCode;references:Code"`
	CTags  []IH `gorm:"many2many:ip_ctags;foreignKey:Code;joinForeignKey:OwnerCode;references:Code;joinReferences:TagCode"`
	// many2many whose two sides have keys of DIFFERENT lengths: one owner column, two target columns
	WTags []IW `gorm:"many2many:ip_wtags;foreignKey:K;joinForeignKey:OwnerK;references:A,B;joinReferences:TagA,TagB"`
	// many2many through a join MODEL of its own (SetupJoinTable: IPLTag)
	LTags []IG `gorm:"many2many:ip_ltags;foreignKey:K;joinForeignKey:OwnerK;references:K;joinReferences:TagK"`
}

// IW: a many2many target with a composite (string, string) key below the single-key parent IP
type IW struct {
	A string `gorm:"primaryKey"`
	B string `gorm:"primaryKey"`
	Base
}
type IO struct {
	Lbl *string // nullable column declared BEFORE the key: the first column of a joined row can be NULL
	ID  int64   `gorm:"primaryKey"`
	Base
	PK *uint
}
type IM struct {
	ID int64 `gorm:"primaryKey"`
	Base
	PK    *uint
	Owner *IP `gorm:"foreignKey:PK;references:K"`
}
type IT struct {
	Lbl *string // nullable column declared BEFORE the key: the first column of a joined row can be NULL
	K   uint    `gorm:"primaryKey;autoIncrement:false"`
	Base
}
type IG struct {
	K uint `gorm:"primaryKey;autoIncrement:false"`
	Base
}
type IN struct {
	ID int64 `gorm:"primaryKey"`
	Base
	OwnerID   *uint
	OwnerType string
}

// ---------------- family S ----------------
type SP struct {
	Lbl *string // nullable column declared BEFORE the key: the first column of a joined row can be NULL
	K   string  `gorm:"primaryKey"`
	Base
	TK     *string
	BK     *string
	Target *ST  `gorm:"foreignKey:TK;references:K"`
	One    *SO  `gorm:"foreignKey:PK;references:K"`
	Many   []SM `gorm:"foreignKey:PK;references:K"`
	Tags   []SG `gorm:"many2many:sp_tags;foreignKey:K;joinForeignKey:OwnerK;references:K;joinReferences:TagK"`
	Notes  []SN `gorm:"polymorphic:Owner;polymorphicValue:xp"`
	Boss   *SP  `gorm:"foreignKey:BK;references:K"`
	Team   []SP `gorm:"foreignKey:BK;references:K"`
	Code   string
	Labels []SL `gorm:"polymorphic:Owner;polymorphicValue:xp;foreignKey:Code"`
	Cover  *SC  `gorm:"polymorphic:Owner;polymorphicValue:xp;foreignKey:Code"`
	Subs   []SU `gorm:"foreignKey:PCode;references:Code"`
	CTags  []SH `gorm:"many2many:sp_ctags;foreignKey:Code;joinForeignKey:OwnerCode;references:Code;joinReferences:TagCode"`
}
type SO struct {
	Lbl *string // nullable column declared BEFORE the key: the first column of a joined row can be NULL
	ID  int64   `gorm:"primaryKey"`
	Base
	PK *string
}
type SM struct {
	ID int64 `gorm:"primaryKey"`
	Base
	PK    *string
	Owner *SP `gorm:"foreignKey:PK;references:K"`
}
type ST struct {
	Lbl *string // nullable column declared BEFORE the key: the first column of a joined row can be NULL
	K   string  `gorm:"primaryKey"`
	Base
}
type SG struct {
	K string `gorm:"primaryKey"`
	Base
}
type SN struct {
	ID int64 `gorm:"primaryKey"`
	Base
	OwnerID   *string
	OwnerType string
}

// ---------------- family C ----------------
type CP struct {
	Lbl *string // nullable column declared BEFORE the key: the first column of a joined row can be NULL
	A   string  `gorm:"primaryKey"`
	B   string  `gorm:"primaryKey"`
	Base
	TA     *string
	TB     *string
	BA     *string
	BB     *string
	Target *CT  `gorm:"foreignKey:TA,TB;references:A,B"`
	One    *CO  `gorm:"foreignKey:PA,PB;references:A,B"`
	Many   []CM `gorm:"foreignKey:PA,PB;references:A,B"`
	Tags   []CG `gorm:"many2many:cp_tags;foreignKey:A,B;joinForeignKey:OwnerA,OwnerB;references:A,B;joinReferences:TagA,TagB"`
	Boss   *CP  `gorm:"foreignKey:BA,BB;references:A,B"`
	Team   []CP `gorm:"foreignKey:BA,BB;references:A,B"`
	// many2many whose two sides have keys of DIFFERENT lengths: two owner columns, one target column
	WTags []CW `gorm:"many2many:cp_wtags;foreignKey:A,B;joinForeignKey:OwnerA,OwnerB;references:K;joinReferences:TagK"`
	// many2many through a join MODEL of its own (SetupJoinTable: CPLTag)
	LTags []CG `gorm:"many2many:cp_ltags;foreignKey:A,B;joinForeignKey:OwnerA,OwnerB;references:A,B;joinReferences:TagA,TagB"`
}

// CW: a many2many target with a single uint key below the composite-key parent CP
type CW struct {
	K uint `gorm:"primaryKey;autoIncrement:false"`
	Base
}
type CO struct {
	Lbl *string // nullable column declared BEFORE the key: the first column of a joined row can be NULL
	ID  int64   `gorm:"primaryKey"`
	Base
	PA *string
	PB *string
}
type CM struct {
	ID int64 `gorm:"primaryKey"`
	Base
	PA    *string
	PB    *string
	Owner *CP `gorm:"foreignKey:PA,PB;references:A,B"`
}
type CT struct {
	Lbl *string // nullable column declared BEFORE the key: the first column of a joined row can be NULL
	A   string  `gorm:"primaryKey"`
	B   string  `gorm:"primaryKey"`
	Base
}
type CG struct {
	A string `gorm:"primaryKey"`
	B string `gorm:"primaryKey"`
	Base
}

// ---------------- family M ----------------
type MP struct {
	N int64  `gorm:"primaryKey;autoIncrement:false"`
	S string `gorm:"primaryKey"`
	Base
	TN     *int64
	TS     *string
	BN     *int64
	BS     *string
	Target *MT  `gorm:"foreignKey:TN,TS;references:N,S"`
	One    *MO  `gorm:"foreignKey:PN,PS;references:N,S"`
	Many   []MM `gorm:"foreignKey:PN,PS;references:N,S"`
	Tags   []MG `gorm:"many2many:mp_tags;foreignKey:N,S;joinForeignKey:OwnerN,OwnerS;references:N,S;joinReferences:TagN,TagS"`
	Boss   *MP  `gorm:"foreignKey:BN,BS;references:N,S"`
	Team   []MP `gorm:"foreignKey:BN,BS;references:N,S"`
}
type MO struct {
	ID int64 `gorm:"primaryKey"`
	Base
	PN *int64
	PS *string
}
type MM struct {
	ID int64 `gorm:"primaryKey"`
	Base
	PN    *int64
	PS    *string
	Owner *MP `gorm:"foreignKey:PN,PS;references:N,S"`
}
type MT struct {
	N int64  `gorm:"primaryKey;autoIncrement:false"`
	S string `gorm:"primaryKey"`
	Base
}
type MG struct {
	N int64  `gorm:"primaryKey;autoIncrement:false"`
	S string `gorm:"primaryKey"`
	Base
}

// ---------------- family R: composite (string, int64) key - the LAST part can be a numeric zero ----------------
type RP struct {
	S string `gorm:"primaryKey"`
	N int64  `gorm:"primaryKey;autoIncrement:false"`
	Base
	TS     *string
	TN     *int64
	BS     *string
	BN     *int64
	Target *RT  `gorm:"foreignKey:TS,TN;references:S,N"`
	One    *RO  `gorm:"foreignKey:PS,PN;references:S,N"`
	Many   []RM `gorm:"foreignKey:PS,PN;references:S,N"`
	Tags   []RG `gorm:"many2many:rp_tags;foreignKey:S,N;joinForeignKey:OwnerS,OwnerN;references:S,N;joinReferences:TagS,TagN"`
	Boss   *RP  `gorm:"foreignKey:BS,BN;references:S,N"`
	Team   []RP `gorm:"foreignKey:BS,BN;references:S,N"`
}
type RO struct {
	ID int64 `gorm:"primaryKey"`
	Base
	PS *string
	PN *int64
}
type RM struct {
	ID int64 `gorm:"primaryKey"`
	Base
	PS    *string
	PN    *int64
	Owner *RP `gorm:"foreignKey:PS,PN;references:S,N"`
}
type RT struct {
	S string `gorm:"primaryKey"`
	N int64  `gorm:"primaryKey;autoIncrement:false"`
	Base
}
type RG struct {
	S string `gorm:"primaryKey"`
	N int64  `gorm:"primaryKey;autoIncrement:false"`
	Base
}

// ---------------- relations whose keys are overridden by tags (families I and S) ----------------
// XL / XC: polymorphic has many / has one whose owner id references the NON-primary field Code
// (`foreignKey:Code`); XU: has many with `references:Code`.
type IL struct {
	ID int64 `gorm:"primaryKey"`
	Base
	OwnerID   *string
	OwnerType string
}
type IC struct {
	Lbl *string // nullable column declared BEFORE the key: the first column of a joined row can be NULL
	ID  int64   `gorm:"primaryKey"`
	Base
	OwnerID   *string
	OwnerType string
}
type IU struct {
	ID int64 `gorm:"primaryKey"`
	Base
	PCode *string
}
type SL struct {
	ID int64 `gorm:"primaryKey"`
	Base
	OwnerID   *string
	OwnerType string
}
type SC struct {
	Lbl *string // nullable column declared BEFORE the key: the first column of a joined row can be NULL
	ID  int64   `gorm:"primaryKey"`
	Base
	OwnerID   *string
	OwnerType string
}
type SU struct {
	ID int64 `gorm:"primaryKey"`
	Base
	PCode *string
}

// ---------------- family V: foreign keys are driver.Valuer values (sql.NullInt64 / sql.NullString) ----------------
// composite (int64, string) key; belongs-to field by VALUE (VT), has-many with POINTER elements.
type VP struct {
	N int64  `gorm:"primaryKey;autoIncrement:false"`
	S string `gorm:"primaryKey"`
	Base
	TN     sql.NullInt64
	TS     sql.NullString
	BN     sql.NullInt64
	BS     sql.NullString
	Target VT    `gorm:"foreignKey:TN,TS;references:N,S"`
	One    *VO   `gorm:"foreignKey:PN,PS;references:N,S"`
	Many   []*VM `gorm:"foreignKey:PN,PS;references:N,S"`
	Tags   []VG  `gorm:"many2many:vp_tags;foreignKey:N,S;joinForeignKey:OwnerN,OwnerS;references:N,S;joinReferences:TagN,TagS"`
	Boss   *VP   `gorm:"foreignKey:BN,BS;references:N,S"`
	Team   []*VP `gorm:"foreignKey:BN,BS;references:N,S"`
}
type VO struct {
	ID int64 `gorm:"primaryKey"`
	Base
	PN sql.NullInt64
	PS sql.NullString
}
type VM struct {
	ID int64 `gorm:"primaryKey"`
	Base
	PN    sql.NullInt64
	PS    sql.NullString
	Owner *VP `gorm:"foreignKey:PN,PS;references:N,S"`
}
type VT struct {
	N int64  `gorm:"primaryKey;autoIncrement:false"`
	S string `gorm:"primaryKey"`
	Base
}
type VG struct {
	N int64  `gorm:"primaryKey;autoIncrement:false"`
	S string `gorm:"primaryKey"`
	Base
}

// ---------------- family B: []byte keys (binary ids); has-one field by VALUE ----------------
type BP struct {
	K []byte `gorm:"primaryKey"`
	Base
	TK     []byte
	BK     []byte
	Target *BT  `gorm:"foreignKey:TK;references:K"`
	One    BO   `gorm:"foreignKey:PK;references:K"`
	Many   []BM `gorm:"foreignKey:PK;references:K"`
	Tags   []BG `gorm:"many2many:bp_tags;foreignKey:K;joinForeignKey:OwnerK;references:K;joinReferences:TagK"`
	Boss   *BP  `gorm:"foreignKey:BK;references:K"`
	Team   []BP `gorm:"foreignKey:BK;references:K"`
}
type BO struct {
	ID int64 `gorm:"primaryKey"`
	Base
	PK []byte
}
type BM struct {
	ID int64 `gorm:"primaryKey"`
	Base
	PK    []byte
	Owner *BP `gorm:"foreignKey:PK;references:K"`
}
type BT struct {
	K []byte `gorm:"primaryKey"`
	Base
}
type BG struct {
	K []byte `gorm:"primaryKey"`
	Base
}

// ---------------- family D: gorm's CONVENTIONS, no foreignKey / references tags ----------------
// ID uint primary key by convention; foreign keys found by name (DPID, TargetID, BossID); default
// many2many join keys; a SELF-referential many2many (Friends); a polymorphic relation whose columns are
// renamed by polymorphicType / polymorphicId; a relation inside an EMBEDDED struct (Info.Buddy);
// has-one field by value, has-many with pointer elements.
type DInfo struct {
	BuddyID *uint
	Buddy   *DT
}
type DP struct {
	Lbl *string // nullable column declared BEFORE the key: the first column of a joined row can be NULL
	ID  uint
	Base
	TargetID *uint
	Target   *DT
	BossID   *uint
	Boss     *DP
	Team     []DP `gorm:"foreignKey:BossID"`
	One      DO
	Many     []*DM
	Tags     []DG  `gorm:"many2many:dp_tags"`
	Friends  []*DP `gorm:"many2many:dp_friends"`
	LTags    []DG  `gorm:"many2many:dp_ltags"` // join MODEL of its own (SetupJoinTable: DPLTag)
	Notes    []DN  `gorm:"polymorphic:Owner;polymorphicValue:xp;polymorphicType:Kind;polymorphicId:OID"`
	Info     DInfo `gorm:"embedded;embeddedPrefix:info_"`
	Code     string
	Subs     []DU `gorm:"references:Code"` // only the referenced field is named: the foreign key DPCode is found by convention
}
type DU struct {
	ID int64
	Base
	DPCode *string
}
type DO struct {
	ID int64
	Base
	DPID  *uint
	Owner *DP `gorm:"foreignKey:DPID"`
}
type DM struct {
	ID int64
	Base
	DPID  *uint
	Owner *DP `gorm:"foreignKey:DPID"`
}
type DT struct {
	Lbl *string // nullable column declared BEFORE the key: the first column of a joined row can be NULL
	ID  uint
	Base
}
type DG struct {
	ID uint
	Base
}
type DN struct {
	ID int64
	Base
	OID  *uint
	Kind string
}

// many2many whose join table references NON-primary unique columns on both sides (families I and S):
// owner.Code <- join.owner_code, join.tag_code -> XH.Code, while XH's primary key is ID.
type IH struct {
	ID   uint   `gorm:"primaryKey"`
	Code string `gorm:"uniqueIndex"`
	Base
}
type SH struct {
	ID   uint   `gorm:"primaryKey"`
	Code string `gorm:"uniqueIndex"`
	Base
}

// ---------------- many2many through a JOIN MODEL of its own (SetupJoinTable) ----------------
// The join model carries a surrogate key and data columns whose NAMES also occur in the related model
// (k / a, b / id, uid, v): a query that selects `*` over `related JOIN join_table` hands the scanner two
// columns of one name.  Families I (LTags -> IG), C (LTags -> CG) and D (LTags -> DG, conventional keys).
type IPLTag struct {
	ID     uint `gorm:"primaryKey"`
	OwnerK uint
	TagK   uint
	K      uint // same column name as the related model's key
	UID    int64
	V      int64
}

func (IPLTag) TableName() string { return "ip_ltags" }

type CPLTag struct {
	ID     uint `gorm:"primaryKey"`
	OwnerA string
	OwnerB string
	TagA   string
	TagB   string
	A      string // same column names as the related model's key parts
	B      string
	V      int64
}

func (CPLTag) TableName() string { return "cp_ltags" }

type DPLTag struct {
	ID   uint // surrogate key: same column name as the related model's conventional key
	DPID uint
	DGID uint
	V    int64
}

func (DPLTag) TableName() string { return "dp_ltags" }
