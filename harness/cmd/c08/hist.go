// Histories for C08 (coq/theories/C08_Hist.v): creates, scoped / Unscoped deletes and updates,
// reads, with conditions over the key and the data column, executed on real gorm; after every
// step the whole table is dumped.
package main

import (
	"database/sql"
	"fmt"
	"reflect"
	"sort"
	"strings"
	"time"

	"gorm.io/gorm"

	"verifharness/lib"
	"verifharness/whr"
)

// HPred mirrors hpred.
type HPred struct {
	K string `json:"k"` // all ids key mod val or and not (key: one id, given as the key of the model value)
	// skey (writes only): the records are named by a SLICE of 0..2 records (key 0 = a record without
	// a key) given as the Model of an update / the value of a delete; L = the caller's own condition;
	// Via = Update | Updates (map) | UpdateColumn
	Via string  `json:"via,omitempty"`
	IDs []int64 `json:"ids,omitempty"`
	A   int64   `json:"a,omitempty"`
	B   int64   `json:"b,omitempty"`
	L   *HPred  `json:"l,omitempty"`
	R   *HPred  `json:"r,omitempty"`
}

// HOp mirrors hop.
type HOp struct {
	K string `json:"k"` // create delete udelete update uupdate find ufind
	P *HPred `json:"p,omitempty"`
	I int64  `json:"i,omitempty"` // create: id
	V int64  `json:"v,omitempty"` // create / update: value
	T int64  `json:"t,omitempty"` // delete: stamp
}

type HRow struct {
	ID  int64  `json:"id"`
	Val int64  `json:"val"`
	Del *int64 `json:"del"`
}

type HObs struct {
	Init   []HRow    `json:"init"`
	Obs    [][]int64 `json:"obs"`
	States [][]HRow  `json:"states"`
}

func (p *HPred) sql() string {
	switch p.K {
	case "all":
		return "1 = 1"
	case "ids", "key", "vkey":
		parts := []string{}
		for _, i := range p.IDs {
			parts = append(parts, fmt.Sprint(i))
		}
		if len(parts) == 0 {
			return "1 = 0"
		}
		return "id IN (" + strings.Join(parts, ",") + ")"
	case "mod":
		return fmt.Sprintf("id %% %d = %d", p.A, p.B)
	case "val":
		return fmt.Sprintf("mark = %d", p.A)
	case "or":
		return "(" + p.L.sql() + " OR " + p.R.sql() + ")"
	case "and":
		return "(" + p.L.sql() + " AND " + p.R.sql() + ")"
	}
	return "NOT (" + p.L.sql() + ")"
}

// apply adds the predicate to a chain: a top-level OR goes through Where().Or(), a top-level NOT
// through Not(), an AND through two Where calls, so that the filter meets every connective.
func (p *HPred) apply(tx *gorm.DB) *gorm.DB {
	switch p.K {
	case "all":
		return tx
	case "or":
		return tx.Where(p.L.sql()).Or(p.R.sql())
	case "and":
		return tx.Where(p.L.sql()).Where(p.R.sql())
	case "not":
		return tx.Not(p.L.sql())
	}
	return tx.Where(p.sql())
}

func (p *HPred) g() string {
	switch p.K {
	case "skey":
		if p.L != nil {
			return lib.App("HAnd", lib.App("HKeys", lib.ZList(p.IDs)), p.L.g())
		}
		return lib.App("HKeys", lib.ZList(p.IDs))
	case "all":
		return "HAll"
	case "ids", "key", "vkey":
		return lib.App("HIds", lib.ZList(p.IDs))
	case "mod":
		return lib.App("HMod", lib.Z(p.A), lib.Z(p.B))
	case "val":
		return lib.App("HValIs", lib.Z(p.A))
	case "or":
		return lib.App("HOr", p.L.g(), p.R.g())
	case "and":
		return lib.App("HAnd", p.L.g(), p.R.g())
	}
	return lib.App("HNot", p.L.g())
}

func (o HOp) g() string {
	switch o.K {
	case "create":
		return lib.App("OCreate", lib.Z(o.I), lib.Z(o.V))
	case "delete":
		return lib.App("ODelete", o.P.g(), lib.Z(o.T))
	case "udelete":
		return lib.App("OUDelete", o.P.g())
	case "update":
		return lib.App("OUpdate", o.P.g(), lib.Z(o.V))
	case "uupdate":
		return lib.App("OUUpdate", o.P.g(), lib.Z(o.V))
	case "find":
		return lib.App("OFind", o.P.g())
	}
	return lib.App("OUFind", o.P.g())
}

func gHRow(r HRow) string {
	d := "None"
	if r.Del != nil {
		d = "(Some " + lib.Z(*r.Del) + ")"
	}
	return lib.App("mk_hrow", lib.Z(r.ID), lib.Z(r.Val), d)
}
func gHState(s []HRow) string { return lib.ListOf(s, gHRow) }

func genHPred(r *lib.Rng, depth int, ids []int64) *HPred {
	if depth > 0 && r.Chance(2, 5) {
		k := lib.Pick(r, []string{"or", "or", "and", "not"})
		p := &HPred{K: k, L: genHPred(r, depth-1, ids)}
		if k != "not" {
			p.R = genHPred(r, depth-1, ids)
		}
		return p
	}
	switch r.Intn(6) {
	case 5:
		if depth == 2 { // top level only: the condition is the key of the model value
			// through Model(key) with an empty value, or as the key of the value itself
			return &HPred{K: lib.Pick(r, []string{"key", "vkey"}), IDs: []int64{lib.Pick(r, ids)}}
		}
		return &HPred{K: "ids", IDs: []int64{lib.Pick(r, ids)}}
	case 0:
		return &HPred{K: "all"}
	case 1, 2:
		n := r.Range(1, 3)
		p := &HPred{K: "ids"}
		for i := 0; i < n; i++ {
			p.IDs = append(p.IDs, lib.Pick(r, ids))
		}
		return p
	case 3:
		m := int64(r.Range(2, 3))
		return &HPred{K: "mod", A: m, B: int64(r.Intn(int(m)))}
	}
	return &HPred{K: "val", A: int64(r.Range(0, 3))}
}

// genSKey: the records of a write named through a slice of 0, 1 or 2 records (live rows, marked
// copies, now and then a record without a key), with or without a condition of the caller's.
func genSKey(r *lib.Rng, ids []int64) *HPred {
	p := &HPred{K: "skey", IDs: []int64{}, Via: lib.Pick(r, []string{"update", "update", "updates", "updatecolumn"})}
	n := lib.Pick(r, []int{0, 1, 1, 1, 2, 2})
	for i := 0; i < n; i++ {
		if r.Chance(1, 10) {
			p.IDs = append(p.IDs, 0)
		} else {
			p.IDs = append(p.IDs, lib.Pick(r, ids))
		}
	}
	if r.Chance(1, 2) {
		p.L = genHPred(r, 1, ids)
		if p.L.K == "all" {
			p.L = nil
		}
	}
	return p
}

func (p *HPred) named() bool {
	for _, i := range p.IDs {
		if i != 0 {
			return true
		}
	}
	return false
}

// genHist draws 3..7 steps over the live rows, their twins (id+100) and the rows it creates.
func genHist(r *lib.Rng, rows []Row) []HOp {
	ids := []int64{}
	for _, x := range rows {
		ids = append(ids, x.ID, x.ID+100)
	}
	var ops []HOp
	next := int64(300)
	n := r.Range(3, 7)
	for k := 1; k <= n; k++ {
		switch r.Intn(10) {
		case 0:
			ops = append(ops, HOp{K: "create", I: next, V: int64(r.Range(0, 3))})
			ids = append(ids, next)
			next++
		case 1, 2, 3:
			p := genHPred(r, 2, ids)
			if r.Chance(1, 4) {
				p = genSKey(r, ids)
			}
			ops = append(ops, HOp{K: "delete", P: p, T: int64(k)})
			if r.Chance(1, 3) { // the same Delete once more, later: nothing may change
				ops = append(ops, HOp{K: "delete", P: p, T: int64(k + 20)})
			}
		case 4:
			p := genHPred(r, 1, ids)
			if r.Chance(1, 4) {
				p = genSKey(r, ids)
			}
			ops = append(ops, HOp{K: "udelete", P: p})
		case 5, 6:
			p := genHPred(r, 2, ids)
			if r.Chance(1, 3) {
				p = genSKey(r, ids)
			}
			ops = append(ops, HOp{K: "update", P: p, V: int64(r.Range(0, 3))})
		case 7:
			p := genHPred(r, 1, ids)
			if r.Chance(1, 4) {
				p = genSKey(r, ids)
			}
			ops = append(ops, HOp{K: "uupdate", P: p, V: int64(r.Range(0, 3))})
		case 8:
			ops = append(ops, HOp{K: "find", P: genHPred(r, 2, ids)})
		default:
			ops = append(ops, HOp{K: "ufind", P: genHPred(r, 2, ids)})
		}
	}
	ops = append(ops, HOp{K: "find", P: &HPred{K: "all"}}, HOp{K: "ufind", P: &HPred{K: "all"}})
	return ops
}

func stampTime(k int64) time.Time { return t2.Add(time.Duration(k) * time.Hour) }

func (e *env) hdump(in Input) ([]HRow, error) {
	rows, err := e.db.Raw("SELECT id, mark, deleted_at FROM " + histTable(in) + " ORDER BY id").Rows()
	if err != nil {
		return nil, err
	}
	defer rows.Close()
	out := []HRow{}
	for rows.Next() {
		var id, mark int64
		var d sql.NullTime
		if err := rows.Scan(&id, &mark, &d); err != nil {
			return nil, err
		}
		r := HRow{ID: id, Val: mark}
		if d.Valid && !(in.Variant == "zerovalue" && d.Time.Year() == 1970) {
			var k int64
			switch {
			case d.Time.Equal(t1):
				k = 1000
			default:
				k = int64(d.Time.Sub(t2) / time.Hour)
			}
			r.Del = &k
		}
		out = append(out, r)
	}
	return out, nil
}

// runHist executes the history on the table as reset(in, true) leaves it.
func (e *env) runHist(in Input, o *Obs) {
	fail := func(w string, err error) {
		if err != nil {
			o.Errs = append(o.Errs, "hist "+w+": "+err.Error())
		}
	}
	if in.HistComposite {
		fail("reset", e.resetK(in))
	} else {
		fail("reset", e.reset(in, true))
	}
	newOne := func() interface{} {
		if in.HistComposite {
			return &TSK{}
		}
		return whr.NewSoftOne(in.Variant)
	}
	keyed := func(id int64) interface{} {
		m := newOne()
		v := reflect.ValueOf(m).Elem()
		v.FieldByName("ID").SetInt(id)
		if f := v.FieldByName("Grp"); f.IsValid() && id != 0 {
			f.SetInt(grpOf(id))
		}
		return m
	}
	// a pointer to a slice of records carrying the given keys
	keyedSlice := func(ids []int64) interface{} {
		sl := reflect.MakeSlice(reflect.SliceOf(reflect.TypeOf(newOne()).Elem()), 0, len(ids))
		for _, id := range ids {
			sl = reflect.Append(sl, reflect.ValueOf(keyed(id)).Elem())
		}
		p := reflect.New(sl.Type())
		p.Elem().Set(sl)
		return p.Interface()
	}
	var err error
	o.Hist.Init, err = e.hdump(in)
	fail("dump", err)
	o.Hist.Obs, o.Hist.States = [][]int64{}, [][]HRow{}
	for _, op := range in.Hist {
		// (a write that names its record by key needs no AllowGlobalUpdate: it runs without it)
		byKey := op.P != nil && (op.P.K == "key" || op.P.K == "vkey" || (op.P.K == "skey" && op.P.named()))
		sliceBase := func(b *gorm.DB) *gorm.DB {
			// (the caller's condition as ONE unit: after Where(a).Or(b) gorm joins the key condition of a
			// Delete value / an Unscoped update to the last OR alternative, `a OR b AND key IN (..)`,
			// with or without soft delete - not this property's business)
			if op.P.L != nil && op.P.L.K == "or" {
				return b.Where(op.P.L.sql())
			}
			if op.P.L != nil {
				return op.P.L.apply(b)
			}
			return b
		}
		base := e.db.Session(&gorm.Session{AllowGlobalUpdate: !byKey, SkipHooks: in.SkipHooks, NowFunc: func() time.Time { return stampTime(op.T) }})
		if op.K == "udelete" || op.K == "uupdate" || op.K == "ufind" {
			base = base.Unscoped()
		}
		var ob []int64
		switch op.K {
		case "create":
			one := keyed(op.I)
			v := reflect.ValueOf(one).Elem()
			v.FieldByName("Mark").SetInt(op.V)
			v.FieldByName("Name").SetString("h")
			r := base.Create(one)
			fail("create", r.Error)
			ob = []int64{r.RowsAffected}
		case "delete", "udelete":
			var r *gorm.DB
			if op.P.K == "key" {
				// the record is named by the Model value, the value given to Delete is empty
				r = base.Model(keyed(op.P.IDs[0])).Delete(newOne())
			} else if op.P.K == "vkey" {
				// the value given to Delete carries the key
				r = base.Delete(keyed(op.P.IDs[0]))
			} else if op.P.K == "skey" {
				// the value given to Delete is a slice of records
				r = sliceBase(base).Delete(keyedSlice(op.P.IDs))
			} else {
				r = op.P.apply(base).Delete(newOne())
			}
			fail(op.K, r.Error)
			ob = []int64{r.RowsAffected}
		case "update", "uupdate":
			var r *gorm.DB
			if op.P.K == "key" || op.P.K == "vkey" {
				r = base.Model(keyed(op.P.IDs[0])).Update("mark", op.V)
			} else if op.P.K == "skey" {
				// the Model is a slice of records
				tx := sliceBase(base).Model(keyedSlice(op.P.IDs))
				switch op.P.Via {
				case "updates":
					r = tx.Updates(map[string]interface{}{"mark": op.V})
				case "updatecolumn":
					r = tx.UpdateColumn("mark", op.V)
				default:
					r = tx.Update("mark", op.V)
				}
			} else {
				r = op.P.apply(base).Model(newOne()).Update("mark", op.V)
			}
			fail(op.K, r.Error)
			ob = []int64{r.RowsAffected}
		default:
			if in.HistComposite {
				var dst []TSK
				fail(op.K, op.P.apply(base).Find(&dst).Error)
				ob = []int64{}
				for _, x := range dst {
					ob = append(ob, x.ID)
				}
			} else {
				dst := whr.NewSoftSlice(in.Variant)
				fail(op.K, op.P.apply(base).Find(dst).Error)
				ob = whr.IDsOf(dst)
			}
			sort.Slice(ob, func(i, j int) bool { return ob[i] < ob[j] })
		}
		o.Hist.Obs = append(o.Hist.Obs, ob)
		st, err := e.hdump(in)
		fail("dump", err)
		o.Hist.States = append(o.Hist.States, st)
	}
}

func gHist(in Input, o Obs) []string {
	return []string{gHState(o.Hist.Init), lib.ListOf(in.Hist, func(op HOp) string { return op.g() }),
		lib.ListOf(o.Hist.Obs, lib.ZList), lib.ListOf(o.Hist.States, gHState)}
}

// TSK: the soft-delete model with a COMPOSITE primary key (id, grp); grp is a function of id, so a
// row is still identified by its id and a marked copy (id + 100) has the grp of its original.
type TSK struct {
	ID        int64 `gorm:"primaryKey;autoIncrement:false"`
	Grp       int64 `gorm:"primaryKey;autoIncrement:false"`
	Age       int64
	Name      string
	Nick      *string
	Mark      int64
	DeletedAt gorm.DeletedAt
}

func (TSK) TableName() string { return "tsk" }

func grpOf(id int64) int64 { return id%2 + 1 }

func histTable(in Input) string {
	if in.HistComposite {
		return "tsk"
	}
	return whr.Table()
}

func (e *env) resetK(in Input) error {
	if err := e.db.Exec("DELETE FROM tsk").Error; err != nil {
		return err
	}
	for _, r := range in.Rows {
		for _, tw := range []bool{false, true} {
			id, del := r.ID, interface{}(nil)
			if tw {
				id, del = r.ID+100, t1
			}
			if err := e.db.Exec("INSERT INTO tsk (id, grp, age, name, nick, mark, deleted_at) VALUES (?,?,?,?,?,0,?)", id, grpOf(id), r.Age, r.Name, r.Nick, del).Error; err != nil {
				return err
			}
		}
	}
	return nil
}
