// Raw conditions written as several parenthesised groups joined at the TOP level:
//
//	"(a = ?) OR (b = ? AND c = ?)",  "(a = 1)or(b IN (1,2))",  "(a = @p1) AND (b = @p2 OR c = @p3)"
//
// The text starts with "(" and ends with ")" although its connective is not inside any pair of
// parentheses, so whatever decides on wrapping a raw condition has to read the whole text.
package main

import (
	"strings"

	"verifharness/lib"
	"verifharness/whr"
)

var groupWS = []string{" ", " ", " ", "  ", "\t", "\n", ""}

// groupedRaw renders 2..3 groups, each an atom or an AND / OR of two atoms, every group in its own
// parentheses, joined by one top-level connective (OR three times out of four).
func groupedRaw(g *whr.Gen, hostile bool) whr.Unit {
	r := g.R
	style := lib.Pick(r, []string{"inline", "qmark", "qmark", "named"})
	top := "or"
	if r.Chance(1, 4) {
		top = "and"
	}
	n := r.Range(2, 3)
	tree := &whr.BTree{Kind: top}
	u := whr.Unit{Named: map[string]interface{}{}}
	for i := 0; i < n; i++ {
		var sub *whr.BTree
		switch r.Intn(4) {
		case 0:
			sub = &whr.BTree{Kind: lib.Pick(r, []string{"and", "or"}), Kids: []*whr.BTree{
				{Kind: "atom", Atom: lib.Pick(r, g.Atoms).ID}, {Kind: "atom", Atom: lib.Pick(r, g.Atoms).ID}}}
		default:
			sub = &whr.BTree{Kind: "atom", Atom: lib.Pick(r, g.Atoms).ID}
		}
		tree.Kids = append(tree.Kids, sub)
		p := whr.PrintTree(r, sub, g.ByID, style, hostile)
		if i > 0 {
			word := strings.ToUpper(top)
			w1, w2 := " ", " "
			if hostile {
				word = lib.Pick(r, []string{word, strings.ToLower(word), word[:1] + strings.ToLower(word[1:]), strings.ToLower(word[:1]) + word[1:]})
				w1, w2 = lib.Pick(r, groupWS), lib.Pick(r, groupWS)
			}
			u.Tmpl += w1 + word + w2
			u.Txt += w1 + word + w2
		}
		u.Tmpl += "(" + p.Tmpl + ")"
		u.Txt += "(" + p.Txt + ")"
		u.Args = append(u.Args, p.Args...)
		u.ArgKinds = append(u.ArgKinds, p.ArgKinds...)
		for k, v := range p.Named {
			u.Named[k] = v
		}
	}
	u.Tree = tree
	u.Form = map[string]string{"inline": "raw", "qmark": "rawargs", "named": "named"}[style]
	if u.Form == "named" && len(u.Named) == 0 || u.Form == "rawargs" && len(u.Args) == 0 {
		u.Form = "raw"
	}
	if u.Form != "named" {
		u.Named = nil
	} else if r.Chance(1, 3) {
		u.Via = "sqlnamed"
	}
	return u
}

// groupedChains: a grouped raw unit under every call kind, alone, after / before / between
// single-atom conditions (PatternChains' layout).
func groupedChains(g *whr.Gen) [][]whr.Call {
	var out [][]whr.Call
	atom := func() whr.Unit {
		for {
			if a := lib.Pick(g.R, g.Atoms); a.Op != "inempty" {
				return whr.Unit{Form: "expr", CE: &whr.CExpr{Kind: "atom", Atom: a.ID}}
			}
		}
	}
	for _, hostile := range []bool{false, true} {
		for _, k := range []string{"where", "not", "or"} {
			c := whr.Call{Kind: k, Unit: groupedRaw(g, hostile)}
			pre := whr.Call{Kind: "where", Unit: atom()}
			post := whr.Call{Kind: lib.Pick(g.R, []string{"where", "where", "or"}), Unit: atom()}
			out = append(out, []whr.Call{c}, []whr.Call{c, post}, []whr.Call{pre, c}, []whr.Call{pre, c, post})
		}
	}
	return out
}
