// c08: soft-deleted records are invisible and untouched unless Unscoped is requested.
// Every live row of the table has a soft-deleted twin (id+100) with identical column values.
// Each chain (C02's generator, plus leading Or) is run through every read and write finisher
// on the table with twins, and again on the table with the twins physically removed.
package main

import (
	"encoding/json"
	"errors"
	"fmt"
	"os"
	"reflect"
	"sort"
	"strings"
	"time"

	"gorm.io/gorm"

	"verifharness/gdb"
	"verifharness/lib"
	"verifharness/whr"
)

type Row struct {
	ID   int64   `json:"id"`
	Age  int64   `json:"age"`
	Name string  `json:"name"`
	Nick *string `json:"nick"`
}

type Input struct {
	Rows  []Row      `json:"rows"` // live rows; twin of row r has id r.ID+100
	Atoms []whr.Atom `json:"atoms"`
	Chain []whr.Call `json:"chain"`
	// Variant: how the model declares its soft-delete column ("" value field, ptr, embedded, named)
	Variant string `json:"variant,omitempty"`
	// Hist: a history run on the table (live rows + twins) after everything else
	Hist []HOp `json:"hist,omitempty"`
	// Assoc: run the association paths on this case whatever its position (corpus inputs)
	Assoc bool `json:"assoc,omitempty"`
	// WKeys: one or two keys (live rows or marked copies) carried by the Model value of an Update and
	// by the value of a Delete issued under the chain (one key: a record; two: a slice of records)
	WKeys []int64 `json:"wkeys,omitempty"`
	// HistComposite: the history runs on the model with a composite primary key (table tsk)
	HistComposite bool `json:"hist_composite,omitempty"`
	// SkipHooks: the writes go through a Session{SkipHooks: true} handle (nothing else changes)
	SkipHooks bool `json:"skip_hooks,omitempty"`
}

type Obs struct {
	WhereSQL                      string           `json:"where_sql"`
	Texts                         map[int][]string `json:"texts"`
	Truth                         map[int][]string `json:"truth"`
	AllIDs                        []int64          `json:"all_ids"`
	Find, Pluck, RowsIDs, CFind   []int64
	Count                         int64
	First                         *int64
	Batches                       [][]int64
	NFind                         []int64
	NCount                        int64
	NFirst                        *int64
	Update, NUpdate, UpdTwins     []int64
	Del, NDel, DelTwins, DelAgain []int64
	UnscopedFind, UnscopedDel     []int64
	UnscopedSQL                   string
	Assoc, NAssoc                 [][]int64
	UAssoc, NUAssoc               [][]int64
	NUnscopedFind                 []int64
	Errs                          []string `json:"errs"`
	Hist                          HObs     `json:"hist"`
	// the chain's Update / Delete with records named by key: the WHERE text of the statement and the
	// rows that changed, with and without the marked copies
	UpdWhere, DelWhere       string
	KUpd, NKUpd, KDel, NKDel []int64
}

const liveAtom = 40
const keyAtom = 45 // the key condition taken from the Model / Delete value of a write

// TSH: the soft-delete model with a hook that starts a statement of its own
type TSH struct {
	ID        int64 `gorm:"primaryKey"`
	Age       int64
	Name      string
	Nick      *string
	Mark      int64
	DeletedAt gorm.DeletedAt
}

func (TSH) TableName() string { return "tss" }

var hookCounts []int64

func (t *TSH) AfterFind(tx *gorm.DB) error {
	var n int64
	err := tx.Model(&whr.TS{}).Count(&n).Error
	hookCounts = append(hookCounts, n)
	return err
}

// association paths: an Owner has many soft-deletable Kids; a Pet belongs to a soft-deletable Keeper
type Owner struct {
	ID   int64 `gorm:"primaryKey"`
	Name string
	Kids []Kid
	Tags []Tag `gorm:"many2many:owner_tags"`
	// Labels: the same targets through a join model that has a soft-delete column of its own
	Labels []Tag `gorm:"many2many:owner_labels;joinForeignKey:OwnerID;joinReferences:TagID"`
}

// OwnerLabel: the join model of Owner.Labels (SetupJoinTable): a link can be soft deleted
type OwnerLabel struct {
	OwnerID   int64 `gorm:"primaryKey"`
	TagID     int64 `gorm:"primaryKey"`
	DeletedAt gorm.DeletedAt
}

// Tag: a soft-deletable many2many target of Owner
type Tag struct {
	ID        int64 `gorm:"primaryKey"`
	Name      string
	DeletedAt gorm.DeletedAt
}
type Kid struct {
	ID        int64 `gorm:"primaryKey"`
	OwnerID   int64
	Age       int64
	DeletedAt gorm.DeletedAt
}
type Keeper struct {
	ID        int64 `gorm:"primaryKey"`
	Name      string
	DeletedAt gorm.DeletedAt
	Wards     []Ward
	OrgID     int64
	Org       *Org
}

// Org: a plain model reached THROUGH the soft-deletable Keeper (nested joins)
type Org struct {
	ID   int64 `gorm:"primaryKey"`
	Name string
}

// Ward: a soft-deletable has-many of Keeper (nested preload under a joined relation)
type Ward struct {
	ID        int64 `gorm:"primaryKey"`
	KeeperID  int64
	DeletedAt gorm.DeletedAt
}
type Pet struct {
	ID       int64 `gorm:"primaryKey"`
	KeeperID int64
	Keeper   *Keeper
}

var (
	names = []string{"a", "b", "ab", "c d", "x"}
	nicks = []string{"n1", "n2", "a"}
	t1    = time.Date(2020, 1, 2, 3, 4, 5, 0, time.UTC)
	t2    = time.Date(2021, 6, 7, 8, 9, 10, 0, time.UTC)
)

func genRows(r *lib.Rng) []Row {
	n := r.Range(5, 10)
	rows := make([]Row, n)
	for i := range rows {
		rows[i] = Row{ID: int64(i + 1), Age: int64(r.Range(0, 5)), Name: lib.Pick(r, names)}
		if r.Chance(3, 5) {
			s := lib.Pick(r, nicks)
			if r.Chance(1, 8) {
				s = ""
			}
			rows[i].Nick = &s
		}
	}
	return rows
}

type env struct {
	db *gorm.DB
	n  int
}

type state map[int64]string // id -> "mark|deleted_at"

func (e *env) dump() state {
	st := state{}
	rows, err := e.db.Raw("SELECT id, mark, deleted_at FROM " + whr.Table() + " ORDER BY id").Rows()
	if err != nil {
		return st
	}
	defer rows.Close()
	for rows.Next() {
		var id, mark int64
		var d *string
		rows.Scan(&id, &mark, &d)
		ds := "NULL"
		if d != nil {
			ds = *d
		}
		st[id] = fmt.Sprintf("%d|%s", mark, ds)
	}
	return st
}

func (e *env) reset(in Input, twins bool) error {
	if err := e.db.Exec("DELETE FROM " + whr.Table()).Error; err != nil {
		return err
	}
	for _, r := range in.Rows {
		var live interface{}
		if in.Variant == "zerovalue" {
			live = whr.ZeroValueLive
		}
		if err := e.db.Exec("INSERT INTO "+whr.Table()+" (id, age, name, nick, mark, deleted_at) VALUES (?,?,?,?,0,?)", r.ID, r.Age, r.Name, r.Nick, live).Error; err != nil {
			return err
		}
		if twins {
			if err := e.db.Exec("INSERT INTO "+whr.Table()+" (id, age, name, nick, mark, deleted_at) VALUES (?,?,?,?,0,?)", r.ID+100, r.Age, r.Name, r.Nick, t1).Error; err != nil {
				return err
			}
		}
	}
	return nil
}

func sorted(xs []int64) []int64 {
	out := append([]int64{}, xs...)
	sort.Slice(out, func(i, j int) bool { return out[i] < out[j] })
	return out
}

// changed: ids whose dump entry differs (or vanished) between two states, restricted by pred
func changed(a, b state, pred func(id int64) bool) []int64 {
	out := []int64{}
	for id, v := range a {
		if pred(id) && b[id] != v {
			out = append(out, id)
		}
	}
	return sorted(out)
}

func (e *env) run(in Input) Obs {
	o := Obs{}
	whr.SoftVariant = in.Variant
	fail := func(w string, err error) {
		if err != nil {
			o.Errs = append(o.Errs, w+": "+err.Error())
		}
	}
	db := e.db
	byID := map[int]whr.Atom{}
	for _, a := range in.Atoms {
		byID[a.ID] = a
	}
	fail("reset", e.reset(in, true))
	unscopedBase := func() *gorm.DB { return db.Session(&gorm.Session{}).Unscoped() }
	texts, errs := whr.DiscoverTexts(db, unscopedBase, in.Atoms)
	for _, err := range errs {
		fail("texts", err)
	}
	lt, err := whr.WhereText(db, db.Session(&gorm.Session{}))
	fail("livetext", err)
	texts[liveAtom] = []string{lt}
	o.Texts = texts
	truth, errs := whr.TruthTables(db, whr.Table(), in.Atoms, texts)
	for _, err := range errs {
		fail("truth", err)
	}
	// live atom truth: deleted_at IS NULL
	{
		var ids []int64
		fail("ids", db.Raw("SELECT id FROM "+whr.Table()+" ORDER BY id").Scan(&ids).Error)
		o.AllIDs = ids
		for _, id := range ids {
			if id < 100 {
				truth[liveAtom] = append(truth[liveAtom], "T")
			} else {
				truth[liveAtom] = append(truth[liveAtom], "F")
			}
		}
	}
	o.Truth = truth
	build := func(root *gorm.DB) *gorm.DB {
		tx := root.Session(&gorm.Session{})
		for _, c := range in.Chain {
			tx = c.Apply(db, tx, byID)
		}
		return tx
	}
	isTwin := func(id int64) bool { return id > 100 }
	isLive := func(id int64) bool { return id < 100 }

	reads := func(find *[]int64, count *int64, first **int64, full bool) {
		dst := whr.NewSoftSlice(in.Variant)
		fail("find", build(db).Find(dst).Error)
		*find = sorted(whr.IDsOf(dst))
		fail("count", build(db).Model(whr.NewSoftOne(in.Variant)).Count(count).Error)
		f := whr.NewSoftOne(in.Variant)
		r := build(db).First(f)
		if r.Error == nil {
			id := whr.IDOf(f)
			*first = &id
		} else if !errors.Is(r.Error, gorm.ErrRecordNotFound) {
			fail("first", r.Error)
		}
		if !full {
			return
		}
		{
			// the pagination idiom: Count, then the read continued from what Count returned
			var n int64
			cdst := whr.NewSoftSlice(in.Variant)
			fail("count_then_find", build(db).Model(whr.NewSoftOne(in.Variant)).Count(&n).Find(cdst).Error)
			o.CFind = sorted(whr.IDsOf(cdst))
			if n != *count {
				o.Errs = append(o.Errs, fmt.Sprintf("Count before Find: %d, Count alone: %d", n, *count))
			}
		}
		o.Pluck = []int64{}
		fail("pluck", build(db).Model(whr.NewSoftOne(in.Variant)).Pluck("id", &o.Pluck).Error)
		o.Pluck = sorted(o.Pluck)
		o.RowsIDs = []int64{}
		rows, err := build(db).Model(whr.NewSoftOne(in.Variant)).Rows()
		fail("rows", err)
		if err == nil {
			for rows.Next() {
				x := whr.NewSoftOne(in.Variant)
				fail("scanrows", db.ScanRows(rows, x))
				o.RowsIDs = append(o.RowsIDs, whr.IDOf(x))
			}
			rows.Close()
		}
		o.RowsIDs = sorted(o.RowsIDs)
		o.Batches = [][]int64{}
		batch := whr.NewSoftSlice(in.Variant)
		fail("batches", build(db).FindInBatches(batch, 3, func(tx *gorm.DB, n int) error {
			if len(o.Batches) > 2*len(in.Rows)+3 {
				return fmt.Errorf("runaway: more batches than rows")
			}
			o.Batches = append(o.Batches, whr.IDsOf(batch))
			return nil
		}).Error)
	}
	o.WhereSQL, err = whr.WhereText(db, build(db))
	fail("wheretext", err)
	reads(&o.Find, &o.Count, &o.First, true)
	// Unscoped read sees the twins again
	{
		dst := whr.NewSoftSlice(in.Variant)
		fail("unscoped_find", build(db).Unscoped().Find(dst).Error)
		o.UnscopedFind = sorted(whr.IDsOf(dst))
		o.UnscopedSQL, _ = whr.WhereText(db, build(db).Unscoped())
	}
	// statements started from inside an Unscoped statement did not ask for Unscoped themselves: an
	// explicit Session{NewDB}, the handle given to a FindInBatches callback, the handle given to a
	// model hook all see the live rows only
	if in.Variant != "zerovalue" { // (the hook model reads table tss)
		nlive := int64(len(in.Rows))
		dst := whr.NewSoftSlice(in.Variant)
		fail("newdb_find", build(db).Unscoped().Session(&gorm.Session{NewDB: true}).Find(dst).Error)
		if got := sorted(whr.IDsOf(dst)); len(got) != len(in.Rows) || (len(got) > 0 && got[len(got)-1] > 100) {
			o.Errs = append(o.Errs, fmt.Sprintf("Session{NewDB} derived from an Unscoped chain sees %v", got))
		}
		batch := whr.NewSoftSlice(in.Variant)
		calls := 0
		fail("unscoped_batches", db.Unscoped().FindInBatches(batch, 4, func(tx *gorm.DB, n int) error {
			calls++
			if calls > 3*len(in.Rows)+3 {
				return fmt.Errorf("runaway")
			}
			var c int64
			if err := tx.Model(whr.NewSoftOne(in.Variant)).Count(&c).Error; err != nil {
				return err
			}
			if c != nlive {
				o.Errs = append(o.Errs, fmt.Sprintf("Count in the callback of an Unscoped FindInBatches: %d, live rows %d", c, nlive))
			}
			return nil
		}).Error)
		hookCounts = nil
		var hs []TSH
		fail("unscoped_hook_find", db.Unscoped().Find(&hs).Error)
		for _, c := range hookCounts {
			if c != nlive {
				o.Errs = append(o.Errs, fmt.Sprintf("Count in an AfterFind hook under an Unscoped Find: %d, live rows %d", c, nlive))
				break
			}
		}
	}
	// Update
	writes := func(twins bool, upd, updTwins, del, delTwins, delAgain *[]int64) {
		fail("reset", e.reset(in, twins))
		before := e.dump()
		fail("update", build(db).Session(&gorm.Session{AllowGlobalUpdate: true, SkipHooks: in.SkipHooks}).Model(whr.NewSoftOne(in.Variant)).Update("mark", 1).Error)
		after := e.dump()
		*upd = changed(before, after, isLive)
		if updTwins != nil {
			*updTwins = changed(before, after, isTwin)
		}
		fail("reset", e.reset(in, twins))
		before = e.dump()
		fail("delete", build(db).Session(&gorm.Session{AllowGlobalUpdate: true, SkipHooks: in.SkipHooks}).Delete(whr.NewSoftOne(in.Variant)).Error)
		after = e.dump()
		if len(after) != len(before) {
			o.Errs = append(o.Errs, fmt.Sprintf("Delete without Unscoped removed %d rows physically", len(before)-len(after)))
		}
		*del = changed(before, after, isLive)
		if delTwins != nil {
			*delTwins = changed(before, after, isTwin)
		}
		if delAgain != nil {
			fail("delete2", build(db).Session(&gorm.Session{AllowGlobalUpdate: true, SkipHooks: in.SkipHooks, NowFunc: func() time.Time { return t2.Add(time.Hour) }}).Delete(whr.NewSoftOne(in.Variant)).Error)
			after2 := e.dump()
			if len(after2) != len(after) {
				o.Errs = append(o.Errs, fmt.Sprintf("a repeated Delete removed %d rows physically", len(after)-len(after2)))
			}
			*delAgain = changed(after, after2, func(int64) bool { return true })
		}
	}
	writes(true, &o.Update, &o.UpdTwins, &o.Del, &o.DelTwins, &o.DelAgain)
	// Unscoped delete removes rows physically
	fail("reset", e.reset(in, true))
	before := e.dump()
	fail("unscoped_delete", build(db).Unscoped().Session(&gorm.Session{AllowGlobalUpdate: true}).Delete(whr.NewSoftOne(in.Variant)).Error)
	after := e.dump()
	o.UnscopedDel = []int64{}
	for id := range before {
		if _, ok := after[id]; !ok {
			o.UnscopedDel = append(o.UnscopedDel, id)
		}
	}
	o.UnscopedDel = sorted(o.UnscopedDel)
	// the same chain on the table without the twins
	fail("reset", e.reset(in, false))
	// (the association paths do not depend on the chain: every third case runs them)
	e.n++
	if e.n%3 == 1 || in.Assoc {
		var errs []string
		o.NAssoc, o.NUAssoc, errs = e.assoc(in, false)
		o.Errs = append(o.Errs, errs...)
		o.Assoc, o.UAssoc, errs = e.assoc(in, true)
		o.Errs = append(o.Errs, errs...)
	}
	reads(&o.NFind, &o.NCount, &o.NFirst, false)
	{
		dst := whr.NewSoftSlice(in.Variant)
		fail("n_unscoped_find", build(db).Unscoped().Find(dst).Error)
		o.NUnscopedFind = sorted(whr.IDsOf(dst))
	}
	writes(false, &o.NUpdate, nil, &o.NDel, nil, nil)
	// the caller names the soft-delete column: in a condition (no live row carries the twins' stamp:
	// nothing is read, counted or changed) and in an update's values (the update still leaves the
	// marked rows alone)
	if e.n%2 == 0 {
		fail("reset", e.reset(in, true))
		for i, tx := range []*gorm.DB{db.Where("deleted_at", t1), db.Where(map[string]interface{}{"deleted_at": t1}), db.Where("age >= ?", 0).Where("deleted_at = ?", t1)} {
			dst := whr.NewSoftSlice(in.Variant)
			var n int64
			fail("named_find", tx.Session(&gorm.Session{}).Find(dst).Error)
			fail("named_count", tx.Session(&gorm.Session{}).Model(whr.NewSoftOne(in.Variant)).Count(&n).Error)
			if ids := whr.IDsOf(dst); len(ids) != 0 || n != 0 {
				o.Errs = append(o.Errs, fmt.Sprintf("a condition on the soft-delete column (form %d) read marked rows %v, counted %d", i, ids, n))
			}
			before := e.dump()
			fail("named_update", tx.Session(&gorm.Session{}).Model(whr.NewSoftOne(in.Variant)).Update("mark", 9).Error)
			fail("named_delete", tx.Session(&gorm.Session{NowFunc: func() time.Time { return t2.Add(2 * time.Hour) }}).Delete(whr.NewSoftOne(in.Variant)).Error)
			if ch := changed(before, e.dump(), func(int64) bool { return true }); len(ch) != 0 {
				o.Errs = append(o.Errs, fmt.Sprintf("a condition on the soft-delete column (form %d) let an update / delete change rows %v", i, ch))
			}
		}
		before := e.dump()
		fail("payload_update", build(db).Session(&gorm.Session{AllowGlobalUpdate: true}).Model(whr.NewSoftOne(in.Variant)).Updates(map[string]interface{}{"mark": 5, "deleted_at": nil}).Error)
		if ch := changed(before, e.dump(), isTwin); len(ch) != 0 {
			o.Errs = append(o.Errs, fmt.Sprintf("an update whose values name the soft-delete column changed marked rows %v", ch))
		}
	}
	if len(in.WKeys) > 0 {
		e.keyedWrites(in, &o, build, unscopedBase, texts, truth)
	}
	e.runHist(in, &o)
	return o
}

// keyedWrites: Update through a Model value / Delete of a value that names records by key, under the
// case's chain: the WHERE text of both statements (DryRun; the key condition is atom keyAtom, its text
// taken from the same write without chain and filter) and the rows that really change.
func (e *env) keyedWrites(in Input, o *Obs, build func(*gorm.DB) *gorm.DB, unscopedBase func() *gorm.DB, texts map[int][]string, truth map[int][]string) {
	db := e.db
	fail := func(w string, err error) {
		if err != nil {
			o.Errs = append(o.Errs, w+": "+err.Error())
		}
	}
	value := func() interface{} {
		one := func(id int64) reflect.Value {
			m := reflect.ValueOf(whr.NewSoftOne(in.Variant))
			m.Elem().FieldByName("ID").SetInt(id)
			return m
		}
		if len(in.WKeys) == 1 {
			return one(in.WKeys[0]).Interface()
		}
		sl := reflect.MakeSlice(reflect.SliceOf(reflect.TypeOf(whr.NewSoftOne(in.Variant)).Elem()), 0, len(in.WKeys))
		for _, id := range in.WKeys {
			sl = reflect.Append(sl, one(id).Elem())
		}
		p := reflect.New(sl.Type())
		p.Elem().Set(sl)
		return p.Interface()
	}
	where := func(tx *gorm.DB) string {
		fail("keyed_dryrun", tx.Error)
		full := db.Dialector.Explain(tx.Statement.SQL.String(), tx.Statement.Vars...)
		i := strings.Index(full, " WHERE ")
		if i < 0 {
			return ""
		}
		return full[i+len(" WHERE "):]
	}
	dry := &gorm.Session{DryRun: true, AllowGlobalUpdate: true}
	for _, t := range []string{
		where(unscopedBase().Session(dry).Model(value()).Update("mark", 1)),
		where(unscopedBase().Session(dry).Delete(value())),
	} {
		dup := false
		for _, x := range texts[keyAtom] {
			dup = dup || x == t
		}
		if !dup && t != "" {
			texts[keyAtom] = append(texts[keyAtom], t)
		}
	}
	for _, id := range o.AllIDs {
		tv := "F"
		for _, k := range in.WKeys {
			if k == id {
				tv = "T"
			}
		}
		truth[keyAtom] = append(truth[keyAtom], tv)
	}
	o.UpdWhere = where(build(db).Session(dry).Model(value()).Update("mark", 1))
	o.DelWhere = where(build(db).Session(dry).Delete(value()))
	all := func(int64) bool { return true }
	run := func(twins bool, upd, del *[]int64) {
		fail("reset", e.reset(in, twins))
		before := e.dump()
		fail("keyed_update", build(db).Session(&gorm.Session{AllowGlobalUpdate: true, SkipHooks: in.SkipHooks}).Model(value()).Update("mark", 1).Error)
		*upd = changed(before, e.dump(), all)
		fail("reset", e.reset(in, twins))
		before = e.dump()
		fail("keyed_delete", build(db).Session(&gorm.Session{AllowGlobalUpdate: true, SkipHooks: in.SkipHooks}).Delete(value()).Error)
		*del = changed(before, e.dump(), all)
	}
	run(false, &o.NKUpd, &o.NKDel)
	run(true, &o.KUpd, &o.KDel)
}

// assoc runs the association paths on data derived from the case's rows: owner k has the kids
// whose id % 3 == k; kid i has a soft-deleted twin i+100; keeper j (1..3) has a soft-deleted twin
// j+100 to which pet j+10 points.
func (e *env) assoc(in Input, twins bool) ([][]int64, [][]int64, []string) {
	db := e.db
	var errs []string
	fail := func(w string, err error) {
		if err != nil {
			errs = append(errs, w+": "+err.Error())
		}
	}
	for _, t := range []string{"owners", "kids", "keepers", "pets", "wards", "orgs", "tags", "owner_tags", "owner_labels"} {
		fail("reset", db.Exec("DELETE FROM "+t).Error)
	}
	for k := int64(0); k < 3; k++ {
		fail("ins", db.Exec("INSERT INTO owners (id, name) VALUES (?,?)", k+1, "o").Error)
		fail("ins", db.Exec("INSERT INTO orgs (id, name) VALUES (?,?)", k+1, "o").Error)
		// tags k+1 and k+4 belong to owner k+1; with twins also their marked copies
		for _, tg := range []int64{k + 1, k + 4} {
			fail("ins", db.Exec("INSERT INTO tags (id, name, deleted_at) VALUES (?,?,NULL)", tg, "t").Error)
			fail("ins", db.Exec("INSERT INTO owner_tags (owner_id, tag_id) VALUES (?,?)", k+1, tg).Error)
			if tg == k+1 {
				// a live link through the soft-deletable join model; with twins also a marked link to
				// the owner's other (live) tag
				fail("ins", db.Exec("INSERT INTO owner_labels (owner_id, tag_id, deleted_at) VALUES (?,?,NULL)", k+1, tg).Error)
				if twins {
					fail("ins", db.Exec("INSERT INTO owner_labels (owner_id, tag_id, deleted_at) VALUES (?,?,?)", k+1, k+4, t1).Error)
				}
			}
			if twins {
				fail("ins", db.Exec("INSERT INTO tags (id, name, deleted_at) VALUES (?,?,?)", tg+100, "t", t1).Error)
				fail("ins", db.Exec("INSERT INTO owner_tags (owner_id, tag_id) VALUES (?,?)", k+1, tg+100).Error)
			}
		}
		fail("ins", db.Exec("INSERT INTO keepers (id, name, deleted_at, org_id) VALUES (?,?,NULL,?)", k+1, "k", k+1).Error)
		fail("ins", db.Exec("INSERT INTO pets (id, keeper_id) VALUES (?,?)", k+1, k+1).Error)
		fail("ins", db.Exec("INSERT INTO wards (id, keeper_id, deleted_at) VALUES (?,?,NULL)", k+1, k+1).Error)
		if twins {
			fail("ins", db.Exec("INSERT INTO wards (id, keeper_id, deleted_at) VALUES (?,?,?)", k+101, k+1, t1).Error)
			fail("ins", db.Exec("INSERT INTO keepers (id, name, deleted_at, org_id) VALUES (?,?,?,?)", k+101, "k", t1, k+1).Error)
			fail("ins", db.Exec("INSERT INTO pets (id, keeper_id) VALUES (?,?)", k+11, k+101).Error)
		}
	}
	for _, r := range in.Rows {
		fail("ins", db.Exec("INSERT INTO kids (id, owner_id, age, deleted_at) VALUES (?,?,?,NULL)", r.ID, r.ID%3+1, r.Age).Error)
		if twins {
			fail("ins", db.Exec("INSERT INTO kids (id, owner_id, age, deleted_at) VALUES (?,?,?,?)", r.ID+100, r.ID%3+1, r.Age, t1).Error)
		}
	}
	var out, uout [][]int64
	kidIDs := func(ks []Kid) []int64 {
		ids := []int64{}
		for _, k := range ks {
			ids = append(ids, k.ID)
		}
		return sorted(ids)
	}
	// Preload, with and without a condition
	var owners []Owner
	fail("preload", db.Preload("Kids").Order("id").Find(&owners).Error)
	for _, o := range owners {
		out = append(out, kidIDs(o.Kids))
	}
	owners = nil
	fail("preload_cond", db.Preload("Kids", "age > ? OR age = ?", 2, 0).Order("id").Find(&owners).Error)
	for _, o := range owners {
		out = append(out, kidIDs(o.Kids))
	}
	// association mode lookups
	for k := int64(1); k <= 3; k++ {
		var kids []Kid
		o := Owner{ID: k}
		fail("assoc_find", db.Model(&o).Association("Kids").Find(&kids))
		out = append(out, kidIDs(kids))
		out = append(out, []int64{db.Model(&o).Association("Kids").Count()})
		kids = nil
		fail("assoc_find_cond", db.Model(&o).Where("age < ? OR age > ?", 1, 3).Association("Kids").Find(&kids))
		out = append(out, kidIDs(kids))
	}
	// association join and preload of a soft-deletable belongs-to target (pets 1..3 only: the
	// twin pets 11..13 exist only with twins and must come back WITHOUT a keeper)
	var pets []Pet
	fail("joins", db.Joins("Keeper").Order("pets.id").Find(&pets).Error)
	ids := []int64{}
	for _, p := range pets {
		if p.ID < 10 {
			if p.Keeper != nil {
				ids = append(ids, p.Keeper.ID)
			} else {
				ids = append(ids, 0)
			}
		} else if p.Keeper != nil {
			errs = append(errs, fmt.Sprintf("joins: pet %d got soft-deleted keeper %d", p.ID, p.Keeper.ID))
		}
	}
	out = append(out, ids)
	pets = nil
	fail("preload_belongs", db.Preload("Keeper").Order("id").Find(&pets).Error)
	ids = []int64{}
	for _, p := range pets {
		if p.ID < 10 {
			if p.Keeper != nil {
				ids = append(ids, p.Keeper.ID)
			} else {
				ids = append(ids, 0)
			}
		} else if p.Keeper != nil {
			errs = append(errs, fmt.Sprintf("preload: pet %d got soft-deleted keeper %d", p.ID, p.Keeper.ID))
		}
	}
	out = append(out, ids)
	// inner join on the association: pets of soft-deleted keepers are not returned at all
	pets = nil
	fail("innerjoins", db.InnerJoins("Keeper").Order("pets.id").Find(&pets).Error)
	ids = []int64{}
	for _, p := range pets {
		ids = append(ids, p.ID)
	}
	out = append(out, ids)
	// joins with explicit ON conditions given as a *gorm.DB
	keeperIDs := func(ps []Pet, onlyLivePets bool) []int64 {
		ids := []int64{}
		for _, p := range ps {
			if onlyLivePets && p.ID >= 10 {
				if p.Keeper != nil {
					errs = append(errs, fmt.Sprintf("join-on: pet %d got soft-deleted keeper %d", p.ID, p.Keeper.ID))
				}
				continue
			}
			if p.Keeper != nil {
				ids = append(ids, p.Keeper.ID)
			} else {
				ids = append(ids, 0)
			}
		}
		return ids
	}
	pets = nil
	fail("joins_on", db.Joins("Keeper", db.Where("name = ?", "k")).Order("pets.id").Find(&pets).Error)
	out = append(out, keeperIDs(pets, true))
	pets = nil
	fail("innerjoins_on", db.InnerJoins("Keeper", db.Where("name = ? OR name = ?", "k", "zz")).Order("pets.id").Find(&pets).Error)
	ids = []int64{}
	for _, p := range pets {
		ids = append(ids, p.ID)
	}
	out = append(out, ids)
	// ON conditions that are a chain with an OR alternative (two units, not one raw string)
	pets = nil
	fail("joins_on_or", db.Joins("Keeper", db.Where("name = ?", "zz").Or("name = ?", "k")).Order("pets.id").Find(&pets).Error)
	out = append(out, keeperIDs(pets, true))
	pets = nil
	fail("innerjoins_on_or", db.InnerJoins("Keeper", db.Where("name = ?", "zz").Or("name = ?", "k")).Order("pets.id").Find(&pets).Error)
	ids = []int64{}
	for _, p := range pets {
		ids = append(ids, p.ID)
	}
	out = append(out, ids)
	// Unscoped: the marked rows are visible again, also through joins and preloads
	pets = nil
	fail("unscoped_joins", db.Unscoped().Joins("Keeper").Order("pets.id").Find(&pets).Error)
	uout = append(uout, keeperIDs(pets, false))
	pets = nil
	fail("unscoped_innerjoins", db.Unscoped().InnerJoins("Keeper").Order("pets.id").Find(&pets).Error)
	ids = []int64{}
	for _, p := range pets {
		ids = append(ids, p.ID)
	}
	for i := range ids { // report keeper-side ids so that twin = original + 100 holds
		if ids[i] > 10 {
			ids[i] += 90
		}
	}
	uout = append(uout, ids)
	owners = nil
	fail("unscoped_preload", db.Preload("Kids", func(d *gorm.DB) *gorm.DB { return d.Unscoped() }).Order("id").Find(&owners).Error)
	for _, o := range owners {
		uout = append(uout, kidIDs(o.Kids))
	}
	// many2many targets: preload and association lookups, scoped and Unscoped
	tagIDs := func(ts []Tag) []int64 {
		ids := []int64{}
		for _, t := range ts {
			ids = append(ids, t.ID)
		}
		return sorted(ids)
	}
	{
		var os []Owner
		fail("m2m_preload", db.Preload("Tags").Order("id").Find(&os).Error)
		for _, o := range os {
			out = append(out, tagIDs(o.Tags))
		}
		os = nil
		fail("m2m_preload_cond", db.Preload("Tags", "name = ? OR name = ?", "t", "zz").Order("id").Find(&os).Error)
		for _, o := range os {
			out = append(out, tagIDs(o.Tags))
		}
		os = nil
		fail("m2m_unscoped_preload", db.Preload("Tags", func(d *gorm.DB) *gorm.DB { return d.Unscoped() }).Order("id").Find(&os).Error)
		for _, o := range os {
			uout = append(uout, tagIDs(o.Tags))
		}
		for k := int64(1); k <= 3; k++ {
			var ts []Tag
			fail("m2m_assoc_find", db.Model(&Owner{ID: k}).Association("Tags").Find(&ts))
			out = append(out, tagIDs(ts))
			out = append(out, []int64{db.Model(&Owner{ID: k}).Association("Tags").Count()})
			ts = nil
			fail("m2m_assoc_unscoped_find", db.Unscoped().Model(&Owner{ID: k}).Association("Tags").Find(&ts))
			uout = append(uout, tagIDs(ts))
		}
	}
	// association lookups through a join model with its own soft-delete column (the related model
	// soft-deletes too): marked links are not followed
	for k := int64(1); k <= 3; k++ {
		var ts []Tag
		fail("label_assoc_find", db.Model(&Owner{ID: k}).Association("Labels").Find(&ts))
		out = append(out, tagIDs(ts))
		out = append(out, []int64{db.Model(&Owner{ID: k}).Association("Labels").Count()})
		ts = nil
		fail("label_assoc_find_or", db.Model(&Owner{ID: k}).Where("name = ? OR name = ?", "t", "zz").Association("Labels").Find(&ts))
		out = append(out, tagIDs(ts))
	}
	// a sub-select over a soft-delete model keeps its own filter inside an Unscoped statement
	{
		var ps []Pet
		fail("subquery_under_unscoped", db.Unscoped().Where("keeper_id IN (?)", db.Model(&Keeper{}).Select("id").Where("name = ?", "k")).Order("id").Find(&ps).Error)
		ids := []int64{}
		for _, p := range ps {
			ids = append(ids, p.ID)
		}
		out = append(out, ids)
		var n int64
		fail("subquery_under_unscoped_count", db.Unscoped().Model(&Pet{}).Where("keeper_id IN (?)", db.Model(&Keeper{}).Select("id")).Count(&n).Error)
		out = append(out, []int64{n})
	}
	// a nested join THROUGH the soft-deletable keeper: a marked keeper (and what lies behind it) is
	// not joined, and an inner join does not match through it
	pets = nil
	fail("nested_joins", db.Joins("Keeper.Org").Order("pets.id").Find(&pets).Error)
	ids = []int64{}
	for _, p := range pets {
		if p.ID < 10 {
			if p.Keeper != nil && p.Keeper.Org != nil {
				ids = append(ids, p.Keeper.ID, p.Keeper.Org.ID)
			} else {
				ids = append(ids, 0, 0)
			}
		} else if p.Keeper != nil {
			errs = append(errs, fmt.Sprintf("nested joins: pet %d got soft-deleted keeper %d", p.ID, p.Keeper.ID))
		}
	}
	out = append(out, ids)
	pets = nil
	fail("nested_innerjoins", db.InnerJoins("Keeper.Org").Order("pets.id").Find(&pets).Error)
	ids = []int64{}
	for _, p := range pets {
		ids = append(ids, p.ID)
	}
	out = append(out, ids)
	// a preload nested under a joined relation, scoped and Unscoped, slice and single destination
	wardIDs := func(k *Keeper) []int64 {
		ids := []int64{}
		if k != nil {
			for _, w := range k.Wards {
				ids = append(ids, w.ID)
			}
		}
		return sorted(ids)
	}
	pets = nil
	fail("joins_nested_preload", db.Joins("Keeper").Preload("Keeper.Wards").Order("pets.id").Find(&pets).Error)
	for _, p := range pets {
		if p.ID < 10 {
			out = append(out, wardIDs(p.Keeper))
		}
	}
	pets = nil
	fail("unscoped_joins_nested_preload", db.Unscoped().Joins("Keeper").Preload("Keeper.Wards").Order("pets.id").Find(&pets).Error)
	for _, p := range pets {
		if p.ID < 10 {
			uout = append(uout, wardIDs(p.Keeper))
		}
	}
	pets = nil
	fail("unscoped_nested_preload", db.Unscoped().Preload("Keeper.Wards").Order("id").Find(&pets).Error)
	for _, p := range pets {
		if p.ID < 10 {
			uout = append(uout, wardIDs(p.Keeper))
		}
	}
	{
		var one Pet
		fail("unscoped_joins_nested_preload_first", db.Unscoped().Joins("Keeper").Preload("Keeper.Wards").First(&one, 2).Error)
		uout = append(uout, wardIDs(one.Keeper))
		var sc Pet
		fail("joins_nested_preload_first", db.Joins("Keeper").Preload("Keeper.Wards").First(&sc, 2).Error)
		out = append(out, wardIDs(sc.Keeper))
	}
	// conditions written as parenthesised groups joined by a top-level OR, on every path that takes
	// conditions (the marked copies satisfy the FIRST group)
	{
		var os []Owner
		fail("preload_groups", db.Preload("Kids", "(age >= ?) OR (age < ?)", 0, 0).Order("id").Find(&os).Error)
		for _, o := range os {
			out = append(out, kidIDs(o.Kids))
		}
		for k := int64(1); k <= 3; k++ {
			var kids []Kid
			fail("assoc_find_groups", db.Model(&Owner{ID: k}).Where("(age >= ? AND age < ?) OR (age > ?)", 0, 99, 99).Association("Kids").Find(&kids))
			out = append(out, kidIDs(kids))
			out = append(out, []int64{db.Model(&Owner{ID: k}).Where("(age >= ?)or(age > ?)", 0, 99).Association("Kids").Count()})
		}
		var ps []Pet
		fail("joins_on_groups", db.Joins("Keeper", db.Where("(name = ?) OR (name = ?)", "k", "zz")).Order("pets.id").Find(&ps).Error)
		out = append(out, keeperIDs(ps, true))
		ps = nil
		fail("innerjoins_on_groups", db.InnerJoins("Keeper", db.Where("(name = ?) OR (name = ?)", "k", "zz")).Order("pets.id").Find(&ps).Error)
		ids := []int64{}
		for _, p := range ps {
			ids = append(ids, p.ID)
		}
		out = append(out, ids)
		os = nil
		fail("m2m_preload_groups", db.Preload("Tags", "(name = ?) OR (name = ?)", "t", "zz").Order("id").Find(&os).Error)
		for _, o := range os {
			out = append(out, tagIDs(o.Tags))
		}
	}
	// Delete of an owner with its soft-deletable kids selected: the kids are marked (removed only
	// under Unscoped), kids that are already marked stay as they are
	{
		kidState := func() map[int64]string {
			st := map[int64]string{}
			rows, err := db.Raw("SELECT id, owner_id, deleted_at FROM kids ORDER BY id").Rows()
			if err != nil {
				fail("kid_state", err)
				return st
			}
			defer rows.Close()
			for rows.Next() {
				var id, owner int64
				var d *string
				rows.Scan(&id, &owner, &d)
				ds := "live"
				if d != nil {
					ds = "marked"
					if id > 100 {
						ds = *d
					}
				}
				st[id] = fmt.Sprintf("%d|%s", owner, ds)
			}
			return st
		}
		before := kidState()
		fail("select_delete", db.Select("Kids").Delete(&Owner{ID: 3}).Error)
		after := kidState()
		for id, v := range before {
			nv, ok := after[id]
			mine := strings.HasPrefix(v, "3|")
			switch {
			case !ok:
				errs = append(errs, fmt.Sprintf("Select(Kids).Delete(owner): kid %d physically removed", id))
			case mine && id < 100 && nv != "3|marked":
				errs = append(errs, fmt.Sprintf("Select(Kids).Delete(owner): kid %d is %s", id, nv))
			case (!mine || id > 100) && nv != v:
				errs = append(errs, fmt.Sprintf("Select(Kids).Delete(owner): kid %d changed %s -> %s", id, v, nv))
			}
		}
		before = after
		fail("unscoped_select_delete", db.Unscoped().Select("Kids").Delete(&Owner{ID: 2}).Error)
		after = kidState()
		for id, v := range before {
			nv, ok := after[id]
			mine := strings.HasPrefix(v, "2|")
			switch {
			case mine && ok:
				errs = append(errs, fmt.Sprintf("Unscoped().Select(Kids).Delete(owner): kid %d still there (%s)", id, nv))
			case !mine && nv != v:
				errs = append(errs, fmt.Sprintf("Unscoped().Select(Kids).Delete(owner): kid %d changed %s -> %s", id, v, nv))
			}
		}
	}
	// association mode WRITES with Association.Unscoped() (no db.Unscoped()): the related rows are
	// deleted through their soft-delete model, i.e. marked and never removed; rows already marked
	// (the twins) stay untouched; the association handle still hides marked rows afterwards
	kidDump := func() map[int64]string {
		st := map[int64]string{}
		rows, err := db.Raw("SELECT id, owner_id, deleted_at FROM kids ORDER BY id").Rows()
		if err != nil {
			fail("kid_dump", err)
			return st
		}
		defer rows.Close()
		for rows.Next() {
			var id int64
			var owner *int64
			var d *string
			rows.Scan(&id, &owner, &d)
			ow, ds := "NULL", "NULL"
			if owner != nil {
				ow = fmt.Sprint(*owner)
			}
			if d != nil {
				ds = "marked"
				if id > 100 {
					ds = *d // a twin's mark must not even be re-stamped
				}
			}
			st[id] = ow + "|" + ds
		}
		return st
	}
	cmp := func(w string, before, after map[int64]string, touched map[int64]bool) {
		for id, v := range before {
			nv, ok := after[id]
			switch {
			case !ok:
				errs = append(errs, fmt.Sprintf("%s: kid %d physically removed", w, id))
			case touched[id] && !strings.HasSuffix(nv, "|marked"):
				errs = append(errs, fmt.Sprintf("%s: kid %d not marked (%s)", w, id, nv))
			case !touched[id] && nv != v:
				errs = append(errs, fmt.Sprintf("%s: kid %d changed %s -> %s", w, id, v, nv))
			}
		}
	}
	if twins {
		// an association-mode Delete WITHOUT Unscoped that names a marked kid leaves it as it is
		for _, r := range in.Rows {
			if r.ID%3+1 == 3 {
				before := kidDump()
				fail("assoc_delete_marked", db.Model(&Owner{ID: 3}).Association("Kids").Delete(&Kid{ID: r.ID + 100}))
				cmp("assoc_delete_marked", before, kidDump(), map[int64]bool{})
				break
			}
		}
	}
	{
		// a fresh handle per write (reading through a handle before writing through it is not part
		// of this property); the Count AFTER a write goes through the handle that wrote
		handle := func() *gorm.Association { return db.Model(&Owner{ID: 1}).Association("Kids") }
		a := handle()
		live := []int64{}
		for _, r := range in.Rows {
			if r.ID%3+1 == 1 {
				live = append(live, r.ID)
			}
		}
		if n := handle().Count(); n != int64(len(live)) {
			errs = append(errs, fmt.Sprintf("assoc count before: %d, want %d", n, len(live)))
		}
		if len(live) > 0 {
			before := kidDump()
			fail("assoc_unscoped_delete", a.Unscoped().Delete(&Kid{ID: live[0]}))
			cmp("assoc_unscoped_delete", before, kidDump(), map[int64]bool{live[0]: true})
			// (a fresh handle: the conditions of an association Delete stay on its handle)
			if n := handle().Count(); n != int64(len(live)-1) {
				errs = append(errs, fmt.Sprintf("assoc count after unscoped delete: %d, want %d", n, len(live)-1))
			}
			live = live[1:]
		}
		before := kidDump()
		a = handle()
		fail("assoc_unscoped_clear", a.Unscoped().Clear())
		t := map[int64]bool{}
		for _, id := range live {
			t[id] = true
		}
		cmp("assoc_unscoped_clear", before, kidDump(), t)
		if n := a.Count(); n != 0 {
			errs = append(errs, fmt.Sprintf("assoc count after unscoped clear: %d, want 0", n))
		}
		// Replace on the next owner
		o2 := Owner{ID: 2}
		t = map[int64]bool{}
		for _, r := range in.Rows {
			if r.ID%3+1 == 2 {
				t[r.ID] = true
			}
		}
		before = kidDump()
		fail("assoc_unscoped_replace", db.Model(&o2).Association("Kids").Unscoped().Replace(&Kid{ID: 90, Age: 1}))
		after := kidDump()
		cmp("assoc_unscoped_replace", before, after, t)
		if after[90] != "2|NULL" {
			errs = append(errs, fmt.Sprintf("assoc_unscoped_replace: new kid is %q", after[90]))
		}
	}
	return out, uout, errs
}

func gOZ(p *int64) string {
	if p == nil {
		return "None"
	}
	return "(Some " + lib.Z(*p) + ")"
}

func term(in Input, o Obs) string {
	byID := map[int]whr.Atom{}
	for _, a := range in.Atoms {
		byID[a.ID] = a
	}
	live := []int64{}
	for _, r := range in.Rows {
		live = append(live, r.ID)
	}
	args := []string{whr.GTable(in.Atoms, o.Texts), whr.GCalls(in.Chain, byID), lib.Nat(liveAtom),
		whr.GRows(o.AllIDs, o.Truth), lib.ZList(live), lib.Str(o.WhereSQL),
		lib.ZList(o.Find), lib.ZList(o.Pluck), lib.ZList(o.RowsIDs), lib.ZList(o.CFind), lib.Z(o.Count), gOZ(o.First), lib.ListOf(o.Batches, lib.ZList),
		lib.ZList(o.NFind), lib.Z(o.NCount), gOZ(o.NFirst),
		lib.ZList(o.Update), lib.ZList(o.NUpdate), lib.ZList(o.UpdTwins),
		lib.ZList(o.Del), lib.ZList(o.NDel), lib.ZList(o.DelTwins), lib.ZList(o.DelAgain),
		lib.ZList(o.UnscopedFind), lib.ZList(o.NUnscopedFind), lib.ZList(o.UnscopedDel),
		lib.ListOf(o.Assoc, lib.ZList), lib.ListOf(o.NAssoc, lib.ZList),
		lib.ListOf(o.UAssoc, lib.ZList), lib.ListOf(o.NUAssoc, lib.ZList), lib.Z(int64(len(o.Errs)))}
	args = append(args, gHist(in, o)...)
	args = append(args, lib.ListOf(in.Rows, func(r Row) string { return lib.Pair(lib.Z(r.ID), lib.Z(r.Age)) }))
	wk := 0
	if len(in.WKeys) > 0 {
		wk = keyAtom
	}
	args = append(args, lib.Nat(wk), lib.Str(o.UpdWhere), lib.Str(o.DelWhere), lib.ZList(o.KUpd), lib.ZList(o.NKUpd), lib.ZList(o.KDel), lib.ZList(o.NKDel))
	return lib.App("mk_case", args...)
}

func main() {
	a := lib.ParseArgs()
	whr.UseSoft = true
	whr.NoIDAtoms = true // a twin differs from its original in the key only
	db, _, _, err := gdb.Open(gdb.Opt{Config: &gorm.Config{NowFunc: func() time.Time { return t2 }}})
	lib.Must(err)
	lib.Must(db.SetupJoinTable(&Owner{}, "Labels", &OwnerLabel{}))
	lib.Must(db.AutoMigrate(&whr.TS{}, &whr.TSZ{}, &TSK{}, &Owner{}, &Kid{}, &Keeper{}, &Pet{}, &Ward{}, &Org{}, &Tag{}, &OwnerLabel{}))
	e := &env{db: db}
	out := lib.NewOut(a.Out, "C08")
	out.PerFile = 60

	hr := lib.NewRng(a.Seed + 7919)
	add := func(kind string, in Input) {
		if kind != "corpus" && kind != "replay" && in.Hist == nil && len(in.Rows) > 0 {
			in.Hist = genHist(hr, in.Rows)
			in.HistComposite = in.Variant == "" && hr.Chance(2, 5)
			if in.WKeys == nil {
				for i, n := 0, 1+hr.Intn(2); i < n; i++ {
					k := lib.Pick(hr, in.Rows).ID
					if hr.Chance(1, 3) {
						k += 100
					}
					in.WKeys = append(in.WKeys, k)
				}
			}
		}
		if kind != "corpus" && kind != "replay" {
			byID := map[int]whr.Atom{}
			for _, a := range in.Atoms {
				byID[a.ID] = a
			}
			if whr.NegatesEmptyIn(in.Chain, byID, false) {
				return // C02's known shape (Not over IN of an empty list)
			}
		}
		o := e.run(in)
		nontriv := len(o.Find) > 0 && len(o.Find) < len(in.Rows)
		out.Add(lib.Case{Term: term(in, o), JSON: map[string]interface{}{"input": in, "observed": o},
			Kind: kind, Shape: whr.Shape(in.Chain), Nontriv: nontriv})
		out.Count("chain_len", fmt.Sprint(len(in.Chain)))
		out.Count("soft_delete_declaration", "value"+in.Variant)
		lead := "none"
		if len(in.Chain) > 0 {
			lead = in.Chain[0].Kind
		}
		out.Count("leading_call", lead)
		for _, c := range in.Chain {
			out.Count("call", c.Kind)
			out.Count("form", c.Unit.Form+"/"+c.Unit.Via)
			if t := strings.TrimSpace(c.Unit.Tmpl); c.Unit.Tree != nil && c.Unit.Tree.HasConnective() && strings.HasPrefix(t, "(") && strings.HasSuffix(t, ")") {
				out.Count("raw_between_parentheses", c.Unit.Tree.Kind+fmt.Sprint(len(c.Unit.Tree.Kids)))
			}
		}
		out.Count("rows_selected", fmt.Sprint(len(o.Find)))
		out.Count("errors", fmt.Sprint(len(o.Errs)))
		for _, op := range in.Hist {
			if op.P != nil && op.P.K == "skey" {
				key := "single"
				if in.HistComposite {
					key = "composite"
				}
				out.Count("slice_named_write", fmt.Sprintf("%s/%s/%d records/%s key", op.K, op.P.Via, len(op.P.IDs), key))
			}
		}
		if strings.Contains(o.WhereSQL, " OR ") || strings.Contains(strings.ToUpper(o.WhereSQL), "OR") {
			out.Count("where_has_or", "yes")
		}
	}
	load := func(f string) Input {
		b, err := os.ReadFile(f)
		lib.Must(err)
		var c struct {
			Case struct {
				Input Input `json:"input"`
			} `json:"case"`
		}
		lib.Must(json.Unmarshal(b, &c))
		return c.Case.Input
	}
	if a.Replay != "" {
		add("replay", load(a.Replay))
		lib.Must(out.Flush())
		return
	}
	for _, f := range lib.CorpusFiles(a.Corpus) {
		add("corpus", load(f))
	}
	r := lib.NewRng(a.Seed)
	{
		in0 := Input{Atoms: whr.GenAtoms(r, names, nicks)}
		g := whr.NewGen(r, in0.Atoms)
		for i, ch := range g.PatternChains(true) {
			add("pattern", Input{Rows: genRows(r), Atoms: in0.Atoms, Chain: ch})
			if i < 6 {
				// the first patterns (no condition, one condition) also on every other declaration
				for _, v := range []string{"ptr", "embedded", "named", "zerovalue", "writeonly", "createonly", "readonly"} {
					add("pattern", Input{Rows: genRows(r), Atoms: in0.Atoms, Chain: ch, Variant: v})
				}
			}
		}
		// raw conditions made of parenthesised groups joined at the top level
		for _, ch := range groupedChains(g) {
			add("pattern", Input{Rows: genRows(r), Atoms: in0.Atoms, Chain: ch})
		}
		for _, v := range []string{"", "ptr", "embedded", "named", "zerovalue", "writeonly", "createonly", "readonly"} {
			add("pattern", Input{Rows: genRows(r), Atoms: in0.Atoms, Variant: v})
			add("pattern", Input{Rows: genRows(r), Atoms: in0.Atoms, Variant: v, SkipHooks: true})
		}
	}
	budget := 300
	if a.Tier == "thorough" {
		budget = 6000
	}
	if a.N > 0 {
		budget = a.N
	}
	for i := 0; i < budget; i++ {
		in := Input{Rows: genRows(r), Atoms: whr.GenAtoms(r, names, nicks)}
		if r.Chance(1, 3) {
			in.Variant = lib.Pick(r, []string{"ptr", "embedded", "named", "zerovalue", "writeonly", "createonly", "readonly"})
		}
		in.SkipHooks = r.Chance(1, 4)
		g := whr.NewGen(r, in.Atoms)
		hostile := r.Chance(1, 2)
		n := r.Range(0, 4)
		if n == 0 && r.Chance(2, 3) {
			n = 1
		}
		for j := 0; j < n; j++ {
			k := lib.Pick(r, []string{"where", "where", "or", "or", "not"})
			var u whr.Unit
			if r.Chance(1, 12) {
				u = whr.EmptyUnit(r)
			} else if r.Chance(1, 8) {
				u = groupedRaw(g, hostile)
			} else {
				u = g.GenUnit(2, hostile, true)
			}
			in.Chain = append(in.Chain, whr.Call{Kind: k, Unit: u})
		}
		kind := "main"
		if hostile {
			kind = "edge"
		}
		add(kind, in)
	}
	out.Extra["rule"] = "chains of 0..4 Where/Not/Or calls in any order (leading Or included), units as in C02 (raw with hostile formatting, ? and @named arguments, map, struct, clause expressions, grouped sub-builders, empty forms), on a soft-delete model (column declared as value field, pointer field, embedded struct field or renamed field with column tag) whose every live row has a soft-deleted twin with identical columns; raw conditions written as parenthesised groups joined by a top-level OR / AND; finishers Find/First/Count/Pluck/Rows/FindInBatches, Update, Delete, repeated Delete, Unscoped Find, Unscoped Delete, Update through a keyed Model value (record or slice) and Delete of a keyed value; each chain is also run on the table with the twins physically removed; every case ends with a history of creates / deletes / updates / reads (records also named through a slice of 0..2 records, single and composite primary key); distinct = chain shapes; non-trivial = a strict non-empty subset of the live rows is selected"
	lib.Must(out.Flush())
}
